(* The prefix theorems for the run the extracted model actually performs: the reader on the cut
   input with the fuel computed from the cut input itself (write_cut_read). *)
From GP Require Import Base NgModel NgIoProofs NgWp NgSafeProofs NgExec NgRoundtrip NgFile NgPrefix NgPrefixFile NgFuel.
From Coq Require Import Lia ZifyBool ZifyNat.
Open Scope Z_scope.

Lemma own_fuel_run ro d F : bytes_ok d -> (fuel_for (zlen d) <= F)%nat ->
  fst (session_flat ro d false) = fst (run_d (session ro F) d).
Proof.
  intros Hb HF. rewrite session_flat_d. rewrite (session_fuel_indep ro _ F d HF); [reflexivity|].
  pose proof (session_flat_ok ro d false Hb) as H. cbv zeta in H. rewrite session_flat_d in H. lia.
Qed.

Lemma fuel_for_le a b : a <= b -> (fuel_for a <= fuel_for b)%nat.
Proof. unfold fuel_for. lia. Qed.

Theorem prefix_file_own ro sec i0 ops pre nxt post k :
  ro_mixed ro = true -> sec_ok sec -> ops_ok [] (WAddIf i0 :: ops) -> zlen ops < 4294967290 ->
  bytes_ok (write_file sec i0 ops) ->
  WAddIf i0 :: ops = pre ++ nxt :: post -> (k < length (enc_op nxt))%nat ->
  let r := write_cut_read ro sec i0 ops (length (enc_shb sec) + length (enc_ops pre) + k) in
  fst (fst (fst r)) = 0 /\ snd (fst (fst r)) = exp_pkts [] pre /\ snd (fst r) = (if (k =? 0)%nat then 1 else 2).
Proof.
  intros Hmix Hsec Hok Hb Hbytes Hsplit Hk. cbv zeta. unfold write_cut_read.
  set (file := write_file sec i0 ops) in *. set (cut := (length (enc_shb sec) + length (enc_ops pre) + k)%nat).
  rewrite (own_fuel_run ro (firstn cut file) (fuel_for (zlen file))).
  - apply (prefix_file ro sec i0 ops pre nxt post k Hmix Hsec Hok Hb Hsplit Hk (fuel_for (zlen file))). apply le_n.
  - apply Forall_firstn. exact Hbytes.
  - apply fuel_for_le. unfold zlen. rewrite firstn_length. lia.
Qed.

Theorem prefix_file_shb_own ro sec i0 ops k :
  ro_mixed ro = true -> sec_ok sec -> ops_ok [] (WAddIf i0 :: ops) -> zlen ops < 4294967290 ->
  bytes_ok (write_file sec i0 ops) -> (k < length (enc_shb sec))%nat ->
  let r := write_cut_read ro sec i0 ops k in
  fst (fst (fst r)) = (if (k =? 0)%nat then 1 else 2) /\ snd (fst (fst r)) = [] /\ snd (fst r) = (if (k =? 0)%nat then 1 else 2).
Proof.
  intros Hmix Hsec Hok Hb Hbytes Hk. cbv zeta. unfold write_cut_read.
  set (file := write_file sec i0 ops) in *.
  rewrite (own_fuel_run ro (firstn k file) (Nat.max 7 (fuel_for (zlen file)))).
  - apply (prefix_file_shb ro sec i0 ops k Hmix Hsec Hok Hb Hk). lia.
  - apply Forall_firstn. exact Hbytes.
  - pose proof (fuel_for_le (zlen (firstn k file)) (zlen file)) as H. unfold zlen in *. rewrite firstn_length in *. lia.
Qed.
