(* C09: the half-connection machine in general, for [fullv]: KeepFrom scripts, page limits, the
   start-never-seen regime, closing flushes and re-opened connections (per-stream accounting).
   An abstract state [gst] (dead / live with the delivery point and the start of the kept bytes,
   or start unknown) follows the events; [gev] says which events are legal and what they carry. *)
From GP Require Import Base C09Model C09Spec C09Seq C09Proofs C09Stream C09Flush C09Keep C09Send C09Cover C09NoNew.
From Coq Require Import Lia ZifyBool ZifyNat.
Ltac Zify.zify_post_hook ::= Z.div_mod_to_equations.
Open Scope Z_scope.

Ltac ex4 o := exists o; split; [|split; [|split]].

(* ---------------------------------------------------------------- checkOverlap, in-order mode, general *)
Lemma qok_tighten : forall S i q lo hi, qok S i lo hi q -> lo <= zlen S -> qok S i lo (zlen S) q.
Proof.
  induction q as [|p t IH]; intros lo hi H Hlo; cbn [qok] in *; [lia|].
  destruct H as (o & H1 & H2 & Hpg & H3). pose proof Hpg as (_ & _ & HpS & _).
  ex4 o; try lia; try assumption. eapply IH; eauto.
Qed.

(* when every page lies inside [s, e] case 6 (a page strictly containing the new bytes) cannot occur *)
Lemma co_loop_keeps_bytes2 : forall S i w0 hi s e,
  w0 <= s -> s <= e -> e <= hi -> hi <= HI w0 ->
  forall left right bytes rel tags,
  rok S i s e left ->
  co_bytes (co_loop fixedv (sq i s) (sq i e) left right bytes rel tags) = bytes.
Proof.
  intros S i w0 hi s e Hs Hse He Hhi.
  induction left as [|cur rest IH]; intros right bytes rel tags Hl.
  - reflexivity.
  - cbn [rok] in Hl. destruct Hl as (cs & Hcs & Hce & Hcur & Hrest).
    assert (Hcs' : w0 <= cs) by lia.
    assert (Hce' : cs + plen cur <= w0 + (HALFW - 1)) by (unfold HI in *; lia).
    assert (He' : e <= w0 + (HALFW - 1)) by (unfold HI in *; lia).
    assert (Hex := co_cases_exhaustive S i s e cs cur Hcur).
    pose proof Hcur as Hcur'. destruct Hcur' as (Hc0 & Hcl & HcS & Hcq & Hcb).
    assert (Hrest' : rok S i s e rest) by (eapply rok_weaken; eauto; lia).
    destruct Hex as [C5|[C1|[C3|[C2|[C4|[C6|C0]]]]]].
    + rewrite (co_case5 S i w0 s e cs cur) by (try assumption; lia). apply IH; assumption.
    + rewrite (co_case1 S i w0 s e cs cur) by (try assumption; lia). reflexivity.
    + rewrite (co_case3 S i w0 s e cs cur) by (try assumption; lia). apply IH; assumption.
    + lia.
    + lia.
    + lia.
    + rewrite (co_case0 S i w0 s e cs cur) by (try assumption; lia). apply IH; assumption.
Qed.

(* the new segment starts at the delivery point p; the queue lies at or beyond p *)
Lemma check_overlap_inorder_gen : forall S i q p n ts fl,
  zlen S < HIS -> qok S i p HIS q -> 0 <= p -> 0 <= n -> p + n <= zlen S ->
  let r := check_overlap fullv q (sub S p n) (sq i p) ts fl false in
  c2_panic r = false /\
  exists n', (n' = 0 \/ n' = n) /\ c2_bytes r = sub S p n' /\ qok S i (p + n') HIS (c2_queue r) /\
             (p + n = zlen S -> n' = n).
Proof.
  intros S i q p n ts fl HS Hq Hp0 Hn HnS r. subst r. rewrite check_overlap_full. unfold check_overlap.
  rewrite zlen_sub by lia. rewrite sadd_sq.
  pose proof (qok_bounds _ _ _ _ _ Hq) as Hb.
  assert (Hinv := co_loop_gen S i 0 p HIS p (p + n) ltac:(lia) ltac:(lia) ltac:(lia) ltac:(unfold HIS in *; lia)
                    HIS_HI Hp0 HnS (rev q) [] (sub S p n) 0 [] HIS).
  replace (p + n - p) with n in Hinv by lia.
  destruct Hinv as (Hpk & m1 & m2 & H12 & Hw2 & Hl & Hr & Hby).
  - lia.
  - apply unzip_ok. assumption.
  - cbn [qok]. lia.
  - right. split; [reflexivity|unfold HIS in *; lia].
  - rewrite Hpk. rewrite andb_false_r. cbn [c2_panic c2_bytes c2_queue]. split; [reflexivity|].
    assert (Hfull : p + n = zlen S ->
              co_bytes (co_loop fixedv (sq i p) (sq i (p + n)) (rev q) [] (sub S p n) 0 []) = sub S p n).
    { intros Hend. apply (co_loop_keeps_bytes2 S i 0 HIS p (p + n)); try lia; try apply HIS_HI; try (unfold HIS in *; lia).
      rewrite Hend. apply unzip_ok. apply (qok_tighten S i q p HIS); [exact Hq|lia]. }
    destruct (Z.eq_dec n 0) as [Hn0|Hn0].
    + exists 0. split; [left; reflexivity|]. split.
      * destruct Hby as [Hby|(Hby & _)]; rewrite Hby; [reflexivity|rewrite Hn0; reflexivity].
      * split; [|intros; lia]. rewrite Z.add_0_r.
        eapply (zip_ok S i _ _ p m1 m2 HIS); try lia; assumption.
    + destruct Hby as [Hby|(Hby & Hm1 & Hm2)].
      * exists 0. split; [left; reflexivity|]. split; [rewrite Hby; reflexivity|]. split.
        -- rewrite Z.add_0_r. eapply (zip_ok S i _ _ p m1 m2 HIS); try lia; assumption.
        -- intros Hend. specialize (Hfull Hend). rewrite Hby in Hfull.
           assert (Hz : zlen (sub S p n) = n) by (apply zlen_sub; lia). rewrite <- Hfull in Hz. cbn in Hz. lia.
      * exists n. split; [right; reflexivity|]. split; [exact Hby|]. split; [|intros; reflexivity].
        assert (Hnil : co_left (co_loop fixedv (sq i p) (sq i (p + n)) (rev q) [] (sub S p n) 0 []) = []).
        { eapply rok_empty; eauto. lia. }
        rewrite Hnil. cbn [rev app]. eapply qok_weaken; eauto; lia.
Qed.

(* queue mode for fullv *)
Lemma check_overlap_queue_full : forall S i w q s n ts fl,
  zlen S < HIS -> qok S i w HIS q -> 0 <= w -> w <= s -> 0 <= n -> s + n <= zlen S ->
  let r := check_overlap fullv q (sub S s n) (sq i s) ts fl true in
  c2_panic r = false /\ qok S i w HIS (c2_queue r).
Proof.
  intros S i w q s n ts fl HS Hq Hw Hws Hn HnS r. subst r. rewrite check_overlap_full.
  apply (check_overlap_queue S i 0 w HIS q s n ts fl); try lia; try assumption; try apply HIS_HI.
Qed.

(* ---------------------------------------------------------------- abstract state and events *)
(* dead: no connection in the pool.  live: start unknown (None) or the kept bytes start at A and the
   delivery point is p (Some (A, p)); ended: the data half is closed (FIN/RST delivered, or closed
   by a flush) while the connection is still in the pool *)
Inductive gst := GDead | GLive (kn : option (Z * Z)) (ended : bool).

(* a SYN makes the start known *)
Definition gnote (g : gst) (syn : bool) : gst :=
  match g with
  | GLive None false => if syn then GLive (Some (0, 0)) false else g
  | _ => g
  end.

Definition lo_of (kn : option (Z * Z)) : Z := match kn with None => 0 | Some (_, p) => p end.

(* the queue against the ranges R received by the stream (Model/C09Spec.v, o_recv): every received
   byte at or beyond the delivery point is held, every held byte was received, and the delivery point
   does not lie beyond everything received *)
Definition rcv_ok (S : list Z) (i : Z) (R : list (Z * Z)) (kn : option (Z * Z)) (q : list page) : Prop :=
  Rpos R /\ Forall (fun r => 0 <= fst r) R /\
  (forall x, inR R x -> lo_of kn <= x -> covl S i q x) /\ (forall x, covl S i q x -> inR R x) /\
  match kn with Some (_, p) => R = [] \/ p <= max_recv R | None => True end.

Section WithR.
(* the received ranges, after the segment of the current step has been noted *)
Variable R : list (Z * Z).

(* what one event may be and do.  allow: data beyond a gap may be released in this step (a flush,
   or a page limit is configured).  nc: ReassembledSG calls so far (index into the KeepFrom script). *)
Definition gev (S : list Z) (c : cfg) (allow syn : bool) (nc : nat) (g : gst) (e : event) (g' : gst) : Prop :=
  match e with
  | ETag _ => g' = g
  | EPanic _ => False
  | ENew _ => g = GDead /\ g' = gnote (GLive None false) syn
  | EDone _ =>
    (* completion: the data half was ended by FIN/RST, or everything received has been delivered *)
    (exists kn en, g = GLive kn en /\
       (en = true \/ match kn with
                     | Some (_, p) => max_recv R <= p /\ (R = [] \/ p <= max_recv R)
                     | None => R = []
                     end)) /\ g' = GDead
  | ESG _ b _ en skip avail saved =>
    exists kn a e', g = GLive kn false /\ 0 <= a /\ a <= e' /\ e' <= zlen S /\
      match kn with
      | Some (A, p) => 0 <= A /\ A <= p /\ p <= a /\ (a = p \/ allow = true) /\ (p < a -> hits R p a = false)
      | None => a = min_recv R
      end /\
      skip = sg_skip kn a /\ saved = a - sg_start kn a /\ avail = e' - sg_start kn a /\
      b = sub S (sg_start kn a) (e' - sg_start kn a) /\
      g' = GLive (Some ((if (0 <=? keep_choice c nc avail saved) && (keep_choice c nc avail saved <? avail)
                         then sg_start kn a + keep_choice c nc avail saved else e'), e')) en
  end.

Definition is_sg (e : event) : bool := match e with ESG _ _ _ _ _ _ _ => true | _ => false end.
Definition nsg (evs : list event) : nat := length (filter is_sg evs).

Fixpoint gevs (S : list Z) (c : cfg) (allow syn : bool) (nc : nat) (g : gst) (evs : list event) (g' : gst) : Prop :=
  match evs with
  | [] => g' = g
  | e :: t => exists gm, gev S c allow syn nc g e gm /\
                         gevs S c allow syn (if is_sg e then Datatypes.S nc else nc) gm t g'
  end.

Lemma gevs_app : forall S c allow syn a nc g gm b g',
  gevs S c allow syn nc g a gm -> gevs S c allow syn (nc + nsg a)%nat gm b g' -> gevs S c allow syn nc g (a ++ b) g'.
Proof.
  intros S c allow syn. induction a as [|e t IH]; intros nc g gm b g' Ha Hb; cbn [app gevs] in *.
  - subst gm. unfold nsg in Hb. cbn in Hb. rewrite Nat.add_0_r in Hb. exact Hb.
  - destruct Ha as (g1 & He & Ht). exists g1. split; [exact He|].
    eapply IH; [exact Ht|]. unfold nsg in *. cbn [filter] in Hb.
    destruct (is_sg e); cbn [length] in Hb.
    + replace (Datatypes.S nc + length (filter is_sg t))%nat with (nc + Datatypes.S (length (filter is_sg t)))%nat by lia.
      exact Hb.
    + exact Hb.
Qed.

Lemma gevs_tags : forall S c allow syn nc g l, gevs S c allow syn nc g (map ETag l) g.
Proof.
  intros S c allow syn nc g. induction l as [|x t IH]; cbn [map gevs]; [reflexivity|].
  exists g. split; [reflexivity|exact IH].
Qed.

Lemma nsg_tags : forall l, nsg (map ETag l) = O.
Proof. induction l as [|x t IH]; [reflexivity|]. exact IH. Qed.

Lemma nsg_app : forall a b, nsg (a ++ b) = (nsg a + nsg b)%nat.
Proof. intros. unfold nsg. rewrite filter_app, app_length. reflexivity. Qed.

(* ---------------------------------------------------------------- send + close *)
Lemma deliver : forall S i c s h used r0 a kn allow syn,
  zlen S < HIS -> s_exists s = true -> s_cfg s = c -> h_closed h = false ->
  cok S i a r0 -> qok S i (a + clen r0) HIS (h_queue h) -> known_ok S i h kn a ->
  match kn with Some (_, p) => a = p \/ allow = true | None => True end ->
  match kn with Some (_, p) => p < a -> hits R p a = false | None => a = min_recv R end ->
  Rpos R -> Forall (fun r => 0 <= fst r) R -> (forall x, inR R x -> a + clen r0 <= x -> covl S i (h_queue h) x) ->
  (forall x, covl S i (h_queue h) x -> inR R x) -> (R = [] \/ a + clen r0 <= max_recv R) ->
  exists s1 e' ev g',
    send_st fullv s h used r0 = (s1, sq i e', ev, false) /\
    gevs S c allow syn (s_ncalls s) (GLive kn false) ev g' /\ nsg ev = 1%nat /\
    a + clen r0 <= e' /\ e' <= zlen S /\
    s_cfg s1 = c /\ s_ncalls s1 = Datatypes.S (s_ncalls s) /\ s_rev_seen s1 = s_rev_seen s /\ s_sid s1 = s_sid s /\
    match g' with
    | GDead => s_exists s1 = false /\ h_closed (s_half s1) = true
    | GLive kn' en =>
      s_exists s1 = true /\ h_closed (s_half s1) = en /\ s_rev_closed s1 = s_rev_closed s /\
      (en = true -> s_rev_closed s1 = false) /\
      exists A', kn' = Some (A', e') /\
        (en = false -> h_next (s_half s1) = h_next h /\ 0 <= A' /\ sok S i A' e' (h_saved (s_half s1)) /\
                       qok S i (e' + 1) HIS (h_queue (s_half s1)) /\ (h_queue h = [] -> cend r0 = false) /\
                       rcv_ok S i R (Some (A', e')) (h_queue (s_half s1)))
    end.
Proof.
  intros S i c s h used r0 a kn allow syn HS Hex Hcfg Hop Hc Hq Hk Hal Hskip HRp HRn HC1 HC2 HI3.
  assert (Hrcv : forall e', sr_next (send fullv c h used r0 (s_sid s) (s_ncalls s)) = sq i e' ->
                   a + clen r0 <= e' -> e' <= zlen S -> forall A',
                   rcv_ok S i R (Some (A', e')) (h_queue (sr_half (send fullv c h used r0 (s_sid s) (s_ncalls s))))).
  { intros e' Hnx He1 He2 A'. pose proof Hc as (Ha0 & HaS & Hcq & _).
    destruct (send_cover S i c h used r0 (s_sid s) (s_ncalls s) a e' HS Hcq Ha0 HaS Hq Hnx He1 He2) as (K1 & K2 & _).
    unfold rcv_ok. cbn [lo_of]. split; [exact HRp|]. split; [exact HRn|]. split; [|split].
    - intros x Hx Hge. apply K1; [apply HC1; [exact Hx|lia]|exact Hge].
    - intros x Hx. apply HC2. apply K2. exact Hx.
    - destruct (Z.eq_dec e' (a + clen r0)) as [He|He]; [rewrite He; exact HI3|].
      right. assert (Hl := send_last_held S i c h used r0 (s_sid s) (s_ncalls s) a e' HS Hcq Ha0 HaS Hq Hnx ltac:(lia) He2).
      apply HC2 in Hl. apply inR_max in Hl. lia. }
  destruct (send_gen S i c h used r0 (s_sid s) (s_ncalls s) kn a HS Hc Hq Hk)
    as (e' & saved2 & q1 & tg & st0 & Hr).
  cbv zeta in Hr.
  destruct Hr as (Hpk & Hnx & Hev & Hsv & Hqu & Hnext & Hcl & He1 & He2 & HA' & Hend & Hq1 & Hsok).
  pose proof Hc as (Ha0 & _).
  set (A' := sg_start kn a) in *.
  set (k := keep_choice c (s_ncalls s) (e' - A') (a - A')) in *.
  set (Anew := if (0 <=? k) && (k <? e' - A') then A' + k else e') in *.
  pose proof (clen_nonneg r0) as Hcn.
  assert (HAn : 0 <= Anew) by (subst Anew; destruct ((0 <=? k) && (k <? e' - A')) eqn:E; lia).
  assert (Hkn : match kn with
                | Some (A, p) => 0 <= A /\ A <= p /\ p <= a /\ (a = p \/ allow = true) /\ (p < a -> hits R p a = false)
                | None => a = min_recv R
                end).
  { destruct kn as [(A, p)|]; [|exact Hskip]. cbn [known_ok] in Hk. destruct Hk as (_ & HA & Hs & Hpa).
    pose proof (sok_range _ _ _ _ _ Hs). auto 10. }
  assert (Hsg : forall en, gev S c allow syn (s_ncalls s) (GLive kn false)
                  (ESG (s_sid s) (sub S A' (e' - A')) st0 en (sg_skip kn a) (e' - A') (a - A'))
                  (GLive (Some (Anew, e')) en)).
  { intros en. cbn [gev]. exists kn, a, e'. split; [reflexivity|]. split; [lia|]. split; [pose proof (clen_nonneg r0); lia|].
    split; [lia|]. split; [exact Hkn|]. repeat split; reflexivity. }
  unfold send_st. rewrite Hcfg. rewrite Hpk.
  set (r := send fullv c h used r0 (s_sid s) (s_ncalls s)) in *.
  destruct (sr_end r) eqn:Eend.
  - (* End: the half is closed *)
    unfold close_c2s. cbn [s_half s_rev_closed s_cfg s_exists s_rev_seen s_used s_sid s_ncalls].
    destruct (s_rev_closed s) eqn:Erc.
    + eexists. exists e'. eexists. exists GDead. split; [rewrite Hnx; reflexivity|].
      split.
      { rewrite Hev. rewrite <- app_assoc. eapply gevs_app; [apply gevs_tags|]. rewrite nsg_tags, Nat.add_0_r.
        cbn [app gevs is_sg]. exists (GLive (Some (Anew, e')) true). split; [apply Hsg|].
        exists GDead. split; [|reflexivity]. cbn [gev]. split; [eauto 6|reflexivity]. }
      split; [rewrite Hev; rewrite nsg_app, nsg_app, nsg_tags; reflexivity|].
      cbn [s_cfg s_ncalls s_rev_seen s_sid s_exists s_half h_closed]. repeat split; try reflexivity; lia.
    + eexists. exists e'. eexists. exists (GLive (Some (Anew, e')) true). split; [rewrite Hnx; reflexivity|].
      split.
      { rewrite Hev. rewrite app_nil_r. eapply gevs_app; [apply gevs_tags|]. rewrite nsg_tags, Nat.add_0_r.
        cbn [gevs is_sg]. exists (GLive (Some (Anew, e')) true). split; [apply Hsg|reflexivity]. }
      split; [rewrite Hev; rewrite app_nil_r, nsg_app, nsg_tags; reflexivity|].
      cbn [s_cfg s_ncalls s_rev_seen s_sid s_exists s_half s_rev_closed h_closed].
      split; [lia|]. split; [lia|]. split; [reflexivity|]. split; [reflexivity|]. split; [reflexivity|]. split; [reflexivity|].
      split; [exact Hex|]. split; [reflexivity|]. split; [reflexivity|]. split; [intros _; reflexivity|].
      exists Anew. split; [reflexivity|]. intros Hc0; discriminate.
  - eexists. exists e'. eexists. exists (GLive (Some (Anew, e')) false). split; [rewrite Hnx; reflexivity|].
    split.
    { rewrite Hev. eapply gevs_app; [apply gevs_tags|]. rewrite nsg_tags, Nat.add_0_r.
      cbn [gevs is_sg]. exists (GLive (Some (Anew, e')) false). split; [apply Hsg|reflexivity]. }
    split; [rewrite Hev; rewrite nsg_app, nsg_tags; reflexivity|].
    cbn [s_cfg s_ncalls s_rev_seen s_sid s_exists s_half s_rev_closed].
    split; [lia|]. split; [lia|]. split; [reflexivity|]. split; [reflexivity|]. split; [reflexivity|]. split; [reflexivity|].
    split; [exact Hex|]. split; [rewrite Hcl; exact Hop|]. split; [reflexivity|]. split; [intros Hc0; discriminate|].
    exists Anew. split; [reflexivity|]. intros _.
    split; [exact Hnext|]. split; [exact HAn|]. split; [rewrite Hsv; exact Hsok|]. split; [rewrite Hqu; exact Hq1|].
    split; [intros Hq0; rewrite <- (Hend Hq0); reflexivity|].
    apply Hrcv; [exact Hnx|lia|lia].
Qed.

(* ---------------------------------------------------------------- AssembleWithContext in pieces *)
(* the two branches of handleBytes and the rest of AssembleWithContext, copied from the model
   (assemble_unfold below checks by conversion that they are the same terms) *)
Definition asm_queue_body (v : variant) (s : st) (evn tg0 : list event) (h : half) (seq : Z) (g : segment)
  : st * list event * bool :=
  let lend_ := g_rst g || g_fin g in
  let r := check_overlap v (h_queue h) (g_bytes g) seq (g_ts g) lend_ true in
  let tags := map ETag (c2_tags r) in
  if c2_panic r then (set_half s h, evn ++ tg0 ++ tags ++ [EPanic 1], true)
  else
    let pages1 := h_pages h - c2_rel r + c2_added r in
    let used1 := s_used s - c2_rel r + c2_added r in
    let h1 := mkHalf pages1 (h_saved h) (c2_queue r) (h_next h) (h_seen h) (h_closed h) in
    if limit_hit (s_cfg s) pages1 used1 then
      match c2_queue r with
      | [] =>
        (mkSt (s_cfg s) (s_exists s) h1 (s_rev_closed s) (s_rev_seen s) used1 (s_sid s) (s_ncalls s),
         evn ++ tg0 ++ tags, false)
      | p :: q' =>
        let h2 := mkHalf pages1 (h_saved h) q' (h_next h) (h_seen h) (h_closed h) in
        let '(s1, nextSeq, ev, pk) := send_st v s h2 used1 (CPage p) in
        let s2 :=
          if nextSeq =? INVALID then s1
          else set_half s1 (set_next (s_half s1)
                 (if g_fin g && negb (v_fin v) then sadd nextSeq 1 else nextSeq)) in
        (s2, evn ++ tg0 ++ tags ++ ETag 12 :: ev, pk)
      end
    else
      (mkSt (s_cfg s) (s_exists s) h1 (s_rev_closed s) (s_rev_seen s) used1 (s_sid s) (s_ncalls s),
       evn ++ tg0 ++ tags, false).

Definition asm_inorder_body (v : variant) (s : st) (evn tg0 : list event) (h : half) (seq : Z) (g : segment)
  : st * list event * bool :=
  let lend_ := g_rst g || g_fin g in
  let '(b1, seq1, pk0) := overlap_existing v (h_next h) seq (g_bytes g) in
  if pk0 then (set_half s h, evn ++ tg0 ++ [EPanic 2], true)
  else
    let r := check_overlap v (h_queue h) b1 seq1 (g_ts g) lend_ false in
    let tags := map ETag (c2_tags r) ++
                (if (0 <? zlen (g_bytes g)) && (zlen (c2_bytes r) =? 0) then [ETag 11] else []) in
    if c2_panic r then (set_half s h, evn ++ tg0 ++ tags ++ [EPanic 3], true)
    else
      let pages1 := h_pages h - c2_rel r in
      let used1 := s_used s - c2_rel r in
      let h1 := mkHalf pages1 (h_saved h) (c2_queue r) (h_next h) (h_seen h) (h_closed h) in
      if (0 <? zlen (c2_bytes r)) || lend_ || g_syn g then
        let lp := mkLive (c2_bytes r) seq1 (g_syn g) lend_ (g_ts g) in
        let '(s1, nextSeq, ev, pk) := send_st v s h1 used1 (CLive lp) in
        let s2 :=
          if nextSeq =? INVALID then s1
          else set_half s1 (set_next (s_half s1) (if g_fin g then sadd nextSeq 1 else nextSeq)) in
        (s2, evn ++ tg0 ++ tags ++ ev, pk)
      else
        (mkSt (s_cfg s) (s_exists s) h1 (s_rev_closed s) (s_rev_seen s) used1 (s_sid s) (s_ncalls s),
         evn ++ tg0 ++ tags, false).

Definition asm_body (v : variant) (s : st) (evn : list event) (g : segment) : st * list event * bool :=
  let h0 := s_half s in
  let h := mkHalf (h_pages h0) (h_saved h0) (h_queue h0) (h_next h0)
                  (if h_seen h0 <? g_ts g then g_ts g else h_seen h0) (h_closed h0) in
  let start := ((h_next h =? INVALID) && g_syn g) || g_force g in
  if h_closed h then (set_half s h, evn, false)
  else
    let '(seq, next1, queue, tg0) :=
      if h_next h =? INVALID then
        if g_syn g then (sadd (g_seq g) 1, sadd (g_seq g) 1, false,
                         (match h_queue h with [] => [] | _ => [ETag 18] end))
        else if start then (g_seq g, g_seq g, false, [ETag 17])
        else (g_seq g, INVALID, true, [])
      else
        let seq := if v_syn v && g_syn g then sadd (g_seq g) 1 else g_seq g in
        (seq, h_next h, (diffv v (h_next h) seq >? 0), []) in
    if queue then asm_queue_body v s evn tg0 (set_next h next1) seq g
    else asm_inorder_body v s evn tg0 (set_next h next1) seq g.

Lemma assemble_unfold : forall v s0 g,
  assemble v s0 g =
  if s_exists s0 then asm_body v s0 [] g
  else asm_body v (mkSt (s_cfg s0) true (new_half (g_ts g)) false (g_ts g) (s_used s0)
                        (Datatypes.S (s_sid s0)) (s_ncalls s0))
                [ENew (Datatypes.S (s_sid s0))] g.
Proof. intros. unfold assemble. destruct (s_exists s0); reflexivity. Qed.

(* ---------------------------------------------------------------- the invariant *)
(* StreamFactory.New is reported first, by a segment that finds no connection in the pool *)
Lemma asm_queue_body_nonew : forall v s evn tg0 h seq g, nonew tg0 ->
  exists rest, snd (fst (asm_queue_body v s evn tg0 h seq g)) = evn ++ rest /\ nonew rest.
Proof.
  intros v s evn tg0 h seq g Ht. unfold asm_queue_body.
  set (r := check_overlap v (h_queue h) (g_bytes g) seq (g_ts g) (g_rst g || g_fin g) true).
  destruct (c2_panic r).
  { eexists. split; [reflexivity|]. apply nonew_app; [exact Ht|]. apply nonew_app; [apply nonew_tags|reflexivity]. }
  destruct (limit_hit _ _ _).
  2:{ eexists. split; [reflexivity|]. apply nonew_app; [exact Ht|apply nonew_tags]. }
  destruct (c2_queue r) as [|p q'].
  { eexists. split; [reflexivity|]. apply nonew_app; [exact Ht|apply nonew_tags]. }
  set (h2 := mkHalf _ _ _ _ _ _). set (u := s_used s - c2_rel r + c2_added r).
  pose proof (send_st_nonew v s h2 u (CPage p)) as Hs.
  destruct (send_st v s h2 u (CPage p)) as [[[s1 nx] ev] pk]. cbn [fst snd] in *.
  eexists. split; [reflexivity|]. apply nonew_app; [exact Ht|]. apply nonew_app; [apply nonew_tags|].
  change (ETag 12 :: ev) with ([ETag 12] ++ ev). apply nonew_app; [reflexivity|exact Hs].
Qed.

Lemma asm_inorder_body_nonew : forall v s evn tg0 h seq g, nonew tg0 ->
  exists rest, snd (fst (asm_inorder_body v s evn tg0 h seq g)) = evn ++ rest /\ nonew rest.
Proof.
  intros v s evn tg0 h seq g Ht. unfold asm_inorder_body.
  destruct (overlap_existing v (h_next h) seq (g_bytes g)) as [[b1 seq1] pk0].
  destruct pk0.
  { eexists. split; [reflexivity|]. apply nonew_app; [exact Ht|reflexivity]. }
  set (r := check_overlap v (h_queue h) b1 seq1 (g_ts g) (g_rst g || g_fin g) false).
  assert (Htg : nonew (map ETag (c2_tags r) ++
                       (if (0 <? zlen (g_bytes g)) && (zlen (c2_bytes r) =? 0) then [ETag 11] else []))).
  { apply nonew_app; [apply nonew_tags|]. destruct ((0 <? zlen (g_bytes g)) && (zlen (c2_bytes r) =? 0)); reflexivity. }
  destruct (c2_panic r).
  { eexists. split; [reflexivity|]. apply nonew_app; [exact Ht|]. apply nonew_app; [exact Htg|reflexivity]. }
  destruct ((0 <? zlen (c2_bytes r)) || (g_rst g || g_fin g) || g_syn g).
  2:{ eexists. split; [reflexivity|]. apply nonew_app; [exact Ht|exact Htg]. }
  set (h1 := mkHalf _ _ _ _ _ _). set (lp := CLive _).
  pose proof (send_st_nonew v s h1 (s_used s - c2_rel r) lp) as Hs.
  destruct (send_st v s h1 (s_used s - c2_rel r) lp) as [[[s1 nx] ev] pk]. cbn [fst snd] in *.
  eexists. split; [reflexivity|]. apply nonew_app; [exact Ht|]. apply nonew_app; [exact Htg|exact Hs].
Qed.

Lemma asm_body_nonew : forall v s evn g,
  exists rest, snd (fst (asm_body v s evn g)) = evn ++ rest /\ nonew rest.
Proof.
  intros v s evn g. unfold asm_body.
  destruct (h_closed _).
  { exists []. split; [cbn [fst snd]; rewrite app_nil_r; reflexivity|reflexivity]. }
  destruct (h_next _ =? INVALID).
  - destruct (g_syn g).
    + apply asm_inorder_body_nonew. destruct (h_queue _); reflexivity.
    + destruct (_ || g_force g); [apply asm_inorder_body_nonew; reflexivity|apply asm_queue_body_nonew; reflexivity].
  - destruct (diffv v _ _ >? 0); [apply asm_queue_body_nonew; reflexivity|apply asm_inorder_body_nonew; reflexivity].
Qed.

Lemma step_nonew : forall v st o,
  let ev := snd (fst (step v st o)) in
  nonew ev \/ (exists sid rest, ev = ENew sid :: rest /\ nonew rest /\ s_exists st = false /\ exists g, o = OSeg g).
Proof.
  intros v st o. destruct o as [a b|k|g|t tc|]; cbn [step].
  - left; reflexivity.
  - left; reflexivity.
  - rewrite assemble_unfold. destruct (s_exists st) eqn:Hex.
    + left. destruct (asm_body_nonew v st [] g) as (rest & He & Hn). cbn zeta. rewrite He. exact Hn.
    + right. set (s' := mkSt _ _ _ _ _ _ _ _).
      destruct (asm_body_nonew v s' [ENew (Datatypes.S (s_sid st))] g) as (rest & He & Hn).
      exists (Datatypes.S (s_sid st)), rest. cbn zeta. rewrite He. split; [reflexivity|]. split; [exact Hn|]. split; [reflexivity|eauto].
  - left. apply flush_opts_nonew.
  - left. apply flush_all_nonew.
Qed.

Definition half_ok (S : list Z) (i : Z) (kn : option (Z * Z)) (h : half) : Prop :=
  h_closed h = false /\ qok S i (lo_of kn) HIS (h_queue h) /\
  match kn with
  | None => h_next h = INVALID /\ h_saved h = []
  | Some (A, p) => h_next h = sq i p /\ 0 <= A /\ p <= zlen S /\ sok S i A p (h_saved h)
  end.

Definition ginv (c : cfg) (S : list Z) (i : Z) (R0 : list (Z * Z)) (g : gst) (st : st) : Prop :=
  s_cfg st = c /\
  match g with
  | GDead => s_exists st = false
  | GLive kn en => s_exists st = true /\ h_closed (s_half st) = en /\
                   (en = false -> half_ok S i kn (s_half st) /\ rcv_ok S i R0 kn (h_queue (s_half st))) /\
                   (* a connection with both halves closed does not stay in the pool *)
                   (en = true -> s_rev_closed st = false)
  end.

Lemma limit_hit_on : forall c x y, limit_hit c x y = true -> limits_on c = true.
Proof. intros c x y. unfold limit_hit, limits_on. lia. Qed.

Lemma half_ok_known : forall S i kn h a, half_ok S i kn h -> lo_of kn <= a -> known_ok S i h kn a.
Proof.
  intros S i kn h a (_ & _ & H) Ha. destruct kn as [(A, p)|]; cbn [known_ok lo_of] in *.
  - destruct H as (H1 & H2 & H3 & H4). auto.
  - exact H.
Qed.

(* handing over the first queued page: what deliver needs about the received ranges *)
Lemma first_page_facts : forall S i kn p1 q' o1,
  zlen S < HIS -> rcv_ok S i R kn (p1 :: q') -> pg S i o1 p1 -> lo_of kn <= o1 ->
  qok S i (o1 + plen p1) HIS q' -> o1 + plen p1 <= HIS ->
  match kn with Some (_, p) => p < o1 -> hits R p o1 = false | None => o1 = min_recv R end /\
  Rpos R /\ Forall (fun r => 0 <= fst r) R /\
  (forall x, inR R x -> o1 + plen p1 <= x -> covl S i q' x) /\
  (forall x, covl S i q' x -> inR R x) /\ (R = [] \/ o1 + plen p1 <= max_recv R).
Proof.
  intros S i kn p1 q' o1 HS (HRp & HRn & C1 & C2 & I3) Hpg Hlo Hq' Hhi.
  assert (HRp' : forall r, In r R -> 0 < snd r) by (apply Forall_forall; exact HRp).
  assert (HRn' : forall r, In r R -> 0 <= fst r) by (apply Forall_forall; exact HRn).
  pose proof Hpg as (Hp0 & Hpl & HpS & _).
  assert (Hqq : qok S i o1 HIS (p1 :: q')).
  { cbn [qok]. exists o1. split; [lia|]. split; [lia|]. split; assumption. }
  assert (Hfirst : forall x, covl S i (p1 :: q') x -> o1 <= x) by (intros x Hx; eapply qok_cov_ge; eauto).
  assert (Hone : forall x, covl S i [p1] x <-> o1 <= x < o1 + plen p1) by (intros; apply covl_one; assumption).
  split.
  { destruct kn as [(A, p)|].
    - intros Hlt. apply hits_false; [exact Hlt|exact HRp|]. intros x Hx Hin.
      cbn [lo_of] in C1. specialize (Hfirst x (C1 x Hin ltac:(lia))). lia.
    - symmetry. apply min_recv_is.
      + intros r Hin. specialize (HRp' r Hin). specialize (HRn' r Hin).
        apply Hfirst. apply C1; [exists r; split; [exact Hin|lia]|cbn [lo_of]; lia].
      + assert (Hc : covl S i (p1 :: q') o1) by (rewrite covl_cons; left; apply Hone; lia).
        destruct (C2 o1 Hc) as (r & Hin & Hr). exists r. split; [exact Hin|].
        specialize (HRp' r Hin). specialize (HRn' r Hin).
        assert (o1 <= fst r); [|lia].
        apply Hfirst. apply C1; [exists r; split; [exact Hin|lia]|cbn [lo_of]; lia]. }
  split; [exact HRp|]. split; [exact HRn|]. split; [|split].
  - intros x Hx Hge. specialize (C1 x Hx ltac:(lia)). rewrite covl_cons in C1. destruct C1 as [C|C]; [|exact C].
    apply Hone in C. lia.
  - intros x Hx. apply C2. rewrite covl_cons. right. exact Hx.
  - right. assert (Hc : covl S i (p1 :: q') (o1 + plen p1 - 1)) by (rewrite covl_cons; left; apply Hone; lia).
    apply C2 in Hc. apply inR_max in Hc. lia.
Qed.

(* noting a queued segment S[o, o+n), o at or beyond the delivery point *)
Lemma queue_note : forall S i R0 kn q o n ts fl,
  zlen S < HIS -> qok S i (lo_of kn) HIS q -> 0 <= lo_of kn -> lo_of kn <= o -> 0 <= n -> o + n <= zlen S ->
  rcv_ok S i R0 kn q -> R = (if 0 <? n then (o, n) :: R0 else R0) ->
  rcv_ok S i R kn (c2_queue (check_overlap fullv q (sub S o n) (sq i o) ts fl true)).
Proof.
  intros S i R0 kn q o n ts fl HS Hq Hlo Ho Hn HoS (HRp & HRn & C1 & C2 & I3) HR.
  pose proof (check_overlap_cover S i (lo_of kn) q o n ts fl true HS Hq Hlo ltac:(lia) Hn HoS) as Hcov.
  destruct (check_overlap_sound S i (lo_of kn) q o n ts fl true HS Hq Hlo ltac:(lia) Hn HoS) as (Hsnd & _).
  cbv zeta in Hcov.
  assert (HinR : forall x, inR R x <-> (0 < n /\ o <= x < o + n) \/ inR R0 x).
  { intros x. subst R. destruct (0 <? n) eqn:E.
    - rewrite inR_cons. cbn [fst snd]. split; intros [H|H]; auto; left; lia.
    - split; [auto|]. intros [H|H]; [lia|exact H]. }
  unfold rcv_ok. split; [|split; [|split; [|split]]].
  - subst R. destruct (0 <? n) eqn:E; [constructor; [cbn [snd]; lia|exact HRp]|exact HRp].
  - subst R. destruct (0 <? n) eqn:E; [constructor; [cbn [fst]; lia|exact HRn]|exact HRn].
  - intros x Hx Hge. apply HinR in Hx. apply Hcov.
    destruct (Z_lt_dec x o); [left; split; [|lia]|destruct (Z_lt_dec x (o + n)); [right; split; [reflexivity|lia]|left; split; [|lia]]];
      (destruct Hx as [Hx|Hx]; [lia|apply C1; assumption]).
  - intros x Hx. apply HinR. destruct (Hsnd x Hx) as [H|(_ & H)]; [right; apply C2; exact H|left; lia].
  - destruct kn as [(A, p)|]; [|exact I]. cbn [lo_of] in *. subst R. destruct (0 <? n) eqn:E; [|exact I3].
    right. pose proof (max_recv_cons (o, n) R0) as (_ & Hm). cbn [fst snd] in Hm. lia.
Qed.

(* noting a segment delivered in order: its new bytes are S[p, p+nt) *)
Lemma inorder_note : forall S i R0 A p q nt ts fl n',
  zlen S < HIS -> qok S i p HIS q -> 0 <= p -> 0 <= nt -> p + nt <= zlen S ->
  rcv_ok S i R0 (Some (A, p)) q -> R = (if 0 <? nt then (p, nt) :: R0 else R0) ->
  (n' = 0 \/ n' = nt) -> c2_bytes (check_overlap fullv q (sub S p nt) (sq i p) ts fl false) = sub S p n' ->
  Rpos R /\ Forall (fun r => 0 <= fst r) R /\
  (forall x, inR R x -> p + n' <= x -> covl S i (c2_queue (check_overlap fullv q (sub S p nt) (sq i p) ts fl false)) x) /\
  (forall x, covl S i (c2_queue (check_overlap fullv q (sub S p nt) (sq i p) ts fl false)) x -> inR R x) /\
  (R = [] \/ p + n' <= max_recv R).
Proof.
  intros S i R0 A p q nt ts fl n' HS Hq Hp Hnt HntS (HRp & HRn & C1 & C2 & I3) HR Hn' Hb.
  cbn [lo_of] in C1.
  pose proof (check_overlap_cover S i p q p nt ts fl false HS Hq Hp Hp Hnt HntS) as Hcov.
  destruct (check_overlap_sound S i p q p nt ts fl false HS Hq Hp Hp Hnt HntS) as (Hsnd & Hsw).
  cbv zeta in Hcov.
  assert (HinR : forall x, inR R x <-> (0 < nt /\ p <= x < p + nt) \/ inR R0 x).
  { intros x. subst R. destruct (0 <? nt) eqn:E.
    - rewrite inR_cons. cbn [fst snd]. split; intros [H|H]; auto; left; lia.
    - split; [auto|]. intros [H|H]; [lia|exact H]. }
  split; [|split; [|split; [|split]]].
  - subst R. destruct (0 <? nt) eqn:E; [constructor; [cbn [snd]; lia|exact HRp]|exact HRp].
  - subst R. destruct (0 <? nt) eqn:E; [constructor; [cbn [fst]; lia|exact HRn]|exact HRn].
  - intros x Hx Hge. apply HinR in Hx.
    destruct (Z_lt_dec x (p + nt)) as [Hlt|Hnl].
    + (* inside the new range although beyond p + n': the bytes were swallowed (case 6) and are still held *)
      assert (n' = 0) by lia. subst n'. apply Hsw; [exact Hb|lia].
    + apply Hcov. left. split; [|lia]. destruct Hx as [Hx|Hx]; [lia|apply C1; [exact Hx|lia]].
  - intros x Hx. apply HinR. destruct (Hsnd x Hx) as [H|(Hc & _)]; [right; apply C2; exact H|discriminate].
  - subst R. destruct (0 <? nt) eqn:E.
    + right. pose proof (max_recv_cons (p, nt) R0) as (_ & Hm). cbn [fst snd] in Hm. lia.
    + assert (nt = 0) by lia. assert (n' = 0) by lia. subst. rewrite Z.add_0_r. exact I3.
Qed.

(* the state after deliver, with nextSeq stored: the invariant *)
Lemma after_deliver : forall S i c s1 e' g' N,
  s_cfg s1 = c -> e' <= zlen S ->
  match g' with
  | GDead => s_exists s1 = false
  | GLive kn' en =>
    s_exists s1 = true /\ h_closed (s_half s1) = en /\ (en = true -> s_rev_closed s1 = false) /\
    exists A', kn' = Some (A', e') /\
      (en = false -> N = sq i e' /\ 0 <= A' /\ sok S i A' e' (h_saved (s_half s1)) /\
                     qok S i (e' + 1) HIS (h_queue (s_half s1)) /\
                     rcv_ok S i R (Some (A', e')) (h_queue (s_half s1)))
  end ->
  ginv c S i R g' (set_half s1 (set_next (s_half s1) N)).
Proof.
  intros S i c s1 e' g' N Hc He H. unfold ginv. cbn [set_half s_cfg]. split; [exact Hc|].
  destruct g' as [|kn' en]; cbn [set_half s_exists s_half set_next h_closed].
  - exact H.
  - destruct H as (H1 & H2 & Hrv & A' & Hk & H3). split; [exact H1|]. split; [exact H2|].
    cbn [s_rev_closed]. split; [|exact Hrv].
    intros Hen. destruct (H3 Hen) as (HN & HA & Hs & Hq & Hrc). subst kn' N.
    unfold half_ok. cbn [set_next h_closed h_queue h_next h_saved lo_of].
    split; [|exact Hrc]. split; [congruence|]. split; [eapply qok_weaken; eauto; lia|]. auto.
Qed.

(* ---------------------------------------------------------------- queue branch *)
Lemma asm_queue_ok : forall S i c syn s evn l0 h kn o n g R0,
  zlen S < HIS -> s_exists s = true -> s_cfg s = c -> half_ok S i kn h ->
  lo_of kn <= o -> 0 <= n -> o + n <= zlen S -> g_bytes g = sub S o n ->
  rcv_ok S i R0 kn (h_queue h) -> R = (if 0 <? n then (o, n) :: R0 else R0) ->
  exists st' ev g',
    asm_queue_body fullv s evn (map ETag l0) h (sq i o) g = (st', evn ++ ev, false) /\
    gevs S c (limits_on c) syn (s_ncalls s) (GLive kn false) ev g' /\ ginv c S i R g' st' /\
    s_ncalls st' = (s_ncalls s + nsg ev)%nat.
Proof.
  intros S i c syn s evn l0 h kn o n g R0 HS Hex Hcfg Hh Ho Hn HoS Hb Hrc0 HR.
  pose proof Hh as (Hcl & Hq & Hkn).
  assert (Hlo : 0 <= lo_of kn).
  { destruct kn as [(A, p)|]; cbn [lo_of]; [|lia]. destruct Hkn as (_ & HA & _ & Hs). apply sok_range in Hs. lia. }
  unfold asm_queue_body. rewrite Hb.
  set (r := check_overlap fullv (h_queue h) (sub S o n) (sq i o) (g_ts g) (g_rst g || g_fin g) true).
  destruct (check_overlap_queue_full S i (lo_of kn) (h_queue h) o n (g_ts g) (g_rst g || g_fin g))
    as (Hp & Hq'); try lia; try assumption.
  fold r in Hp, Hq'. rewrite Hp. rewrite Hcfg.
  assert (Hrc : rcv_ok S i R kn (c2_queue r)).
  { subst r. apply (queue_note S i R0 kn (h_queue h) o n); try assumption; lia. }
  assert (Hstay : forall used1 pages1,
    exists st' ev g',
      (mkSt c (s_exists s) (mkHalf pages1 (h_saved h) (c2_queue r) (h_next h) (h_seen h) (h_closed h))
            (s_rev_closed s) (s_rev_seen s) used1 (s_sid s) (s_ncalls s),
       evn ++ map ETag l0 ++ map ETag (c2_tags r), false) = (st', evn ++ ev, false) /\
      gevs S c (limits_on c) syn (s_ncalls s) (GLive kn false) ev g' /\ ginv c S i R g' st' /\
      s_ncalls st' = (s_ncalls s + nsg ev)%nat).
  { intros used1 pages1. eexists. exists (map ETag (l0 ++ c2_tags r)), (GLive kn false).
    split; [rewrite map_app; reflexivity|]. split; [apply gevs_tags|]. split.
    - unfold ginv. cbn [s_cfg s_exists s_half h_closed]. split; [reflexivity|]. split; [exact Hex|]. split; [exact Hcl|].
      split; [|intros Hc; discriminate]. intros _. split; [|exact Hrc]. unfold half_ok. cbn [h_closed h_queue h_next h_saved]. auto.
    - rewrite nsg_tags. cbn [s_ncalls]. lia. }
  destruct (limit_hit c (h_pages h - c2_rel r + c2_added r) (s_used s - c2_rel r + c2_added r)) eqn:Elim.
  2: apply Hstay.
  destruct (c2_queue r) as [|p1 q'] eqn:Eq.
  { apply Hstay. }
  cbn [qok] in Hq'. destruct Hq' as (o1 & Ho1 & Ho1e & Hpg & Hq1').
  destruct (first_page_facts S i kn p1 q' o1 HS Hrc Hpg Ho1 Hq1' Ho1e) as (F1 & F2 & F3 & F4 & F5 & F6).
  destruct (deliver S i c s
              (mkHalf (h_pages h - c2_rel r + c2_added r) (h_saved h) q' (h_next h) (h_seen h) (h_closed h))
              (s_used s - c2_rel r + c2_added r) (CPage p1) o1 kn (limits_on c) syn HS Hex Hcfg)
    as (s1 & e' & ev & g' & Hsend & Hgev & Hnsg & He1 & He2 & Hc1 & Hnc & _ & _ & Hpost).
  { exact Hcl. }
  { apply pg_spg in Hpg. exact Hpg. }
  { cbn [h_queue]. exact Hq1'. }
  { destruct kn as [(A, p)|]; cbn [known_ok lo_of h_next h_saved] in *; [|exact Hkn].
    destruct Hkn as (H1 & H2 & H3 & H4). auto. }
  { destruct kn as [(A, p)|]; [|exact I]. right. eapply limit_hit_on; eauto. }
  { exact F1. } { exact F2. } { exact F3. }
  { cbn [h_queue clen cbytes]. exact F4. } { cbn [h_queue]. exact F5. } { cbn [clen cbytes]. exact F6. }
  rewrite Hsend. rewrite sq_not_invalid. cbn [v_fin fullv negb]. rewrite andb_false_r.
  eexists. exists (map ETag (l0 ++ c2_tags r) ++ ETag 12 :: ev), g'.
  split; [rewrite map_app, <- !app_assoc; reflexivity|]. split.
  - eapply gevs_app; [apply gevs_tags|]. rewrite nsg_tags, Nat.add_0_r.
    cbn [gevs is_sg]. eexists. split; [reflexivity|exact Hgev].
  - split.
    + apply (after_deliver S i c s1 e' g'); try assumption.
      destruct g' as [|kn' en]; [exact (proj1 Hpost)|].
      destruct Hpost as (H1 & H2 & _ & Hrv & A' & Hk & H3). split; [exact H1|]. split; [exact H2|]. split; [exact Hrv|].
      exists A'. split; [exact Hk|]. intros Hen. destruct (H3 Hen) as (_ & HA & Hs & Hqq & _ & Hrc'). auto 10.
    + cbn [set_half s_ncalls]. rewrite Hnc. rewrite nsg_app, nsg_tags. unfold nsg in *. cbn [filter is_sg length] in *.
      fold (nsg ev). unfold nsg. lia.
Qed.

(* ---------------------------------------------------------------- in-order branch *)
Lemma asm_inorder_ok : forall S i c syn s evn l0 h A p o n g R0,
  zlen S < HIS -> s_exists s = true -> s_cfg s = c -> half_ok S i (Some (A, p)) h ->
  0 <= o -> o <= p -> 0 <= n -> o + n <= zlen S -> g_bytes g = sub S o n ->
  (g_fin g = true -> o + n = zlen S) ->
  rcv_ok S i R0 (Some (A, p)) (h_queue h) -> R = (if p <? o + n then (p, o + n - p) :: R0 else R0) ->
  exists st' ev g',
    asm_inorder_body fullv s evn (map ETag l0) h (sq i o) g = (st', evn ++ ev, false) /\
    gevs S c (limits_on c) syn (s_ncalls s) (GLive (Some (A, p)) false) ev g' /\ ginv c S i R g' st' /\
    s_ncalls st' = (s_ncalls s + nsg ev)%nat.
Proof.
  intros S i c syn s evn l0 h A p o n g R0 HS Hex Hcfg Hh Ho Hop Hn HoS Hb Hfin Hrc0 HR.
  pose proof Hh as (Hcl & Hq & Hnx & HA & HpS & Hsv). cbn [lo_of] in Hq.
  pose proof (sok_range _ _ _ _ _ Hsv) as HAp.
  unfold asm_inorder_body. rewrite Hb, Hnx.
  change (overlap_existing fullv (sq i p) (sq i o) (sub S o n))
    with (overlap_existing fixedv (sq i p) (sq i o) (sub S o n)).
  rewrite inorder_path by (unfold HIS, HALFW in *; lia).
  rewrite trimmed_eq by lia.
  set (nt := Z.max p (o + n) - p).
  assert (Hnt : 0 <= nt) by (subst nt; lia).
  assert (HntS : p + nt <= zlen S) by (subst nt; lia).
  set (r := check_overlap fullv (h_queue h) (sub S p nt) (sq i p) (g_ts g) (g_rst g || g_fin g) false).
  destruct (check_overlap_inorder_gen S i (h_queue h) p nt (g_ts g) (g_rst g || g_fin g) HS Hq ltac:(lia) Hnt HntS)
    as (Hp & n' & Hn' & Hb' & Hq' & Hfull).
  fold r in Hp, Hb', Hq', Hfull.
  assert (HR' : R = (if 0 <? nt then (p, nt) :: R0 else R0)).
  { rewrite HR. subst nt. destruct (p <? o + n) eqn:E1.
    - replace (0 <? Z.max p (o + n) - p) with true by lia. f_equal. f_equal. lia.
    - replace (0 <? Z.max p (o + n) - p) with false by lia. reflexivity. }
  destruct (inorder_note S i R0 A p (h_queue h) nt (g_ts g) (g_rst g || g_fin g) n' HS Hq ltac:(lia) Hnt HntS Hrc0 HR' Hn' Hb')
    as (N1 & N2 & N3 & N4 & N5).
  fold r in N3, N4.
  rewrite Hp, Hb', Hcfg.
  assert (Hn'0 : 0 <= n' <= nt) by (destruct Hn'; lia).
  rewrite (zlen_sub S p n') by lia.
  set (itag := if (0 <? zlen (sub S o n)) && (n' =? 0) then [11] else []).
  assert (Hitag : (if (0 <? zlen (sub S o n)) && (n' =? 0) then [ETag 11] else []) = map ETag itag)
    by (subst itag; destruct ((0 <? zlen (sub S o n)) && (n' =? 0)); reflexivity).
  rewrite Hitag.
  destruct ((0 <? n') || (g_rst g || g_fin g) || g_syn g) eqn:Esend.
  - destruct (deliver S i c s
                (mkHalf (h_pages h - c2_rel r) (h_saved h) (c2_queue r) (sq i p) (h_seen h) (h_closed h))
                (s_used s - c2_rel r)
                (CLive (mkLive (sub S p n') (sq i p) (g_syn g) (g_rst g || g_fin g) (g_ts g)))
                p (Some (A, p)) (limits_on c) syn HS Hex Hcfg)
      as (s1 & e' & ev & g' & Hsend & Hgev & Hnsg & He1 & He2 & Hc1 & Hnc & _ & _ & Hpost).
    { exact Hcl. }
    { unfold cok, clen. cbn [cbytes cseq lbytes lseq]. rewrite zlen_sub by lia. repeat split; try lia. }
    { unfold clen. cbn [cbytes lbytes h_queue]. rewrite zlen_sub by lia. exact Hq'. }
    { cbn [known_ok h_next h_saved]. repeat split; try assumption; lia. }
    { left; reflexivity. }
    { intros Hlt; lia. } { exact N1. } { exact N2. }
    { unfold clen. cbn [cbytes lbytes h_queue]. rewrite zlen_sub by lia. exact N3. }
    { cbn [h_queue]. exact N4. }
    { unfold clen. cbn [cbytes lbytes]. rewrite zlen_sub by lia. exact N5. }
    rewrite Hsend. rewrite sq_not_invalid.
    eexists. exists (map ETag (l0 ++ c2_tags r ++ itag) ++ ev), g'.
    split; [rewrite !map_app, <- !app_assoc; reflexivity|]. split.
    + eapply gevs_app; [apply gevs_tags|]. rewrite nsg_tags, Nat.add_0_r. exact Hgev.
    + split.
      * apply (after_deliver S i c s1 e' g'); try assumption.
        destruct g' as [|kn' en]; [exact (proj1 Hpost)|].
        destruct Hpost as (H1 & H2 & _ & Hrv & A' & Hk & H3). split; [exact H1|]. split; [exact H2|]. split; [exact Hrv|].
        exists A'. split; [exact Hk|]. intros Hen. destruct (H3 Hen) as (_ & HA' & Hs & Hqq & Hend & Hrc').
        split; [|auto 10].
        destruct (g_fin g) eqn:Ef; [|reflexivity]. exfalso.
        assert (Hend' : p + nt = zlen S) by (subst nt; specialize (Hfin eq_refl); lia).
        specialize (Hfull Hend'). subst n'.
        assert (Hqe : c2_queue r = []) by (eapply qok_beyond_end; [exact Hq'|lia]).
        cbn [h_queue cend lend] in Hend. specialize (Hend Hqe). rewrite orb_true_r in Hend. discriminate.
      * cbn [set_half s_ncalls]. rewrite Hnc. rewrite nsg_app, nsg_tags. lia.
  - assert (n' = 0) by lia. subst n'.
    eexists. exists (map ETag (l0 ++ c2_tags r ++ itag)), (GLive (Some (A, p)) false).
    split; [rewrite !map_app; reflexivity|]. split; [apply gevs_tags|]. split.
    + unfold ginv. cbn [s_cfg s_exists s_half h_closed]. split; [reflexivity|]. split; [exact Hex|]. split; [exact Hcl|].
      split; [|intros Hc; discriminate]. intros _. rewrite Z.add_0_r in Hq', N3, N5. split.
      * unfold half_ok. cbn [h_closed h_queue h_next h_saved lo_of]. auto 10.
      * cbn [h_queue]. unfold rcv_ok. cbn [lo_of]. auto 10.
    + rewrite nsg_tags. cbn [s_ncalls]. lia.
Qed.

(* ---------------------------------------------------------------- AssembleWithContext *)
(* a segment consistent with (S, i): it carries S[o, o+n) *)
Definition seg_ok (S : list Z) (i : Z) (g : segment) (o n : Z) : Prop :=
  g_force g = false /\ g_bytes g = sub S o n /\ 0 <= o /\ 0 <= n /\ o + n <= zlen S /\
  (g_fin g = true -> o + n = zlen S) /\
  (if g_syn g then sadd (g_seq g) 1 else g_seq g) = sq i o /\ (g_syn g = true -> o = 0).

(* the received ranges after a segment S[off, off+n) has been given to the stream in state g1
   (Model/C09Spec.v, note_seg) *)
Definition rnote (g1 : gst) (R0 : list (Z * Z)) (off n : Z) : list (Z * Z) :=
  match g1 with
  | GLive kn false =>
    if (0 <? n) && (match kn with Some (_, p) => p <? off + n | None => true end) then
      (Z.max off (match kn with Some (_, p) => p | None => off end),
       off + n - Z.max off (match kn with Some (_, p) => p | None => off end)) :: R0
    else R0
  | _ => R0
  end.

Lemma asm_body_ok : forall S i c syn s evn g kn en o n R0,
  zlen S < HIS -> ginv c S i R0 (GLive kn en) s -> seg_ok S i g o n ->
  R = rnote (gnote (GLive kn en) (g_syn g)) R0 o n ->
  exists st' ev g',
    asm_body fullv s evn g = (st', evn ++ ev, false) /\
    gevs S c (limits_on c) syn (s_ncalls s) (gnote (GLive kn en) (g_syn g)) ev g' /\ ginv c S i R g' st' /\
    s_ncalls st' = (s_ncalls s + nsg ev)%nat.
Proof.
  intros S i c syn s evn g kn en o n R0 HS (Hcfg & Hex & Hcl & Hopen & Hrev) (Hfo & Hb & Ho & Hn & HoS & Hfin & Hseq & Hsyn0) HR.
  unfold asm_body. cbn [h_closed h_next h_queue]. rewrite Hcl.
  destruct en.
  - (* closed half: the segment is ignored *)
    eexists. exists [], (GLive kn true). split; [rewrite app_nil_r; reflexivity|].
    split; [destruct kn as [(?, ?)|]; reflexivity|]. split.
    + unfold ginv. cbn [set_half s_cfg s_exists s_half h_closed].
      split; [assumption|]. split; [assumption|]. split; [first [assumption|reflexivity]|].
      cbn [s_rev_closed]. split; [intros Hc; discriminate|exact Hrev].
    + cbn [set_half s_ncalls nsg filter length]. lia.
  - destruct (Hopen eq_refl) as (Hopen' & Hrc0). clear Hopen. rename Hopen' into Hopen.
    pose proof Hopen as (Hc0 & Hq & Hkn).
    destruct kn as [(A, p)|].
    + destruct Hkn as (Hnx & HA & HpS & Hsv). rewrite Hnx, sq_not_invalid.
      cbn [v_syn fullv andb]. rewrite Hseq.
      unfold diffv. cbn [v_diff fullv].
      pose proof (sok_range _ _ _ _ _ Hsv).
      rewrite diff_sq by (unfold HIS, HALFW in *; lia).
      match goal with |- context [set_next ?hh _] => set (h := hh) end.
      assert (Hh : half_ok S i (Some (A, p)) (set_next h (sq i p))).
      { unfold half_ok. subst h. cbn [set_next h_closed h_queue h_next h_saved lo_of]. auto 10. }
      destruct (o - p >? 0) eqn:Eq.
      * replace (gnote (GLive (Some (A, p)) false) (g_syn g)) with (GLive (Some (A, p)) false) by reflexivity.
        apply (asm_queue_ok S i c syn s evn [] (set_next h (sq i p)) (Some (A, p)) o n g R0); try assumption.
        all: try (cbn [lo_of]; lia).
        all: try (subst h; cbn [set_next h_queue]; exact Hrc0).
        { rewrite HR. cbn [gnote rnote]. destruct (0 <? n) eqn:E0.
          - replace (p <? o + n) with true by lia. cbn [andb]. f_equal. f_equal; lia.
          - reflexivity. }
      * replace (gnote (GLive (Some (A, p)) false) (g_syn g)) with (GLive (Some (A, p)) false) by reflexivity.
        apply (asm_inorder_ok S i c syn s evn [] (set_next h (sq i p)) A p o n g R0); try assumption; try lia.
        all: try (subst h; cbn [set_next h_queue]; exact Hrc0).
        { rewrite HR. cbn [gnote rnote]. destruct (p <? o + n) eqn:E0.
          - replace (0 <? n) with true by lia. cbn [andb]. f_equal. f_equal; lia.
          - rewrite andb_false_r. reflexivity. }
    + destruct Hkn as (Hnx & Hsv). rewrite Hnx. replace (INVALID =? INVALID) with true by reflexivity.
      cbn [andb orb]. rewrite Hfo.
      destruct (g_syn g) eqn:Esyn.
      * specialize (Hsyn0 eq_refl). subst o. rewrite Hseq.
        match goal with |- context [set_next ?hh _] => set (h := hh) end.
        assert (Hh : half_ok S i (Some (0, 0)) (set_next h (sq i 0))).
        { unfold half_ok. subst h. cbn [set_next h_closed h_queue h_next h_saved lo_of] in *.
          rewrite Hsv. cbn [sok]. repeat split; try assumption; try lia. }
        cbn [gnote].
        assert (Htg : exists l0, (match h_queue (s_half s) with [] => [] | _ :: _ => [ETag 18] end) = map ETag l0).
        { destruct (h_queue (s_half s)); [exists []|exists [18]]; reflexivity. }
        destruct Htg as (l0 & Htg). rewrite Htg.
        destruct (asm_inorder_ok S i c syn s evn l0 (set_next h (sq i 0)) 0 0 0 n g R0) as (st' & ev & g' & H1 & H2 & H3 & H4);
          try assumption; try lia.
        { subst h. cbn [set_next h_queue]. destruct Hrc0 as (K1 & K2 & K3 & K4 & _). unfold rcv_ok. cbn [lo_of] in *.
          split; [exact K1|]. split; [exact K2|]. split; [exact K3|]. split; [exact K4|].
          destruct R0 as [|r0 t0]; [left; reflexivity|right].
          assert (Hr0 : inR (r0 :: t0) (fst r0)).
          { inversion K1; subst. exists r0. split; [left; reflexivity|lia]. }
          apply inR_max in Hr0. inversion K2; subst. lia. }
        { rewrite HR. cbn [gnote rnote]. destruct (0 <? 0 + n) eqn:E0.
          - replace (0 <? n) with true by lia. cbn [andb]. f_equal. all: try (f_equal; lia).
          - rewrite andb_false_r. reflexivity. }
        exists st', ev, g'. auto.
      * cbn [orb gnote].
        match goal with |- context [set_next ?hh _] => set (h := hh) end.
        assert (Hh : half_ok S i None (set_next h INVALID)).
        { unfold half_ok. subst h. cbn [set_next h_closed h_queue h_next h_saved lo_of] in *. auto. }
        rewrite Hseq.
        apply (asm_queue_ok S i c syn s evn [] (set_next h INVALID) None o n g R0); try assumption; try (cbn [lo_of]; lia).
        all: try (subst h; cbn [set_next h_queue]; exact Hrc0).
        { rewrite HR. cbn [gnote rnote]. rewrite andb_true_r.
          destruct (0 <? n); [f_equal; f_equal; lia|reflexivity]. }
Qed.

(* a dead connection starts a new stream with nothing received *)
Definition glive (g : gst) : gst := match g with GDead => GLive None false | _ => g end.
Definition rbase (g : gst) (R0 : list (Z * Z)) : list (Z * Z) := match g with GDead => [] | _ => R0 end.

Lemma rcv_ok_nil : forall S i, rcv_ok S i [] None [].
Proof.
  intros. unfold rcv_ok. split; [constructor|]. split; [constructor|]. split; [|split; [|exact I]].
  - intros x (r & [] & _).
  - intros x Hx. destruct (covl_nil S i x Hx).
Qed.

Lemma assemble_ok : forall S i c st seg g o n R0,
  zlen S < HIS -> ginv c S i R0 g st -> seg_ok S i seg o n ->
  R = rnote (gnote (glive g) (g_syn seg)) (rbase g R0) o n ->
  exists st' ev g',
    assemble fullv st seg = (st', ev, false) /\
    gevs S c (limits_on c) (g_syn seg) (s_ncalls st) (gnote g (g_syn seg)) ev g' /\ ginv c S i R g' st' /\
    s_ncalls st' = (s_ncalls st + nsg ev)%nat.
Proof.
  intros S i c st seg g o n R0 HS Hinv Hseg HR. rewrite assemble_unfold.
  destruct g as [|kn en].
  - destruct Hinv as (Hcfg & Hex). rewrite Hex.
    set (s' := mkSt (s_cfg st) true (new_half (g_ts seg)) false (g_ts seg) (s_used st)
                    (Datatypes.S (s_sid st)) (s_ncalls st)).
    assert (Hi' : ginv c S i [] (GLive None false) s').
    { unfold ginv, s'. cbn [s_cfg s_exists s_half new_half h_closed]. split; [exact Hcfg|]. split; [reflexivity|].
      split; [reflexivity|]. split; [|intros Hc; discriminate]. intros _. split; [|unfold new_half; cbn [h_queue]; apply rcv_ok_nil].
      unfold half_ok, new_half. cbn [h_closed h_queue h_next h_saved lo_of qok].
      split; [reflexivity|]. split; [unfold HIS, HALFW; lia|]. split; reflexivity. }
    destruct (asm_body_ok S i c (g_syn seg) s' [ENew (Datatypes.S (s_sid st))] seg None false o n [] HS Hi' Hseg HR)
      as (st' & ev & g' & H1 & H2 & H3 & H4).
    exists st', (ENew (Datatypes.S (s_sid st)) :: ev), g'. split; [exact H1|]. split.
    + cbn [gnote gevs is_sg]. eexists. split; [cbn [gev]; split; reflexivity|]. exact H2.
    + split; [exact H3|]. cbn [s_ncalls] in H4. subst s'. cbn [s_ncalls] in H4. rewrite H4.
      unfold nsg. cbn [filter is_sg]. reflexivity.
  - pose proof Hinv as (Hcfg & Hex & _). rewrite Hex.
    destruct (asm_body_ok S i c (g_syn seg) st [] seg kn en o n R0 HS Hinv Hseg HR) as (st' & ev & g' & H1 & H2 & H3 & H4).
    exists st', ev, g'. cbn [app] in H1. auto.
Qed.


(* ---------------------------------------------------------------- flushes *)
(* the data half may be closed by a flush without any event *)
Definition gclosed (g g' : gst) : Prop := g' = g \/ exists kn, g = GLive kn false /\ g' = GLive kn true.

Lemma gclosed_refl : forall g, gclosed g g.
Proof. intros. left. reflexivity. Qed.

Definition stopped (g : gst) (st : st) : Prop :=
  match g with GLive _ false => True | _ => h_closed (s_half st) = true end.

Lemma fold_max_le : forall (R' : list (Z * Z)) m p, m <= p -> (forall r, In r R' -> fst r + snd r <= p) ->
  fold_left (fun m r => Z.max m (fst r + snd r)) R' m <= p.
Proof.
  induction R' as [|r t IH]; intros m p Hm H; cbn [fold_left]; [exact Hm|].
  apply IH; [specialize (H r (or_introl eq_refl)); lia|intros r' Hin; apply H; right; exact Hin].
Qed.

(* an empty queue: everything received lies before the delivery point *)
Lemma rcv_empty : forall S i kn,
  rcv_ok S i R kn [] -> match kn with Some (_, p) => 0 <= p -> max_recv R <= p | None => R = [] end.
Proof.
  intros S i kn (HRp & HRn & C1 & _ & _).
  assert (HRp' : forall r, In r R -> 0 < snd r) by (apply Forall_forall; exact HRp).
  assert (HRn' : forall r, In r R -> 0 <= fst r) by (apply Forall_forall; exact HRn).
  destruct kn as [(A, p)|]; cbn [lo_of] in C1.
  - intros Hp. unfold max_recv. apply fold_max_le; [exact Hp|]. intros r Hin. specialize (HRp' r Hin).
    destruct (Z_le_gt_dec (fst r + snd r) p) as [Hle|Hgt]; [exact Hle|exfalso].
    apply (covl_nil S i (fst r + snd r - 1)). apply C1; [exists r; split; [exact Hin|lia]|lia].
  - destruct R as [|r t]; [reflexivity|exfalso].
    specialize (HRp' r (or_introl eq_refl)). specialize (HRn' r (or_introl eq_refl)).
    apply (covl_nil S i (fst r)). apply C1; [exists r; split; [left; reflexivity|lia]|lia].
Qed.

Lemma close_c2s_gen : forall S i c syn nc st kn,
  ginv c S i R (GLive kn false) st -> h_queue (s_half st) = [] ->
  exists st' ev gm g', close_c2s fullv st = (st', ev) /\ gevs S c true syn nc (GLive kn false) ev gm /\
    gclosed gm g' /\ ginv c S i R g' st' /\ nsg ev = O /\ s_ncalls st' = s_ncalls st /\
    h_closed (s_half st') = true /\ (s_rev_closed st = true -> gm = g').
Proof.
  intros S i c syn nc st kn (Hcfg & Hex & Hcl & Hop & _) Hq0.
  destruct (Hop eq_refl) as (Hh & Hrc). rewrite Hq0 in Hrc. pose proof (rcv_empty S i kn Hrc) as Hemp.
  unfold close_c2s. destruct (s_rev_closed st).
  - eexists. eexists. exists GDead, GDead. split; [reflexivity|]. split.
    + cbn [gevs]. exists GDead. split; [|reflexivity]. cbn [gev]. split; [|reflexivity].
      exists kn, false. split; [reflexivity|]. right.
      destruct kn as [(A, p)|]; [|exact Hemp]. split; [|destruct Hrc as (_ & _ & _ & _ & I3); exact I3]. apply Hemp.
      destruct Hh as (_ & _ & _ & HA & _ & Hs). apply sok_range in Hs. lia.
    + split; [apply gclosed_refl|]. split; [unfold ginv; cbn [s_cfg s_exists]; auto|].
      split; [reflexivity|]. split; [reflexivity|]. split; [reflexivity|]. intros _; reflexivity.
  - eexists. eexists. exists (GLive kn false), (GLive kn true). split; [reflexivity|]. split; [reflexivity|].
    split; [right; eauto|]. split.
    + unfold ginv. cbn [s_cfg s_exists s_half h_closed]. split; [exact Hcfg|]. split; [exact Hex|].
      split; [reflexivity|]. cbn [s_rev_closed]. split; [intros Hc; discriminate|intros _; reflexivity].
    + split; [reflexivity|]. split; [reflexivity|]. split; [reflexivity|]. intros Hc; discriminate.
Qed.

Lemma skip_flush_gen : forall S i c syn st kn,
  zlen S < HIS -> ginv c S i R (GLive kn false) st ->
  exists st' ev gm g', skip_flush fullv st = (st', ev, false) /\
    gevs S c true syn (s_ncalls st) (GLive kn false) ev gm /\ gclosed gm g' /\ ginv c S i R g' st' /\
    s_ncalls st' = (s_ncalls st + nsg ev)%nat /\ stopped g' st' /\
    (h_queue (s_half st) <> [] \/ s_rev_closed st = true -> gm = g').
Proof.
  intros S i c syn st kn HS Hinv. pose proof Hinv as (Hcfg & Hex & Hcl & Hopen & _).
  destruct (Hopen eq_refl) as (Hopen' & Hrc). clear Hopen. rename Hopen' into Hopen. pose proof Hopen as (_ & Hq & Hkn).
  unfold skip_flush. destruct (h_queue (s_half st)) as [|p1 q'] eqn:Eq.
  - destruct (close_c2s_gen S i c syn (s_ncalls st) st kn Hinv Eq)
      as (st' & ev & gm & g' & He & Hg & Hgc & Hi & Hn & Hnc & Hclosed & Hns).
    rewrite He. exists st', ev, gm, g'. split; [reflexivity|]. split; [exact Hg|]. split; [exact Hgc|]. split; [exact Hi|].
    split; [rewrite Hn, Hnc; lia|]. split.
    + unfold stopped. destruct g' as [|kn' [|]]; try exact Hclosed.
      destruct Hi as (_ & _ & Hc' & _). congruence.
    + intros [Hne|Hrc']; [contradiction|apply Hns; exact Hrc'].
  - cbn [qok] in Hq. destruct Hq as (o1 & Ho1 & Ho1e & Hpg & Hq1').

    destruct (first_page_facts S i kn p1 q' o1 HS Hrc Hpg Ho1 Hq1' Ho1e) as (F1 & F2 & F3 & F4 & F5 & F6).
    destruct (deliver S i c st
                (mkHalf (h_pages (s_half st)) (h_saved (s_half st)) q' (h_next (s_half st)) (h_seen (s_half st))
                        (h_closed (s_half st)))
                (s_used st) (CPage p1) o1 kn true syn HS Hex Hcfg)
      as (s1 & e' & ev & g' & Hsend & Hgev & Hnsg & He1 & He2 & Hc1 & Hnc & _ & _ & Hpost).
    { exact Hcl. }
    { apply pg_spg in Hpg. exact Hpg. }
    { cbn [h_queue]. exact Hq1'. }
    { destruct kn as [(A, p)|]; cbn [known_ok lo_of h_next h_saved] in *; [|exact Hkn].
      destruct Hkn as (H1 & H2 & H3 & H4). auto. }
    { destruct kn as [(A, p)|]; [right; reflexivity|exact I]. }
    { exact F1. } { exact F2. } { exact F3. }
    { cbn [h_queue clen cbytes]. exact F4. } { cbn [h_queue]. exact F5. } { cbn [clen cbytes]. exact F6. }
    rewrite Hsend. rewrite sq_not_invalid.
    eexists. exists (ETag 13 :: ev), g', g'. split; [reflexivity|]. split.
    + cbn [gevs is_sg]. eexists. split; [reflexivity|exact Hgev].
    + split; [apply gclosed_refl|]. split.
      * apply (after_deliver S i c s1 e' g'); try assumption.
        destruct g' as [|kn' en]; [exact (proj1 Hpost)|].
        destruct Hpost as (H1 & H2 & _ & Hrv & A' & Hk & H3). split; [exact H1|]. split; [exact H2|]. split; [exact Hrv|].
        exists A'. split; [exact Hk|]. intros Hen. destruct (H3 Hen) as (_ & HA & Hs & Hqq & _ & Hrc'). auto 10.
      * split.
        -- cbn [set_half s_ncalls]. rewrite Hnc. unfold nsg in *. cbn [filter is_sg]. lia.
        -- split; [|intros _; reflexivity].
           unfold stopped. cbn [set_half s_half set_next h_closed].
           destruct g' as [|kn' [|]]; try exact I.
           ++ exact (proj2 Hpost).
           ++ destruct Hpost as (_ & H2 & _). exact H2.
Qed.

(* any number of skipFlush rounds: the loops of flushClose and FlushAll *)
(* ns: a condition under which the data half is not closed without completing the stream *)
Inductive flush_res (ns : Prop) (S : list Z) (i : Z) (c : cfg) (syn : bool) (nc : nat) (g : gst) (r : st * list event * bool) : Prop :=
| FlushRes : forall st' ev gm g',
    r = (st', ev, false) -> gevs S c true syn nc g ev gm -> gclosed gm g' -> ginv c S i R g' st' ->
    s_ncalls st' = (nc + nsg ev)%nat -> stopped g' st' -> (ns -> gm = g') -> flush_res ns S i c syn nc g r.

Lemma flush_res_nil : forall ns S i c syn g st, ginv c S i R g st -> stopped g st ->
  flush_res ns S i c syn (s_ncalls st) g (st, [], false).
Proof.
  intros. econstructor; [reflexivity|reflexivity|apply gclosed_refl|eassumption| |assumption|intros _; reflexivity].
  unfold nsg. cbn. lia.
Qed.

Lemma fc_loop_gen : forall S i c syn t fuel st kn,
  zlen S < HIS -> ginv c S i R (GLive kn false) st ->
  flush_res True S i c syn (s_ncalls st) (GLive kn false) (fc_loop fuel fullv st t).
Proof.
  intros S i c syn t. induction fuel as [|f IH]; intros st kn HS Hinv.
  - cbn [fc_loop]. apply flush_res_nil; [exact Hinv|exact I].
  - cbn [fc_loop].
    destruct (h_queue (s_half st)) as [|p q'] eqn:Eq; [apply flush_res_nil; [exact Hinv|exact I]|].
    destruct (pseen p <? t); [|apply flush_res_nil; [exact Hinv|exact I]].
    destruct (skip_flush_gen S i c syn st kn HS Hinv) as (s1 & ev1 & gm & g1 & He & Hg & Hgc & Hi & Hnc & Hst & Hns).
    assert (Hgm : gm = g1) by (apply Hns; left; rewrite Eq; discriminate).
    rewrite He.
    destruct (h_closed (s_half s1)) eqn:Hcl1.
    + econstructor; [reflexivity|exact Hg|exact Hgc|exact Hi|exact Hnc|exact Hst|intros _; exact Hgm].
    + (* still open: the abstract state is live and open, and nothing was closed silently *)
      destruct g1 as [|kn1 [|]].
      * unfold stopped in Hst. congruence.
      * unfold stopped in Hst. congruence.
      * assert (gm = GLive kn1 false).
        { destruct Hgc as [Hgc|(k & _ & Hgc)]; [symmetry; exact Hgc|discriminate]. }
        subst gm.
        destruct (IH s1 kn1 HS Hi) as [s2 ev2 gm2 g2 He2 Hg2 Hgc2 Hi2 Hnc2 Hst2 Hns2].
        rewrite He2. econstructor; [reflexivity| |exact Hgc2|exact Hi2| |exact Hst2|exact Hns2].
        -- eapply gevs_app; [exact Hg|]. rewrite <- Hnc. exact Hg2.
        -- rewrite Hnc2, Hnc, nsg_app. lia.
Qed.

Lemma ginv_stopped : forall c S i kn en st, ginv c S i R (GLive kn en) st -> stopped (GLive kn en) st.
Proof. intros c S i kn en st (_ & _ & H & _). unfold stopped. destruct en; [exact H|exact I]. Qed.

Lemma flush_close_c2s_gen : forall S i c syn t tc st g,
  zlen S < HIS -> ginv c S i R g st -> stopped g st ->
  flush_res (s_rev_closed st = true \/ (conn_last_seen st <? tc) = false) S i c syn (s_ncalls st) g
            (flush_close_c2s fullv st t tc).
Proof.
  intros S i c syn t tc st g HS Hinv Hst. unfold flush_close_c2s.
  destruct (h_closed (s_half st)) eqn:Hcl; [apply flush_res_nil; assumption|].
  destruct g as [|kn [|]]; try (unfold stopped in Hst; congruence).
  pose proof (fc_loop_facts fullv (Datatypes.S (length (h_queue (s_half st)))) st t) as (K1 & K2 & K3).
  destruct (fc_loop_gen S i c syn t (Datatypes.S (length (h_queue (s_half st)))) st kn HS Hinv)
    as [s1 ev1 gm1 g1 He Hg Hgc Hi Hnc Hst1 Hns1].
  rewrite He in K1, K2, K3. cbn [fst] in K1, K2, K3.
  rewrite He. specialize (Hns1 I).
  destruct (h_closed (s_half s1)) eqn:Hcl1.
  { econstructor; [reflexivity|exact Hg|exact Hgc|exact Hi|exact Hnc|exact Hst1|intros _; exact Hns1]. }
  destruct (h_queue (s_half s1)) eqn:Eq1.
  2:{ econstructor; [reflexivity|exact Hg|exact Hgc|exact Hi|exact Hnc|exact Hst1|intros _; exact Hns1]. }
  destruct (conn_last_seen s1 <? tc) eqn:Els.
  2:{ econstructor; [reflexivity|exact Hg|exact Hgc|exact Hi|exact Hnc|exact Hst1|intros _; exact Hns1]. }
  destruct g1 as [|kn1 [|]]; try (unfold stopped in Hst1; congruence).
  assert (gm1 = GLive kn1 false).
  { destruct Hgc as [Hgc|(k & _ & Hgc)]; [symmetry; exact Hgc|discriminate]. }
  subst gm1.
  destruct (close_c2s_gen S i c syn (s_ncalls s1) s1 kn1 Hi Eq1)
    as (s2 & ev2 & gm2 & g2 & He2 & Hg2 & Hgc2 & Hi2 & Hn2 & Hnc2 & Hclosed2 & Hns2).
  rewrite He2. econstructor; [reflexivity| |exact Hgc2|exact Hi2| | |].
  - eapply gevs_app; [exact Hg|]. rewrite <- Hnc. exact Hg2.
  - rewrite Hnc2, Hnc, nsg_app, Hn2. lia.
  - unfold stopped. destruct g2 as [|kn2 [|]]; try exact Hclosed2.
    destruct Hi2 as (_ & _ & Hc' & _). congruence.
  - (* the timestamps and the reverse half are as before the loop: the half is closed only when the
       reverse half was closed *)
    intros Hns. apply Hns2. rewrite K1.
    destruct Hns as [Hrc|Hls]; [exact Hrc|exfalso].
    unfold conn_last_seen in Els, Hls. rewrite K2, K3 in Els. congruence.
Qed.

Lemma close_rev_gen : forall S i c syn nc st kn en,
  ginv c S i R (GLive kn en) st ->
  exists st' ev g', close_rev st = (st', ev) /\ gevs S c true syn nc (GLive kn en) ev g' /\
    ginv c S i R g' st' /\ nsg ev = O /\ s_ncalls st' = s_ncalls st /\ stopped g' st' /\ s_rev_closed st' = true.
Proof.
  intros S i c syn nc st kn en (Hcfg & Hex & Hcl & Hop & Hrv). unfold close_rev. rewrite Hcl.
  destruct en.
  - eexists. eexists. exists GDead. split; [reflexivity|]. split.
    + cbn [gevs]. exists GDead. split; [cbn [gev]; split; [eauto 6|reflexivity]|reflexivity].
    + split; [unfold ginv; cbn [s_cfg s_exists]; auto|]. split; [reflexivity|]. split; [reflexivity|].
      split; [|reflexivity]. unfold stopped. cbn [s_half]. exact Hcl.
  - eexists. eexists. exists (GLive kn false). split; [reflexivity|]. split; [reflexivity|]. split.
    + unfold ginv. cbn [s_cfg s_exists s_half s_rev_closed]. split; [exact Hcfg|]. split; [exact Hex|]. split; [exact Hcl|].
      split; [exact Hop|intros Hc; discriminate].
    + split; [reflexivity|]. split; [reflexivity|]. split; [exact I|reflexivity].
Qed.

Lemma flush_res_trans : forall ns S i c syn nc g ev1 g1 st1 r,
  gevs S c true syn nc g ev1 g1 -> s_ncalls st1 = (nc + nsg ev1)%nat ->
  flush_res ns S i c syn (s_ncalls st1) g1 r ->
  flush_res ns S i c syn nc g (let '(s2, ev2, pk) := r in (s2, ev1 ++ ev2, pk)).
Proof.
  intros ns S i c syn nc g ev1 g1 st1 r Hg Hnc [s2 ev2 gm2 g2 He2 Hg2 Hgc2 Hi2 Hnc2 Hst2 Hns2]. subst r.
  econstructor; [reflexivity| |exact Hgc2|exact Hi2| |exact Hst2|exact Hns2].
  - eapply gevs_app; [exact Hg|]. rewrite <- Hnc. exact Hg2.
  - rewrite Hnc2, Hnc, nsg_app. lia.
Qed.

(* the result of an operation: events legal from g, possibly a silent close, the invariant again *)
Inductive step_res (ns : Prop) (S : list Z) (i : Z) (c : cfg) (allow syn : bool) (nc : nat) (g : gst) (r : st * list event * bool) : Prop :=
| StepRes : forall st' ev gm g',
    r = (st', ev, false) -> gevs S c allow syn nc g ev gm -> gclosed gm g' -> ginv c S i R g' st' ->
    s_ncalls st' = (nc + nsg ev)%nat -> (ns -> gm = g') -> step_res ns S i c allow syn nc g r.

Lemma flush_step : forall ns S i c syn nc g r, flush_res ns S i c syn nc g r -> step_res ns S i c true syn nc g r.
Proof. intros ns S i c syn nc g r [st' ev gm g' H1 H2 H3 H4 H5 _ H7]. econstructor; eauto. Qed.

Lemma step_res_nil : forall ns S i c allow syn g st, ginv c S i R g st -> step_res ns S i c allow syn (s_ncalls st) g (st, [], false).
Proof.
  intros. econstructor; [reflexivity|reflexivity|apply gclosed_refl|eassumption| |intros _; reflexivity].
  unfold nsg. cbn. lia.
Qed.

Lemma flush_res_weaken : forall (ns ns' : Prop) S i c syn nc g r, (ns' -> ns) -> flush_res ns S i c syn nc g r -> flush_res ns' S i c syn nc g r.
Proof. intros ns ns' S i c syn nc g r H [st' ev gm g' H1 H2 H3 H4 H5 H6 H7]. econstructor; eauto. Qed.

(* FlushWithOptions / FlushCloseOlderThan *)
Lemma flush_opts_gen : forall S i c syn t tc st g,
  zlen S < HIS -> ginv c S i R g st ->
  step_res True S i c true syn (s_ncalls st) g (flush_opts fullv st t tc).
Proof.
  intros S i c syn t tc st g HS Hinv. unfold flush_opts.
  destruct g as [|kn en].
  - pose proof Hinv as (Hcfg & Hex). rewrite Hex. cbn [negb]. apply step_res_nil. exact Hinv.
  - pose proof Hinv as (Hcfg & Hex & Hcl & Hop & _). rewrite Hex. cbn [negb].
    apply flush_step.
    unfold flush_close_rev.
    destruct (s_rev_closed st) eqn:Erc.
    { change (let '(s2, ev2, pk) := flush_close_c2s fullv st t tc in (s2, [] ++ ev2, pk))
        with (let '(s2, ev2, pk) := flush_close_c2s fullv st t tc in (s2, ev2, pk)).
      pose proof (flush_close_c2s_gen S i c syn t tc st (GLive kn en) HS Hinv (ginv_stopped _ _ _ _ _ _ Hinv)) as Hr.
      apply (flush_res_weaken _ True) in Hr; [|intros _; left; exact Erc].
      destruct (flush_close_c2s fullv st t tc) as [[s2 ev2] pk]. exact Hr. }
    destruct (conn_last_seen st <? tc) eqn:Els.
    2:{ pose proof (flush_close_c2s_gen S i c syn t tc st (GLive kn en) HS Hinv (ginv_stopped _ _ _ _ _ _ Hinv)) as Hr.
        apply (flush_res_weaken _ True) in Hr; [|intros _; right; exact Els].
        destruct (flush_close_c2s fullv st t tc) as [[s2 ev2] pk]. exact Hr. }
    destruct (close_rev_gen S i c syn (s_ncalls st) st kn en Hinv) as (s1 & ev1 & g1 & He & Hg & Hi & Hn & Hnc & Hst & Hrc1).
    rewrite He.
    apply (flush_res_trans True S i c syn (s_ncalls st) (GLive kn en) ev1 g1 s1); [exact Hg|rewrite Hnc, Hn; lia|].
    eapply flush_res_weaken; [|apply flush_close_c2s_gen; assumption]. intros _. left. exact Hrc1.
Qed.

(* FlushAll *)
Lemma fa_loop_gen : forall S i c syn fuel st g,
  zlen S < HIS -> ginv c S i R g st -> stopped g st ->
  flush_res False S i c syn (s_ncalls st) g (fa_loop fuel fullv st).
Proof.
  intros S i c syn. induction fuel as [|f IH]; intros st g HS Hinv Hst.
  - cbn [fa_loop]. apply flush_res_nil; assumption.
  - cbn [fa_loop].
    destruct (h_closed (s_half st)) eqn:Hcl; [apply flush_res_nil; assumption|].
    destruct g as [|kn [|]]; try (unfold stopped in Hst; congruence).
    destruct (skip_flush_gen S i c syn st kn HS Hinv) as (s1 & ev1 & gm & g1 & He & Hg & Hgc & Hi & Hnc & Hst1 & _).
    rewrite He.
    destruct Hgc as [Hgc|(k & Hgm & Hg1)].
    + subst g1.
      apply (flush_res_trans False S i c syn (s_ncalls st) (GLive kn false) ev1 gm s1); [exact Hg|exact Hnc|].
      apply IH; assumption.
    + (* closed silently: the loop stops at the next test *)
      subst gm g1. unfold stopped in Hst1.
      assert (Hstop : fa_loop f fullv s1 = (s1, [], false)).
      { destruct f as [|f']; cbn [fa_loop]; [reflexivity|]. rewrite Hst1. reflexivity. }
      rewrite Hstop. rewrite app_nil_r.
      econstructor; [reflexivity|exact Hg|right; eauto|exact Hi|exact Hnc|exact Hst1|intros []].
Qed.

Lemma flush_all_gen : forall S i c syn st g,
  zlen S < HIS -> ginv c S i R g st ->
  step_res False S i c true syn (s_ncalls st) g (flush_all fullv st).
Proof.
  intros S i c syn st g HS Hinv. unfold flush_all.
  destruct g as [|kn en].
  - pose proof Hinv as (Hcfg & Hex). rewrite Hex. cbn [negb]. apply step_res_nil. exact Hinv.
  - pose proof Hinv as (Hcfg & Hex & Hcl & Hop & _). rewrite Hex. cbn [negb].
    apply flush_step.
    destruct (s_rev_closed st).
    { pose proof (fa_loop_gen S i c syn (Datatypes.S (Datatypes.S (length (h_queue (s_half st))))) st (GLive kn en) HS Hinv
                    (ginv_stopped _ _ _ _ _ _ Hinv)) as Hr.
      destruct (fa_loop _ fullv st) as [[s2 ev2] pk]. exact Hr. }
    destruct (close_rev_gen S i c syn (s_ncalls st) st kn en Hinv) as (s1 & ev1 & g1 & He & Hg & Hi & Hn & Hnc & Hst & _).
    rewrite He.
    apply (flush_res_trans False S i c syn (s_ncalls st) (GLive kn en) ev1 g1 s1); [exact Hg|rewrite Hnc, Hn; lia|].
    apply fa_loop_gen; assumption.
Qed.

(* after FlushAll no stream is left: the loop runs until the data half is closed (its fuel exceeds
   the queue length, every round takes at least one page), the other half was closed first *)
Lemma flush_all_dead : forall S i c st st' ev g',
  flush_all fullv st = (st', ev, false) -> ginv c S i R g' st' -> g' = GDead.
Proof.
  intros S i c st st' ev g' He Hi. unfold flush_all in He.
  destruct (s_exists st) eqn:Hex; cbn [negb] in He.
  2:{ inversion He; subst st'. destruct g' as [|kn en]; [reflexivity|]. destruct Hi as (_ & Hx & _). congruence. }
  assert (Hs1 : exists s1 ev1, (if s_rev_closed st then (st, []) else close_rev st) = (s1, ev1) /\ s_rev_closed s1 = true).
  { destruct (s_rev_closed st) eqn:Erc; [exists st, []; auto|]. unfold close_rev.
    destruct (h_closed (s_half st)); eexists; eexists; split; reflexivity. }
  destruct Hs1 as (s1 & ev1 & Hs1 & Hrc1). rewrite Hs1 in He.
  pose proof (fa_loop_facts fullv (Datatypes.S (Datatypes.S (length (h_queue (s_half s1))))) s1) as (F1 & F2).
  destruct (fa_loop (Datatypes.S (Datatypes.S (length (h_queue (s_half s1))))) fullv s1) as [[s2 ev2] pk2].
  cbn [fst snd] in *. inversion He; subst s2 pk2. specialize (F2 ltac:(lia) eq_refl).
  destruct g' as [|kn [|]]; [reflexivity| |].
  - destruct Hi as (_ & _ & _ & _ & Hrv). specialize (Hrv eq_refl). congruence.
  - destruct Hi as (_ & _ & Hcl & _). congruence.
Qed.

End WithR.

(* ---------------------------------------------------------------- histories *)
Definition cfg_after (c : cfg) (h : hop) : cfg :=
  match h with
  | HCfg a b => mkCfg a b (c_keep c)
  | HKeep k => mkCfg (c_mpc c) (c_mt c) k
  | _ => c
  end.
Definition syn_of (h : hop) : bool := match h with HSyn _ _ => true | _ => false end.
Definition allow_of (c : cfg) (h : hop) : bool := negb (is_seg h) || limits_on c.

(* the received ranges after the operation has been noted *)
Definition rstep (g : gst) (R0 : list (Z * Z)) (h : hop) : list (Z * Z) :=
  match h with
  | HSyn n _ => rnote (gnote (glive g) true) (rbase g R0) 0 n
  | HData o n _ _ _ => rnote (gnote (glive g) false) (rbase g R0) o n
  | _ => R0
  end.

Lemma gnote_false : forall g, gnote g false = g.
Proof. intros [|[kn|] [|]]; reflexivity. Qed.

Lemma hop_step : forall S i c st g h R0,
  zlen S < HIS -> ginv c S i R0 g st -> hop_okb S h = true ->
  step_res (rstep g R0 h) True S i (cfg_after c h) (allow_of (cfg_after c h) h) (syn_of h) (s_ncalls st) (gnote g (syn_of h))
           (step fullv st (op_of S i h)).
Proof.
  intros S i c st g h R0 HS Hinv Hok.
  destruct h as [a b|k|n ts|o n fin rst ts|t tc|]; cbn [op_of step cfg_after syn_of allow_of is_seg negb orb rstep].
  - rewrite gnote_false.
    econstructor; [reflexivity|reflexivity|apply gclosed_refl| |cbn [s_ncalls nsg filter length]; lia|intros _; reflexivity].
    destruct Hinv as (Hcfg & Hg). unfold ginv. cbn [s_cfg s_exists s_half]. rewrite Hcfg. split; [reflexivity|exact Hg].
  - rewrite gnote_false.
    econstructor; [reflexivity|reflexivity|apply gclosed_refl| |cbn [s_ncalls nsg filter length]; lia|intros _; reflexivity].
    destruct Hinv as (Hcfg & Hg). unfold ginv. cbn [s_cfg s_exists s_half]. rewrite Hcfg. split; [reflexivity|exact Hg].
  - cbn [hop_okb] in Hok.
    destruct (assemble_ok (rnote (gnote (glive g) true) (rbase g R0) 0 n) S i c st
                (mkSeg (i mod M32) true false false false ts (sub S 0 n)) g 0 n R0 HS Hinv)
      as (st' & ev & g' & He & Hg & Hi & Hnc).
    { unfold seg_ok. cbn [g_force g_bytes g_fin g_syn g_seq].
      split; [reflexivity|]. split; [reflexivity|]. split; [lia|]. split; [lia|]. split; [lia|].
      split; [intros Hc; discriminate|]. split; [apply syn_seq|intros; reflexivity]. }
    { reflexivity. }
    cbn [g_syn] in Hg. econstructor; [exact He|exact Hg|apply gclosed_refl|exact Hi|exact Hnc|intros _; reflexivity].
  - cbn [hop_okb] in Hok.
    destruct (assemble_ok (rnote (gnote (glive g) false) (rbase g R0) o n) S i c st
                (mkSeg (sq i o) false fin rst false ts (sub S o n)) g o n R0 HS Hinv)
      as (st' & ev & g' & He & Hg & Hi & Hnc).
    { unfold seg_ok. cbn [g_force g_bytes g_fin g_syn g_seq].
      split; [reflexivity|]. split; [reflexivity|]. split; [lia|]. split; [lia|]. split; [lia|].
      split; [intros Hf; subst fin; cbn [negb orb] in Hok; lia|]. split; [reflexivity|intros Hc; discriminate]. }
    { reflexivity. }
    cbn [g_syn] in Hg. econstructor; [exact He|exact Hg|apply gclosed_refl|exact Hi|exact Hnc|intros _; reflexivity].
  - rewrite gnote_false. apply flush_opts_gen; assumption.
  - rewrite gnote_false.
    destruct (flush_all_gen R0 S i c false st g HS Hinv) as [st' ev gm g' He Hg Hgc Hi Hnc _].
    assert (Hd : g' = GDead) by (eapply flush_all_dead; [exact He|exact Hi]). subst g'.
    assert (gm = GDead) by (destruct Hgc as [H|(k & _ & H)]; [symmetry; exact H|discriminate]). subst gm.
    econstructor; [exact He|exact Hg|apply gclosed_refl|exact Hi|exact Hnc|intros _; reflexivity].
Qed.

(* the trace of a history, read with the abstract state and the received ranges *)
Fixpoint gtrace (S : list Z) (c : cfg) (g : gst) (R0 : list (Z * Z)) (nc : nat) (hs : list hop)
                (tr : list (list event * Z)) : Prop :=
  match hs, tr with
  | [], [] => True
  | h :: hs', (ev, _) :: tr' =>
    exists g', gevs (rstep g R0 h) S (cfg_after c h) (allow_of (cfg_after c h) h) (syn_of h) nc (gnote g (syn_of h)) ev g' /\
               (h = HFlushAll -> g' = GDead) /\
               (nonew ev \/ (g = GDead /\ is_seg h = true /\ exists sid rest, ev = ENew sid :: rest /\ nonew rest)) /\
               gtrace S (cfg_after c h) g' (rstep g R0 h) (nc + nsg ev)%nat hs' tr'
  | _, _ => False
  end.

Lemma run_gtrace : forall S i hs c st g R0,
  zlen S < HIS -> ginv c S i R0 g st -> forallb (hop_okb S) hs = true ->
  gtrace S c g R0 (s_ncalls st) hs (run_trace fullv st (map (op_of S i) hs)).
Proof.
  intros S i. induction hs as [|h t IH]; intros c st g R0 HS Hinv Hok; cbn [map run_trace gtrace]; [exact I|].
  cbn [forallb] in Hok. apply andb_prop in Hok. destruct Hok as (Ho1 & Ho2).
  destruct (hop_step S i c st g h R0 HS Hinv Ho1) as [st' ev gm g' He Hg Hgc Hi Hnc Hns].
  specialize (Hns I). subst gm.
  rewrite He. exists g'. split; [exact Hg|]. split.
  - intros Hh. subst h. cbn [op_of step] in He. eapply flush_all_dead; [exact He|exact Hi].
  - split; [|rewrite <- Hnc; apply IH; assumption].
    pose proof (step_nonew fullv st (op_of S i h)) as Hn. rewrite He in Hn. cbn [fst snd] in Hn.
    destruct Hn as [Hn|(sid & rest & H1 & H2 & H3 & gg & H4)]; [left; exact Hn|right].
    split.
    + destruct g as [|kn en]; [reflexivity|]. destruct Hinv as (_ & Hx & _). congruence.
    + split; [destruct h; cbn [op_of] in H4; try discriminate; reflexivity|eauto].
Qed.

(* every history: no panic (the trace has one entry per operation) and the events are legal *)
Theorem stream_events : forall S i hs,
  zlen S < HIS -> forallb (hop_okb S) hs = true ->
  gtrace S (mkCfg 0 0 []) GDead [] 0 hs (run_hist fullv S i hs).
Proof.
  intros S i hs HS Hok. unfold run_hist.
  apply (run_gtrace S i hs (mkCfg 0 0 []) init GDead [] HS); [|exact Hok].
  unfold ginv, init. cbn [s_cfg s_exists]. auto.
Qed.
