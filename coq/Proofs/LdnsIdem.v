(* Ldns — serializing the layer that SerializeTo left behind (FixLengths stored the counts and the
   DataLengths) gives the same result again. *)
From GP Require Import Base ListX N6Lib LdnsModel LdnsSer.
From Coq Require Import Lia ZifyBool ZifyNat.
Open Scope Z_scope.

Lemma rr_wire_dlen r x : rr_wire (rr_set_dlen r x) = rr_wire r.
Proof. reflexivity. Qed.
Lemma rec_size_dlen r x : rec_size (rr_set_dlen r x) = rec_size r.
Proof. reflexivity. Qed.

Lemma rr_after_wire (r : rr) (fix_ : bool) (b : Z) : rr_wire (if fix_ then rr_set_dlen r b else r) = rr_wire r.
Proof. destruct fix_; reflexivity. Qed.

Lemma rrs_after_wire : forall rs fix_, rrs_wire (rrs_after rs fix_) = rrs_wire rs.
Proof.
  induction rs as [|r t IH]; intros fix_; cbn [rrs_after rrs_wire]; [reflexivity|].
  destruct (rr_wire r) as [w|e|s] eqn:E; [|cbn [rrs_wire]; rewrite E; reflexivity|cbn [rrs_wire]; rewrite E; reflexivity].
  destruct (rec_size r) as [b|e|s] eqn:E2; [|cbn [rrs_wire]; rewrite E; reflexivity|cbn [rrs_wire]; rewrite E; reflexivity].
  cbn [rrs_wire]. rewrite rr_after_wire, E, IH. reflexivity.
Qed.

Lemma rrs_after_size : forall rs fix_, compute_size (rrs_after rs fix_) = compute_size rs.
Proof.
  induction rs as [|r t IH]; intros fix_; cbn [rrs_after]; [reflexivity|].
  destruct (rr_wire r) as [w|e|s] eqn:E; [|reflexivity|reflexivity].
  destruct (rec_size r) as [b|e|s] eqn:E2; [|reflexivity|reflexivity].
  cbn [compute_size]. rewrite IH, E2. destruct fix_; [rewrite rec_size_dlen, E2|rewrite E2]; reflexivity.
Qed.

Lemma rrs_after_length : forall rs fix_, length (rrs_after rs fix_) = length rs.
Proof.
  induction rs as [|r t IH]; intros fix_; cbn [rrs_after]; [reflexivity|].
  destruct (rr_wire r); [|reflexivity|reflexivity]. destruct (rec_size r); [|reflexivity|reflexivity]. cbn [length]. rewrite IH. reflexivity.
Qed.

Lemma rrs_after_idem : forall rs fix_, rrs_after (rrs_after rs fix_) fix_ = rrs_after rs fix_.
Proof.
  induction rs as [|r t IH]; intros fix_; cbn [rrs_after]; [reflexivity|].
  destruct (rr_wire r) as [w|e|s] eqn:E; [|cbn [rrs_after]; rewrite E; reflexivity|cbn [rrs_after]; rewrite E; reflexivity].
  destruct (rec_size r) as [b|e|s] eqn:E2; [|cbn [rrs_after]; rewrite E, E2; reflexivity|cbn [rrs_after]; rewrite E, E2; reflexivity].
  cbn [rrs_after]. rewrite rr_after_wire, E. destruct fix_; cbn [rec_size]; [rewrite rec_size_dlen, E2|rewrite E2]; rewrite IH; reflexivity.
Qed.

(* successful serialization is repeatable: the layer left behind serializes to the same bytes and is
   left unchanged by the second call *)
Theorem ser_spec_repeat d payload fix_ bytes d' :
  ser_spec d payload fix_ = (Ok bytes, d') -> ser_spec d' payload fix_ = (Ok bytes, d').
Proof.
  unfold ser_spec. intros H.
  destruct (dns_sizes d) as [sz|e|s] eqn:Es; [|discriminate|discriminate].
  destruct (qs_wire (d_questions d)) as [qw|e|s] eqn:Eq; [|discriminate|discriminate].
  destruct (rrs_wire (d_answers d)) as [aw|e|s] eqn:Ea; [|discriminate|discriminate].
  destruct (rrs_wire (d_authorities d)) as [nw|e|s] eqn:En; [|discriminate|discriminate].
  destruct (rrs_wire (d_additionals d)) as [rw|e|s] eqn:Er; [|discriminate|discriminate].
  injection H as Hb Hd. subst d' bytes.
  set (d1 := counts_after d fix_).
  assert (Hq1 : d_questions d1 = d_questions d) by (unfold d1, counts_after; destruct fix_; reflexivity).
  assert (Ha1 : d_answers d1 = d_answers d) by (unfold d1, counts_after; destruct fix_; reflexivity).
  assert (Hn1 : d_authorities d1 = d_authorities d) by (unfold d1, counts_after; destruct fix_; reflexivity).
  assert (Hr1 : d_additionals d1 = d_additionals d) by (unfold d1, counts_after; destruct fix_; reflexivity).
  set (d2 := set_records d1 (rrs_after (d_answers d) fix_) (rrs_after (d_authorities d) fix_) (rrs_after (d_additionals d) fix_)).
  assert (Es2 : dns_sizes d2 = Ok sz).
  { unfold dns_sizes in *. unfold d2. cbn [d_questions d_answers d_authorities d_additionals set_records].
    rewrite Hq1, !rrs_after_size. exact Es. }
  assert (Hq2 : d_questions d2 = d_questions d) by (unfold d2; cbn [set_records d_questions]; exact Hq1).
  assert (Ha2 : d_answers d2 = rrs_after (d_answers d) fix_) by reflexivity.
  assert (Hn2 : d_authorities d2 = rrs_after (d_authorities d) fix_) by reflexivity.
  assert (Hr2 : d_additionals d2 = rrs_after (d_additionals d) fix_) by reflexivity.
  assert (Hc : counts_after d2 fix_ = d2).
  { unfold counts_after. destruct fix_; [|reflexivity]. rewrite Hq2, Ha2, Hn2, Hr2. unfold zlen. rewrite !rrs_after_length.
    unfold d2, d1, counts_after. reflexivity. }
  assert (Hh : hdr_wire d2 fix_ = hdr_wire d fix_).
  { unfold hdr_wire. rewrite Hc. fold d1. unfold hdr_b2, hdr_b3, d2, d1, counts_after. destruct fix_; reflexivity. }
  rewrite Es2, Hc, Hh, Hq2, Ha2, Hn2, Hr2, Eq, !rrs_after_wire, Ea, En, Er, !rrs_after_idem.
  first [reflexivity | (f_equal; unfold d2; destruct d1; reflexivity)].
Qed.
