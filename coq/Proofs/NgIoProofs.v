(* Generic facts about the stream interface of NgModel: bind laws of both interpreters and the
   chunking theorem (a chunked stream behaves as its flat view, for EVERY program). *)
From GP Require Import Base NgModel.
From Coq Require Import Lia ZifyBool ZifyNat.
Open Scope Z_scope.

Lemma run_f_bind {A B} (m : io A) (f : A -> io B) s :
  run_f (iobind m f) s = let '(a, s') := run_f m s in run_f (f a) s'.
Proof.
  revert s; induction m as [a|n k IH|n k IH|k IH|k IH|n sn bl k IH]; intros s; cbn [iobind run_f].
  - reflexivity.
  - destruct (f_read n s) as [[bs s'] st]. apply IH.
  - destruct (f_disc n s) as [s' st]. apply IH.
  - destruct (f_until0 s) as [[bs s'] st]. apply IH.
  - destruct (f_peek2 s) as [bs st]. apply IH.
  - apply IH.
Qed.

Lemma run_c_bind {A B} (m : io A) (f : A -> io B) s :
  run_c (iobind m f) s = let '(a, s') := run_c m s in run_c (f a) s'.
Proof.
  revert s; induction m as [a|n k IH|n k IH|k IH|k IH|n sn bl k IH]; intros s; cbn [iobind run_c].
  - reflexivity.
  - destruct (c_read n s) as [[bs s'] st]. apply IH.
  - destruct (c_disc n s) as [s' st]. apply IH.
  - destruct (c_until0 s) as [[bs s'] st]. apply IH.
  - destruct (c_peek 2 s) as [bs st]. apply IH.
  - apply IH.
Qed.

(* ---------------------------------------------------------------- flat view of a chunked stream *)
Definition frel (ev : list event) (fs : fstream) : Prop :=
  fdata fs = flat_data ev /\ ffail fs = flat_fail ev /\ flen fs = zlen (fdata fs).

Lemma zlen_app {A} (a b : list A) : zlen (a ++ b) = zlen a + zlen b.
Proof. unfold zlen. rewrite app_length. lia. Qed.
Lemma zlen_nonneg {A} (a : list A) : 0 <= zlen a.
Proof. unfold zlen. lia. Qed.

Ltac zl := cbn [fst snd fdata flen ffail fallocs] in *; repeat rewrite zlen_app in *; unfold zlen in *; repeat rewrite skipn_length in *; lia.

Ltac fin := unfold frel, fdrain, fend in *; cbn [fst snd fdata ffail flen fallocs flat_data flat_fail] in *;
  repeat split; auto; try zl.

Lemma frel_drain ev fs : frel ev fs -> flat_data ev = [] -> frel ev (fdrain fs).
Proof. intros (H1 & H2 & H3) He. unfold frel, fdrain; cbn. rewrite He. repeat split; auto. Qed.

Lemma firstn_app_le {A} (l r : list A) n : (n <= length l)%nat -> firstn n (l ++ r) = firstn n l.
Proof. intros H. rewrite firstn_app. replace (n - length l)%nat with 0%nat by lia. cbn. apply app_nil_r. Qed.
Lemma skipn_app_le {A} (l r : list A) n : (n <= length l)%nat -> skipn n (l ++ r) = skipn n l ++ r.
Proof. intros H. rewrite skipn_app. replace (n - length l)%nat with 0%nat by lia. reflexivity. Qed.
Lemma firstn_app_ge {A} (l r : list A) n : (length l <= n)%nat -> firstn n (l ++ r) = l ++ firstn (n - length l) r.
Proof. intros H. rewrite firstn_app. rewrite firstn_all2 by lia. reflexivity. Qed.
Lemma skipn_app_ge {A} (l r : list A) n : (length l <= n)%nat -> skipn n (l ++ r) = skipn (n - length l) r.
Proof. intros H. rewrite skipn_app. rewrite skipn_all2 by lia. reflexivity. Qed.

(* what f_read does, in terms of the data alone *)
Lemma f_read_spec n fs : flen fs = zlen (fdata fs) ->
  f_read n fs =
  if n <=? 0 then ([], fs, RsOk)
  else if n <=? zlen (fdata fs)
       then (firstn (Z.to_nat n) (fdata fs),
             mkF (skipn (Z.to_nat n) (fdata fs)) (zlen (fdata fs) - n) (ffail fs) (fallocs fs), RsOk)
       else (fdata fs, fdrain fs, fend fs).
Proof. intros H. unfold f_read. rewrite H. reflexivity. Qed.

Definition rel3 {X} (c : X * list event * rstat) (f : X * fstream * rstat) : Prop :=
  fst (fst c) = fst (fst f) /\ snd c = snd f /\ frel (snd (fst c)) (snd (fst f)).

Lemma c_read_rel : forall ev n fs, frel ev fs -> rel3 (c_read n ev) (f_read n fs).
Proof.
  unfold rel3. induction ev as [|e t IH]; intros n fs (Hd & Hf & Hl).
  - rewrite f_read_spec by exact Hl. cbn [c_read]. rewrite Hd. cbn [flat_data] in *.
    destruct (n <=? 0) eqn:E0; [repeat split; auto; unfold frel; auto|].
    change (zlen (@nil Z)) with 0. rewrite E0.
    unfold fend. rewrite Hf. cbn. repeat split; auto; unfold frel, fdrain; cbn; auto.
  - rewrite f_read_spec by exact Hl. cbn [c_read].
    destruct (n <=? 0) eqn:E0; [repeat split; auto; unfold frel; auto|].
    destruct e as [l|].
    + cbn [flat_data flat_fail] in Hd, Hf.
      destruct (n <=? zlen l) eqn:E1.
      * rewrite Hd. rewrite zlen_app. assert (n <=? zlen l + zlen (flat_data t) = true) as -> by (pose proof (zlen_nonneg (flat_data t)); lia).
        rewrite firstn_app_le, skipn_app_le by (unfold zlen in *; lia).
        repeat split; auto. unfold frel; cbn [fdata ffail flen flat_data flat_fail].
        repeat split; auto; zl.
      * specialize (IH (n - zlen l) (mkF (flat_data t) (zlen (flat_data t)) (ffail fs) (fallocs fs))).
        assert (frel t (mkF (flat_data t) (zlen (flat_data t)) (ffail fs) (fallocs fs))) as Hr
          by (unfold frel; cbn; auto).
        specialize (IH Hr). rewrite f_read_spec in IH by reflexivity. cbn [fdata ffail flen fallocs] in IH.
        destruct (c_read (n - zlen l) t) as [[a ev'] st].
        assert (n - zlen l <=? 0 = false) as En by lia. rewrite En in IH.
        rewrite Hd, zlen_app.
        destruct (n - zlen l <=? zlen (flat_data t)) eqn:E2; cbn [fst snd] in IH |- *.
        -- assert (n <=? zlen l + zlen (flat_data t) = true) as -> by lia. cbn [fst snd].
           destruct IH as (Ha & Hs & (H1 & H2 & H3)). subst a st.
           rewrite firstn_app_ge, skipn_app_ge by (unfold zlen in *; lia).
           replace (Z.to_nat n - length l)%nat with (Z.to_nat (n - zlen l)) by (unfold zlen; lia).
           unfold frel; cbn [fdata ffail flen] in *.
           repeat split; auto. rewrite <- H3. lia.
        -- assert (n <=? zlen l + zlen (flat_data t) = false) as -> by lia. cbn [fst snd].
           destruct IH as (Ha & Hs & (H1 & H2 & H3)). subst a st.
           unfold frel, fdrain, fend in *; cbn [fdata ffail flen] in *.
           repeat split; auto.
    + cbn [flat_data flat_fail] in Hd, Hf. rewrite Hd. change (zlen (@nil Z)) with 0. rewrite E0.
      unfold fend. rewrite Hf. repeat split; auto; unfold frel, fdrain; cbn; auto.
Qed.

Lemma c_disc_rel ev n fs : frel ev fs ->
  snd (c_disc n ev) = snd (f_disc n fs) /\ frel (fst (c_disc n ev)) (fst (f_disc n fs)).
Proof.
  intros H. pose proof (c_read_rel ev n fs H) as R. unfold rel3 in R. unfold c_disc.
  destruct (c_read n ev) as [[a ev'] st]. unfold f_read in R. unfold f_disc.
  destruct (n <=? 0); [cbn in *; tauto|]. destruct (n <=? flen fs); cbn in *; tauto.
Qed.

Lemma split0_app l r :
  split0 (l ++ r) =
  match split0 l with
  | Some (a, rest) => Some (a, rest ++ r)
  | None => match split0 r with Some (a, rest) => Some (l ++ a, rest) | None => None end
  end.
Proof.
  induction l as [|b t IH]; cbn [split0 app].
  - destruct (split0 r) as [[a rest]|]; reflexivity.
  - destruct (b =? 0); [reflexivity|]. rewrite IH.
    destruct (split0 t) as [[a rest]|]; [reflexivity|]. destruct (split0 r) as [[a rest]|]; reflexivity.
Qed.

Lemma split0_len l a r : split0 l = Some (a, r) -> l = a ++ r.
Proof.
  revert a r; induction l as [|b t IH]; intros a r; cbn [split0]; [discriminate|].
  destruct (b =? 0). { intros [= <- <-]. reflexivity. }
  destruct (split0 t) as [[a' r']|] eqn:E; [|discriminate]. intros [= <- <-]. cbn. f_equal. apply IH. reflexivity.
Qed.

Lemma c_until0_rel : forall ev fs, frel ev fs -> rel3 (c_until0 ev) (f_until0 fs).
Proof.
  unfold rel3. induction ev as [|e t IH]; intros fs (Hd & Hf & Hl); unfold f_until0; cbn [c_until0].
  - rewrite Hd. cbn. unfold fend. rewrite Hf. repeat split; auto; unfold frel, fdrain; cbn; auto.
  - destruct e as [l|].
    + cbn [flat_data flat_fail] in Hd, Hf. rewrite Hd, split0_app.
      destruct (split0 l) as [[a rest]|] eqn:E1.
      * apply split0_len in E1. subst l. fin. rewrite Hl, Hd. zl.
      * specialize (IH (mkF (flat_data t) (zlen (flat_data t)) (ffail fs) (fallocs fs))).
        assert (frel t (mkF (flat_data t) (zlen (flat_data t)) (ffail fs) (fallocs fs))) as Hr
          by (unfold frel; cbn; auto).
        specialize (IH Hr). unfold f_until0 in IH. cbn [fdata ffail flen fallocs] in IH.
        destruct (c_until0 t) as [[a ev'] st].
        destruct (split0 (flat_data t)) as [[a2 rest2]|] eqn:E2.
        -- destruct IH as (Ha & Hs & (H1 & H2 & H3)). cbn [fst snd] in *. subst a st.
           apply split0_len in E2. rewrite E2 in *. fin. rewrite Hl, Hd. zl.
        -- destruct IH as (Ha & Hs & (H1 & H2 & H3)). cbn [fst snd] in *. subst a st. fin.
    + cbn [flat_data flat_fail] in Hd, Hf. rewrite Hd. cbn. unfold fend. rewrite Hf.
      repeat split; auto; unfold frel, fdrain; cbn; auto.
Qed.

Lemma c_peek_rel : forall ev n fs, frel ev fs -> 0 < n ->
  c_peek n ev = if n <=? zlen (fdata fs) then (firstn (Z.to_nat n) (fdata fs), RsOk) else (fdata fs, fend fs).
Proof.
  induction ev as [|e t IH]; intros n fs (Hd & Hf & Hl) Hn; cbn [c_peek].
  - assert (n <=? 0 = false) as -> by lia. rewrite Hd. cbn [flat_data]. change (zlen (@nil Z)) with 0.
    assert (n <=? 0 = false) as -> by lia. unfold fend. rewrite Hf. reflexivity.
  - assert (n <=? 0 = false) as -> by lia. destruct e as [l|].
    + cbn [flat_data flat_fail] in Hd, Hf. rewrite Hd, zlen_app.
      destruct (n <=? zlen l) eqn:E1.
      * assert (n <=? zlen l + zlen (flat_data t) = true) as -> by (pose proof (zlen_nonneg (flat_data t)); lia).
        rewrite firstn_app_le by (unfold zlen in *; lia). reflexivity.
      * rewrite (IH (n - zlen l) (mkF (flat_data t) (zlen (flat_data t)) (ffail fs) (fallocs fs)))
          by (try lia; unfold frel; cbn; auto).
        cbn [fdata]. unfold fend; cbn [ffail].
        destruct (n - zlen l <=? zlen (flat_data t)) eqn:E2.
        -- assert (n <=? zlen l + zlen (flat_data t) = true) as -> by lia.
           rewrite firstn_app_ge by (unfold zlen in *; lia).
           replace (Z.to_nat n - length l)%nat with (Z.to_nat (n - zlen l)) by (unfold zlen; lia). reflexivity.
        -- assert (n <=? zlen l + zlen (flat_data t) = false) as -> by lia. reflexivity.
    + cbn [flat_data flat_fail] in Hd, Hf. rewrite Hd. change (zlen (@nil Z)) with 0.
      assert (n <=? 0 = false) as -> by lia. unfold fend. rewrite Hf. reflexivity.
Qed.

(* ---------------------------------------------------------------- the chunking theorem *)
Theorem run_c_flat {A} (p : io A) : forall ev fs, frel ev fs ->
  fst (run_c p ev) = fst (run_f p fs) /\ frel (snd (run_c p ev)) (snd (run_f p fs)).
Proof.
  induction p as [a|n k IH|n k IH|k IH|k IH|n sn bl k IH]; intros ev fs R; cbn [run_c run_f].
  - cbn. auto.
  - pose proof (c_read_rel ev n fs R) as H.
    destruct (c_read n ev) as [[bs ev'] st]. destruct (f_read n fs) as [[bs2 fs'] st2].
    unfold rel3 in H; cbn [fst snd] in H. destruct H as (-> & -> & R'). apply IH; exact R'.
  - pose proof (c_disc_rel ev n fs R) as H.
    destruct (c_disc n ev) as [ev' st]. destruct (f_disc n fs) as [fs' st2].
    cbn [fst snd] in H. destruct H as (-> & R'). apply IH; exact R'.
  - pose proof (c_until0_rel ev fs R) as H.
    destruct (c_until0 ev) as [[bs ev'] st]. destruct (f_until0 fs) as [[bs2 fs'] st2].
    unfold rel3 in H; cbn [fst snd] in H. destruct H as (-> & -> & R'). apply IH; exact R'.
  - rewrite (c_peek_rel ev 2 fs R) by lia. unfold f_peek2.
    destruct R as (Hd & Hf & Hl). rewrite Hl.
    destruct (2 <=? zlen (fdata fs)); apply IH; unfold frel; auto.
  - apply IH. destruct R as (Hd & Hf & Hl). unfold frel; cbn; auto.
Qed.

Lemma frel_flat ev : frel ev (fstream_of (flat_data ev) (flat_fail ev)).
Proof. unfold frel, fstream_of; cbn. auto. Qed.

Corollary session_chunked_flat ro ev :
  fst (session_chunked ro ev) = fst (session_flat ro (flat_data ev) (flat_fail ev)).
Proof. unfold session_chunked, session_flat. apply run_c_flat. apply frel_flat. Qed.
