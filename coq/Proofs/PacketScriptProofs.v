(* Scripted families (Model/PacketScript.v) and the hypotheses of the framework theorems:
   the decidable checks table_F6b / table_no_seterrb / table_progressb imply F6 / no_seterr /
   progress; every scripted family is opts_blind and adds no DecodeFailure.  The runner
   evaluates the checks per case, so the evidence says how many executed cases lie inside the
   theorems' domain. *)
From GP Require Import Base PacketCore PacketScript PacketCoreProofs.
From Coq Require Import Lia.
Open Scope Z_scope.

Lemma lookup_in t tbl sc : lookup t tbl = Some sc -> In (t, sc) tbl.
Proof.
  induction tbl as [|[k s] rest IH]; cbn; [discriminate|].
  destruct (k =? t) eqn:E; intros H.
  - inversion H; subst. apply Z.eqb_eq in E. subst. left; reflexivity.
  - right. apply IH. exact H.
Qed.

Lemma pick_variant_in sc data v : pick_variant sc data = Some v -> In v sc.
Proof.
  unfold pick_variant. destruct sc as [|v0 sc']; [discriminate|]. apply nth_error_In.
Qed.

Lemma existsb_flat_map {A B} (f : B -> bool) (g : A -> list B) l :
  existsb f (flat_map g l) = existsb (fun a => existsb f (g a)) l.
Proof. induction l as [|a l IH]; cbn; [reflexivity|]. rewrite existsb_app, IH. reflexivity. Qed.

(* what a script decoder returns *)
Lemma script_decoder_inv sc data o acts term :
  script_decoder sc data o = (acts, term) ->
  (acts = [] /\ term = Fail /\ pick_variant sc data = None) \/
  exists v, In v sc /\ pick_variant sc data = Some v /\
    acts = flat_map (act_of (map (fun s => layer_of s data) (v_layers v))) (v_acts v) /\
    (term = v_term v \/ v_term_dsad v = Some term).
Proof.
  unfold script_decoder. destruct (pick_variant sc data) as [v|] eqn:EP.
  - intros H. inversion H. right. exists v. split; [eapply pick_variant_in; eauto|].
    split; [reflexivity|]. split; [reflexivity|].
    destruct (v_term_dsad v) as [t|]; [|left; reflexivity].
    destruct (o_dsad o); [right; reflexivity | left; reflexivity].
  - intros H. inversion H. left. auto.
Qed.

Lemma family_of_inv tbl t d : family_of tbl t = Some d -> exists sc, In (t, sc) tbl /\ d = script_decoder sc.
Proof.
  unfold family_of. destruct (lookup t tbl) as [sc|] eqn:EL; [|discriminate].
  intros H. inversion H. exists sc. split; [apply lookup_in; exact EL | reflexivity].
Qed.

Theorem table_F6 tbl : table_F6b tbl = true -> F6 (family_of tbl).
Proof.
  intros HT t d data o acts t' EF ED.
  destruct (family_of_inv _ _ _ EF) as [sc [Hin ->]].
  unfold table_F6b in HT. rewrite forallb_forall in HT. specialize (HT _ Hin). cbn in HT.
  rewrite forallb_forall in HT.
  destruct (script_decoder_inv _ _ _ _ _ ED) as [[_ [HF _]]|[v [Hv [_ [-> Hterm]]]]]; [discriminate|].
  specialize (HT _ Hv). unfold variant_F6b in HT.
  assert (HC : variant_continues v = true).
  { unfold variant_continues. destruct Hterm as [H|H].
    - rewrite <- H. reflexivity.
    - rewrite H. cbn. apply orb_true_r. }
  rewrite HC in HT. cbn in HT.
  unfold has_add. rewrite existsb_flat_map.
  apply existsb_exists in HT. destruct HT as [a [Ha Hadd]].
  apply existsb_exists. exists a. split; [exact Ha|].
  destruct a; cbn in Hadd; try discriminate.
  apply Nat.ltb_lt in Hadd. cbn.
  destruct (nth_error (map (fun s => layer_of s data) (v_layers v)) k) eqn:EN.
  - reflexivity.
  - apply nth_error_None in EN. rewrite map_length in EN. lia.
Qed.

Theorem table_no_seterr tbl : table_no_seterrb tbl = true -> no_seterr (family_of tbl).
Proof.
  intros HT t d data o acts term EF ED.
  destruct (family_of_inv _ _ _ EF) as [sc [Hin ->]].
  unfold table_no_seterrb in HT. rewrite forallb_forall in HT. specialize (HT _ Hin). cbn in HT.
  rewrite forallb_forall in HT.
  destruct (script_decoder_inv _ _ _ _ _ ED) as [[-> _]|[v [Hv [_ [-> _]]]]]; [reflexivity|].
  specialize (HT _ Hv). apply negb_true_iff in HT.
  rewrite existsb_flat_map.
  destruct (existsb (fun a => existsb is_seterr (act_of _ a)) (v_acts v)) eqn:E; [|reflexivity].
  apply existsb_exists in E. destruct E as [a [Ha Hs]].
  assert (sact_seterr a = true).
  { destruct a; cbn in Hs |- *; try reflexivity;
      try (destruct (nth_error _ k); cbn in Hs; discriminate); discriminate. }
  assert (existsb sact_seterr (v_acts v) = true) by (apply existsb_exists; eauto).
  congruence.
Qed.

(* scripted layers are never DecodeFailures *)
Theorem table_no_fail_layers tbl : no_fail_layers (family_of tbl).
Proof.
  intros t d data o acts term EF ED.
  destruct (family_of_inv _ _ _ EF) as [sc [Hin ->]].
  destruct (script_decoder_inv _ _ _ _ _ ED) as [[-> _]|[v [Hv [_ [-> _]]]]]; [reflexivity|].
  rewrite existsb_flat_map.
  destruct (existsb (fun a => existsb adds_fail (act_of _ a)) (v_acts v)) eqn:E; [|reflexivity].
  apply existsb_exists in E. destruct E as [a [Ha Hs]]. exfalso.
  destruct a; cbn in Hs; try discriminate;
    destruct (nth_error (map (fun s => layer_of s data) (v_layers v)) k) eqn:EN; cbn in Hs; try discriminate.
  apply nth_error_In in EN. apply in_map_iff in EN. destruct EN as [s [<- _]].
  cbn in Hs. discriminate.
Qed.

(* scripts read no option but DecodeStreamsAsDatagrams *)
Theorem table_opts_blind tbl : opts_blind (family_of tbl).
Proof.
  intros t d data o1 o2 EF [_ HV].
  destruct (family_of_inv _ _ _ EF) as [sc [_ ->]].
  unfold script_decoder. rewrite HV. reflexivity.
Qed.

Lemma last_sadd_cur n acts : forall c,
  last_sadd n acts c = match last_sadd n acts None with Some k => Some k | None => c end.
Proof.
  induction acts as [|a acts IH]; intros c; cbn [last_sadd]; [destruct c; reflexivity|].
  destruct a; try apply IH.
  destruct (k <? n)%nat; [|apply IH].
  rewrite (IH (Some k)). destruct (last_sadd n acts None); reflexivity.
Qed.

Lemma last_add_script ls acts : forall cur,
  last_add (flat_map (act_of ls) acts) cur =
  match last_sadd (length ls) acts None with Some k => nth_error ls k | None => cur end.
Proof.
  induction acts as [|a acts IH]; intros cur; cbn [flat_map last_sadd]; [reflexivity|].
  assert (HS : forall (f : layer -> action) k, (forall l, is_add (f l) = false) ->
            last_add ((match nth_error ls k with Some l => [f l] | None => [] end) ++ flat_map (act_of ls) acts) cur
            = last_add (flat_map (act_of ls) acts) cur).
  { intros f k Hf. destruct (nth_error ls k) as [l|]; [|reflexivity]. cbn.
    specialize (Hf l). destruct (f l); cbn in Hf; try discriminate; reflexivity. }
  destruct a; cbn [act_of];
    try (rewrite HS by (intros; reflexivity); apply IH); try apply IH.
  (* SAdd k *)
  destruct (k <? length ls)%nat eqn:EK.
  - apply Nat.ltb_lt in EK. destruct (nth_error ls k) as [l|] eqn:EN.
    + cbn. rewrite IH. rewrite (last_sadd_cur _ _ (Some k)).
      destruct (last_sadd (length ls) acts None); [reflexivity | symmetry; exact EN].
    + apply nth_error_None in EN. lia.
  - apply Nat.ltb_ge in EK. destruct (nth_error ls k) as [l|] eqn:EN.
    + assert (k < length ls)%nat by (apply nth_error_Some; congruence). lia.
    + cbn. apply IH.
Qed.

Theorem table_progress tbl : table_progressb tbl = true -> progress (family_of tbl).
Proof.
  intros HT t d data o acts t' EF ED.
  destruct (family_of_inv _ _ _ EF) as [sc [Hin ->]].
  unfold table_progressb in HT. rewrite forallb_forall in HT. specialize (HT _ Hin). cbn in HT.
  rewrite forallb_forall in HT.
  destruct (script_decoder_inv _ _ _ _ _ ED) as [[_ [HF _]]|[v [Hv [_ [-> Hterm]]]]]; [discriminate|].
  specialize (HT _ Hv). unfold variant_progressb in HT.
  assert (HC : variant_continues v = true).
  { unfold variant_continues. destruct Hterm as [H|H].
    - rewrite <- H. reflexivity.
    - rewrite H. cbn. apply orb_true_r. }
  rewrite HC in HT. cbn in HT.
  rewrite last_add_script, map_length.
  destruct (last_sadd (length (v_layers v)) (v_acts v) None) as [k|]; [|discriminate].
  rewrite nth_error_map.
  destruct (nth_error (v_layers v) k) as [s|]; [|discriminate]. cbn.
  eexists; split; [reflexivity|]. unfold layer_of, lspec_shrinks in *. cbn.
  destruct (ls_pmode s) as [| | |b].
  - apply Nat.leb_le in HT. destruct data as [|x data']; [right; destruct (ls_clen s); reflexivity|].
    left. rewrite skipn_length. cbn [length]. lia.
  - right; reflexivity.
  - discriminate.
  - destruct b; [right; reflexivity|discriminate].
Qed.
