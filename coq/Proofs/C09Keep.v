(* C09: kept bytes.  Saved pages as a run of consecutive consistent pages lying immediately before
   the delivery point; the containers of a ScatterGather as such a run; cleanSG (find_keep,
   keep_conv with the repaired offset handling) keeps exactly the tail of the run from the
   KeepFrom offset, re-paged, without panic.  Everything here is about [fullv], the code as it
   stands; the lemmas of C09Proofs/C09Stream (stated for [fixedv]) are reused through the
   extensionality lemmas below (the functions involved only look at v_diff). *)
From GP Require Import Base C09Model C09Spec C09Seq C09Proofs C09Stream C09Flush.
From Coq Require Import Lia ZifyBool ZifyNat.
Ltac Zify.zify_post_hook ::= Z.div_mod_to_equations.
Open Scope Z_scope.

(* ---------------------------------------------------------------- fullv / fixedv *)
Lemma diffv_full : forall s t, diffv fullv s t = diffv fixedv s t.
Proof. reflexivity. Qed.

Lemma co_loop_full : forall s e left right bytes rel tags,
  co_loop fullv s e left right bytes rel tags = co_loop fixedv s e left right bytes rel tags.
Proof.
  intros s e. induction left as [|cur rest IH]; intros right bytes rel tags; [reflexivity|].
  cbn [co_loop]. repeat rewrite IH. reflexivity.
Qed.

Lemma check_overlap_full : forall q b s ts e dq,
  check_overlap fullv q b s ts e dq = check_overlap fixedv q b s ts e dq.
Proof. intros. unfold check_overlap. rewrite co_loop_full. reflexivity. Qed.

Lemma overlap_existing_full : forall nx s b, overlap_existing fullv nx s b = overlap_existing fixedv nx s b.
Proof. reflexivity. Qed.

Lemma contig_loop_full : forall q l, contig_loop fullv q l = contig_loop fixedv q l.
Proof.
  induction q as [|p t IH]; intros l; [reflexivity|]. cbn [contig_loop]. rewrite IH. reflexivity.
Qed.

Lemma add_contiguous_full : forall q l, add_contiguous fullv q l = add_contiguous fixedv q l.
Proof. intros. destruct q; [reflexivity|]. unfold add_contiguous. rewrite contig_loop_full. reflexivity. Qed.

(* ---------------------------------------------------------------- runs of pages / containers *)
(* a page or container holding S[o, o+len), possibly empty *)
Definition spg (S : list Z) (i o : Z) (p : page) : Prop :=
  0 <= o /\ o + plen p <= zlen S /\ pseq p = sq i o /\ pbytes p = sub S o (plen p).

Definition cok (S : list Z) (i o : Z) (c : cont) : Prop :=
  0 <= o /\ o + clen c <= zlen S /\ cseq c = sq i o /\ cbytes c = sub S o (clen c).

(* consecutive pages / containers covering exactly [a, e) *)
Fixpoint sok (S : list Z) (i a e : Z) (l : list page) : Prop :=
  match l with
  | [] => a = e
  | p :: t => spg S i a p /\ sok S i (a + plen p) e t
  end.

Fixpoint csok (S : list Z) (i a e : Z) (l : list cont) : Prop :=
  match l with
  | [] => a = e
  | c :: t => cok S i a c /\ csok S i (a + clen c) e t
  end.

Lemma plen_nonneg : forall p, 0 <= plen p.
Proof. intros. unfold plen. apply zlen_nonneg. Qed.
Lemma clen_nonneg : forall c, 0 <= clen c.
Proof. intros. unfold clen. apply zlen_nonneg. Qed.

Lemma pg_spg : forall S i o p, pg S i o p -> spg S i o p.
Proof. intros S i o p (H1 & H2 & H3 & H4 & H5). unfold spg. auto. Qed.

Lemma sok_range : forall S i l a e, sok S i a e l -> a <= e.
Proof.
  induction l as [|p t IH]; intros a e H; cbn [sok] in H; [lia|].
  destruct H as (_ & H). apply IH in H. pose proof (plen_nonneg p). lia.
Qed.

Lemma csok_range : forall S i l a e, csok S i a e l -> a <= e.
Proof.
  induction l as [|c t IH]; intros a e H; cbn [csok] in H; [lia|].
  destruct H as (_ & H). apply IH in H. pose proof (clen_nonneg c). lia.
Qed.

Lemma sok_end : forall S i l a e, sok S i a e l -> 0 <= a -> a <= zlen S -> e <= zlen S.
Proof.
  induction l as [|p t IH]; intros a e H Ha HS; cbn [sok] in H; [lia|].
  destruct H as ((H1 & H2 & _) & H). eapply IH; eauto. pose proof (plen_nonneg p). lia.
Qed.

Lemma csok_end : forall S i l a e, csok S i a e l -> 0 <= a -> a <= zlen S -> e <= zlen S.
Proof.
  induction l as [|c t IH]; intros a e H Ha HS; cbn [csok] in H; [lia|].
  destruct H as ((H1 & H2 & _) & H). eapply IH; eauto. pose proof (clen_nonneg c). lia.
Qed.

Lemma sok_bytes : forall S i l a e, sok S i a e l -> 0 <= a -> pages_bytes l = sub S a (e - a).
Proof.
  induction l as [|p t IH]; intros a e H Ha; cbn [sok] in H.
  - subst e. replace (a - a) with 0 by lia. reflexivity.
  - destruct H as ((H1 & H2 & H3 & H4) & H). rewrite pages_bytes_cons.
    pose proof (plen_nonneg p). pose proof (sok_range _ _ _ _ _ H).
    rewrite (IH _ _ H) by lia. rewrite H4.
    replace (e - a) with (plen p + (e - (a + plen p))) by lia. apply sub_app; lia.
Qed.

Lemma csok_bytes : forall S i l a e, csok S i a e l -> 0 <= a -> concat (map cbytes l) = sub S a (e - a).
Proof.
  induction l as [|c t IH]; intros a e H Ha; cbn [csok] in H.
  - subst e. replace (a - a) with 0 by lia. reflexivity.
  - destruct H as ((H1 & H2 & H3 & H4) & H). cbn [map concat].
    pose proof (clen_nonneg c). pose proof (csok_range _ _ _ _ _ H).
    rewrite (IH _ _ H) by lia. rewrite H4.
    replace (e - a) with (clen c + (e - (a + clen c))) by lia. apply sub_app; lia.
Qed.

Lemma sok_app : forall S i l1 l2 a m e, sok S i a m l1 -> sok S i m e l2 -> sok S i a e (l1 ++ l2).
Proof.
  induction l1 as [|p t IH]; intros l2 a m e H1 H2; cbn [sok app] in *.
  - subst m. assumption.
  - destruct H1 as (Hp & H1). split; [assumption|]. eapply IH; eauto.
Qed.

Lemma csok_app : forall S i l1 l2 a m e, csok S i a m l1 -> csok S i m e l2 -> csok S i a e (l1 ++ l2).
Proof.
  induction l1 as [|c t IH]; intros l2 a m e H1 H2; cbn [csok app] in *.
  - subst m. assumption.
  - destruct H1 as (Hp & H1). split; [assumption|]. eapply IH; eauto.
Qed.

Lemma sok_csok : forall S i l a e, sok S i a e l -> csok S i a e (map CPage l).
Proof.
  induction l as [|p t IH]; intros a e H; cbn [sok csok map] in *; [assumption|].
  destruct H as (Hp & H). split; [exact Hp|]. apply IH. exact H.
Qed.

Lemma sum_len_sok : forall S i l a e, sok S i a e l -> sum_len l = e - a.
Proof.
  induction l as [|p t IH]; intros a e H; cbn [sok sum_len fold_right] in *; [lia|].
  destruct H as (_ & H). apply IH in H. unfold sum_len in H. unfold plen in *. lia.
Qed.

(* ---------------------------------------------------------------- convertToPages as a run *)
Lemma split_pages_sok : forall S i ts fl f s n,
  0 <= s -> 0 <= n -> s + n <= zlen S -> n <= PAGE * Z.of_nat f -> (0 < Z.of_nat f) ->
  sok S i s (s + n) (split_pages f (sq i s) ts fl (sub S s n)).
Proof.
  intros S i ts fl. induction f as [|f IH]; intros s n Hs Hn HS Hf Hf0.
  - lia.
  - cbn [split_pages]. rewrite zlen_sub by lia.
    destruct (Z.le_gt_cases n PAGE) as [Hle|Hgt].
    + replace (Z.min n PAGE) with n by lia.
      rewrite zskip_sub by lia. replace (n - n) with 0 by lia. rewrite sub_nil.
      rewrite ztake_sub by lia. cbn [sok].
      assert (Hl : plen (mkPage (sub S s n) (sq i s) ts fl) = n) by (unfold plen; cbn [pbytes]; apply zlen_sub; lia).
      rewrite Hl. split; [|reflexivity].
      unfold spg. rewrite Hl. cbn [pseq pbytes]. repeat split; try lia.
    + replace (Z.min n PAGE) with PAGE by lia.
      assert (Hp : 0 < PAGE) by (unfold PAGE; lia).
      rewrite zskip_sub by lia. rewrite ztake_sub by lia.
      destruct (sub S (s + PAGE) (n - PAGE)) eqn:Er.
      * assert (Hz : zlen (sub S (s + PAGE) (n - PAGE)) = n - PAGE) by (apply zlen_sub; lia).
        rewrite Er in Hz. cbn in Hz. lia.
      * rewrite <- Er. cbn [sok].
        assert (Hl : plen (mkPage (sub S s PAGE) (sq i s) ts false) = PAGE) by (unfold plen; cbn [pbytes]; apply zlen_sub; lia).
        rewrite Hl. split.
        -- unfold spg. rewrite Hl. cbn [pseq pbytes]. repeat split; try lia.
        -- rewrite sadd_sq. replace (s + n) with ((s + PAGE) + (n - PAGE)) by lia.
           apply IH; try lia.
Qed.

Lemma to_pages_sok : forall S i ts fl s n,
  0 <= s -> 0 <= n -> s + n <= zlen S -> sok S i s (s + n) (to_pages (sq i s) ts fl (sub S s n)).
Proof.
  intros. unfold to_pages. apply split_pages_sok; try lia.
  rewrite zlen_sub by lia. unfold PAGE. lia.
Qed.

(* ---------------------------------------------------------------- cleanSG *)
Definition total (l : list cont) : Z := zlen (concat (map cbytes l)).

Lemma total_cons : forall c t, total (c :: t) = clen c + total t.
Proof. intros. unfold total, clen. cbn [map concat]. apply zlen_app. Qed.

Lemma total_nonneg : forall l, 0 <= total l.
Proof. intros. unfold total. apply zlen_nonneg. Qed.

Lemma csok_total : forall S i l a e, csok S i a e l -> total l = e - a.
Proof.
  induction l as [|c t IH]; intros a e H; cbn [csok] in H.
  - subst. unfold total. cbn. lia.
  - destruct H as (_ & H). rewrite total_cons. apply IH in H. lia.
Qed.

(* the search loop: either the offset lies beyond everything (nothing kept) or it falls into a
   container, at an offset strictly inside it *)
Lemma find_keep_spec : forall all k cur ndx,
  0 <= cur <= k ->
  let '(j, sk) := find_keep all k cur (k - cur) ndx in
  (cur + total all <= k /\ j = (ndx + length all)%nat) \/
  (exists pre c post, all = pre ++ c :: post /\ j = (ndx + length pre)%nat /\
     sk = k - cur - total pre /\ 0 <= sk < clen c).
Proof.
  induction all as [|r t IH]; intros k cur ndx Hc; cbn [find_keep].
  - left. unfold total. cbn. split; [lia|]. cbn [length]. lia.
  - destruct (k <? cur + clen r) eqn:E.
    + right. exists [], r, t. cbn [app length]. unfold total. cbn. repeat split; try lia.
    + replace (k - cur >=? clen r) with true by lia.
      pose proof (clen_nonneg r).
      specialize (IH k (cur + clen r) (Datatypes.S ndx) ltac:(lia)).
      replace (k - cur - clen r) with (k - (cur + clen r)) by lia.
      destruct (find_keep t k (cur + clen r) (k - (cur + clen r)) (Datatypes.S ndx)) as (j & sk).
      destruct IH as [(H1 & H2)|(pre & c & post & H1 & H2 & H3 & H4)].
      * left. rewrite total_cons. split; [lia|]. cbn [length]. lia.
      * right. exists (r :: pre), c, post. subst t. cbn [app length]. rewrite total_cons.
        repeat split; try lia.
Qed.

(* converting whole containers *)
Lemma keep_conv_whole : forall S i l a e,
  csok S i a e l -> 0 <= a ->
  exists ps n, keep_conv fullv l 0 = (ps, n, false) /\ sok S i a e ps.
Proof.
  intros S i. induction l as [|c t IH]; intros a e H Ha; cbn [csok] in H.
  - subst. exists [], 0. split; reflexivity.
  - destruct H as ((H1 & H2 & H3 & H4) & H). pose proof (clen_nonneg c).
    destruct (IH _ _ H ltac:(lia)) as (ps & n & He & Hs).
    destruct c as [p|lp]; cbn [keep_conv]; unfold clen in *; cbn [cbytes cseq] in *.
    + replace ((0 <=? 0) && (0 <=? zlen (pbytes p))) with true by lia.
      replace (0 =? 0) with true by reflexivity. rewrite He.
      exists (p :: ps), n. split; [reflexivity|]. cbn [sok]. split; [|exact Hs].
      unfold spg, plen. auto.
    + replace ((0 <=? 0) && (0 <=? zlen (lbytes lp))) with true by lia.
      cbn [v_keep fullv]. rewrite He. rewrite H3, sadd_sq, zskip_0. rewrite Z.add_0_r.
      set (n0 := zlen (lbytes lp)) in *. rewrite H4.
      eexists. eexists. split; [reflexivity|].
      eapply sok_app; [apply to_pages_sok; lia|]. exact Hs.
Qed.

(* converting from an offset strictly inside the first container *)
Lemma keep_conv_first : forall S i c t a e sk,
  csok S i a e (c :: t) -> 0 <= a -> 0 <= sk < clen c ->
  exists ps n, keep_conv fullv (c :: t) sk = (ps, n, false) /\ sok S i (a + sk) e ps.
Proof.
  intros S i c t a e sk H Ha Hsk. cbn [csok] in H.
  destruct H as ((H1 & H2 & H3 & H4) & H).
  destruct (keep_conv_whole S i t _ _ H ltac:(lia)) as (ps & n & He & Hs).
  destruct c as [p|lp]; cbn [keep_conv]; unfold clen in *; cbn [cbytes cseq] in *.
  - replace ((0 <=? sk) && (sk <=? zlen (pbytes p))) with true by lia. rewrite He.
    eexists. eexists. split; [reflexivity|]. cbn [sok]. split.
    + destruct (sk =? 0) eqn:E0.
      * replace (a + sk) with a by lia. unfold spg, plen. auto.
      * unfold spg, plen. cbn [pbytes pseq]. rewrite zlen_zskip by lia.
        rewrite H3, sadd_sq. set (n0 := zlen (pbytes p)) in *.
        split; [lia|]. split; [lia|]. split; [reflexivity|].
        rewrite H4. apply zskip_sub; lia.
    + destruct (sk =? 0) eqn:E0.
      * replace (a + sk) with a by lia. exact Hs.
      * unfold plen. cbn [pbytes]. rewrite zlen_zskip by lia.
        replace (a + sk + (zlen (pbytes p) - sk)) with (a + zlen (pbytes p)) by lia. exact Hs.
  - replace ((0 <=? sk) && (sk <=? zlen (lbytes lp))) with true by lia.
    cbn [v_keep fullv]. rewrite He. rewrite H3, sadd_sq.
    set (n0 := zlen (lbytes lp)) in *. rewrite H4. rewrite zskip_sub by lia.
    eexists. eexists. split; [reflexivity|].
    eapply sok_app; [apply to_pages_sok; lia|].
    replace (a + sk + (n0 - sk)) with (a + n0) by lia. exact Hs.
Qed.

Lemma csok_split : forall S i pre post a e,
  csok S i a e (pre ++ post) -> csok S i a (a + total pre) pre /\ csok S i (a + total pre) e post.
Proof.
  intros S i. induction pre as [|c t IH]; intros post a e H; cbn [app csok] in *.
  - unfold total. cbn. rewrite Z.add_0_r. split; [reflexivity|assumption].
  - destruct H as (Hc & H). rewrite total_cons. destruct (IH _ _ _ H) as (H1 & H2).
    replace (a + (clen c + total t)) with (a + clen c + total t) by lia. auto.
Qed.

(* cleanSG as a whole: the containers that are kept become the saved pages, a run covering the
   tail of the ScatterGather from the KeepFrom offset; nothing when the offset is negative or at
   or beyond the end; no panic *)
Lemma clean_sg_ok : forall S i all A e k,
  csok S i A e all -> 0 <= A ->
  let '(ndx, kskip) := if k <? 0 then (length all, 0) else find_keep all k 0 k O in
  exists saved2 alloc,
    keep_conv fullv (skipn ndx all) kskip = (saved2, alloc, false) /\
    sok S i (if (0 <=? k) && (k <? e - A) then A + k else e) e saved2.
Proof.
  intros S i all A e k H HA.
  pose proof (csok_total _ _ _ _ _ H) as Ht.
  destruct (k <? 0) eqn:Ek.
  - rewrite skipn_all. exists [], 0. split; [reflexivity|].
    replace ((0 <=? k) && (k <? e - A)) with false by lia. reflexivity.
  - pose proof (find_keep_spec all k 0 O ltac:(lia)) as Hf. rewrite Z.sub_0_r in Hf.
    destruct (find_keep all k 0 k O) as (j & sk).
    destruct Hf as [(H1 & H2)|(pre & c & post & H1 & H2 & H3 & H4)].
    + subst j. cbn [Nat.add]. rewrite skipn_all. exists [], 0. split; [reflexivity|].
      replace ((0 <=? k) && (k <? e - A)) with false by lia. reflexivity.
    + subst j all. cbn [Nat.add].
      replace (skipn (length pre) (pre ++ c :: post)) with (c :: post)
        by (rewrite skipn_app, skipn_all, Nat.sub_diag; reflexivity).
      destruct (csok_split _ _ _ _ _ _ H) as (Hpre & Hpost).
      pose proof (total_nonneg pre).
      destruct (keep_conv_first S i c post (A + total pre) e sk Hpost ltac:(lia) H4) as (ps & n & He & Hs).
      exists ps, n. split; [exact He|].
      cbn [csok] in Hpost. destruct Hpost as (_ & Hpost). apply csok_range in Hpost.
      replace ((0 <=? k) && (k <? e - A)) with true by lia.
      replace (A + k) with (A + total pre + sk) by lia. exact Hs.
Qed.
