(* Lradiotap — round trip, bottom up: the layout written by SerializeTo as a function (row_bytes, ns_bytes, ...),
   the serializer produces it over a zeroed scratch buffer, the decoder reads the values back from it *)
From GP Require Import Base ListX Codec MiscLib LradiotapModel LradiotapProofs.
From Coq Require Import Lia ZifyBool ZifyNat.
Open Scope Z_scope.
Ltac Zify.zify_post_hook ::= Z.div_mod_to_equations.

Ltac zl := rewrite ?zlen_app, ?zlen_cons, ?zlen_nil; try lia.

Definition zeros (n : Z) : list Z := repeat 0 (Z.to_nat n).
Lemma zlen_zeros n : 0 <= n -> zlen (zeros n) = n.
Proof. intros. unfold zeros, zlen. rewrite repeat_length. lia. Qed.
Lemma zeros_app a b : 0 <= a -> 0 <= b -> zeros (a + b) = zeros a ++ zeros b.
Proof. intros. unfold zeros. rewrite Z2Nat.inj_add by lia. apply repeat_app. Qed.
Lemma skipn_zeros k n : 0 <= k <= n -> skipn (Z.to_nat k) (zeros n) = zeros (n - k).
Proof.
  intros. replace n with (k + (n - k)) at 1 by lia. rewrite zeros_app by lia.
  rewrite skipn_app. unfold zeros at 1 2. rewrite repeat_length, Nat.sub_diag. rewrite skipn_all2 by (rewrite repeat_length; lia). reflexivity.
Qed.

Definition norm (used : Z) (v : list Z) : list Z := firstn (Z.to_nat used) (v ++ repeat 0 (Z.to_nat used)).
Lemma zlen_norm used v : 0 <= used -> zlen (norm used v) = used.
Proof. intros. apply zlen_firstn_pad. exact H. Qed.
Lemma norm_id used v : zlen v = used -> norm used v = v.
Proof. intros <-. unfold norm, zlen. rewrite Nat2Z.id, firstn_app, firstn_all, Nat.sub_diag. cbn [firstn]. apply app_nil_r. Qed.

(* what one table row appends to the header when the offset is off *)
Definition row_bytes (present : Z) (f : fld) (v : list Z) (off : Z) : list Z :=
  let '(bit, al, size, used) := f in
  if Z.testbit present bit then zeros (rt_align off al - off) ++ norm used v ++ zeros (size - used) else [].
Fixpoint ns_bytes (present : Z) (fs : list fld) (vs : list (list Z)) (off : Z) : list Z :=
  match fs with
  | [] => []
  | f :: t => let b := row_bytes present f (hd [] vs) off in b ++ ns_bytes present t (tl vs) (off + zlen b)
  end.

Lemma zlen_row_bytes present bit al size used v off : 0 < al -> 0 <= used <= size -> 0 <= off -> off + (al - 1) < 65536 ->
  0 <= zlen (row_bytes present (bit, al, size, used) v off) <= (al - 1) + size /\
  (Z.testbit present bit = true -> zlen (row_bytes present (bit, al, size, used) v off) = rt_align off al - off + size).
Proof.
  intros Ha Hu H0 Hw. unfold row_bytes. pose proof (rt_align_bound off al Ha H0 Hw).
  destruct (Z.testbit present bit); [|cbn; split; [lia|discriminate]].
  rewrite !zlen_app, !zlen_zeros, zlen_norm by lia. split; [lia|intros _; lia].
Qed.

(* writing into the zero tail of a buffer *)
Lemma wr_zero_tail W k pad v : 0 <= pad -> pad + zlen v <= k ->
  ml_wrc (W ++ zeros k) (zlen W + pad) v = Ok ((W ++ zeros pad ++ v) ++ zeros (k - pad - zlen v)).
Proof.
  intros Hp Hk. pose proof (zlen_nonneg v).
  replace k with (pad + (k - pad)) at 1 by lia. rewrite zeros_app by lia. rewrite app_assoc.
  rewrite ml_wrc_tile by (rewrite ?zlen_app, ?zlen_zeros by lia; lia).
  replace (length v) with (Z.to_nat (zlen v)) by (unfold zlen; lia). rewrite skipn_zeros by lia.
  rewrite <- !app_assoc. reflexivity.
Qed.

Lemma rt_ser_fields_layout present : forall fs vs W k, Forall fld_ok fs -> zlen W + fsum fs <= zlen W + k -> zlen W + k <= 65535 ->
  let NB := ns_bytes present fs vs (zlen W) in
  rt_ser_fields present fs vs (W ++ zeros k) (zlen W) = Ok ((W ++ NB) ++ zeros (k - zlen NB), zlen W + zlen NB) /\ zlen NB <= fsum fs.
Proof.
  induction fs as [|f fs IH]; intros vs W k Hf Hs Hb; cbv zeta.
  - cbn [ns_bytes rt_ser_fields]. rewrite app_nil_r. change (zlen []) with 0. rewrite Z.sub_0_r, Z.add_0_r. split; [reflexivity|cbn; lia].
  - inversion Hf as [|? ? Hf1 Hf2]; subst. destruct f as [[[bit al] size] used]. cbn in Hf1. destruct Hf1 as (Ha & Hu).
    set (T := fsum (_ :: fs)) in *. assert (Hsum : T = (al - 1) + size + fsum fs) by reflexivity.
    assert (Hfs : 0 <= fsum fs).
    { clear - Hf2. induction Hf2 as [|g gs Hg _ IHg]; [cbn; lia|]. destruct g as [[[b a] s] u]. cbn in Hg.
      change (fsum ((b, a, s, u) :: gs)) with ((a - 1) + s + fsum gs). lia. }
    pose proof (zlen_nonneg W) as PW.
    destruct (zlen_row_bytes present bit al size used (hd [] vs) (zlen W) Ha Hu PW ltac:(lia)) as (RB & RBt).
    cbn [ns_bytes rt_ser_fields]. set (rb := row_bytes present (bit, al, size, used) (hd [] vs) (zlen W)) in *.
    pose proof (rt_align_bound (zlen W) al Ha PW ltac:(lia)) as AB.
    destruct (Z.testbit present bit) eqn:TB.
    + specialize (RBt eq_refl). set (off1 := rt_align (zlen W) al) in *. set (pad := off1 - zlen W) in *.
      assert (Erb : rb = zeros pad ++ norm used (hd [] vs) ++ zeros (size - used)) by (unfold rb, row_bytes; rewrite TB; reflexivity).
      destruct (used =? 0) eqn:EU.
      * (* nothing written: the octets stay zero *)
        assert (used = 0) by lia. subst used. rewrite u16_small by lia.
        assert (EW : W ++ zeros k = (W ++ rb) ++ zeros (k - zlen rb)).
        { rewrite Erb. unfold norm. cbn [Z.to_nat firstn app]. rewrite <- app_assoc. f_equal.
          rewrite <- zeros_app by lia. rewrite zlen_zeros by lia. rewrite <- zeros_app by lia. f_equal. lia. }
        rewrite EW. replace (off1 + size) with (zlen (W ++ rb)) by (rewrite zlen_app; lia).
        destruct (IH (tl vs) (W ++ rb) (k - zlen rb) Hf2 ltac:(rewrite zlen_app; lia) ltac:(rewrite zlen_app; lia)) as (E & L).
        rewrite !zlen_app in L. rewrite E. split; [|rewrite zlen_app; lia].
        rewrite !zlen_app. rewrite <- !app_assoc. f_equal. f_equal; [repeat (f_equal; try lia)|lia].
      * replace off1 with (zlen W + pad) by (unfold pad; lia).
        change (firstn (Z.to_nat used) (hd [] vs ++ repeat 0 (Z.to_nat used))) with (norm used (hd [] vs)).
        rewrite wr_zero_tail by (rewrite ?zlen_norm by lia; lia). cbn [obind]. rewrite zlen_norm by lia.
        rewrite u16_small by lia.
        assert (EW : (W ++ zeros pad ++ norm used (hd [] vs)) ++ zeros (k - pad - used) = (W ++ rb) ++ zeros (k - zlen rb)).
        { rewrite Erb. rewrite <- !app_assoc. f_equal. f_equal. f_equal.
          replace (k - pad - used) with ((size - used) + (k - zlen rb)) by lia. rewrite zeros_app by lia. rewrite Erb. reflexivity. }
        rewrite EW. replace (zlen W + pad + size) with (zlen (W ++ rb)) by (rewrite zlen_app; lia).
        destruct (IH (tl vs) (W ++ rb) (k - zlen rb) Hf2 ltac:(rewrite zlen_app; lia) ltac:(rewrite zlen_app; lia)) as (E & L).
        rewrite !zlen_app in L. rewrite E. split; [|rewrite zlen_app; lia].
        rewrite !zlen_app. rewrite <- !app_assoc. f_equal. f_equal; [repeat (f_equal; try lia)|lia].
    + assert (Erb : rb = []) by (unfold rb, row_bytes; rewrite TB; reflexivity). rewrite Erb in *. change (zlen []) with 0 in *.
      rewrite Z.add_0_r. cbn [app].
      destruct (IH (tl vs) W k Hf2 ltac:(lia) Hb) as (E & L). rewrite E. split; [reflexivity|lia].
Qed.

(* ---------------------------------------------------------------- reading the layout back *)
Lemma slc_mid (pre m post : list Z) a b : a = zlen pre -> b = zlen pre + zlen m -> cd_slc (pre ++ m ++ post) a b = Ok m.
Proof.
  intros -> ->. pose proof (zlen_nonneg pre). pose proof (zlen_nonneg m). pose proof (zlen_nonneg post).
  rewrite cd_slc_ok by zl. f_equal. apply slice_at; unfold zlen; lia.
Qed.

Definition row_wf (present : Z) (f : fld) (v : list Z) : Prop :=
  let '(bit, _, _, used) := f in zlen v = used /\ (Z.testbit present bit = false -> v = repeat 0 (Z.to_nat used)).

Lemma fsum_nonneg fs : Forall fld_ok fs -> 0 <= fsum fs.
Proof.
  induction 1 as [|g gs Hg _ IHg]; [cbn; lia|]. destruct g as [[[b a] s] u]. cbn in Hg.
  change (fsum ((b, a, s, u) :: gs)) with ((a - 1) + s + fsum gs). lia.
Qed.

Lemma firstn_app_exact (v w : list Z) n : n = length v -> firstn n (v ++ w) = v.
Proof. intros ->. rewrite firstn_app, firstn_all, Nat.sub_diag. cbn [firstn]. apply app_nil_r. Qed.

Lemma rt_fields_loop_layout present : forall fs vs, Forall2 (row_wf present) fs vs -> Forall fld_ok fs ->
  forall W acc rest, zlen W + fsum fs <= 65535 -> zlen (W ++ ns_bytes present fs vs (zlen W) ++ rest) <= 65535 ->
  rt_fields_loop (W ++ ns_bytes present fs vs (zlen W) ++ rest) present fs (zlen W, acc) =
    Ok (zlen W + zlen (ns_bytes present fs vs (zlen W)), acc ++ vs).
Proof.
  induction 1 as [|f v fs vs Hr _ IH]; intros Hf W acc rest Hs Hb.
  - cbn [ns_bytes rt_fields_loop]. rewrite app_nil_r. change (zlen []) with 0. rewrite Z.add_0_r. reflexivity.
  - inversion Hf as [|? ? Hf1 Hf2]; subst. destruct f as [[[bit al] size] used]. cbn in Hf1. destruct Hf1 as (Ha & Hu).
    cbn in Hr. destruct Hr as (Hv & Hz).
    set (T := fsum (_ :: fs)) in *. assert (Hsum : T = (al - 1) + size + fsum fs) by reflexivity.
    pose proof (fsum_nonneg fs Hf2) as Hfs.
    pose proof (zlen_nonneg W) as PW. cbn [ns_bytes hd tl] in *.
    destruct (zlen_row_bytes present bit al size used v (zlen W) Ha Hu PW ltac:(lia)) as (RB & RBt).
    set (rb := row_bytes present (bit, al, size, used) v (zlen W)) in *.
    set (NB := ns_bytes present fs vs (zlen W + zlen rb)) in *.
    pose proof (zlen_nonneg NB) as PNB. pose proof (zlen_nonneg rest) as Prs.
    assert (Hd : zlen W + zlen rb + zlen NB + zlen rest <= 65535) by (rewrite !zlen_app in Hb; lia).
    pose proof (rt_align_bound (zlen W) al Ha PW ltac:(lia)) as AB.
    cbn [rt_fields_loop]. unfold rt_step. cbn [fst snd].
    assert (EIH : rt_fields_loop ((W ++ rb) ++ NB ++ rest) present fs (zlen (W ++ rb), acc ++ [v]) =
                  Ok (zlen (W ++ rb) + zlen NB, (acc ++ [v]) ++ vs)).
    { unfold NB. replace (zlen W + zlen rb) with (zlen (W ++ rb)) by (rewrite zlen_app; lia).
      apply IH; [exact Hf2|rewrite zlen_app; lia|].
      rewrite !zlen_app. unfold NB in Hd. lia. }
    assert (ED : W ++ (rb ++ NB) ++ rest = (W ++ rb) ++ NB ++ rest) by (rewrite <- !app_assoc; reflexivity).
    rewrite zlen_app in EIH.
    destruct (Z.testbit present bit) eqn:TB.
    + specialize (RBt eq_refl). set (off1 := rt_align (zlen W) al) in *. set (pad := off1 - zlen W) in *.
      assert (Erb : rb = zeros pad ++ norm used v ++ zeros (size - used)) by (unfold rb, row_bytes; rewrite TB; reflexivity).
      rewrite (norm_id used v Hv) in Erb.
      destruct (used =? 0) eqn:EU.
      * assert (U0 : used = 0) by lia. rewrite U0 in *. assert (V0 : v = []) by (destruct v; [reflexivity|rewrite zlen_cons in Hv; pose proof (zlen_nonneg v); lia]).
        rewrite V0 in *. cbn [obind]. rewrite u16_small by lia. rewrite ED.
        replace (off1 + size) with (zlen W + zlen rb) by lia. rewrite EIH. f_equal. f_equal; [rewrite zlen_app; lia|rewrite <- app_assoc; reflexivity].
      * destruct (off1 + size >? zlen (W ++ (rb ++ NB) ++ rest)) eqn:EF; [rewrite !zlen_app in EF; lia|].
        rewrite u16_small by lia.
        assert (SL : cd_slc (W ++ (rb ++ NB) ++ rest) off1 (off1 + size) = Ok (v ++ zeros (size - used))).
        { rewrite Erb. replace (W ++ ((zeros pad ++ v ++ zeros (size - used)) ++ NB) ++ rest)
            with ((W ++ zeros pad) ++ (v ++ zeros (size - used)) ++ (NB ++ rest)) by (rewrite <- !app_assoc; reflexivity).
          apply slc_mid; rewrite !zlen_app, !zlen_zeros by lia; lia. }
        rewrite SL. cbn [obind]. rewrite firstn_app_exact by (unfold zlen in Hv; lia). rewrite ED.
        replace (off1 + size) with (zlen W + zlen rb) by lia. rewrite EIH. f_equal. f_equal; [rewrite zlen_app; lia|rewrite <- app_assoc; reflexivity].
    + assert (Erb : rb = []) by (unfold rb, row_bytes; rewrite TB; reflexivity). cbn [obind].
      rewrite (Hz eq_refl) in *. rewrite Erb in *. change (zlen []) with 0 in *. rewrite app_nil_r in EIH. cbn [app] in *.
      rewrite Z.add_0_r in *. rewrite EIH. f_equal. f_equal. rewrite <- app_assoc. reflexivity.
Qed.

(* ---------------------------------------------------------------- Present words *)
Definition pw_bytes (ps : list Z) : list Z := concat (map rt_put32 ps).
Lemma zlen_pw_bytes ps : zlen (pw_bytes ps) = 4 * zlen ps.
Proof. induction ps as [|p t IH]; [reflexivity|]. unfold pw_bytes in *. cbn [map concat]. rewrite zlen_app, IH, zlen_cons. change (zlen (rt_put32 p)) with 4. lia. Qed.

Lemma rt_ser_present_layout : forall ps W k, 4 * zlen ps <= k -> zlen W + k <= 65535 ->
  rt_ser_present ps (W ++ zeros k) (zlen W) = Ok ((W ++ pw_bytes ps) ++ zeros (k - 4 * zlen ps), zlen W + 4 * zlen ps).
Proof.
  induction ps as [|p t IH]; intros W k Hk Hb.
  - cbn [rt_ser_present pw_bytes map concat]. rewrite app_nil_r. change (zlen []) with 0. rewrite Z.mul_0_r, Z.sub_0_r, Z.add_0_r. reflexivity.
  - rewrite zlen_cons in *. pose proof (zlen_nonneg t). pose proof (zlen_nonneg W). cbn [rt_ser_present].
    pose proof (wr_zero_tail W k 0 (rt_put32 p) ltac:(lia) ltac:(change (zlen (rt_put32 p)) with 4; lia)) as WR.
    rewrite Z.add_0_r in WR. rewrite WR. cbn [obind]. change (zlen (rt_put32 p)) with 4. change (zeros 0) with (@nil Z). cbn [app].
    rewrite u16_small by lia. replace (zlen W + 4) with (zlen (W ++ rt_put32 p)) by (rewrite zlen_app; reflexivity).
    rewrite IH by (rewrite ?zlen_app; change (zlen (rt_put32 p)) with 4; lia).
    unfold pw_bytes. cbn [map concat]. rewrite zlen_app. change (zlen (rt_put32 p)) with 4.
    f_equal. f_equal; [rewrite <- !app_assoc; do 3 f_equal; unfold zeros; f_equal; lia|lia].
Qed.

Lemma idx_at (pre : list Z) x post i : i = zlen pre -> cd_idx (pre ++ x :: post) i = Ok x.
Proof.
  intros ->. pose proof (zlen_nonneg pre). rewrite cd_idx_ok by (zl; pose proof (zlen_nonneg post); lia). f_equal.
  unfold zlen. rewrite Nat2Z.id. rewrite app_nth2 by lia. rewrite Nat.sub_diag. reflexivity.
Qed.

Lemma le16_at pre a b post i : i = zlen pre -> rt_le16 (pre ++ a :: b :: post) i = Ok (a + 256 * b).
Proof.
  intros ->. unfold rt_le16. rewrite idx_at by reflexivity. cbn [obind].
  change (pre ++ a :: b :: post) with (pre ++ [a] ++ b :: post). rewrite app_assoc.
  rewrite idx_at by (rewrite zlen_app; reflexivity). reflexivity.
Qed.

Lemma le32_put32 pre q post i : i = zlen pre -> 0 <= q < 4294967296 -> rt_le32 (pre ++ rt_put32 q ++ post) i = Ok q.
Proof.
  intros -> Hq. unfold rt_le32, rt_put32. cbn [app]. rewrite le16_at by reflexivity. cbn [obind].
  change (pre ++ q mod 256 :: (q / 256) mod 256 :: (q / 65536) mod 256 :: (q / 16777216) mod 256 :: post)
    with (pre ++ [q mod 256; (q / 256) mod 256] ++ (q / 65536) mod 256 :: (q / 16777216) mod 256 :: post).
  rewrite app_assoc. rewrite le16_at by (rewrite zlen_app; reflexivity). cbn [obind]. f_equal. lia.
Qed.

(* the chain of words: every word but the last has the extension bit *)
Fixpoint chain_ok (p : Z) (qs : list Z) : Prop :=
  0 <= p < 4294967296 /\
  match qs with [] => Z.testbit p 31 = false | q :: t => Z.testbit p 31 = true /\ chain_ok q t end.

Lemma rt_present_loop_layout : forall qs p pre post fuel acc, chain_ok p qs -> (length qs <= fuel)%nat -> 4 <= zlen pre ->
  zlen (pre ++ pw_bytes qs ++ post) <= 65535 ->
  rt_present_loop fuel (pre ++ pw_bytes qs ++ post) (zlen (pre ++ pw_bytes qs ++ post)) (zlen pre - 4) p acc =
    (acc ++ qs, Ok (zlen pre - 4 + 4 * zlen qs)).
Proof.
  induction qs as [|q t IH]; intros p pre post fuel acc Hc Hf Hp Hb.
  - destruct Hc as (_ & Hc). destruct fuel; cbn [rt_present_loop]; rewrite Hc, app_nil_r; change (zlen []) with 0; rewrite Z.mul_0_r, Z.add_0_r; reflexivity.
  - destruct Hc as (_ & Hx & Hc). destruct fuel as [|f]; [cbn in Hf; lia|]. cbn [rt_present_loop]. rewrite Hx.
    pose proof (zlen_nonneg t). pose proof (zlen_nonneg post).
    assert (Ln : zlen (pre ++ pw_bytes (q :: t) ++ post) = zlen pre + 4 * (1 + zlen t) + zlen post)
      by (rewrite !zlen_app, zlen_pw_bytes, zlen_cons; lia).
    rewrite u16_small by lia. replace (zlen pre - 4 + 4) with (zlen pre) by lia.
    set (D := pre ++ pw_bytes (q :: t) ++ post) in *.
    destruct (zlen pre + 4 >? zlen D) eqn:E; [lia|].
    assert (Hq : 0 <= q < 4294967296) by (destruct t; cbn in Hc; tauto).
    assert (ED : D = pre ++ rt_put32 q ++ (pw_bytes t ++ post))
      by (unfold D, pw_bytes; cbn [map concat]; rewrite <- !app_assoc; reflexivity).
    assert (L32 : rt_le32 D (zlen pre) = Ok q) by (rewrite ED; apply le32_put32; [reflexivity|exact Hq]).
    rewrite L32.
    assert (ED2 : D = (pre ++ rt_put32 q) ++ pw_bytes t ++ post) by (rewrite ED, <- !app_assoc; reflexivity).
    assert (P4 : zlen pre = zlen (pre ++ rt_put32 q) - 4) by (rewrite zlen_app; change (zlen (rt_put32 q)) with 4; lia).
    rewrite P4. rewrite ED2.
    rewrite IH; [|exact Hc|cbn in Hf; lia|rewrite zlen_app; change (zlen (rt_put32 q)) with 4; lia|rewrite <- ED2; exact Hb].
    rewrite <- app_assoc. cbn [app]. rewrite zlen_app, zlen_cons. change (zlen (rt_put32 q)) with 4. f_equal. f_equal. lia.
Qed.

(* ---------------------------------------------------------------- chains of radiotap namespaces *)
Fixpoint chain_bytes (ps : list Z) (rvs : list (list (list Z))) (off : Z) : list Z :=
  match ps, rvs with
  | p :: t, v :: r => let b := ns_bytes p rt_fields v off in b ++ chain_bytes t r (off + zlen b)
  | _, _ => []
  end.
Fixpoint rtchain_ok (ps : list Z) (rvs : list (list (list Z))) : Prop :=
  match ps, rvs with
  | [], [] => True
  | p :: t, v :: r => Forall2 (row_wf p) rt_fields v /\
                      (t <> [] -> Z.testbit p 31 = true /\ Z.testbit p 29 = true) /\ (t = [] -> Z.testbit p 31 = false) /\ rtchain_ok t r
  | _, _ => False
  end.

Lemma rt_ser_loop_layout : forall ps rvs vn W k, rtchain_ok ps rvs -> 106 * zlen ps <= k -> zlen W + k <= 65535 ->
  let CB := chain_bytes ps rvs (zlen W) in
  rt_ser_loop ps true vn rvs [] (W ++ zeros k) (zlen W) = Ok ((W ++ CB) ++ zeros (k - zlen CB), zlen W + zlen CB) /\ zlen CB <= 106 * zlen ps.
Proof.
  induction ps as [|p t IH]; intros rvs vn W k Hc Hk Hb; cbv zeta.
  - destruct rvs; [|contradiction]. cbn [chain_bytes rt_ser_loop]. rewrite app_nil_r. change (zlen []) with 0.
    rewrite Z.sub_0_r, Z.add_0_r. split; [reflexivity|lia].
  - destruct rvs as [|v r]; [contradiction|]. destruct Hc as (Hv & Hne & He & Hc). rewrite zlen_cons in *. pose proof (zlen_nonneg t).
    cbn [chain_bytes rt_ser_loop].
    destruct (rt_ser_fields_layout p rt_fields v W k rt_fields_ok ltac:(rewrite fsum_fields; lia) Hb) as (E & L). rewrite fsum_fields in L.
    rewrite E. cbn [obind fst snd]. set (NB := ns_bytes p rt_fields v (zlen W)) in *. pose proof (zlen_nonneg NB).
    destruct t as [|q t'].
    + destruct r; [|destruct Hc]. cbn [rt_ser_loop chain_bytes]. rewrite app_nil_r. split; [reflexivity|]. change (zlen []) with 0. lia.
    + destruct (Hne ltac:(discriminate)) as (_ & H29). rewrite H29.
      replace (zlen W + zlen NB) with (zlen (W ++ NB)) by (rewrite zlen_app; reflexivity).
      destruct (IH r (Z.testbit p 30) (W ++ NB) (k - zlen NB) Hc ltac:(lia) ltac:(rewrite zlen_app; lia)) as (E2 & L2).
      rewrite E2. rewrite !zlen_app in *. split; [|lia].
      f_equal. f_equal; [rewrite <- !app_assoc; do 3 f_equal; unfold zeros; f_equal; lia|lia].
Qed.

Lemma rtchain_nil r : rtchain_ok [] r -> r = [].
Proof. destruct r; [reflexivity|contradiction]. Qed.

Lemma rt_ns_loop_layout : forall ps rvs vn W rv rest, rtchain_ok ps rvs -> zlen W + 106 * zlen ps <= 65535 ->
  zlen (W ++ chain_bytes ps rvs (zlen W) ++ rest) <= 65535 -> ps <> [] ->
  rt_ns_loop (W ++ chain_bytes ps rvs (zlen W) ++ rest) ps true vn (zlen W) rv [] = (rv ++ rvs, [], Ok tt).
Proof.
  induction ps as [|p t IH]; intros rvs vn W rv rest Hc Hs Hb Hne; [congruence|].
  destruct rvs as [|v r]; [contradiction|]. destruct Hc as (Hv & Hnx & He & Hc). rewrite zlen_cons in *. pose proof (zlen_nonneg t).
  cbn [chain_bytes rt_ns_loop] in *. set (NB := ns_bytes p rt_fields v (zlen W)) in *.
  set (CB := chain_bytes t r (zlen W + zlen NB)) in *.
  assert (ED : W ++ (NB ++ CB) ++ rest = W ++ NB ++ (CB ++ rest)) by (rewrite <- !app_assoc; reflexivity).
  unfold rt_ns_dec. rewrite ED.
  pose proof (rt_fields_loop_layout p rt_fields v Hv rt_fields_ok W [] (CB ++ rest) ltac:(rewrite fsum_fields; lia)
                ltac:(fold NB; rewrite <- ED; exact Hb)) as EF. fold NB in EF. rewrite EF. cbn [app].
  destruct t as [|q t'].
  - rewrite (He eq_refl). apply rtchain_nil in Hc. subst r. reflexivity.
  - destruct (Hnx ltac:(discriminate)) as (H31 & H29). rewrite H31, H29.
    assert (ED3 : W ++ NB ++ CB ++ rest = (W ++ NB) ++ CB ++ rest) by (rewrite <- !app_assoc; reflexivity).
    rewrite ED3. replace (zlen W + zlen NB) with (zlen (W ++ NB)) by (rewrite zlen_app; reflexivity).
    unfold CB. replace (zlen W + zlen NB) with (zlen (W ++ NB)) by (rewrite zlen_app; reflexivity).
    pose proof (zlen_nonneg NB).
    rewrite IH; [rewrite <- app_assoc; reflexivity|exact Hc| |unfold CB in Hb; rewrite !zlen_app in Hb; rewrite !zlen_app; lia|discriminate].
    rewrite zlen_app.
    (* the namespace just read occupies at most 106 octets *)
    destruct (rt_ser_fields_layout p rt_fields v W 106 rt_fields_ok ltac:(rewrite fsum_fields; lia) ltac:(lia)) as (_ & L).
    rewrite fsum_fields in L. fold NB in L. lia.
Qed.

(* ---------------------------------------------------------------- the whole header (radiotap namespaces only) *)
Definition rt_wf_rt (l : radiotap) : Prop :=
  rt_vendor l = [] /\ 0 <= rt_version l < 256 /\
  exists p qs, rt_present l = p :: qs /\ chain_ok p qs /\ rtchain_ok (p :: qs) (rt_values l) /\ 4 + 132 * zlen (p :: qs) <= 65535.

Definition rt_hdr (l : radiotap) : list Z :=
  let body := pw_bytes (rt_present l) ++ chain_bytes (rt_present l) (rt_values l) (4 + 4 * zlen (rt_present l)) in
  [rt_version l; 0] ++ rt_put16 (4 + zlen body) ++ body.

Lemma zeros_S n : 0 <= n -> zeros (1 + n) = 0 :: zeros n.
Proof. intros. rewrite zeros_app by lia. reflexivity. Qed.

Theorem rt_serialize_layout l payload csum junk : rt_wf_rt l ->
  rt_serialize l payload true csum junk = (Ok (rt_hdr l ++ payload), l).
Proof.
  intros (Hv & Hver & p & qs & Hps & Hch & Hrc & Hsz). unfold rt_serialize, rt_hdr. rewrite Hv. cbn [existsb].
  assert (Es : rt_size l = 4 + zlen (rt_present l) * 132) by (unfold rt_size; rewrite Hv; cbn [fold_right]; lia).
  rewrite Es. rewrite Hps in *. set (ps := p :: qs) in *. pose proof (zlen_nonneg qs) as Pq.
  assert (Pn : 1 <= zlen ps) by (unfold ps; rewrite zlen_cons; lia).
  destruct (4 + zlen ps * 132 >? 65535) eqn:E1; [lia|].
  set (size := if 4 + zlen ps * 132 <? 1024 then 1024 else 4 + zlen ps * 132).
  assert (Hsize : 4 + zlen ps * 132 <= size <= 65535 /\ 1024 <= size) by (unfold size; destruct (4 + zlen ps * 132 <? 1024) eqn:E; lia).
  change (repeat 0 (Z.to_nat size)) with (zeros size).
  rewrite Z.mod_small by lia.
  assert (B1 : ml_wrc (zeros size) 0 [rt_version l; 0] = Ok ([rt_version l; 0; 0; 0] ++ zeros (size - 4))).
  { pose proof (wr_zero_tail [] size 0 [rt_version l; 0] ltac:(lia) ltac:(change (zlen [rt_version l; 0]) with 2; lia)) as WR.
    cbn [app] in WR. change (zlen [] + 0) with 0 in WR. rewrite WR. change (zlen [rt_version l; 0]) with 2. change (zeros 0) with (@nil Z). cbn [app].
    replace (size - 0 - 2) with (1 + (1 + (size - 4))) by lia. rewrite !zeros_S by lia. reflexivity. }
  rewrite B1. cbn [obind].
  set (W4 := [rt_version l; 0; 0; 0]).
  pose proof (rt_ser_present_layout ps W4 (size - 4) ltac:(lia) ltac:(change (zlen W4) with 4; lia)) as B2.
  change (zlen W4) with 4 in B2. rewrite B2. cbn [obind fst snd].
  set (W := W4 ++ pw_bytes ps) in *.
  assert (LW : zlen W = 4 + 4 * zlen ps) by (unfold W; rewrite zlen_app, zlen_pw_bytes; reflexivity).
  destruct (rt_ser_loop_layout ps (rt_values l) false W (size - 4 - 4 * zlen ps) Hrc ltac:(lia) ltac:(lia)) as (B3 & L3).
  rewrite <- LW. rewrite B3. set (CB := chain_bytes ps (rt_values l) (zlen W)) in *. pose proof (zlen_nonneg CB) as PC.
  set (off := zlen W + zlen CB).
  set (buf := (W ++ CB) ++ zeros (size - 4 - 4 * zlen ps - zlen CB)).
  assert (Lb : zlen buf = size) by (unfold buf; rewrite !zlen_app, zlen_zeros by lia; lia).
  rewrite ml_wrc_ok by (change (zlen (rt_put16 off)) with 2; lia). rewrite cd_wr_length, Lb.
  assert (Z.to_nat (Z.min off size) = Z.to_nat off) as -> by lia.
  rewrite (skipn_all2 (cd_region off junk)) by (pose proof (cd_region_length off junk ltac:(unfold off; lia)) as LR; unfold zlen in LR; lia).
  rewrite app_nil_r.
  assert (EB : cd_wr buf 2 (rt_put16 off) = ([rt_version l; 0] ++ rt_put16 off ++ pw_bytes ps ++ CB) ++ zeros (size - 4 - 4 * zlen ps - zlen CB)).
  { unfold buf, W, W4, rt_put16. rewrite <- !app_assoc. reflexivity. }
  rewrite EB. rewrite firstn_app_exact.
  - unfold off, CB. rewrite LW. rewrite zlen_app, zlen_pw_bytes.
    set (C := chain_bytes ps (rt_values l) (4 + 4 * zlen ps)).
    replace (4 + (4 * zlen ps + zlen C)) with (4 + 4 * zlen ps + zlen C) by lia. reflexivity.
  - rewrite !app_length. change (length [rt_version l; 0]) with 2%nat. change (length (rt_put16 off)) with 2%nat.
    unfold off. pose proof (zlen_pw_bytes ps) as LP. unfold zlen in *. lia.
Qed.

Lemma rt_payload_of_ok f p : exists q, rt_payload_of f p = Ok q.
Proof.
  unfold rt_payload_of, rt_depad.
  destruct (Z.testbit f 5 && (zlen p >=? 2) && (Z.land (nth 0 p 0) 12 =? 8)).
  - set (h := 24 + _ + _).
    assert (24 <= h <= 28) by (unfold h; destruct (Z.land (nth 0 p 0) 140 =? 136), (Z.land (nth 1 p 0) 3 =? 3); lia).
    destruct ((h mod 4 =? 2) && (zlen p >=? h + 2)) eqn:E.
    + rewrite !cd_slc_ok by lia. cbn [obind]. destruct (Z.testbit f 4); eexists; reflexivity.
    + cbn [obind]. destruct (Z.testbit f 4); eexists; reflexivity.
  - cbn [obind]. destruct (Z.testbit f 4); eexists; reflexivity.
Qed.

Lemma slc_head (pre post : list Z) b : b = zlen pre -> cd_slc (pre ++ post) 0 b = Ok pre.
Proof.
  intros ->. pose proof (zlen_nonneg pre). pose proof (zlen_nonneg post). rewrite cd_slc_ok by zl. f_equal.
  apply slice_from_start. unfold zlen. lia.
Qed.
Lemma slc_tail (pre post : list Z) a b : a = zlen pre -> b = zlen pre + zlen post -> cd_slc (pre ++ post) a b = Ok post.
Proof.
  intros -> ->. pose proof (zlen_nonneg pre). pose proof (zlen_nonneg post). rewrite cd_slc_ok by zl. f_equal.
  apply slice_to_end; unfold zlen; lia.
Qed.
