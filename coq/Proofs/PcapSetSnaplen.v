(* C15 for the classic pcap reader when the consumer calls Reader.SetSnaplen between reads
   (read.go:227): no panic, allocation requests below 2^32, every returned packet well shaped,
   termination — for every schedule of uint32 values. *)
From Coq Require Import Lia ZifyBool.
From GP Require Import Base PcapModel PcapSafe.
Open Scope Z_scope.

Definition snap_ok (o : option Z) : Prop := match o with Some n => 0 <= n < 4294967296 | None => True end.
Definition sn_inv (st : rstate * list (option Z)) : Prop :=
  0 <= r_snaplen (fst st) < 4294967296 /\ Forall snap_ok (snd st).
Definition sn_shape (p : rpkt) : Prop :=
  Z.of_nat (length (k_data p)) = k_caplen p /\ k_caplen p <= k_len p /\ k_caplen p < 4294967296.

Lemma read_packet_sn_step zc st s : sn_inv st -> bytes_ok (flat s) ->
  step_facts (read_packet_sn zc) sn_inv (fun a => 0 <= a < 4294967296) sn_shape 16 st s.
Proof.
  intros [Hr Hs] Hb. destruct st as [rd sched]. cbn [fst snd] in *.
  unfold step_facts, read_packet_sn.
  set (rd0 := match sched with Some n :: _ => set_snaplen rd n | _ => rd end).
  assert (H0 : 0 <= r_snaplen rd0 < 4294967296).
  { subst rd0. destruct sched as [|[n|] t]; try assumption. inversion Hs; subst. cbn. assumption. }
  pose proof (read_packet_step zc (r_snaplen rd0) rd0 s eq_refl Hb) as F. unfold step_facts in F.
  destruct (read_packet zc rd0 s) as [[[r rd1] s1] al].
  destruct F as (I1 & B1 & F1 & P1 & A1 & K1 & C1 & T1 & T2).
  refine (conj _ (conj B1 (conj F1 (conj P1 (conj _ (conj _ (conj C1 (conj T1 T2)))))))).
  - split; cbn [fst snd]; [lia|]. destruct sched as [|o t]; [constructor|]. inversion Hs; assumption.
  - eapply Forall_impl; [|exact A1]. cbn. intros a Ha. lia.
  - intros p Hp. specialize (K1 p Hp). unfold pcap_shape in K1. unfold sn_shape. lia.
Qed.

Lemma pcap_run_sn_facts zc fuel sched s : bytes_ok (flat s) -> Forall snap_ok sched ->
  let '(h, al0, rs, fin) := pcap_run_sn zc fuel sched s in
  (forall x, h <> Panic x) /\ Forall (fun a => a = 24) al0 /\
  Forall (res_facts (fun a => 0 <= a < 4294967296) sn_shape (failed s)) rs /\
  ((length (flat s) < 16 * fuel)%nat -> fin = true).
Proof.
  intros Hb Hs. unfold pcap_run_sn.
  pose proof (new_reader_facts s Hb) as H.
  destruct (new_reader s) as [[r s1] al]. destruct H as [(B1 & F1 & P1 & A1 & L1 & T1 & T2) R1].
  destruct r as [rd|c|x].
  - destruct (R1 rd eq_refl) as (Rs & _).
    assert (HI : sn_inv (rd, sched)) by (split; assumption).
    pose proof (drain_facts (read_packet_sn zc) sn_inv (fun a => 0 <= a < 4294967296) sn_shape 16
                  (read_packet_sn_step zc) fuel (rd, sched) s1 HI B1) as DF.
    pose proof (drain_terminates (read_packet_sn zc) sn_inv (fun a => 0 <= a < 4294967296) sn_shape 16
                  (read_packet_sn_step zc) fuel (rd, sched) s1 HI B1) as DT.
    destruct (drain (read_packet_sn zc) fuel (rd, sched) s1) as [l fin]. cbn [fst snd] in *.
    rewrite F1 in DF.
    split; [assumption|]. split; [assumption|]. split; [assumption|].
    intros Hlen. apply DT; [lia|]. specialize (L1 rd eq_refl). lia.
  - split; [assumption|]. split; [assumption|]. split; [constructor|reflexivity].
  - split; [assumption|]. split; [assumption|]. split; [constructor|reflexivity].
Qed.

Theorem pcap_setsnaplen_safe zc fuel sched s : bytes_ok (flat s) -> Forall snap_ok sched ->
  let '(h, _, rs, fin) := pcap_run_sn zc fuel sched s in
  (forall x, h <> Panic x) /\
  Forall (fun ra => (forall x, fst ra <> Panic x) /\ Forall (fun a => 0 <= a < 4294967296) (snd ra) /\
                    (forall p, fst ra = Ok p -> Z.of_nat (length (k_data p)) = k_caplen p /\ k_caplen p <= k_len p)) rs /\
  ((length (flat s) < 16 * fuel)%nat -> fin = true).
Proof.
  intros Hb Hs. pose proof (pcap_run_sn_facts zc fuel sched s Hb Hs) as H.
  destruct (pcap_run_sn zc fuel sched s) as [[[h al0] rs] fin].
  destruct H as (H1 & _ & H3 & H4). split; [assumption|]. split; [|assumption].
  eapply Forall_impl; [|exact H3]. intros [r al] F. unfold res_facts in F. cbn [fst snd].
  destruct F as (P & A & K & _). split; [assumption|]. split; [assumption|].
  intros p Hp. specialize (K p Hp). unfold sn_shape in K. lia.
Qed.

(* with an empty schedule the run is the plain one *)
Lemma drain_sn_nil zc : forall fuel rd s,
  drain (read_packet_sn zc) fuel (rd, []) s = drain (read_packet zc) fuel rd s.
Proof.
  induction fuel as [|f IH]; intros rd s; [reflexivity|]. cbn [drain read_packet_sn tl].
  destruct (read_packet zc rd s) as [[[r rd1] s1] al].
  destruct r as [p|c|x]; [rewrite IH; reflexivity| |reflexivity].
  destruct (is_io_err c); [reflexivity|rewrite IH; reflexivity].
Qed.
Lemma pcap_run_sn_nil zc fuel s : pcap_run_sn zc fuel [] s = pcap_run zc fuel s.
Proof.
  unfold pcap_run_sn, pcap_run. destruct (new_reader s) as [[r s1] al]. destruct r; try reflexivity.
  rewrite drain_sn_nil. reflexivity.
Qed.
