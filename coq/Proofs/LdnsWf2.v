(* Ldns — decoded records are well formed (continuation of LdnsWf.v) *)
From GP Require Import Base ListX N6Lib LdnsModel LdnsDec LdnsSer LdnsRt LdnsWf.
From Coq Require Import Lia ZifyBool ZifyNat.
Ltac Zify.zify_post_hook ::= Z.div_mod_to_equations.
Open Scope Z_scope.

Ltac ok_inv H := apply Ok_inj in H; injection H as <- <-.
Ltac tyred_in H := cbv beta iota delta [T_A T_AAAA T_TXT T_HINFO T_NS T_CNAME T_PTR T_SOA T_MX T_SRV T_URI T_NAPTR T_OPT T_RRSIG
                                   T_DNSKEY T_SVCB T_HTTPS Z.eqb Pos.eqb orb] in H.
Lemma rr_base_explicit ls0 t c ttl rd :
  rr_base ls0 t c ttl rd = mkRR (join ls0) t c ttl (n6_len rd) rd [] [] [] [] [] soa0 srv0 mx0 naptr0 [] rrsig0 dnskey0 svcb0 uri0 []
                                (canon_names (join ls0) (meta_of ls0) [] None [] None).
Proof. unfold rr_base, rr_meta_name, canon_names, nm_of. destruct (meta_of ls0); reflexivity. Qed.

Ltac rr_explicit := rewrite ?rr_base_explicit; unfold rr_meta_rdata, rr_meta_rdata2, canon_names, nm_of; rewrite ?meta_of_nil;
  repeat match goal with |- context [meta_of ?l] => destruct (meta_of l) end;
  cbn [rr_set_ip rr_set_ns rr_set_cname rr_set_ptr rr_set_txts rr_set_txt rr_set_soa rr_set_srv rr_set_mx rr_set_naptr rr_set_opt
       rr_set_rrsig rr_set_dnskey rr_set_svcb rr_set_uri rr_set_names rr_ensure
       r_name r_type r_class r_ttl r_dlen r_data r_ip r_ns r_cname r_ptr r_txts r_soa r_srv r_mx r_naptr r_opt r_rrsig r_dnskey r_svcb r_uri
       r_txt r_names rm_name rm_rdata rm_rdata2 join];
  reflexivity.
Ltac projs := cbn [r_name r_type r_class r_ttl r_dlen r_data r_ip r_ns r_cname r_ptr r_txts r_soa r_srv r_mx r_naptr r_opt r_rrsig r_dnskey r_svcb r_uri r_txt r_names so_mname so_rname so_serial so_refresh so_retry so_expire so_minimum sv_prio sv_weight sv_port sv_name mx_pref mx_name na_order na_pref na_flags na_service na_regexp na_repl sg_covered sg_alg sg_labels sg_ottl sg_exp sg_inc sg_tag sg_signer sg_sig dk_flags dk_proto dk_alg dk_key sb_prio sb_target sb_params u_prio u_weight u_target].
Ltac projs_in H := cbn [r_name r_type r_class r_ttl r_dlen r_data r_ip r_ns r_cname r_ptr r_txts r_soa r_srv r_mx r_naptr r_opt r_rrsig r_dnskey r_svcb r_uri r_txt r_names so_mname so_rname so_serial so_refresh so_retry so_expire so_minimum sv_prio sv_weight sv_port sv_name mx_pref mx_name na_order na_pref na_flags na_service na_regexp na_repl sg_covered sg_alg sg_labels sg_ottl sg_exp sg_inc sg_tag sg_signer sg_sig dk_flags dk_proto dk_alg dk_key sb_prio sb_target sb_params u_prio u_weight u_target] in H.

Lemma decode_rdata_wf ls0 t c ttl rd dpre off buf r buf' :
  Forall label_ok ls0 -> u16_ok t -> u16_ok c -> u32_ok ttl -> bytes_ok dpre -> bytes_ok rd -> 0 <= off ->
  n6_len dpre = off + n6_len rd -> n6_len rd <= 65535 ->
  decode_rdata (rr_base ls0 t c ttl rd) dpre off buf = Ok (r, buf') ->
  rr_encodable r -> wf_rr r.
Proof.
  intros Hok0 Ht Hc Httl Hb Hrdb H0 Hlen Hrdl H Henc. unfold u16_ok, u32_ok in *.
  unfold decode_rdata in H. rewrite rr_base_type, rr_base_data in H.
  pose proof (n6_len_nonneg rd) as Hrd0.
  destruct ((t =? T_A) || (t =? T_AAAA)) eqn:EA.
  { ok_inv H. apply orb_true_iff in EA. destruct EA as [E|E]; apply Z.eqb_eq in E; subst t.
    - assert (ER : rr_set_ip (rr_base ls0 T_A c ttl rd) rd = (mkRR (join ls0) T_A c ttl (n6_len rd) rd rd [] [] [] [] soa0 srv0 mx0 naptr0 [] rrsig0 dnskey0 svcb0 uri0 [] (canon_names (join ls0) (meta_of ls0) (join []) (meta_of []) (join []) (meta_of [])))) by rr_explicit.
      rewrite ER in *. clear ER.
    unfold rr_encodable in Henc. projs_in Henc. tyred_in Henc.
    unfold wf_rr. exists ls0, [], []. projs. unfold wf_rdata. projs. tyred. unfold u16_ok, u32_ok.
      destruct Henc as [Hf He]. repeat split; try lia; try assumption; try (apply fits_labels_okP; assumption).
    - assert (ER : rr_set_ip (rr_base ls0 T_AAAA c ttl rd) rd = (mkRR (join ls0) T_AAAA c ttl (n6_len rd) rd rd [] [] [] [] soa0 srv0 mx0 naptr0 [] rrsig0 dnskey0 svcb0 uri0 [] (canon_names (join ls0) (meta_of ls0) (join []) (meta_of []) (join []) (meta_of [])))) by rr_explicit.
      rewrite ER in *. clear ER.
    unfold rr_encodable in Henc. projs_in Henc. tyred_in Henc.
    unfold wf_rr. exists ls0, [], []. projs. unfold wf_rdata. projs. tyred. unfold u16_ok, u32_ok.
      destruct Henc as [Hf He]. repeat split; try lia; try assumption; try (apply fits_labels_okP; assumption). }
  destruct ((t =? T_TXT) || (t =? T_HINFO)) eqn:ETX.
  { destruct (char_strings rd) as [txts|?|?] eqn:Ecs; cbn [obind] in H; try discriminate. ok_inv H.
    unfold char_strings in Ecs. apply (cs_loop_inv rd Hrdb) in Ecs; [|lia]. destruct Ecs as (txts' & Etx & Htok & Htl). cbn [app] in Etx. subst txts'.
    apply orb_true_iff in ETX. destruct ETX as [E|E]; apply Z.eqb_eq in E; subst t.
    - assert (ER : rr_set_txts (rr_set_txt (rr_base ls0 T_TXT c ttl rd) rd) txts = (mkRR (join ls0) T_TXT c ttl (n6_len rd) rd [] [] [] [] txts soa0 srv0 mx0 naptr0 [] rrsig0 dnskey0 svcb0 uri0 rd (canon_names (join ls0) (meta_of ls0) (join []) (meta_of []) (join []) (meta_of [])))) by rr_explicit.
      rewrite ER in *. clear ER.
    unfold rr_encodable in Henc. projs_in Henc. tyred_in Henc.
    unfold wf_rr. exists ls0, [], []. projs. unfold wf_rdata. projs. tyred. unfold u16_ok, u32_ok.
      destruct Henc as [Hf He]. repeat split; try lia; try assumption; try (apply fits_labels_okP; assumption).
    - exfalso. unfold rr_encodable in Henc. destruct Henc as [_ Henc].
      replace (r_type (rr_set_txts (rr_set_txt (rr_base ls0 T_HINFO c ttl rd) rd) txts)) with T_HINFO in Henc by (rewrite rr_base_explicit; reflexivity).
      (* old: unfold rr_base, rr_meta_name, rr_meta_rdata, rr_meta_rdata2, rr_ensure, canon_names, nm_of, new_meta, rmeta0, nmeta0, rr_set_ip, rr_set_ns, rr_set_cname, rr_set_ptr, rr_set_txts, rr_set_txt, rr_set_soa, rr_set_srv, rr_set_mx, rr_set_naptr, rr_set_opt, rr_set_rrsig, rr_set_dnskey, rr_set_svcb, rr_set_uri, rr_set_names; destruct (meta_of ls0); reflexivity *)
      tyred_in Henc. exact Henc. }
  destruct (t =? T_NS) eqn:ENS.
  { destruct (rd_name dpre off buf) as [[[[n l] nx] b2]|?|?] eqn:En; cbn [obind] in H; try discriminate. ok_inv H.
    destruct (rd_name_inv _ _ _ _ _ _ _ Hb En) as (ls1 & Hok1 & -> & -> & _). apply Z.eqb_eq in ENS. subst t.
    assert (ER : rr_meta_rdata (rr_set_ns (rr_base ls0 T_NS c ttl rd) (join ls1)) (join ls1) (meta_of ls1) = (mkRR (join ls0) T_NS c ttl (n6_len rd) rd [] (join ls1) [] [] [] soa0 srv0 mx0 naptr0 [] rrsig0 dnskey0 svcb0 uri0 [] (canon_names (join ls0) (meta_of ls0) (join ls1) (meta_of ls1) (join []) (meta_of [])))) by rr_explicit.
    rewrite ER in *. clear ER.
    unfold rr_encodable in Henc. projs_in Henc. tyred_in Henc.
    unfold wf_rr. exists ls0, ls1, []. projs. unfold wf_rdata. projs. tyred. unfold u16_ok, u32_ok.
    destruct Henc as [Hf He]. repeat split; try lia; try assumption; try (apply fits_labels_okP; assumption). }
  destruct (t =? T_CNAME) eqn:ECN.
  { destruct (rd_name dpre off buf) as [[[[n l] nx] b2]|?|?] eqn:En; cbn [obind] in H; try discriminate. ok_inv H.
    destruct (rd_name_inv _ _ _ _ _ _ _ Hb En) as (ls1 & Hok1 & -> & -> & _). apply Z.eqb_eq in ECN. subst t.
    assert (ER : rr_meta_rdata (rr_set_cname (rr_base ls0 T_CNAME c ttl rd) (join ls1)) (join ls1) (meta_of ls1) = (mkRR (join ls0) T_CNAME c ttl (n6_len rd) rd [] [] (join ls1) [] [] soa0 srv0 mx0 naptr0 [] rrsig0 dnskey0 svcb0 uri0 [] (canon_names (join ls0) (meta_of ls0) (join ls1) (meta_of ls1) (join []) (meta_of [])))) by rr_explicit.
    rewrite ER in *. clear ER.
    unfold rr_encodable in Henc. projs_in Henc. tyred_in Henc.
    unfold wf_rr. exists ls0, ls1, []. projs. unfold wf_rdata. projs. tyred. unfold u16_ok, u32_ok.
    destruct Henc as [Hf He]. repeat split; try lia; try assumption; try (apply fits_labels_okP; assumption). }
  destruct (t =? T_PTR) eqn:EPTR.
  { destruct (rd_name dpre off buf) as [[[[n l] nx] b2]|?|?] eqn:En; cbn [obind] in H; try discriminate. ok_inv H.
    destruct (rd_name_inv _ _ _ _ _ _ _ Hb En) as (ls1 & Hok1 & -> & -> & _). apply Z.eqb_eq in EPTR. subst t.
    assert (ER : rr_meta_rdata (rr_set_ptr (rr_base ls0 T_PTR c ttl rd) (join ls1)) (join ls1) (meta_of ls1) = (mkRR (join ls0) T_PTR c ttl (n6_len rd) rd [] [] [] (join ls1) [] soa0 srv0 mx0 naptr0 [] rrsig0 dnskey0 svcb0 uri0 [] (canon_names (join ls0) (meta_of ls0) (join ls1) (meta_of ls1) (join []) (meta_of [])))) by rr_explicit.
    rewrite ER in *. clear ER.
    unfold rr_encodable in Henc. projs_in Henc. tyred_in Henc.
    unfold wf_rr. exists ls0, ls1, []. projs. unfold wf_rdata. projs. tyred. unfold u16_ok, u32_ok.
    destruct Henc as [Hf He]. repeat split; try lia; try assumption; try (apply fits_labels_okP; assumption). }
  destruct (t =? T_SOA) eqn:ESOA.
  { destruct (rd_name dpre off buf) as [[[[n1 l1] e1] b1]|?|?] eqn:En1; cbn [obind] in H; try discriminate.
    destruct (rd_name dpre e1 b1) as [[[[n2 l2] e2] b2]|?|?] eqn:En2; cbn [obind] in H; try discriminate.
    destruct (n6_len dpre <? e2 + 20); [discriminate|].
    destruct (rd32 dpre e2) as [v1|?|?] eqn:E1; cbn [obind] in H; try discriminate.
    destruct (rd32 dpre (e2 + 4)) as [v2|?|?] eqn:E2; cbn [obind] in H; try discriminate.
    destruct (rd32 dpre (e2 + 8)) as [v3|?|?] eqn:E3; cbn [obind] in H; try discriminate.
    destruct (rd32 dpre (e2 + 12)) as [v4|?|?] eqn:E4; cbn [obind] in H; try discriminate.
    destruct (rd32 dpre (e2 + 16)) as [v5|?|?] eqn:E5; cbn [obind] in H; try discriminate. ok_inv H.
    pose proof (rd32_range _ _ _ Hb E1). pose proof (rd32_range _ _ _ Hb E2). pose proof (rd32_range _ _ _ Hb E3).
    pose proof (rd32_range _ _ _ Hb E4). pose proof (rd32_range _ _ _ Hb E5).
    destruct (rd_name_inv _ _ _ _ _ _ _ Hb En1) as (ls1 & Hok1 & -> & -> & _).
    destruct (rd_name_inv _ _ _ _ _ _ _ Hb En2) as (ls2 & Hok2 & -> & -> & _). apply Z.eqb_eq in ESOA. subst t.
    assert (ER : rr_set_soa (rr_meta_rdata2 (rr_meta_rdata (rr_base ls0 T_SOA c ttl rd) (join ls1) (meta_of ls1)) (join ls2) (meta_of ls2)) (mkSoa (join ls1) (join ls2) v1 v2 v3 v4 v5)
                 = (mkRR (join ls0) T_SOA c ttl (n6_len rd) rd [] [] [] [] [] (mkSoa (join ls1) (join ls2) v1 v2 v3 v4 v5) srv0 mx0 naptr0 [] rrsig0 dnskey0 svcb0 uri0 [] (canon_names (join ls0) (meta_of ls0) (join ls1) (meta_of ls1) (join ls2) (meta_of ls2)))) by rr_explicit.
    rewrite ER in *. clear ER.
    unfold rr_encodable in Henc. projs_in Henc. tyred_in Henc.
    unfold wf_rr. exists ls0, ls1, ls2. projs. unfold wf_rdata. projs. tyred. unfold u16_ok, u32_ok.
    destruct Henc as [Hf [He1 He2]]. repeat split; try lia; try assumption; try (apply fits_labels_okP; assumption). }
  destruct (t =? T_MX) eqn:EMX.
  { destruct (n6_len dpre <? off + 2); [discriminate|].
    destruct (rd16 dpre off) as [p|?|?] eqn:Ep; cbn [obind] in H; try discriminate.
    destruct (rd_name dpre (off + 2) buf) as [[[[n l] nx] b2]|?|?] eqn:En; cbn [obind] in H; try discriminate. ok_inv H.
    pose proof (rd16_range _ _ _ Hb Ep).
    destruct (rd_name_inv _ _ _ _ _ _ _ Hb En) as (ls1 & Hok1 & -> & -> & _). apply Z.eqb_eq in EMX. subst t.
    assert (ER : rr_meta_rdata (rr_set_mx (rr_base ls0 T_MX c ttl rd) (mkMx p (join ls1))) (join ls1) (meta_of ls1) = (mkRR (join ls0) T_MX c ttl (n6_len rd) rd [] [] [] [] [] soa0 srv0 (mkMx p (join ls1)) naptr0 [] rrsig0 dnskey0 svcb0 uri0 [] (canon_names (join ls0) (meta_of ls0) (join ls1) (meta_of ls1) (join []) (meta_of [])))) by rr_explicit.
    rewrite ER in *. clear ER.
    unfold rr_encodable in Henc. projs_in Henc. tyred_in Henc.
    unfold wf_rr. exists ls0, ls1, []. projs. unfold wf_rdata. projs. tyred. unfold u16_ok, u32_ok.
    destruct Henc as [Hf He]. repeat split; try lia; try assumption; try (apply fits_labels_okP; assumption). }
  destruct (t =? T_SRV) eqn:ESRV.
  { destruct (n6_len dpre <? off + 6); [discriminate|].
    destruct (rd16 dpre off) as [p|?|?] eqn:Ep; cbn [obind] in H; try discriminate.
    destruct (rd16 dpre (off + 2)) as [w|?|?] eqn:Ew; cbn [obind] in H; try discriminate.
    destruct (rd16 dpre (off + 4)) as [po|?|?] eqn:Epo; cbn [obind] in H; try discriminate.
    destruct (rd_name dpre (off + 6) buf) as [[[[n l] nx] b2]|?|?] eqn:En; cbn [obind] in H; try discriminate. ok_inv H.
    pose proof (rd16_range _ _ _ Hb Ep). pose proof (rd16_range _ _ _ Hb Ew). pose proof (rd16_range _ _ _ Hb Epo).
    destruct (rd_name_inv _ _ _ _ _ _ _ Hb En) as (ls1 & Hok1 & -> & -> & _). apply Z.eqb_eq in ESRV. subst t.
    assert (ER : rr_meta_rdata (rr_set_srv (rr_base ls0 T_SRV c ttl rd) (mkSrv p w po (join ls1))) (join ls1) (meta_of ls1) = (mkRR (join ls0) T_SRV c ttl (n6_len rd) rd [] [] [] [] [] soa0 (mkSrv p w po (join ls1)) mx0 naptr0 [] rrsig0 dnskey0 svcb0 uri0 [] (canon_names (join ls0) (meta_of ls0) (join ls1) (meta_of ls1) (join []) (meta_of [])))) by rr_explicit.
    rewrite ER in *. clear ER.
    unfold rr_encodable in Henc. projs_in Henc. tyred_in Henc.
    unfold wf_rr. exists ls0, ls1, []. projs. unfold wf_rdata. projs. tyred. unfold u16_ok, u32_ok.
    destruct Henc as [Hf He]. repeat split; try lia; try assumption; try (apply fits_labels_okP; assumption). }
  destruct (t =? T_URI) eqn:EURI.
  { destruct (n6_len rd <? 4) eqn:E4; [discriminate|].
    destruct (rd16 dpre off) as [p|?|?] eqn:Ep; cbn [obind] in H; try discriminate.
    destruct (rd16 dpre (off + 2)) as [w|?|?] eqn:Ew; cbn [obind] in H; try discriminate.
    destruct (rdsl rd 4 (n6_len rd)) as [tg|?|?] eqn:Etg; cbn [obind] in H; try discriminate. ok_inv H.
    pose proof (rd16_range _ _ _ Hb Ep). pose proof (rd16_range _ _ _ Hb Ew).
    destruct (rdsl_inv _ _ _ _ Hrdb Etg) as (Htb & Htl & _ & _). apply Z.eqb_eq in EURI. subst t.
    assert (ER : rr_set_uri (rr_base ls0 T_URI c ttl rd) (mkUri p w tg) = (mkRR (join ls0) T_URI c ttl (n6_len rd) rd [] [] [] [] [] soa0 srv0 mx0 naptr0 [] rrsig0 dnskey0 svcb0 (mkUri p w tg) [] (canon_names (join ls0) (meta_of ls0) (join []) (meta_of []) (join []) (meta_of [])))) by rr_explicit.
    rewrite ER in *. clear ER.
    unfold rr_encodable in Henc. projs_in Henc. tyred_in Henc.
    unfold wf_rr. exists ls0, [], []. projs. unfold wf_rdata. projs. tyred. unfold u16_ok, u32_ok.
    destruct Henc as [Hf He]. repeat split; try lia; try assumption; try (apply fits_labels_okP; assumption). }
  destruct (t =? T_NAPTR) eqn:ENAPTR.
  { destruct (n6_len dpre <? off + 4); [discriminate|].
    destruct (rd16 dpre off) as [o|?|?] eqn:Eo; cbn [obind] in H; try discriminate.
    destruct (rd16 dpre (off + 2)) as [p|?|?] eqn:Ep; cbn [obind] in H; try discriminate.
    destruct (naptr_str dpre (off + 4)) as [[fl o1]|?|?] eqn:E1; cbn [obind] in H; try discriminate.
    destruct (naptr_str_inv dpre (off + 4) fl o1 Hb ltac:(lia) E1) as (Hfl & Ho1 & _).
    destruct (naptr_str dpre o1) as [[sv o2]|?|?] eqn:E2; cbn [obind] in H; try discriminate.
    pose proof (n6_len_nonneg fl).
    destruct (naptr_str_inv dpre o1 sv o2 Hb ltac:(lia) E2) as (Hsv & Ho2 & _).
    destruct (naptr_str dpre o2) as [[re o3]|?|?] eqn:E3; cbn [obind] in H; try discriminate.
    pose proof (n6_len_nonneg sv).
    destruct (naptr_str_inv dpre o2 re o3 Hb ltac:(lia) E3) as (Hre & Ho3 & _).
    destruct (rd_name dpre o3 buf) as [[[[n l] nx] b2]|?|?] eqn:En; cbn [obind] in H; try discriminate. ok_inv H.
    pose proof (rd16_range _ _ _ Hb Eo). pose proof (rd16_range _ _ _ Hb Ep).
    destruct (rd_name_inv _ _ _ _ _ _ _ Hb En) as (ls1 & Hok1 & -> & -> & _). apply Z.eqb_eq in ENAPTR. subst t.
    assert (ER : rr_meta_rdata (rr_set_naptr (rr_base ls0 T_NAPTR c ttl rd) (mkNaptr o p fl sv re (join ls1))) (join ls1) (meta_of ls1)
                 = (mkRR (join ls0) T_NAPTR c ttl (n6_len rd) rd [] [] [] [] [] soa0 srv0 mx0 (mkNaptr o p fl sv re (join ls1)) [] rrsig0 dnskey0 svcb0 uri0 [] (canon_names (join ls0) (meta_of ls0) (join ls1) (meta_of ls1) (join []) (meta_of [])))) by rr_explicit.
    rewrite ER in *. clear ER.
    unfold rr_encodable in Henc. projs_in Henc. tyred_in Henc.
    unfold wf_rr. exists ls0, ls1, []. projs. unfold wf_rdata. projs. tyred. unfold u16_ok, u32_ok.
    destruct Henc as [Hf He]. repeat split; try lia; try assumption; try (apply fits_labels_okP; assumption); try apply Hfl; try apply Hsv; try apply Hre. }
  destruct (t =? T_OPT) eqn:EOPT.
  { destruct (decode_opts dpre off) as [os|?|?] eqn:Eos; cbn [obind] in H; try discriminate. ok_inv H.
    assert (Hos : Forall opt_ok os /\ n6_len (opts_wire os) <= 65535).
    { unfold decode_opts in Eos. destruct (off =? n6_len dpre) eqn:E0.
      - apply Ok_inj in Eos. subst os. split; [constructor|cbn; lia].
      - destruct (off + 4 >? n6_len dpre); [discriminate|].
        apply (opts_loop_inv dpre Hb) in Eos; [|lia]. destruct Eos as (os' & Eo & Hok & Hl). cbn [app] in Eo. subst os'.
        split; [exact Hok|lia]. }
    destruct Hos as [Hosok Hosl]. apply Z.eqb_eq in EOPT. subst t.
    assert (ER : rr_set_opt (rr_base ls0 T_OPT c ttl rd) os = (mkRR (join ls0) T_OPT c ttl (n6_len rd) rd [] [] [] [] [] soa0 srv0 mx0 naptr0 os rrsig0 dnskey0 svcb0 uri0 [] (canon_names (join ls0) (meta_of ls0) (join []) (meta_of []) (join []) (meta_of [])))) by rr_explicit.
    rewrite ER in *. clear ER.
    unfold rr_encodable in Henc. projs_in Henc. tyred_in Henc.
    unfold wf_rr. exists ls0, [], []. projs. unfold wf_rdata. projs. tyred. unfold u16_ok, u32_ok.
    destruct Henc as [Hf He]. repeat split; try lia; try assumption; try (apply fits_labels_okP; assumption). }
  destruct (t =? T_RRSIG) eqn:ERRSIG.
  { destruct (n6_len dpre <? off + 18); [discriminate|].
    destruct (rd16 dpre off) as [cov|?|?] eqn:Ecov; cbn [obind] in H; try discriminate.
    destruct (rd8 dpre (off + 2)) as [alg|?|?] eqn:Ealg; cbn [obind] in H; try discriminate.
    destruct (rd8 dpre (off + 3)) as [lab|?|?] eqn:Elab; cbn [obind] in H; try discriminate.
    destruct (rd32 dpre (off + 4)) as [ot|?|?] eqn:Eot; cbn [obind] in H; try discriminate.
    destruct (rd32 dpre (off + 8)) as [ex|?|?] eqn:Eex; cbn [obind] in H; try discriminate.
    destruct (rd32 dpre (off + 12)) as [inc|?|?] eqn:Einc; cbn [obind] in H; try discriminate.
    destruct (rd16 dpre (off + 16)) as [tag|?|?] eqn:Etag; cbn [obind] in H; try discriminate.
    pose proof (decode_name_labels dpre (off + 18) [] Hb) as Pn.
    destruct (decode_name dpre (off + 18) []) as [nm l next sbuf|?|?]; try discriminate.
    destruct Pn as (ls1 & Hok1 & Hsb & -> & _). cbn [app] in Hsb. subst sbuf.
    assert (Esg : (if 1 <? n6_len (dotted ls1) then skipn 1 (dotted ls1) else dotted ls1) = join ls1).
    { rewrite dotted_join. destruct ls1 as [|l1 t1]; [reflexivity|].
      pose proof (join_len_pos (l1 :: t1) ltac:(discriminate) Hok1).
      replace (1 <? n6_len (46 :: join (l1 :: t1))) with true by (lens; lia). reflexivity. }
    cbv zeta in H. rewrite Esg in H.
    destruct (rdsl dpre next (n6_len dpre)) as [sig|?|?] eqn:Esig; cbn [obind] in H; try discriminate. ok_inv H.
    pose proof (rd16_range _ _ _ Hb Ecov). pose proof (rd8_range _ _ _ Hb Ealg). pose proof (rd8_range _ _ _ Hb Elab).
    pose proof (rd32_range _ _ _ Hb Eot). pose proof (rd32_range _ _ _ Hb Eex). pose proof (rd32_range _ _ _ Hb Einc).
    pose proof (rd16_range _ _ _ Hb Etag). destruct (rdsl_inv _ _ _ _ Hb Esig) as (Hsigb & _ & _ & _).
    apply Z.eqb_eq in ERRSIG. subst t.
    assert (ER : rr_meta_rdata (rr_set_rrsig (rr_base ls0 T_RRSIG c ttl rd) (mkRrsig cov alg lab ot ex inc tag (join ls1) sig)) (join ls1) (meta_of ls1)
                 = (mkRR (join ls0) T_RRSIG c ttl (n6_len rd) rd [] [] [] [] [] soa0 srv0 mx0 naptr0 [] (mkRrsig cov alg lab ot ex inc tag (join ls1) sig) dnskey0 svcb0 uri0 [] (canon_names (join ls0) (meta_of ls0) (join ls1) (meta_of ls1) (join []) (meta_of [])))) by rr_explicit.
    rewrite ER in *. clear ER.
    unfold rr_encodable in Henc. projs_in Henc. tyred_in Henc.
    unfold wf_rr. exists ls0, ls1, []. projs. unfold wf_rdata. projs. tyred. unfold u16_ok, u32_ok.
    destruct Henc as [Hf [He1 He2]]. rewrite (wire_len_join ls1 Hok1).
    repeat split; try lia; try assumption; try (apply fits_labels_okP; assumption). }
  destruct (t =? T_DNSKEY) eqn:EDNSKEY.
  { destruct (n6_len dpre <? off + 4); [discriminate|].
    destruct (rd16 dpre off) as [fl|?|?] eqn:Efl; cbn [obind] in H; try discriminate.
    destruct (rd8 dpre (off + 2)) as [pr|?|?] eqn:Epr; cbn [obind] in H; try discriminate.
    destruct (rd8 dpre (off + 3)) as [al|?|?] eqn:Eal; cbn [obind] in H; try discriminate.
    destruct (rdsl dpre (off + 4) (n6_len dpre)) as [key|?|?] eqn:Ekey; cbn [obind] in H; try discriminate. ok_inv H.
    pose proof (rd16_range _ _ _ Hb Efl). pose proof (rd8_range _ _ _ Hb Epr). pose proof (rd8_range _ _ _ Hb Eal).
    destruct (rdsl_inv _ _ _ _ Hb Ekey) as (Hkb & Hkl & _ & _). apply Z.eqb_eq in EDNSKEY. subst t.
    assert (ER : rr_set_dnskey (rr_base ls0 T_DNSKEY c ttl rd) (mkDnskey fl pr al key) = (mkRR (join ls0) T_DNSKEY c ttl (n6_len rd) rd [] [] [] [] [] soa0 srv0 mx0 naptr0 [] rrsig0 (mkDnskey fl pr al key) svcb0 uri0 [] (canon_names (join ls0) (meta_of ls0) (join []) (meta_of []) (join []) (meta_of [])))) by rr_explicit.
    rewrite ER in *. clear ER.
    unfold rr_encodable in Henc. projs_in Henc. tyred_in Henc.
    unfold wf_rr. exists ls0, [], []. projs. unfold wf_rdata. projs. tyred. unfold u16_ok, u32_ok.
    destruct Henc as [Hf He]. repeat split; try lia; try assumption; try (apply fits_labels_okP; assumption). }
  destruct ((t =? T_SVCB) || (t =? T_HTTPS)) eqn:ESVCB.
  { destruct (off =? n6_len dpre); [discriminate|]. destruct (off + 3 >? n6_len dpre); [discriminate|].
    destruct (rd16 dpre off) as [prio|?|?] eqn:Eprio; cbn [obind] in H; try discriminate.
    destruct (rd_name dpre (off + 2) buf) as [[[[n l] ofs] b2]|?|?] eqn:En; cbn [obind] in H; try discriminate.
    destruct (rd_name_inv _ _ _ _ _ _ _ Hb En) as (ls1 & Hok1 & -> & -> & Hofs).
    destruct (svc_loop dpre (S (length dpre)) ofs []) as [ps|?|?] eqn:Eps; cbn [obind] in H; try discriminate. ok_inv H.
    apply (svc_loop_inv dpre Hb) in Eps; [|lia]. destruct Eps as (ps' & Eo & Hpsok & Hpsl). cbn [app] in Eo. subst ps'.
    pose proof (rd16_range _ _ _ Hb Eprio).
    apply orb_true_iff in ESVCB. destruct ESVCB as [E|E]; apply Z.eqb_eq in E; subst t.
    - assert (ER : rr_meta_rdata (rr_set_svcb (rr_base ls0 T_SVCB c ttl rd) (mkSvcb prio (join ls1) ps)) (join ls1) (meta_of ls1)
                   = (mkRR (join ls0) T_SVCB c ttl (n6_len rd) rd [] [] [] [] [] soa0 srv0 mx0 naptr0 [] rrsig0 dnskey0 (mkSvcb prio (join ls1) ps) uri0 [] (canon_names (join ls0) (meta_of ls0) (join ls1) (meta_of ls1) (join []) (meta_of [])))) by rr_explicit.
      rewrite ER in *. clear ER.
    unfold rr_encodable in Henc. projs_in Henc. tyred_in Henc.
    unfold wf_rr. exists ls0, ls1, []. projs. unfold wf_rdata. projs. tyred. unfold u16_ok, u32_ok.
      destruct Henc as [Hf [He1 He2]]. rewrite (wire_len_join ls1 Hok1).
      repeat split; try lia; try assumption; try (apply fits_labels_okP; assumption).
    - assert (ER : rr_meta_rdata (rr_set_svcb (rr_base ls0 T_HTTPS c ttl rd) (mkSvcb prio (join ls1) ps)) (join ls1) (meta_of ls1)
                   = (mkRR (join ls0) T_HTTPS c ttl (n6_len rd) rd [] [] [] [] [] soa0 srv0 mx0 naptr0 [] rrsig0 dnskey0 (mkSvcb prio (join ls1) ps) uri0 [] (canon_names (join ls0) (meta_of ls0) (join ls1) (meta_of ls1) (join []) (meta_of [])))) by rr_explicit.
      rewrite ER in *. clear ER.
    unfold rr_encodable in Henc. projs_in Henc. tyred_in Henc.
    unfold wf_rr. exists ls0, ls1, []. projs. unfold wf_rdata. projs. tyred. unfold u16_ok, u32_ok.
      destruct Henc as [Hf [He1 He2]]. rewrite (wire_len_join ls1 Hok1).
      repeat split; try lia; try assumption; try (apply fits_labels_okP; assumption). }
  (* no decoder for this type: no encoder either *)
  exfalso. ok_inv H. unfold rr_encodable in Henc. destruct Henc as [_ Henc]. rewrite rr_base_type in Henc.
  apply orb_false_iff in EA as [EA1 EA2]. apply orb_false_iff in ETX as [ETX1 _]. apply orb_false_iff in ESVCB as [ES1 ES2].
  rewrite EA1, EA2, ENS, ECN, EPTR, ESOA, EMX, ETX1, ESRV, ENAPTR, EURI, EOPT, ERRSIG, EDNSKEY, ES1, ES2 in Henc. exact Henc.
Qed.

