(* C12 — termination of the interleaving model: a measure that decreases on every step, so
   every run of a finite program is finite; with C12_progress every maximal run ends all-done. *)
From GP Require Import Base ListX C12Model C12Proofs.
From Coq Require Import Lia.
Open Scope nat_scope.

Lemma sum_map_upd_eq {A} (f : A -> nat) l t x d :
  t < length l -> f x = f (nth t l d) -> list_sum (map f (upd l t x)) = list_sum (map f l).
Proof.
  revert t; induction l as [|h r IH]; intros t L E; [cbn in L; lia|].
  destruct t as [|t]; simpl in *; [lia|].
  rewrite (IH t); [reflexivity|lia|assumption].
Qed.
Lemma sum_map_le {A} (f f' : A -> nat) l : (forall y, f' y <= f y) -> list_sum (map f' l) <= list_sum (map f l).
Proof. intros Hle. induction l as [|a r IH]; simpl; [lia|]. specialize (Hle a). lia. Qed.
Lemma sum_map_upd_lt {A} (f f' : A -> nat) l t x d :
  t < length l -> (forall y, f' y <= f y) -> f' x < f (nth t l d) ->
  list_sum (map f' (upd l t x)) < list_sum (map f l).
Proof.
  revert t; induction l as [|h r IH]; intros t L Hle E; [cbn in L; lia|].
  destruct t as [|t]; simpl in *.
  - pose proof (sum_map_le f f' r Hle). lia.
  - assert (Ht : t < length r) by lia. specialize (IH t Ht Hle E). specialize (Hle h). lia.
Qed.
Lemma sum_map_bound {A} (f : A -> nat) K l : (forall y, f y <= K) -> list_sum (map f l) <= K * length l.
Proof. intros H. induction l as [|h r IH]; simpl; [lia|]. specialize (H h). lia. Qed.

Definition u_pc (p : pc) : nat :=
  match p with
  | PMiss _ => 1
  | PRetry _ => 1
  | PWant _ (WPkt _ _) => 1
  | PWant _ (WFlush _ r) => 1 + length r
  | PRemove _ (KFlush _ r _) => length r
  | PRemove2 _ _ r => length r
  | _ => 0
  end.
Definition v_pc (p : pc) : nat := match p with PRemove _ _ => 2 | PRemove2 _ _ _ => 1 | _ => 0 end.

Lemma u_next_pc prog : u_pc (next_pc prog) = 0. Proof. destruct prog; reflexivity. Qed.
Lemma v_next_pc prog : v_pc (next_pc prog) = 0. Proof. destruct prog; reflexivity. Qed.
Lemma u_cont_flush a r prog : u_pc (cont_flush a r prog) = length r.
Proof. destruct r; cbn; [apply u_next_pc|reflexivity]. Qed.
Lemma v_cont_flush a r prog : v_pc (cont_flush a r prog) = 0.
Proof. destruct r; cbn; [apply v_next_pc|reflexivity]. Qed.

Section Term.
Variable cstate : Type.
Variable cinit : cstate.
Variable cclosed : cstate -> bool.
Variable creset : packet -> cstate.
Variable process : cstate -> bool -> packet -> cstate * list cevent * bool.
Variable flush : option Z -> cstate -> cstate * list cevent * bool.
Variable ctrail : option Z -> cstate -> bool.
Hypothesis Hm : machine_ok cstate cinit cclosed creset process flush.

Notation State := (state cstate).
Notation exec' := (exec cstate cinit cclosed creset process flush ctrail).
Notation obj' := (obj cstate cinit).
Notation enabled' := (enabled cstate cinit).
Notation Reach := (reachable cstate cinit cclosed creset process flush ctrail).

(* rank of a packet call that has not been processed yet: it can be sent round the retry loop
   only by a close, and a closed connection that is still in the pool is locked by its remover *)
Definition r_pc (g : config) (s : State) (p : pc) : nat :=
  match p with
  | PStart => 1
  | PRetry _ => 6
  | PMiss _ => 5
  | PWant c (WPkt _ _) =>
    match g_pkg g with
    | Tcp => if cclosed (c_st (obj' s c)) then (match c_lock (obj' s c) with Some _ => 4 | None => 8 end) else 0
    | Rsm => 0
    end
  | _ => 0
  end.
Lemma r_pc_le g s p : r_pc g s p <= 8.
Proof.
  destruct p as [| |c [p fwd|a r]| | | | |]; cbn; try lia.
  destruct (g_pkg g); [|lia]. destruct (cclosed (c_st (obj' s c))); [|lia]. destruct (c_lock (obj' s c)); lia.
Qed.
Lemma v_pc_le p : v_pc p <= 2. Proof. destruct p; cbn; lia. Qed.

(* tcpassembly: a closed connection that is still in the pool is locked (by the thread removing it) *)
Definition inv_closed_locked (g : config) (s : State) : Prop :=
  g_pkg g = Tcp -> forall k c, In (k, c) (s_conns s) -> cclosed (c_st (obj' s c)) = true -> c_lock (obj' s c) <> None.

Definition mono (g : config) (s s' : State) : Prop :=
  g_pkg g = Tcp -> forall c, (cclosed (c_st (obj' s' c)) = true -> cclosed (c_st (obj' s c)) = true) /\
            c_lock (obj' s' c) = c_lock (obj' s c).
Lemma mono_r g s s' p : mono g s s' -> r_pc g s' p <= r_pc g s p.
Proof.
  intros M. destruct p as [| |c [p fwd|a r]| | | | |]; cbn; try lia.
  destruct (g_pkg g) eqn:G; [|lia]. destruct (M G c) as [M1 M2]. rewrite M2.
  destruct (cclosed (c_st (obj' s' c))); [rewrite (M1 eq_refl); lia|].
  destruct (cclosed (c_st (obj' s c))); [destruct (c_lock (obj' s c)); lia|lia].
Qed.

(* what one step does to the measure components of the stepping thread *)
Definition low_step (g : config) (s : State) (p p' : pc) : Prop :=
  (exists pk c fwd, p = PRetry pk /\ p' = PWant c (WPkt pk fwd) /\ lookup g (s_conns s) (p_key pk) = Some (c, fwd)) \/
  (exists pk, p = PRetry pk /\ p' = PMiss pk) \/
  (exists pk c fwd, p = PWant c (WPkt pk fwd) /\ p' = PRetry pk /\ g_pkg g = Tcp /\
                    cclosed (c_st (obj' s c)) = true /\ c_lock (obj' s c) = None) \/
  (exists pk c fwd, p = PMiss pk /\ p' = PWant c (WPkt pk fwd)) \/
  (p = PStart /\ p' = PDone).

Lemma exec_thread g (s : State) t s' : exec' g s t = Some s' ->
  let th := thr s t in let th' := thr s' t in
  length (t_prog th') < length (t_prog th) \/
  (length (t_prog th') <= length (t_prog th) /\
   (u_pc (t_pc th') < u_pc (t_pc th) \/
    (u_pc (t_pc th') = u_pc (t_pc th) /\
     (v_pc (t_pc th') < v_pc (t_pc th) \/
      (v_pc (t_pc th') = v_pc (t_pc th) /\ low_step g s (t_pc th) (t_pc th')))))).
Proof.
  intros E. assert (Lt : t < length (s_thr s)).
  { apply (enabled_lt cstate cinit). unfold exec in E. destruct (enabled' s t); [reflexivity|discriminate]. }
  revert E. unfold exec. destruct (enabled' s t) eqn:En; cbn [negb]; [|discriminate].
  assert (Hthr : forall c f (o : list (conn cstate)) n k th l tg,
     thr (mkSt c f o n k (set_thr cstate s t th) l tg) t = th).
  { intros. unfold thr; cbn [s_thr]. unfold set_thr. apply nth_upd_eq; assumption. }
  assert (Hlk : forall p prog, thr (do_lookup cstate g s t p prog) t =
            match lookup g (s_conns s) (p_key p) with
            | Some (c, fwd) => mkThr (PWant c (WPkt p fwd)) prog
            | None => if end_flag g p then mkThr (next_pc prog) prog else mkThr (PMiss p) prog
            end).
  { intros p prog. unfold do_lookup. rewrite Hthr. reflexivity. }
  cbv zeta. destruct (t_pc (thr s t)) eqn:Epc.
  - (* PStart: the program gets shorter *)
    destruct (t_prog (thr s t)) as [|[p|age] rest] eqn:Epr.
    + intros H; inversion H; subst; clear H. rewrite Hthr. cbn. right. split; [lia|]. right. split; [reflexivity|].
      right. split; [reflexivity|]. repeat right. split; reflexivity.
    + destruct (ignored g p); intros H; inversion H; subst; clear H; left; [rewrite Hthr; cbn; lia|].
      rewrite Hlk. destruct (lookup g (s_conns s) (p_key p)) as [[c fwd]|]; [cbn; lia|].
      destruct (end_flag g p); cbn; lia.
    + intros H; inversion H; subst; clear H. left. rewrite Hthr. cbn. lia.
  - (* PMiss *)
    destruct (s_free s) as [|c0 f];
    (destruct (lookup g (s_conns s) (p_key p)) as [[c2 fwd2]|] eqn:EL;
     [match goal with |- context[if ?b then _ else _] => destruct b end|]);
    intros H; inversion H; subst; clear H; right; rewrite Hthr; cbn [t_pc t_prog length];
    (split; [lia|]); cbn [u_pc v_pc];
    first [ left; lia
          | right; split; [reflexivity|]; right; split; [reflexivity|];
            right; right; right; left; do 3 eexists; split; reflexivity ].
  - (* PWant *)
    destruct w as [p fwd0|age rest].
    + destruct (match g_pkg g with Tcp => cclosed (c_st (obj' s c)) | Rsm => false end) eqn:Ecl.
      * intros H; inversion H; subst; clear H; right; rewrite Hthr; cbn [t_pc t_prog u_pc v_pc].
        split; [lia|]. right. split; [reflexivity|]. right. split; [reflexivity|].
        right; right; left. exists p, c, fwd0. split; [reflexivity|]. split; [reflexivity|].
        destruct (g_pkg g); [|discriminate]. split; [reflexivity|]. split; [exact Ecl|].
        unfold enabled in En. rewrite Epc in En. destruct (c_lock (obj' s c)); [discriminate|reflexivity].
      * destruct (process (c_st (obj' s c)) fwd0 p) as [[st' evs] closes].
        destruct closes; intros H; inversion H; subst; clear H; right; rewrite Hthr; cbn [t_pc t_prog u_pc];
          (split; [lia|]); left; rewrite ?u_next_pc; lia.
    + destruct (match g_pkg g with Tcp => cclosed (c_st (obj' s c)) | Rsm => false end).
      * intros H; inversion H; subst; clear H; right; rewrite Hthr; cbn [t_pc t_prog].
        split; [lia|]. left. rewrite u_cont_flush. cbn; lia.
      * destruct (flush age (c_st (obj' s c))) as [[st' evs] closes].
        destruct (is_rsm g && g_trail g && ctrail age st');
        destruct closes; intros H; inversion H; subst; clear H; right; rewrite Hthr; cbn [t_pc t_prog];
          (split; [lia|]); left; rewrite ?u_cont_flush; cbn; lia.
  - (* PRemove *)
    intros H; inversion H; subst; clear H. right. rewrite Hthr. cbn [t_pc t_prog]. split; [lia|].
    right. destruct k as [|a r [|]]; cbn [u_pc v_pc]; rewrite ?u_next_pc, ?v_next_pc, ?u_cont_flush, ?v_cont_flush;
      (split; [reflexivity|]); left; lia.
  - (* PRetry *)
    intros H; inversion H; subst; clear H. right. rewrite Hlk. split; [destruct (lookup g (s_conns s) (p_key p)) as [[c fwd]|]; [cbn; lia|destruct (end_flag g p); cbn; lia]|].
    destruct (lookup g (s_conns s) (p_key p)) as [[c fwd]|] eqn:EL.
    + cbn [t_pc u_pc v_pc]. right. split; [reflexivity|]. right. split; [reflexivity|].
      left. exists p, c, fwd. auto.
    + destruct (end_flag g p); cbn [t_pc].
      * left. rewrite u_next_pc. cbn; lia.
      * cbn [u_pc v_pc]. right. split; [reflexivity|]. right. split; [reflexivity|]. right; left. exists p. auto.
  - (* PRemove2 *)
    intros H; inversion H; subst; clear H. right. rewrite Hthr. cbn [t_pc t_prog]. split; [lia|].
    right. rewrite u_cont_flush, v_cont_flush. cbn [u_pc v_pc]. split; [reflexivity|]. left; lia.
  - discriminate.
  - discriminate.
Qed.

(* the machine closes a connection only by reporting it *)
Definition machine_tight : Prop :=
  (forall st h p st' ev, process st h p = (st', ev, false) -> cclosed st = false -> cclosed st' = false) /\
  (forall a st st' ev, flush a st = (st', ev, false) -> cclosed st = false -> cclosed st' = false).

Lemma closed_locked_init g progs : inv_closed_locked g (init cstate progs).
Proof. intros _ k c H. destruct H. Qed.

Lemma closed_locked_step g s t s' :
  machine_tight -> no_trail cstate s -> inv_pool cstate cinit cclosed g s -> inv_closed_locked g s ->
  exec' g s t = Some s' -> inv_closed_locked g s'.
Proof.
  intros [Tp Tf] NT IP J E G k0 c0 Hin Hcl.
  destruct IP as [Ik Iv Ie Ir If Ife Irm Irg].
  destruct (exec_spec _ _ _ _ _ _ _ _ _ _ _ E) as
    [th' Hc Hf Ho Hn Hk Hl Ht Hnr Hnp Hnr0 Hnm0 Htr
    |p th' c free' objs0 Hpc Hpop Hf Ho Hn Ht Hnr Hl Hcn Hpan Htr
    |c w st' evs closes th' Hpc Hlk Hw Ho Hc Hf Hn Hk Ht Hcl2 Hncl Hnp Htr
    |c k th' Hpc Ho Hcf Hn Hk Hl Ht Hnr Hnp Htr
    |c age rest th' Hpc Ho Hcf Hn Hk Hl Ht Hnr Hnp Htr].
  - rewrite Hc in Hin. rewrite (obj_same _ _ _ _ _ Ho) in *. eapply J; eassumption.
  - assert (Hfr : forall x, In x (s_free s) -> x < length (s_objs s)) by (intros x Hx; apply (Ife _ Hx)).
    pose proof (miss_obj_len _ _ _ _ _ _ Hpop Hfr) as Lc.
    assert (Hcnot : ~ In c (map snd (s_conns s))).
    { destruct (pop_cases _ _ _ _ _ _ Hpop) as [[Ef _]|[_ [_ [-> _]]]].
      - apply Ife. rewrite Ef; left; reflexivity.
      - intros Hi. apply in_map_iff in Hi as [[k1 c1] [E0 Hi]]. cbn in E0; subst.
        destruct (Ie _ _ Hi) as [_ L]. lia. }
    destruct (Nat.eq_dec c0 c) as [->|N].
    + exfalso. unfold obj in Hcl. rewrite Ho, nth_upd_eq in Hcl by assumption. cbn in Hcl.
      destruct Hm as [_ [Hr _]]. rewrite Hr in Hcl. discriminate.
    + rewrite (miss_obj_other _ _ _ _ _ _ _ _ _ Hpop Ho N) in *.
      assert (In (k0, c0) (s_conns s)).
      { destruct Hcn as [[_ [Hc _]]|[_ [Hc _]]]; rewrite Hc in Hin; [|exact Hin].
        destruct Hin as [Hi|Hi]; [inversion Hi; congruence|exact Hi]. }
      eapply J; eassumption.
  - rewrite Hc in Hin.
    assert (Lc : c < length (s_objs s)) by (apply (Irg t); rewrite Hpc; destruct w; left; reflexivity).
    destruct (Nat.eq_dec c0 c) as [->|N].
    + rewrite (obj_upd_eq _ _ _ _ _ _ Lc Ho) in *. cbn in *. destruct closes; [discriminate|].
      exfalso. destruct (cclosed (c_st (obj' s c))) eqn:Eb.
      * apply (J G _ _ Hin Eb). exact Hlk.
      * destruct Hw as [[p [fwd [_ [Hp _]]]]|[age [rest [_ [Hp _]]]]].
        -- rewrite (Tp _ _ _ _ _ Hp Eb) in Hcl. discriminate.
        -- rewrite (Tf _ _ _ _ Hp Eb) in Hcl. discriminate.
    + rewrite (obj_upd_ne _ _ _ _ _ _ _ N Ho) in *. eapply J; eassumption.
  - assert (Lc : c < length (s_objs s)) by (apply (Irg t); rewrite Hpc; destruct k; left; reflexivity).
    assert (Hrm : s_conns s' = remove_assoc (c_key (obj' s c)) (s_conns s)).
    { revert E. unfold exec. destruct (enabled' s t); cbn [negb]; [|discriminate].
      rewrite Hpc, G. intros H; inversion H; subst. reflexivity. }
    rewrite Hrm in Hin. apply in_remove_assoc in Hin as [Nk Hin].
    destruct (Nat.eq_dec c0 c) as [->|N].
    + destruct (Ie _ _ Hin) as [A _]. congruence.
    + rewrite (obj_upd_ne _ _ _ _ _ _ _ N Ho) in *. eapply J; eassumption.
  - exfalso. specialize (NT t). rewrite Hpc in NT. discriminate.
Qed.

Lemma closed_locked_reachable g progs s :
  machine_tight -> g_pkg g = Tcp -> Reach g progs s -> inv_closed_locked g s.
Proof.
  intros T G. assert (GT : trail_cfg g = false) by (unfold trail_cfg, is_rsm; rewrite G; reflexivity).
  induction 1; [apply closed_locked_init|].
  eapply closed_locked_step; try eassumption.
  - eapply no_trail_reachable; eassumption.
  - eapply inv_pool_reachable; eassumption.
Qed.

(* ---------------------------------------------------------------- the measure *)
Definition mP (s : State) : nat := list_sum (map (fun th => length (t_prog th)) (s_thr s)).
Definition mU (s : State) : nat := list_sum (map (fun th => u_pc (t_pc th)) (s_thr s)).
Definition mV (s : State) : nat := list_sum (map (fun th => v_pc (t_pc th)) (s_thr s)).
Definition mR (g : config) (s : State) : nat := list_sum (map (fun th => r_pc g s (t_pc th)) (s_thr s)).
Definition w2 (n : nat) : nat := 8 * n + 1.
Definition w1 (n : nat) : nat := n * (2 * w2 n + 8) + 1.
Definition mX (g : config) (s : State) : nat :=
  let n := length (s_thr s) in w1 n * mU s + w2 n * mV s + mR g s.

Lemma thr_in_bounds (s s' : State) t th' :
  s_thr s' = upd (s_thr s) t th' -> length (s_thr s') = length (s_thr s).
Proof. intros ->. apply upd_length. Qed.

Lemma exec_objs_retry g (s : State) t s' pk :
  t_pc (thr s t) = PRetry pk -> exec' g s t = Some s' -> s_objs s' = s_objs s.
Proof.
  intros Hpc. unfold exec. destruct (enabled' s t); cbn [negb]; [|discriminate]. rewrite Hpc.
  intros H; inversion H; subst. reflexivity.
Qed.
Lemma exec_objs_start g (s : State) t s' :
  t_pc (thr s t) = PStart -> exec' g s t = Some s' -> s_objs s' = s_objs s.
Proof.
  intros Hpc. unfold exec. destruct (enabled' s t); cbn [negb]; [|discriminate]. rewrite Hpc.
  destruct (t_prog (thr s t)) as [|[p|a] r]; [| |]; try (intros H; inversion H; subst; reflexivity).
  destruct (ignored g p); intros H; inversion H; subst; reflexivity.
Qed.
Lemma exec_objs_closed g (s : State) t s' c pk fwd :
  t_pc (thr s t) = PWant c (WPkt pk fwd) -> g_pkg g = Tcp -> cclosed (c_st (obj' s c)) = true ->
  exec' g s t = Some s' -> s_objs s' = s_objs s.
Proof.
  intros Hpc G Ec. unfold exec. destruct (enabled' s t); cbn [negb]; [|discriminate]. rewrite Hpc, G, Ec.
  intros H; inversion H; subst. reflexivity.
Qed.

(* every step decreases (mP, mX) lexicographically *)
Lemma measure_decreases g progs s t s' :
  (g_pkg g = Tcp -> machine_tight) -> Reach g progs s -> exec' g s t = Some s' ->
  mP s' < mP s \/ (mP s' = mP s /\ mX g s' < mX g s).
Proof.
  intros T R E.
  assert (Lt : t < length (s_thr s)).
  { apply (enabled_lt cstate cinit). unfold exec in E. destruct (enabled' s t); [reflexivity|discriminate]. }
  pose proof (exec_thread _ _ _ _ E) as HT. cbv zeta in HT.
  pose proof (exec_spec _ _ _ _ _ _ _ _ _ _ _ E) as SP.
  assert (Hthr : exists th', s_thr s' = upd (s_thr s) t th').
  { destruct SP; eexists; eassumption. }
  destruct Hthr as [th' Ht].
  assert (Hth' : thr s' t = th') by (unfold thr; rewrite Ht; apply nth_upd_eq; assumption).
  rewrite Hth' in HT.
  pose proof (thr_in_bounds _ _ _ _ Ht) as Hlen.
  assert (HV' : mV s' <= 2 * length (s_thr s)).
  { pose proof (sum_map_bound (fun th => v_pc (t_pc th)) 2 (s_thr s') (fun y => v_pc_le _)) as B.
    unfold mV. rewrite Hlen in B. exact B. }
  assert (HR' : mR g s' <= 8 * length (s_thr s)).
  { pose proof (sum_map_bound (fun th => r_pc g s' (t_pc th)) 8 (s_thr s') (fun y => r_pc_le g s' _)) as B.
    unfold mR. rewrite Hlen in B. exact B. }
  assert (HPle : length (t_prog th') <= length (t_prog (thr s t)) -> mP s' <= mP s).
  { intros L. unfold mP. rewrite Ht.
    destruct (Nat.eq_dec (length (t_prog th')) (length (t_prog (thr s t)))) as [Eq|Ne].
    - rewrite (sum_map_upd_eq (fun th => length (t_prog th)) _ _ _ (mkThr PDone []) Lt Eq). lia.
    - assert (length (t_prog th') < length (t_prog (thr s t))) by lia.
      pose proof (sum_map_upd_lt (fun th => length (t_prog th)) (fun th => length (t_prog th)) _ _ th' (mkThr PDone []) Lt (fun y => le_n _) H). lia. }
  destruct HT as [HP|[HPl HT]].
  - left. unfold mP. rewrite Ht.
    apply (sum_map_upd_lt (fun th => length (t_prog th)) (fun th => length (t_prog th)) _ _ th' (mkThr PDone []) Lt (fun y => le_n _) HP).
  - specialize (HPle HPl).
    destruct (Nat.eq_dec (mP s') (mP s)) as [EqP|NeP]; [right; split; [exact EqP|]|left; lia].
    unfold mX. rewrite Hlen.
    destruct HT as [HU|[HUe HT]].
    + (* a processing step *)
      assert (mU s' < mU s).
      { unfold mU. rewrite Ht. apply (sum_map_upd_lt (fun th => u_pc (t_pc th)) (fun th => u_pc (t_pc th)) _ _ th' (mkThr PDone []) Lt (fun y => le_n _) HU). }
      set (n := length (s_thr s)) in *. unfold w1, w2 in *. nia.
    + assert (EU : mU s' = mU s).
      { unfold mU. rewrite Ht. apply (sum_map_upd_eq (fun th => u_pc (t_pc th)) _ _ _ (mkThr PDone []) Lt HUe). }
      rewrite EU. destruct HT as [HV|[HVe HL]].
      * assert (mV s' < mV s).
        { unfold mV. rewrite Ht. apply (sum_map_upd_lt (fun th => v_pc (t_pc th)) (fun th => v_pc (t_pc th)) _ _ th' (mkThr PDone []) Lt (fun y => le_n _) HV). }
        set (n := length (s_thr s)) in *. unfold w2 in *. nia.
      * assert (EV : mV s' = mV s).
        { unfold mV. rewrite Ht. apply (sum_map_upd_eq (fun th => v_pc (t_pc th)) _ _ _ (mkThr PDone []) Lt HVe). }
        rewrite EV.
        (* lookup / miss / retry: the rank of the packet call decreases, nobody else's rank grows *)
        assert (Hlow : mono g s s' /\ r_pc g s' (t_pc th') < r_pc g s (t_pc (thr s t))).
        { assert (GT : g_pkg g = Tcp -> inv_closed_locked g s).
          { intros G. apply (closed_locked_reachable g progs); auto. }
          assert (Hhit : forall pk c fwd, lookup g (s_conns s) (p_key pk) = Some (c, fwd) ->
                    r_pc g s (PWant c (WPkt pk fwd)) <= 4).
          { intros pk c fwd HLk0. cbn. destruct (g_pkg g) eqn:G; [|lia].
            destruct (cclosed (c_st (obj' s c))) eqn:Ec; [|lia].
            destruct (lookup_key _ _ _ _ _ HLk0) as [Hin _].
            pose proof (GT eq_refl G _ _ Hin Ec) as Hl. destruct (c_lock (obj' s c)); [lia|congruence]. }
          assert (Msame : s_objs s' = s_objs s -> mono g s s').
          { intros Ho _ c. rewrite (obj_same _ _ _ _ _ Ho). auto. }
          assert (Rsame : s_objs s' = s_objs s -> forall p, r_pc g s' p = r_pc g s p).
          { intros Ho p. destruct p as [| |c [pk fwd|a r]| | | | |]; cbn; try reflexivity.
            rewrite (obj_same _ _ _ _ _ Ho). reflexivity. }
          destruct HL as [[pk [c [fwd [E1 [E2 HLk]]]]]|[[pk [E1 E2]]|[[pk [c [fwd [E1 [E2 [G [Ec El]]]]]]]|[[pk [c [fwd [E1 E2]]]]|[E1 E2]]]]].
          - pose proof (exec_objs_retry _ _ _ _ _ E1 E) as Ho. split; [auto|]. rewrite (Rsame Ho), E1, E2.
            specialize (Hhit _ _ _ HLk). cbn [r_pc] in *. lia.
          - pose proof (exec_objs_retry _ _ _ _ _ E1 E) as Ho. split; [auto|]. rewrite (Rsame Ho), E1, E2. cbn. lia.
          - pose proof (exec_objs_closed _ _ _ _ _ _ _ E1 G Ec E) as Ho. split; [auto|]. rewrite (Rsame Ho), E1, E2.
            cbn. rewrite G, Ec, El. lia.
          - (* miss: the object taken is reset (open), every other object is untouched *)
            assert (GTr : trail_cfg g = false \/ True) by auto.
            destruct SP as
              [th2 Hc Hf Ho Hn Hk Hl Ht2 Hnr Hnp Hnr0 Hnm0 Htr
              |p th2 c2 free' objs0 Hpc Hpop Hf Ho Hn Ht2 Hnr Hl Hcn Hpan Htr
              |c2 w st' evs closes th2 Hpc Hlk Hw Ho Hc Hf Hn Hk Ht2 Hcl2 Hncl Hnp Htr
              |c2 k th2 Hpc Ho Hcf Hn Hk Hl Ht2 Hnr Hnp Htr
              |c2 age rest th2 Hpc Ho Hcf Hn Hk Hl Ht2 Hnr Hnp Htr];
              try (exfalso; rewrite Hpc in E1; discriminate); [exfalso; exact (Hnm0 _ E1)|].
            rewrite Hpc in E1. inversion E1; subst p.
            pose proof (exec_want _ _ _ _ _ _ _ _ _ _ _ E) as Hw. rewrite Hth', E2 in Hw.
            specialize (Hw _ _ _ eq_refl).
            assert (Hmono : forall x, (x <> c2 -> obj' s' x = obj' s x) /\
                        (c_lock (obj' s' x) = c_lock (obj' s x))).
            { intros x. split.
              - intros N. eapply miss_obj_other; eassumption.
              - destruct (Nat.eq_dec x c2) as [->|N]; [|rewrite (miss_obj_other _ _ _ _ _ _ _ _ _ Hpop Ho N); reflexivity].
                unfold obj at 1. rewrite Ho.
                destruct (Nat.lt_ge_cases c2 (length objs0)) as [L|L].
                + rewrite nth_upd_eq by assumption. cbn. rewrite (miss_old_obj _ _ _ _ _ _ Hpop). reflexivity.
                + rewrite nth_upd_ge by assumption. rewrite (miss_old_obj _ _ _ _ _ _ Hpop). reflexivity. }
            assert (Hopen : c2 < length objs0 -> cclosed (c_st (obj' s' c2)) = false).
            { intros L. unfold obj. rewrite Ho, nth_upd_eq by assumption. cbn. destruct Hm as [_ [Hr _]]. apply Hr. }
            assert (Lc2 : forall IP : inv_pool cstate cinit cclosed g s, c2 < length objs0).
            { intros IP. eapply miss_obj_len; [eassumption|]. intros x Hx. apply (ip_free_ent _ _ _ _ _ IP _ Hx). }
            split.
            + intros G x. destruct (Hmono x) as [Ho1 Ho2]. split; [|exact Ho2].
              destruct (Nat.eq_dec x c2) as [->|N]; [|rewrite (Ho1 N); auto].
              intros Hcl.
              assert (IP : inv_pool cstate cinit cclosed g s).
              { eapply inv_pool_reachable; try eassumption. unfold trail_cfg, is_rsm. rewrite G. reflexivity. }
              rewrite (Hopen (Lc2 IP)) in Hcl. discriminate.
            + rewrite Hpc, E2. cbn [r_pc]. destruct (g_pkg g) eqn:G; [|lia].
              assert (IP : inv_pool cstate cinit cclosed g s).
              { eapply inv_pool_reachable; try eassumption. unfold trail_cfg, is_rsm. rewrite G. reflexivity. }
              destruct Hw as [HLk|[_ [_ [Ec2 _]]]].
              * (* lost the race: the connection found is in the pool *)
                assert (c <> c2).
                { intros ->. destruct (lookup_key _ _ _ _ _ HLk) as [Hin _].
                  destruct (pop_cases _ _ _ _ _ _ Hpop) as [[Ef _]|[_ [_ [Ec3 _]]]].
                  - destruct (ip_free_ent _ _ _ _ _ IP c2) as [A _]; [rewrite Ef; left; reflexivity|].
                    apply A. apply in_map_iff. eexists; split; [|exact Hin]. reflexivity.
                  - destruct (ip_ent _ _ _ _ _ IP _ _ Hin) as [_ L]. lia. }
                destruct (Hmono c) as [Ho1 Ho2]. rewrite (Ho1 H).
                specialize (Hhit _ _ _ HLk). cbn [r_pc] in Hhit. rewrite G in Hhit. lia.
              * rewrite Hpop in Ec2. cbn in Ec2. subst c. rewrite (Hopen (Lc2 IP)). lia.
          - pose proof (exec_objs_start _ _ _ _ E1 E) as Ho. split; [auto|]. rewrite (Rsame Ho), E1, E2. cbn. lia. }
        destruct Hlow as [M Hr].
        assert (mR g s' < mR g s).
        { unfold mR. rewrite Ht.
          apply (sum_map_upd_lt (fun th => r_pc g s (t_pc th)) (fun th => r_pc g s' (t_pc th)) _ _ th' (mkThr PDone []) Lt).
          - intros y. apply mono_r; assumption.
          - exact Hr. }
        lia.
Qed.


(* ---------------------------------------------------------------- all runs are finite; maximal runs end all-done *)
Definition step_rel (g : config) (progs : list (list op)) (s' s : State) : Prop :=
  Reach g progs s /\ exists t, exec' g s t = Some s'.

Lemma terminates g progs : (g_pkg g = Tcp -> machine_tight) ->
  forall s, Reach g progs s -> Acc (step_rel g progs) s.
Proof.
  intros T.
  assert (H : forall p x s, mP s = p -> mX g s = x -> Reach g progs s -> Acc (step_rel g progs) s).
  { induction p as [p IHp] using lt_wf_ind. induction x as [x IHx] using lt_wf_ind.
    intros s Ep Ex R. constructor. intros s' [_ [t E]].
    assert (R' : Reach g progs s') by (eapply R_step; eassumption).
    destruct (measure_decreases g progs s t s' T R E) as [Hp|[Hp Hx]].
    - apply (IHp (mP s') ltac:(lia) (mX g s') s'); [reflexivity|reflexivity|exact R'].
    - apply (IHx (mX g s') ltac:(lia) s'); [congruence|reflexivity|exact R']. }
  intros s R. exact (H _ _ s eq_refl eq_refl R).
Qed.

Inductive runs (g : config) : State -> State -> Prop :=
| runs_refl s : runs g s s
| runs_step s t s1 s2 : exec' g s t = Some s1 -> runs g s1 s2 -> runs g s s2.

Definition final (g : config) (s : State) : Prop := forall t, exec' g s t = None.

Lemma final_all_done g progs s : Reach g progs s -> final g s -> all_done s = true.
Proof.
  intros R F. destruct (progress cstate cinit cclosed creset process flush ctrail g progs s R) as [D|A]; [exact D|].
  unfold any_enabled in A. apply existsb_exists in A as [t [_ En]].
  destruct (enabled_steps cstate cinit cclosed creset process flush ctrail g s t En) as [s' E]. rewrite (F t) in E. discriminate.
Qed.

Lemma not_enabled_final g (s : State) : any_enabled cstate cinit s = false -> final g s.
Proof.
  intros A t. unfold exec. destruct (enabled' s t) eqn:En; [|reflexivity]. exfalso.
  pose proof (enabled_lt cstate cinit s t En) as L.
  assert (any_enabled cstate cinit s = true).
  { unfold any_enabled. apply existsb_exists. exists t. split; [apply in_seq; lia|exact En]. }
  congruence.
Qed.

(* every reachable state has a complete run, it is finite, and it ends with every thread returned *)
Lemma complete_run g progs : (g_pkg g = Tcp -> machine_tight) ->
  forall s, Reach g progs s -> exists s', runs g s s' /\ Reach g progs s' /\ final g s' /\ all_done s' = true.
Proof.
  intros T s R. induction (terminates g progs T s R) as [s _ IH].
  destruct (any_enabled cstate cinit s) eqn:A.
  - unfold any_enabled in A. apply existsb_exists in A as [t [_ En]].
    destruct (enabled_steps cstate cinit cclosed creset process flush ctrail g s t En) as [s1 E].
    assert (R1 : Reach g progs s1) by (eapply R_step; eassumption).
    destruct (IH s1 (conj R (ex_intro _ t E)) R1) as [s' [Hr [R' [F D]]]].
    exists s'. split; [eapply runs_step; eassumption|auto].
  - exists s. pose proof (not_enabled_final g s A) as F. split; [constructor|]. split; [exact R|].
    split; [exact F|]. eapply final_all_done; eassumption.
Qed.

End Term.

(* the two concrete machines close a connection only by reporting it *)
Lemma t_send_open ret n q l st' ev : t_send ret n q l = (st', ev, false) -> tc_closed st' = false.
Proof.
  unfold t_send. destruct (t_add_contig n q ret) as [[ret' n'] q'].
  destruct (last_end ret'); intros H; inversion H; subst; reflexivity.
Qed.
Lemma t_flush_loop_open fuel : forall st acc st' ev, t_flush_loop fuel st acc = (st', ev, false) ->
  tc_closed st = false -> tc_closed st' = false.
Proof.
  induction fuel as [|f IH]; intros st acc st' ev; cbn [t_flush_loop].
  - intros H; inversion H; subst; auto.
  - destruct (tc_q st) as [|pg r]; [intros H; inversion H|].
    destruct (t_add_next (tc_next st) pg) as [ch n'].
    destruct (t_send [ch] n' r (tc_last st)) as [[st1 evs] closes] eqn:Es.
    destruct closes; [intros H; inversion H|]. intros H _. eapply IH; [exact H|]. eapply t_send_open; eassumption.
Qed.
Lemma t_age_loop_open fuel T : forall st acc st' ev, t_age_loop fuel T st acc = (st', ev, false) ->
  tc_closed st = false -> tc_closed st' = false.
Proof.
  induction fuel as [|f IH]; intros st acc st' ev; cbn [t_age_loop].
  - intros H; inversion H; subst; auto.
  - destruct (tc_q st) as [|pg r].
    + destruct (tc_last st <? T)%Z; intros H; inversion H; subst; auto.
    + destruct (tp_seen pg <? T)%Z; [|intros H; inversion H; subst; auto].
      destruct (t_add_next (tc_next st) pg) as [ch n'].
      destruct (t_send [ch] n' r (tc_last st)) as [[st1 evs] closes] eqn:Es.
      destruct closes; [intros H; inversion H|]. intros H _. eapply IH; [exact H|]. eapply t_send_open; eassumption.
Qed.
Lemma tcp_machine_tight : machine_tight tconn tc_closed tcp_process tcp_flush.
Proof.
  split.
  - intros st h p st' ev. unfold tcp_process. destruct (tc_closed st) eqn:Ec; [intros _ H; discriminate|].
    destruct (tc_next st) as [n|].
    + destruct (0 <? (if p_syn p then p_seq p + 1 else p_seq p) - n)%Z; [intros H; inversion H; subst; reflexivity|].
      destruct (byte_span (Some n) (if p_syn p then (p_seq p + 1)%Z else p_seq p) (p_bytes p)) as [b0 n'].
      intros H _. eapply t_send_open; eassumption.
    + destruct (p_syn p); [intros H _; eapply t_send_open; eassumption|intros H; inversion H; subst; reflexivity].
  - intros a st st' ev. unfold tcp_flush. destruct (tc_closed st) eqn:Ec; [intros _ H; discriminate|].
    destruct a as [T|]; intros H _; [eapply t_age_loop_open|eapply t_flush_loop_open]; eassumption.
Qed.
