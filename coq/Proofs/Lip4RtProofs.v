(* IPv4 round trip (C06): serialize with FixLengths+ComputeChecksums, then decode. *)
From GP Require Import Base ListX Codec CodecBits Lip4Model Lip4Proofs.
From Coq Require Import Lia ZifyBool ZifyNat.
Open Scope Z_scope.
Ltac Zify.zify_post_hook ::= Z.div_mod_to_equations.

(* ------------------------------------------------------------------ the options area as a list *)
Definition enc_opt (o : ip4opt) : list Z :=
  if ot o =? 0 then [0] else if ot o =? 1 then [1]
  else [ot o; ol o] ++ od o ++ repeat 0 (Z.to_nat (ol o - 2 - zlen (od o))).

Definition enc_opts (opts : list ip4opt) : list Z := concat (map enc_opt opts).

(* an option SerializeTo accepts *)
Definition opt_ser_ok (o : ip4opt) : Prop :=
  ot o = 0 \/ ot o = 1 \/ (2 <= ol o /\ zlen (od o) <= ol o - 2).

Lemma zlen_cons (x : Z) l : zlen (x :: l) = 1 + zlen l.
Proof. unfold zlen. cbn [length]. lia. Qed.

Lemma wr_zeros k vs : zlen vs <= k ->
  cd_wr (repeat 0 (Z.to_nat k)) 0 vs = vs ++ repeat 0 (Z.to_nat (k - zlen vs)).
Proof.
  intros H. unfold cd_wr. change (Z.to_nat 0) with 0%nat.
  replace (Z.to_nat k) with (length vs + Z.to_nat (k - zlen vs))%nat by (unfold zlen in *; lia).
  rewrite repeat_app. apply upd_range_prefix. apply repeat_length.
Qed.

Lemma enc_opt_len o : opt_typed o -> opt_ser_ok o -> zlen (enc_opt o) = opt_size1 o.
Proof.
  intros [Ht Hl] Hs. unfold enc_opt, opt_size1.
  destruct (ot o =? 0) eqn:E0; [reflexivity|]. destruct (ot o =? 1) eqn:E1; [reflexivity|]. cbn [orb].
  destruct Hs as [Hs|[Hs|[H2 Hd]]]; try lia.
  rewrite zlen_app, zlen_app, zlen_repeat. unfold zlen at 1. cbn [length]. pose proof (zlen_nonneg (od o)). lia.
Qed.

Lemma ser_opts_zeros : forall opts k, Forall opt_typed opts -> Forall opt_ser_ok opts -> opt_sum opts <= k ->
  ip4_ser_opts true opts (repeat 0 (Z.to_nat k)) 0 = Ok (enc_opts opts ++ repeat 0 (Z.to_nat (k - opt_sum opts))).
Proof.
  induction opts as [|o t IH]; intros k Ht Hs Hk; cbn [ip4_ser_opts enc_opts map concat opt_sum app].
  { rewrite Z.sub_0_r. reflexivity. }
  inversion Ht as [|? ? Ho Ht']; subst. inversion Hs as [|? ? So Hs']; subst.
  pose proof (opt_sum_nonneg t Ht') as Hn. pose proof (enc_opt_len o Ho So) as Hlen.
  cbn [opt_sum] in Hk. fold (enc_opts t).
  unfold enc_opt in *. unfold opt_size1 in *.
  destruct (ot o =? 0) eqn:E0.
  { cbn [orb] in *. rewrite cd_wrc_ok by (rewrite ?zlen1, ?zlen_repeat; lia). cbn [obind].
    rewrite wr_zeros by (rewrite zlen1; lia). rewrite zlen1.
    rewrite (ser_opts_app true t [0] (repeat 0 (Z.to_nat (k - 1))) (0 + 1)) by (rewrite zlen1; lia).
    rewrite zlen1. replace (0 + 1 - 1) with 0 by lia. rewrite IH by (auto; lia). cbn [omap app].
    replace (k - 1 - opt_sum t) with (k - (1 + opt_sum t)) by lia. reflexivity. }
  destruct (ot o =? 1) eqn:E1.
  { cbn [orb] in *. rewrite cd_wrc_ok by (rewrite ?zlen1, ?zlen_repeat; lia). cbn [obind].
    rewrite wr_zeros by (rewrite zlen1; lia). rewrite zlen1.
    rewrite (ser_opts_app true t [1] (repeat 0 (Z.to_nat (k - 1))) (0 + 1)) by (rewrite zlen1; lia).
    rewrite zlen1. replace (0 + 1 - 1) with 0 by lia. rewrite IH by (auto; lia). cbn [omap app].
    replace (k - 1 - opt_sum t) with (k - (1 + opt_sum t)) by lia. reflexivity. }
  cbn [orb andb] in *. destruct So as [So|[So|[S2 Sd]]]; try lia.
  destruct (ol o <? 2) eqn:E2; [lia|].
  pose proof (zlen_nonneg (od o)) as Hd0.
  rewrite cd_wrc_ok by (rewrite ?zlen1, ?zlen_repeat; lia). cbn [obind].
  rewrite wr_zeros by (rewrite zlen1; lia). rewrite zlen1.
  rewrite cd_wrc_ok by (rewrite ?zlen_app, ?zlen1, ?zlen_repeat; lia). cbn [obind].
  rewrite (cd_wr_app_r [ot o] (repeat 0 (Z.to_nat (k - 1))) (0 + 1) [ol o]) by (rewrite zlen1; lia).
  rewrite zlen1. replace (0 + 1 - 1) with 0 by lia. rewrite wr_zeros by (rewrite zlen1; lia). rewrite zlen1.
  destruct (zlen (od o) >? ol o - 2) eqn:E3; [lia|].
  rewrite !zlen_app, !zlen1, zlen_repeat.
  destruct (0 + ol o <=? 1 + (1 + Z.of_nat (Z.to_nat (k - 1 - 1)))) eqn:E4; [|lia].
  change ([ot o] ++ [ol o] ++ repeat 0 (Z.to_nat (k - 1 - 1))) with ([ot o; ol o] ++ repeat 0 (Z.to_nat (k - 1 - 1))).
  rewrite (cd_wr_app_r [ot o; ol o] (repeat 0 (Z.to_nat (k - 1 - 1))) (0 + 2) (od o)) by (unfold zlen; cbn [length]; lia).
  replace (0 + 2 - zlen [ot o; ol o]) with 0 by (unfold zlen; cbn [length]; lia).
  rewrite wr_zeros by lia.
  (* split the remaining zeros: the rest of this option, then the area of the others *)
  replace (Z.to_nat (k - 1 - 1 - zlen (od o))) with (Z.to_nat (ol o - 2 - zlen (od o)) + Z.to_nat (k - ol o))%nat by lia.
  rewrite repeat_app.
  replace ([ot o; ol o] ++ od o ++ repeat 0 (Z.to_nat (ol o - 2 - zlen (od o))) ++ repeat 0 (Z.to_nat (k - ol o)))
    with (([ot o; ol o] ++ od o ++ repeat 0 (Z.to_nat (ol o - 2 - zlen (od o)))) ++ repeat 0 (Z.to_nat (k - ol o)))
    by (rewrite <- !app_assoc; reflexivity).
  rewrite ser_opts_app by (rewrite Hlen; lia). rewrite Hlen. replace (0 + ol o - ol o) with 0 by lia.
  rewrite IH by (auto; lia). cbn [omap].
  replace (k - ol o - opt_sum t) with (k - (ol o + opt_sum t)) by lia.
  rewrite <- !app_assoc. reflexivity.
Qed.

(* ------------------------------------------------------------------ parsing the encoded options *)
Lemma parse_fuel_indep : forall f1 f2 hd, (length hd < f1)%nat -> (length hd < f2)%nat ->
  ip4_parse_opts f1 hd = ip4_parse_opts f2 hd.
Proof.
  induction f1 as [|f1 IH]; intros f2 hd H1 H2; [lia|]. destruct f2 as [|f2]; [lia|].
  cbn [ip4_parse_opts]. destruct hd as [|t rest]; [reflexivity|].
  destruct (t =? 0); [reflexivity|].
  destruct (t =? 1); [f_equal; apply IH; cbn [length] in *; lia|].
  destruct rest as [|len r]; [reflexivity|].
  destruct (zlen (t :: len :: r) <? len) eqn:A; [reflexivity|].
  destruct (len <=? 2) eqn:B; [reflexivity|].
  rewrite (cd_slc_ok (t :: len :: r) 2 len) by lia.
  rewrite (cd_slc_ok (t :: len :: r) len (zlen (t :: len :: r))) by lia.
  f_equal. apply IH; unfold zlen in *; rewrite Nat2Z.id; rewrite slice_full_length by lia; cbn [length] in *; lia.
Qed.

(* options that survive a round trip unchanged (end-of-options is handled apart: it ends the loop) *)
Definition opt_rt_ok (o : ip4opt) : Prop :=
  (ot o = 1 /\ ol o = 1 /\ od o = []) \/
  (2 <= ot o < 256 /\ 3 <= ol o < 256 /\ zlen (od o) = ol o - 2).

Definition op_prepend (body : list ip4opt) (r : optparse) : optparse :=
  mkOP (body ++ op_opts r) (op_pad r) (op_out r) (op_tr r).

Lemma slice_mid (a b c : list Z) : slice (a ++ b ++ c) (length a) (length a + length b) = b.
Proof.
  unfold slice. rewrite app_assoc. rewrite <- app_length. rewrite firstn_app.
  rewrite Nat.sub_diag. cbn [firstn]. rewrite app_nil_r. rewrite firstn_all.
  rewrite skipn_app. rewrite skipn_all. rewrite Nat.sub_diag. reflexivity.
Qed.

Lemma slice_tail (a c : list Z) : slice (a ++ c) (length a) (length (a ++ c)) = c.
Proof.
  unfold slice. rewrite firstn_all. rewrite skipn_app. rewrite skipn_all, Nat.sub_diag. reflexivity.
Qed.

Lemma parse_body : forall body rest f f', Forall opt_rt_ok body ->
  (length (enc_opts body ++ rest) < f)%nat -> (length rest < f')%nat ->
  ip4_parse_opts f (enc_opts body ++ rest) = op_prepend body (ip4_parse_opts f' rest).
Proof.
  induction body as [|o t IH]; intros rest f f' Hb Hf Hf'.
  { cbn [enc_opts map concat app] in *. unfold op_prepend. cbn [app].
    rewrite (parse_fuel_indep f f' rest Hf Hf'). destruct (ip4_parse_opts f' rest); reflexivity. }
  inversion Hb as [|? ? Ho Ht]; subst.
  cbn [enc_opts map concat] in *. fold (enc_opts t) in *. rewrite <- app_assoc in *.
  destruct f as [|f]; [lia|]. destruct o as [t0 l0 d0]. unfold opt_rt_ok in Ho. cbn [ot ol od] in Ho.
  unfold enc_opt in *. cbn [ot ol od] in *.
  destruct Ho as [[E1 [E2 E3]]|[Ht0 [Hl0 Hd0]]].
  - subst t0 l0 d0. cbn [Z.eqb Pos.eqb app] in *. cbn [ip4_parse_opts Z.eqb Pos.eqb].
    rewrite (IH rest f f' Ht) by (cbn [length] in Hf; lia || assumption).
    unfold op_prepend, op_cons. cbn [op_opts op_pad op_out op_tr app]. reflexivity.
  - assert (T0 : (t0 =? 0) = false) by lia. assert (T1 : (t0 =? 1) = false) by lia.
    rewrite T0, T1 in *.
    replace (Z.to_nat (l0 - 2 - zlen d0)) with 0%nat in * by lia. cbn [repeat] in *. rewrite app_nil_r in *.
    cbn [app] in *. cbn [ip4_parse_opts]. rewrite T0, T1.
    set (hd := t0 :: l0 :: d0 ++ enc_opts t ++ rest) in *.
    assert (Hz : zlen hd = l0 + zlen (enc_opts t ++ rest)).
    { unfold hd. rewrite !zlen_cons, zlen_app. lia. }
    pose proof (zlen_nonneg (enc_opts t ++ rest)) as Hnn.
    destruct (zlen hd <? l0) eqn:A; [lia|].
    destruct (l0 <=? 2) eqn:B; [lia|].
    rewrite (cd_slc_ok hd 2 l0) by lia. rewrite (cd_slc_ok hd l0 (zlen hd)) by lia.
    assert (S1 : slice hd (Z.to_nat 2) (Z.to_nat l0) = d0).
    { unfold hd. change (t0 :: l0 :: d0 ++ enc_opts t ++ rest) with ([t0; l0] ++ d0 ++ (enc_opts t ++ rest)).
      replace (Z.to_nat l0) with (length [t0; l0] + length d0)%nat by (unfold zlen in Hd0; cbn [length]; lia).
      change (Z.to_nat 2) with (length [t0; l0]). apply slice_mid. }
    assert (S2 : slice hd (Z.to_nat l0) (Z.to_nat (zlen hd)) = enc_opts t ++ rest).
    { unfold hd. change (t0 :: l0 :: d0 ++ enc_opts t ++ rest) with ((t0 :: l0 :: d0) ++ (enc_opts t ++ rest)).
      replace (Z.to_nat l0) with (length (t0 :: l0 :: d0)) by (unfold zlen in Hd0; cbn [length]; lia).
      unfold zlen. rewrite Nat2Z.id. apply slice_tail. }
    rewrite S1, S2.
    rewrite (IH rest f f' Ht) by (try assumption; unfold hd in Hf; cbn [length] in Hf; rewrite app_length in Hf; lia).
    unfold op_prepend, op_cons. cbn [op_opts op_pad op_out op_tr app]. reflexivity.
Qed.

(* ------------------------------------------------------------------ well-formed layers *)
Definition eol : ip4opt := mkOpt 0 1 [].

(* end-of-options only as the last option; without it the options fill whole 32 bit words *)
Definition ip4_opts_wf (opts : list ip4opt) : Prop :=
  exists body, Forall opt_rt_ok body /\
    ((opts = body /\ opt_sum body mod 4 = 0) \/ opts = body ++ [eol]).

Definition ip4_wf (l : ip4) : Prop :=
  0 <= i4_version l < 16 /\ 0 <= i4_tos l < 256 /\ 0 <= i4_id l < 65536 /\ 0 <= i4_flags l < 8 /\
  0 <= i4_frag l < 8192 /\ 0 <= i4_ttl l < 256 /\ 0 <= i4_proto l < 256 /\
  zlen (i4_src l) = 4 /\ zlen (i4_dst l) = 4 /\
  ip4_opts_wf (i4_opts l) /\ opt_sum (i4_opts l) <= 40.

Lemma rt_ok_typed o : opt_rt_ok o -> opt_typed o /\ opt_ser_ok o.
Proof.
  unfold opt_rt_ok, opt_typed, opt_ser_ok. intros [[A [B C]]|[A [B C]]].
  - rewrite A, B, C. repeat split; lia.
  - repeat split; lia.
Qed.

Lemma opts_wf_typed opts : ip4_opts_wf opts -> Forall opt_typed opts /\ Forall opt_ser_ok opts.
Proof.
  intros [body [Hb Hc]].
  assert (Tb : Forall opt_typed body /\ Forall opt_ser_ok body).
  { split; eapply Forall_impl; try exact Hb; intros o Ho; apply (rt_ok_typed o Ho). }
  destruct Hc as [[E _]|E]; subst opts; [exact Tb|].
  destruct Tb as [T1 T2]. split; apply Forall_app; split; auto; repeat constructor; cbn; try lia.
Qed.

Lemma opt_sum_app a b : opt_sum (a ++ b) = opt_sum a + opt_sum b.
Proof. induction a as [|o t IH]; cbn [app opt_sum]; [lia|]. rewrite IH. lia. Qed.

Lemma enc_opts_app a b : enc_opts (a ++ b) = enc_opts a ++ enc_opts b.
Proof. unfold enc_opts. rewrite map_app, concat_app. reflexivity. Qed.

Lemma enc_opts_len opts : Forall opt_typed opts -> Forall opt_ser_ok opts -> zlen (enc_opts opts) = opt_sum opts.
Proof.
  induction opts as [|o t IH]; intros Ht Hs; [reflexivity|].
  inversion Ht; inversion Hs; subst. cbn [enc_opts map concat opt_sum]. fold (enc_opts t).
  rewrite zlen_app, IH, enc_opt_len by assumption. reflexivity.
Qed.

(* the options area written by SerializeTo parses back to the options, with zero padding *)
Lemma parse_area opts k : ip4_opts_wf opts -> opt_sum opts <= k -> k < opt_sum opts + 4 -> k mod 4 = 0 ->
  let area := enc_opts opts ++ repeat 0 (Z.to_nat (k - opt_sum opts)) in
  let r := ip4_parse_opts (S (length area)) area in
  op_opts r = opts /\ op_out r = Ok tt /\ op_tr r = false /\
  match op_pad r with Some p => p | None => [] end = repeat 0 (Z.to_nat (k - opt_sum opts)).
Proof.
  intros [body [Hb Hc]] Hk1 Hk2 Hk3. cbv zeta.
  destruct Hc as [[E Hm]|E]; subst opts.
  - replace (Z.to_nat (k - opt_sum body)) with 0%nat by lia. cbn [repeat].
    rewrite (parse_body body [] _ 1%nat Hb) by (cbn [length]; lia).
    cbn. rewrite app_nil_r. repeat split; reflexivity.
  - rewrite enc_opts_app, opt_sum_app in *. cbn [enc_opts map concat enc_opt ot eol Z.eqb app opt_sum opt_size1 orb] in *.
    rewrite <- app_assoc. cbn [app].
    set (z := repeat 0 (Z.to_nat (k - (opt_sum body + (1 + 0))))).
    rewrite (parse_body body (0 :: z) _ (S (length (0 :: z))) Hb) by lia.
    cbn [ip4_parse_opts Z.eqb op_prepend op_opts op_pad op_out op_tr]. repeat split; reflexivity.
Qed.

(* ------------------------------------------------------------------ serialization of a well-formed layer *)
Lemma to4_len4 a : zlen a = 4 -> ip4_to4 a = Some a.
Proof. intros H. unfold ip4_to4. rewrite H. reflexivity. Qed.

Definition ip4_area (l : ip4) : list Z :=
  enc_opts (i4_opts l) ++ repeat 0 (Z.to_nat (ip4_opt_size (i4_opts l) - opt_sum (i4_opts l))).

Definition ip4_fixed (l : ip4) (payload : list Z) : ip4 :=
  ip4_fix_lengths l (ip4_opt_size (i4_opts l)) (20 + ip4_opt_size (i4_opts l) + zlen payload).

Definition ip4_ck (l : ip4) (payload : list Z) : Z :=
  cd_fold (cd_csum (ip4_hdr (ip4_fixed l payload) (i4_src l) (i4_dst l) 0 ++ ip4_area l) 0).

Lemma ip4_serialize_wf l payload junk : ip4_wf l ->
  ip4_serialize l payload true true junk =
  (Ok (ip4_hdr (ip4_fixed l payload) (i4_src l) (i4_dst l) (ip4_ck l payload) ++ ip4_area l ++ payload),
   set_csum (set_addrs (ip4_fixed l payload) (i4_src l) (i4_dst l)) (ip4_ck l payload)).
Proof.
  intros [_ [_ [_ [_ [_ [_ [_ [Hs [Hd [Ho Hsum]]]]]]]]]].
  rewrite serialize_spec. unfold ip4_ser_full_spec. rewrite total_sum.
  destruct (opts_wf_typed _ Ho) as [Ht Hk]. pose proof (opt_sum_nonneg _ Ht) as Hn.
  destruct (opt_sum (i4_opts l) >? 40) eqn:E; [lia|]. cbv zeta.
  fold (ip4_fixed l payload). unfold ip4_ser_spec.
  change (i4_src (ip4_fixed l payload)) with (i4_src l). change (i4_dst (ip4_fixed l payload)) with (i4_dst l).
  change (i4_opts (ip4_fixed l payload)) with (i4_opts l).
  rewrite (to4_len4 _ Hs), (to4_len4 _ Hd).
  pose proof (opt_size_small (i4_opts l) ltac:(lia)) as [S1 [S2 S3]].
  rewrite ser_opts_zeros by (auto; lia). cbv zeta. reflexivity.
Qed.

(* ------------------------------------------------------------------ decoding what was serialized *)
Lemma ip4_area_len l : ip4_wf l -> zlen (ip4_area l) = ip4_opt_size (i4_opts l).
Proof.
  intros [_ [_ [_ [_ [_ [_ [_ [Hs [Hd [Ho Hsum]]]]]]]]]]. destruct (opts_wf_typed _ Ho) as [Ht Hk].
  pose proof (opt_sum_nonneg _ Ht) as Hn. pose proof (opt_size_small (i4_opts l) ltac:(lia)) as [S1 [S2 S3]].
  unfold ip4_area. rewrite zlen_app, zlen_repeat, enc_opts_len by assumption. lia.
Qed.

Lemma ip4_decode_built l payload old :
  ip4_wf l -> 20 + ip4_opt_size (i4_opts l) + zlen payload <= 65535 ->
  let l1 := ip4_fixed l payload in
  let ck := ip4_ck l payload in
  let hdr := ip4_hdr l1 (i4_src l) (i4_dst l) ck in
  ip4_decode_into old (hdr ++ ip4_area l ++ payload) =
  (mkIp4 (hdr ++ ip4_area l) payload (i4_version l) (i4_ihl l1) (i4_tos l) (i4_length l1) (i4_id l)
         (i4_flags l) (i4_frag l) (i4_ttl l) (i4_proto l) ck (i4_src l) (i4_dst l) (i4_opts l)
         (repeat 0 (Z.to_nat (ip4_opt_size (i4_opts l) - opt_sum (i4_opts l)))), Ok tt, false).
Proof.
  intros Hwf Htot. pose proof (ip4_area_len l Hwf) as Hal.
  destruct Hwf as [Hv [Htos [Hid [Hfl [Hfo [Httl [Hpr [Hs [Hd [Ho Hsum]]]]]]]]]].
  destruct (opts_wf_typed _ Ho) as [Ht Hk]. pose proof (opt_sum_nonneg _ Ht) as Hn.
  pose proof (opt_size_small (i4_opts l) ltac:(lia)) as [S1 [S2 S3]].
  set (optlen := ip4_opt_size (i4_opts l)) in *.
  assert (Hp0 : 0 <= zlen payload) by (unfold zlen; lia).
  cbv zeta.
  assert (Hck : 0 <= ip4_ck l payload < 65536) by (unfold ip4_ck; apply cd_fold_range; apply cd_csum_range; lia).
  set (ck := ip4_ck l payload) in *.
  assert (Eihl : i4_ihl (ip4_fixed l payload) = 5 + optlen / 4).
  { unfold ip4_fixed, ip4_fix_lengths. cbn [i4_ihl set_len_ihl]. fold optlen. lia. }
  assert (Elen : i4_length (ip4_fixed l payload) = 20 + optlen + zlen payload).
  { unfold ip4_fixed, ip4_fix_lengths. cbn [i4_length set_len_ihl]. fold optlen. lia. }
  destruct (list4 (i4_src l) ltac:(unfold zlen in Hs; lia)) as [s0 [s1 [s2 [s3 Es]]]].
  destruct (list4 (i4_dst l) ltac:(unfold zlen in Hd; lia)) as [d0 [d1 [d2 [d3 Ed]]]].
  unfold ip4_hdr.
  change (i4_version (ip4_fixed l payload)) with (i4_version l). change (i4_tos (ip4_fixed l payload)) with (i4_tos l).
  change (i4_id (ip4_fixed l payload)) with (i4_id l). change (i4_flags (ip4_fixed l payload)) with (i4_flags l).
  change (i4_frag (ip4_fixed l payload)) with (i4_frag l). change (i4_ttl (ip4_fixed l payload)) with (i4_ttl l).
  change (i4_proto (ip4_fixed l payload)) with (i4_proto l).
  rewrite Eihl, Elen.
  rewrite (Z.mod_small (i4_version l * 16) 256) by lia.
  rewrite (Z.mod_small (i4_flags l * 8192) 65536) by lia.
  assert (E0 : Z.lor (i4_version l * 16) (5 + optlen / 4) = i4_version l * 16 + (5 + optlen / 4)).
  { change 16 with (2 ^ 4). apply cd_lor_disjoint; [lia|]. change (2 ^ 4) with 16. lia. }
  assert (EF : Z.lor (i4_flags l * 8192) (i4_frag l) = i4_flags l * 8192 + i4_frag l).
  { change 8192 with (2 ^ 13). apply cd_lor_disjoint; [lia|]. change (2 ^ 13) with 8192. lia. }
  rewrite E0, EF.
  set (b0 := i4_version l * 16 + (5 + optlen / 4)).
  set (ff := i4_flags l * 8192 + i4_frag l).
  set (tot := 20 + optlen + zlen payload).
  rewrite Es, Ed. cbn [cd_put16 app].
  match goal with |- ip4_decode_into old ?d = _ => set (data := d) end.
  assert (Hdl : zlen data = tot) by (unfold data, tot; rewrite !zlen_cons, zlen_app, Hal; lia).
  assert (N2 : nth (Z.to_nat 2) data 0 * 256 + nth (Z.to_nat (2 + 1)) data 0 = tot)
    by (change (Z.to_nat 2) with 2%nat; change (Z.to_nat (2 + 1)) with 3%nat; unfold data; cbn [nth]; apply cd_put16_be; lia).
  assert (N4 : nth (Z.to_nat 4) data 0 * 256 + nth (Z.to_nat (4 + 1)) data 0 = i4_id l)
    by (change (Z.to_nat 4) with 4%nat; change (Z.to_nat (4 + 1)) with 5%nat; unfold data; cbn [nth]; apply cd_put16_be; lia).
  assert (N6 : nth (Z.to_nat 6) data 0 * 256 + nth (Z.to_nat (6 + 1)) data 0 = ff)
    by (change (Z.to_nat 6) with 6%nat; change (Z.to_nat (6 + 1)) with 7%nat; unfold data; cbn [nth]; apply cd_put16_be; unfold ff; lia).
  assert (N10 : nth (Z.to_nat 10) data 0 * 256 + nth (Z.to_nat (10 + 1)) data 0 = ck)
    by (change (Z.to_nat 10) with 10%nat; change (Z.to_nat (10 + 1)) with 11%nat; unfold data; cbn [nth]; apply cd_put16_be; lia).
  assert (N0 : nth (Z.to_nat 0) data 0 = b0) by reflexivity.
  assert (N1 : nth (Z.to_nat 1) data 0 = i4_tos l) by reflexivity.
  assert (N8 : nth (Z.to_nat 8) data 0 = i4_ttl l) by reflexivity.
  assert (N9 : nth (Z.to_nat 9) data 0 = i4_proto l) by reflexivity.
  assert (Eb0 : b0 mod 16 = 5 + optlen / 4) by (unfold b0; lia).
  assert (Eb1 : b0 / 16 = i4_version l) by (unfold b0; lia).
  assert (Ef1 : ff / 8192 = i4_flags l) by (unfold ff; lia).
  assert (Ef2 : ff mod 8192 = i4_frag l) by (unfold ff; lia).
  assert (Eh : (5 + optlen / 4) * 4 = 20 + optlen) by lia.
  set (H20 := firstn 20 data).
  assert (Ed3 : data = H20 ++ ip4_area l ++ payload) by reflexivity.
  assert (LH : length H20 = 20%nat) by reflexivity.
  assert (Sc : slice data (Z.to_nat 0) (Z.to_nat (20 + optlen)) = H20 ++ ip4_area l).
  { rewrite Ed3. unfold slice. change (Z.to_nat 0) with 0%nat. cbn [skipn]. rewrite app_assoc.
    replace (Z.to_nat (20 + optlen)) with (length (H20 ++ ip4_area l) + 0)%nat by (rewrite app_length, LH; unfold zlen in Hal; lia).
    rewrite firstn_app_2. cbn [firstn]. apply app_nil_r. }
  assert (Sp : slice data (Z.to_nat (20 + optlen)) (Z.to_nat (zlen data)) = payload).
  { replace (Z.to_nat (zlen data)) with (length data) by (unfold zlen; lia). rewrite Ed3. rewrite app_assoc.
    replace (Z.to_nat (20 + optlen)) with (length (H20 ++ ip4_area l)) by (rewrite app_length, LH; unfold zlen in Hal; lia).
    apply slice_tail. }
  assert (So : slice data (Z.to_nat 20) (Z.to_nat (20 + optlen)) = ip4_area l).
  { rewrite Ed3. change (Z.to_nat 20) with (length H20).
    replace (Z.to_nat (20 + optlen)) with (length H20 + length (ip4_area l))%nat by (rewrite LH; unfold zlen in Hal; lia).
    apply slice_mid. }
  assert (Ss : slice data (Z.to_nat 12) (Z.to_nat 16) = [s0;s1;s2;s3]) by reflexivity.
  assert (Sd : slice data (Z.to_nat 16) (Z.to_nat 20) = [d0;d1;d2;d3]) by reflexivity.
  pose proof (parse_area (i4_opts l) optlen Ho (proj1 S1) S3 S2) as PA. cbv zeta in PA.
  change (enc_opts (i4_opts l) ++ repeat 0 (Z.to_nat (optlen - opt_sum (i4_opts l)))) with (ip4_area l) in PA.
  destruct PA as [P1 [P2 [P3 P4]]].
  match goal with |- _ = (mkIp4 ?c _ _ _ _ _ _ _ _ _ _ _ _ _ _ _, _, _) => assert (EC : H20 ++ ip4_area l = c) by reflexivity end.
  clearbody data H20.
  unfold ip4_decode_into, ip4_decode_gen. cbv zeta. rewrite Hdl.
  destruct (tot <? 20) eqn:T20; [lia|].
  rewrite (cd_rd16_ok data 2), (cd_idx_ok data 0) by lia. cbn [dbind].
  rewrite N2, N0, Eb0, Eh.
  destruct (tot =? 0) eqn:T0; [lia|]. rewrite T20.
  destruct (5 + optlen / 4 <? 5) eqn:T5; [lia|].
  rewrite (Z.mod_small (20 + optlen) 256) by lia.
  destruct (20 + optlen >? tot) eqn:Tg; [unfold tot in Tg; lia|].
  replace (tot - tot) with 0 by lia. cbn [Z.gtb Z.ltb Z.compare andb orb dbind].
  rewrite (cd_slc_ok data 0 (20 + optlen)), (cd_slc_ok data (20 + optlen) (zlen data)), (cd_slc_ok data 20 (20 + optlen)) by (unfold tot in *; lia).
  cbn [dbind]. rewrite Sc, Sp, So.
  rewrite P2. cbn [i4_padding set_cp set_opts_pad]. rewrite P1, P3, P4.
  rewrite !cd_rd16_ok by lia. rewrite !cd_idx_ok by lia.
  rewrite (cd_slc_ok data 12 16), (cd_slc_ok data 16 20) by lia. cbn [dbind orb].
  rewrite N6, N0, N1, N4, N8, N9, N10, Ss, Sd, Eb1, Ef1, Ef2, EC. reflexivity.
Qed.

Lemma ip4_hdr_len l s d ck : zlen s = 4 -> zlen d = 4 -> zlen (ip4_hdr l s d ck) = 20.
Proof. intros H1 H2. unfold ip4_hdr. rewrite !zlen_app, !zlen_put16, H1, H2. reflexivity. Qed.

(* the layer read back is the layer as SerializeTo left it, with Contents/Payload set and Padding
   normalised to the zero padding of the options area *)
Definition ip4_readback (l' : ip4) (l : ip4) (payload : list Z) : ip4 :=
  set_cp (set_opts_pad l' (i4_opts l) (repeat 0 (Z.to_nat (ip4_opt_size (i4_opts l) - opt_sum (i4_opts l)))))
         (ip4_hdr l' (i4_src l) (i4_dst l) (i4_csum l') ++ ip4_area l) payload.

Lemma ip4_roundtrip l payload junk old :
  ip4_wf l -> 20 + ip4_opt_size (i4_opts l) + zlen payload <= 65535 ->
  exists bytes l', ip4_serialize l payload true true junk = (Ok bytes, l') /\
    bytes = ip4_hdr l' (i4_src l) (i4_dst l) (i4_csum l') ++ ip4_area l ++ payload /\
    i4_ihl l' = 5 + ip4_opt_size (i4_opts l) / 4 /\ i4_length l' = zlen bytes /\
    l' = set_csum (ip4_fixed l payload) (i4_csum l') /\
    ip4_decode_into old bytes = (ip4_readback l' l payload, Ok tt, false).
Proof.
  intros Hwf Htot. eexists; eexists. split; [apply ip4_serialize_wf; exact Hwf|].
  pose proof (ip4_decode_built l payload old Hwf Htot) as D. cbv zeta in D.
  pose proof (ip4_area_len l Hwf) as Hal.
  destruct Hwf as [Hv [Htos [Hid [Hfl [Hfo [Httl [Hpr [Hs [Hd [Ho Hsum]]]]]]]]]].
  destruct (opts_wf_typed _ Ho) as [Ht Hk]. pose proof (opt_sum_nonneg _ Ht) as Hn.
  pose proof (opt_size_small (i4_opts l) ltac:(lia)) as [S1 [S2 S3]].
  assert (Hp0 : 0 <= zlen payload) by (unfold zlen; lia).
  split; [reflexivity|]. split.
  { unfold ip4_fixed, ip4_fix_lengths. cbn [i4_ihl set_csum set_addrs set_len_ihl]. lia. }
  split.
  { unfold ip4_fixed, ip4_fix_lengths. cbn [i4_length set_csum set_addrs set_len_ihl].
    rewrite !zlen_app, Hal, (ip4_hdr_len _ _ _ _ Hs Hd). lia. }
  split.
  { destruct l; cbn in *. reflexivity. }
  exact D.
Qed.

(* SerializeTo with FixLengths and ComputeChecksums reads only these fields *)
Definition ip4_same_wire_fields (a b : ip4) : Prop :=
  i4_version a = i4_version b /\ i4_tos a = i4_tos b /\ i4_id a = i4_id b /\ i4_flags a = i4_flags b /\
  i4_frag a = i4_frag b /\ i4_ttl a = i4_ttl b /\ i4_proto a = i4_proto b /\
  i4_src a = i4_src b /\ i4_dst a = i4_dst b /\ i4_opts a = i4_opts b.

Lemma ip4_ser_fields a b payload j1 j2 : ip4_same_wire_fields a b ->
  fst (ip4_serialize a payload true true j1) = fst (ip4_serialize b payload true true j2).
Proof.
  intros [E1 [E2 [E3 [E4 [E5 [E6 [E7 [E8 [E9 E10]]]]]]]]].
  rewrite !serialize_spec. unfold ip4_ser_full_spec, ip4_ser_spec, ip4_hdr, ip4_fix_lengths. cbv zeta.
  cbn [i4_version i4_ihl i4_tos i4_length i4_id i4_flags i4_frag i4_ttl i4_proto i4_src i4_dst i4_opts set_len_ihl].
  rewrite E1, E2, E3, E4, E5, E6, E7, E8, E9, E10.
  destruct (ip4_opt_total (i4_opts b) >? 40); [reflexivity|].
  destruct (ip4_to4 (i4_src b)); [|reflexivity]. destruct (ip4_to4 (i4_dst b)); [|reflexivity].
  destruct (ip4_ser_opts true (i4_opts b) _ 0); reflexivity.
Qed.

Lemma ip4_fixpoint l payload junk junk' bytes l' :
  ip4_wf l -> 20 + ip4_opt_size (i4_opts l) + zlen payload <= 65535 ->
  ip4_serialize l payload true true junk = (Ok bytes, l') ->
  fst (ip4_serialize (ip4_readback l' l payload) payload true true junk') = Ok bytes.
Proof.
  intros Hwf Htot H.
  rewrite (ip4_ser_fields (ip4_readback l' l payload) l payload junk' junk); [rewrite H; reflexivity|].
  rewrite (ip4_serialize_wf l payload junk Hwf) in H. inversion H; subst l'.
  unfold ip4_same_wire_fields, ip4_readback, ip4_fixed, ip4_fix_lengths. cbn. repeat split; reflexivity.
Qed.
