(* IPv4 round trip (C06): serialize with FixLengths+ComputeChecksums, then decode. *)
From GP Require Import Base ListX Codec CodecBits Lip4Model Lip4Proofs.
From Coq Require Import Lia ZifyBool ZifyNat.
Open Scope Z_scope.
Ltac Zify.zify_post_hook ::= Z.div_mod_to_equations.

(* ------------------------------------------------------------------ the options area as a list *)
Definition enc_opt (o : ip4opt) : list Z :=
  if ot o =? 0 then [0] else if ot o =? 1 then [1]
  else [ot o; ol o] ++ od o ++ repeat 0 (Z.to_nat (ol o - 2 - zlen (od o))).

Definition enc_opts (opts : list ip4opt) : list Z := concat (map enc_opt opts).

(* an option SerializeTo accepts *)
Definition opt_ser_ok (o : ip4opt) : Prop :=
  ot o = 0 \/ ot o = 1 \/ (2 <= ol o /\ zlen (od o) <= ol o - 2).

Lemma zlen_cons (x : Z) l : zlen (x :: l) = 1 + zlen l.
Proof. unfold zlen. cbn [length]. lia. Qed.

Lemma wr_zeros k vs : zlen vs <= k ->
  cd_wr (repeat 0 (Z.to_nat k)) 0 vs = vs ++ repeat 0 (Z.to_nat (k - zlen vs)).
Proof.
  intros H. unfold cd_wr. change (Z.to_nat 0) with 0%nat.
  replace (Z.to_nat k) with (length vs + Z.to_nat (k - zlen vs))%nat by (unfold zlen in *; lia).
  rewrite repeat_app. apply upd_range_prefix. apply repeat_length.
Qed.

Lemma enc_opt_len o : opt_typed o -> opt_ser_ok o -> zlen (enc_opt o) = opt_size1 o.
Proof.
  intros [Ht Hl] Hs. unfold enc_opt, opt_size1.
  destruct (ot o =? 0) eqn:E0; [reflexivity|]. destruct (ot o =? 1) eqn:E1; [reflexivity|]. cbn [orb].
  destruct Hs as [Hs|[Hs|[H2 Hd]]]; try lia.
  rewrite zlen_app, zlen_app, zlen_repeat. unfold zlen at 1. cbn [length]. pose proof (zlen_nonneg (od o)). lia.
Qed.

Lemma ser_opts_zeros : forall opts k, Forall opt_typed opts -> Forall opt_ser_ok opts -> opt_sum opts <= k ->
  ip4_ser_opts true opts (repeat 0 (Z.to_nat k)) 0 = Ok (enc_opts opts ++ repeat 0 (Z.to_nat (k - opt_sum opts))).
Proof.
  induction opts as [|o t IH]; intros k Ht Hs Hk; cbn [ip4_ser_opts enc_opts map concat opt_sum app].
  { rewrite Z.sub_0_r. reflexivity. }
  inversion Ht as [|? ? Ho Ht']; subst. inversion Hs as [|? ? So Hs']; subst.
  pose proof (opt_sum_nonneg t Ht') as Hn. pose proof (enc_opt_len o Ho So) as Hlen.
  cbn [opt_sum] in Hk. fold (enc_opts t).
  unfold enc_opt in *. unfold opt_size1 in *.
  destruct (ot o =? 0) eqn:E0.
  { cbn [orb] in *. rewrite cd_wrc_ok by (rewrite ?zlen1, ?zlen_repeat; lia). cbn [obind].
    rewrite wr_zeros by (rewrite zlen1; lia). rewrite zlen1.
    rewrite (ser_opts_app true t [0] (repeat 0 (Z.to_nat (k - 1))) (0 + 1)) by (rewrite zlen1; lia).
    rewrite zlen1. replace (0 + 1 - 1) with 0 by lia. rewrite IH by (auto; lia). cbn [omap app].
    replace (k - 1 - opt_sum t) with (k - (1 + opt_sum t)) by lia. reflexivity. }
  destruct (ot o =? 1) eqn:E1.
  { cbn [orb] in *. rewrite cd_wrc_ok by (rewrite ?zlen1, ?zlen_repeat; lia). cbn [obind].
    rewrite wr_zeros by (rewrite zlen1; lia). rewrite zlen1.
    rewrite (ser_opts_app true t [1] (repeat 0 (Z.to_nat (k - 1))) (0 + 1)) by (rewrite zlen1; lia).
    rewrite zlen1. replace (0 + 1 - 1) with 0 by lia. rewrite IH by (auto; lia). cbn [omap app].
    replace (k - 1 - opt_sum t) with (k - (1 + opt_sum t)) by lia. reflexivity. }
  cbn [orb andb] in *. destruct So as [So|[So|[S2 Sd]]]; try lia.
  destruct (ol o <? 2) eqn:E2; [lia|].
  pose proof (zlen_nonneg (od o)) as Hd0.
  rewrite cd_wrc_ok by (rewrite ?zlen1, ?zlen_repeat; lia). cbn [obind].
  rewrite wr_zeros by (rewrite zlen1; lia). rewrite zlen1.
  rewrite cd_wrc_ok by (rewrite ?zlen_app, ?zlen1, ?zlen_repeat; lia). cbn [obind].
  rewrite (cd_wr_app_r [ot o] (repeat 0 (Z.to_nat (k - 1))) (0 + 1) [ol o]) by (rewrite zlen1; lia).
  rewrite zlen1. replace (0 + 1 - 1) with 0 by lia. rewrite wr_zeros by (rewrite zlen1; lia). rewrite zlen1.
  destruct (zlen (od o) >? ol o - 2) eqn:E3; [lia|].
  rewrite !zlen_app, !zlen1, zlen_repeat.
  destruct (0 + ol o <=? 1 + (1 + Z.of_nat (Z.to_nat (k - 1 - 1)))) eqn:E4; [|lia].
  change ([ot o] ++ [ol o] ++ repeat 0 (Z.to_nat (k - 1 - 1))) with ([ot o; ol o] ++ repeat 0 (Z.to_nat (k - 1 - 1))).
  rewrite (cd_wr_app_r [ot o; ol o] (repeat 0 (Z.to_nat (k - 1 - 1))) (0 + 2) (od o)) by (unfold zlen; cbn [length]; lia).
  replace (0 + 2 - zlen [ot o; ol o]) with 0 by (unfold zlen; cbn [length]; lia).
  rewrite wr_zeros by lia.
  (* split the remaining zeros: the rest of this option, then the area of the others *)
  replace (Z.to_nat (k - 1 - 1 - zlen (od o))) with (Z.to_nat (ol o - 2 - zlen (od o)) + Z.to_nat (k - ol o))%nat by lia.
  rewrite repeat_app.
  replace ([ot o; ol o] ++ od o ++ repeat 0 (Z.to_nat (ol o - 2 - zlen (od o))) ++ repeat 0 (Z.to_nat (k - ol o)))
    with (([ot o; ol o] ++ od o ++ repeat 0 (Z.to_nat (ol o - 2 - zlen (od o)))) ++ repeat 0 (Z.to_nat (k - ol o)))
    by (rewrite <- !app_assoc; reflexivity).
  rewrite ser_opts_app by (rewrite Hlen; lia). rewrite Hlen. replace (0 + ol o - ol o) with 0 by lia.
  rewrite IH by (auto; lia). cbn [omap].
  replace (k - ol o - opt_sum t) with (k - (ol o + opt_sum t)) by lia.
  rewrite <- !app_assoc. reflexivity.
Qed.

(* ------------------------------------------------------------------ parsing the encoded options *)
Lemma parse_fuel_indep : forall f1 f2 hd, (length hd < f1)%nat -> (length hd < f2)%nat ->
  ip4_parse_opts f1 hd = ip4_parse_opts f2 hd.
Proof.
  induction f1 as [|f1 IH]; intros f2 hd H1 H2; [lia|]. destruct f2 as [|f2]; [lia|].
  cbn [ip4_parse_opts]. destruct hd as [|t rest]; [reflexivity|].
  destruct (t =? 0); [reflexivity|].
  destruct (t =? 1); [f_equal; apply IH; cbn [length] in *; lia|].
  destruct rest as [|len r]; [reflexivity|].
  destruct (zlen (t :: len :: r) <? len) eqn:A; [reflexivity|].
  destruct (len <=? 2) eqn:B; [reflexivity|].
  rewrite (cd_slc_ok (t :: len :: r) 2 len) by lia.
  rewrite (cd_slc_ok (t :: len :: r) len (zlen (t :: len :: r))) by lia.
  f_equal. apply IH; unfold zlen in *; rewrite Nat2Z.id; rewrite slice_full_length by lia; cbn [length] in *; lia.
Qed.

(* options that survive a round trip unchanged (end-of-options is handled apart: it ends the loop) *)
Definition opt_rt_ok (o : ip4opt) : Prop :=
  (ot o = 1 /\ ol o = 1 /\ od o = []) \/
  (2 <= ot o < 256 /\ 3 <= ol o < 256 /\ zlen (od o) = ol o - 2).

Definition op_prepend (body : list ip4opt) (r : optparse) : optparse :=
  mkOP (body ++ op_opts r) (op_pad r) (op_out r) (op_tr r).

Lemma slice_mid (a b c : list Z) : slice (a ++ b ++ c) (length a) (length a + length b) = b.
Proof.
  unfold slice. rewrite app_assoc. rewrite <- app_length. rewrite firstn_app.
  rewrite Nat.sub_diag. cbn [firstn]. rewrite app_nil_r. rewrite firstn_all.
  rewrite skipn_app. rewrite skipn_all. rewrite Nat.sub_diag. reflexivity.
Qed.

Lemma slice_tail (a c : list Z) : slice (a ++ c) (length a) (length (a ++ c)) = c.
Proof.
  unfold slice. rewrite firstn_all. rewrite skipn_app. rewrite skipn_all, Nat.sub_diag. reflexivity.
Qed.

Lemma parse_body : forall body rest f f', Forall opt_rt_ok body ->
  (length (enc_opts body ++ rest) < f)%nat -> (length rest < f')%nat ->
  ip4_parse_opts f (enc_opts body ++ rest) = op_prepend body (ip4_parse_opts f' rest).
Proof.
  induction body as [|o t IH]; intros rest f f' Hb Hf Hf'.
  { cbn [enc_opts map concat app] in *. unfold op_prepend. cbn [app].
    rewrite (parse_fuel_indep f f' rest Hf Hf'). destruct (ip4_parse_opts f' rest); reflexivity. }
  inversion Hb as [|? ? Ho Ht]; subst.
  cbn [enc_opts map concat] in *. fold (enc_opts t) in *. rewrite <- app_assoc in *.
  destruct f as [|f]; [lia|]. destruct o as [t0 l0 d0]. unfold opt_rt_ok in Ho. cbn [ot ol od] in Ho.
  unfold enc_opt in *. cbn [ot ol od] in *.
  destruct Ho as [[E1 [E2 E3]]|[Ht0 [Hl0 Hd0]]].
  - subst t0 l0 d0. cbn [Z.eqb Pos.eqb app] in *. cbn [ip4_parse_opts Z.eqb Pos.eqb].
    rewrite (IH rest f f' Ht) by (cbn [length] in Hf; lia || assumption).
    unfold op_prepend, op_cons. cbn [op_opts op_pad op_out op_tr app]. reflexivity.
  - assert (T0 : (t0 =? 0) = false) by lia. assert (T1 : (t0 =? 1) = false) by lia.
    rewrite T0, T1 in *.
    replace (Z.to_nat (l0 - 2 - zlen d0)) with 0%nat in * by lia. cbn [repeat] in *. rewrite app_nil_r in *.
    cbn [app] in *. cbn [ip4_parse_opts]. rewrite T0, T1.
    set (hd := t0 :: l0 :: d0 ++ enc_opts t ++ rest) in *.
    assert (Hz : zlen hd = l0 + zlen (enc_opts t ++ rest)).
    { unfold hd. rewrite !zlen_cons, zlen_app. lia. }
    pose proof (zlen_nonneg (enc_opts t ++ rest)) as Hnn.
    destruct (zlen hd <? l0) eqn:A; [lia|].
    destruct (l0 <=? 2) eqn:B; [lia|].
    rewrite (cd_slc_ok hd 2 l0) by lia. rewrite (cd_slc_ok hd l0 (zlen hd)) by lia.
    assert (S1 : slice hd (Z.to_nat 2) (Z.to_nat l0) = d0).
    { unfold hd. change (t0 :: l0 :: d0 ++ enc_opts t ++ rest) with ([t0; l0] ++ d0 ++ (enc_opts t ++ rest)).
      replace (Z.to_nat l0) with (length [t0; l0] + length d0)%nat by (unfold zlen in Hd0; cbn [length]; lia).
      change (Z.to_nat 2) with (length [t0; l0]). apply slice_mid. }
    assert (S2 : slice hd (Z.to_nat l0) (Z.to_nat (zlen hd)) = enc_opts t ++ rest).
    { unfold hd. change (t0 :: l0 :: d0 ++ enc_opts t ++ rest) with ((t0 :: l0 :: d0) ++ (enc_opts t ++ rest)).
      replace (Z.to_nat l0) with (length (t0 :: l0 :: d0)) by (unfold zlen in Hd0; cbn [length]; lia).
      unfold zlen. rewrite Nat2Z.id. apply slice_tail. }
    rewrite S1, S2.
    rewrite (IH rest f f' Ht) by (try assumption; unfold hd in Hf; cbn [length] in Hf; rewrite app_length in Hf; lia).
    unfold op_prepend, op_cons. cbn [op_opts op_pad op_out op_tr app]. reflexivity.
Qed.

(* ------------------------------------------------------------------ well-formed layers *)
Definition eol : ip4opt := mkOpt 0 1 [].

(* end-of-options only as the last option; without it the options fill whole 32 bit words *)
Definition ip4_opts_wf (opts : list ip4opt) : Prop :=
  exists body, Forall opt_rt_ok body /\
    ((opts = body /\ opt_sum body mod 4 = 0) \/ opts = body ++ [eol]).

Definition ip4_wf (l : ip4) : Prop :=
  0 <= i4_version l < 16 /\ 0 <= i4_tos l < 256 /\ 0 <= i4_id l < 65536 /\ 0 <= i4_flags l < 8 /\
  0 <= i4_frag l < 8192 /\ 0 <= i4_ttl l < 256 /\ 0 <= i4_proto l < 256 /\
  zlen (i4_src l) = 4 /\ zlen (i4_dst l) = 4 /\
  ip4_opts_wf (i4_opts l) /\ opt_sum (i4_opts l) <= 40.

Lemma rt_ok_typed o : opt_rt_ok o -> opt_typed o /\ opt_ser_ok o.
Proof.
  unfold opt_rt_ok, opt_typed, opt_ser_ok. intros [[A [B C]]|[A [B C]]].
  - rewrite A, B, C. repeat split; lia.
  - repeat split; lia.
Qed.

Lemma opts_wf_typed opts : ip4_opts_wf opts -> Forall opt_typed opts /\ Forall opt_ser_ok opts.
Proof.
  intros [body [Hb Hc]].
  assert (Tb : Forall opt_typed body /\ Forall opt_ser_ok body).
  { split; eapply Forall_impl; try exact Hb; intros o Ho; apply (rt_ok_typed o Ho). }
  destruct Hc as [[E _]|E]; subst opts; [exact Tb|].
  destruct Tb as [T1 T2]. split; apply Forall_app; split; auto; repeat constructor; cbn; try lia.
Qed.

Lemma opt_sum_app a b : opt_sum (a ++ b) = opt_sum a + opt_sum b.
Proof. induction a as [|o t IH]; cbn [app opt_sum]; [lia|]. rewrite IH. lia. Qed.

Lemma enc_opts_app a b : enc_opts (a ++ b) = enc_opts a ++ enc_opts b.
Proof. unfold enc_opts. rewrite map_app, concat_app. reflexivity. Qed.

Lemma enc_opts_len opts : Forall opt_typed opts -> Forall opt_ser_ok opts -> zlen (enc_opts opts) = opt_sum opts.
Proof.
  induction opts as [|o t IH]; intros Ht Hs; [reflexivity|].
  inversion Ht; inversion Hs; subst. cbn [enc_opts map concat opt_sum]. fold (enc_opts t).
  rewrite zlen_app, IH, enc_opt_len by assumption. reflexivity.
Qed.

(* the options area written by SerializeTo parses back to the options, with zero padding *)
Lemma parse_area opts k : ip4_opts_wf opts -> opt_sum opts <= k -> k < opt_sum opts + 4 -> k mod 4 = 0 ->
  let area := enc_opts opts ++ repeat 0 (Z.to_nat (k - opt_sum opts)) in
  let r := ip4_parse_opts (S (length area)) area in
  op_opts r = opts /\ op_out r = Ok tt /\ op_tr r = false /\
  match op_pad r with Some p => p | None => [] end = repeat 0 (Z.to_nat (k - opt_sum opts)).
Proof.
  intros [body [Hb Hc]] Hk1 Hk2 Hk3. cbv zeta.
  destruct Hc as [[E Hm]|E]; subst opts.
  - replace (Z.to_nat (k - opt_sum body)) with 0%nat by lia. cbn [repeat].
    rewrite (parse_body body [] _ 1%nat Hb) by (cbn [length]; lia).
    cbn. rewrite app_nil_r. repeat split; reflexivity.
  - rewrite enc_opts_app, opt_sum_app in *. cbn [enc_opts map concat enc_opt ot eol Z.eqb app opt_sum opt_size1 orb] in *.
    rewrite <- app_assoc. cbn [app].
    set (z := repeat 0 (Z.to_nat (k - (opt_sum body + (1 + 0))))).
    rewrite (parse_body body (0 :: z) _ (S (length (0 :: z))) Hb) by lia.
    cbn [ip4_parse_opts Z.eqb op_prepend op_opts op_pad op_out op_tr]. repeat split; reflexivity.
Qed.
