(* C08 lemmas: the helpers against RFC 1071, pseudo-header sums, emitters against the
   reference, verifiers against the emitters. *)
From GP Require Import Base ListX C08Model.
From Coq Require Import Lia ZifyBool ZifyNat ZifyN.
Open Scope Z_scope.

Ltac Zify.zify_post_hook ::= Z.div_mod_to_equations.

Definition M32 : Z := 4294967296.

(* ------------------------------------------------------------------ induction by pairs *)
Lemma list_ind2 {A} (P : list A -> Prop) :
  P [] -> (forall a, P [a]) -> (forall a b t, P t -> P (a :: b :: t)) -> forall l, P l.
Proof.
  intros H0 H1 H2.
  assert (H : forall l, P l /\ forall x, P (x :: l)).
  { induction l as [|h t [IH1 IH2]].
    - split; [exact H0|exact H1].
    - split; [apply IH2|]. intros x. apply H2. exact IH1. }
  intros l. apply H.
Qed.

(* ------------------------------------------------------------------ FoldChecksum *)
Lemma fold_correct : forall c, 0 <= c < M32 -> FoldChecksum c = 65535 - oc c.
Proof.
  intros c Hc. unfold M32 in Hc. unfold FoldChecksum, fold_fuel, oc. cbn [fold_loop]. unfold u32.
  set (c1 := (c / 65536 + c mod 65536) mod 4294967296).
  assert (Hc1 : c1 = c / 65536 + c mod 65536) by (unfold c1; lia).
  assert (Hc1r : 0 <= c1 <= 131070) by lia.
  set (c2 := (c1 / 65536 + c1 mod 65536) mod 4294967296).
  assert (Hc2 : c2 = c1 / 65536 + c1 mod 65536) by (unfold c2; lia).
  destruct (Z.ltb_spec 65535 c) as [H1|H1].
  - assert (Hne : (c =? 0) = false) by lia. rewrite Hne.
    destruct (Z.ltb_spec 65535 c1) as [H2|H2].
    + assert (H3 : c2 <= 65535) by lia.
      destruct (Z.ltb_spec 65535 c2) as [H4|H4]; [lia|].
      lia.
    + lia.
  - destruct (Z.eqb_spec c 0) as [H0|H0]; lia.
Qed.

Lemma fold_range : forall c, 0 <= c < M32 -> 0 <= FoldChecksum c <= 65535.
Proof. intros c Hc. rewrite fold_correct by exact Hc. unfold oc. destruct (c =? 0); lia. Qed.

Lemma fold_loop_stable : forall n m c, fold_loop n c <= 65535 -> fold_loop (n + m) c = fold_loop n c.
Proof.
  induction n as [|n IH]; intros m c H.
  - cbn in *. destruct m; cbn; [reflexivity|]. destruct (Z.ltb_spec 65535 c); [lia|reflexivity].
  - cbn [fold_loop Nat.add] in *. destruct (65535 <? c); [apply IH; exact H|reflexivity].
Qed.

(* the loop has exited by its own condition within the fuel: more fuel changes nothing *)
Lemma fold_fuel_enough : forall c n, 0 <= c < M32 -> (2 <= n)%nat -> fold_loop n c = fold_loop 2 c.
Proof.
  intros c n Hc Hn. replace n with (2 + (n - 2))%nat by lia. apply fold_loop_stable.
  unfold M32 in Hc. cbn [fold_loop]. unfold u32.
  destruct (Z.ltb_spec 65535 c); [|lia].
  destruct (Z.ltb_spec 65535 ((c / 65536 + c mod 65536) mod 4294967296)); lia.
Qed.

(* ------------------------------------------------------------------ ComputeChecksum *)
Lemma compute_spec : forall bs c, 0 <= c < M32 -> ComputeChecksum bs c = (c + wordsum bs) mod M32.
Proof.
  unfold M32. induction bs as [|a|a b t IH] using list_ind2; intros c Hc.
  - cbn. lia.
  - cbn. unfold u32. lia.
  - cbn [ComputeChecksum wordsum]. rewrite IH by (unfold u32; lia). unfold u32. lia.
Qed.

Lemma compute_range : forall bs c, 0 <= c < M32 -> 0 <= ComputeChecksum bs c < M32.
Proof. intros. rewrite compute_spec by assumption. unfold M32. lia. Qed.

Definition wlen (bs : list Z) : Z := (Z.of_nat (length bs) + 1) / 2.

Lemma wordsum_bounds : forall bs, bytes_ok bs -> 0 <= wordsum bs <= 65535 * wlen bs.
Proof.
  unfold wlen, bytes_ok. induction bs as [|a|a b t IH] using list_ind2; intros H.
  - cbn. lia.
  - inversion H as [|? ? Ha _]; subst. unfold byte_ok in Ha. cbn. lia.
  - inversion H as [|? ? Ha H']; subst. inversion H' as [|? ? Hb Ht]; subst.
    unfold byte_ok in Ha, Hb. specialize (IH Ht). cbn [wordsum length]. lia.
Qed.

Lemma nowrap_of_length : forall bs, bytes_ok bs -> Z.of_nat (length bs) <= 131074 -> wordsum bs < M32.
Proof. intros bs H L. pose proof (wordsum_bounds bs H) as B. unfold wlen, M32 in *. lia. Qed.

Lemma helpers_rfc1071_gen : forall bs c, 0 <= c -> 0 <= wordsum bs -> c + wordsum bs < M32 ->
  FoldChecksum (ComputeChecksum bs c) = 65535 - oc (c + wordsum bs).
Proof.
  intros bs c Hc Hw Hb. rewrite compute_spec by (unfold M32 in *; lia).
  rewrite Z.mod_small by (unfold M32 in *; lia). apply fold_correct. unfold M32 in *; lia.
Qed.

Lemma helpers_rfc1071 : forall bs, bytes_ok bs -> Z.of_nat (length bs) <= 131074 ->
  FoldChecksum (ComputeChecksum bs 0) = rfc1071 bs.
Proof.
  intros bs H L. pose proof (wordsum_bounds bs H). pose proof (nowrap_of_length bs H L).
  rewrite helpers_rfc1071_gen by lia. reflexivity.
Qed.

Lemma bytes_ok_repeat : forall b n, byte_ok b -> bytes_ok (repeat b n).
Proof. intros b n H. apply Forall_forall. intros x Hx. apply repeat_spec in Hx. subst. exact H. Qed.

Definition wrap_witness : list Z := repeat 255 (Z.to_nat 131076).

Lemma helpers_unbounded_refuted :
  bytes_ok wrap_witness /\ Z.of_nat (length wrap_witness) = 131076 /\
  FoldChecksum (ComputeChecksum wrap_witness 0) = 1 /\ rfc1071 wrap_witness = 0.
Proof.
  split; [apply bytes_ok_repeat; unfold byte_ok; lia|].
  split; [unfold wrap_witness; rewrite repeat_length; lia|].
  split; vm_compute; reflexivity.
Qed.

(* ------------------------------------------------------------------ wordsum algebra *)
Lemma wordsum_app_even : forall a b, Nat.even (length a) = true -> wordsum (a ++ b) = wordsum a + wordsum b.
Proof.
  induction a as [|x|x y t IH] using list_ind2; intros b H.
  - reflexivity.
  - cbn in H. discriminate.
  - cbn [length Nat.even] in H. cbn [app wordsum]. rewrite IH by exact H. lia.
Qed.

Definition weight (j : nat) : Z := if Nat.even j then 256 else 1.

Lemma nthZ_upd : forall (l : list Z) j v i, (j < length l)%nat ->
  nthZ (upd l j v) i = if (i =? j)%nat then v else nthZ l i.
Proof.
  unfold nthZ. induction l as [|h t IH]; intros j v i H; [cbn in H; lia|].
  destruct j as [|j]; destruct i as [|i]; cbn [upd nth Nat.eqb]; try reflexivity.
  apply IH. cbn in H. lia.
Qed.

Lemma weight_SS : forall j, weight (S (S j)) = weight j.
Proof. reflexivity. Qed.

Lemma wordsum_upd : forall bs j v, (j < length bs)%nat ->
  wordsum (upd bs j v) = wordsum bs + (v - nthZ bs j) * weight j.
Proof.
  induction bs as [|a|a b t IH] using list_ind2; intros j v H.
  - cbn in H. lia.
  - destruct j as [|j]; [|cbn in H; lia]. cbn. unfold nthZ, weight. cbn. lia.
  - destruct j as [|[|j]].
    + cbn. unfold nthZ, weight. cbn. lia.
    + cbn. unfold nthZ, weight. cbn. lia.
    + cbn [upd wordsum]. rewrite IH by (cbn in H; lia). rewrite weight_SS.
      unfold nthZ. cbn [nth]. lia.
Qed.

Lemma put16_length : forall bs off v, length (put16 bs off v) = length bs.
Proof. intros. unfold put16. rewrite !upd_length. reflexivity. Qed.

Lemma get16_range : forall bs off, bytes_ok bs -> (S off < length bs)%nat -> 0 <= get16 bs off < 65536.
Proof.
  intros bs off H L. unfold get16, nthZ.
  assert (A : forall i, (i < length bs)%nat -> 0 <= nth i bs 0 < 256).
  { intros i Hi. unfold bytes_ok in H. rewrite Forall_forall in H. apply (H (nth i bs 0)). apply nth_In. exact Hi. }
  pose proof (A off ltac:(lia)). pose proof (A (S off) ltac:(lia)). lia.
Qed.

Lemma wordsum_put16 : forall bs off v, Nat.even off = true -> (S off < length bs)%nat -> 0 <= v < 65536 ->
  wordsum (put16 bs off v) = wordsum bs + v - get16 bs off.
Proof.
  intros bs off v E L V. unfold put16.
  rewrite wordsum_upd by (rewrite upd_length; lia).
  rewrite wordsum_upd by lia.
  rewrite nthZ_upd by lia.
  assert (Hne : (S off =? off)%nat = false) by (apply Nat.eqb_neq; lia). rewrite Hne.
  unfold weight. rewrite E. rewrite Nat.even_succ. rewrite <- Nat.negb_even. rewrite E. cbn [negb].
  unfold get16. lia.
Qed.

Lemma get16_put16 : forall bs off v, (S off < length bs)%nat -> 0 <= v < 65536 -> get16 (put16 bs off v) off = v.
Proof.
  intros bs off v L V. unfold get16, put16.
  rewrite !nthZ_upd by (rewrite ?upd_length; lia).
  assert (H1 : (off =? S off)%nat = false) by (apply Nat.eqb_neq; lia).
  rewrite H1, !Nat.eqb_refl. lia.
Qed.

Lemma upd_upd_same : forall {A} (l : list A) j v w, upd (upd l j v) j w = upd l j w.
Proof. induction l as [|h t IH]; intros [|j] v w; cbn; try reflexivity. rewrite IH. reflexivity. Qed.

Lemma upd_comm : forall {A} (l : list A) i j v w, i <> j -> upd (upd l i v) j w = upd (upd l j w) i v.
Proof.
  induction l as [|h t IH]; intros [|i] [|j] v w H; cbn; try reflexivity; try lia.
  rewrite IH by lia. reflexivity.
Qed.

Lemma put16_put16 : forall bs off v w, put16 (put16 bs off v) off w = put16 bs off w.
Proof.
  intros. unfold put16.
  rewrite (upd_comm (upd bs off (v / 256 mod 256)) (S off) off) by lia.
  rewrite upd_upd_same.
  rewrite (upd_comm bs off (S off)) by lia.
  rewrite upd_upd_same.
  rewrite (upd_comm bs (S off) off) by lia. reflexivity.
Qed.

Lemma bytes_ok_upd : forall bs j v, bytes_ok bs -> byte_ok v -> bytes_ok (upd bs j v).
Proof.
  unfold bytes_ok. induction bs as [|h t IH]; intros [|j] v H V; cbn; auto; inversion H; subst; constructor; auto.
Qed.

Lemma bytes_ok_put16 : forall bs off v, bytes_ok bs -> 0 <= v -> bytes_ok (put16 bs off v).
Proof. intros. unfold put16. apply bytes_ok_upd; [apply bytes_ok_upd; [assumption|]|]; unfold byte_ok; lia. Qed.

(* the stored field is part of the word sum *)
Lemma wordsum_split_field : forall bs off, bytes_ok bs -> Nat.even off = true -> (S off < length bs)%nat ->
  wordsum bs = wordsum (put16 bs off 0) + get16 bs off.
Proof. intros bs off H E L. rewrite wordsum_put16 by (auto; lia). lia. Qed.

(* ------------------------------------------------------------------ pseudo-headers *)
Definition pseudo_ok (p : pseudo) : Prop :=
  match p with
  | PNone => False
  | P4 s d => length s = 4%nat /\ length d = 4%nat /\ bytes_ok s /\ bytes_ok d
  | P6 s d => length s = 16%nat /\ length d = 16%nat /\ bytes_ok s /\ bytes_ok d
  end.

Definition pseudo_bytes (p : pseudo) (proto len : Z) : list Z :=
  match p with
  | PNone => []
  | P4 s d => pseudo_bytes4 s d proto len
  | P6 s d => pseudo_bytes6 s d proto len
  end.

Ltac destruct_list l n :=
  match n with
  | O => destruct l as [|? ?]; [|cbn in *; lia]
  | S ?n' => let x := fresh "x" in destruct l as [|x l]; [cbn in *; lia|]; destruct_list l n'
  end.

Ltac inv_forall :=
  repeat match goal with
  | H : Forall _ (_ :: _) |- _ => inversion H; clear H; subst
  | H : Forall _ [] |- _ => clear H
  end.

Lemma u32_small : forall x, 0 <= x < 4294967296 -> u32 x = x.
Proof. intros. unfold u32. apply Z.mod_small. assumption. Qed.

Ltac u32_inner :=
  repeat match goal with
  | |- context [u32 ?x] =>
    lazymatch x with
    | context [u32 _] => fail
    | _ => rewrite (u32_small x) by lia
    end
  end.

Lemma ph4_sum_spec : forall s d, length s = 4%nat -> length d = 4%nat -> bytes_ok s -> bytes_ok d ->
  ph4_sum s d = wordsum (s ++ d) /\ 0 <= ph4_sum s d <= 4 * 65535.
Proof.
  intros s d Ls Ld Hs Hd. unfold bytes_ok in *.
  destruct_list s 4%nat. destruct_list d 4%nat. inv_forall. unfold byte_ok in *.
  unfold ph4_sum, nthZ. cbn [nth app wordsum].
  u32_inner. lia.
Qed.

Lemma ph6_sum_spec : forall s d, length s = 16%nat -> length d = 16%nat -> bytes_ok s -> bytes_ok d ->
  ph6_sum s d = wordsum (s ++ d) /\ 0 <= ph6_sum s d <= 16 * 65535.
Proof.
  intros s d Ls Ld Hs Hd. unfold bytes_ok in *.
  destruct_list s 16%nat. destruct_list d 16%nat. inv_forall. unfold byte_ok in *.
  unfold ph6_sum. cbn [ph6_loop]. unfold nthZ. cbn [nth app wordsum].
  u32_inner. lia.
Qed.

Lemma to4_4 : forall a, length a = 4%nat -> to4 a = Some a.
Proof. intros a H. unfold to4. rewrite H. reflexivity. Qed.

Lemma pseudo_bytes_even : forall p proto len, pseudo_ok p -> Nat.even (length (pseudo_bytes p proto len)) = true.
Proof.
  intros [|s d|s d] proto len H; cbn in H; [contradiction| |]; destruct H as (Ls & Ld & _ & _);
    unfold pseudo_bytes, pseudo_bytes4, pseudo_bytes6; rewrite !app_length, Ls, Ld; reflexivity.
Qed.

(* the value the pseudo-header contributes, and its bound *)
Lemma pseudo_sum_spec : forall p proto len, pseudo_ok p -> 0 <= proto < 256 -> 0 <= len < M32 ->
  (match p with P4 _ _ => len < 65536 | _ => True end) ->
  exists ph, pseudoheaderChecksum p = Ok ph /\ 0 <= ph <= 16 * 65535 /\
    wordsum (pseudo_bytes p proto len) = ph + proto + len mod 65536 + len / 65536.
Proof.
  unfold M32. intros [|s d|s d] proto len H Hp Hl H4; cbn in H; [contradiction| |]; destruct H as (Ls & Ld & Hs & Hd).
  - destruct (ph4_sum_spec s d Ls Ld Hs Hd) as [E B].
    exists (ph4_sum s d). cbn [pseudoheaderChecksum]. rewrite !to4_4 by assumption.
    split; [reflexivity|]. split; [lia|].
    unfold pseudo_bytes, pseudo_bytes4.
    rewrite app_assoc. rewrite wordsum_app_even by (rewrite app_length, Ls, Ld; reflexivity).
    rewrite <- E. cbn. lia.
  - destruct (ph6_sum_spec s d Ls Ld Hs Hd) as [E B].
    exists (ph6_sum s d). cbn [pseudoheaderChecksum]. rewrite Ls, Ld. cbn [Nat.eqb andb].
    split; [reflexivity|]. split; [lia|].
    unfold pseudo_bytes, pseudo_bytes6.
    rewrite app_assoc. rewrite wordsum_app_even by (rewrite app_length, Ls, Ld; reflexivity).
    rewrite <- E. cbn. lia.
Qed.

Definition len_ok (p : pseudo) (bs : list Z) : Prop :=
  Z.of_nat (length bs) < M32 /\ match p with P4 _ _ => Z.of_nat (length bs) < 65536 | _ => True end.

(* wide sum: pseudo-header followed by the bytes *)
Definition wide (p : pseudo) (proto : Z) (bs : list Z) : Z :=
  wordsum (pseudo_bytes p proto (Z.of_nat (length bs)) ++ bs).

Lemma wide_split : forall p proto bs, pseudo_ok p ->
  wide p proto bs = wordsum (pseudo_bytes p proto (Z.of_nat (length bs))) + wordsum bs.
Proof. intros. unfold wide. apply wordsum_app_even. apply pseudo_bytes_even. assumption. Qed.

Lemma computeChecksum_spec : forall p proto bs, pseudo_ok p -> 0 <= proto < 256 -> len_ok p bs ->
  computeChecksum p bs proto = Ok (wide p proto bs mod M32).
Proof.
  intros p proto bs Hp Hpr [Hl H4].
  destruct (pseudo_sum_spec p proto (Z.of_nat (length bs)) Hp Hpr ltac:(lia) H4) as (ph & E & B & W).
  rewrite wide_split by assumption. rewrite W.
  unfold computeChecksum. rewrite E.
  destruct p as [|s d|s d]; [cbn in Hp; contradiction| |]; cbn [obind];
    (rewrite compute_spec by (unfold u32, M32; lia); f_equal; unfold u32, M32 in *; lia).
Qed.

(* ------------------------------------------------------------------ generic verification step *)
(* verification = (init + wordsum region) mod 2^32; subtracting the stored field gives the sum
   over the region with the field zeroed, mod 2^32, whatever wrapped on the way *)
Lemma sub_existing : forall w0 e, 0 <= e ->
  u32 ((w0 + e) mod M32 - e) = w0 mod M32.
Proof. intros. unfold u32, M32. lia. Qed.

(* plain layers (no pseudo-header): IPv4 header, ICMPv4, GRE *)
Lemma plain_emit_verify : forall bs off, bytes_ok bs -> Nat.even off = true -> (S off < length bs)%nat ->
  FoldChecksum (u32 (ComputeChecksum bs 0 - get16 bs off)) = FoldChecksum (ComputeChecksum (put16 bs off 0) 0).
Proof.
  intros bs off H E L.
  rewrite !compute_spec by (unfold M32; lia).
  rewrite (wordsum_split_field bs off H E L). cbn [Z.add].
  pose proof (get16_range bs off H L).
  rewrite sub_existing by lia. reflexivity.
Qed.

Lemma pseudo_emit_verify : forall p proto bs off, pseudo_ok p -> 0 <= proto < 256 -> len_ok p bs ->
  bytes_ok bs -> Nat.even off = true -> (S off < length bs)%nat ->
  exists v, computeChecksum p bs proto = Ok v /\
    computeChecksum p (put16 bs off 0) proto = Ok (u32 (v - get16 bs off)).
Proof.
  intros p proto bs off Hp Hpr Hl H E L.
  assert (Hl0 : len_ok p (put16 bs off 0)) by (unfold len_ok in *; rewrite put16_length; exact Hl).
  rewrite (computeChecksum_spec p proto bs Hp Hpr Hl).
  rewrite (computeChecksum_spec p proto _ Hp Hpr Hl0).
  eexists; split; [reflexivity|]. f_equal.
  rewrite !wide_split by assumption. rewrite put16_length.
  rewrite (wordsum_split_field bs off H E L).
  pose proof (get16_range bs off H L).
  rewrite Z.add_assoc. rewrite sub_existing by lia. reflexivity.
Qed.

(* ------------------------------------------------------------------ emitters = reference *)
Definition nowrap (x : Z) : Prop := x < M32.

Lemma fold_wide : forall x, 0 <= x < M32 -> FoldChecksum (x mod M32) = 65535 - oc x.
Proof. intros x H. rewrite Z.mod_small by exact H. apply fold_correct. exact H. Qed.

Lemma wordsum_nonneg : forall bs, bytes_ok bs -> 0 <= wordsum bs.
Proof. intros bs H. pose proof (wordsum_bounds bs H). lia. Qed.

Lemma bytes_ok_app : forall a b, bytes_ok a -> bytes_ok b -> bytes_ok (a ++ b).
Proof. intros. apply Forall_app. split; assumption. Qed.

Lemma be_bytes_ok : forall n x, bytes_ok (be_bytes n x).
Proof.
  induction n as [|n IH]; intros x; cbn; [constructor|].
  apply bytes_ok_app; [apply IH|]. constructor; [|constructor]. unfold byte_ok. lia.
Qed.

Lemma pseudo_bytes_ok : forall p proto len, pseudo_ok p -> 0 <= proto < 256 -> bytes_ok (pseudo_bytes p proto len).
Proof.
  intros [|s d|s d] proto len H Hp; cbn in H; [contradiction| |]; destruct H as (_ & _ & Hs & Hd);
    unfold pseudo_bytes, pseudo_bytes4, pseudo_bytes6;
    repeat (apply bytes_ok_app; try assumption; try apply be_bytes_ok);
    repeat constructor; unfold byte_ok; lia.
Qed.

Lemma wide_nonneg : forall p proto bs, pseudo_ok p -> 0 <= proto < 256 -> bytes_ok bs -> 0 <= wide p proto bs.
Proof.
  intros. unfold wide. apply wordsum_nonneg. apply bytes_ok_app; [apply pseudo_bytes_ok|]; assumption.
Qed.

(* plain emitters *)
Lemma ip4_emit_spec : forall hdr, bytes_ok hdr -> (20 <= length hdr)%nat ->
  let h0 := put16 hdr 10 0 in
  ip4_emit hdr = Ok (FoldChecksum (wordsum h0 mod M32), put16 h0 10 (FoldChecksum (wordsum h0 mod M32))).
Proof.
  intros hdr H L h0. unfold ip4_emit.
  assert (E : (length hdr <? 20)%nat = false) by (apply Nat.ltb_ge; lia). rewrite E.
  fold h0. rewrite compute_spec by (unfold M32; lia). reflexivity.
Qed.

Lemma icmp4_emit_spec : forall bs, bytes_ok bs -> (8 <= length bs)%nat ->
  let b0 := put16 bs 2 0 in
  icmp4_emit bs = Ok (FoldChecksum (wordsum b0 mod M32), put16 b0 2 (FoldChecksum (wordsum b0 mod M32))).
Proof.
  intros bs H L b0. unfold icmp4_emit.
  assert (E : (length bs <? 8)%nat = false) by (apply Nat.ltb_ge; lia). rewrite E.
  fold b0. rewrite compute_spec by (unfold M32; lia). reflexivity.
Qed.

Lemma gre_emit_spec : forall bs, bytes_ok bs -> (8 <= length bs)%nat -> 128 <= nthZ bs 0 ->
  let b0 := put16 bs 4 0 in
  gre_emit bs = Ok (Some (FoldChecksum (wordsum b0 mod M32)), put16 b0 4 (FoldChecksum (wordsum b0 mod M32))).
Proof.
  intros bs H L C b0. unfold gre_emit.
  assert (E : (length bs <? 4)%nat = false) by (apply Nat.ltb_ge; lia). rewrite E.
  assert (E8 : (length bs <? 8)%nat = false) by (apply Nat.ltb_ge; lia). rewrite E8.
  assert (EC : (128 <=? nthZ bs 0) = true) by lia. rewrite EC. cbn [orb].
  fold b0. rewrite compute_spec by (unfold M32; lia). reflexivity.
Qed.

(* pseudo-header emitters *)
Lemma tcp_emit_spec : forall p bs, pseudo_ok p -> len_ok p bs -> bytes_ok bs -> (20 <= length bs)%nat ->
  let b0 := put16 bs 16 0 in
  let ck := FoldChecksum (wide p IPProtocolTCP b0 mod M32) in
  tcp_emit p bs = Ok (ck, put16 b0 16 ck).
Proof.
  intros p bs Hp Hl H L b0 ck. unfold tcp_emit.
  assert (E : (length bs <? 20)%nat = false) by (apply Nat.ltb_ge; lia). rewrite E. fold b0.
  rewrite computeChecksum_spec; [reflexivity|assumption|unfold IPProtocolTCP; lia|].
  unfold len_ok in *. unfold b0. rewrite put16_length. exact Hl.
Qed.

Lemma udp_emit_spec : forall p bs, pseudo_ok p -> len_ok p bs -> bytes_ok bs -> (8 <= length bs)%nat ->
  let b0 := put16 bs 6 0 in
  let f := FoldChecksum (wide p IPProtocolUDP b0 mod M32) in
  let ck := if f =? 0 then 65535 else f in
  udp_emit p bs = Ok (ck, put16 b0 6 ck).
Proof.
  intros p bs Hp Hl H L b0 f ck. unfold udp_emit.
  assert (E : (length bs <? 8)%nat = false) by (apply Nat.ltb_ge; lia). rewrite E. fold b0.
  rewrite computeChecksum_spec; [reflexivity|assumption|unfold IPProtocolUDP; lia|].
  unfold len_ok in *. unfold b0. rewrite put16_length. exact Hl.
Qed.

Lemma icmp6_emit_spec : forall p bs, pseudo_ok p -> len_ok p bs -> bytes_ok bs -> (4 <= length bs)%nat ->
  let b0 := put16 bs 2 0 in
  let ck := FoldChecksum (wide p IPProtocolICMPv6 b0 mod M32) in
  icmp6_emit p bs = Ok (ck, put16 b0 2 ck).
Proof.
  intros p bs Hp Hl H L b0 ck. unfold icmp6_emit.
  assert (E : (length bs <? 4)%nat = false) by (apply Nat.ltb_ge; lia). rewrite E. fold b0.
  rewrite computeChecksum_spec; [reflexivity|assumption|unfold IPProtocolICMPv6; lia|].
  unfold len_ok in *. unfold b0. rewrite put16_length. exact Hl.
Qed.

(* ------------------------------------------------------------------ emitters depend on the bytes
   only through the bytes with the field zeroed *)
Lemma ip4_emit_put16 : forall bs v, ip4_emit (put16 bs 10 v) = ip4_emit bs.
Proof. intros. unfold ip4_emit. rewrite put16_length, put16_put16. reflexivity. Qed.
Lemma tcp_emit_put16 : forall p bs v, tcp_emit p (put16 bs 16 v) = tcp_emit p bs.
Proof. intros. unfold tcp_emit. rewrite put16_length, put16_put16. reflexivity. Qed.
Lemma udp_emit_put16 : forall p bs v, udp_emit p (put16 bs 6 v) = udp_emit p bs.
Proof. intros. unfold udp_emit. rewrite put16_length, put16_put16. reflexivity. Qed.
Lemma icmp4_emit_put16 : forall bs v, icmp4_emit (put16 bs 2 v) = icmp4_emit bs.
Proof. intros. unfold icmp4_emit. rewrite put16_length, put16_put16. reflexivity. Qed.
Lemma icmp6_emit_put16 : forall p bs v, icmp6_emit p (put16 bs 2 v) = icmp6_emit p bs.
Proof. intros. unfold icmp6_emit. rewrite put16_length, put16_put16. reflexivity. Qed.

Lemma nthZ_put16_other : forall bs off v i, (S off < length bs)%nat -> i <> off -> i <> S off ->
  nthZ (put16 bs off v) i = nthZ bs i.
Proof.
  intros bs off v i L H1 H2. unfold put16. rewrite !nthZ_upd by (rewrite ?upd_length; lia).
  assert (E1 : (i =? S off)%nat = false) by (apply Nat.eqb_neq; lia).
  assert (E2 : (i =? off)%nat = false) by (apply Nat.eqb_neq; lia).
  rewrite E1, E2. reflexivity.
Qed.

Lemma gre_emit_put16 : forall bs v, (8 <= length bs)%nat -> 128 <= nthZ bs 0 ->
  gre_emit (put16 bs 4 v) = gre_emit bs.
Proof.
  intros bs v L C. unfold gre_emit. rewrite put16_length, put16_put16.
  rewrite nthZ_put16_other by lia.
  assert (EC : (128 <=? nthZ bs 0) = true) by lia. rewrite EC. reflexivity.
Qed.

(* ------------------------------------------------------------------ VerifyChecksum against the emitter *)
Lemma ip4_verify_core : forall c, bytes_ok c -> (20 <= length c)%nat ->
  exists ck out, ip4_emit c = Ok (ck, out) /\ 0 <= ck <= 65535 /\
    ip4_VerifyChecksum c (get16 c 10) = {| v_valid := ck =? get16 c 10; v_correct := ck; v_actual := get16 c 10 |}.
Proof.
  intros c H L. rewrite (ip4_emit_spec c H L). do 2 eexists. split; [reflexivity|].
  split; [apply fold_range; unfold M32; lia|].
  unfold ip4_VerifyChecksum. rewrite plain_emit_verify by (auto; lia).
  rewrite compute_spec by (unfold M32; lia). reflexivity.
Qed.

Lemma icmp4_verify_core : forall c, bytes_ok c -> (8 <= length c)%nat ->
  exists ck out, icmp4_emit c = Ok (ck, out) /\ 0 <= ck <= 65535 /\
    plain_VerifyChecksum c (get16 c 2) = {| v_valid := ck =? get16 c 2; v_correct := ck; v_actual := get16 c 2 |}.
Proof.
  intros c H L. rewrite (icmp4_emit_spec c H L). do 2 eexists. split; [reflexivity|].
  split; [apply fold_range; unfold M32; lia|].
  unfold plain_VerifyChecksum. rewrite plain_emit_verify by (auto; lia).
  rewrite compute_spec by (unfold M32; lia). reflexivity.
Qed.

Lemma gre_verify_core : forall c, bytes_ok c -> (8 <= length c)%nat -> 128 <= nthZ c 0 ->
  exists ck out, gre_emit c = Ok (Some ck, out) /\ 0 <= ck <= 65535 /\
    gre_VerifyChecksum c (get16 c 4) true = {| v_valid := ck =? get16 c 4; v_correct := ck; v_actual := get16 c 4 |}.
Proof.
  intros c H L C. rewrite (gre_emit_spec c H L C). do 2 eexists. split; [reflexivity|].
  split; [apply fold_range; unfold M32; lia|].
  unfold gre_VerifyChecksum. rewrite plain_emit_verify by (auto; lia).
  rewrite compute_spec by (unfold M32; lia). reflexivity.
Qed.

Lemma pseudo_verify_fold : forall p proto r off, pseudo_ok p -> 0 <= proto < 256 -> len_ok p r ->
  bytes_ok r -> Nat.even off = true -> (S off < length r)%nat ->
  exists v, computeChecksum p r proto = Ok v /\
    u32 (v - get16 r off) = wide p proto (put16 r off 0) mod M32.
Proof.
  intros p proto r off Hp Hpr Hl H E L.
  destruct (pseudo_emit_verify p proto r off Hp Hpr Hl H E L) as (v & E1 & E2).
  exists v. split; [exact E1|].
  assert (Hl0 : len_ok p (put16 r off 0)) by (unfold len_ok in *; rewrite put16_length; exact Hl).
  rewrite (computeChecksum_spec p proto _ Hp Hpr Hl0) in E2. injection E2 as E2. symmetry. exact E2.
Qed.

Lemma tcp_verify_core : forall p r, pseudo_ok p -> len_ok p r -> bytes_ok r -> (20 <= length r)%nat ->
  exists ck out, tcp_emit p r = Ok (ck, out) /\ 0 <= ck <= 65535 /\
    tcp_VerifyChecksum p r (get16 r 16) = Ok {| v_valid := ck =? get16 r 16; v_correct := ck; v_actual := get16 r 16 |}.
Proof.
  intros p r Hp Hl H L. rewrite (tcp_emit_spec p r Hp Hl H L). do 2 eexists. split; [reflexivity|].
  split; [apply fold_range; unfold M32; lia|].
  unfold tcp_VerifyChecksum.
  destruct (pseudo_verify_fold p IPProtocolTCP r 16 Hp ltac:(unfold IPProtocolTCP; lia) Hl H eq_refl ltac:(lia)) as (v & E1 & E2).
  rewrite E1. cbn [obind]. rewrite E2. reflexivity.
Qed.

Lemma icmp6_verify_core : forall p r, pseudo_ok p -> len_ok p r -> bytes_ok r -> (4 <= length r)%nat ->
  exists ck out, icmp6_emit p r = Ok (ck, out) /\ 0 <= ck <= 65535 /\
    icmp6_VerifyChecksum p r (get16 r 2) = Ok {| v_valid := ck =? get16 r 2; v_correct := ck; v_actual := get16 r 2 |}.
Proof.
  intros p r Hp Hl H L. rewrite (icmp6_emit_spec p r Hp Hl H L). do 2 eexists. split; [reflexivity|].
  split; [apply fold_range; unfold M32; lia|].
  unfold icmp6_VerifyChecksum.
  destruct (pseudo_verify_fold p IPProtocolICMPv6 r 2 Hp ltac:(unfold IPProtocolICMPv6; lia) Hl H eq_refl ltac:(lia)) as (v & E1 & E2).
  rewrite E1. cbn [obind]. rewrite E2. reflexivity.
Qed.

Lemma udp_verify_core : forall p r, pseudo_ok p -> len_ok p r -> bytes_ok r -> (8 <= length r)%nat ->
  exists ck out, udp_emit p r = Ok (ck, out) /\ 1 <= ck <= 65535 /\
    udp_VerifyChecksum p r (get16 r 6) =
      Ok {| v_valid := (get16 r 6 =? 0) || (ck =? get16 r 6); v_correct := ck; v_actual := get16 r 6 |}.
Proof.
  intros p r Hp Hl H L. rewrite (udp_emit_spec p r Hp Hl H L). do 2 eexists. split; [reflexivity|].
  split.
  { pose proof (fold_range (wide p IPProtocolUDP (put16 r 6 0) mod M32) ltac:(unfold M32; lia)).
    destruct (Z.eqb_spec (FoldChecksum (wide p IPProtocolUDP (put16 r 6 0) mod M32)) 0); lia. }
  unfold udp_VerifyChecksum.
  destruct (pseudo_verify_fold p IPProtocolUDP r 6 Hp ltac:(unfold IPProtocolUDP; lia) Hl H eq_refl ltac:(lia)) as (v & E1 & E2).
  rewrite E1. cbn [obind]. rewrite E2. reflexivity.
Qed.

(* ------------------------------------------------------------------ what the decoders hand to VerifyChecksum *)
Lemma nthZ_firstn : forall (l : list Z) k i, (i < k)%nat -> nthZ (firstn k l) i = nthZ l i.
Proof.
  unfold nthZ. induction l as [|h t IH]; intros k i H.
  - rewrite firstn_nil. reflexivity.
  - destruct k as [|k]; [lia|]. destruct i as [|i]; cbn; [reflexivity|]. apply IH. lia.
Qed.

Lemma bytes_ok_firstn : forall l k, bytes_ok l -> bytes_ok (firstn k l).
Proof.
  unfold bytes_ok. induction l as [|h t IH]; intros k H; [rewrite firstn_nil; constructor|].
  destruct k; cbn; [constructor|]. inversion H; subst. constructor; auto.
Qed.

Lemma tcp_decode_inv : forall data r e, tcp_decode data = Ok (r, e) ->
  r = data /\ e = get16 data 16 /\ (20 <= length data)%nat.
Proof.
  intros data r e. unfold tcp_decode.
  destruct (Nat.ltb_spec (length data) 20); [discriminate|].
  destruct (nthZ data 12 / 16 <? 5); [discriminate|].
  destruct (length data <? Z.to_nat (nthZ data 12 / 16 * 4))%nat; [discriminate|].
  destruct (tcp_options_res _ _ =? 0); [|discriminate].
  intros E. injection E as E1 E2. subst r e. auto.
Qed.

Lemma udp_decode_inv : forall data r e, udp_decode data = Ok (r, e) ->
  (exists k, r = firstn k data) /\ e = get16 r 6 /\ (8 <= length r)%nat.
Proof.
  intros data r e. unfold udp_decode.
  destruct (Z.ltb_spec (Z.of_nat (length data)) 8); [discriminate|].
  destruct (Z.leb_spec 8 (get16 data 4)).
  - intros E. injection E as E1 E2. subst r e.
    split; [eexists; reflexivity|].
    set (hlen := if Z.of_nat (length data) <? get16 data 4 then Z.of_nat (length data) else get16 data 4).
    assert (L : 8 <= hlen <= Z.of_nat (length data)).
    { unfold hlen. destruct (Z.ltb_spec (Z.of_nat (length data)) (get16 data 4)); lia. }
    split.
    + unfold get16. rewrite !nthZ_firstn by lia. reflexivity.
    + rewrite firstn_length. lia.
  - destruct (get16 data 4 =? 0); [|discriminate].
    intros E. injection E as E1 E2. subst r e.
    split; [exists (length data); rewrite firstn_all; reflexivity|]. split; [reflexivity|lia].
Qed.

Lemma icmp4_decode_inv : forall data r e, icmp4_decode data = Ok (r, e) ->
  r = data /\ e = get16 data 2 /\ (8 <= length data)%nat.
Proof.
  intros data r e. unfold icmp4_decode. destruct (Nat.ltb_spec (length data) 8); [discriminate|].
  intros E. injection E as E1 E2. subst r e. auto.
Qed.

Lemma icmp6_decode_inv : forall data r e, icmp6_decode data = Ok (r, e) ->
  r = data /\ e = get16 data 2 /\ (4 <= length data)%nat.
Proof.
  intros data r e. unfold icmp6_decode. destruct (Nat.ltb_spec (length data) 4); [discriminate|].
  intros E. injection E as E1 E2. subst r e. auto.
Qed.

Lemma gre_decode_inv : forall data r e c, gre_decode data = Ok (r, e, c) ->
  r = data /\ c = (128 <=? nthZ data 0) /\ (c = true -> e = get16 data 4 /\ (8 <= length data)%nat).
Proof.
  intros data r e c. unfold gre_decode. cbv zeta.
  destruct (Z.ltb_spec (Z.of_nat (length data)) 4); [discriminate|].
  destruct (((128 <=? nthZ data 0) || (64 <=? nthZ data 0 mod 128)) && (Z.of_nat (length data) - 4 <? 4)) eqn:E1; [discriminate|].
  repeat match goal with
  | |- context [if ?b then Err 2 else _] => destruct b eqn:?; [discriminate|]
  | |- context [match ?x with Some o => @?f o | None => Err 2 end] => destruct x eqn:?; [|discriminate]
  end.
  intros E. injection E as E1' E2 E3. subst r e c. split; [reflexivity|]. split; [reflexivity|].
  intros C. rewrite C in *. cbn [orb andb] in E1. split; [reflexivity|lia].
Qed.

Lemma ip4_decode_inv : forall data c e, ip4_decode data = Ok (c, e) ->
  (exists k, c = firstn k data) /\ e = get16 c 10 /\ (20 <= length c)%nat.
Proof.
  intros data c e. unfold ip4_decode. cbv zeta.
  set (n := Z.of_nat (length data)).
  set (ihl := nthZ data 0 mod 16).
  set (len := if get16 data 2 =? 0 then u16 n else get16 data 2).
  destruct (Z.ltb_spec n 20); [discriminate|].
  destruct (Z.ltb_spec len 20); [discriminate|].
  destruct (Z.ltb_spec ihl 5); [discriminate|].
  assert (Hihl : 5 <= ihl < 16) by (unfold ihl; lia).
  assert (Hu8 : u8 (ihl * 4) = ihl * 4) by (unfold u8; lia).
  rewrite Hu8.
  destruct (Z.ltb_spec len (ihl * 4)); [discriminate|].
  destruct ((n - len <? 0) && (n <? ihl * 4)) eqn:E5; [discriminate|].
  set (data' := if 0 <? n - len then firstn (Z.to_nat len) data else data).
  destruct (ip4_options_ok _ _); [|discriminate].
  intros E. injection E as E1 E2. subst c e.
  assert (Hd : exists k, data' = firstn k data /\ (Z.to_nat (ihl * 4) <= length data')%nat).
  { unfold data'. destruct (Z.ltb_spec 0 (n - len)).
    - exists (Z.to_nat len). split; [reflexivity|]. rewrite firstn_length. unfold n in *. lia.
    - exists (length data). rewrite firstn_all. split; [reflexivity|]. unfold n in *. lia. }
  destruct Hd as (k & Hk & Hlen).
  split.
  - rewrite Hk. rewrite firstn_firstn. eexists; reflexivity.
  - split.
    + unfold get16. rewrite !nthZ_firstn by lia. reflexivity.
    + rewrite firstn_length. lia.
Qed.

(* ------------------------------------------------------------------ single-bit corruption *)
Definition flip_check : bool :=
  forallb (fun k => forallb (fun n =>
    let b := Z.of_nat n in let v := Z.lxor b (2 ^ Z.of_nat k) in
    (0 <=? v) && (v <? 256) && ((v =? b + 2 ^ Z.of_nat k) || (v =? b - 2 ^ Z.of_nat k)))
    (seq 0 256)) (seq 0 8).

Lemma flip_check_true : flip_check = true.
Proof. vm_compute. reflexivity. Qed.

Lemma flip_byte_spec : forall b k, 0 <= b < 256 -> (k < 8)%nat ->
  let v := Z.lxor b (2 ^ Z.of_nat k) in
  0 <= v < 256 /\ (v = b + 2 ^ Z.of_nat k \/ v = b - 2 ^ Z.of_nat k).
Proof.
  intros b k Hb Hk v. pose proof flip_check_true as F. unfold flip_check in F.
  rewrite forallb_forall in F. specialize (F k ltac:(apply in_seq; lia)).
  rewrite forallb_forall in F. specialize (F (Z.to_nat b) ltac:(apply in_seq; lia)).
  rewrite Z2Nat.id in F by lia. fold v in F. lia.
Qed.

Lemma pow2_small : forall k, (k < 8)%nat -> 1 <= 2 ^ Z.of_nat k <= 128.
Proof.
  intros k H. do 8 (destruct k as [|k]; [vm_compute; split; discriminate|]). lia.
Qed.

Lemma nthZ_range : forall bs j, bytes_ok bs -> (j < length bs)%nat -> 0 <= nthZ bs j < 256.
Proof.
  intros bs j H L. unfold bytes_ok in H. rewrite Forall_forall in H.
  apply (H (nthZ bs j)). unfold nthZ. apply nth_In. exact L.
Qed.

Lemma flip_bit_spec : forall pk i, bytes_ok pk -> (i < 8 * length pk)%nat ->
  let j := (i / 8)%nat in
  exists d, flip_bit pk i = upd pk j (nthZ pk j + d) /\ (j < length pk)%nat /\
    0 <= nthZ pk j + d < 256 /\ (1 <= d <= 128 \/ -128 <= d <= -1).
Proof.
  intros pk i H L j.
  assert (Lj : (j < length pk)%nat) by (unfold j; apply Nat.div_lt_upper_bound; lia).
  assert (Lk : (i mod 8 < 8)%nat) by (apply Nat.mod_upper_bound; lia).
  pose proof (nthZ_range pk j H Lj) as R.
  destruct (flip_byte_spec (nthZ pk j) (i mod 8)%nat R Lk) as [V D].
  pose proof (pow2_small _ Lk) as P.
  unfold flip_bit. fold j.
  exists (Z.lxor (nthZ pk j) (2 ^ Z.of_nat (i mod 8)) - nthZ pk j).
  split; [f_equal; lia|]. split; [exact Lj|]. split; lia.
Qed.

Lemma put16_upd_out : forall pk off j v w, j <> off -> j <> S off ->
  put16 (upd pk j v) off w = upd (put16 pk off w) j v.
Proof.
  intros. unfold put16.
  rewrite (upd_comm pk j off) by lia. rewrite (upd_comm _ j (S off)) by lia. reflexivity.
Qed.

Lemma get16_upd_out : forall pk off j v, (j < length pk)%nat -> j <> off -> j <> S off ->
  get16 (upd pk j v) off = get16 pk off.
Proof.
  intros pk off j v L H1 H2. unfold get16. rewrite !nthZ_upd by lia.
  assert (E1 : (off =? j)%nat = false) by (apply Nat.eqb_neq; lia).
  assert (E2 : (S off =? j)%nat = false) by (apply Nat.eqb_neq; lia).
  rewrite E1, E2. reflexivity.
Qed.

Lemma put16_upd_in : forall pk off j v w, j = off \/ j = S off -> put16 (upd pk j v) off w = put16 pk off w.
Proof.
  intros pk off j v w [E|E]; subst j; unfold put16.
  - rewrite upd_upd_same. reflexivity.
  - rewrite (upd_comm pk (S off) off) by lia. rewrite upd_upd_same.
    rewrite (upd_comm pk off (S off)) by lia. reflexivity.
Qed.

Lemma get16_upd_in : forall pk off j d, (S off < length pk)%nat -> j = off \/ j = S off -> d <> 0 -> -255 <= d <= 255 ->
  get16 (upd pk j (nthZ pk j + d)) off <> get16 pk off.
Proof.
  intros pk off j d L [E|E] D R; subst j; unfold get16; rewrite !nthZ_upd by lia.
  - assert (E1 : (S off =? off)%nat = false) by (apply Nat.eqb_neq; lia).
    rewrite Nat.eqb_refl, E1. lia.
  - assert (E1 : (off =? S off)%nat = false) by (apply Nat.eqb_neq; lia).
    rewrite Nat.eqb_refl, E1. lia.
Qed.

Lemma oc_congr : forall x y, 0 <= x -> 0 <= y -> oc x = oc y -> (x - y) mod 65535 = 0.
Proof.
  intros x y Hx Hy. unfold oc.
  destruct (Z.eqb_spec x 0); destruct (Z.eqb_spec y 0); lia.
Qed.

Lemma fold_differs : forall A A', 0 <= A < M32 -> 0 <= A' < M32 ->
  (1 <= A' - A <= 65534 \/ 1 <= A - A' <= 65534) ->
  FoldChecksum (A' mod M32) <> FoldChecksum (A mod M32).
Proof.
  intros A A' HA HA' D. rewrite !fold_wide by assumption. intros E.
  assert (E' : oc A' = oc A) by lia.
  apply oc_congr in E'; lia.
Qed.

Lemma weight_range : forall j, weight j = 256 \/ weight j = 1.
Proof. intros j. unfold weight. destruct (Nat.even j); auto. Qed.

(* a word-sum-like function: changing one byte changes it by the weighted difference *)
Definition sumlike (W : list Z -> Z) : Prop :=
  forall l j v, (j < length l)%nat -> W (upd l j v) = W l + (v - nthZ l j) * weight j.

Lemma wordsum_sumlike : sumlike wordsum.
Proof. exact wordsum_upd. Qed.

Lemma wide_sumlike : forall p proto, pseudo_ok p -> sumlike (wide p proto).
Proof.
  intros p proto Hp l j v L. rewrite !wide_split by assumption. rewrite upd_length.
  rewrite wordsum_upd by exact L. lia.
Qed.

Lemma flip_generic : forall W pk off j d, sumlike W ->
  (S off < length pk)%nat -> (j < length pk)%nat ->
  (1 <= d <= 128 \/ -128 <= d <= -1) ->
  let pk' := upd pk j (nthZ pk j + d) in
  let f := FoldChecksum (W (put16 pk off 0) mod M32) in
  let f' := FoldChecksum (W (put16 pk' off 0) mod M32) in
  0 <= W (put16 pk off 0) < M32 -> 0 <= W (put16 pk' off 0) < M32 ->
  (f' = f /\ get16 pk' off <> get16 pk off) \/ (f' <> f /\ get16 pk' off = get16 pk off).
Proof.
  intros W pk off j d SW L Lj D pk' f f' B B'.
  destruct (Nat.eq_dec j off) as [E|N1]; [|destruct (Nat.eq_dec j (S off)) as [E|N2]].
  - left. split.
    + unfold f', f, pk'. rewrite put16_upd_in by auto. reflexivity.
    + apply get16_upd_in; auto; lia.
  - left. split.
    + unfold f', f, pk'. rewrite put16_upd_in by auto. reflexivity.
    + apply get16_upd_in; auto; lia.
  - right. split.
    + unfold f', f. apply fold_differs; try assumption.
      unfold pk' in *. rewrite put16_upd_out in * by assumption.
      rewrite SW in * by (rewrite put16_length; exact Lj).
      rewrite nthZ_put16_other in * by assumption.
      destruct (weight_range j) as [Wj|Wj]; rewrite Wj in *; lia.
    + unfold pk'. apply get16_upd_out; assumption.
Qed.

(* ------------------------------------------------------------------ reference values *)
Definition reference (p : pseudo) (proto : Z) (bs0 : list Z) : Z :=
  rfc1071 (pseudo_bytes p proto (Z.of_nat (length bs0)) ++ bs0).

Lemma pseudo_bytes_length : forall p proto len, pseudo_ok p -> (length (pseudo_bytes p proto len) <= 40)%nat.
Proof.
  intros [|s d|s d] proto len H; cbn in H; [contradiction| |]; destruct H as (Ls & Ld & _ & _);
    unfold pseudo_bytes, pseudo_bytes4, pseudo_bytes6; rewrite !app_length, Ls, Ld; cbn; lia.
Qed.

Lemma wide_nowrap : forall p proto bs, pseudo_ok p -> 0 <= proto < 256 -> bytes_ok bs ->
  Z.of_nat (length bs) <= 131034 -> 0 <= wide p proto bs < M32.
Proof.
  intros p proto bs Hp Hpr H L. split; [apply wide_nonneg; assumption|].
  unfold wide. apply nowrap_of_length.
  - apply bytes_ok_app; [apply pseudo_bytes_ok|]; assumption.
  - rewrite app_length. pose proof (pseudo_bytes_length p proto (Z.of_nat (length bs)) Hp). lia.
Qed.

Lemma fold_reference : forall p proto b0, pseudo_ok p -> 0 <= proto < 256 -> bytes_ok b0 ->
  Z.of_nat (length b0) <= 131034 -> FoldChecksum (wide p proto b0 mod M32) = reference p proto b0.
Proof. intros. rewrite fold_wide by (apply wide_nowrap; assumption). reflexivity. Qed.

Lemma fold_reference_plain : forall b0, bytes_ok b0 -> Z.of_nat (length b0) <= 131074 ->
  FoldChecksum (wordsum b0 mod M32) = rfc1071 b0.
Proof.
  intros b0 H L. rewrite fold_wide; [reflexivity|].
  split; [apply wordsum_nonneg; exact H|apply nowrap_of_length; assumption].
Qed.

Lemma wide_positive : forall p proto bs, pseudo_ok p -> 0 < proto < 256 -> bytes_ok bs -> len_ok p bs -> 0 < wide p proto bs.
Proof.
  intros p proto bs Hp Hpr H [Hl H4]. rewrite wide_split by assumption.
  destruct (pseudo_sum_spec p proto (Z.of_nat (length bs)) Hp ltac:(lia) ltac:(lia) H4) as (ph & _ & B & Wq).
  rewrite Wq. pose proof (wordsum_nonneg bs H). lia.
Qed.

(* ------------------------------------------------------------------ emitted packets are accepted *)
Lemma ck_eqb_refl : forall x : Z, (x =? x) = true.
Proof. intros. apply Z.eqb_refl. Qed.

Lemma tcp_accepts : forall p bs ck pk r e, pseudo_ok p -> len_ok p bs -> bytes_ok bs -> (20 <= length bs)%nat ->
  tcp_emit p bs = Ok (ck, pk) -> tcp_decode pk = Ok (r, e) ->
  tcp_verify p pk = Ok {| v_valid := true; v_correct := ck; v_actual := ck |}.
Proof.
  intros p bs ck pk r e Hp Hl H L Em De.
  pose proof (tcp_emit_spec p bs Hp Hl H L) as Sp. cbv zeta in Sp.
  set (ck0 := FoldChecksum (wide p IPProtocolTCP (put16 bs 16 0) mod M32)) in *.
  assert (Rg : 0 <= ck0 <= 65535) by (apply fold_range; unfold M32; lia).
  rewrite Sp in Em. injection Em as Eck Epk. subst ck pk.
  set (pk := put16 (put16 bs 16 0) 16 ck0) in *.
  assert (Lpk : length pk = length bs) by (unfold pk; rewrite !put16_length; reflexivity).
  assert (Hpk : bytes_ok pk) by (unfold pk; repeat apply bytes_ok_put16; auto; lia).
  assert (G : get16 pk 16 = ck0) by (unfold pk; apply get16_put16; [rewrite put16_length|]; lia).
  unfold tcp_verify. rewrite De. cbn [obind]. apply tcp_decode_inv in De. destruct De as (-> & -> & _).
  destruct (tcp_verify_core p pk Hp ltac:(unfold len_ok in *; rewrite Lpk; exact Hl) Hpk ltac:(lia)) as (ck' & out & E1 & _ & E2).
  rewrite E2. unfold pk in E1. rewrite !tcp_emit_put16 in E1. rewrite Sp in E1.
  injection E1 as E1 _. subst ck'. fold pk. rewrite G, ck_eqb_refl. reflexivity.
Qed.
Lemma icmp6_accepts : forall p bs ck pk r e, pseudo_ok p -> len_ok p bs -> bytes_ok bs -> (4 <= length bs)%nat ->
  icmp6_emit p bs = Ok (ck, pk) -> icmp6_decode pk = Ok (r, e) ->
  icmp6_verify p pk = Ok {| v_valid := true; v_correct := ck; v_actual := ck |}.
Proof.
  intros p bs ck pk r e Hp Hl H L Em De.
  pose proof (icmp6_emit_spec p bs Hp Hl H L) as Sp. cbv zeta in Sp.
  set (ck0 := FoldChecksum (wide p IPProtocolICMPv6 (put16 bs 2 0) mod M32)) in *.
  assert (Rg : 0 <= ck0 <= 65535) by (apply fold_range; unfold M32; lia).
  rewrite Sp in Em. injection Em as Eck Epk. subst ck pk.
  set (pk := put16 (put16 bs 2 0) 2 ck0) in *.
  assert (Lpk : length pk = length bs) by (unfold pk; rewrite !put16_length; reflexivity).
  assert (Hpk : bytes_ok pk) by (unfold pk; repeat apply bytes_ok_put16; auto; lia).
  assert (G : get16 pk 2 = ck0) by (unfold pk; apply get16_put16; [rewrite put16_length|]; lia).
  unfold icmp6_verify. rewrite De. cbn [obind]. apply icmp6_decode_inv in De. destruct De as (-> & -> & _).
  destruct (icmp6_verify_core p pk Hp ltac:(unfold len_ok in *; rewrite Lpk; exact Hl) Hpk ltac:(lia)) as (ck' & out & E1 & _ & E2).
  rewrite E2. unfold pk in E1. rewrite !icmp6_emit_put16 in E1. rewrite Sp in E1.
  injection E1 as E1 _. subst ck'. fold pk. rewrite G, ck_eqb_refl. reflexivity.
Qed.

(* UDP: the decoder may cut the region at the Length field; accepted when it covers the packet *)
Lemma udp_accepts : forall p bs ck pk e, pseudo_ok p -> len_ok p bs -> bytes_ok bs -> (8 <= length bs)%nat ->
  udp_emit p bs = Ok (ck, pk) -> udp_decode pk = Ok (pk, e) ->
  udp_verify p pk = Ok {| v_valid := true; v_correct := ck; v_actual := ck |} /\ 1 <= ck <= 65535.
Proof.
  intros p bs ck pk e Hp Hl H L Em De.
  pose proof (udp_emit_spec p bs Hp Hl H L) as Sp. cbv zeta in Sp.
  set (f0 := FoldChecksum (wide p IPProtocolUDP (put16 bs 6 0) mod M32)) in *.
  assert (Rf : 0 <= f0 <= 65535) by (apply fold_range; unfold M32; lia).
  set (ck0 := if f0 =? 0 then 65535 else f0) in *.
  assert (Rg : 1 <= ck0 <= 65535) by (unfold ck0; destruct (Z.eqb_spec f0 0); lia).
  rewrite Sp in Em. injection Em as Eck Epk. subst ck.
  assert (Lpk : length pk = length bs) by (subst pk; rewrite !put16_length; reflexivity).
  assert (Hpk : bytes_ok pk) by (subst pk; repeat apply bytes_ok_put16; auto; lia).
  assert (G : get16 pk 6 = ck0) by (subst pk; apply get16_put16; [rewrite put16_length|]; lia).
  split; [|exact Rg].
  unfold udp_verify. rewrite De. cbn [obind]. apply udp_decode_inv in De. destruct De as (_ & -> & _).
  destruct (udp_verify_core p pk Hp ltac:(unfold len_ok in *; rewrite Lpk; exact Hl) Hpk ltac:(lia)) as (ck' & out & E1 & _ & E2).
  rewrite E2. rewrite <- Epk in E1. rewrite !udp_emit_put16 in E1. rewrite Sp in E1.
  injection E1 as E1 _. subst ck'. rewrite G, ck_eqb_refl. rewrite Bool.orb_true_r. reflexivity.
Qed.

Lemma icmp4_accepts : forall bs ck pk r e, bytes_ok bs -> (8 <= length bs)%nat ->
  icmp4_emit bs = Ok (ck, pk) -> icmp4_decode pk = Ok (r, e) ->
  icmp4_verify pk = Ok {| v_valid := true; v_correct := ck; v_actual := ck |}.
Proof.
  intros bs ck pk r e H L Em De.
  pose proof (icmp4_emit_spec bs H L) as Sp. cbv zeta in Sp.
  set (ck0 := FoldChecksum (wordsum (put16 bs 2 0) mod M32)) in *.
  assert (Rg : 0 <= ck0 <= 65535) by (apply fold_range; unfold M32; lia).
  rewrite Sp in Em. injection Em as Eck Epk. subst ck.
  assert (Lpk : length pk = length bs) by (subst pk; rewrite !put16_length; reflexivity).
  assert (Hpk : bytes_ok pk) by (subst pk; repeat apply bytes_ok_put16; auto; lia).
  assert (G : get16 pk 2 = ck0) by (subst pk; apply get16_put16; [rewrite put16_length|]; lia).
  unfold icmp4_verify. rewrite De. cbn [obind]. apply icmp4_decode_inv in De. destruct De as (-> & -> & _).
  destruct (icmp4_verify_core pk Hpk ltac:(lia)) as (ck' & out & E1 & _ & E2).
  rewrite E2. rewrite <- Epk in E1. rewrite !icmp4_emit_put16 in E1. rewrite Sp in E1.
  injection E1 as E1 _. subst ck'. rewrite G, ck_eqb_refl. reflexivity.
Qed.

Lemma gre_accepts : forall bs ck pk r e c, bytes_ok bs -> (8 <= length bs)%nat -> 128 <= nthZ bs 0 ->
  gre_emit bs = Ok (Some ck, pk) -> gre_decode pk = Ok (r, e, c) ->
  gre_verify pk = Ok {| v_valid := true; v_correct := ck; v_actual := ck |}.
Proof.
  intros bs ck pk r e c H L C Em De.
  pose proof (gre_emit_spec bs H L C) as Sp. cbv zeta in Sp.
  set (ck0 := FoldChecksum (wordsum (put16 bs 4 0) mod M32)) in *.
  assert (Rg : 0 <= ck0 <= 65535) by (apply fold_range; unfold M32; lia).
  rewrite Sp in Em. injection Em as Eck Epk. subst ck.
  assert (Lpk : length pk = length bs) by (subst pk; rewrite !put16_length; reflexivity).
  assert (Hpk : bytes_ok pk) by (subst pk; repeat apply bytes_ok_put16; auto; lia).
  assert (G : get16 pk 4 = ck0) by (subst pk; apply get16_put16; [rewrite put16_length|]; lia).
  assert (C' : nthZ pk 0 = nthZ bs 0) by (subst pk; rewrite !nthZ_put16_other by (rewrite ?put16_length; lia); reflexivity).
  unfold gre_verify. rewrite De. cbn [obind]. apply gre_decode_inv in De. destruct De as (-> & -> & De).
  assert (EC : (128 <=? nthZ pk 0) = true) by lia. rewrite EC in *. destruct (De eq_refl) as (-> & _).
  destruct (gre_verify_core pk Hpk ltac:(lia) ltac:(lia)) as (ck' & out & E1 & _ & E2).
  rewrite E2. rewrite <- Epk in E1.
  rewrite gre_emit_put16 in E1 by (rewrite ?put16_length, ?nthZ_put16_other; rewrite ?put16_length; lia).
  rewrite gre_emit_put16 in E1 by lia.
  rewrite Sp in E1.
  injection E1 as E1 _. subst ck'. rewrite G, ck_eqb_refl. reflexivity.
Qed.

(* the IPv4 decoder hands over the first IHL*4 bytes; accepted when that is the emitted header *)
Lemma ip4_accepts : forall hdr ck h payload e, bytes_ok hdr -> (20 <= length hdr)%nat ->
  ip4_emit hdr = Ok (ck, h) -> ip4_decode (h ++ payload) = Ok (h, e) ->
  ip4_verify (h ++ payload) = Ok {| v_valid := true; v_correct := ck; v_actual := ck |}.
Proof.
  intros hdr ck h payload e H L Em De.
  pose proof (ip4_emit_spec hdr H L) as Sp. cbv zeta in Sp.
  set (ck0 := FoldChecksum (wordsum (put16 hdr 10 0) mod M32)) in *.
  assert (Rg : 0 <= ck0 <= 65535) by (apply fold_range; unfold M32; lia).
  rewrite Sp in Em. injection Em as Eck Eh. subst ck.
  assert (Lh : length h = length hdr) by (subst h; rewrite !put16_length; reflexivity).
  assert (Hh : bytes_ok h) by (subst h; repeat apply bytes_ok_put16; auto; lia).
  assert (G : get16 h 10 = ck0) by (subst h; apply get16_put16; [rewrite put16_length|]; lia).
  unfold ip4_verify. rewrite De. cbn [obind]. apply ip4_decode_inv in De. destruct De as (_ & -> & _).
  destruct (ip4_verify_core h Hh ltac:(lia)) as (ck' & out & E1 & _ & E2).
  rewrite E2. rewrite <- Eh in E1. rewrite !ip4_emit_put16 in E1. rewrite Sp in E1.
  injection E1 as E1 _. subst ck'. rewrite G, ck_eqb_refl. reflexivity.
Qed.

(* ------------------------------------------------------------------ a flipped bit is reported *)
Lemma flip_invalid_id : forall W pk off j d, sumlike W ->
  (S off < length pk)%nat -> (j < length pk)%nat -> (1 <= d <= 128 \/ -128 <= d <= -1) ->
  let pk' := upd pk j (nthZ pk j + d) in
  0 <= W (put16 pk off 0) < M32 -> 0 <= W (put16 pk' off 0) < M32 ->
  get16 pk off = FoldChecksum (W (put16 pk off 0) mod M32) ->
  (FoldChecksum (W (put16 pk' off 0) mod M32) =? get16 pk' off) = false.
Proof.
  intros W pk off j d SW L Lj D pk' B B' G.
  destruct (flip_generic W pk off j d SW L Lj D B B') as [[E1 E2]|[E1 E2]]; fold pk' in E1, E2; apply Z.eqb_neq; lia.
Qed.

Definition udpmap (x : Z) : Z := if x =? 0 then 65535 else x.

Lemma flip_invalid_udp : forall W pk off j d, sumlike W ->
  (S off < length pk)%nat -> (j < length pk)%nat -> (1 <= d <= 128 \/ -128 <= d <= -1) ->
  let pk' := upd pk j (nthZ pk j + d) in
  0 < W (put16 pk off 0) < M32 -> 0 < W (put16 pk' off 0) < M32 ->
  get16 pk off = udpmap (FoldChecksum (W (put16 pk off 0) mod M32)) ->
  (udpmap (FoldChecksum (W (put16 pk' off 0) mod M32)) =? get16 pk' off) = false.
Proof.
  intros W pk off j d SW L Lj D pk' B B' G.
  assert (B0 : 0 <= W (put16 pk off 0) < M32) by lia.
  assert (B0' : 0 <= W (put16 pk' off 0) < M32) by lia.
  destruct (flip_generic W pk off j d SW L Lj D B0 B0') as [[E1 E2]|[E1 E2]]; fold pk' in E1, E2; apply Z.eqb_neq.
  - rewrite E1. lia.
  - rewrite E2, G. rewrite !fold_wide in * by lia. unfold udpmap, oc in *.
    repeat match goal with |- context [?a =? ?b] => destruct (Z.eqb_spec a b) end; lia.
Qed.

Lemma tcp_bitflip : forall p bs ck pk i r e, pseudo_ok p -> len_ok p bs -> bytes_ok bs -> (20 <= length bs)%nat ->
  Z.of_nat (length bs) <= 131034 ->
  tcp_emit p bs = Ok (ck, pk) -> (i < 8 * length pk)%nat -> tcp_decode (flip_bit pk i) = Ok (r, e) ->
  tcp_verify p (flip_bit pk i) =
    Ok {| v_valid := false; v_correct := reference p IPProtocolTCP (put16 (flip_bit pk i) 16 0); v_actual := get16 (flip_bit pk i) 16 |}.
Proof.
  intros p bs ck pk i r e Hp Hl H L Lb Em Li De.
  assert (Hpr : 0 <= IPProtocolTCP < 256) by (unfold IPProtocolTCP; lia).
  pose proof (tcp_emit_spec p bs Hp Hl H L) as Sp. cbv zeta in Sp.
  set (ck0 := FoldChecksum (wide p IPProtocolTCP (put16 bs 16 0) mod M32)) in *.
  assert (Rg : 0 <= ck0 <= 65535) by (apply fold_range; unfold M32; lia).
  rewrite Sp in Em. injection Em as Eck Epk. subst ck.
  assert (Lpk : length pk = length bs) by (subst pk; rewrite !put16_length; reflexivity).
  assert (Hpk : bytes_ok pk) by (subst pk; repeat apply bytes_ok_put16; auto; lia).
  assert (Z0 : put16 pk 16 0 = put16 bs 16 0) by (subst pk; rewrite !put16_put16; reflexivity).
  assert (G : get16 pk 16 = FoldChecksum (wide p IPProtocolTCP (put16 pk 16 0) mod M32)).
  { rewrite Z0. subst pk. apply get16_put16; [rewrite put16_length|]; lia. }
  rewrite Lpk in Li. rewrite <- Lpk in Li.
  destruct (flip_bit_spec pk i Hpk Li) as (d & Ef & Lj & Rb & Dd). rewrite Ef in *.
  set (pk' := upd pk (i / 8) (nthZ pk (i / 8) + d)) in *.
  assert (Lpk' : length pk' = length bs) by (unfold pk'; rewrite upd_length; exact Lpk).
  assert (Hpk' : bytes_ok pk') by (unfold pk'; apply bytes_ok_upd; [exact Hpk|unfold byte_ok; lia]).
  unfold tcp_verify. rewrite De. cbn [obind]. apply tcp_decode_inv in De. destruct De as (-> & -> & _).
  assert (Hl' : len_ok p pk') by (unfold len_ok in *; rewrite Lpk'; exact Hl).
  destruct (tcp_verify_core p pk' Hp Hl' Hpk' ltac:(lia)) as (ck' & out & E1 & _ & E2).
  rewrite E2. pose proof (tcp_emit_spec p pk' Hp Hl' Hpk' ltac:(lia)) as Sp'. cbv zeta in Sp'.
  rewrite Sp' in E1. injection E1 as E1 _. subst ck'.
  assert (B : 0 <= wide p IPProtocolTCP (put16 pk 16 0) < M32).
  { apply wide_nowrap; auto. apply bytes_ok_put16; auto; lia. rewrite put16_length; lia. }
  assert (B' : 0 <= wide p IPProtocolTCP (put16 pk' 16 0) < M32).
  { apply wide_nowrap; auto. apply bytes_ok_put16; auto; lia. rewrite put16_length; lia. }
  pose proof (flip_invalid_id (wide p IPProtocolTCP) pk 16 (i / 8)%nat d (wide_sumlike p IPProtocolTCP Hp) ltac:(lia) Lj Dd B B' G) as FI. cbv zeta in FI. fold pk' in FI. rewrite FI.
  rewrite fold_reference; auto.
  - apply bytes_ok_put16; auto; lia.
  - rewrite put16_length; lia.
Qed.

Lemma icmp6_bitflip : forall p bs ck pk i r e, pseudo_ok p -> len_ok p bs -> bytes_ok bs -> (4 <= length bs)%nat ->
  Z.of_nat (length bs) <= 131034 ->
  icmp6_emit p bs = Ok (ck, pk) -> (i < 8 * length pk)%nat -> icmp6_decode (flip_bit pk i) = Ok (r, e) ->
  icmp6_verify p (flip_bit pk i) =
    Ok {| v_valid := false; v_correct := reference p IPProtocolICMPv6 (put16 (flip_bit pk i) 2 0); v_actual := get16 (flip_bit pk i) 2 |}.
Proof.
  intros p bs ck pk i r e Hp Hl H L Lb Em Li De.
  assert (Hpr : 0 <= IPProtocolICMPv6 < 256) by (unfold IPProtocolICMPv6; lia).
  pose proof (icmp6_emit_spec p bs Hp Hl H L) as Sp. cbv zeta in Sp.
  set (ck0 := FoldChecksum (wide p IPProtocolICMPv6 (put16 bs 2 0) mod M32)) in *.
  assert (Rg : 0 <= ck0 <= 65535) by (apply fold_range; unfold M32; lia).
  rewrite Sp in Em. injection Em as Eck Epk. subst ck.
  assert (Lpk : length pk = length bs) by (subst pk; rewrite !put16_length; reflexivity).
  assert (Hpk : bytes_ok pk) by (subst pk; repeat apply bytes_ok_put16; auto; lia).
  assert (Z0 : put16 pk 2 0 = put16 bs 2 0) by (subst pk; rewrite !put16_put16; reflexivity).
  assert (G : get16 pk 2 = FoldChecksum (wide p IPProtocolICMPv6 (put16 pk 2 0) mod M32)).
  { rewrite Z0. subst pk. apply get16_put16; [rewrite put16_length|]; lia. }
  rewrite Lpk in Li. rewrite <- Lpk in Li.
  destruct (flip_bit_spec pk i Hpk Li) as (d & Ef & Lj & Rb & Dd). rewrite Ef in *.
  set (pk' := upd pk (i / 8) (nthZ pk (i / 8) + d)) in *.
  assert (Lpk' : length pk' = length bs) by (unfold pk'; rewrite upd_length; exact Lpk).
  assert (Hpk' : bytes_ok pk') by (unfold pk'; apply bytes_ok_upd; [exact Hpk|unfold byte_ok; lia]).
  unfold icmp6_verify. rewrite De. cbn [obind]. apply icmp6_decode_inv in De. destruct De as (-> & -> & _).
  assert (Hl' : len_ok p pk') by (unfold len_ok in *; rewrite Lpk'; exact Hl).
  destruct (icmp6_verify_core p pk' Hp Hl' Hpk' ltac:(lia)) as (ck' & out & E1 & _ & E2).
  rewrite E2. pose proof (icmp6_emit_spec p pk' Hp Hl' Hpk' ltac:(lia)) as Sp'. cbv zeta in Sp'.
  rewrite Sp' in E1. injection E1 as E1 _. subst ck'.
  assert (B : 0 <= wide p IPProtocolICMPv6 (put16 pk 2 0) < M32).
  { apply wide_nowrap; auto. apply bytes_ok_put16; auto; lia. rewrite put16_length; lia. }
  assert (B' : 0 <= wide p IPProtocolICMPv6 (put16 pk' 2 0) < M32).
  { apply wide_nowrap; auto. apply bytes_ok_put16; auto; lia. rewrite put16_length; lia. }
  pose proof (flip_invalid_id (wide p IPProtocolICMPv6) pk 2 (i / 8)%nat d (wide_sumlike p IPProtocolICMPv6 Hp) ltac:(lia) Lj Dd B B' G) as FI. cbv zeta in FI. fold pk' in FI. rewrite FI.
  rewrite fold_reference; auto.
  - apply bytes_ok_put16; auto; lia.
  - rewrite put16_length; lia.
Qed.

(* UDP: as above unless the stored value has become 0 ("no checksum") or the Length field now
   selects a different region *)
Lemma udp_bitflip : forall p bs ck pk i e, pseudo_ok p -> len_ok p bs -> bytes_ok bs -> (8 <= length bs)%nat ->
  Z.of_nat (length bs) <= 131034 ->
  udp_emit p bs = Ok (ck, pk) -> (i < 8 * length pk)%nat ->
  udp_decode (flip_bit pk i) = Ok (flip_bit pk i, e) -> get16 (flip_bit pk i) 6 <> 0 ->
  udp_verify p (flip_bit pk i) =
    Ok {| v_valid := false; v_correct := udpmap (reference p IPProtocolUDP (put16 (flip_bit pk i) 6 0));
          v_actual := get16 (flip_bit pk i) 6 |}.
Proof.
  intros p bs ck pk i e Hp Hl H L Lb Em Li De Nz.
  assert (Hpr : 0 < IPProtocolUDP < 256) by (unfold IPProtocolUDP; lia).
  pose proof (udp_emit_spec p bs Hp Hl H L) as Sp. cbv zeta in Sp.
  set (f0 := FoldChecksum (wide p IPProtocolUDP (put16 bs 6 0) mod M32)) in *.
  assert (Rf : 0 <= f0 <= 65535) by (apply fold_range; unfold M32; lia).
  fold (udpmap f0) in Sp.
  assert (Rg : 1 <= udpmap f0 <= 65535) by (unfold udpmap; destruct (Z.eqb_spec f0 0); lia).
  rewrite Sp in Em. injection Em as Eck Epk. subst ck.
  assert (Lpk : length pk = length bs) by (subst pk; rewrite !put16_length; reflexivity).
  assert (Hpk : bytes_ok pk) by (subst pk; repeat apply bytes_ok_put16; auto; lia).
  assert (Z0 : put16 pk 6 0 = put16 bs 6 0) by (subst pk; rewrite !put16_put16; reflexivity).
  assert (G : get16 pk 6 = udpmap (FoldChecksum (wide p IPProtocolUDP (put16 pk 6 0) mod M32))).
  { rewrite Z0. fold f0. subst pk. apply get16_put16; [rewrite put16_length|]; lia. }
  destruct (flip_bit_spec pk i Hpk Li) as (d & Ef & Lj & Rb & Dd). rewrite Ef in *.
  set (pk' := upd pk (i / 8) (nthZ pk (i / 8) + d)) in *.
  assert (Lpk' : length pk' = length bs) by (unfold pk'; rewrite upd_length; exact Lpk).
  assert (Hpk' : bytes_ok pk') by (unfold pk'; apply bytes_ok_upd; [exact Hpk|unfold byte_ok; lia]).
  unfold udp_verify. rewrite De. cbn [obind]. apply udp_decode_inv in De. destruct De as (_ & -> & _).
  assert (Hl' : len_ok p pk') by (unfold len_ok in *; rewrite Lpk'; exact Hl).
  destruct (udp_verify_core p pk' Hp Hl' Hpk' ltac:(lia)) as (ck' & out & E1 & _ & E2).
  rewrite E2. pose proof (udp_emit_spec p pk' Hp Hl' Hpk' ltac:(lia)) as Sp'. cbv zeta in Sp'.
  rewrite Sp' in E1. injection E1 as E1 _. subst ck'.
  assert (B : 0 < wide p IPProtocolUDP (put16 pk 6 0) < M32).
  { split; [apply wide_positive; auto; [apply bytes_ok_put16; auto; lia|unfold len_ok in *; rewrite put16_length, Lpk; exact Hl]|].
    apply wide_nowrap; auto; [lia|apply bytes_ok_put16; auto; lia|rewrite put16_length; lia]. }
  assert (B' : 0 < wide p IPProtocolUDP (put16 pk' 6 0) < M32).
  { split; [apply wide_positive; auto; [apply bytes_ok_put16; auto; lia|unfold len_ok in *; rewrite put16_length, Lpk'; exact Hl]|].
    apply wide_nowrap; auto; [lia|apply bytes_ok_put16; auto; lia|rewrite put16_length; lia]. }
  fold (udpmap (FoldChecksum (wide p IPProtocolUDP (put16 pk' 6 0) mod M32))).
  pose proof (flip_invalid_udp (wide p IPProtocolUDP) pk 6 (i / 8)%nat d (wide_sumlike p IPProtocolUDP Hp) ltac:(lia) Lj Dd B B' G) as FI. cbv zeta in FI. fold pk' in FI. rewrite FI.
  assert (Ez : (get16 pk' 6 =? 0) = false) by (apply Z.eqb_neq; exact Nz). rewrite Ez. cbn [orb].
  rewrite fold_reference; auto; [lia|apply bytes_ok_put16; auto; lia|rewrite put16_length; lia].
Qed.

Lemma icmp4_bitflip : forall bs ck pk i r e, bytes_ok bs -> (8 <= length bs)%nat -> Z.of_nat (length bs) <= 131074 ->
  icmp4_emit bs = Ok (ck, pk) -> (i < 8 * length pk)%nat -> icmp4_decode (flip_bit pk i) = Ok (r, e) ->
  icmp4_verify (flip_bit pk i) =
    Ok {| v_valid := false; v_correct := rfc1071 (put16 (flip_bit pk i) 2 0); v_actual := get16 (flip_bit pk i) 2 |}.
Proof.
  intros bs ck pk i r e H L Lb Em Li De.
  pose proof (icmp4_emit_spec bs H L) as Sp. cbv zeta in Sp.
  set (ck0 := FoldChecksum (wordsum (put16 bs 2 0) mod M32)) in *.
  assert (Rg : 0 <= ck0 <= 65535) by (apply fold_range; unfold M32; lia).
  rewrite Sp in Em. injection Em as Eck Epk. subst ck.
  assert (Lpk : length pk = length bs) by (subst pk; rewrite !put16_length; reflexivity).
  assert (Hpk : bytes_ok pk) by (subst pk; repeat apply bytes_ok_put16; auto; lia).
  assert (Z0 : put16 pk 2 0 = put16 bs 2 0) by (subst pk; rewrite !put16_put16; reflexivity).
  assert (G : get16 pk 2 = FoldChecksum (wordsum (put16 pk 2 0) mod M32)).
  { rewrite Z0. subst pk. apply get16_put16; [rewrite put16_length|]; lia. }
  destruct (flip_bit_spec pk i Hpk Li) as (d & Ef & Lj & Rb & Dd). rewrite Ef in *.
  set (pk' := upd pk (i / 8) (nthZ pk (i / 8) + d)) in *.
  assert (Lpk' : length pk' = length bs) by (unfold pk'; rewrite upd_length; exact Lpk).
  assert (Hpk' : bytes_ok pk') by (unfold pk'; apply bytes_ok_upd; [exact Hpk|unfold byte_ok; lia]).
  unfold icmp4_verify. rewrite De. cbn [obind]. apply icmp4_decode_inv in De. destruct De as (-> & -> & _).
  destruct (icmp4_verify_core pk' Hpk' ltac:(lia)) as (ck' & out & E1 & _ & E2).
  rewrite E2. pose proof (icmp4_emit_spec pk' Hpk' ltac:(lia)) as Sp'. cbv zeta in Sp'.
  rewrite Sp' in E1. injection E1 as E1 _. subst ck'.
  assert (B : 0 <= wordsum (put16 pk 2 0) < M32).
  { split; [apply wordsum_nonneg|apply nowrap_of_length]; try (apply bytes_ok_put16; auto; lia); rewrite put16_length; lia. }
  assert (B' : 0 <= wordsum (put16 pk' 2 0) < M32).
  { split; [apply wordsum_nonneg|apply nowrap_of_length]; try (apply bytes_ok_put16; auto; lia); rewrite put16_length; lia. }
  pose proof (flip_invalid_id wordsum pk 2 (i / 8)%nat d wordsum_sumlike ltac:(lia) Lj Dd B B' G) as FI. cbv zeta in FI. fold pk' in FI. rewrite FI.
  rewrite fold_reference_plain; auto; [apply bytes_ok_put16; auto; lia|rewrite put16_length; lia].
Qed.

(* GRE: as above when the flipped packet still carries the checksum-present flag *)
Lemma gre_bitflip : forall bs ck pk i r e, bytes_ok bs -> (8 <= length bs)%nat -> 128 <= nthZ bs 0 ->
  Z.of_nat (length bs) <= 131074 ->
  gre_emit bs = Ok (Some ck, pk) -> (i < 8 * length pk)%nat -> gre_decode (flip_bit pk i) = Ok (r, e, true) ->
  gre_verify (flip_bit pk i) =
    Ok {| v_valid := false; v_correct := rfc1071 (put16 (flip_bit pk i) 4 0); v_actual := get16 (flip_bit pk i) 4 |}.
Proof.
  intros bs ck pk i r e H L C Lb Em Li De.
  pose proof (gre_emit_spec bs H L C) as Sp. cbv zeta in Sp.
  set (ck0 := FoldChecksum (wordsum (put16 bs 4 0) mod M32)) in *.
  assert (Rg : 0 <= ck0 <= 65535) by (apply fold_range; unfold M32; lia).
  rewrite Sp in Em. injection Em as Eck Epk. subst ck.
  assert (Lpk : length pk = length bs) by (subst pk; rewrite !put16_length; reflexivity).
  assert (Hpk : bytes_ok pk) by (subst pk; repeat apply bytes_ok_put16; auto; lia).
  assert (Z0 : put16 pk 4 0 = put16 bs 4 0) by (subst pk; rewrite !put16_put16; reflexivity).
  assert (G : get16 pk 4 = FoldChecksum (wordsum (put16 pk 4 0) mod M32)).
  { rewrite Z0. subst pk. apply get16_put16; [rewrite put16_length|]; lia. }
  destruct (flip_bit_spec pk i Hpk Li) as (d & Ef & Lj & Rb & Dd). rewrite Ef in *.
  set (pk' := upd pk (i / 8) (nthZ pk (i / 8) + d)) in *.
  assert (Lpk' : length pk' = length bs) by (unfold pk'; rewrite upd_length; exact Lpk).
  assert (Hpk' : bytes_ok pk') by (unfold pk'; apply bytes_ok_upd; [exact Hpk|unfold byte_ok; lia]).
  unfold gre_verify. rewrite De. cbn [obind]. apply gre_decode_inv in De. destruct De as (-> & EC & De).
  destruct (De eq_refl) as (-> & _).
  destruct (gre_verify_core pk' Hpk' ltac:(lia) ltac:(lia)) as (ck' & out & E1 & _ & E2).
  rewrite E2. pose proof (gre_emit_spec pk' Hpk' ltac:(lia) ltac:(lia)) as Sp'. cbv zeta in Sp'.
  rewrite Sp' in E1. injection E1 as E1 _. subst ck'.
  assert (B : 0 <= wordsum (put16 pk 4 0) < M32).
  { split; [apply wordsum_nonneg|apply nowrap_of_length]; try (apply bytes_ok_put16; auto; lia); rewrite put16_length; lia. }
  assert (B' : 0 <= wordsum (put16 pk' 4 0) < M32).
  { split; [apply wordsum_nonneg|apply nowrap_of_length]; try (apply bytes_ok_put16; auto; lia); rewrite put16_length; lia. }
  pose proof (flip_invalid_id wordsum pk 4 (i / 8)%nat d wordsum_sumlike ltac:(lia) Lj Dd B B' G) as FI. cbv zeta in FI. fold pk' in FI. rewrite FI.
  rewrite fold_reference_plain; auto; [apply bytes_ok_put16; auto; lia|rewrite put16_length; lia].
Qed.

(* IPv4 header: a flipped header bit is reported when the decoder still takes the same extent *)
Lemma ip4_bitflip : forall hdr ck h i payload e, bytes_ok hdr -> (20 <= length hdr)%nat -> Z.of_nat (length hdr) <= 131074 ->
  ip4_emit hdr = Ok (ck, h) -> (i < 8 * length h)%nat ->
  ip4_decode (flip_bit h i ++ payload) = Ok (flip_bit h i, e) ->
  ip4_verify (flip_bit h i ++ payload) =
    Ok {| v_valid := false; v_correct := rfc1071 (put16 (flip_bit h i) 10 0); v_actual := get16 (flip_bit h i) 10 |}.
Proof.
  intros hdr ck pk i payload e H L Lb Em Li De.
  pose proof (ip4_emit_spec hdr H L) as Sp. cbv zeta in Sp.
  set (ck0 := FoldChecksum (wordsum (put16 hdr 10 0) mod M32)) in *.
  assert (Rg : 0 <= ck0 <= 65535) by (apply fold_range; unfold M32; lia).
  rewrite Sp in Em. injection Em as Eck Epk. subst ck.
  assert (Lpk : length pk = length hdr) by (subst pk; rewrite !put16_length; reflexivity).
  assert (Hpk : bytes_ok pk) by (subst pk; repeat apply bytes_ok_put16; auto; lia).
  assert (Z0 : put16 pk 10 0 = put16 hdr 10 0) by (subst pk; rewrite !put16_put16; reflexivity).
  assert (G : get16 pk 10 = FoldChecksum (wordsum (put16 pk 10 0) mod M32)).
  { rewrite Z0. subst pk. apply get16_put16; [rewrite put16_length|]; lia. }
  destruct (flip_bit_spec pk i Hpk Li) as (d & Ef & Lj & Rb & Dd). rewrite Ef in *.
  set (pk' := upd pk (i / 8) (nthZ pk (i / 8) + d)) in *.
  assert (Lpk' : length pk' = length hdr) by (unfold pk'; rewrite upd_length; exact Lpk).
  assert (Hpk' : bytes_ok pk') by (unfold pk'; apply bytes_ok_upd; [exact Hpk|unfold byte_ok; lia]).
  unfold ip4_verify. rewrite De. cbn [obind]. apply ip4_decode_inv in De. destruct De as (_ & -> & _).
  destruct (ip4_verify_core pk' Hpk' ltac:(lia)) as (ck' & out & E1 & _ & E2).
  rewrite E2. pose proof (ip4_emit_spec pk' Hpk' ltac:(lia)) as Sp'. cbv zeta in Sp'.
  rewrite Sp' in E1. injection E1 as E1 _. subst ck'.
  assert (B : 0 <= wordsum (put16 pk 10 0) < M32).
  { split; [apply wordsum_nonneg|apply nowrap_of_length]; try (apply bytes_ok_put16; auto; lia); rewrite put16_length; lia. }
  assert (B' : 0 <= wordsum (put16 pk' 10 0) < M32).
  { split; [apply wordsum_nonneg|apply nowrap_of_length]; try (apply bytes_ok_put16; auto; lia); rewrite put16_length; lia. }
  pose proof (flip_invalid_id wordsum pk 10 (i / 8)%nat d wordsum_sumlike ltac:(lia) Lj Dd B B' G) as FI. cbv zeta in FI. fold pk' in FI. rewrite FI.
  rewrite fold_reference_plain; auto; [apply bytes_ok_put16; auto; lia|rewrite put16_length; lia].
Qed.

