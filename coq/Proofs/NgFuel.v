(* Fuel is only a proof device: a run that does not end out of fuel is the run with any larger fuel.
   [le9 bad p q]: q is p with some leaves satisfying [bad] (out of fuel) replaced by anything. *)
From GP Require Import Base NgModel NgIoProofs NgExec.
From Coq Require Import Lia.
Open Scope Z_scope.

Section Le9.
Context {X : Type} (bad : X -> Prop).
Inductive le9 : io X -> io X -> Prop :=
| le9_bad x q : bad x -> le9 (Ret x) q
| le9_ret x : le9 (Ret x) (Ret x)
| le9_rd n k k' : (forall bs st, le9 (k bs st) (k' bs st)) -> le9 (Rd n k) (Rd n k')
| le9_disc n k k' : (forall st, le9 (k st) (k' st)) -> le9 (Disc n k) (Disc n k')
| le9_until k k' : (forall bs st, le9 (k bs st) (k' bs st)) -> le9 (Until0 k) (Until0 k')
| le9_peek k k' : (forall bs st, le9 (k bs st) (k' bs st)) -> le9 (Peek2 k) (Peek2 k')
| le9_alloc a sn bl k k' : le9 k k' -> le9 (Alloc a sn bl k) (Alloc a sn bl k').

Lemma le9_refl p : le9 p p.
Proof. induction p; [apply le9_ret|constructor; auto..]. Qed.

Lemma le9_trans p q : le9 p q -> forall r, le9 q r -> le9 p r.
Proof.
  induction 1 as [x q Hb|x|n k k' H IH|n k k' H IH|k k' H IH|k k' H IH|a sn bl k k' H IH]; intros r Hr.
  - apply le9_bad; exact Hb.
  - exact Hr.
  - inversion Hr; subst. constructor. intros; apply IH; auto.
  - inversion Hr; subst. constructor. intros; apply IH; auto.
  - inversion Hr; subst. constructor. intros; apply IH; auto.
  - inversion Hr; subst. constructor. intros; apply IH; auto.
  - inversion Hr; subst. constructor. apply IH; auto.
Qed.

Lemma le9_run p q : le9 p q -> forall l, ~ bad (fst (run_d p l)) -> run_d q l = run_d p l.
Proof.
  induction 1 as [x q Hb|x|n k k' H IH|n k k' H IH|k k' H IH|k k' H IH|a sn bl k k' H IH]; intros l Hn; cbn [run_d] in *.
  - exfalso. apply Hn. exact Hb.
  - reflexivity.
  - destruct (n <=? 0); [apply IH; exact Hn|]. destruct (n <=? zlen l); apply IH; exact Hn.
  - destruct (n <=? 0); [apply IH; exact Hn|]. destruct (n <=? zlen l); apply IH; exact Hn.
  - destruct (split0 l) as [[a r]|]; apply IH; exact Hn.
  - destruct (2 <=? zlen l); apply IH; exact Hn.
  - apply IH; exact Hn.
Qed.
End Le9.

Lemma le9_iobind {X Y} (badX : X -> Prop) (badY : Y -> Prop) p p' (g g' : X -> io Y) :
  le9 badX p p' -> (forall x, badX x -> exists y, g x = Ret y /\ badY y) -> (forall x, le9 badY (g x) (g' x)) ->
  le9 badY (iobind p g) (iobind p' g').
Proof.
  intros H Hb Hg. induction H as [x q Hx|x|n k k' H IH|n k k' H IH|k k' H IH|k k' H IH|a sn bl k k' H IH]; cbn [iobind].
  - destruct (Hb x Hx) as (y & -> & Hy). apply le9_bad; exact Hy.
  - apply Hg.
  - constructor; intros; apply IH.
  - constructor; intros; apply IH.
  - constructor; intros; apply IH.
  - constructor; intros; apply IH.
  - constructor; apply IH.
Qed.

(* ---- reader actions *)
Definition bad_sm {A} (r : rst * outcome A) : Prop := snd r = Err 9.
Notation "p ⊑ q" := (le9 bad_sm p q) (at level 70).

Lemma le9_sbind {A B} (m m' : SM A) (f f' : A -> SM B) s :
  m s ⊑ m' s -> (forall a s', f a s' ⊑ f' a s') -> sbind m f s ⊑ sbind m' f' s.
Proof.
  intros Hm Hf. unfold sbind. eapply le9_iobind; [exact Hm| |].
  - intros [s0 o] Hbad. unfold bad_sm in Hbad. cbn [snd fst] in *. subst o. eexists; split; [reflexivity|reflexivity].
  - intros [s0 o]. cbn [snd fst]. destruct o; [apply Hf|apply le9_refl|apply le9_refl].
Qed.

Lemma le9_fail9 {A} (s : rst) (q : io (rst * outcome A)) : sfail 9 s ⊑ q.
Proof. apply le9_bad. reflexivity. Qed.

Ltac mono :=
  repeat first
  [ progress cbv beta
  | match goal with
    | |- le9 _ (sbind _ _ _) (sbind _ _ _) => apply le9_sbind; [|intros ? ?]
    | |- le9 _ (sfail 9 _) _ => apply le9_fail9
    | |- le9 _ ((if ?b then _ else _) _) ((if ?b then _ else _) _) => destruct b
    | |- le9 _ (match ?x with _ => _ end _) (match ?x with _ => _ end _) => destruct x
    | |- le9 _ ?p ?p => apply le9_refl
    | H : forall _, _ |- _ => solve [apply H | exact (H _) | exact (H _ _) | exact (H _ _ _) | exact (H _ _ _ _)]
    end ].

(* ---- every fuelled function, one more unit of fuel *)
Lemma shb_opts_mono : forall F sec s, shb_opts F sec s ⊑ shb_opts (S F) sec s.
Proof. induction F as [|F IH]; intros sec s; [apply le9_fail9|]. cbn [shb_opts]. mono. Qed.
Lemma idb_opts_mono : forall F i s, idb_opts F i s ⊑ idb_opts (S F) i s.
Proof. induction F as [|F IH]; intros i s; [apply le9_fail9|]. cbn [idb_opts]. mono. Qed.
Lemma pkt_opts_mono : forall F o s, pkt_opts F o s ⊑ pkt_opts (S F) o s.
Proof. induction F as [|F IH]; intros o s; [apply le9_fail9|]. cbn [pkt_opts]. mono. Qed.
Lemma isb_opts_mono : forall F id i st s, isb_opts F id i st s ⊑ isb_opts (S F) id i st s.
Proof. induction F as [|F IH]; intros id i st s; [apply le9_fail9|]. cbn [isb_opts]. mono. Qed.

Lemma nrb_names_mono : forall F len acc s, nrb_names F len acc s ⊑ nrb_names (S F) len acc s.
Proof.
  induction F as [|F IH]; intros len acc s.
  - cbn [nrb_names]. destruct (len <=? 0); [apply le9_refl|apply le9_fail9].
  - cbn [nrb_names] in *. destruct (len <=? 0); [apply le9_refl|]. mono.
Qed.

Lemma nrb_loop_mono_fuel F : forall fuel s, nrb_loop F fuel s ⊑ nrb_loop F (S fuel) s.
Proof. induction fuel as [|f IH]; intros s; [apply le9_fail9|]. cbn [nrb_loop]. mono. Qed.
Lemma nrb_loop_mono_F F : forall fuel s, nrb_loop F fuel s ⊑ nrb_loop (S F) fuel s.
Proof. pose proof nrb_names_mono as N. induction fuel as [|f IH]; intros s; [apply le9_refl|]. cbn [nrb_loop]. mono. Qed.

Lemma readNRB_mono F s : readNRB F s ⊑ readNRB (S F) s.
Proof.
  unfold readNRB. apply le9_sbind; [|intros; apply le9_refl].
  eapply le9_trans; [apply nrb_loop_mono_fuel|apply nrb_loop_mono_F].
Qed.

Lemma readIDB_mono F s : readIDB F s ⊑ readIDB (S F) s.
Proof. pose proof idb_opts_mono as N. unfold readIDB. mono. Qed.
Lemma readISB_mono F s : readISB F s ⊑ readISB (S F) s.
Proof. pose proof isb_opts_mono as N. unfold readISB. mono. Qed.

Lemma skipSection_mono : forall F s, skipSection F s ⊑ skipSection (S F) s.
Proof. induction F as [|F IH]; intros s; [apply le9_fail9|]. cbn [skipSection]. mono. Qed.

Lemma firstInterface_mono_fuel ro F : forall fuel s, firstInterface ro F fuel s ⊑ firstInterface ro F (S fuel) s.
Proof. destruct ro as [[] [] [] []]; induction fuel as [|f IH]; intros s; try apply le9_fail9; cbn [firstInterface ro_mixed ro_errmis ro_skipver ro_zc negb]; mono. Qed.
Lemma firstInterface_mono_F ro F : forall fuel s, firstInterface ro F fuel s ⊑ firstInterface ro (S F) fuel s.
Proof.
  pose proof readIDB_mono as N1. pose proof readNRB_mono as N2.
  destruct ro as [[] [] [] []]; induction fuel as [|f IH]; intros s; try apply le9_refl; cbn [firstInterface ro_mixed ro_errmis ro_skipver ro_zc negb]; mono.
Qed.

Lemma rsh_version_mono_fuel ro F : forall fuel s, rsh_version ro F fuel s ⊑ rsh_version ro F (S fuel) s.
Proof. destruct ro as [[] [] [] []]; induction fuel as [|f IH]; intros s; try apply le9_fail9; cbn [rsh_version ro_mixed ro_errmis ro_skipver ro_zc negb]; mono. Qed.
Lemma rsh_version_mono_F ro F : forall fuel s, rsh_version ro F fuel s ⊑ rsh_version ro (S F) fuel s.
Proof. pose proof skipSection_mono as N. destruct ro as [[] [] [] []]; induction fuel as [|f IH]; intros s; try apply le9_refl; cbn [rsh_version ro_mixed ro_errmis ro_skipver ro_zc negb]; mono. Qed.

Lemma readSectionHeader_mono ro F s : readSectionHeader ro F s ⊑ readSectionHeader ro (S F) s.
Proof.
  unfold readSectionHeader. apply le9_sbind; [apply le9_refl|intros _ s1].
  apply le9_sbind; [eapply le9_trans; [apply rsh_version_mono_fuel|apply rsh_version_mono_F]|intros _ s2].
  apply le9_sbind; [apply shb_opts_mono|intros sec s3]. mono.
  eapply le9_trans; [apply firstInterface_mono_fuel|apply firstInterface_mono_F].
Qed.

Lemma newReader_mono ro F s : newReader ro F s ⊑ newReader ro (S F) s.
Proof. pose proof readSectionHeader_mono as N. unfold newReader. mono. Qed.

Lemma readPacketHeader_mono_fuel ro F : forall fuel s, readPacketHeader ro F fuel s ⊑ readPacketHeader ro F (S fuel) s.
Proof. destruct ro as [[] [] [] []]; induction fuel as [|f IH]; intros s; try apply le9_fail9; cbn [readPacketHeader ro_mixed ro_errmis ro_skipver ro_zc negb]; cbv zeta; mono. Qed.
Lemma readPacketHeader_mono_F ro F : forall fuel s, readPacketHeader ro F fuel s ⊑ readPacketHeader ro (S F) fuel s.
Proof.
  pose proof readIDB_mono as N1. pose proof readNRB_mono as N2. pose proof readISB_mono as N3. pose proof readSectionHeader_mono as N4.
  destruct ro as [[] [] [] []]; induction fuel as [|f IH]; intros s; try apply le9_refl; cbn [readPacketHeader ro_mixed ro_errmis ro_skipver ro_zc negb]; cbv zeta; mono.
Qed.

Lemma readPacket_mono ro F s : readPacket ro F s ⊑ readPacket ro (S F) s.
Proof.
  pose proof pkt_opts_mono as N. unfold readPacket.
  apply le9_sbind; [eapply le9_trans; [apply readPacketHeader_mono_fuel|apply readPacketHeader_mono_F]|intros _ s1]. mono.
Qed.

(* ---- the read loop and the session *)
Definition bad_ra (x : list pkt * Z * rst) : Prop := snd (fst x) = 9.
Definition bad_se (x : Z * list pkt * Z * rst) : Prop := snd (fst x) = 9.

Lemma read_all_step ro F F' fuel fuel' acc s :
  (forall s0, readPacket ro F s0 ⊑ readPacket ro F' s0) ->
  (forall acc0 s0, le9 bad_ra (read_all ro F fuel acc0 s0) (read_all ro F' fuel' acc0 s0)) ->
  le9 bad_ra (read_all ro F (S fuel) acc s) (read_all ro F' (S fuel') acc s).
Proof.
  intros Hp Hr. cbn [read_all]. eapply le9_iobind; [apply Hp| |].
  - intros [s0 o] Hb. unfold bad_sm in Hb. cbn [snd fst] in *. subst o. eexists; split; [reflexivity|reflexivity].
  - intros [s0 o]. cbn [snd fst]. destruct o; [apply Hr|apply le9_refl|apply le9_refl].
Qed.

Lemma read_all_mono_fuel ro F : forall fuel acc s, le9 bad_ra (read_all ro F fuel acc s) (read_all ro F (S fuel) acc s).
Proof.
  induction fuel as [|f IH]; intros acc s; [apply le9_bad; reflexivity|].
  apply read_all_step; [intros; apply le9_refl|exact IH].
Qed.
Lemma read_all_mono_F ro F : forall fuel acc s, le9 bad_ra (read_all ro F fuel acc s) (read_all ro (S F) fuel acc s).
Proof.
  induction fuel as [|f IH]; intros acc s; [apply le9_refl|].
  apply read_all_step; [intros; apply readPacket_mono|exact IH].
Qed.

Lemma session_mono ro F : le9 bad_se (session ro F) (session ro (S F)).
Proof.
  unfold session. eapply le9_iobind; [apply newReader_mono| |].
  - intros [s0 o] Hb. unfold bad_sm in Hb. cbn [snd fst] in *. subst o. eexists; split; [reflexivity|reflexivity].
  - intros [s0 o]. cbn [snd fst]. destruct o; [|apply le9_refl|apply le9_refl].
    eapply le9_iobind; [eapply le9_trans; [apply read_all_mono_fuel|apply read_all_mono_F]| |].
    + intros x Hb. eexists; split; [reflexivity|exact Hb].
    + intros x. apply le9_refl.
Qed.

Lemma session_mono_le ro F F' : (F <= F')%nat -> le9 bad_se (session ro F) (session ro F').
Proof.
  induction 1 as [|F' H IH]; [apply le9_refl|]. eapply le9_trans; [exact IH|apply session_mono].
Qed.

(* a session that does not end out of fuel is the session with any larger fuel *)
Theorem session_fuel_indep ro F F' l : (F <= F')%nat -> snd (fst (fst (run_d (session ro F) l))) <> 9 ->
  run_d (session ro F') l = run_d (session ro F) l.
Proof. intros H Hn. apply (le9_run bad_se _ _ (session_mono_le ro F F' H)). exact Hn. Qed.
