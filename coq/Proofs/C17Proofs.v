(* C17: lemmas about the Endpoint/Flow model: well-formedness, equality, order, hash. *)
From GP Require Import Base ListX C17Model.
From Coq Require Import Lia ZifyBool ZifyNat.
Open Scope Z_scope.

(* ---------------------------------------------------------------- lists *)
Lemma firstn_repeat_le {A} (x : A) k n : (k <= n)%nat -> firstn k (repeat x n) = repeat x k.
Proof.
  revert n; induction k as [|k IH]; intros n H; [reflexivity|].
  destruct n as [|n]; [lia|]. cbn. f_equal. apply IH; lia.
Qed.

Lemma Forall_repeat {A} (P : A -> Prop) x n : P x -> Forall P (repeat x n).
Proof. intros H. induction n; cbn; constructor; auto. Qed.

Lemma Forall_firstn {A} (P : A -> Prop) n l : Forall P l -> Forall P (firstn n l).
Proof.
  revert l; induction n as [|n IH]; intros l H; cbn; [constructor|].
  destruct l; [constructor|]. inversion H; subst. constructor; auto.
Qed.

Lemma Forall_skipn {A} (P : A -> Prop) n l : Forall P l -> Forall P (skipn n l).
Proof.
  revert l; induction n as [|n IH]; intros l H; cbn; [assumption|].
  destruct l; [constructor|]. inversion H; subst. auto.
Qed.

Lemma Forall_slice {A} (P : A -> Prop) a b l : Forall P l -> Forall P (slice l a b).
Proof. intros H. unfold slice. apply Forall_skipn, Forall_firstn, H. Qed.

Lemma list_eqb_eq a b : list_eqb a b = true <-> a = b.
Proof.
  revert b; induction a as [|x a IH]; intros [|y b]; cbn; split; intros H; try reflexivity; try discriminate.
  - apply andb_true_iff in H. destruct H as [H1 H2]. apply Z.eqb_eq in H1. apply IH in H2. congruence.
  - inversion H; subst. apply andb_true_iff. split; [apply Z.eqb_refl|apply IH; reflexivity].
Qed.

(* ---------------------------------------------------------------- copy16 and well-formedness *)
Lemma copy16_eq raw : (length raw <= 16)%nat -> copy16 raw = raw ++ repeat 0 (16 - length raw).
Proof.
  intros H. unfold copy16, max_endpoint_size.
  rewrite firstn_app. rewrite firstn_all2 by lia. f_equal.
  apply firstn_repeat_le. lia.
Qed.

Definition wf_arr (len : nat) (raw : list Z) : Prop :=
  (len <= 16)%nat /\ length raw = 16%nat /\ bytes_ok raw /\ skipn len raw = repeat 0 (16 - len).
Definition wf_e (e : endpoint) : Prop := int64_ok (e_typ e) /\ wf_arr (e_len e) (e_raw e).
Definition wf_f (f : flow) : Prop :=
  int64_ok (f_typ f) /\ wf_arr (f_slen f) (f_src f) /\ wf_arr (f_dlen f) (f_dst f).

Lemma byte_ok_0 : byte_ok 0.
Proof. unfold byte_ok; lia. Qed.

Lemma copy16_wf raw : (length raw <= 16)%nat -> bytes_ok raw -> wf_arr (length raw) (copy16 raw).
Proof.
  intros H Hb. rewrite copy16_eq by assumption. unfold wf_arr. repeat split.
  - assumption.
  - rewrite app_length, repeat_length. lia.
  - apply Forall_app. split; [assumption|]. apply Forall_repeat, byte_ok_0.
  - rewrite skipn_app. rewrite skipn_all. rewrite Nat.sub_diag. reflexivity.
Qed.

Lemma copy16_firstn raw : (length raw <= 16)%nat -> firstn (length raw) (copy16 raw) = raw.
Proof.
  intros H. rewrite copy16_eq by assumption. rewrite firstn_app, Nat.sub_diag, firstn_all. cbn. apply app_nil_r.
Qed.

(* two well-formed arrays with equal live prefixes are equal, and so are the lengths *)
Lemma wf_arr_inj la ra lb rb :
  wf_arr la ra -> wf_arr lb rb -> firstn la ra = firstn lb rb -> la = lb /\ ra = rb.
Proof.
  intros (Ha1 & Ha2 & _ & Ha4) (Hb1 & Hb2 & _ & Hb4) E.
  assert (L : la = lb).
  { assert (X : length (firstn la ra) = length (firstn lb rb)) by (rewrite E; reflexivity).
    rewrite !firstn_length in X. lia. }
  split; [assumption|]. subst lb.
  rewrite <- (firstn_skipn la ra), <- (firstn_skipn la rb). rewrite E, Ha4, Hb4. reflexivity.
Qed.

(* ---------------------------------------------------------------- constructors *)
Lemma new_endpoint_ok t raw : (length raw <= 16)%nat ->
  new_endpoint t raw = Ok (mkE t (length raw) (copy16 raw)).
Proof.
  intros H. unfold new_endpoint, max_endpoint_size.
  destruct (16 <? length raw)%nat eqn:E; [apply Nat.ltb_lt in E; lia|reflexivity].
Qed.

Lemma new_endpoint_reject t raw : (16 < length raw)%nat -> new_endpoint t raw = Panic 1.
Proof.
  intros H. unfold new_endpoint, max_endpoint_size.
  destruct (16 <? length raw)%nat eqn:E; [reflexivity|apply Nat.ltb_ge in E; lia].
Qed.

Lemma new_endpoint_inv t raw e : new_endpoint t raw = Ok e ->
  (length raw <= 16)%nat /\ e = mkE t (length raw) (copy16 raw).
Proof.
  unfold new_endpoint, max_endpoint_size.
  destruct (16 <? length raw)%nat eqn:E; [discriminate|]. apply Nat.ltb_ge in E.
  intros H; inversion H; auto.
Qed.

Lemma new_endpoint_faithful t raw e : new_endpoint t raw = Ok e ->
  e_typ e = t /\ e_rawbytes e = raw.
Proof.
  intros H. apply new_endpoint_inv in H. destruct H as [L ->]. split; [reflexivity|].
  unfold e_rawbytes; cbn. apply copy16_firstn; assumption.
Qed.

Lemma new_endpoint_wf t raw e : int64_ok t -> bytes_ok raw -> new_endpoint t raw = Ok e -> wf_e e.
Proof.
  intros Ht Hb H. apply new_endpoint_inv in H. destruct H as [L ->].
  split; cbn; [assumption|apply copy16_wf; assumption].
Qed.

Lemma new_flow_ok t s d : (length s <= 16)%nat -> (length d <= 16)%nat ->
  new_flow t s d = Ok (mkF t (length s) (length d) (copy16 s) (copy16 d)).
Proof.
  intros H1 H2. unfold new_flow, max_endpoint_size.
  destruct (16 <? length s)%nat eqn:E1; [apply Nat.ltb_lt in E1; lia|].
  destruct (16 <? length d)%nat eqn:E2; [apply Nat.ltb_lt in E2; lia|]. reflexivity.
Qed.

Lemma new_flow_reject t s d : (16 < length s)%nat \/ (16 < length d)%nat -> new_flow t s d = Panic 2.
Proof.
  intros H. unfold new_flow, max_endpoint_size.
  destruct (16 <? length s)%nat eqn:E1; [reflexivity|].
  destruct (16 <? length d)%nat eqn:E2; [reflexivity|].
  apply Nat.ltb_ge in E1, E2. lia.
Qed.

Lemma new_flow_inv t s d f : new_flow t s d = Ok f ->
  (length s <= 16)%nat /\ (length d <= 16)%nat /\ f = mkF t (length s) (length d) (copy16 s) (copy16 d).
Proof.
  unfold new_flow, max_endpoint_size.
  destruct (16 <? length s)%nat eqn:E1; [discriminate|].
  destruct (16 <? length d)%nat eqn:E2; [discriminate|].
  apply Nat.ltb_ge in E1, E2. cbn. intros H; inversion H; auto.
Qed.

Lemma new_flow_faithful t s d f : new_flow t s d = Ok f ->
  f_typ f = t /\ f_srcbytes f = s /\ f_dstbytes f = d.
Proof.
  intros H. apply new_flow_inv in H. destruct H as (L1 & L2 & ->).
  unfold f_srcbytes, f_dstbytes; cbn. repeat split; apply copy16_firstn; assumption.
Qed.

Lemma new_flow_wf t s d f : int64_ok t -> bytes_ok s -> bytes_ok d -> new_flow t s d = Ok f -> wf_f f.
Proof.
  intros Ht Hs Hd H. apply new_flow_inv in H. destruct H as (L1 & L2 & ->).
  repeat split; cbn; try apply Ht; try (apply copy16_wf; assumption).
Qed.

Lemma new_flow_no_err t s d c : new_flow t s d <> Err c.
Proof. unfold new_flow. destruct (_ || _)%bool; discriminate. Qed.

(* ---------------------------------------------------------------- equality *)
Lemma e_eqb_eq a b : e_eqb a b = true <-> a = b.
Proof.
  destruct a as [ta la ra], b as [tb lb rb]. unfold e_eqb; cbn. split.
  - intros H. apply andb_true_iff in H. destruct H as [H H3]. apply andb_true_iff in H. destruct H as [H1 H2].
    apply Z.eqb_eq in H1. apply Nat.eqb_eq in H2. apply list_eqb_eq in H3. congruence.
  - intros H; inversion H; subst. rewrite Z.eqb_refl, Nat.eqb_refl. cbn. apply list_eqb_eq; reflexivity.
Qed.

Lemma f_eqb_eq a b : f_eqb a b = true <-> a = b.
Proof.
  destruct a as [ta sa da ra qa], b as [tb sb db rb qb]. unfold f_eqb; cbn. split.
  - intros H. repeat (apply andb_true_iff in H; let H' := fresh "H" in destruct H as [H H']).
    apply Z.eqb_eq in H. apply Nat.eqb_eq in H2, H3. apply list_eqb_eq in H0, H1. congruence.
  - intros H; inversion H; subst. rewrite Z.eqb_refl, !Nat.eqb_refl. cbn.
    apply andb_true_iff; split; apply list_eqb_eq; reflexivity.
Qed.

Lemma wf_e_eq_iff a b : wf_e a -> wf_e b ->
  (a = b <-> e_typ a = e_typ b /\ e_rawbytes a = e_rawbytes b).
Proof.
  intros [_ Wa] [_ Wb]. split; [intros ->; auto|].
  intros [Ht Hr]. unfold e_rawbytes in Hr.
  destruct (wf_arr_inj _ _ _ _ Wa Wb Hr) as [L R].
  destruct a, b; cbn in *; congruence.
Qed.

Lemma wf_f_eq_iff a b : wf_f a -> wf_f b ->
  (a = b <-> f_typ a = f_typ b /\ f_srcbytes a = f_srcbytes b /\ f_dstbytes a = f_dstbytes b).
Proof.
  intros (_ & Wa1 & Wa2) (_ & Wb1 & Wb2). split; [intros ->; auto|].
  intros (Ht & Hs & Hd). unfold f_srcbytes, f_dstbytes in *.
  destruct (wf_arr_inj _ _ _ _ Wa1 Wb1 Hs) as [L1 R1].
  destruct (wf_arr_inj _ _ _ _ Wa2 Wb2 Hd) as [L2 R2].
  destruct a, b; cbn in *; congruence.
Qed.

(* ---------------------------------------------------------------- round trips, reverse *)
Lemma endpoints_roundtrip f :
  flow_from_endpoints (fst (endpoints f)) (snd (endpoints f)) = Ok f.
Proof. destruct f. unfold flow_from_endpoints, endpoints; cbn. rewrite Z.eqb_refl. reflexivity. Qed.

Lemma from_endpoints_ok a b : e_typ a = e_typ b ->
  exists f, flow_from_endpoints a b = Ok f /\ endpoints f = (a, b).
Proof.
  intros H. unfold flow_from_endpoints. rewrite H, Z.eqb_refl. cbn.
  eexists; split; [reflexivity|]. unfold endpoints; cbn. destruct a, b; cbn in *; subst; reflexivity.
Qed.

Lemma from_endpoints_mismatch a b : e_typ a <> e_typ b -> flow_from_endpoints a b = Err 1.
Proof.
  intros H. unfold flow_from_endpoints. destruct (e_typ a =? e_typ b) eqn:E; [apply Z.eqb_eq in E; contradiction|reflexivity].
Qed.

Lemma reverse_invol f : reverse (reverse f) = f.
Proof. destruct f; reflexivity. Qed.

Lemma reverse_endpoints f : endpoints (reverse f) = (snd (endpoints f), fst (endpoints f)).
Proof. destruct f; reflexivity. Qed.

Lemma wf_endpoints f : wf_f f -> wf_e (fst (endpoints f)) /\ wf_e (snd (endpoints f)).
Proof. intros (Ht & W1 & W2). split; split; cbn; assumption. Qed.

Lemma wf_reverse f : wf_f f -> wf_f (reverse f).
Proof. intros (Ht & W1 & W2). repeat split; cbn; first [apply Ht | apply W1 | apply W2]. Qed.

Lemma wf_from_endpoints a b f : wf_e a -> wf_e b -> flow_from_endpoints a b = Ok f -> wf_f f.
Proof.
  intros [Ta Wa] [Tb Wb]. unfold flow_from_endpoints. destruct (negb _); [discriminate|].
  intros H; inversion H; subst. repeat split; cbn; first [apply Ta | apply Wa | apply Wb].
Qed.

(* ---------------------------------------------------------------- hash *)
Lemma hash_sym f : f_fast_hash (reverse f) = f_fast_hash f.
Proof. destruct f. unfold f_fast_hash, f_srcbytes, f_dstbytes; cbn. rewrite Z.add_comm. reflexivity. Qed.

Lemma two64_pos : 0 < two64.
Proof. reflexivity. Qed.

Lemma e_hash_range a : 0 <= e_fast_hash a < two64.
Proof. unfold e_fast_hash. apply Z.mod_pos_bound, two64_pos. Qed.

Lemma f_hash_range f : 0 <= f_fast_hash f < two64.
Proof. unfold f_fast_hash. apply Z.mod_pos_bound, two64_pos. Qed.

Lemma e_hash_ext a b : e_typ a = e_typ b -> e_rawbytes a = e_rawbytes b -> e_fast_hash a = e_fast_hash b.
Proof. intros H1 H2. unfold e_fast_hash. rewrite H1, H2. reflexivity. Qed.

(* ---------------------------------------------------------------- order *)
Lemma bc_refl a : bytes_compare a a = 0.
Proof. induction a as [|x a IH]; cbn; [reflexivity|]. rewrite Z.ltb_irrefl. assumption. Qed.

Lemma bc_eq a b : bytes_compare a b = 0 -> a = b.
Proof.
  revert b; induction a as [|x a IH]; intros [|y b]; cbn; try reflexivity; try discriminate.
  destruct (x <? y) eqn:E1; [discriminate|]. destruct (y <? x) eqn:E2; [discriminate|].
  intros H. f_equal; [lia|auto].
Qed.

Lemma bc_antisym a b : bytes_compare a b < 0 <-> 0 < bytes_compare b a.
Proof.
  revert b; induction a as [|x a IH]; intros [|y b]; cbn; try lia.
  destruct (x <? y) eqn:E1; destruct (y <? x) eqn:E2; try lia. all: try apply IH.
Qed.

Lemma bc_trans a b c : bytes_compare a b < 0 -> bytes_compare b c < 0 -> bytes_compare a c < 0.
Proof.
  revert b c; induction a as [|x a IH]; intros [|y b] [|z c]; cbn; try lia.
  destruct (x <? y) eqn:E1; destruct (y <? x) eqn:E2; destruct (y <? z) eqn:E3; destruct (z <? y) eqn:E4;
    destruct (x <? z) eqn:E5; destruct (z <? x) eqn:E6; try lia.
  all: try apply IH.
Qed.

Lemma bc_total a b : bytes_compare a b < 0 \/ a = b \/ bytes_compare b a < 0.
Proof.
  revert b; induction a as [|x a IH]; intros [|y b]; cbn; try lia; [right; left; reflexivity|].
  destruct (x <? y) eqn:E1; destruct (y <? x) eqn:E2; try lia.
  destruct (IH b) as [H|[H|H]]; [left; assumption|right; left|right; right; assumption].
  f_equal; [lia|assumption].
Qed.

Lemma lt_irrefl a : less_than a a = false.
Proof. unfold less_than. rewrite Z.ltb_irrefl, Z.eqb_refl, bc_refl. reflexivity. Qed.

Lemma lt_spec a b : less_than a b = true <->
  e_typ a < e_typ b \/ (e_typ a = e_typ b /\ bytes_compare (e_rawbytes a) (e_rawbytes b) < 0).
Proof. unfold less_than. lia. Qed.

Lemma lt_trans a b c : less_than a b = true -> less_than b c = true -> less_than a c = true.
Proof.
  rewrite !lt_spec. intros [H1|[H1 H2]] [H3|[H3 H4]]; try (left; lia).
  right. split; [lia|]. eapply bc_trans; eassumption.
Qed.

Lemma lt_asym a b : less_than a b = true -> less_than b a = false.
Proof.
  intros H. destruct (less_than b a) eqn:E; [|reflexivity].
  pose proof (lt_trans _ _ _ H E) as X. rewrite lt_irrefl in X. discriminate.
Qed.

Lemma lt_trichotomy a b : wf_e a -> wf_e b ->
  (a = b /\ less_than a b = false /\ less_than b a = false) \/
  (a <> b /\ less_than a b = true /\ less_than b a = false) \/
  (a <> b /\ less_than a b = false /\ less_than b a = true).
Proof.
  intros Wa Wb.
  assert (NE : forall x y, less_than x y = true -> x <> y).
  { intros x y H ->. rewrite lt_irrefl in H. discriminate. }
  destruct (Z.lt_trichotomy (e_typ a) (e_typ b)) as [H|[H|H]].
  - right; left. assert (L : less_than a b = true) by (apply lt_spec; left; assumption).
    split; [apply NE, L|]. split; [assumption|apply lt_asym, L].
  - destruct (bc_total (e_rawbytes a) (e_rawbytes b)) as [C|[C|C]].
    + right; left. assert (L : less_than a b = true) by (apply lt_spec; right; split; assumption).
      split; [apply NE, L|]. split; [assumption|apply lt_asym, L].
    + left. assert (E : a = b) by (apply wf_e_eq_iff; auto). subst b.
      split; [reflexivity|]. split; apply lt_irrefl.
    + right; right. assert (L : less_than b a = true) by (apply lt_spec; right; split; [symmetry|]; assumption).
      split; [intros ->; apply (NE _ _ L); reflexivity|]. split; [apply lt_asym, L|assumption].
  - right; right. assert (L : less_than b a = true) by (apply lt_spec; left; lia).
    split; [intros ->; apply (NE _ _ L); reflexivity|]. split; [apply lt_asym, L|assumption].
Qed.
