(* C20 — rendezvous determinism: the composed system has the diamond property, so every
   maximal run (any schedule) has the same length and ends in the same state; [run] (the
   executable canonical schedule with fuel [mu]) computes that state.  For every configuration. *)
From GP Require Import Base C20Model Diamond C20Measure.
From Coq Require Import Lia.
Open Scope nat_scope.

Lemma sync_excl_tau_c : forall g r d c a x, sync g r d c a = Some x -> tau_c g r d (is_parked a) c = None.
Proof.
  intros g r d c a x H. unfold sync in H. unfold tau_c.
  destruct (pc c); try discriminate; destruct a; try discriminate; destruct r, d; try discriminate;
    cbn [is_parked negb]; rewrite ?andb_false_r; reflexivity.
Qed.

Lemma sync_excl_tau_a : forall g r d c a x, sync g r d c a = Some x -> tau_a g a r d = None.
Proof.
  intros g r d c a x H. unfold sync in H. unfold tau_a.
  destruct (pc c); try discriminate; destruct a; try discriminate; reflexivity.
Qed.

Lemma tau_c_after_tau_a : forall g r d pk pk' c c' a a' r' d', ack_nb g = false ->
  tau_c g r d pk c = Some c' -> tau_a g a r d = Some (a', r', d') -> tau_c g r' d' pk' c = Some c'.
Proof.
  intros g r d pk pk' c c' a a' r' d' Hnb Hc Ha. unfold tau_a in Ha. unfold tau_c in *.
  rewrite Hnb in *. cbn [andb] in *.
  destruct a; try discriminate.
  - injection Ha as _ <- <-. exact Hc.
  - destruct (negb (initiated g) || r) eqn:E.
    + injection Ha as _ <- <-. exact Hc.
    + injection Ha as _ <- <-. apply orb_false_iff in E. destruct E as [_ ->].
      destruct (pc c); try discriminate; exact Hc.
  - destruct (negb (initiated g) || d) eqn:E.
    + injection Ha as _ <- <-. exact Hc.
    + injection Ha as _ <- <-. apply orb_false_iff in E. destruct E as [_ ->].
      destruct (pc c); try discriminate; exact Hc.
Qed.

Theorem step_diamond : forall g, ack_nb g = false -> diamond (step g).
Proof.
  intros g Hnb s s1 s2 H1 H2.
  destruct H1 as [H1 | [H1 | H1]]; destruct H2 as [H2 | [H2 | H2]];
    try (left; congruence).
  - (* sync / tau_c *) exfalso. unfold do_sync, do_tau_c in *.
    destruct (sync g (rc s) (dc s) (cs s) (ap s)) as [x|] eqn:E; [|discriminate].
    rewrite (sync_excl_tau_c _ _ _ _ _ _ E) in H2. discriminate.
  - exfalso. unfold do_sync, do_tau_a in *.
    destruct (sync g (rc s) (dc s) (cs s) (ap s)) as [x|] eqn:E; [|discriminate].
    rewrite (sync_excl_tau_a _ _ _ _ _ _ E) in H2. discriminate.
  - exfalso. unfold do_sync, do_tau_c in *.
    destruct (sync g (rc s) (dc s) (cs s) (ap s)) as [x|] eqn:E; [|discriminate].
    rewrite (sync_excl_tau_c _ _ _ _ _ _ E) in H1. discriminate.
  - (* tau_c / tau_a *) right. unfold do_tau_c, do_tau_a in *.
    destruct (tau_c g (rc s) (dc s) (is_parked (ap s)) (cs s)) as [c'|] eqn:Ec; [|discriminate].
    destruct (tau_a g (ap s) (rc s) (dc s)) as [[[a' r'] d']|] eqn:Ea; [|discriminate].
    injection H1 as <-. injection H2 as <-.
    exists (mkS c' a' r' d'). split.
    + right. right. unfold do_tau_a. cbn [cs ap rc dc]. rewrite Ea. reflexivity.
    + right. left. unfold do_tau_c. cbn [cs ap rc dc].
      rewrite (tau_c_after_tau_a _ _ _ _ (is_parked a') _ _ _ _ _ _ Hnb Ec Ea). reflexivity.
  - exfalso. unfold do_sync, do_tau_a in *.
    destruct (sync g (rc s) (dc s) (cs s) (ap s)) as [x|] eqn:E; [|discriminate].
    rewrite (sync_excl_tau_a _ _ _ _ _ _ E) in H1. discriminate.
  - right. unfold do_tau_c, do_tau_a in *.
    destruct (tau_c g (rc s) (dc s) (is_parked (ap s)) (cs s)) as [c'|] eqn:Ec; [|discriminate].
    destruct (tau_a g (ap s) (rc s) (dc s)) as [[[a' r'] d']|] eqn:Ea; [|discriminate].
    injection H1 as <-. injection H2 as <-.
    exists (mkS c' a' r' d'). split.
    + right. left. unfold do_tau_c. cbn [cs ap rc dc].
      rewrite (tau_c_after_tau_a _ _ _ _ (is_parked a') _ _ _ _ _ _ Hnb Ec Ea). reflexivity.
    + right. right. unfold do_tau_a. cbn [cs ap rc dc]. rewrite Ea. reflexivity.
Qed.

(* the executable scheduler takes steps of the relation, and stops only at a normal form *)
Lemma next_sched_step : forall g pa s s', next_sched g pa s = Some s' -> step g s s'.
Proof.
  intros g pa s s' H. unfold next_sched, orelse in H. unfold step.
  destruct (do_sync g s); [left; exact H|].
  destruct pa.
  - destruct (do_tau_a g s); [right; right; exact H|]. right; left; exact H.
  - destruct (do_tau_c g s); [right; left; exact H|]. right; right; exact H.
Qed.

Lemma next_sched_none : forall g pa s, next_sched g pa s = None -> nf (step g) s.
Proof.
  intros g pa s H s' Hs. unfold next_sched, orelse in H.
  destruct (do_sync g s) eqn:E1; [discriminate|].
  destruct (do_tau_c g s) eqn:E2; destruct (do_tau_a g s) eqn:E3; destruct pa; try discriminate;
  destruct Hs as [Hs | [Hs | Hs]]; congruence.
Qed.

Lemma nf_next_none : forall g pa s, nf (step g) s -> next_sched g pa s = None.
Proof.
  intros g pa s H. destruct (next_sched g pa s) eqn:E; [|reflexivity].
  exfalso. exact (H _ (next_sched_step _ _ _ _ E)).
Qed.

Lemma run_sched_spec : forall g sched fuel k s, mu g s <= fuel ->
  exists n t, run_sched g sched fuel k s = (t, true) /\ steps (step g) n s t /\ nf (step g) t /\ n <= mu g s.
Proof.
  intros g sched fuel. induction fuel as [|f IH]; intros k s Hmu; cbn [run_sched].
  - destruct (next_sched g (sched k) s) as [s'|] eqn:E.
    + pose proof (mu_decreases _ _ _ (next_sched_step _ _ _ _ E)). lia.
    + exists 0, s. repeat split; [apply steps_O | eapply next_sched_none; eauto | lia].
  - destruct (next_sched g (sched k) s) as [s'|] eqn:E.
    + pose proof (next_sched_step _ _ _ _ E) as Hst. pose proof (mu_decreases _ _ _ Hst) as Hd.
      destruct (IH (S k) s') as [n [t [Hr [Hs [Hn Hle]]]]]; [lia|].
      exists (S n), t. repeat split; [exact Hr | eapply steps_S; eauto | exact Hn | lia].
    + exists 0, s. repeat split; [apply steps_O | eapply next_sched_none; eauto | lia].
Qed.

(* every run is bounded by the measure *)
Lemma steps_bounded : forall g n s t, steps (step g) n s t -> n + mu g t <= mu g s.
Proof.
  intros g n s t H. induction H as [s | n s u t Hr Hs IH].
  - lia.
  - pose proof (mu_decreases _ _ _ Hr). lia.
Qed.

(* the final state does not depend on the schedule *)
Theorem maximal_runs_agree : forall g s n1 t1 n2 t2, ack_nb g = false ->
  steps (step g) n1 s t1 -> nf (step g) t1 -> steps (step g) n2 s t2 -> nf (step g) t2 ->
  t1 = t2 /\ n1 = n2.
Proof. intros g s n1 t1 n2 t2 Hnb H1 N1 H2 N2. eapply nf_unique; eauto. apply step_diamond. exact Hnb. Qed.

Theorem run_is_the_outcome : forall g s n t, ack_nb g = false -> steps (step g) n s t -> nf (step g) t ->
  run g (mu g s) s = (t, true).
Proof.
  intros g s n t Hnb Hs Hn. unfold run.
  destruct (run_sched_spec g (fun _ => false) (mu g s) 0 s (le_n _)) as [n' [t' [Hr [Hs' [Hn' _]]]]].
  destruct (maximal_runs_agree _ _ _ _ _ _ Hnb Hs Hn Hs' Hn') as [-> _]. exact Hr.
Qed.

Theorem run_sched_independent : forall g sched s, ack_nb g = false ->
  run_sched g sched (mu g s) 0 s = run g (mu g s) s.
Proof.
  intros g sched s Hnb.
  destruct (run_sched_spec g sched (mu g s) 0 s (le_n _)) as [n [t [Hr [Hs [Hn _]]]]].
  rewrite Hr. symmetry. eapply run_is_the_outcome; eauto.
Qed.

(* any run, even a partial one, extends to the outcome: no schedule can avoid it *)
Theorem every_run_extends : forall g s n u, ack_nb g = false -> steps (step g) n s u ->
  exists m, steps (step g) m u (fst (run g (mu g s) s)).
Proof.
  intros g s n u Hnb Hs.
  destruct (run_sched_spec g (fun _ => false) (mu g u) 0 u (le_n _)) as [m [t [Hr [Hs' [Hn _]]]]].
  exists m. pose proof (steps_trans _ _ _ _ _ Hs _ _ Hs') as Hall.
  rewrite (run_is_the_outcome _ _ _ _ Hnb Hall Hn). exact Hs'.
Qed.
