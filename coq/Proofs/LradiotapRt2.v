(* Lradiotap — the round trip theorem for headers made of radiotap namespaces (uses the layout lemmas of LradiotapRt.v) *)
From GP Require Import Base ListX Codec MiscLib LradiotapModel LradiotapProofs LradiotapRt LradiotapRt2a.
From Coq Require Import Lia ZifyBool ZifyNat.
Open Scope Z_scope.
Ltac Zify.zify_post_hook ::= Z.div_mod_to_equations.

Theorem rt_roundtrip_rt l payload csum junk bytes l' old :
  rt_wf_rt l -> rt_serialize l payload true csum junk = (Ok bytes, l') -> zlen bytes < 65535 ->
  exists f q, rt_flags0 (rt_values l) = Ok f /\ rt_payload_of f payload = Ok q /\
    rt_decode_into old bytes =
      (mkRt (rt_hdr l) q (rt_version l) (zlen (rt_hdr l)) (rt_present l) (rt_values l) [], Ok tt, false).
Proof.
  intros WF E Hn. rewrite (rt_serialize_layout l payload csum junk WF) in E.
  assert (EB : bytes = rt_hdr l ++ payload) by congruence. subst bytes. clear E.
  destruct WF as (Hv & Hver & p & qs & Hps & Hch & Hrc & Hsz).
  destruct (rt_values l) as [|v0 r] eqn:Ervs; [cbn in Hrc; contradiction|].
  destruct (rt_payload_of_ok (nth 0 (nth 1 v0 []) 0) payload) as [q Eq].
  exists (nth 0 (nth 1 v0 []) 0), q. split; [reflexivity|]. split; [exact Eq|].
  unfold rt_hdr in *. rewrite Hps in *. set (ps := p :: qs) in *. set (rvs := v0 :: r) in *.
  pose proof (zlen_nonneg qs) as Pq. assert (Pn : zlen ps = 1 + zlen qs) by (unfold ps; apply zlen_cons).
  set (CB := chain_bytes ps rvs (4 + 4 * zlen ps)) in *.
  set (body := pw_bytes ps ++ CB) in *.
  assert (LCB : 0 <= zlen CB <= 106 * zlen ps).
  { split; [apply zlen_nonneg|].
    destruct (rt_ser_loop_layout ps rvs false (zeros (4 + 4 * zlen ps)) (106 * zlen ps) Hrc ltac:(lia) ltac:(rewrite zlen_zeros by lia; lia)) as (_ & L).
    rewrite zlen_zeros in L by lia. exact L. }
  assert (Lbody : zlen body = 4 * zlen ps + zlen CB) by (unfold body; rewrite zlen_app, zlen_pw_bytes; reflexivity).
  set (off := 4 + zlen body) in *.
  set (hdr := [rt_version l; 0] ++ rt_put16 off ++ body) in *.
  assert (Lh : zlen hdr = off) by (unfold hdr; rewrite !zlen_app; change (zlen (rt_put16 off)) with 2; change (zlen [rt_version l; 0]) with 2; unfold off; lia).
  pose proof (zlen_nonneg payload) as Pp.
  set (data := hdr ++ payload) in *.
  assert (Ln : zlen data = off + zlen payload) by (unfold data; rewrite zlen_app; lia).
  set (lo := off mod 256). set (hi := (off / 256) mod 256).
  set (pre8 := [rt_version l; 0; lo; hi] ++ rt_put32 p).
  assert (ED1 : data = [rt_version l; 0; lo; hi] ++ rt_put32 p ++ (pw_bytes qs ++ CB ++ payload)).
  { unfold data, hdr, body, ps, pw_bytes, rt_put16. cbn [map concat]. rewrite <- !app_assoc. reflexivity. }
  assert (ED2 : data = pre8 ++ pw_bytes qs ++ (CB ++ payload)) by (rewrite ED1; unfold pre8; rewrite <- !app_assoc; reflexivity).
  set (W := [rt_version l; 0; lo; hi] ++ pw_bytes ps).
  assert (LW : zlen W = 4 + 4 * zlen ps) by (unfold W; rewrite zlen_app, zlen_pw_bytes; reflexivity).
  assert (ED3 : data = W ++ CB ++ payload).
  { unfold data, hdr, W, body, rt_put16. rewrite <- !app_assoc. reflexivity. }
  assert (Eoff : off = 4 + zlen body) by reflexivity.
  assert (Roff : 8 <= off <= zlen data) by lia.
  assert (I0 : cd_idx data 0 = Ok (rt_version l)) by (rewrite ED1; apply (idx_at [] _ _ 0); reflexivity).
  assert (L2 : rt_le16 data 2 = Ok off).
  { transitivity (Ok (lo + 256 * hi) : outcome Z); [rewrite ED1; exact (le16_at [rt_version l; 0] lo hi (rt_put32 p ++ pw_bytes qs ++ CB ++ payload) 2 eq_refl)|f_equal; unfold lo, hi; lia]. }
  assert (L4 : rt_le32 data 4 = Ok p).
  { rewrite ED1. apply le32_put32; [reflexivity|]. destruct qs; cbn in Hch; tauto. }
  (* the Present chain *)
  pose proof (rt_present_loop_layout qs p pre8 (CB ++ payload) (length data) [p] Hch) as PL.
  assert (L8 : zlen pre8 = 8) by reflexivity. rewrite L8 in PL. rewrite <- ED2 in PL. change (8 - 4) with 4 in PL.
  assert (Lq : (length qs <= length data)%nat).
  { pose proof (zlen_pw_bytes qs) as LP. rewrite ED2, !app_length. unfold zlen in LP. lia. }
  specialize (PL Lq ltac:(lia) ltac:(lia)). change ([p] ++ qs) with ps in PL.
  (* the namespaces *)
  pose proof (rt_ns_loop_layout ps rvs false W [] payload Hrc ltac:(lia)) as NL.
  rewrite LW in NL. fold CB in NL. rewrite <- ED3 in NL. specialize (NL ltac:(lia) ltac:(unfold ps; discriminate)). cbn [app] in NL.
  assert (SP : cd_slc data off (zlen data) = Ok payload) by (unfold data; apply slc_tail; rewrite ?zlen_app; lia).
  assert (SC : cd_slc data 0 off = Ok hdr) by (unfold data; apply slc_head; lia).
  rewrite Lh.
  apply (rt_decode_eval old data (rt_version l) off p ps rvs (4 + 4 * zlen qs) payload (nth 0 (nth 1 v0 []) 0) q hdr); try assumption; try lia.
  - replace (4 + 4 * zlen qs + 4) with (4 + 4 * zlen ps) by lia. exact NL.
  - reflexivity.
Qed.
