(* C13: concrete witnesses.  Each repaired defect is switched back on in isolation (one flag of
   the variant) and the property it broke is refuted by computation; the two recorded ip6defrag
   findings and the fragment-offset limit are refuted for the model of the code as it is. *)
From GP Require Import Base C13Model C13Safety C13Complete.
From Coq Require Import Lia ZifyBool ZifyNat.
Open Scope Z_scope.

Definition no_ihl := {| v_ihl := false; v_len := true; v_ovl := true; v_sec := true; v_trunc := true; v_six := true |}.
Definition no_len := {| v_ihl := true; v_len := false; v_ovl := true; v_sec := true; v_trunc := true; v_six := true |}.
Definition no_ovl := {| v_ihl := true; v_len := true; v_ovl := false; v_sec := true; v_trunc := true; v_six := true |}.
Definition no_sec := {| v_ihl := true; v_len := true; v_ovl := true; v_sec := false; v_trunc := true; v_six := true |}.
Definition no_trunc := {| v_ihl := true; v_len := true; v_ovl := true; v_sec := true; v_trunc := false; v_six := true |}.
Definition no_six := {| v_ihl := true; v_len := true; v_ovl := true; v_sec := true; v_trunc := true; v_six := false |}.

Definition bytes_from (a : Z) (n : nat) : list Z := map (fun i => a + Z.of_nat i) (seq 0 n).

(* a small datagram: header with one 4-byte option, 21 payload bytes in three chunks *)
Definition h6 := {| h_src := 167772161; h_dst := 167772417; h_id := 1; h_ihl := 6; h_hdr := [64; 17; 0; 1; 1; 1; 1] |}.
Definition h5 := {| h_src := 167772161; h_dst := 167772417; h_id := 1; h_ihl := 5; h_hdr := [64; 17; 0] |}.
Definition chunks3 := [bytes_from 0 8; bytes_from 8 8; bytes_from 16 5].

Lemma chunks3_valid6 : valid_partition h6 chunks3 /\ offsets_within_limit chunks3.
Proof. unfold valid_partition, offsets_within_limit. cbn. repeat split; try lia; reflexivity. Qed.
Lemma chunks3_valid5 : valid_partition h5 chunks3 /\ offsets_within_limit chunks3.
Proof. unfold valid_partition, offsets_within_limit. cbn. repeat split; try lia; reflexivity. Qed.

Definition in_order (F : list frag) : list op4 := map (fun f => OFrag f 0) F.

(* 1. Length - 20: a datagram with options is never completed *)
Lemma options_refuted :
  exists h chunks, valid_partition h chunks /\ offsets_within_limit chunks /\
    snd (run4 no_ihl [] (in_order (frags_of h 0 chunks))) = [Res RNone; Res RNone; Res RNone].
Proof. exists h6, chunks3. split; [apply chunks3_valid6|]. split; [apply chunks3_valid6|]. vm_compute. reflexivity. Qed.

(* 2. Length: f.Highest *)
Lemma length_refuted :
  exists h chunks d, valid_partition h chunks /\ offsets_within_limit chunks /\
    nth_error (snd (run4 no_len [] (in_order (frags_of h 0 chunks)))) 2 = Some (Res (RDg d)) /\
    f_len d <> 4 * f_ihl d + plen d.
Proof.
  exists h5, chunks3. eexists. split; [apply chunks3_valid5|]. split; [apply chunks3_valid5|].
  split; [vm_compute; reflexivity|]. vm_compute. discriminate.
Qed.

(* deciding [placed] *)
Definition placedb (g : frag) (x b : Z) : bool :=
  (8 * f_off g <=? x) &&
  match nth_error (f_payload g) (Z.to_nat (x - 8 * f_off g)) with Some b' => b' =? b | None => false end.

Lemma placed_placedb g x b : placed g x b -> placedb g x b = true.
Proof.
  intros [i [Hi Hn]]. unfold placedb. replace (Z.to_nat (x - 8 * f_off g)) with i by lia.
  rewrite Hn. rewrite Z.eqb_refl. rewrite andb_true_r. lia.
Qed.

Definition frags_in (ops : list op4) : list frag :=
  flat_map (fun o => match o with OFrag f _ => [f] | ODiscard _ => [] end) ops.

Lemma not_placed_by_any ops x b :
  forallb (fun g => negb (placedb g x b)) (frags_in ops) = true ->
  forall g t, In (OFrag g t) ops -> ~ placed g x b.
Proof.
  intros H g t Hin Hp. rewrite forallb_forall in H.
  assert (Hg : In g (frags_in ops)).
  { unfold frags_in. apply in_flat_map. exists (OFrag g t). split; [exact Hin|left; reflexivity]. }
  specialize (H g Hg). rewrite (placed_placedb g x b Hp) in H. discriminate.
Qed.

(* 3. the overlap branch: [0,16) MF, [24,32) last, [8,16) MF gives a datagram across the hole *)
Definition hole_ops : list op4 :=
  [OFrag (mkfrag h5 0 true (bytes_from 0 16)) 1; OFrag (mkfrag h5 3 false (bytes_from 24 8)) 2;
   OFrag (mkfrag h5 1 true (bytes_from 8 8)) 3].

Lemma overlap_refuted :
  exists ops n d x b, Forall op_wf ops /\
    nth_error (snd (run4 no_ovl [] ops)) n = Some (Res (RDg d)) /\
    nth_error (f_payload d) x = Some b /\
    forall g t, In (OFrag g t) ops -> ~ placed g (Z.of_nat x) b.
Proof.
  exists hole_ops, 2%nat. eexists. exists 16%nat, 24.
  split; [repeat constructor; cbn; lia|].
  split; [vm_compute; reflexivity|]. split; [vm_compute; reflexivity|].
  apply not_placed_by_any. vm_compute. reflexivity.
Qed.

(* the repaired model answers the same sequence with an error *)
Lemma overlap_fixed : snd (run4 fixedv [] hole_ops) = [Res RNone; Res RNone; Res RErr].
Proof. vm_compute. reflexivity. Qed.

(* 4. fragOffset + Length in uint16: an oversize fragment passes the check; so does Length < 4*IHL *)
Lemma security_refuted :
  (exists f, wf_frag f /\ 65535 < 8 * f_off f + f_len f /\ security_ok no_sec f = true) /\
  (exists f, wf_frag f /\ f_len f < 4 * f_ihl f /\ security_ok no_sec f = true).
Proof.
  split.
  - exists {| f_src := 1; f_dst := 2; f_id := 3; f_ihl := 5; f_len := 1500; f_flags := 1; f_off := 8183; f_hdr := []; f_payload := [] |}.
    split; [unfold wf_frag; cbn; lia|]. split; [cbn; lia|vm_compute; reflexivity].
  - exists {| f_src := 1; f_dst := 2; f_id := 3; f_ihl := 5; f_len := 10; f_flags := 1; f_off := 0; f_hdr := []; f_payload := [] |}.
    split; [unfold wf_frag; cbn; lia|]. split; [cbn; lia|vm_compute; reflexivity].
Qed.

(* 5. payload shorter than Length says: panic in the overlap branch, misplacement in the plain one *)
Definition short (f : frag) (n : nat) : frag :=
  {| f_src := f_src f; f_dst := f_dst f; f_id := f_id f; f_ihl := f_ihl f; f_len := f_len f; f_flags := f_flags f;
     f_off := f_off f; f_hdr := f_hdr f; f_payload := firstn n (f_payload f) |}.

Lemma truncated_refuted :
  (exists ops, Forall op_wf ops /\ In (Res RPanic) (snd (run4 no_trunc [] ops))) /\
  (exists ops n d x b, Forall op_wf ops /\
    nth_error (snd (run4 no_trunc [] ops)) n = Some (Res (RDg d)) /\
    nth_error (f_payload d) x = Some b /\
    forall g t, In (OFrag g t) ops -> ~ placed g (Z.of_nat x) b).
Proof.
  split.
  - exists [OFrag (mkfrag h5 0 true (bytes_from 0 16)) 1; OFrag (mkfrag h5 3 false (bytes_from 24 8)) 2;
            OFrag (short (mkfrag h5 1 true (bytes_from 8 8)) 4) 3].
    split; [repeat constructor; cbn; lia|]. vm_compute. auto.
  - exists [OFrag (short (mkfrag h5 0 true (bytes_from 0 16)) 8) 1; OFrag (mkfrag h5 2 false (bytes_from 16 8)) 2], 1%nat.
    eexists. exists 8%nat, 16.
    split; [repeat constructor; cbn; lia|].
    split; [vm_compute; reflexivity|]. split; [vm_compute; reflexivity|].
    apply not_placed_by_any. vm_compute. reflexivity.
Qed.

(* 6. the fragment-offset limit 8183 of the code as it is (kept: the package's own test demands it):
      a datagram of 65480 payload bytes whose last fragment starts at byte 65472 (offset 8184) *)
Definition big_chunks := [repeat 0 (Z.to_nat 65472); bytes_from 1 8].

Lemma big_valid : valid_partition h5 big_chunks.
Proof.
  assert (Hb : length (bytes_from 1 8) = 8%nat) by reflexivity.
  unfold valid_partition, big_chunks. cbn [h_ihl h5 chunks_ok concat].
  rewrite !app_length, !repeat_length, Hb. cbn [length].
  split; [lia|]. split; [|split; lia]. split; [lia|]. split; [|split; [lia|split; [exact I|exact I]]].
  rewrite Z2Nat.id by lia. reflexivity.
Qed.

Lemma offset_limit_refuted :
  exists h chunks, valid_partition h chunks /\
    snd (run4 fixedv [] (in_order (frags_of h 0 chunks))) = [Res RNone; Res RErr].
Proof. exists h5, big_chunks. split; [exact big_valid|]. vm_compute. reflexivity. Qed.

(* ---------------------------------------------------------------- IPv6 *)
Definition mk6 (src id off : Z) (more : bool) (pl : list Z) : frag6 :=
  {| g_src := src; g_dst := 2; g_id := id; g_off := off; g_more := more; g_nh := 17; g_hdr := [3; 77; 64]; g_payload := pl |}.

Fixpoint run6 (v : variant) (st : state6) (ops : list op6) : list out6 :=
  match ops with
  | [] => []
  | o :: r => let '(st1, x) := step6 v st o in x :: run6 v st1 r
  end.

(* 7. a non-final fragment of 12 bytes: the next fragment's bytes land at 12 instead of 8 *)
Lemma v6_mod8_refuted :
  run6 no_six [] [O6Frag (mk6 1 9 0 true (bytes_from 0 12)); O6Frag (mk6 1 9 1 false (bytes_from 100 5))] =
  [Res6 R6None; Res6 (R6Dg 17 (mk6 1 9 0 true (bytes_from 0 12)) (bytes_from 0 12 ++ bytes_from 100 5))] /\
  run6 fixedv [] [O6Frag (mk6 1 9 0 true (bytes_from 0 12)); O6Frag (mk6 1 9 1 false (bytes_from 100 5))] =
  [Res6 R6None; Res6 R6None].
Proof. split; vm_compute; reflexivity. Qed.

(* 8. known finding: the map is keyed by Identification only *)
Lemma v6_flow_mix_refuted :
  exists f1 f2 nh hd, g_src f1 <> g_src f2 /\ g_id f1 = g_id f2 /\
    run6 fixedv [] [O6Frag f1; O6Frag f2] = [Res6 R6None; Res6 (R6Dg nh hd (g_payload f2 ++ g_payload f1))].
Proof.
  exists (mk6 3 682 4 false (bytes_from 32 11)), (mk6 7 682 0 true (bytes_from 100 32)). eexists. eexists.
  split; [cbn; lia|]. split; [reflexivity|]. vm_compute. reflexivity.
Qed.

(* 9. known finding: a completed datagram stays in the map and is returned again *)
Lemma v6_redelivery_refuted :
  exists f1 f2 nh hd pl,
    run6 fixedv [] [O6Frag f1; O6Frag f2; O6Frag f1] = [Res6 R6None; Res6 (R6Dg nh hd pl); Res6 (R6Dg nh hd pl)].
Proof.
  exists (mk6 1 5 0 true (bytes_from 0 8)), (mk6 1 5 1 false (bytes_from 8 5)). eexists. eexists. eexists.
  vm_compute. reflexivity.
Qed.

(* ---------------------------------------------------------------- packaging for Props *)
Lemma discard_spec st t k :
  keys_unique st ->
  lookup k (fst (discard4 st t)) =
    match lookup k st with
    | Some fl => if fl_seen fl <? t then None else Some fl
    | None => None
    end /\
  snd (discard4 st t) = Z.of_nat (length st) - Z.of_nat (length (fst (discard4 st t))) /\
  keys_unique (fst (discard4 st t)).
Proof.
  intros H. split; [apply discard4_lookup; exact H|]. split; [apply discard4_count|].
  unfold discard4. cbn [fst]. apply filter_keys_unique. exact H.
Qed.

Lemma run4_keys_unique_gen v ops : forall st, keys_unique st -> keys_unique (fst (run4 v st ops)).
Proof.
  induction ops as [|o r IH]; intros st H; [exact H|].
  rewrite run4_cons. cbn [fst]. apply IH. destruct o as [f t|t]; cbn [step4].
  - destruct (defrag4 v st f t) as [st1 r1] eqn:E. cbn [fst]. eapply defrag4_keys_unique; eassumption.
  - unfold discard4. cbn [fst]. apply filter_keys_unique. exact H.
Qed.

Lemma run4_keys_unique v ops : keys_unique (fst (run4 v [] ops)).
Proof. apply run4_keys_unique_gen. constructor. Qed.

(* non-vacuity of the completeness theorem *)
Definition fa := mkfrag h6 0 true (bytes_from 0 8).
Definition fb := mkfrag h6 1 true (bytes_from 8 8).
Definition fc := mkfrag h6 2 false (bytes_from 16 5).
Definition other := mkfrag {| h_src := 167772161; h_dst := 167772417; h_id := 10; h_ihl := 5; h_hdr := [1; 6; 0] |} 0 true (bytes_from 50 16).
Definition nv_ops := [OFrag fc 1; OFrag other 2; OFrag fa 3; OFrag fa 4; OFrag fb 5].

Lemma frags3 : frags_of h6 0 chunks3 = [fa; fb; fc].
Proof. reflexivity. Qed.

Lemma complete_nonvacuous :
  exists ops n,
    valid_partition h6 chunks3 /\ offsets_within_limit chunks3 /\
    arrival_ok h6 (frags_of h6 0 chunks3) ops /\
    (forall f, In f (frags_of h6 0 chunks3) -> exists t, In (OFrag f t) (firstn (S n) ops)) /\
    (exists f, In f (frags_of h6 0 chunks3) /\ forall t, ~ In (OFrag f t) (firstn n ops)) /\
    snd (run4 fixedv [] ops) =
      [Res RNone; Res RNone; Res RNone; Res RNone; Res (RDg (datagram h6 (concat chunks3)))].
Proof.
  exists nv_ops, 4%nat. rewrite frags3.
  split; [apply chunks3_valid6|]. split; [apply chunks3_valid6|].
  split.
  { unfold arrival_ok, nv_ops. repeat constructor.
    - exists fc, 1. split; [reflexivity|]. intros _. right. right. left. reflexivity.
    - exists other, 2. split; [reflexivity|]. intros Hk. vm_compute in Hk. discriminate.
    - exists fa, 3. split; [reflexivity|]. intros _. left. reflexivity.
    - exists fa, 4. split; [reflexivity|]. intros _. left. reflexivity.
    - exists fb, 5. split; [reflexivity|]. intros _. right. left. reflexivity. }
  split.
  { intros f [Hf|[Hf|[Hf|[]]]]; subst f; cbn [firstn nv_ops].
    - exists 3. right. right. left. reflexivity.
    - exists 5. right. right. right. right. left. reflexivity.
    - exists 1. left. reflexivity. }
  split.
  { exists fb. split; [right; left; reflexivity|]. intros t. cbn [firstn nv_ops].
    intros [H|[H|[H|[H|[]]]]]; inversion H. }
  vm_compute. reflexivity.
Qed.

(* a hostile set that the repaired code does reassemble: a duplicate-free overlapping pair cannot
   complete (the byte counter counts overlapped bytes twice), so the example with a returned
   datagram is a plain out-of-order one next to the refused hole set *)
Definition overlap_ok_ops : list op4 :=
  [OFrag (mkfrag h5 2 false (bytes_from 16 8)) 1; OFrag (mkfrag h5 1 true (bytes_from 8 8)) 2;
   OFrag (mkfrag h5 0 true (bytes_from 0 8)) 3].

Lemma safety_nonvacuous :
  exists d, Forall op_wf hole_ops /\ Forall op_wf overlap_ok_ops /\
    nth_error (snd (run4 fixedv [] overlap_ok_ops)) 2 = Some (Res (RDg d)) /\ plen d = 24.
Proof.
  eexists. split; [repeat constructor; cbn; lia|]. split; [repeat constructor; cbn; lia|].
  split; vm_compute; reflexivity.
Qed.

(* ---------------------------------------------------------------- mixed header lengths at the limit *)
(* the offset-0 fragment carries 40 bytes of options (IHL 15), the others a 20-byte header; every
   fragment passes the checks on its own; the long-header fragment arrives last, so its header is
   the result's.  65515 payload bytes would need Length 65575: refused.  65475 bytes: Length 65535. *)
Definition h15 := {| h_src := 167772161; h_dst := 167772417; h_id := 1; h_ihl := 15; h_hdr := 64 :: 17 :: 0 :: repeat 1 40 |}.
Definition mixed_ops (n : Z) : list op4 :=
  [OFrag (mkfrag h5 1 true (repeat 2 (Z.to_nat (65464 - 8)))) 1;
   OFrag (mkfrag h5 8183 false (repeat 3 (Z.to_nat (n - 65464)))) 2;
   OFrag (mkfrag h15 0 true (repeat 1 8)) 3].

Lemma mixed_ihl_oversize :
  Forall (fun o => match o with OFrag f _ => security_ok fixedv f = true | _ => True end) (mixed_ops 65515) /\
  snd (run4 fixedv [] (mixed_ops 65515)) = [Res RNone; Res RNone; Res RErr] /\
  match nth_error (snd (run4 fixedv [] (mixed_ops 65475))) 2 with
  | Some (Res (RDg d)) => f_ihl d = 15 /\ f_len d = 65535 /\ plen d = 65475
  | _ => False
  end.
Proof.
  split.
  { unfold mixed_ops. constructor; [vm_compute; reflexivity|]. constructor; [vm_compute; reflexivity|].
    constructor; [vm_compute; reflexivity|]. constructor. }
  split; [vm_compute; reflexivity|].
  vm_compute. repeat split; reflexivity.
Qed.
