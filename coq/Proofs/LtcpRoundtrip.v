(* C06 for the TCP layer: decode (serialize t) gives back t's fields (as FixLengths /
   ComputeChecksums left them) and the payload. *)
From Coq Require Import Lia ZifyBool ZifyNat.
From GP Require Import Base ListX LtcpModel LtcpProofs.
Open Scope Z_scope.
Ltac Zify.zify_post_hook ::= Z.div_mod_to_equations.

(* ---- the layer values SerializeTo can represent: in-range header fields; options as the
   decoder builds them (NOP, generic kind/length/data with OptionLength = 2+len(OptionData),
   End-of-list only as the last option), no MPTCP option (known finding), option area at most
   40 bytes; padding only behind an End-of-list option *)
Definition eol : tcpopt := mkopt 0 1 [] 0 MPnone.
Definition nop : tcpopt := mkopt 1 1 [] 0 MPnone.
Definition gen_ok (o : tcpopt) : Prop :=
  o_type o <> 0 /\ o_type o <> 1 /\ o_type o <> 30 /\ o_len o = len (o_data o) + 2 /\ o_len o < 256 /\
  o_mp o = 0 /\ o_info o = MPnone.
Inductive opts_ok : list tcpopt -> Prop :=
| ok_nil : opts_ok []
| ok_eol : opts_ok [eol]
| ok_nop r : opts_ok r -> opts_ok (nop :: r)
| ok_gen o r : gen_ok o -> opts_ok r -> opts_ok (o :: r).
Definition ends_eol (os : list tcpopt) : Prop := exists r, os = r ++ [eol].

Definition tcp_wf (t : tcp) : Prop :=
  0 <= t_sp t < 65536 /\ 0 <= t_dp t < 65536 /\ 0 <= t_seq t < 4294967296 /\ 0 <= t_ack t < 4294967296 /\
  0 <= t_flags t < 512 /\ 0 <= t_win t < 65536 /\ 0 <= t_urg t < 65536 /\
  opts_ok (t_opts t) /\ t_mp t = false /\
  (ser_pad t true = [] \/ ends_eol (t_opts t)) /\
  opts_len (t_opts t) + len (ser_pad t true) <= 40 /\
  (opts_len (t_opts t) + len (ser_pad t true)) mod 4 = 0.

(* the fields a round trip must preserve *)
Definition core (t : tcp) :=
  (t_sp t, t_dp t, t_seq t, t_ack t, t_off t, t_flags t, t_win t, t_sum t, t_urg t, t_opts t, t_pad t, t_mp t).

(* ------------------------------------------------------------------ arithmetic *)
Lemma be_val_snoc l b : be_val (l ++ [b]) = be_val l * 256 + b.
Proof. unfold be_val. rewrite fold_left_app. reflexivity. Qed.

Lemma be_val_be_bytes n x : 0 <= x < 256 ^ Z.of_nat n -> be_val (be_bytes n x) = x.
Proof.
  revert x; induction n as [|n IH]; intros x H.
  - cbn in *. lia.
  - cbn [be_bytes]. rewrite be_val_snoc. rewrite IH.
    + lia.
    + rewrite Nat2Z.inj_succ, Z.pow_succ_r in H by lia. lia.
Qed.

Lemma be_bytes_2 x : be_bytes 2 x = [x / 256 mod 256; x mod 256].
Proof. reflexivity. Qed.

Lemma land_1 x : Z.land x 1 = x mod 2.
Proof. change 1 with (Z.ones 1) at 1. rewrite Z.land_ones by lia. reflexivity. Qed.

(* ------------------------------------------------------------------ list surgery *)
Lemma firstn_app_exact {A} (a b : list A) n : n = length a -> firstn n (a ++ b) = a.
Proof. intros ->. rewrite firstn_app, firstn_all, Nat.sub_diag. cbn. apply app_nil_r. Qed.

Lemma skipn_app_exact {A} (a b : list A) n : n = length a -> skipn n (a ++ b) = b.
Proof. intros ->. rewrite skipn_app, skipn_all, Nat.sub_diag. reflexivity. Qed.

Lemma slice_at {A} (pre w post : list A) a b :
  length pre = a -> (length pre + length w)%nat = b -> slice (pre ++ w ++ post) a b = w.
Proof.
  intros Ha Hb. unfold slice. rewrite app_assoc.
  rewrite (firstn_app_exact (pre ++ w) post) by (rewrite app_length; lia).
  apply skipn_app_exact. lia.
Qed.

Lemma nth_at (pre post : list Z) x n : length pre = n -> nth n (pre ++ x :: post) 0 = x.
Proof. intros <-. rewrite app_nth2 by lia. rewrite Nat.sub_diag. reflexivity. Qed.

(* ------------------------------------------------------------------ the option loop on serialized options *)
Lemma ends_eol_tail o r : o <> eol -> ends_eol (o :: r) -> ends_eol r.
Proof.
  intros Ho [r' H]. destruct r' as [|x r'']; cbn in H.
  - inversion H. congruence.
  - inversion H. exists r''. reflexivity.
Qed.

Lemma ends_eol_nil : ~ ends_eol [].
Proof. intros [r H]. destruct r; discriminate. Qed.

Lemma loop_opts : forall os, opts_ok os -> forall pad tl acc mp fuel,
  (pad = [] \/ ends_eol os) -> (length (opts_bytes true os ++ pad) < fuel)%nat ->
  opt_loop true fuel (opts_bytes true os ++ pad) tl acc mp = stop (rev os ++ acc) pad mp false (Ok tt).
Proof.
  induction 1 as [| |r Hr IH|o r Ho Hr IH]; intros pad tl acc mp fuel Hpad Hfuel.
  - destruct Hpad as [->|He]; [|destruct (ends_eol_nil He)].
    destruct fuel; [cbn in Hfuel; lia|]. reflexivity.
  - destruct fuel; [cbn in Hfuel; lia|]. reflexivity.
  - destruct fuel; [cbn in Hfuel; lia|].
    cbn [opts_bytes flat_map]. fold (opts_bytes true r).
    change (opt_bytes true nop) with [1]. cbn [app opt_loop].
    change (1 =? 0) with false. change (1 =? 1) with true. cbv iota. fold nop. rewrite IH.
    + cbn [rev]. rewrite <- app_assoc. reflexivity.
    + destruct Hpad as [Hp|He]; [left; exact Hp|right]. apply (ends_eol_tail nop r); [discriminate|exact He].
    + cbn [opts_bytes flat_map] in Hfuel. fold (opts_bytes true r) in Hfuel. cbn in Hfuel. lia.
  - destruct fuel; [cbn in Hfuel; lia|].
    destruct Ho as (H0 & H1 & H30 & HL & HL256 & Hmp & Hinfo).
    cbn [opts_bytes flat_map]. fold (opts_bytes true r). unfold opt_bytes.
    assert (H01 : is01 (o_type o) = false) by (unfold is01; lia). rewrite H01.
    pose proof (len_nonneg (o_data o)) as Hdn.
    replace (u8 (len (o_data o) + 2)) with (o_len o) by (unfold u8; lia).
    cbn [app opt_loop].
    replace (o_type o =? 0) with false by lia. replace (o_type o =? 1) with false by lia.
    replace (o_type o =? 30) with false by lia.
    set (od := o_type o :: o_len o :: (o_data o ++ opts_bytes true r) ++ pad).
    assert (Hod : len od = 2 + len (o_data o) + len (opts_bytes true r ++ pad)).
    { unfold od, len. cbn [length]. rewrite !app_length. lia. }
    pose proof (len_nonneg (opts_bytes true r ++ pad)) as Hrn.
    replace (len od <? 2) with false by lia.
    change (nth 1 od 0) with (o_len o).
    replace (o_len o <? 2) with false by lia.
    replace (len od <? o_len o) with false by lia.
    rewrite slc_eq by lia. rewrite from_eq by lia.
    assert (Hsl : slice (od ++ tl) (Z.to_nat 2) (Z.to_nat (o_len o)) = o_data o).
    { unfold od. change (o_type o :: o_len o :: (o_data o ++ opts_bytes true r) ++ pad)
        with ([o_type o; o_len o] ++ (o_data o ++ opts_bytes true r) ++ pad).
      rewrite <- !app_assoc. apply slice_at; [reflexivity|]. cbn [length]. unfold len in *. lia. }
    assert (Hsk : skipn (Z.to_nat (o_len o)) od = opts_bytes true r ++ pad).
    { unfold od. change (o_type o :: o_len o :: (o_data o ++ opts_bytes true r) ++ pad)
        with ([o_type o; o_len o] ++ (o_data o ++ opts_bytes true r) ++ pad).
      rewrite <- !app_assoc. rewrite (app_assoc [o_type o; o_len o]).
      apply skipn_app_exact. rewrite app_length. cbn [length]. unfold len in *. lia. }
    rewrite Hsl, Hsk.
    assert (Heq : mkopt (o_type o) (o_len o) (o_data o) 0 MPnone = o).
    { destruct o; cbn in *. subst. reflexivity. }
    rewrite Heq. rewrite IH.
    + cbn [rev]. rewrite <- app_assoc. reflexivity.
    + destruct Hpad as [Hp|He]; [left; exact Hp|right]. apply (ends_eol_tail o r); [|exact He].
      intros E. subst o. cbn in H0. lia.
    + cbn [opts_bytes flat_map] in Hfuel. fold (opts_bytes true r) in Hfuel.
      unfold opt_bytes in Hfuel. rewrite H01 in Hfuel.
      rewrite !app_length in Hfuel. cbn [length] in Hfuel. rewrite ?app_length in *. lia.
Qed.

Lemma decode_ser t payload ck : tcp_wf t -> 0 <= ck < 65536 ->
  decode_into tcp0 (ser_hdr t true (ser_pad t true) (ser_off t true) ck ++ payload) [] =
   ({| t_sp := t_sp t; t_dp := t_dp t; t_seq := t_seq t; t_ack := t_ack t; t_off := ser_off t true;
       t_flags := t_flags t; t_win := t_win t; t_sum := ck; t_urg := t_urg t;
       t_sport := be_bytes 2 (t_sp t); t_dport := be_bytes 2 (t_dp t);
       t_opts := t_opts t; t_pad := ser_pad t true; t_mp := false;
       t_contents := ser_hdr t true (ser_pad t true) (ser_off t true) ck; t_payload := payload |}, false, Ok tt).
Proof.
  intros Hwf Hck.
  destruct Hwf as (Hsp & Hdp & Hseq & Hack & Hfl & Hwin & Hurg & Hopts & Hmp & Hpe & H40 & Hm4).
  set (pad := ser_pad t true) in *. set (ol := opts_len (t_opts t)) in *.
  pose proof (opts_len_nonneg (t_opts t)) as Hol. fold ol in Hol. pose proof (len_nonneg pad) as Hpn.
  assert (Hoff : ser_off t true = 5 + (ol + len pad) / 4).
  { unfold ser_off. fold pad. fold ol. unfold u8. lia. }
  set (off := ser_off t true) in *.
  set (rest := opts_bytes true (t_opts t) ++ pad).
  assert (Hrest : len rest = ol + len pad) by (unfold rest; rewrite len_app, opts_bytes_len; reflexivity).
  set (fo := (off * 4096) mod 65536 + t_flags t).
  set (H20 := be_bytes 2 (t_sp t) ++ be_bytes 2 (t_dp t) ++ be_bytes 4 (t_seq t) ++ be_bytes 4 (t_ack t) ++
              be_bytes 2 fo ++ be_bytes 2 (t_win t) ++ be_bytes 2 ck ++ be_bytes 2 (t_urg t)).
  assert (HH : ser_hdr t true pad off ck = H20 ++ rest).
  { unfold ser_hdr, H20, rest. fold fo. rewrite <- !app_assoc. reflexivity. }
  assert (H20len : length H20 = 20%nat) by (unfold H20; rewrite !app_length, !be_bytes_length; reflexivity).
  rewrite HH. set (data := (H20 ++ rest) ++ payload).
  assert (Hdlen : len data = 20 + ol + len pad + len payload).
  { unfold data. rewrite !len_app. unfold len at 1. rewrite H20len. lia. }
  pose proof (len_nonneg payload) as Hpl.
  assert (S0 : slice data 0 2 = be_bytes 2 (t_sp t)) by reflexivity.
  assert (S2 : slice data 2 4 = be_bytes 2 (t_dp t)) by reflexivity.
  assert (S4 : slice data 4 8 = be_bytes 4 (t_seq t)) by reflexivity.
  assert (S8 : slice data 8 12 = be_bytes 4 (t_ack t)) by reflexivity.
  assert (S14 : slice data 14 16 = be_bytes 2 (t_win t)) by reflexivity.
  assert (S16 : slice data 16 18 = be_bytes 2 ck) by reflexivity.
  assert (S18 : slice data 18 20 = be_bytes 2 (t_urg t)) by reflexivity.
  assert (B12 : b_at data 12 = fo / 256 mod 256) by reflexivity.
  assert (B13 : b_at data 13 = fo mod 256) by reflexivity.
  assert (Hoff4 : off * 4 = 20 + ol + len pad) by lia.
  assert (Hfirst : firstn (Z.to_nat (off * 4)) data = H20 ++ rest).
  { unfold data. apply firstn_app_exact. rewrite app_length, H20len. unfold len in *. lia. }
  assert (Hskip : skipn (Z.to_nat (off * 4)) data = payload).
  { unfold data. apply skipn_app_exact. rewrite app_length, H20len. unfold len in *. lia. }
  assert (Hod : slice data 20 (Z.to_nat (off * 4)) = rest).
  { unfold slice. rewrite Hfirst. apply skipn_app_exact. lia. }
  clearbody data.
  assert (Hb12 : (fo / 256) mod 256 / 16 = off) by (unfold fo; lia).
  assert (Hfl2 : fo mod 256 + 256 * Z.land ((fo / 256) mod 256) 1 = t_flags t).
  { rewrite land_1. unfold fo. lia. }
  unfold decode_into, decode_gen.
  replace (len data <? 20) with false by lia.
  cbv zeta. rewrite S0, S2, S4, S8, S14, S16, S18, B12, B13, Hb12, Hfl2.
  replace (off <? 5) with false by lia.
  replace (len data <? off * 4) with false by lia.
  rewrite Hfirst, Hskip, Hod.
  unfold rest. rewrite loop_opts; [| exact Hopts | exact Hpe | lia].
  unfold stop. cbn [r_opts r_pad r_mp r_trunc r_out t_mp tcp0].
  rewrite app_nil_r, rev_involutive.
  rewrite !be_val_be_bytes by (cbn; lia).
  reflexivity.
Qed.


Lemma ser_spec_core a b payload fx cs ph : core a = core b ->
  fst (ser_spec a payload fx cs ph) = fst (ser_spec b payload fx cs ph).
Proof.
  destruct a, b. unfold core.
  cbn [LtcpModel.t_sp LtcpModel.t_dp LtcpModel.t_seq LtcpModel.t_ack LtcpModel.t_off LtcpModel.t_flags
       LtcpModel.t_win LtcpModel.t_sum LtcpModel.t_urg LtcpModel.t_opts LtcpModel.t_pad LtcpModel.t_mp].
  intros H. inversion H. subst.
  unfold ser_spec, ser_pad, ser_off, ser_hdr. cbv zeta.
  cbn [LtcpModel.t_sp LtcpModel.t_dp LtcpModel.t_seq LtcpModel.t_ack LtcpModel.t_off LtcpModel.t_flags
       LtcpModel.t_win LtcpModel.t_sum LtcpModel.t_urg LtcpModel.t_opts LtcpModel.t_pad LtcpModel.t_mp].
  destruct cs; [destruct ph|]; cbn [fst]; reflexivity.
Qed.

Lemma fold_csum_range c : 0 <= fold_csum c < 65536.
Proof. unfold fold_csum. lia. Qed.

(* serialize with FixLengths+ComputeChecksums, decode: no error, no truncation, the fields of the
   layer SerializeTo left behind, the payload; Contents ++ Payload are the bytes; serializing
   the decoded layer again reproduces the bytes *)
Lemma roundtrip t payload ph junk : tcp_wf t ->
  exists bytes t' t2,
    serialize t payload true true (Some ph) junk = (Ok bytes, t') /\
    decode_into tcp0 bytes [] = (t2, false, Ok tt) /\
    core t2 = core t' /\ t_payload t2 = payload /\ t_contents t2 ++ t_payload t2 = bytes /\
    (t_sp t', t_dp t', t_seq t', t_ack t', t_flags t', t_win t', t_urg t', t_opts t', t_mp t') =
    (t_sp t, t_dp t, t_seq t, t_ack t, t_flags t, t_win t, t_urg t, t_opts t, t_mp t) /\
    (forall junk2, fst (serialize t2 (t_payload t2) true true (Some ph) junk2) = Ok bytes).
Proof.
  intros Hwf. rewrite serialize_spec. unfold ser_spec. cbv zeta.
  set (ck := fold_csum _). pose proof (fold_csum_range (l4_csum ph (ser_hdr t true (ser_pad t true) (ser_off t true) 0 ++ payload))) as Hck.
  fold ck in Hck.
  eexists. eexists. eexists. split; [reflexivity|].
  split; [apply decode_ser; assumption|].
  destruct Hwf as (_ & _ & _ & _ & _ & _ & _ & _ & Hmp & _).
  split; [unfold core, set_ser; cbn [t_sp t_dp t_seq t_ack t_off t_flags t_win t_sum t_urg t_opts t_pad t_mp]; rewrite Hmp; reflexivity|].
  split; [reflexivity|]. split; [reflexivity|]. split; [reflexivity|].
  intros junk2. cbn [t_payload]. rewrite serialize_spec.
  rewrite (ser_spec_core _ (set_ser t (ser_pad t true) (ser_off t true) ck)) by (unfold core, set_ser; cbn [t_sp t_dp t_seq t_ack t_off t_flags t_win t_sum t_urg t_opts t_pad t_mp]; rewrite Hmp; reflexivity).
  pose proof (serialize_again t payload true true (Some ph) junk junk2) as Hag.
  rewrite !serialize_spec in Hag. unfold ser_spec at 2 in Hag. cbv zeta in Hag. fold ck in Hag. cbn [snd] in Hag.
  rewrite Hag. unfold ser_spec. reflexivity.
Qed.
