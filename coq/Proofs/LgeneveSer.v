(* Lemmas about the Geneve serializer model (gn_serialize of Model/LgeneveModel.v): closed form,
   no panic, junk freedom, round trip through gn_decode_into. *)
From GP Require Import Base ListX Codec CodecBits MiscLib LgeneveModel LgeneveProofs.
From Coq Require Import Lia ZifyBool ZifyNat.
Open Scope Z_scope.
Ltac Zify.zify_post_hook ::= Z.div_mod_to_equations.

Definition gn_flagbyte (o : gopt) : Z :=
  Z.lor ((go_flags o * 32) mod 256) ((((go_length o - 4) mod 256) / 4) mod 32).

Definition gn_opt_bytes (o : gopt) : list Z :=
  cd_put16 (go_class o) ++ [go_type o mod 256] ++ [gn_flagbyte o] ++ firstn (Z.to_nat (gn_dlen o)) (go_data o).

Definition gn_olen (os : list gopt) : Z := fold_left (fun a o => a + 4 + gn_dlen o) os 0.

Lemma gn_dlen_bounds o : 0 <= gn_dlen o <= zlen (go_data o).
Proof. unfold gn_dlen. pose proof (zlen_nonneg (go_data o)). lia. Qed.

Lemma gn_opt_bytes_len o : zlen (gn_opt_bytes o) = 4 + gn_dlen o.
Proof.
  unfold gn_opt_bytes. rewrite !zlen_app, zlen_put16, !zlen_one. pose proof (gn_dlen_bounds o).
  unfold zlen at 1. rewrite firstn_length. unfold zlen in *. lia.
Qed.

Lemma gn_fold_shift os : forall a, fold_left (fun a o => a + 4 + gn_dlen o) os a = a + gn_olen os.
Proof.
  unfold gn_olen. induction os as [|o t IH]; intros a; cbn [fold_left]; [lia|].
  rewrite IH. rewrite (IH (0 + 4 + gn_dlen o)). lia.
Qed.

Lemma gn_olen_cons o t : gn_olen (o :: t) = 4 + gn_dlen o + gn_olen t.
Proof. unfold gn_olen at 1. cbn [fold_left]. rewrite gn_fold_shift. lia. Qed.

Lemma gn_olen_nonneg os : 0 <= gn_olen os.
Proof. induction os as [|o t IH]; [unfold gn_olen; cbn; lia|]. rewrite gn_olen_cons. pose proof (gn_dlen_bounds o). lia. Qed.

Lemma gn_concat_len os : zlen (concat (map gn_opt_bytes os)) = gn_olen os.
Proof.
  induction os as [|o t IH]; [reflexivity|]. cbn [map concat]. rewrite zlen_app, gn_opt_bytes_len, IH, gn_olen_cons. lia.
Qed.

Lemma gn_write_opt_tile b pre n o off : ml_tiled b pre n -> off = zlen pre -> zlen pre + 4 + gn_dlen o <= n ->
  exists b', gn_write_opt b off o = Ok (b', off + 4 + gn_dlen o) /\ ml_tiled b' (pre ++ gn_opt_bytes o) n.
Proof.
  intros T -> Hle. pose proof (gn_dlen_bounds o) as Hd. pose proof (zlen_nonneg pre) as Hp.
  unfold gn_write_opt. fold (gn_flagbyte o).
  do 3 ml_tile_step T.
  match type of T with ml_tiled ?bb _ _ => set (bcur := bb) in * end.
  assert (Hb : zlen bcur = n) by (destruct T as [_ T2]; exact T2).
  rewrite cd_slc_ok by lia. cbn [obind].
  set (dat := firstn (Z.to_nat (gn_dlen o)) (go_data o)).
  assert (Hdat : zlen dat = gn_dlen o) by (unfold dat, zlen in *; rewrite firstn_length; lia).
  destruct (ml_tile_wrc bcur _ dat n (zlen pre + 4) T) as [b' [E T']];
    [rewrite !zlen_app, zlen_put16, !zlen_one; lia | rewrite !zlen_app, zlen_put16, !zlen_one; lia |].
  rewrite E. cbn [obind]. eexists; split; [reflexivity|].
  unfold gn_opt_bytes. fold dat. rewrite <- ?app_assoc in T'. rewrite <- ?app_assoc. exact T'.
Qed.

Lemma gn_write_opts_tile : forall os b pre n off, ml_tiled b pre n -> off = zlen pre -> zlen pre + gn_olen os <= n ->
  exists b', gn_write_opts b off os = Ok b' /\ ml_tiled b' (pre ++ concat (map gn_opt_bytes os)) n.
Proof.
  induction os as [|o t IH]; intros b pre n off T Ho Hle; cbn [gn_write_opts map concat].
  - exists b. split; [reflexivity|]. rewrite app_nil_r. exact T.
  - rewrite gn_olen_cons in Hle. pose proof (gn_olen_nonneg t).
    destruct (gn_write_opt_tile b pre n o off T Ho ltac:(lia)) as [b1 [E T1]]. rewrite E. cbn [obind fst snd].
    destruct (IH b1 (pre ++ gn_opt_bytes o) n (off + 4 + gn_dlen o) T1) as [b2 [E2 T2]].
    + rewrite zlen_app, gn_opt_bytes_len. lia.
    + rewrite zlen_app, gn_opt_bytes_len. lia.
    + exists b2. split; [exact E2|]. rewrite <- app_assoc in T2. exact T2.
Qed.

Lemma gn_dlen_fix fixl o : gn_dlen (gn_fix_opt fixl o) = gn_dlen o.
Proof. destruct fixl; reflexivity. Qed.

Lemma gn_olen_fix fixl os : gn_olen (map (gn_fix_opt fixl) os) = gn_olen os.
Proof. induction os as [|o t IH]; [reflexivity|]. cbn [map]. rewrite !gn_olen_cons, gn_dlen_fix, IH. reflexivity. Qed.

(* the layer after FixLengths set OptionsLength *)
Definition gn_l1 (fixl : bool) (l : geneve) : geneve :=
  if fixl then mkGn (gn_contents l) (gn_payload l) (gn_version l) (gn_olen (gn_options l) mod 256) (gn_oam l) (gn_critical l)
                    (gn_protocol l) (gn_vni l) (gn_options l) else l.
(* ... and every option's Length *)
Definition gn_l2 (fixl : bool) (l : geneve) : geneve :=
  let l1 := gn_l1 fixl l in
  mkGn (gn_contents l1) (gn_payload l1) (gn_version l1) (gn_optlen l1) (gn_oam l1) (gn_critical l1)
       (gn_protocol l1) (gn_vni l1) (map (gn_fix_opt fixl) (gn_options l1)).

Definition gn_hdr8 (l1 : geneve) : list Z :=
  [Z.lor ((gn_version l1 * 64) mod 256) ((gn_optlen l1 / 4) mod 64);
   (if gn_oam l1 then 128 else 0) + (if gn_critical l1 then 64 else 0)] ++
  cd_put16 (gn_protocol l1) ++ ml_put32 ((gn_vni l1 * 256) mod 4294967296).

Definition gn_ser_spec (l : geneve) (payload : list Z) (fixl : bool) : outcome (list Z) * geneve :=
  if fixl && (gn_olen (gn_options l) >? 252) then (Err 1, l)
  else if gn_vni (gn_l1 fixl l) >=? 16777216 then (Err 2, gn_l1 fixl l)
  else (Ok ((gn_hdr8 (gn_l1 fixl l) ++ concat (map gn_opt_bytes (gn_options (gn_l2 fixl l)))) ++ payload), gn_l2 fixl l).

Lemma gn_l1_options fixl l : gn_options (gn_l1 fixl l) = gn_options l.
Proof. destruct fixl; reflexivity. Qed.

Lemma gn_serialize_spec l payload fixl csum junk : gn_serialize l payload fixl csum junk = gn_ser_spec l payload fixl.
Proof.
  unfold gn_serialize, gn_ser_spec. cbv zeta. fold (gn_olen (gn_options l)).
  destruct (fixl && (gn_olen (gn_options l) >? 252)); [reflexivity|].
  fold (gn_l1 fixl l). set (l1 := gn_l1 fixl l).
  pose proof (gn_olen_nonneg (gn_options l)) as Hol.
  pose proof (ml_tile_init (8 + gn_olen (gn_options l)) junk ltac:(lia)) as T.
  do 3 ml_tile_step T.
  destruct (gn_vni l1 >=? 16777216); [reflexivity|].
  ml_tile_step T.
  match goal with |- context [gn_write_opts _ 8 (gn_options ?r)] => change r with (gn_l2 fixl l) end.
  match type of T with ml_tiled ?bb _ _ => set (bcur := bb) in * end.
  assert (Ho2 : gn_olen (gn_options (gn_l2 fixl l)) = gn_olen (gn_options l)).
  { unfold gn_l2. cbv zeta. cbn [gn_options]. rewrite gn_olen_fix, gn_l1_options. reflexivity. }
  match type of T with ml_tiled _ ?p _ => set (pre := p) in * end.
  assert (Hpre : zlen pre = 8) by reflexivity.
  destruct (gn_write_opts_tile (gn_options (gn_l2 fixl l)) bcur pre _ 8 T ltac:(lia) ltac:(lia)) as [b3 [E T3]].
  rewrite E. apply ml_tile_done in T3; [|rewrite zlen_app, gn_concat_len; lia].
  subst b3. unfold gn_hdr8. fold l1. subst pre. rewrite <- !app_assoc. reflexivity.
Qed.

Lemma gn_serialize_junk_free l payload fixl csum junk1 junk2 :
  gn_serialize l payload fixl csum junk1 = gn_serialize l payload fixl csum junk2.
Proof. rewrite !gn_serialize_spec. reflexivity. Qed.

Lemma gn_serialize_no_panic l payload fixl csum junk : is_panic (fst (gn_serialize l payload fixl csum junk)) = false.
Proof.
  rewrite gn_serialize_spec. unfold gn_ser_spec.
  destruct (fixl && (gn_olen (gn_options l) >? 252)); [reflexivity|].
  destruct (gn_vni (gn_l1 fixl l) >=? 16777216); reflexivity.
Qed.
