(* Round trip of the Diameter model: dm_decode_into (dm_serialize l) under dm_wf. *)
From GP Require Import Base ListX Codec MiscLib LdiameterModel LdiameterProofs LdiameterSer.
From Coq Require Import Lia ZifyBool ZifyNat.
Open Scope Z_scope.
Ltac Zify.zify_post_hook ::= Z.div_mod_to_equations.

(* an AVP without its derived sub-AVPs (the decoder re-derives GroupedAVPs from Data) *)
Definition av_strip (a : davp) : davp :=
  mkAvp (av_code a) (av_fv a) (av_fm a) (av_fp a) (av_len a) (av_vendor a) (av_data a) None.

Definition av_hs (a : davp) : Z := if av_fv a then 12 else 8.

(* an AVP value as a decoder produces it *)
Definition av_wf (a : davp) : Prop :=
  0 <= av_code a < 4294967296 /\ 0 <= av_vendor a < 4294967296 /\ (av_fv a = false -> av_vendor a = 0) /\
  av_len a = av_hs a + zlen (av_data a) /\ av_len a < 16777216 /\ bytes_ok (av_data a).

Lemma dm_avp_bytes_len a : zlen (dm_avp_bytes a) = pad4 (av_hs a + zlen (av_data a)).
Proof.
  unfold dm_avp_bytes, av_hs. cbv zeta. pose proof (zlen_nonneg (av_data a)) as Nd.
  set (len := (if av_fv a then 12 else 8) + zlen (av_data a)).
  assert (Hl : 8 <= len) by (unfold len; destruct (av_fv a); lia).
  pose proof (pad4_bounds len ltac:(lia)) as [Pb _].
  rewrite !zlen_app, zlen_put32, zlen_one. change (zlen [(len / 65536) mod 256; (len / 256) mod 256; len mod 256]) with 3.
  assert (Hv : zlen (if av_fv a then ml_put32 (av_vendor a mod 4294967296) else []) = (if av_fv a then 4 else 0)) by (destruct (av_fv a); reflexivity).
  rewrite Hv. unfold zlen at 2. rewrite repeat_length. unfold len in *. destruct (av_fv a); lia.
Qed.

Section Table.
Variable isg : Z -> Z -> bool.

Lemma flag_bits (v m p : bool) :
  let fl := (if v then 128 else 0) + (if m then 64 else 0) + (if p then 32 else 0) in
  ((fl / 128) mod 2 =? 1) = v /\ ((fl / 64) mod 2 =? 1) = m /\ ((fl / 32) mod 2 =? 1) = p.
Proof. destruct v, m, p; vm_compute; repeat split; reflexivity. Qed.

Lemma dm_one_bytes f a rest : av_wf a -> walk_safe isg f -> zlen (dm_avp_bytes a ++ rest) <= Z.of_nat (S f) ->
  exists a', dm_one isg (S f) (dm_avp_bytes a ++ rest) = Ok (a', zlen (dm_avp_bytes a)) /\ av_strip a' = av_strip a.
Proof.
  intros [Hc [Hv [Hv0 [Hlen [Hl24 Hbd]]]]] WS Hfuel.
  pose proof (dm_avp_bytes_len a) as Lb. pose proof (zlen_nonneg (av_data a)) as Nd. pose proof (zlen_nonneg rest) as Nr.
  destruct a as [code fv fm fp len vendor dat sub]. unfold av_hs in *. cbn [av_code av_fv av_fm av_fp av_len av_vendor av_data] in *.
  set (hs := if fv then 12 else 8) in *. assert (Hhs : 8 <= hs <= 12) by (unfold hs; destruct fv; lia).
  pose proof (pad4_bounds len ltac:(lia)) as [Pb _]. rewrite <- Hlen in Lb.
  destruct (flag_bits fv fm fp) as [F1 [F2 F3]]. cbv zeta in F1, F2, F3.
  set (fl := (if fv then 128 else 0) + (if fm then 64 else 0) + (if fp then 32 else 0)) in *.
  set (h8 := ml_put32 (code mod 4294967296) ++ [fl] ++ [(len / 65536) mod 256; (len / 256) mod 256; len mod 256]).
  set (vb := if fv then ml_put32 (vendor mod 4294967296) else []).
  set (pd := repeat 0 (Z.to_nat (pad4 len - len))).
  assert (Eb : dm_avp_bytes (mkAvp code fv fm fp len vendor dat sub) = (h8 ++ vb) ++ dat ++ pd).
  { unfold dm_avp_bytes. cbn [av_code av_fv av_fm av_fp av_len av_vendor av_data]. cbv zeta. fold hs. rewrite <- Hlen.
    fold fl. unfold h8, vb, pd. rewrite <- !app_assoc. reflexivity. }
  rewrite Eb in *. clear Eb.
  remember (((h8 ++ vb) ++ dat ++ pd) ++ rest) as data eqn:Hd.
  assert (Lhv : zlen (h8 ++ vb) = hs) by (rewrite zlen_app; unfold h8, vb, hs; destruct fv; reflexivity).
  assert (Lpd : zlen pd = pad4 len - len) by (unfold pd, zlen; rewrite repeat_length; lia).
  assert (Hn : zlen data = pad4 len + zlen rest) by (rewrite Hd, zlen_app, Lb; reflexivity).
  assert (Hd8 : data = h8 ++ (vb ++ dat ++ pd) ++ rest) by (rewrite Hd, <- !app_assoc; reflexivity).
  assert (Hnth : forall k, (k < 8)%nat -> nth k data 0 = nth k h8 0) by (intros k Hk; rewrite Hd8; apply app_nth1; exact Hk).
  rewrite dm_one_S. cbv zeta.
  destruct (zlen data <? 8) eqn:C0; [lia|].
  rewrite ml_rd32_ok by lia. rewrite !cd_idx_ok by lia. cbn [obind].
  change (Z.to_nat 0) with 0%nat; change (Z.to_nat (0 + 1)) with 1%nat; change (Z.to_nat (0 + 2)) with 2%nat;
  change (Z.to_nat (0 + 2 + 1)) with 3%nat; change (Z.to_nat 4) with 4%nat; change (Z.to_nat 5) with 5%nat;
  change (Z.to_nat 6) with 6%nat; change (Z.to_nat 7) with 7%nat.
  rewrite !Hnth by lia.
  assert (N0 : (nth 0 h8 0 * 256 + nth 1 h8 0) * 65536 + (nth 2 h8 0 * 256 + nth 3 h8 0) = code).
  { unfold h8. rewrite (Z.mod_small code) by lia. cbn [nth ml_put32 app]. rewrite ml_put32_be by lia. reflexivity. }
  assert (N4 : nth 4 h8 0 = fl) by reflexivity.
  assert (N5 : (nth 5 h8 0 * 256 + nth 6 h8 0) * 256 + nth 7 h8 0 = len).
  { change (nth 5 h8 0) with ((len / 65536) mod 256). change (nth 6 h8 0) with ((len / 256) mod 256). change (nth 7 h8 0) with (len mod 256). lia. }
  rewrite N0, N4, N5.
  destruct (len <? 8) eqn:C1; [lia|]. rewrite F1.
  destruct (fv && (zlen data <? 12)) eqn:C2; [destruct fv; cbn [andb] in C2; unfold hs in *; lia|].
  assert (Ev : (if fv then ml_rd32 data 8 else Ok 0) = Ok vendor).
  { destruct fv; [|rewrite Hv0 by reflexivity; reflexivity].
    rewrite ml_rd32_ok by (unfold hs in *; lia).
    assert (Hn8 : forall k, (k < 4)%nat -> nth (8 + k) data 0 = nth k (ml_put32 (vendor mod 4294967296)) 0).
    { intros k Hk. rewrite Hd8. rewrite app_nth2 by (cbn [length h8 ml_put32 app]; lia).
      replace (8 + k - length h8)%nat with k by (cbn [length h8 ml_put32 app]; lia).
      unfold vb. rewrite <- !app_assoc. apply app_nth1. exact Hk. }
    change (Z.to_nat 8) with (8 + 0)%nat; change (Z.to_nat (8 + 1)) with (8 + 1)%nat; change (Z.to_nat (8 + 2)) with (8 + 2)%nat;
    change (Z.to_nat (8 + 2 + 1)) with (8 + 3)%nat. rewrite !Hn8 by lia. cbn [nth ml_put32]. rewrite ml_put32_be by lia.
    rewrite Z.mod_small by lia. reflexivity. }
  rewrite Ev. cbn [obind]. fold hs.
  destruct (zlen data <? pad4 len) eqn:C3; [lia|]. destruct (len <? hs) eqn:C4; [lia|].
  rewrite cd_slc_ok by lia. cbn [obind].
  assert (S1 : slice data (Z.to_nat hs) (Z.to_nat (hs + (len - hs))) = dat).
  { rewrite Hd. rewrite <- (app_assoc (h8 ++ vb)). rewrite <- (app_assoc dat). apply slice_at; unfold zlen in *; lia. }
  rewrite S1. rewrite F2, F3.
  destruct (isg code vendor).
  - assert (Hlt : zlen dat < Z.of_nat f) by lia.
    destruct (WS dat Hbd Hlt) as [P1 P2].
    destruct (dm_walk isg f dat) as [sl so]. cbn [snd] in P1, P2.
    destruct so as [u|e|s]; cbv beta iota.
    + eexists; split; [rewrite Lb; reflexivity|reflexivity].
    + destruct (e =? 99) eqn:E99; [exfalso; apply P2; f_equal; lia|]. eexists; split; [rewrite Lb; reflexivity|reflexivity].
    + discriminate.
  - eexists; split; [rewrite Lb; reflexivity|reflexivity].
Qed.

Lemma dm_walk_bytes : forall l f, Forall av_wf l -> zlen (concat (map dm_avp_bytes l)) < Z.of_nat f ->
  exists l', dm_walk isg f (concat (map dm_avp_bytes l)) = (l', Ok tt) /\ map av_strip l' = map av_strip l.
Proof.
  induction l as [|a t IH]; intros f W Hf.
  - cbn [map concat] in *. destruct f as [|f]; [change (zlen (@nil Z)) with 0 in Hf; lia|].
    exists []. split; [rewrite dm_walk_S; reflexivity|reflexivity].
  - inversion W as [|? ? Wa Wt]; subst. cbn [map concat] in *.
    destruct f as [|f]; [pose proof (zlen_nonneg (dm_avp_bytes a ++ concat (map dm_avp_bytes t))); lia|].
    set (rest := concat (map dm_avp_bytes t)) in *.
    pose proof (dm_avp_bytes_len a) as Lb. pose proof (zlen_nonneg rest) as Nr.
    assert (H8 : 8 <= zlen (dm_avp_bytes a)).
    { rewrite Lb. destruct Wa as [_ [_ [_ [Hlen _]]]]. pose proof (zlen_nonneg (av_data a)).
      assert (8 <= av_hs a + zlen (av_data a)) by (unfold av_hs; destruct (av_fv a); lia).
      pose proof (pad4_bounds (av_hs a + zlen (av_data a)) ltac:(lia)). lia. }
    assert (Hf' : zlen (dm_avp_bytes a) + zlen rest < Z.of_nat (S f)) by (rewrite zlen_app in Hf; exact Hf).
    (* dm_walk (S f) calls dm_one f *)
    destruct f as [|f]; [lia|].
    destruct (dm_safe isg f) as [WS' _].
    assert (Hle : zlen (dm_avp_bytes a ++ rest) <= Z.of_nat (S f)) by (rewrite zlen_app; lia).
    destruct (dm_one_bytes f a rest Wa WS' Hle) as [a2 [E2 Es2]].
    rewrite dm_walk_S. rewrite zlen_app. destruct (zlen (dm_avp_bytes a) + zlen rest <? 8) eqn:C; [lia|].
    rewrite E2. rewrite cd_slc_ok by (rewrite ?zlen_app; lia).
    assert (S1 : slice (dm_avp_bytes a ++ rest) (Z.to_nat (zlen (dm_avp_bytes a))) (Z.to_nat (zlen (dm_avp_bytes a) + zlen rest)) = rest).
    { apply slice_to_end; unfold zlen; lia. }
    rewrite S1. destruct (IH (S f) Wt ltac:(lia)) as [l' [E3 Es3]].
    rewrite E3. exists (a2 :: l'). split; [reflexivity|]. cbn [map]. rewrite Es2, Es3. reflexivity.
Qed.
End Table.

Definition dm_wf (l : diameter) : Prop :=
  dm_version l = 1 /\ 0 <= dm_cmd l < 16777216 /\ 0 <= dm_app l < 4294967296 /\ 0 <= dm_hbh l < 4294967296 /\
  0 <= dm_e2e l < 4294967296 /\ Forall av_wf (dm_avps l) /\ 20 + dm_alen (dm_avps l) < 16777216.

Lemma flag_bits4 (a b c d : bool) :
  let fl := (if a then 128 else 0) + (if b then 64 else 0) + (if c then 32 else 0) + (if d then 16 else 0) in
  ((fl / 128) mod 2 =? 1) = a /\ ((fl / 64) mod 2 =? 1) = b /\ ((fl / 32) mod 2 =? 1) = c /\ ((fl / 16) mod 2 =? 1) = d.
Proof. destruct a, b, c, d; vm_compute; repeat split; reflexivity. Qed.

Lemma dm_roundtrip isg l payload csum junk bytes l' old :
  dm_wf l -> dm_serialize l payload true csum junk = (Ok bytes, l') ->
  exists d, dm_decode_into isg old bytes = (d, Ok tt, false) /\
    dm_version d = 1 /\ dm_mlen d = 20 + dm_alen (dm_avps l) /\ dm_mlen l' = dm_mlen d /\
    dm_req d = dm_req l /\ dm_prox d = dm_prox l /\ dm_err d = dm_err l /\ dm_retr d = dm_retr l /\
    dm_cmd d = dm_cmd l /\ dm_app d = dm_app l /\ dm_hbh d = dm_hbh l /\ dm_e2e d = dm_e2e l /\
    map av_strip (dm_avps d) = map av_strip (dm_avps l) /\ dm_payload d = [] /\ dm_contents d ++ payload = bytes.
Proof.
  intros [Hver [Hcmd [Happ [Hhbh [He2e [Wa Htot]]]]]]. rewrite dm_serialize_spec. intros X.
  match type of X with (Ok ?b, ?x) = _ => assert (Eb : bytes = b) by congruence; assert (El : l' = x) by congruence end. clear X.
  pose proof (dm_alen_nonneg (dm_avps l)) as Na. set (al := dm_alen (dm_avps l)) in *.
  set (ct := concat (map dm_avp_bytes (dm_avps l))) in *.
  assert (Hct : zlen ct = al) by (unfold ct; apply dm_concat_len).
  assert (Eml : dm_mlen (dm_l1 true l) = 20 + al) by (cbn [dm_l1 dm_mlen]; fold al; lia).
  destruct (flag_bits4 (dm_req l) (dm_prox l) (dm_err l) (dm_retr l)) as [F1 [F2 [F3 F4]]]. cbv zeta in F1, F2, F3, F4.
  set (fl := (if dm_req l then 128 else 0) + (if dm_prox l then 64 else 0) + (if dm_err l then 32 else 0) + (if dm_retr l then 16 else 0)) in *.
  set (ml := 20 + al) in *.
  assert (H20 : dm_hdr20 (dm_l1 true l) =
    [1; (ml / 65536) mod 256; (ml / 256) mod 256; ml mod 256; fl; (dm_cmd l / 65536) mod 256; (dm_cmd l / 256) mod 256; dm_cmd l mod 256] ++
    ml_put32 (dm_app l) ++ ml_put32 (dm_hbh l) ++ ml_put32 (dm_e2e l)).
  { unfold dm_hdr20. rewrite Eml. cbn [dm_l1 dm_version dm_req dm_prox dm_err dm_retr dm_cmd dm_app dm_hbh dm_e2e]. fold fl.
    rewrite Hver. rewrite (Z.mod_small (dm_app l)), (Z.mod_small (dm_hbh l)), (Z.mod_small (dm_e2e l)) by lia. reflexivity. }
  set (h8 := [1; (ml / 65536) mod 256; (ml / 256) mod 256; ml mod 256; fl; (dm_cmd l / 65536) mod 256; (dm_cmd l / 256) mod 256; dm_cmd l mod 256]) in *.
  set (h20 := h8 ++ ml_put32 (dm_app l) ++ ml_put32 (dm_hbh l) ++ ml_put32 (dm_e2e l)) in *.
  rewrite H20 in Eb.
  assert (L20 : zlen h20 = 20) by reflexivity.
  pose proof (zlen_nonneg payload) as Np.
  assert (Hn : zlen bytes = ml + zlen payload) by (rewrite Eb, !zlen_app, L20, Hct; unfold ml; lia).
  assert (Eb2 : bytes = h20 ++ ct ++ payload) by (rewrite Eb, <- app_assoc; reflexivity).
  assert (Hnth : forall k, (k < 20)%nat -> nth k bytes 0 = nth k h20 0) by (intros k Hk; rewrite Eb2; apply app_nth1; exact Hk).
  unfold dm_decode_into. cbv zeta. destruct (zlen bytes <? 20) eqn:C0; [lia|].
  rewrite !cd_idx_ok by lia. cbn [ml_bind].
  change (Z.to_nat 0) with 0%nat; change (Z.to_nat 1) with 1%nat; change (Z.to_nat 2) with 2%nat; change (Z.to_nat 3) with 3%nat;
  change (Z.to_nat 4) with 4%nat; change (Z.to_nat 5) with 5%nat; change (Z.to_nat 6) with 6%nat; change (Z.to_nat 7) with 7%nat.
  rewrite !Hnth by lia. cbn [nth h20 h8 app]. cbn [Z.eqb Pos.eqb negb].
  assert (Eml2 : ((ml / 65536) mod 256 * 256 + (ml / 256) mod 256) * 256 + ml mod 256 = ml) by lia. rewrite Eml2.
  assert (Ecmd : ((dm_cmd l / 65536) mod 256 * 256 + (dm_cmd l / 256) mod 256) * 256 + dm_cmd l mod 256 = dm_cmd l) by lia. rewrite Ecmd.
  destruct (ml <? 20) eqn:C1; [lia|]. destruct (zlen bytes <? ml) eqn:C2; [lia|].
  rewrite !ml_rd32_ok by lia. cbn [ml_bind].
  change (Z.to_nat 8) with 8%nat; change (Z.to_nat (8 + 1)) with 9%nat; change (Z.to_nat (8 + 2)) with 10%nat; change (Z.to_nat (8 + 2 + 1)) with 11%nat;
  change (Z.to_nat 12) with 12%nat; change (Z.to_nat (12 + 1)) with 13%nat; change (Z.to_nat (12 + 2)) with 14%nat; change (Z.to_nat (12 + 2 + 1)) with 15%nat;
  change (Z.to_nat 16) with 16%nat; change (Z.to_nat (16 + 1)) with 17%nat; change (Z.to_nat (16 + 2)) with 18%nat; change (Z.to_nat (16 + 2 + 1)) with 19%nat.
  rewrite !Hnth by lia. cbn [nth h20 h8 app ml_put32]. rewrite !ml_put32_be by lia.
  rewrite cd_slc_ok by lia. cbn [ml_bind].
  assert (S1 : slice bytes (Z.to_nat 20) (Z.to_nat ml) = ct).
  { rewrite Eb2. apply slice_at; [reflexivity|]. unfold zlen in *. cbn [length h20 h8 app ml_put32] in *. lia. }
  rewrite S1.
  destruct (dm_walk_bytes isg (dm_avps l) (S (length ct)) Wa ltac:(fold ct; unfold zlen; lia)) as [avs [Ew Es]].
  fold ct in Ew. rewrite Ew. rewrite cd_slc_ok by lia. cbn [ml_bind].
  assert (S2 : slice bytes (Z.to_nat 0) (Z.to_nat ml) = h20 ++ ct).
  { rewrite Eb. apply slice_from_start. rewrite app_length. unfold zlen in *. cbn [length h20 h8 app ml_put32] in *. lia. }
  rewrite S2. rewrite F1, F2, F3, F4.
  eexists. split; [reflexivity|].
  cbn [dm_version dm_mlen dm_req dm_prox dm_err dm_retr dm_cmd dm_app dm_hbh dm_e2e dm_avps dm_payload dm_contents].
  rewrite El, Eml. repeat split; try reflexivity; try assumption. symmetry; exact Eb.
Qed.
