(* C12 — proofs about the interleaving model of Model/C12Model.v.
   Everything is parametric in the per-connection machine (cstate, cinit, cclosed, process,
   flush) under three hypotheses about the closed flag and the completion callback, which
   are proved for the two concrete instances at the end. *)
From GP Require Import Base ListX C12Model.
From Coq Require Import Lia.
Open Scope nat_scope.

(* ---------------------------------------------------------------- lists *)
Lemma nth_upd_eq {A} (l : list A) i v d : i < length l -> nth i (upd l i v) d = v.
Proof. revert i; induction l as [|h t IH]; intros [|i] H; cbn in *; try lia; auto. apply IH; lia. Qed.
Lemma nth_upd_ne {A} (l : list A) i j v d : i <> j -> nth j (upd l i v) d = nth j l d.
Proof.
  revert i j; induction l as [|h t IH]; intros [|i] [|j] H; cbn; try reflexivity; try lia.
  apply IH; lia.
Qed.
Lemma nth_upd_ge {A} (l : list A) i v : length l <= i -> upd l i v = l.
Proof. revert i; induction l as [|h t IH]; intros [|i] H; cbn in *; try reflexivity; try lia. f_equal; apply IH; lia. Qed.

Lemma key_eqb_refl k : key_eqb k k = true.
Proof. unfold key_eqb. rewrite Nat.eqb_refl, Bool.eqb_reflx. reflexivity. Qed.
Lemma key_eqb_eq a b : key_eqb a b = true <-> a = b.
Proof.
  unfold key_eqb. destruct a as [fa da], b as [fb db]; cbn. rewrite andb_true_iff, Nat.eqb_eq, Bool.eqb_true_iff.
  split; [intros [-> ->]; reflexivity | intros H; inversion H; auto].
Qed.
Lemma key_eqb_neq a b : key_eqb a b = false <-> a <> b.
Proof. rewrite <- key_eqb_eq. destruct (key_eqb a b); split; congruence. Qed.
Lemma key_rev_neq k : key_rev k <> k.
Proof. destruct k as [f d]; unfold key_rev; cbn. intros H; inversion H. destruct d; discriminate. Qed.
Lemma key_rev_invol k : key_rev (key_rev k) = k.
Proof. destruct k as [f d]; unfold key_rev; cbn. rewrite negb_involutive. reflexivity. Qed.

Lemma assoc_in k l c : assoc k l = Some c -> In (k, c) l.
Proof.
  induction l as [|[k' c'] r IH]; cbn; [discriminate|].
  destruct (key_eqb k k') eqn:E; intros H.
  - apply key_eqb_eq in E. inversion H; subst. left; reflexivity.
  - right; auto.
Qed.
Lemma assoc_none_notin k l : assoc k l = None -> forall c, ~ In (k, c) l.
Proof.
  induction l as [|[k' c'] r IH]; cbn; [tauto|].
  destruct (key_eqb k k') eqn:E; [discriminate|]. intros H c [H1|H1].
  - inversion H1; subst. rewrite key_eqb_refl in E; discriminate.
  - exact (IH H c H1).
Qed.
Lemma in_assoc_some k c l : In (k, c) l -> assoc k l <> None.
Proof. intros H E. exact (assoc_none_notin _ _ E _ H). Qed.
Lemma in_remove_assoc k k' c l : In (k', c) (remove_assoc k l) -> k' <> k /\ In (k', c) l.
Proof.
  induction l as [|[k2 c2] r IH]; cbn; [tauto|].
  destruct (key_eqb k k2) eqn:E.
  - intros H. destruct (IH H). split; auto.
  - intros [H|H].
    + inversion H; subst. split; [|left; reflexivity]. apply key_eqb_neq in E. congruence.
    + destruct (IH H). split; auto.
Qed.
Lemma assoc_remove_none k k' l : assoc k l = None -> assoc k (remove_assoc k' l) = None.
Proof.
  induction l as [|[k2 c2] r IH]; cbn; [reflexivity|].
  destruct (key_eqb k k2) eqn:E; [discriminate|]. intros H.
  destruct (key_eqb k' k2); cbn; [auto|]. rewrite E. auto.
Qed.

Lemma map_remove_assoc_in {B} (f : key * nat -> B) k l y :
  In y (map f (remove_assoc k l)) -> In y (map f l).
Proof.
  induction l as [|[k2 c2] r IH]; cbn; [tauto|].
  destruct (key_eqb k k2); cbn; [auto|]. intros [H|H]; auto.
Qed.
Lemma nodup_map_remove_assoc {B} (f : key * nat -> B) k l :
  NoDup (map f l) -> NoDup (map f (remove_assoc k l)).
Proof.
  induction l as [|[k2 c2] r IH]; cbn; [auto|]. intros H. inversion H; subst.
  destruct (key_eqb k k2); cbn; [auto|]. constructor; [|auto].
  intros Hin. apply H2. eapply map_remove_assoc_in; eassumption.
Qed.
Lemma assoc_none_keys k l : assoc k l = None -> ~ In k (map fst l).
Proof.
  intros H Hin. apply in_map_iff in Hin as [[k' c] [E Hin]]. cbn in E; subst.
  exact (assoc_none_notin _ _ H _ Hin).
Qed.
Lemma in_ins_sorted x y l : In x (ins_sorted y l) -> x = y \/ In x l.
Proof.
  induction l as [|z r IH]; cbn; [intros [H|[]]; auto|].
  destruct (Nat.leb y z); cbn; intros [H|H]; auto. destruct (IH H); auto.
Qed.
Lemma in_sort_ids x l : In x (sort_ids l) -> In x l.
Proof.
  induction l as [|y r IH]; cbn; [tauto|]. intros H. apply in_ins_sorted in H as [H|H]; auto.
Qed.
Lemma lookup_in g conns k c fwd : lookup g conns k = Some (c, fwd) -> In c (map snd conns).
Proof.
  unfold lookup. destruct (assoc k conns) as [c1|] eqn:E1.
  - intros H; inversion H; subst. apply assoc_in in E1. apply in_map_iff. exists (k, c); auto.
  - destruct (is_rsm g); [|discriminate]. destruct (assoc (key_rev k) conns) as [c1|] eqn:E2; [|discriminate].
    intros H; inversion H; subst. apply assoc_in in E2. apply in_map_iff. exists (key_rev k, c); auto.
Qed.
Lemma lookup_none g conns k : lookup g conns k = None ->
  assoc k conns = None /\ (is_rsm g = true -> assoc (key_rev k) conns = None).
Proof.
  unfold lookup. destruct (assoc k conns); [discriminate|]. destruct (is_rsm g).
  - destruct (assoc (key_rev k) conns); [discriminate|]. auto.
  - intros _. split; [reflexivity|discriminate].
Qed.

Definition rest_of_pc (p : pc) : list nat :=
  match p with
  | PWant c (WFlush _ r) => c :: r
  | PWant c (WPkt _ _) => [c]
  | PRemove c (KFlush _ r _) => c :: r
  | PRemove c KNext => [c]
  | PRemove2 c _ r => c :: r
  | _ => []
  end.
Lemma rest_next_pc prog : rest_of_pc (next_pc prog) = [].
Proof. destruct prog; reflexivity. Qed.
Lemma rest_cont_flush a r prog x : In x (rest_of_pc (cont_flush a r prog)) -> In x r.
Proof. destruct r; cbn; [rewrite rest_next_pc; tauto|auto]. Qed.

Section Proofs.
Variable cstate : Type.
Variable cinit : cstate.
Variable cclosed : cstate -> bool.
Variable creset : packet -> cstate.
Variable process : cstate -> bool -> packet -> cstate * list cevent * bool.
Variable flush : option Z -> cstate -> cstate * list cevent * bool.
Variable ctrail : option Z -> cstate -> bool.

Definition count_complete (evs : list cevent) : nat := length (filter is_complete evs).

(* what the pool relies on from the per-connection machine *)
Definition machine_ok : Prop :=
  cclosed cinit = false /\ (forall p, cclosed (creset p) = false) /\
  (forall st h p st' ev b, process st h p = (st', ev, b) ->
     (b = true -> cclosed st = false /\ cclosed st' = true) /\
     (cclosed st = true -> cclosed st' = true) /\
     count_complete ev = (if b then 1 else 0)) /\
  (forall a st st' ev b, flush a st = (st', ev, b) ->
     (b = true -> cclosed st = false /\ cclosed st' = true) /\
     (cclosed st = true -> cclosed st' = true) /\
     count_complete ev = (if b then 1 else 0)).

Notation State := (state cstate).
Notation Conn := (conn cstate).
Notation exec' := (exec cstate cinit cclosed creset process flush ctrail).
Notation obj' := (obj cstate cinit).
Notation blank' := (blank cstate cinit).
Notation enabled' := (enabled cstate cinit).

Inductive reachable (g : config) (progs : list (list op)) : State -> Prop :=
| R_init : reachable g progs (init cstate progs)
| R_step s t s' : reachable g progs s -> exec' g s t = Some s' -> reachable g progs s'.

Definition pop (s : State) : nat * list nat * list Conn :=
  match s_free s with
  | c :: f => (c, f, s_objs s)
  | [] => (length (s_objs s), [], s_objs s ++ [blank'])
  end.

Definition not_remove (p : pc) : Prop := forall c k, p <> PRemove c k.
(* program counters from which reassembly's second, unlocked remove() will be reached *)
Definition trail_pc (p : pc) : bool :=
  match p with PRemove2 _ _ _ => true | PRemove _ (KFlush _ _ true) => true | _ => false end.
Definition trail_cfg (g : config) : bool := is_rsm g && g_trail g.

(* the shapes a step can have *)
Inductive step_spec (g : config) (s : State) (t : nat) (s' : State) : Prop :=
| SpLocal th' :
    s_conns s' = s_conns s -> s_free s' = s_free s -> s_objs s' = s_objs s -> s_nsid s' = s_nsid s ->
    s_kept s' = s_kept s -> s_log s' = s_log s -> s_thr s' = upd (s_thr s) t th' ->
    not_remove (t_pc th') -> t_pc th' <> PPanic -> not_remove (t_pc (thr s t)) ->
    (forall p, t_pc (thr s t) <> PMiss p) -> trail_pc (t_pc th') = false ->
    step_spec g s t s'
| SpMiss p th' c free' objs0 :
    t_pc (thr s t) = PMiss p -> pop s = (c, free', objs0) ->
    s_free s' = free' ->
    s_objs s' = upd objs0 c (mkConn (p_key p) (s_nsid s) (creset p) (c_lock (nth c objs0 blank'))) ->
    s_nsid s' = S (s_nsid s) -> s_thr s' = upd (s_thr s) t th' -> not_remove (t_pc th') ->
    (s_log s' = ENew t (p_key p) (s_nsid s) :: s_log s \/
     s_log s' = EPanic t :: ENew t (p_key p) (s_nsid s) :: s_log s) ->
    ((lookup g (s_conns s) (p_key p) = None /\ s_conns s' = (p_key p, c) :: s_conns s /\ s_kept s' = s_nsid s :: s_kept s) \/
     (lookup g (s_conns s) (p_key p) <> None /\ s_conns s' = s_conns s /\ s_kept s' = s_kept s)) ->
    (t_pc th' = PPanic -> is_rsm g = true /\ g_fixme g = true) -> trail_pc (t_pc th') = false ->
    step_spec g s t s'
| SpProc c w st' evs closes th' :
    t_pc (thr s t) = PWant c w -> c_lock (obj' s c) = None ->
    ((exists p fwd, w = WPkt p fwd /\ process (c_st (obj' s c)) fwd p = (st', evs, closes) /\
        s_log s' = rev (map (ECall t (c_stream (obj' s c)) c) evs) ++
                   EProc t p c (c_key (obj' s c)) (c_stream (obj' s c)) :: s_log s) \/
     (exists age rest, w = WFlush age rest /\ flush age (c_st (obj' s c)) = (st', evs, closes) /\
        s_log s' = rev (map (ECall t (c_stream (obj' s c)) c) evs) ++ s_log s)) ->
    s_objs s' = upd (s_objs s) c (mkConn (c_key (obj' s c)) (c_stream (obj' s c)) st' (if closes then Some t else None)) ->
    s_conns s' = s_conns s -> s_free s' = s_free s -> s_nsid s' = s_nsid s -> s_kept s' = s_kept s ->
    s_thr s' = upd (s_thr s) t th' ->
    (closes = true -> exists k, t_pc th' = PRemove c k) -> (closes = false -> not_remove (t_pc th')) ->
    t_pc th' <> PPanic -> (trail_pc (t_pc th') = true -> trail_cfg g = true) ->
    step_spec g s t s'
| SpRemove c k th' :
    t_pc (thr s t) = PRemove c k ->
    s_objs s' = upd (s_objs s) c (mkConn (c_key (obj' s c)) (c_stream (obj' s c)) (c_st (obj' s c)) None) ->
    ((s_conns s' = s_conns s /\ s_free s' = s_free s) \/
     (s_conns s' = remove_assoc (c_key (obj' s c)) (s_conns s) /\
      (s_free s' = c :: s_free s \/ (s_free s' = s_free s /\ g_recycle g = false)))) ->
    s_nsid s' = s_nsid s -> s_kept s' = s_kept s -> s_log s' = s_log s ->
    s_thr s' = upd (s_thr s) t th' -> not_remove (t_pc th') -> t_pc th' <> PPanic ->
    (trail_pc (t_pc th') = true -> trail_pc (t_pc (thr s t)) = true) ->
    step_spec g s t s'
| SpRemove2 c age rest th' :
    t_pc (thr s t) = PRemove2 c age rest -> s_objs s' = s_objs s ->
    ((s_conns s' = s_conns s /\ s_free s' = s_free s) \/
     (s_conns s' = remove_assoc (c_key (obj' s c)) (s_conns s) /\
      (s_free s' = c :: s_free s \/ (s_free s' = s_free s /\ g_recycle g = false)))) ->
    s_nsid s' = s_nsid s -> s_kept s' = s_kept s -> s_log s' = s_log s ->
    s_thr s' = upd (s_thr s) t th' -> not_remove (t_pc th') -> t_pc th' <> PPanic -> trail_pc (t_pc th') = false ->
    step_spec g s t s'.

Lemma next_pc_nr prog : not_remove (next_pc prog) /\ next_pc prog <> PPanic.
Proof. unfold next_pc, not_remove. destruct prog; split; try intros; discriminate. Qed.
Lemma cont_flush_nr a rest prog : not_remove (cont_flush a rest prog) /\ cont_flush a rest prog <> PPanic.
Proof. unfold cont_flush. destruct rest; [apply next_pc_nr|]. split; [intros c k|]; discriminate. Qed.
Lemma next_pc_nt prog : trail_pc (next_pc prog) = false.
Proof. destruct prog; reflexivity. Qed.
Lemma cont_flush_nt a rest prog : trail_pc (cont_flush a rest prog) = false.
Proof. destruct rest; [apply next_pc_nt|reflexivity]. Qed.

Lemma enabled_lt (s : State) t : enabled' s t = true -> t < length (s_thr s).
Proof.
  unfold enabled, thr. intros H. destruct (Nat.lt_ge_cases t (length (s_thr s))) as [L|L]; [assumption|].
  rewrite nth_overflow in H by assumption. discriminate.
Qed.

Ltac nr := first [apply next_pc_nr | apply cont_flush_nr | apply next_pc_nt | apply cont_flush_nt | reflexivity
                 | (intros ? ?; discriminate) | discriminate].

Lemma do_lookup_spec g (s : State) t p prog :
  not_remove (t_pc (thr s t)) -> (forall p, t_pc (thr s t) <> PMiss p) ->
  step_spec g s t (do_lookup cstate g s t p prog).
Proof.
  intros Hnr Hnm. unfold do_lookup.
  destruct (lookup g (s_conns s) (p_key p)) as [[c fwd]|] eqn:EL; [|destruct (end_flag g p)];
    (eapply SpLocal; cbn; try reflexivity; try assumption; nr).
Qed.

Lemma exec_spec g (s : State) t s' : exec' g s t = Some s' -> step_spec g s t s'.
Proof.
  unfold exec. destruct (enabled' s t) eqn:En; cbn [negb]; [|discriminate].
  destruct (t_pc (thr s t)) eqn:Epc.
  - (* PStart *)
    assert (Hnr : not_remove (t_pc (thr s t))) by (rewrite Epc; intros ? ?; discriminate).
    assert (Hnm : forall p, t_pc (thr s t) <> PMiss p) by (rewrite Epc; intros ?; discriminate).
    destruct (t_prog (thr s t)) as [|[p|age] rest] eqn:Epr.
    + intros H; inversion H; subst; clear H. eapply SpLocal; cbn; try reflexivity; try assumption; nr.
    + destruct (ignored g p).
      * intros H; inversion H; subst; clear H. eapply SpLocal; cbn; try reflexivity; try assumption; nr.
      * intros H; inversion H; subst; clear H. apply do_lookup_spec; assumption.
    + intros H; inversion H; subst; clear H. eapply SpLocal; cbn; try reflexivity; try assumption; nr.
  - (* PMiss *)
    destruct (s_free s) as [|c f] eqn:Ef.
    + destruct (lookup g (s_conns s) (p_key p)) as [[c2 fwd2]|] eqn:EL.
      * match goal with |- context[if ?b then _ else _] => destruct b eqn:EP end;
          intros H; inversion H; subst; clear H.
        -- eapply SpMiss with (c := length (s_objs s)); cbn; try eassumption; try reflexivity.
           ++ unfold pop; rewrite Ef; reflexivity.
           ++ nr.
           ++ right; reflexivity.
           ++ right; split; [congruence|split; reflexivity].
           ++ intros _. apply andb_true_iff in EP as [EP _]. apply andb_true_iff in EP. exact EP.
        -- eapply SpMiss with (c := length (s_objs s)); cbn; try eassumption; try reflexivity.
           ++ unfold pop; rewrite Ef; reflexivity.
           ++ nr.
           ++ left; reflexivity.
           ++ right; split; [congruence|split; reflexivity].
           ++ discriminate.
      * intros H; inversion H; subst; clear H.
        eapply SpMiss with (c := length (s_objs s)); cbn; try eassumption; try reflexivity.
        -- unfold pop; rewrite Ef; reflexivity.
        -- nr.
        -- left; reflexivity.
        -- left; split; [assumption|split; reflexivity].
        -- discriminate.
    + destruct (lookup g (s_conns s) (p_key p)) as [[c2 fwd2]|] eqn:EL.
      * match goal with |- context[if ?b then _ else _] => destruct b eqn:EP end;
          intros H; inversion H; subst; clear H.
        -- eapply SpMiss with (c := c); cbn; try eassumption; try reflexivity.
           ++ unfold pop; rewrite Ef; reflexivity.
           ++ nr.
           ++ right; reflexivity.
           ++ right; split; [congruence|split; reflexivity].
           ++ intros _. apply andb_true_iff in EP as [EP _]. apply andb_true_iff in EP. exact EP.
        -- eapply SpMiss with (c := c); cbn; try eassumption; try reflexivity.
           ++ unfold pop; rewrite Ef; reflexivity.
           ++ nr.
           ++ left; reflexivity.
           ++ right; split; [congruence|split; reflexivity].
           ++ discriminate.
      * intros H; inversion H; subst; clear H.
        eapply SpMiss with (c := c); cbn; try eassumption; try reflexivity.
        -- unfold pop; rewrite Ef; reflexivity.
        -- nr.
        -- left; reflexivity.
        -- left; split; [assumption|split; reflexivity].
        -- discriminate.
  - (* PWant *)
    assert (Hl : c_lock (obj' s c) = None).
    { unfold enabled in En. rewrite Epc in En. destruct (c_lock (obj' s c)); [discriminate|reflexivity]. }
    destruct w as [p fwd|age rest].
    + destruct (match g_pkg g with Tcp => cclosed (c_st (obj' s c)) | Rsm => false end).
      * intros H; inversion H; subst; clear H.
        eapply SpLocal; cbn; try reflexivity; try nr; rewrite Epc; [intros ? ?|intros ?]; discriminate.
      * destruct (process (c_st (obj' s c)) fwd p) as [[st' evs] closes] eqn:EPr.
        destruct closes; intros H; inversion H; subst; clear H;
          (eapply SpProc; cbn; try eassumption; try reflexivity;
           [left; exists p, fwd; split; [reflexivity|split; [exact EPr|reflexivity]] | ..]);
          try (intros _; eexists; reflexivity); try discriminate; try (intros _; nr); try nr;
          try (intros Ht; cbn [t_pc] in Ht; rewrite ?next_pc_nt, ?cont_flush_nt in Ht; discriminate).
    + destruct (match g_pkg g with Tcp => cclosed (c_st (obj' s c)) | Rsm => false end).
      * intros H; inversion H; subst; clear H.
        eapply SpLocal; cbn; try reflexivity; try nr; rewrite Epc; [intros ? ?|intros ?]; discriminate.
      * destruct (flush age (c_st (obj' s c))) as [[st' evs] closes] eqn:EPr.
        destruct (is_rsm g && g_trail g && ctrail age st') eqn:Etr;
        destruct closes; intros H; inversion H; subst; clear H;
          (eapply SpProc; cbn; try eassumption; try reflexivity;
           [right; exists age, rest; split; [reflexivity|split; [exact EPr|reflexivity]] | ..]);
          try (intros _; eexists; reflexivity); try discriminate; try (intros _; nr); try nr;
          try (intros _ ? ?; discriminate);
          try (intros Ht; cbn [t_pc] in Ht; rewrite ?next_pc_nt, ?cont_flush_nt in Ht; discriminate);
          try (intros _; apply andb_true_iff in Etr as [Etr _]; exact Etr);
          try (intros Ht; cbn in Ht; discriminate).
  - (* PRemove *)
    intros H; inversion H; subst; clear H.
    eapply SpRemove with (c := c) (k := k); cbn; try eassumption; try reflexivity.
    + destruct (match g_pkg g with Tcp => true | Rsm => match assoc (c_key (obj' s c)) (s_conns s) with Some _ => true | None => false end end) eqn:Ed; cbn.
      * right. split; [reflexivity|]. destruct (g_recycle g); [left; reflexivity|right; split; reflexivity].
      * left; split; reflexivity.
    + destruct k as [|a r [|]]; nr.
    + destruct k as [|a r [|]]; nr.
    + intros Ht; rewrite ?Epc; destruct k as [|a r [|]]; cbn [t_pc] in Ht; cbn [trail_pc];
        rewrite ?next_pc_nt, ?cont_flush_nt in Ht; try reflexivity; discriminate.
  - (* PRetry *)
    intros H; inversion H; subst; clear H. apply do_lookup_spec; rewrite Epc; [intros ? ?|intros ?]; discriminate.
  - (* PRemove2 *)
    intros H; inversion H; subst; clear H.
    eapply SpRemove2 with (c := c); cbn; try eassumption; try reflexivity; try nr.
    destruct (assoc (c_key (obj' s c)) (s_conns s)); cbn.
    + right. split; [reflexivity|]. destruct (g_recycle g); [left; reflexivity|right; split; reflexivity].
    + left; split; reflexivity.
  - discriminate.
  - discriminate.
Qed.

(* ---------------------------------------------------------------- threads and objects after a step *)
Lemma thr_upd_eq (s s' : State) t th' :
  t < length (s_thr s) -> s_thr s' = upd (s_thr s) t th' -> thr s' t = th'.
Proof. intros L E. unfold thr. rewrite E. apply nth_upd_eq; assumption. Qed.
Lemma thr_upd_ne (s s' : State) t t2 th' :
  t2 <> t -> s_thr s' = upd (s_thr s) t th' -> thr s' t2 = thr s t2.
Proof. intros N E. unfold thr. rewrite E. apply nth_upd_ne; congruence. Qed.
Lemma thr_len (s s' : State) t th' : s_thr s' = upd (s_thr s) t th' -> length (s_thr s') = length (s_thr s).
Proof. intros ->. apply upd_length. Qed.

Lemma obj_same (s s' : State) c : s_objs s' = s_objs s -> obj' s' c = obj' s c.
Proof. unfold obj. intros ->. reflexivity. Qed.
Lemma obj_upd_ne (s s' : State) c c2 o : c2 <> c -> s_objs s' = upd (s_objs s) c o -> obj' s' c2 = obj' s c2.
Proof. intros N E. unfold obj. rewrite E. apply nth_upd_ne; congruence. Qed.
Lemma obj_upd_eq (s s' : State) c o : c < length (s_objs s) -> s_objs s' = upd (s_objs s) c o -> obj' s' c = o.
Proof. intros L E. unfold obj. rewrite E. apply nth_upd_eq; assumption. Qed.

Lemma blank_lock : c_lock blank' = None. Proof. reflexivity. Qed.

(* pop: the object taken is either the top of the free list or a new one at the end *)
Lemma pop_cases (s : State) c free' objs0 :
  pop s = (c, free', objs0) ->
  (s_free s = c :: free' /\ objs0 = s_objs s) \/
  (s_free s = [] /\ free' = [] /\ c = length (s_objs s) /\ objs0 = s_objs s ++ [blank']).
Proof.
  unfold pop. destruct (s_free s) as [|c0 f]; intros H; inversion H; subst; [right|left]; auto.
Qed.

Lemma nth_app_blank (l : list Conn) c : nth c (l ++ [blank']) blank' = nth c l blank'.
Proof.
  destruct (Nat.lt_ge_cases c (length l)) as [L|L].
  - apply app_nth1; assumption.
  - rewrite (nth_overflow l) by assumption.
    destruct (Nat.eq_dec c (length l)) as [->|N].
    + rewrite app_nth2 by lia. rewrite Nat.sub_diag. reflexivity.
    + apply nth_overflow. rewrite app_length; cbn; lia.
Qed.

(* the objects after a PMiss step: c is reset, the lock field of every object is unchanged *)
Lemma miss_obj_other (s s' : State) c free' objs0 o c2 :
  pop s = (c, free', objs0) -> s_objs s' = upd objs0 c o -> c2 <> c -> obj' s' c2 = obj' s c2.
Proof.
  intros Hp E N. unfold obj. rewrite E, nth_upd_ne by congruence.
  destruct (pop_cases _ _ _ _ Hp) as [[_ ->]|[_ [_ [_ ->]]]]; [reflexivity|apply nth_app_blank].
Qed.
Lemma miss_obj_len (s : State) c free' objs0 : pop s = (c, free', objs0) -> (forall x, In x (s_free s) -> x < length (s_objs s)) -> c < length objs0.
Proof.
  intros Hp Hf. destruct (pop_cases _ _ _ _ Hp) as [[E ->]|[_ [_ [-> ->]]]].
  - apply Hf. rewrite E. left; reflexivity.
  - rewrite app_length; cbn; lia.
Qed.
Lemma miss_old_obj (s : State) c free' objs0 : pop s = (c, free', objs0) -> nth c objs0 blank' = obj' s c.
Proof.
  intros Hp. unfold obj. destruct (pop_cases _ _ _ _ Hp) as [[_ ->]|[_ [_ [_ ->]]]]; [reflexivity|apply nth_app_blank].
Qed.
Lemma miss_len (s s' : State) c free' objs0 o :
  pop s = (c, free', objs0) -> s_objs s' = upd objs0 c o -> length (s_objs s) <= length (s_objs s').
Proof.
  intros Hp E. rewrite E, upd_length. destruct (pop_cases _ _ _ _ Hp) as [[_ ->]|[_ [_ [_ ->]]]]; [lia|rewrite app_length; cbn; lia].
Qed.

(* ---------------------------------------------------------------- invariant: locks *)
(* a connection lock recorded as held by t means t sits in the remove section of that object *)
Definition inv_lock (s : State) : Prop :=
  forall c t, c_lock (obj' s c) = Some t -> exists k, t_pc (thr s t) = PRemove c k.

Lemma inv_lock_init progs : inv_lock (init cstate progs).
Proof. intros c t. unfold obj, init; cbn. destruct c; cbn; discriminate. Qed.

Lemma inv_lock_step g s t s' : inv_lock s -> exec' g s t = Some s' -> inv_lock s'.
Proof.
  intros I E. assert (Lt : t < length (s_thr s)).
  { apply enabled_lt. unfold exec in E. destruct (enabled' s t); [reflexivity|discriminate]. }
  destruct (exec_spec _ _ _ _ E) as
    [th' Hc Hf Ho Hn Hk Hl Ht Hnr Hnp Hnr0 Hnm0 Htr
    |p th' c free' objs0 Hpc Hpop Hf Ho Hn Ht Hnr Hl Hcn Hpan Htr
    |c w st' evs closes th' Hpc Hlk Hw Ho Hc Hf Hn Hk Ht Hcl Hncl Hnp Htr
    |c k th' Hpc Ho Hcf Hn Hk Hl Ht Hnr Hnp Htr
    |c age rest th' Hpc Ho Hcf Hn Hk Hl Ht Hnr Hnp Htr]; intros c2 t2 Hs.
  - rewrite (obj_same _ _ _ Ho) in Hs. destruct (I _ _ Hs) as [k Hk2].
    assert (t2 <> t) by (intros ->; exact (Hnr0 _ _ Hk2)).
    exists k. rewrite (thr_upd_ne _ _ _ _ _ H Ht). exact Hk2.
  - assert (Hs2 : c_lock (obj' s c2) = Some t2).
    { destruct (Nat.eq_dec c2 c) as [->|N].
      - unfold obj in Hs. rewrite Ho in Hs.
        destruct (Nat.lt_ge_cases c (length objs0)) as [L|L].
        + rewrite nth_upd_eq in Hs by assumption. cbn in Hs. rewrite (miss_old_obj _ _ _ _ Hpop) in Hs. exact Hs.
        + rewrite nth_upd_ge in Hs by assumption. rewrite (miss_old_obj _ _ _ _ Hpop) in Hs. exact Hs.
      - rewrite (miss_obj_other _ _ _ _ _ _ _ Hpop Ho N) in Hs. exact Hs. }
    destruct (I _ _ Hs2) as [k Hk2].
    assert (t2 <> t) by (intros ->; rewrite Hpc in Hk2; discriminate).
    exists k. rewrite (thr_upd_ne _ _ _ _ _ H Ht). exact Hk2.
  - destruct (Nat.eq_dec c2 c) as [->|N].
    + destruct (Nat.lt_ge_cases c (length (s_objs s))) as [L|L].
      * rewrite (obj_upd_eq _ _ _ _ L Ho) in Hs. cbn in Hs. destruct closes; [|discriminate].
        inversion Hs; subst. destruct (Hcl eq_refl) as [k Hk2]. exists k.
        rewrite (thr_upd_eq _ _ _ _ Lt Ht). exact Hk2.
      * unfold obj in Hs. rewrite Ho, nth_upd_ge in Hs by assumption. unfold obj in Hlk. congruence.
    + rewrite (obj_upd_ne _ _ _ _ _ N Ho) in Hs. destruct (I _ _ Hs) as [k Hk2].
      assert (t2 <> t) by (intros ->; rewrite Hpc in Hk2; discriminate).
      exists k. rewrite (thr_upd_ne _ _ _ _ _ H Ht). exact Hk2.
  - destruct (Nat.eq_dec c2 c) as [->|N].
    + destruct (Nat.lt_ge_cases c (length (s_objs s))) as [L|L].
      * rewrite (obj_upd_eq _ _ _ _ L Ho) in Hs. discriminate.
      * unfold obj in Hs. rewrite Ho, nth_upd_ge in Hs by assumption.
        rewrite nth_overflow in Hs by assumption. discriminate.
    + rewrite (obj_upd_ne _ _ _ _ _ N Ho) in Hs. destruct (I _ _ Hs) as [k2 Hk2].
      assert (t2 <> t) by (intros ->; rewrite Hpc in Hk2; inversion Hk2; congruence).
      exists k2. rewrite (thr_upd_ne _ _ _ _ _ H Ht). exact Hk2.
  - rewrite (obj_same _ _ _ Ho) in Hs. destruct (I _ _ Hs) as [k Hk2].
    assert (t2 <> t) by (intros ->; rewrite Hpc in Hk2; discriminate).
    exists k. rewrite (thr_upd_ne _ _ _ _ _ H Ht). exact Hk2.
Qed.

Lemma inv_lock_reachable g progs s : reachable g progs s -> inv_lock s.
Proof. induction 1; [apply inv_lock_init|eapply inv_lock_step; eassumption]. Qed.

(* ---------------------------------------------------------------- progress *)
Lemma progress g progs s : reachable g progs s -> all_done s = true \/ any_enabled cstate cinit s = true.
Proof.
  intros R. pose proof (inv_lock_reachable _ _ _ R) as I.
  destruct (all_done s) eqn:D; [left; reflexivity|right].
  unfold all_done in D. apply not_true_iff_false in D.
  rewrite forallb_forall in D.
  assert (Hex : exists th, In th (s_thr s) /\ t_pc th <> PDone /\ t_pc th <> PPanic).
  { clear -D. induction (s_thr s) as [|th r IH].
    - exfalso. apply D. intros x [].
    - destruct (t_pc th) eqn:E; try (exists th; split; [left; reflexivity|rewrite E; split; discriminate]).
      + destruct IH as [th2 [H1 H2]].
        * intros H. apply D. intros x [<-|Hx]; [rewrite E; reflexivity|apply H; assumption].
        * exists th2; split; [right; assumption|assumption].
      + destruct IH as [th2 [H1 H2]].
        * intros H. apply D. intros x [<-|Hx]; [rewrite E; reflexivity|apply H; assumption].
        * exists th2; split; [right; assumption|assumption]. }
  destruct Hex as [th [Hin [Hd Hp]]].
  destruct (In_nth _ _ (mkThr PDone []) Hin) as [t [Lt Et]].
  unfold any_enabled. apply existsb_exists.
  destruct (enabled' s t) eqn:En.
  - exists t. split; [apply in_seq; lia|assumption].
  - unfold enabled in En. unfold thr in En. rewrite Et in En.
    destruct (t_pc th) eqn:Epc; try discriminate; try congruence.
    destruct (c_lock (obj' s c)) as [t0|] eqn:El; [|discriminate].
    destruct (I _ _ El) as [k Hk].
    assert (L0 : t0 < length (s_thr s)).
    { destruct (Nat.lt_ge_cases t0 (length (s_thr s))); [assumption|].
      unfold thr in Hk. rewrite nth_overflow in Hk by assumption. discriminate. }
    exists t0. split; [apply in_seq; lia|]. unfold enabled. rewrite Hk. reflexivity.
Qed.

(* an enabled thread does take a step *)
Lemma enabled_steps g (s : State) t : enabled' s t = true -> exists s', exec' g s t = Some s'.
Proof.
  intros En. unfold exec. rewrite En; cbn [negb].
  unfold enabled in En.
  destruct (t_pc (thr s t)) eqn:Epc; try discriminate.
  - destruct (t_prog (thr s t)) as [|[p|] r]; [eexists; reflexivity| |eexists; reflexivity].
    destruct (ignored g p); eexists; reflexivity.
  - destruct (s_free s); destruct (lookup g (s_conns s) (p_key p)) as [[c2 f2]|];
      try (eexists; reflexivity);
      match goal with |- context[if ?b then _ else _] => destruct b end; eexists; reflexivity.
  - destruct w.
    + destruct (match g_pkg g with Tcp => cclosed (c_st (obj' s c)) | Rsm => false end); [eexists; reflexivity|].
      destruct (process (c_st (obj' s c)) fwd p) as [[st' evs] closes]. destruct closes; eexists; reflexivity.
    + destruct (match g_pkg g with Tcp => cclosed (c_st (obj' s c)) | Rsm => false end); [eexists; reflexivity|].
      destruct (flush age (c_st (obj' s c))) as [[st' evs] closes]. destruct closes; eexists; reflexivity.
  - eexists; reflexivity.
  - eexists; reflexivity.
  - eexists; reflexivity.
Qed.

(* ---------------------------------------------------------------- a flusher does not touch a closed connection *)
(* tcpassembly (FlushAll and FlushWithOptions): the step that locks a connection which was closed
   since the flusher took its snapshot changes nothing but the flusher's own program counter *)
Lemma flush_skips_closed g (s : State) t s' c a r :
  g_pkg g = Tcp -> t_pc (thr s t) = PWant c (WFlush a r) -> cclosed (c_st (obj' s c)) = true ->
  exec' g s t = Some s' ->
  s_objs s' = s_objs s /\ s_conns s' = s_conns s /\ s_free s' = s_free s /\ s_log s' = s_log s /\
  s_nsid s' = s_nsid s /\ s_thr s' = upd (s_thr s) t (mkThr (cont_flush a r (t_prog (thr s t))) (t_prog (thr s t))).
Proof.
  intros G Hpc Hcl. unfold exec. destruct (enabled' s t); cbn [negb]; [|discriminate].
  rewrite Hpc, G, Hcl. intros H; inversion H; subst; clear H. cbn. repeat split; reflexivity.
Qed.

(* ---------------------------------------------------------------- no panic *)
Definition no_panic (s : State) : Prop := forall t, t_pc (thr s t) <> PPanic.

Lemma no_panic_init progs : no_panic (init cstate progs).
Proof.
  intros t. unfold thr, init; cbn.
  destruct (Nat.lt_ge_cases t (length progs)) as [L|L].
  - rewrite nth_indep with (d' := (fun pr => mkThr (next_pc pr) pr) []) by (rewrite map_length; assumption).
    rewrite (map_nth (fun pr => mkThr (next_pc pr) pr)). cbn. apply next_pc_nr.
  - rewrite nth_overflow by (rewrite map_length; assumption). discriminate.
Qed.

Lemma no_panic_step g s t s' :
  is_rsm g && g_fixme g = false -> no_panic s -> exec' g s t = Some s' -> no_panic s'.
Proof.
  intros G I E. assert (Lt : t < length (s_thr s)).
  { apply enabled_lt. unfold exec in E. destruct (enabled' s t); [reflexivity|discriminate]. }
  intros t2. destruct (Nat.eq_dec t2 t) as [->|N].
  - destruct (exec_spec _ _ _ _ E) as
      [th' _ _ _ _ _ _ Ht _ Hnp _ _ _
      |p th' c free' objs0 _ _ _ _ _ Ht _ _ _ Hpan _
      |c w st' evs closes th' _ _ _ _ _ _ _ _ Ht _ _ Hnp _
      |c k th' _ _ _ _ _ _ Ht _ Hnp _
      |c age rest th' _ _ _ _ _ _ Ht _ Hnp _]; rewrite (thr_upd_eq _ _ _ _ Lt Ht); try assumption.
    intros Hp. destruct (Hpan Hp) as [H1 H2]. rewrite H1, H2 in G. discriminate.
  - destruct (exec_spec _ _ _ _ E) as
      [th' _ _ _ _ _ _ Ht _ _ _ _ _
      |p th' c free' objs0 _ _ _ _ _ Ht _ _ _ _ _
      |c w st' evs closes th' _ _ _ _ _ _ _ _ Ht _ _ _ _
      |c k th' _ _ _ _ _ _ Ht _ _ _
      |c age rest th' _ _ _ _ _ _ Ht _ _ _]; rewrite (thr_upd_ne _ _ _ _ _ N Ht); apply I.
Qed.

Lemma no_panic_reachable g progs s :
  is_rsm g && g_fixme g = false -> reachable g progs s -> no_panic s.
Proof. intros G. induction 1; [apply no_panic_init|eapply no_panic_step; eassumption]. Qed.

(* ---------------------------------------------------------------- callbacks run under the lock *)
Lemma mutex_step g s t s' : exec' g s t = Some s' ->
  forall t' sid c e, In (ECall t' sid c e) (s_log s') ->
    In (ECall t' sid c e) (s_log s) \/
    (t' = t /\ sid = c_stream (obj' s c) /\ c_lock (obj' s c) = None /\ exists w, t_pc (thr s t) = PWant c w).
Proof.
  intros E t' sid c0 e Hin.
  destruct (exec_spec _ _ _ _ E) as
    [th' _ _ _ _ _ Hl _ _ _ _ _ _
    |p th' c free' objs0 _ _ _ _ _ _ _ Hl _ _ _
    |c w st' evs closes th' Hpc Hlk Hw _ _ _ _ _ _ _ _ _ _
    |c k th' _ _ _ _ _ Hl _ _ _ _
    |c age rest th' _ _ _ _ _ Hl _ _ _ _].
  - left. rewrite Hl in Hin. exact Hin.
  - left. destruct Hl as [Hl|Hl]; rewrite Hl in Hin; cbn in Hin.
    + destruct Hin as [H|H]; [discriminate|exact H].
    + destruct Hin as [H|[H|H]]; [discriminate|discriminate|exact H].
  - assert (Hnew : forall l, In (ECall t' sid c0 e) (rev (map (ECall t (c_stream (obj' s c)) c) evs) ++ l) ->
                    In (ECall t' sid c0 e) l \/ (t' = t /\ sid = c_stream (obj' s c) /\ c0 = c)).
    { intros l H. apply in_app_or in H as [H|H]; [right|left; exact H].
      apply in_rev in H. apply in_map_iff in H as [x [Hx _]]. inversion Hx; subst. auto. }
    destruct Hw as [[p [fwd [-> [_ Hl]]]]|[age [rest [-> [_ Hl]]]]]; rewrite Hl in Hin.
    + apply Hnew in Hin as [H|[-> [-> ->]]].
      * destruct H as [H|H]; [discriminate|left; exact H].
      * right. repeat split; try assumption. eexists; eassumption.
    + apply Hnew in Hin as [H|[-> [-> ->]]].
      * left; exact H.
      * right. repeat split; try assumption. eexists; eassumption.
  - left. rewrite Hl in Hin. exact Hin.
  - left. rewrite Hl in Hin. exact Hin.
Qed.

(* ---------------------------------------------------------------- schedules reach reachable states *)
Lemma run_sched_reachable g progs s raced sched :
  reachable g progs s -> reachable g progs (fst (run_sched cstate cinit cclosed creset process flush ctrail g s raced sched)).
Proof.
  revert s raced. induction sched as [|t r IH]; intros s raced R; cbn; [exact R|].
  destruct (exec' g s t) as [s'|] eqn:E; [|apply IH; exact R].
  apply IH. eapply R_step; eassumption.
Qed.

(* ---------------------------------------------------------------- where the objects a thread will touch come from *)
Lemma do_lookup_rest g (s : State) t p prog x :
  t < length (s_thr s) ->
  In x (rest_of_pc (t_pc (thr (do_lookup cstate g s t p prog) t))) -> In x (map snd (s_conns s)).
Proof.
  intros Lt. unfold do_lookup, thr; cbn [s_thr]. unfold set_thr. rewrite nth_upd_eq by assumption.
  destruct (lookup g (s_conns s) (p_key p)) as [[c fwd]|] eqn:EL; cbn.
  - intros [<-|[]]. eapply lookup_in; eassumption.
  - destruct (end_flag g p); cbn [t_pc]; [rewrite rest_next_pc|]; cbn; tauto.
Qed.

Lemma exec_rest g (s : State) t s' : exec' g s t = Some s' ->
  forall x, In x (rest_of_pc (t_pc (thr s' t))) ->
    In x (rest_of_pc (t_pc (thr s t))) \/ In x (map snd (s_conns s)) \/
    (exists p, t_pc (thr s t) = PMiss p /\ x = fst (fst (pop s))).
Proof.
  intros E. assert (Lt : t < length (s_thr s)).
  { apply enabled_lt. unfold exec in E. destruct (enabled' s t); [reflexivity|discriminate]. }
  revert E. unfold exec. destruct (enabled' s t); cbn [negb]; [|discriminate].
  assert (Hthr : forall c f (o : list Conn) n k th l tg,
     thr (mkSt c f o n k (set_thr cstate s t th) l tg) t = th).
  { intros. unfold thr; cbn [s_thr]. unfold set_thr. apply nth_upd_eq; assumption. }
  destruct (t_pc (thr s t)) eqn:Epc.
  - destruct (t_prog (thr s t)) as [|[p|] rest] eqn:Epr.
    + intros H; inversion H; subst; clear H. intros x. rewrite Hthr. cbn. tauto.
    + destruct (ignored g p); intros H; inversion H; subst; clear H; intros x.
      * rewrite Hthr. cbn [t_pc]. rewrite rest_next_pc. cbn. tauto.
      * intros Hx. right; left. eapply do_lookup_rest; eassumption.
    + intros H; inversion H; subst; clear H. intros x. rewrite Hthr. cbn [t_pc].
      intros Hx. apply rest_cont_flush in Hx. apply in_sort_ids in Hx. auto.
  - unfold pop. destruct (s_free s) as [|c f] eqn:Ef; cbn [fst];
    (destruct (lookup g (s_conns s) (p_key p)) as [[c2 fwd2]|] eqn:EL;
     [match goal with |- context[if ?b then _ else _] => destruct b end|]);
    intros H; inversion H; subst; clear H; intros x; rewrite Hthr; cbn;
    try tauto;
    try (intros [<-|[]]; right; left; eapply lookup_in; eassumption);
    try (intros [<-|[]]; right; right; eexists; split; reflexivity).
  - destruct w as [p fwd|age rest].
    + destruct (match g_pkg g with Tcp => cclosed (c_st (obj' s c)) | Rsm => false end).
      * intros H; inversion H; subst; clear H. intros x. rewrite Hthr. cbn. tauto.
      * destruct (process (c_st (obj' s c)) fwd p) as [[st' evs] closes].
        destruct closes; intros H; inversion H; subst; clear H; intros x; rewrite Hthr; cbn.
        -- auto.
        -- rewrite rest_next_pc. tauto.
    + destruct (match g_pkg g with Tcp => cclosed (c_st (obj' s c)) | Rsm => false end).
      * intros H; inversion H; subst; clear H. intros x. rewrite Hthr. cbn [t_pc].
        intros Hx. apply rest_cont_flush in Hx. left. cbn. auto.
      * destruct (flush age (c_st (obj' s c))) as [[st' evs] closes].
        destruct (is_rsm g && g_trail g && ctrail age st');
        destruct closes; intros H; inversion H; subst; clear H; intros x; rewrite Hthr; cbn [t_pc];
          try (cbn; auto; fail);
          intros Hx; apply rest_cont_flush in Hx; left; cbn; auto.
  - intros H; inversion H; subst; clear H. intros x. rewrite Hthr. cbn [t_pc].
    destruct k as [|a r [|]]; cbn.
    + rewrite rest_next_pc. tauto.
    + auto.
    + intros Hx. apply rest_cont_flush in Hx. auto.
  - intros H; inversion H; subst; clear H. intros x Hx. right; left. eapply do_lookup_rest; eassumption.
  - intros H; inversion H; subst; clear H. intros x. rewrite Hthr. cbn [t_pc].
    intros Hx. apply rest_cont_flush in Hx. left. cbn. auto.
  - discriminate.
  - discriminate.
Qed.

(* ---------------------------------------------------------------- invariant: the pool *)
Record inv_pool (g : config) (s : State) : Prop := mkIP {
  ip_keys : NoDup (map fst (s_conns s));
  ip_vals : NoDup (map snd (s_conns s));
  ip_ent : forall k c, In (k, c) (s_conns s) -> c_key (obj' s c) = k /\ c < length (s_objs s);
  ip_rev : is_rsm g = true -> forall k c, In (k, c) (s_conns s) -> assoc (key_rev k) (s_conns s) = None;
  ip_free : NoDup (s_free s);
  ip_free_ent : forall c, In c (s_free s) ->
      ~ In c (map snd (s_conns s)) /\ c < length (s_objs s) /\ cclosed (c_st (obj' s c)) = true;
  ip_rem : forall t c k, t_pc (thr s t) = PRemove c k ->
      ~ In c (s_free s) /\ cclosed (c_st (obj' s c)) = true /\ c_lock (obj' s c) = Some t;
  ip_range : forall t x, In x (rest_of_pc (t_pc (thr s t))) -> x < length (s_objs s) }.

Lemma init_pc progs t :
  t_pc (thr (init cstate progs) t) = PStart \/ t_pc (thr (init cstate progs) t) = PDone.
Proof.
  unfold thr, init; cbn.
  destruct (Nat.lt_ge_cases t (length progs)) as [L|L].
  - rewrite nth_indep with (d' := (fun pr => mkThr (next_pc pr) pr) []) by (rewrite map_length; assumption).
    rewrite (map_nth (fun pr => mkThr (next_pc pr) pr)). cbn. unfold next_pc. destruct (nth t progs []); auto.
  - rewrite nth_overflow by (rewrite map_length; assumption). auto.
Qed.

Lemma inv_pool_init g progs : inv_pool g (init cstate progs).
Proof.
  constructor; cbn [init s_conns s_free s_objs map]; try (constructor; fail);
    try (intros; cbn in *; tauto).
  - intros t0 c0 k0 H. destruct (init_pc progs t0) as [E|E]; rewrite E in H; discriminate.
  - intros t0 x H. destruct (init_pc progs t0) as [E|E]; rewrite E in H; destruct H.
Qed.

Hypothesis Hm : machine_ok.

Lemma proc_closed st h p st' ev b : process st h p = (st', ev, b) ->
  (b = true -> cclosed st = false /\ cclosed st' = true) /\ (cclosed st = true -> cclosed st' = true).
Proof. intros H. destruct Hm as [_ [_ [Hp _]]]. destruct (Hp _ _ _ _ _ _ H) as [A [B _]]. auto. Qed.
Lemma flush_closed a st st' ev b : flush a st = (st', ev, b) ->
  (b = true -> cclosed st = false /\ cclosed st' = true) /\ (cclosed st = true -> cclosed st' = true).
Proof. intros H. destruct Hm as [_ [_ [_ Hf]]]. destruct (Hf _ _ _ _ _ H) as [A [B _]]. auto. Qed.

(* reassembly's second remove() is never reached when the configuration does not have it *)
Definition no_trail (s : State) : Prop := forall t, trail_pc (t_pc (thr s t)) = false.
Lemma no_trail_init progs : no_trail (init cstate progs).
Proof. intros t. destruct (init_pc progs t) as [E|E]; rewrite E; reflexivity. Qed.
Lemma no_trail_step g s t s' : trail_cfg g = false -> no_trail s -> exec' g s t = Some s' -> no_trail s'.
Proof.
  intros G I E. assert (Lt : t < length (s_thr s)).
  { apply enabled_lt. unfold exec in E. destruct (enabled' s t); [reflexivity|discriminate]. }
  intros t2. destruct (Nat.eq_dec t2 t) as [->|N].
  - destruct (exec_spec _ _ _ _ E) as
      [th' _ _ _ _ _ _ Ht _ _ _ _ Htr
      |p th' c free' objs0 _ _ _ _ _ Ht _ _ _ _ Htr
      |c w st' evs closes th' _ _ _ _ _ _ _ _ Ht _ _ _ Htr
      |c k th' _ _ _ _ _ _ Ht _ _ Htr
      |c age rest th' _ _ _ _ _ _ Ht _ _ Htr]; rewrite (thr_upd_eq _ _ _ _ Lt Ht); try assumption.
    + destruct (trail_pc (t_pc th')); [|reflexivity]. rewrite (Htr eq_refl) in G. discriminate.
    + destruct (trail_pc (t_pc th')); [|reflexivity]. rewrite (I t) in Htr. symmetry. exact (Htr eq_refl).
  - destruct (exec_spec _ _ _ _ E) as
      [th' _ _ _ _ _ _ Ht _ _ _ _ _
      |p th' c free' objs0 _ _ _ _ _ Ht _ _ _ _ _
      |c w st' evs closes th' _ _ _ _ _ _ _ _ Ht _ _ _ _
      |c k th' _ _ _ _ _ _ Ht _ _ _
      |c age rest th' _ _ _ _ _ _ Ht _ _ _]; rewrite (thr_upd_ne _ _ _ _ _ N Ht); apply I.
Qed.
Lemma no_trail_reachable g progs s : trail_cfg g = false -> reachable g progs s -> no_trail s.
Proof. intros G. induction 1; [apply no_trail_init|eapply no_trail_step; eassumption]. Qed.

Lemma inv_pool_step g s t s' : no_trail s -> inv_pool g s -> exec' g s t = Some s' -> inv_pool g s'.
Proof.
  intros NT I E. assert (Lt : t < length (s_thr s)).
  { apply enabled_lt. unfold exec in E. destruct (enabled' s t); [reflexivity|discriminate]. }
  pose proof (exec_rest _ _ _ _ E) as Hrest.
  destruct I as [Ik Iv Ie Ir If Ife Irm Irg].
  destruct (exec_spec _ _ _ _ E) as
    [th' Hc Hf Ho Hn Hk Hl Ht Hnr Hnp Hnr0 Hnm0 Htr
    |p th' c free' objs0 Hpc Hpop Hf Ho Hn Ht Hnr Hl Hcn Hpan Htr
    |c w st' evs closes th' Hpc Hlk Hw Ho Hc Hf Hn Hk Ht Hcl Hncl Hnp Htr
    |c k th' Hpc Ho Hcf Hn Hk Hl Ht Hnr Hnp Htr
    |c age rest th' Hpc Ho Hcf Hn Hk Hl Ht Hnr Hnp Htr].
  - (* local step *)
    assert (Hobj : forall x, obj' s' x = obj' s x) by (intros x; apply obj_same; assumption).
    constructor; try (rewrite ?Hc, ?Hf, ?Ho; assumption).
    + intros k c Hin. rewrite Hc in Hin. rewrite Hobj, Ho. auto.
    + intros c Hin. rewrite Hf in Hin. rewrite Hc, Hobj, Ho. auto.
    + intros t2 c k Hp2. destruct (Nat.eq_dec t2 t) as [->|N].
      * rewrite (thr_upd_eq _ _ _ _ Lt Ht) in Hp2. exfalso; exact (Hnr _ _ Hp2).
      * rewrite (thr_upd_ne _ _ _ _ _ N Ht) in Hp2. rewrite Hf, Hobj. eauto.
    + intros t2 x Hx. rewrite Ho. destruct (Nat.eq_dec t2 t) as [->|N].
      * destruct (Hrest _ Hx) as [H|[H|[p [Hp _]]]].
        -- eauto.
        -- apply in_map_iff in H as [[k c] [<- Hin]]. apply (Ie _ _ Hin).
        -- exfalso; exact (Hnm0 _ Hp).
      * rewrite (thr_upd_ne _ _ _ _ _ N Ht) in Hx. eauto.
  - (* miss: take an object, reset it, insert unless the race was lost *)
    assert (Hfr : forall x, In x (s_free s) -> x < length (s_objs s)) by (intros x Hx; apply (Ife _ Hx)).
    pose proof (miss_obj_len _ _ _ _ Hpop Hfr) as Lc.
    pose proof (miss_len _ _ _ _ _ _ Hpop Ho) as Llen.
    assert (Hlen' : length (s_objs s') = length objs0) by (rewrite Ho; apply upd_length).
    assert (Hother : forall x, x <> c -> obj' s' x = obj' s x)
      by (intros x N; eapply miss_obj_other; eassumption).
    assert (Hnew : obj' s' c = mkConn (p_key p) (s_nsid s) (creset p) (c_lock (nth c objs0 blank')))
      by (unfold obj; rewrite Ho; apply nth_upd_eq; assumption).
    assert (Hcnot : ~ In c (map snd (s_conns s))).
    { destruct (pop_cases _ _ _ _ Hpop) as [[Ef _]|[_ [_ [-> _]]]].
      - apply Ife. rewrite Ef; left; reflexivity.
      - intros Hin. apply in_map_iff in Hin as [[k0 c0] [E0 Hin]]. cbn in E0; subst.
        destruct (Ie _ _ Hin) as [_ L]. lia. }
    assert (Hfree' : forall x, In x free' -> In x (s_free s) /\ x <> c).
    { intros x Hx. destruct (pop_cases _ _ _ _ Hpop) as [[Ef _]|[_ [-> _]]]; [|destruct Hx].
      rewrite Ef in *. inversion If; subst. split; [right; assumption|]. intros ->. contradiction. }
    assert (Hfnd : NoDup free').
    { destruct (pop_cases _ _ _ _ Hpop) as [[Ef _]|[_ [-> _]]]; [|constructor].
      rewrite Ef in If. inversion If; assumption. }
    assert (Hpcs : forall t2 c2 k2, t_pc (thr s' t2) = PRemove c2 k2 -> t2 <> t /\ t_pc (thr s t2) = PRemove c2 k2).
    { intros t2 c2 k2 Hp2. destruct (Nat.eq_dec t2 t) as [->|N].
      - rewrite (thr_upd_eq _ _ _ _ Lt Ht) in Hp2. exfalso; exact (Hnr _ _ Hp2).
      - rewrite (thr_upd_ne _ _ _ _ _ N Ht) in Hp2. auto. }
    assert (Hrange : forall t2 x, In x (rest_of_pc (t_pc (thr s' t2))) -> x < length (s_objs s')).
    { intros t2 x Hx. destruct (Nat.eq_dec t2 t) as [->|N].
      - destruct (Hrest _ Hx) as [H|[H|[p0 [_ Hp0]]]].
        + specialize (Irg _ _ H). lia.
        + apply in_map_iff in H as [[k0 c0] [<- Hin]]. destruct (Ie _ _ Hin). cbn; lia.
        + rewrite Hpop in Hp0. cbn in Hp0. subst. lia.
      - rewrite (thr_upd_ne _ _ _ _ _ N Ht) in Hx. specialize (Irg _ _ Hx). lia. }
    assert (Hrem : forall t2 c2 k2, t_pc (thr s' t2) = PRemove c2 k2 ->
               ~ In c2 free' /\ cclosed (c_st (obj' s' c2)) = true /\ c_lock (obj' s' c2) = Some t2).
    { intros t2 c2 k2 Hp2. destruct (Hpcs _ _ _ Hp2) as [N Hp3].
      destruct (Irm _ _ _ Hp3) as [A [B C]].
      assert (c2 <> c).
      { intros ->. destruct (pop_cases _ _ _ _ Hpop) as [[Ef _]|[_ [_ [Ec _]]]].
        - apply A. rewrite Ef; left; reflexivity.
        - unfold obj in C. rewrite nth_overflow in C by lia. discriminate. }
      rewrite Hother by assumption. split; [|auto]. intros Hin. apply A. apply Hfree'. assumption. }
    destruct Hcn as [[HL [Hc Hk]]|[HL [Hc Hk]]].
    + (* inserted *)
      destruct (lookup_none _ _ _ HL) as [HA HR].
      constructor; try assumption.
      * rewrite Hc. cbn. constructor; [apply assoc_none_keys; assumption|assumption].
      * rewrite Hc. cbn. constructor; assumption.
      * intros k0 c0 Hin. rewrite Hc in Hin. destruct Hin as [Hin|Hin].
        -- inversion Hin; subst. rewrite Hnew. cbn. split; [reflexivity|lia].
        -- destruct (Ie _ _ Hin) as [A B]. rewrite Hother; [split; [assumption|lia]|].
           intros ->. apply Hcnot. apply in_map_iff. exists (k0, c); auto.
      * intros G k0 c0 Hin. rewrite Hc in *. destruct Hin as [Hin|Hin].
        -- inversion Hin; subst. cbn. destruct (key_eqb (key_rev (p_key p)) (p_key p)) eqn:Ek.
           ++ apply key_eqb_eq in Ek. exfalso; exact (key_rev_neq _ Ek).
           ++ auto.
        -- cbn. destruct (key_eqb (key_rev k0) (p_key p)) eqn:Ek.
           ++ apply key_eqb_eq in Ek. exfalso.
              assert (k0 = key_rev (p_key p)) by (rewrite <- Ek; symmetry; apply key_rev_invol).
              subst k0. exact (in_assoc_some _ _ _ Hin (HR G)).
           ++ eauto.
      * rewrite Hf; assumption.
      * intros x Hx. rewrite Hf in Hx. destruct (Hfree' _ Hx) as [Hx0 N].
        destruct (Ife _ Hx0) as [A [B C]]. rewrite Hc, Hother by assumption. cbn.
        split; [intros [H|H]; [congruence|contradiction]|]. split; [lia|assumption].
      * intros t2 c2 k2 Hp2. rewrite Hf. eauto.
    + (* race lost (or panic): the object is dropped *)
      constructor; try (rewrite ?Hc; assumption).
      * intros k0 c0 Hin. rewrite Hc in Hin. destruct (Ie _ _ Hin) as [A B].
        rewrite Hother; [split; [assumption|lia]|].
        intros ->. apply Hcnot. apply in_map_iff. exists (k0, c); auto.
      * rewrite Hf; assumption.
      * intros x Hx. rewrite Hf in Hx. destruct (Hfree' _ Hx) as [Hx0 N].
        destruct (Ife _ Hx0) as [A [B C]]. rewrite Hc, Hother by assumption.
        split; [assumption|]. split; [lia|assumption].
      * intros t2 c2 k2 Hp2. rewrite Hf. eauto.
  - (* processing under the connection lock *)
    assert (Lc : c < length (s_objs s)) by (apply (Irg t); rewrite Hpc; destruct w; left; reflexivity).
    assert (Hother : forall x, x <> c -> obj' s' x = obj' s x) by (intros x N; eapply obj_upd_ne; eassumption).
    pose proof (obj_upd_eq _ _ _ _ Lc Ho) as Hnew.
    assert (Hlen' : length (s_objs s') = length (s_objs s)) by (rewrite Ho; apply upd_length).
    assert (Hcl2 : (closes = true -> cclosed (c_st (obj' s c)) = false /\ cclosed st' = true) /\
                   (cclosed (c_st (obj' s c)) = true -> cclosed st' = true)).
    { destruct Hw as [[p [fwd [_ [Hp _]]]]|[age [rest [_ [Hp _]]]]];
        [apply (proc_closed _ _ _ _ _ _ Hp)|apply (flush_closed _ _ _ _ _ Hp)]. }
    destruct Hcl2 as [Hcl2 Hcl3].
    assert (Hkey : forall x, c_key (obj' s' x) = c_key (obj' s x)).
    { intros x. destruct (Nat.eq_dec x c) as [->|N]; [rewrite Hnew; reflexivity|rewrite Hother; auto]. }
    constructor; try (rewrite ?Hc, ?Hf; assumption).
    + intros k0 c0 Hin. rewrite Hc in Hin. rewrite Hkey, Hlen'. auto.
    + intros x Hx. rewrite Hf in Hx. destruct (Ife _ Hx) as [A [B C]]. rewrite Hc, Hlen'.
      split; [assumption|]. split; [assumption|].
      destruct (Nat.eq_dec x c) as [->|N]; [rewrite Hnew; cbn; auto|rewrite Hother; assumption].
    + intros t2 c2 k2 Hp2. rewrite Hf. destruct (Nat.eq_dec t2 t) as [->|N].
      * rewrite (thr_upd_eq _ _ _ _ Lt Ht) in Hp2.
        destruct closes; [|exfalso; exact (Hncl eq_refl _ _ Hp2)].
        destruct (Hcl eq_refl) as [k3 Hk3]. rewrite Hk3 in Hp2. inversion Hp2; subst.
        destruct (Hcl2 eq_refl) as [A B]. rewrite Hnew. cbn. split; [|auto].
        intros Hin. destruct (Ife _ Hin) as [_ [_ C]]. congruence.
      * rewrite (thr_upd_ne _ _ _ _ _ N Ht) in Hp2. destruct (Irm _ _ _ Hp2) as [A [B C]].
        assert (c2 <> c) by (intros ->; congruence).
        rewrite Hother by assumption. auto.
    + intros t2 x Hx. rewrite Hlen'. destruct (Nat.eq_dec t2 t) as [->|N].
      * destruct (Hrest _ Hx) as [H|[H|[p0 [Hp0 _]]]].
        -- eauto.
        -- apply in_map_iff in H as [[k0 c0] [<- Hin]]. apply (Ie _ _ Hin).
        -- rewrite Hpc in Hp0. discriminate.
      * rewrite (thr_upd_ne _ _ _ _ _ N Ht) in Hx. eauto.
  - (* remove *)
    destruct (Irm _ _ _ Hpc) as [Rnf [Rcl Rlk]].
    assert (Lc : c < length (s_objs s)) by (apply (Irg t); rewrite Hpc; destruct k; left; reflexivity).
    assert (Hother : forall x, x <> c -> obj' s' x = obj' s x) by (intros x N; eapply obj_upd_ne; eassumption).
    pose proof (obj_upd_eq _ _ _ _ Lc Ho) as Hnew.
    assert (Hlen' : length (s_objs s') = length (s_objs s)) by (rewrite Ho; apply upd_length).
    assert (Hkey : forall x, c_key (obj' s' x) = c_key (obj' s x)).
    { intros x. destruct (Nat.eq_dec x c) as [->|N]; [rewrite Hnew; reflexivity|rewrite Hother; auto]. }
    assert (Hst : forall x, c_st (obj' s' x) = c_st (obj' s x)).
    { intros x. destruct (Nat.eq_dec x c) as [->|N]; [rewrite Hnew; reflexivity|rewrite Hother; auto]. }
    assert (Hpcs : forall t2 c2 k2, t_pc (thr s' t2) = PRemove c2 k2 ->
              t2 <> t /\ t_pc (thr s t2) = PRemove c2 k2 /\ c2 <> c).
    { intros t2 c2 k2 Hp2. destruct (Nat.eq_dec t2 t) as [->|N].
      - rewrite (thr_upd_eq _ _ _ _ Lt Ht) in Hp2. exfalso; exact (Hnr _ _ Hp2).
      - rewrite (thr_upd_ne _ _ _ _ _ N Ht) in Hp2. split; [assumption|]. split; [assumption|].
        intros ->. destruct (Irm _ _ _ Hp2) as [_ [_ C]]. congruence. }
    assert (Hrange : forall t2 x, In x (rest_of_pc (t_pc (thr s' t2))) -> x < length (s_objs s')).
    { intros t2 x Hx. rewrite Hlen'. destruct (Nat.eq_dec t2 t) as [->|N].
      - destruct (Hrest _ Hx) as [H|[H|[p0 [Hp0 _]]]].
        + eauto.
        + apply in_map_iff in H as [[k0 c0] [<- Hin]]. apply (Ie _ _ Hin).
        + rewrite Hpc in Hp0. discriminate.
      - rewrite (thr_upd_ne _ _ _ _ _ N Ht) in Hx. eauto. }
    destruct Hcf as [[Hc Hf]|[Hc Hf]].
    + (* reassembly: key absent, nothing happens *)
      constructor; try (rewrite ?Hc, ?Hf; assumption).
      * intros k0 c0 Hin. rewrite Hc in Hin. rewrite Hkey, Hlen'. auto.
      * intros x Hx. rewrite Hf in Hx. rewrite Hc, Hlen', Hst. auto.
      * intros t2 c2 k2 Hp2. destruct (Hpcs _ _ _ Hp2) as [N [Hp3 Nc]].
        rewrite Hf, Hother by assumption. eauto.
    + (* entry of the object's key deleted, object pushed on the free list (when recycling) *)
      assert (Hsub : forall k0 c0, In (k0, c0) (s_conns s') -> In (k0, c0) (s_conns s) /\ k0 <> c_key (obj' s c)).
      { intros k0 c0 Hin. rewrite Hc in Hin. apply in_remove_assoc in Hin. tauto. }
      assert (Hcgone : ~ In c (map snd (s_conns s'))).
      { intros Hin. apply in_map_iff in Hin as [[k0 c0] [E0 Hin]]. cbn in E0; subst c0.
        destruct (Hsub _ _ Hin) as [Hin0 Nk]. destruct (Ie _ _ Hin0) as [A _]. congruence. }
      assert (Hvsub : forall x, In x (map snd (s_conns s')) -> In x (map snd (s_conns s))).
      { intros x Hx. rewrite Hc in Hx. eapply map_remove_assoc_in; eassumption. }
      constructor; try assumption.
      * rewrite Hc. apply nodup_map_remove_assoc; assumption.
      * rewrite Hc. apply nodup_map_remove_assoc; assumption.
      * intros k0 c0 Hin. destruct (Hsub _ _ Hin) as [Hin0 _]. rewrite Hkey, Hlen'. auto.
      * intros G k0 c0 Hin. destruct (Hsub _ _ Hin) as [Hin0 _]. rewrite Hc.
        apply assoc_remove_none. eauto.
      * destruct Hf as [Hf|[Hf _]]; rewrite Hf; [constructor; assumption|assumption].
      * intros x Hx. rewrite Hlen', Hst.
        assert (Hx2 : x = c \/ In x (s_free s)) by (destruct Hf as [Hf|[Hf _]]; rewrite Hf in Hx; [destruct Hx; auto|auto]).
        destruct Hx2 as [->|Hx2].
        -- split; [assumption|]. split; assumption.
        -- destruct (Ife _ Hx2) as [A [B C]]. split; [intros H; apply A; auto|]. split; assumption.
      * intros t2 c2 k2 Hp2. destruct (Hpcs _ _ _ Hp2) as [N [Hp3 Nc]].
        destruct (Irm _ _ _ Hp3) as [A [B C]]. rewrite Hother by assumption. split; [|auto].
        destruct Hf as [Hf|[Hf _]]; rewrite Hf; [intros [H|H]; [congruence|contradiction]|assumption].
  - exfalso. specialize (NT t). rewrite Hpc in NT. discriminate.
Qed.

Lemma inv_pool_reachable g progs s : trail_cfg g = false -> reachable g progs s -> inv_pool g s.
Proof.
  intros G. induction 1; [apply inv_pool_init|].
  eapply inv_pool_step; try eassumption. eapply no_trail_reachable; eassumption.
Qed.

(* ---------------------------------------------------------------- invariant: streams and completion *)
Definition completes' (sid : nat) (l : list event) : nat := completes sid l.

Lemma completes_app sid l1 l2 : completes sid (l1 ++ l2) = completes sid l1 + completes sid l2.
Proof. unfold completes. rewrite filter_app, app_length. reflexivity. Qed.
Lemma completes_rev sid l : completes sid (rev l) = completes sid l.
Proof.
  induction l as [|e r IH]; [reflexivity|]. cbn [rev]. rewrite completes_app, IH.
  change (e :: r) with ([e] ++ r). rewrite completes_app. lia.
Qed.
Lemma completes_calls sid t sg c evs :
  completes sid (map (ECall t sg c) evs) = if Nat.eqb sg sid then count_complete evs else 0.
Proof.
  unfold completes, count_complete. induction evs as [|e r IH]; cbn [map filter].
  - destruct (Nat.eqb sg sid); reflexivity.
  - destruct e; cbn [is_complete].
    + exact IH.
    + destruct (Nat.eqb sg sid) eqn:E; cbn [length]; rewrite IH; reflexivity.
Qed.
Lemma completes_pos sid l : completes sid l <> 0 -> exists t c, In (ECall t sid c CComplete) l.
Proof.
  unfold completes. induction l as [|e r IH]; cbn [filter]; [cbn; lia|].
  destruct e as [| t s0 c ev | |]; try (intros H; destruct (IH H) as [t0 [c0 H0]]; exists t0, c0; right; exact H0).
  destruct ev; try (intros H; destruct (IH H) as [t0 [c0 H0]]; exists t0, c0; right; exact H0).
  destruct (Nat.eqb s0 sid) eqn:E.
  - intros _. apply Nat.eqb_eq in E; subst. exists t, c. left; reflexivity.
  - intros H; destruct (IH H) as [t0 [c0 H0]]; exists t0, c0; right; exact H0.
Qed.

Record inv_str (s : State) : Prop := mkIS {
  is_lt : forall c, c < length (s_objs s) -> c_stream (obj' s c) < s_nsid s;
  is_inj : forall c1 c2, c1 < length (s_objs s) -> c2 < length (s_objs s) ->
            c_stream (obj' s c1) = c_stream (obj' s c2) -> c1 = c2;
  is_log : forall t sid c e, In (ECall t sid c e) (s_log s) -> sid < s_nsid s;
  is_once : forall sid, completes sid (s_log s) <= 1 /\
            (completes sid (s_log s) = 1 -> forall c, c < length (s_objs s) -> c_stream (obj' s c) = sid ->
               cclosed (c_st (obj' s c)) = true) }.

Lemma inv_str_init progs : inv_str (init cstate progs).
Proof.
  constructor; cbn; try (intros; lia); try tauto.
Qed.

Lemma inv_str_ext (s s' : State) :
  (forall x, c_stream (obj' s' x) = c_stream (obj' s x)) -> (forall x, c_st (obj' s' x) = c_st (obj' s x)) ->
  length (s_objs s') = length (s_objs s) -> s_nsid s' = s_nsid s -> s_log s' = s_log s ->
  inv_str s -> inv_str s'.
Proof.
  intros Hs Hst Hlen Hn Hl [Ilt Iinj Ilog Ionce]. constructor.
  - intros c L. rewrite Hs, Hn. apply Ilt. lia.
  - intros c1 c2 L1 L2. rewrite !Hs. apply Iinj; lia.
  - intros t0 sid c e Hin. rewrite Hn. rewrite Hl in Hin. eauto.
  - intros sid. rewrite Hl. destruct (Ionce sid) as [A B]. split; [assumption|].
    intros H1 c L Es. rewrite Hs in Es. rewrite Hst. apply B; auto. lia.
Qed.

Lemma inv_str_step g s t s' : inv_pool g s -> inv_str s -> exec' g s t = Some s' -> inv_str s'.
Proof.
  intros IP I E. destruct I as [Ilt Iinj Ilog Ionce].
  destruct (exec_spec _ _ _ _ E) as
    [th' Hc Hf Ho Hn Hk Hl Ht Hnr Hnp Hnr0 Hnm0 Htr
    |p th' c free' objs0 Hpc Hpop Hf Ho Hn Ht Hnr Hl Hcn Hpan Htr
    |c w st' evs closes th' Hpc Hlk Hw Ho Hc Hf Hn Hk Ht Hcl Hncl Hnp Htr
    |c k th' Hpc Ho Hcf Hn Hk Hl Ht Hnr Hnp Htr
    |c age rest th' Hpc Ho Hcf Hn Hk Hl Ht Hnr Hnp Htr].
  - assert (Hobj : forall x, obj' s' x = obj' s x) by (intros x; apply obj_same; assumption).
    apply (inv_str_ext s s'); try assumption; try (intros x; rewrite Hobj; reflexivity);
      [rewrite Ho; reflexivity|constructor; assumption].
  - assert (Hfr : forall x, In x (s_free s) -> x < length (s_objs s)) by (intros x Hx; apply (ip_free_ent _ _ IP _ Hx)).
    pose proof (miss_obj_len _ _ _ _ Hpop Hfr) as Lc.
    assert (Hlen' : length (s_objs s') = length objs0) by (rewrite Ho; apply upd_length).
    assert (Hother : forall x, x <> c -> obj' s' x = obj' s x)
      by (intros x N; eapply miss_obj_other; eassumption).
    assert (Hnew : c_stream (obj' s' c) = s_nsid s /\ c_st (obj' s' c) = creset p).
    { unfold obj; rewrite Ho, nth_upd_eq by assumption. split; reflexivity. }
    assert (Hold : forall x, x < length (s_objs s') -> x <> c -> x < length (s_objs s)).
    { intros x L N. rewrite Hlen' in L. destruct (pop_cases _ _ _ _ Hpop) as [[_ ->]|[_ [_ [Ec ->]]]]; [assumption|].
      rewrite app_length in L; cbn in L. lia. }
    assert (Hcomp : forall sid, completes sid (s_log s') = completes sid (s_log s)).
    { intros sid. destruct Hl as [Hl|Hl]; rewrite Hl; reflexivity. }
    constructor.
    + intros x L. rewrite Hn. destruct (Nat.eq_dec x c) as [->|N].
      * destruct Hnew as [-> _]. lia.
      * rewrite Hother by assumption. specialize (Ilt _ (Hold _ L N)). lia.
    + intros c1 c2 L1 L2 Es. destruct (Nat.eq_dec c1 c) as [->|N1]; destruct (Nat.eq_dec c2 c) as [->|N2]; try reflexivity.
      * destruct Hnew as [Hs _]. rewrite Hs, Hother in Es by assumption. specialize (Ilt _ (Hold _ L2 N2)). lia.
      * destruct Hnew as [Hs _]. rewrite Hs, Hother in Es by assumption. specialize (Ilt _ (Hold _ L1 N1)). lia.
      * rewrite !Hother in Es by assumption. apply Iinj; auto.
    + intros t0 sid c0 e Hin. rewrite Hn.
      assert (In (ECall t0 sid c0 e) (s_log s)).
      { destruct Hl as [Hl|Hl]; rewrite Hl in Hin; cbn in Hin.
        - destruct Hin as [H|H]; [discriminate|exact H].
        - destruct Hin as [H|[H|H]]; [discriminate|discriminate|exact H]. }
      specialize (Ilog _ _ _ _ H). lia.
    + intros sid. rewrite Hcomp. destruct (Ionce sid) as [A B]. split; [assumption|].
      intros H1 x L Es. destruct (Nat.eq_dec x c) as [->|N].
      * destruct Hnew as [Hs _]. rewrite Hs in Es. subst sid.
        assert (Hne : completes (s_nsid s) (s_log s) <> 0) by lia.
        destruct (completes_pos _ _ Hne) as [t0 [c0 Hin]]. specialize (Ilog _ _ _ _ Hin). lia.
      * rewrite Hother in * by assumption. apply B; auto.
  - assert (Lc : c < length (s_objs s)) by (apply (ip_range _ _ IP t); rewrite Hpc; destruct w; left; reflexivity).
    assert (Hother : forall x, x <> c -> obj' s' x = obj' s x) by (intros x N; eapply obj_upd_ne; eassumption).
    pose proof (obj_upd_eq _ _ _ _ Lc Ho) as Hnew.
    assert (Hlen' : length (s_objs s') = length (s_objs s)) by (rewrite Ho; apply upd_length).
    assert (Hstr : forall x, c_stream (obj' s' x) = c_stream (obj' s x)).
    { intros x. destruct (Nat.eq_dec x c) as [->|N]; [rewrite Hnew; reflexivity|rewrite Hother; auto]. }
    set (sg := c_stream (obj' s c)) in *.
    assert (Hcl2 : (closes = true -> cclosed (c_st (obj' s c)) = false /\ cclosed st' = true) /\
                   (cclosed (c_st (obj' s c)) = true -> cclosed st' = true) /\
                   count_complete evs = (if closes then 1 else 0)).
    { destruct Hm as [_ [_ [Hp Hfl]]].
      destruct Hw as [[p [fwd [_ [Hpr _]]]]|[age [rest [_ [Hpr _]]]]];
        [destruct (Hp _ _ _ _ _ _ Hpr) as [A [B C]]|destruct (Hfl _ _ _ _ _ Hpr) as [A [B C]]]; auto. }
    destruct Hcl2 as [Hcl2 [Hcl3 Hcnt]].
    assert (Hcomp : forall sid, completes sid (s_log s') =
                     (if Nat.eqb sg sid then count_complete evs else 0) + completes sid (s_log s)).
    { intros sid. destruct Hw as [[p [fwd [_ [_ Hl]]]]|[age [rest [_ [_ Hl]]]]]; rewrite Hl, completes_app, completes_rev, completes_calls.
      - change (EProc t p c (c_key (obj' s c)) sg :: s_log s) with ([EProc t p c (c_key (obj' s c)) sg] ++ s_log s).
        rewrite completes_app. cbn. lia.
      - reflexivity. }
    constructor.
    + intros x L. rewrite Hn, Hstr. apply Ilt. lia.
    + intros c1 c2 L1 L2. rewrite !Hstr. apply Iinj; lia.
    + intros t0 sid c0 e Hin. rewrite Hn.
      assert (In (ECall t0 sid c0 e) (s_log s) \/ sid = sg).
      { destruct Hw as [[p [fwd [_ [_ Hl]]]]|[age [rest [_ [_ Hl]]]]]; rewrite Hl in Hin;
          apply in_app_or in Hin as [H|H].
        - right. apply in_rev in H. apply in_map_iff in H as [x [Hx _]]. inversion Hx; reflexivity.
        - destruct H as [H|H]; [discriminate|left; exact H].
        - right. apply in_rev in H. apply in_map_iff in H as [x [Hx _]]. inversion Hx; reflexivity.
        - left; exact H. }
      destruct H as [H|H]; [eapply Ilog; eassumption|subst sid; apply Ilt; assumption].
    + intros sid. rewrite Hcomp. destruct (Ionce sid) as [A B].
      destruct (Nat.eqb sg sid) eqn:Es.
      * apply Nat.eqb_eq in Es. subst sid. rewrite Hcnt. destruct closes.
        -- destruct (Hcl2 eq_refl) as [C1 C2].
           assert (completes sg (s_log s) = 0).
           { destruct (completes sg (s_log s)) as [|[|n]] eqn:En; [reflexivity| |lia].
             specialize (B eq_refl c Lc eq_refl). congruence. }
           rewrite H. split; [lia|]. intros _ x L Ex. rewrite Hstr in Ex. rewrite Hlen' in L.
           assert (x = c) by (apply Iinj; auto). subst x. rewrite Hnew. cbn. assumption.
        -- cbn [plus]. split; [assumption|]. intros H1 x L Ex. rewrite Hstr in Ex. rewrite Hlen' in L.
           assert (x = c) by (apply Iinj; auto). subst x. rewrite Hnew. cbn. apply Hcl3. apply B; auto.
      * cbn [plus]. split; [assumption|]. intros H1 x L Ex. rewrite Hstr in Ex. rewrite Hlen' in L.
        assert (x <> c) by (intros ->; apply Nat.eqb_neq in Es; apply Es; exact Ex).
        rewrite Hother by assumption. apply B; auto.
  - assert (Lc : c < length (s_objs s)) by (apply (ip_range _ _ IP t); rewrite Hpc; destruct k; left; reflexivity).
    assert (Hother : forall x, x <> c -> obj' s' x = obj' s x) by (intros x N; eapply obj_upd_ne; eassumption).
    pose proof (obj_upd_eq _ _ _ _ Lc Ho) as Hnew.
    assert (Hlen' : length (s_objs s') = length (s_objs s)) by (rewrite Ho; apply upd_length).
    assert (Hstr : forall x, c_stream (obj' s' x) = c_stream (obj' s x)).
    { intros x. destruct (Nat.eq_dec x c) as [->|N]; [rewrite Hnew; reflexivity|rewrite Hother; auto]. }
    assert (Hst : forall x, c_st (obj' s' x) = c_st (obj' s x)).
    { intros x. destruct (Nat.eq_dec x c) as [->|N]; [rewrite Hnew; reflexivity|rewrite Hother; auto]. }
    apply (inv_str_ext s s'); try assumption. constructor; assumption.
  - apply (inv_str_ext s s'); try assumption; try (intros x; rewrite (obj_same _ _ _ Ho); reflexivity);
      [rewrite Ho; reflexivity|constructor; assumption].
Qed.

Lemma inv_str_reachable g progs s : trail_cfg g = false -> reachable g progs s -> inv_str s.
Proof.
  intros G. induction 1; [apply inv_str_init|].
  eapply inv_str_step; try eassumption. eapply inv_pool_reachable; eassumption.
Qed.

(* ---------------------------------------------------------------- without recycling (hypothetical repair) *)
(* where a "process packet p on object c" program counter comes from *)
Lemma do_lookup_want g (s : State) t p prog c p' fwd :
  t < length (s_thr s) ->
  t_pc (thr (do_lookup cstate g s t p prog) t) = PWant c (WPkt p' fwd) ->
  p' = p /\ lookup g (s_conns s) (p_key p) = Some (c, fwd).
Proof.
  intros Lt. unfold do_lookup, thr; cbn [s_thr]. unfold set_thr. rewrite nth_upd_eq by assumption.
  destruct (lookup g (s_conns s) (p_key p)) as [[c0 fwd0]|] eqn:EL; cbn.
  - intros H; inversion H; subst. auto.
  - destruct (end_flag g p); cbn; [destruct prog; discriminate|discriminate].
Qed.

Lemma exec_want g (s : State) t s' : exec' g s t = Some s' ->
  forall c p fwd, t_pc (thr s' t) = PWant c (WPkt p fwd) ->
    lookup g (s_conns s) (p_key p) = Some (c, fwd) \/
    (t_pc (thr s t) = PMiss p /\ lookup g (s_conns s) (p_key p) = None /\ c = fst (fst (pop s)) /\ fwd = true).
Proof.
  intros E. assert (Lt : t < length (s_thr s)).
  { apply enabled_lt. unfold exec in E. destruct (enabled' s t); [reflexivity|discriminate]. }
  revert E. unfold exec. destruct (enabled' s t); cbn [negb]; [|discriminate].
  assert (Hthr : forall c f (o : list Conn) n k th l tg,
     thr (mkSt c f o n k (set_thr cstate s t th) l tg) t = th).
  { intros. unfold thr; cbn [s_thr]. unfold set_thr. apply nth_upd_eq; assumption. }
  assert (Hcfw : forall a r prog c p fwd X, cont_flush a r prog = PWant c (WPkt p fwd) -> X).
  { intros a r prog c p fwd X. unfold cont_flush. destruct r; [destruct prog|]; discriminate. }
  destruct (t_pc (thr s t)) eqn:Epc.
  - destruct (t_prog (thr s t)) as [|[p|age] rest] eqn:Epr.
    + intros H; inversion H; subst; clear H. intros c p0 fwd. rewrite Hthr. cbn. discriminate.
    + destruct (ignored g p); intros H; inversion H; subst; clear H; intros c p0 fwd.
      * rewrite Hthr. cbn. destruct rest; discriminate.
      * intros Hx. left. destruct (do_lookup_want _ _ _ _ _ _ _ _ Lt Hx) as [-> HL]. exact HL.
    + intros H; inversion H; subst; clear H. intros c p0 fwd. rewrite Hthr. cbn [t_pc]. apply Hcfw.
  - unfold pop. destruct (s_free s) as [|c0 f] eqn:Ef; cbn [fst];
    (destruct (lookup g (s_conns s) (p_key p)) as [[c2 fwd2]|] eqn:EL;
     [match goal with |- context[if ?b then _ else _] => destruct b end|]);
    intros H; inversion H; subst; clear H; intros c p0 fwd; rewrite Hthr; cbn [t_pc];
    try discriminate;
    intros Hx; inversion Hx; subst; auto.
  - destruct w as [p fwd0|age rest].
    + destruct (match g_pkg g with Tcp => cclosed (c_st (obj' s c)) | Rsm => false end).
      * intros H; inversion H; subst; clear H. intros c1 p0 fwd. rewrite Hthr. cbn. discriminate.
      * destruct (process (c_st (obj' s c)) fwd0 p) as [[st' evs] closes].
        destruct closes; intros H; inversion H; subst; clear H; intros c1 p0 fwd; rewrite Hthr; cbn [t_pc];
          [discriminate|destruct (t_prog (thr s t)); discriminate].
    + destruct (match g_pkg g with Tcp => cclosed (c_st (obj' s c)) | Rsm => false end).
      * intros H; inversion H; subst; clear H. intros c1 p0 fwd. rewrite Hthr. cbn [t_pc]. apply Hcfw.
      * destruct (flush age (c_st (obj' s c))) as [[st' evs] closes].
        destruct (is_rsm g && g_trail g && ctrail age st');
        destruct closes; intros H; inversion H; subst; clear H; intros c1 p0 fwd; rewrite Hthr; cbn [t_pc];
          try discriminate; apply Hcfw.
  - intros H; inversion H; subst; clear H. intros c1 p0 fwd. rewrite Hthr. cbn [t_pc].
    destruct k as [|a r [|]]; [destruct (t_prog (thr s t)); discriminate|discriminate|apply Hcfw].
  - intros H; inversion H; subst; clear H. intros c1 p0 fwd Hx. left.
    destruct (do_lookup_want _ _ _ _ _ _ _ _ Lt Hx) as [-> HL]. exact HL.
  - intros H; inversion H; subst; clear H. intros c1 p0 fwd. rewrite Hthr. cbn [t_pc]. apply Hcfw.
  - discriminate.
  - discriminate.
Qed.

Definition key_for (p : packet) (fwd : bool) : key := if fwd then p_key p else key_rev (p_key p).

Lemma lookup_key g conns k c fwd : lookup g conns k = Some (c, fwd) ->
  In ((if fwd then k else key_rev k), c) conns /\ (fwd = false -> is_rsm g = true).
Proof.
  unfold lookup. destruct (assoc k conns) as [c1|] eqn:E1.
  - intros H; inversion H; subst. split; [apply assoc_in; assumption|discriminate].
  - destruct (is_rsm g); [|discriminate]. destruct (assoc (key_rev k) conns) as [c1|] eqn:E2; [|discriminate].
    intros H; inversion H; subst. split; [apply assoc_in; assumption|reflexivity].
Qed.

(* no object is ever reset a second time: the free list stays empty, keys of existing objects
   never change, and a thread about to process p holds a pointer to an object of p's connection *)
Record inv_nr (g : config) (s : State) : Prop := mkNR {
  nr_free : s_free s = [];
  nr_want : forall t c p fwd, t_pc (thr s t) = PWant c (WPkt p fwd) ->
              c_key (obj' s c) = key_for p fwd /\ (fwd = false -> is_rsm g = true);
  nr_log : forall t p c ck sid, In (EProc t p c ck sid) (s_log s) ->
              ck = p_key p \/ (is_rsm g = true /\ ck = key_rev (p_key p)) }.

Lemma inv_nr_init g progs : inv_nr g (init cstate progs).
Proof.
  constructor.
  - reflexivity.
  - intros t c p fwd H. destruct (init_pc progs t) as [E|E]; rewrite E in H; discriminate.
  - intros t p c ck sid H. destruct H.
Qed.

Lemma inv_nr_step g s t s' :
  g_recycle g = false -> no_trail s -> inv_pool g s -> inv_nr g s -> exec' g s t = Some s' -> inv_nr g s'.
Proof.
  intros G NT IP I E. assert (Lt : t < length (s_thr s)).
  { apply enabled_lt. unfold exec in E. destruct (enabled' s t); [reflexivity|discriminate]. }
  pose proof (exec_want _ _ _ _ E) as Hwant.
  pose proof (inv_pool_step _ _ _ _ NT IP E) as IP'.
  destruct I as [Nf Nw Nl].
  assert (Hlk : forall c p fwd, lookup g (s_conns s) (p_key p) = Some (c, fwd) ->
            c_key (obj' s c) = key_for p fwd /\ (fwd = false -> is_rsm g = true) /\ c < length (s_objs s)).
  { intros c p fwd HL. destruct (lookup_key _ _ _ _ _ HL) as [Hin Hr].
    destruct (ip_ent _ _ IP _ _ Hin) as [A B]. unfold key_for. auto. }
  destruct (exec_spec _ _ _ _ E) as
    [th' Hc Hf Ho Hn Hk Hl Ht Hnr Hnp Hnr0 Hnm0 Htr
    |p th' c free' objs0 Hpc Hpop Hf Ho Hn Ht Hnr Hl Hcn Hpan Htr
    |c w st' evs closes th' Hpc Hlk2 Hw Ho Hc Hf Hn Hk Ht Hcl Hncl Hnp Htr
    |c k th' Hpc Ho Hcf Hn Hk Hl Ht Hnr Hnp Htr
    |c age rest th' Hpc Ho Hcf Hn Hk Hl Ht Hnr Hnp Htr].
  - assert (Hobj : forall x, obj' s' x = obj' s x) by (intros x; apply obj_same; assumption).
    constructor.
    + rewrite Hf; assumption.
    + intros t2 c p fwd Hp2. rewrite Hobj. destruct (Nat.eq_dec t2 t) as [->|N].
      * destruct (Hwant _ _ _ Hp2) as [HL|[Hp _]]; [|exfalso; exact (Hnm0 _ Hp)].
        destruct (Hlk _ _ _ HL) as [A [B _]]. auto.
      * rewrite (thr_upd_ne _ _ _ _ _ N Ht) in Hp2. eauto.
    + intros t0 p c ck sid Hin. rewrite Hl in Hin. eauto.
  - (* the object taken is a new one *)
    destruct (pop_cases _ _ _ _ Hpop) as [[Ef _]|[_ [Ef' [Ec Eo]]]]; [rewrite Nf in Ef; discriminate|].
    assert (Hother : forall x, x <> c -> obj' s' x = obj' s x)
      by (intros x N; eapply miss_obj_other; eassumption).
    assert (Hnew : c_key (obj' s' c) = p_key p).
    { unfold obj; rewrite Ho, nth_upd_eq; [reflexivity|]. subst. rewrite app_length; cbn; lia. }
    constructor.
    + rewrite Hf; assumption.
    + intros t2 c2 p2 fwd Hp2. destruct (Nat.eq_dec t2 t) as [->|N].
      * destruct (Hwant _ _ _ Hp2) as [HL|[Hp [_ [Hc2 ->]]]].
        -- destruct (Hlk _ _ _ HL) as [A [B L]]. rewrite Hother by lia. auto.
        -- rewrite Hpc in Hp. inversion Hp; subst p2. rewrite Hpop in Hc2. cbn in Hc2. subst c2.
           split; [exact Hnew|discriminate].
      * rewrite (thr_upd_ne _ _ _ _ _ N Ht) in Hp2.
        assert (c2 < length (s_objs s)) by (apply (ip_range _ _ IP t2); rewrite Hp2; left; reflexivity).
        rewrite Hother by lia. eauto.
    + intros t0 p0 c0 ck sid Hin.
      assert (In (EProc t0 p0 c0 ck sid) (s_log s)).
      { destruct Hl as [Hl|Hl]; rewrite Hl in Hin; cbn in Hin.
        - destruct Hin as [H|H]; [discriminate|exact H].
        - destruct Hin as [H|[H|H]]; [discriminate|discriminate|exact H]. }
      eauto.
  - assert (Lc : c < length (s_objs s)) by (apply (ip_range _ _ IP t); rewrite Hpc; destruct w; left; reflexivity).
    assert (Hother : forall x, x <> c -> obj' s' x = obj' s x) by (intros x N; eapply obj_upd_ne; eassumption).
    pose proof (obj_upd_eq _ _ _ _ Lc Ho) as Hnew.
    assert (Hkey : forall x, c_key (obj' s' x) = c_key (obj' s x)).
    { intros x. destruct (Nat.eq_dec x c) as [->|N]; [rewrite Hnew; reflexivity|rewrite Hother; auto]. }
    constructor.
    + rewrite Hf; assumption.
    + intros t2 c2 p2 fwd Hp2. rewrite Hkey. destruct (Nat.eq_dec t2 t) as [->|N].
      * destruct (Hwant _ _ _ Hp2) as [HL|[Hp _]]; [|rewrite Hpc in Hp; discriminate].
        destruct (Hlk _ _ _ HL) as [A [B _]]. auto.
      * rewrite (thr_upd_ne _ _ _ _ _ N Ht) in Hp2. eauto.
    + intros t0 p0 c0 ck sid Hin.
      destruct Hw as [[p [fwd [Ew [_ Hl]]]]|[age [rest [_ [_ Hl]]]]]; rewrite Hl in Hin; apply in_app_or in Hin as [H|H].
      * apply in_rev in H. apply in_map_iff in H as [x [Hx _]]. discriminate.
      * destruct H as [H|H]; [|eauto]. inversion H; subst.
        destruct (Nw _ _ _ _ Hpc) as [A B]. rewrite A. unfold key_for. destruct fwd; [left; reflexivity|right; auto].
      * apply in_rev in H. apply in_map_iff in H as [x [Hx _]]. discriminate.
      * eauto.
  - assert (Lc : c < length (s_objs s)) by (apply (ip_range _ _ IP t); rewrite Hpc; destruct k; left; reflexivity).
    assert (Hother : forall x, x <> c -> obj' s' x = obj' s x) by (intros x N; eapply obj_upd_ne; eassumption).
    pose proof (obj_upd_eq _ _ _ _ Lc Ho) as Hnew.
    assert (Hkey : forall x, c_key (obj' s' x) = c_key (obj' s x)).
    { intros x. destruct (Nat.eq_dec x c) as [->|N]; [rewrite Hnew; reflexivity|rewrite Hother; auto]. }
    constructor.
    + destruct Hcf as [[_ Hf]|[_ [Hf|[Hf _]]]]; try (rewrite Hf; assumption).
      (* pushing on the free list needs g_recycle = true *)
      exfalso. revert E. unfold exec. destruct (enabled' s t); cbn [negb]; [|discriminate].
      rewrite Hpc. rewrite G. rewrite andb_false_r. intros H; inversion H; subst. cbn in Hf.
      rewrite Nf in Hf. discriminate.
    + intros t2 c2 p2 fwd Hp2. rewrite Hkey. destruct (Nat.eq_dec t2 t) as [->|N].
      * destruct (Hwant _ _ _ Hp2) as [HL|[Hp _]]; [|rewrite Hpc in Hp; discriminate].
        destruct (Hlk _ _ _ HL) as [A [B _]]. auto.
      * rewrite (thr_upd_ne _ _ _ _ _ N Ht) in Hp2. eauto.
    + intros t0 p c0 ck sid Hin. rewrite Hl in Hin. eauto.
  - exfalso. specialize (NT t). rewrite Hpc in NT. discriminate.
Qed.

Lemma inv_nr_reachable g progs s :
  trail_cfg g = false -> g_recycle g = false -> reachable g progs s -> inv_nr g s.
Proof.
  intros GT G. induction 1; [apply inv_nr_init|].
  eapply inv_nr_step; try eassumption.
  - eapply no_trail_reachable; eassumption.
  - eapply inv_pool_reachable; eassumption.
Qed.

Lemma right_stream_norecycle g progs s :
  trail_cfg g = false -> g_recycle g = false -> reachable g progs s -> chk_right_stream g s = true.
Proof.
  intros GT G R. pose proof (inv_nr_reachable _ _ _ GT G R) as [_ _ Nl].
  unfold chk_right_stream. apply forallb_forall. intros e Hin.
  destruct e as [| | t p c ck sid |]; try reflexivity. cbn.
  destruct (Nl _ _ _ _ _ Hin) as [->|[Gr ->]].
  - rewrite key_eqb_refl. reflexivity.
  - rewrite Gr, key_eqb_refl. cbn. apply orb_true_r.
Qed.

(* lockset discipline without recycling *)
Definition acc_ok (n : nat) (a : access) : Prop :=
  (In KPool (a_locks a) /\ forall c, a_loc a = LSt c -> c = n) \/
  (exists c, a_loc a = LSt c /\ a_locks a = [KObj c] /\ c < n).

Lemma lock_eqb_refl k : lock_eqb k k = true.
Proof. destruct k; cbn; [reflexivity|apply Nat.eqb_refl]. Qed.
Lemma share_lock_in k l1 l2 : In k l1 -> In k l2 -> share_lock l1 l2 = true.
Proof.
  intros H1 H2. unfold share_lock. apply existsb_exists. exists k. split; [assumption|].
  apply existsb_exists. exists k. split; [assumption|apply lock_eqb_refl].
Qed.
Lemma loc_eqb_eq a b : loc_eqb a b = true -> a = b.
Proof. destruct a, b; cbn; try discriminate; try reflexivity; intros H; apply Nat.eqb_eq in H; congruence. Qed.

Lemma acc_ok_no_conflict n a b : acc_ok n a -> acc_ok n b -> conflict a b = false.
Proof.
  intros Ha Hb. unfold conflict.
  destruct (loc_eqb (a_loc a) (a_loc b)) eqn:El; [|reflexivity]. apply loc_eqb_eq in El.
  destruct Ha as [[Ka Na]|[ca [La [Ka Lta]]]]; destruct Hb as [[Kb Nb]|[cb [Lb [Kb Ltb]]]].
  - rewrite (share_lock_in KPool) by assumption. cbn. apply andb_false_r.
  - exfalso. rewrite Lb in El. specialize (Na _ El). lia.
  - exfalso. rewrite La in El. symmetry in El. specialize (Nb _ El). lia.
  - rewrite La, Lb in El. inversion El; subst. rewrite Ka, Kb.
    rewrite (share_lock_in (KObj cb)) by (left; reflexivity). cbn. apply andb_false_r.
Qed.

Lemma accesses_ok g (s : State) t :
  inv_pool g s -> s_free s = [] -> forall a, In a (accesses cstate g s t) -> acc_ok (length (s_objs s)) a.
Proof.
  intros IP Nf a. unfold accesses. destruct (t_pc (thr s t)) eqn:Epc.
  - destruct (t_prog (thr s t)) as [|[p|] r]; [intros []| |].
    + destruct (ignored g p); [intros []|]. intros [<-|[]]. left. cbn. split; [auto|discriminate].
    + intros [<-|[]]. left. cbn. split; [auto|discriminate].
  - rewrite Nf. intros Hin. apply in_app_or in Hin as [Hin|Hin].
    + destruct Hin as [<-|[<-|[<-|[]]]]; left; cbn; (split; [auto|]); try discriminate.
      intros c H; inversion H; reflexivity.
    + destruct (is_rsm g); [|destruct Hin].
      destruct (lookup g (s_conns s) (p_key p)) as [[c2 f2]|]; [|destruct Hin].
      destruct Hin as [<-|[]]. left; cbn. split; [auto|discriminate].
  - assert (Lc : c < length (s_objs s)) by (apply (ip_range _ _ IP t); rewrite Epc; destruct w; left; reflexivity).
    intros [<-|[<-|[]]]; right; exists c; cbn; auto.
  - intros [<-|[<-|[]]]; left; cbn; (split; [auto|discriminate]).
  - intros [<-|[]]. left. cbn. split; [auto|discriminate].
  - intros [<-|[<-|[]]]; left; cbn; (split; [auto|discriminate]).
  - intros [].
  - intros [].
Qed.

Lemma lockset_norecycle g progs s :
  trail_cfg g = false -> g_recycle g = false -> reachable g progs s -> has_race cstate cinit g s = false.
Proof.
  intros GT G R. pose proof (inv_pool_reachable _ _ _ GT R) as IP.
  pose proof (nr_free _ _ (inv_nr_reachable _ _ _ GT G R)) as Nf.
  unfold has_race. apply not_true_iff_false. intros H.
  apply existsb_exists in H as [t1 [_ H]]. apply existsb_exists in H as [t2 [_ H]].
  unfold race_pair in H. apply andb_true_iff in H as [_ H].
  apply existsb_exists in H as [a [Ha H]]. apply existsb_exists in H as [b [Hb H]].
  rewrite (acc_ok_no_conflict (length (s_objs s)) a b) in H; [discriminate| |];
    eapply accesses_ok; eassumption.
Qed.

(* ---------------------------------------------------------------- program order *)
Inductive subseq {A : Type} : list A -> list A -> Prop :=
| ss_nil l : subseq [] l
| ss_skip x l1 l2 : subseq l1 l2 -> subseq l1 (x :: l2)
| ss_take x l1 l2 : subseq l1 l2 -> subseq (x :: l1) (x :: l2).

Lemma subseq_refl {A} (l : list A) : subseq l l.
Proof. induction l; constructor; assumption. Qed.
Lemma subseq_trans {A} (l1 l2 l3 : list A) : subseq l1 l2 -> subseq l2 l3 -> subseq l1 l3.
Proof.
  intros H12 H23. revert l1 H12. induction H23 as [l|x l2 l3 H IH|x l2 l3 H IH]; intros l1 H12.
  - inversion H12; constructor.
  - constructor. apply IH; assumption.
  - inversion H12; subst.
    + apply ss_nil.
    + apply ss_skip. apply IH; assumption.
    + apply ss_take. apply IH; assumption.
Qed.
Lemma subseq_drop {A} (a b : list A) x : subseq (a ++ b) (a ++ x :: b).
Proof. induction a; cbn; [constructor; apply subseq_refl|constructor; assumption]. Qed.

Definition pkts_of (prog : list op) : list packet :=
  flat_map (fun o => match o with OPkt p => [p] | OFlush _ => [] end) prog.
Definition cur_pkt (p : pc) : list packet :=
  match p with
  | PMiss p => [p]
  | PRetry p => [p]
  | PWant _ (WPkt p _) => [p]
  | _ => []
  end.
Definition proc_pkt (t : nat) (e : event) : list packet :=
  match e with EProc t' p _ _ _ => if Nat.eqb t' t then [p] else [] | _ => [] end.
(* packets processed by thread t, oldest first *)
Definition procs (t : nat) (log : list event) : list packet := rev (flat_map (proc_pkt t) log).
Definition order_line (s : State) (t : nat) : list packet :=
  procs t (s_log s) ++ cur_pkt (t_pc (thr s t)) ++ pkts_of (t_prog (thr s t)).

Lemma procs_app t l1 l2 : procs t (l1 ++ l2) = procs t l2 ++ procs t l1.
Proof. unfold procs. rewrite flat_map_app, rev_app_distr. reflexivity. Qed.
Lemma procs_calls t t0 sg c evs : procs t (rev (map (ECall t0 sg c) evs)) = [].
Proof.
  unfold procs. assert (H : forall l, flat_map (proc_pkt t) (map (ECall t0 sg c) l) = []).
  { induction l; cbn; auto. }
  rewrite <- map_rev, H. reflexivity.
Qed.

(* one step of t moves packets along program -> current -> processed, or drops one *)
Lemma exec_order g (s : State) t s' : exec' g s t = Some s' ->
  (order_line s' t = order_line s t \/
   (exists a x b, order_line s t = a ++ x :: b /\ order_line s' t = a ++ b) \/
   (exists b, order_line s t = order_line s' t ++ b)) /\
  (forall t2, t2 <> t -> procs t2 (s_log s') = procs t2 (s_log s)).
Proof.
  intros E. assert (Lt : t < length (s_thr s)).
  { apply enabled_lt. unfold exec in E. destruct (enabled' s t); [reflexivity|discriminate]. }
  revert E. unfold exec. destruct (enabled' s t); cbn [negb]; [|discriminate].
  assert (Hthr : forall c f (o : list Conn) n k th l tg,
     thr (mkSt c f o n k (set_thr cstate s t th) l tg) t = th).
  { intros. unfold thr; cbn [s_thr]. unfold set_thr. apply nth_upd_eq; assumption. }
  assert (Hnp : forall prog, cur_pkt (next_pc prog) = []) by (intros []; reflexivity).
  assert (Hcf : forall a r prog, cur_pkt (cont_flush a r prog) = []) by (intros a [] []; reflexivity).
  assert (Hlk : forall p prog, order_line (do_lookup cstate g s t p prog) t = procs t (s_log s) ++ p :: pkts_of prog \/
                               order_line (do_lookup cstate g s t p prog) t = procs t (s_log s) ++ pkts_of prog).
  { intros p prog. unfold order_line, do_lookup. rewrite Hthr. cbn [s_log t_pc t_prog].
    destruct (lookup g (s_conns s) (p_key p)) as [[c fwd]|]; [left; reflexivity|].
    destruct (end_flag g p); cbn [t_pc t_prog]; [right; rewrite Hnp; reflexivity|left; reflexivity]. }
  assert (HX : order_line s t = procs t (s_log s) ++ cur_pkt (t_pc (thr s t)) ++ pkts_of (t_prog (thr s t))) by reflexivity.
  rewrite HX; clear HX. destruct (t_pc (thr s t)) eqn:Epc.
  - destruct (t_prog (thr s t)) as [|[p|age] rest] eqn:Epr.
    + intros H; inversion H; subst; clear H. split; [|reflexivity]. left. unfold order_line. rewrite Hthr. reflexivity.
    + destruct (ignored g p); intros H; inversion H; subst; clear H; (split; [|reflexivity]).
      * right; left. exists (procs t (s_log s)), p, (pkts_of rest). split; [reflexivity|].
        unfold order_line. rewrite Hthr. cbn [s_log t_pc t_prog]. rewrite Hnp. reflexivity.
      * destruct (Hlk p rest) as [H|H]; rewrite H; [left; reflexivity|].
        right; left. exists (procs t (s_log s)), p, (pkts_of rest). split; reflexivity.
    + intros H; inversion H; subst; clear H. split; [|reflexivity]. left.
      unfold order_line. rewrite Hthr. cbn [s_log t_pc t_prog]. rewrite Hcf. reflexivity.
  - assert (Hlog : forall t2 l, procs t2 (ENew t (p_key p) (s_nsid s) :: l) = procs t2 l /\
                              procs t2 (EPanic t :: ENew t (p_key p) (s_nsid s) :: l) = procs t2 l).
    { intros t2 l. unfold procs. cbn. split; reflexivity. }
    destruct (s_free s) as [|c0 f];
    (destruct (lookup g (s_conns s) (p_key p)) as [[c2 fwd2]|] eqn:EL;
     [match goal with |- context[if ?b then _ else _] => destruct b end|]);
    intros H; inversion H; subst; clear H;
    (split; [|intros t2 _; cbn [s_log]; apply Hlog]);
    unfold order_line; rewrite Hthr; cbn [s_log t_pc t_prog];
    rewrite ?(proj1 (Hlog t (s_log s))), ?(proj2 (Hlog t (s_log s)));
    first [ left; reflexivity
          | right; right; exists (p :: pkts_of (t_prog (thr s t))); cbn; rewrite ?app_nil_r; reflexivity ].
  - destruct w as [p fwd0|age rest].
    + destruct (match g_pkg g with Tcp => cclosed (c_st (obj' s c)) | Rsm => false end).
      * intros H; inversion H; subst; clear H. split; [|reflexivity]. left.
        unfold order_line. rewrite Hthr. reflexivity.
      * destruct (process (c_st (obj' s c)) fwd0 p) as [[st' evs] closes].
        assert (Hl : forall t2, procs t2 (rev (map (ECall t (c_stream (obj' s c)) c) evs) ++
                       EProc t p c (c_key (obj' s c)) (c_stream (obj' s c)) :: s_log s) =
                     procs t2 (s_log s) ++ (if Nat.eqb t t2 then [p] else [])).
        { intros t2. rewrite procs_app, procs_calls, app_nil_r.
          change (EProc t p c (c_key (obj' s c)) (c_stream (obj' s c)) :: s_log s)
            with ([EProc t p c (c_key (obj' s c)) (c_stream (obj' s c))] ++ s_log s).
          rewrite procs_app. unfold procs at 2. cbn. destruct (Nat.eqb t t2); reflexivity. }
        destruct closes; intros H; inversion H; subst; clear H;
          (split; [|intros t2 N; cbn [s_log]; rewrite Hl;
                    destruct (Nat.eqb t t2) eqn:Eq; [apply Nat.eqb_eq in Eq; congruence|apply app_nil_r]]);
          left; unfold order_line; rewrite Hthr; cbn [s_log t_pc t_prog]; rewrite Hl, Nat.eqb_refl;
          rewrite ?Hnp; cbn [cur_pkt]; rewrite <- app_assoc; reflexivity.
    + destruct (match g_pkg g with Tcp => cclosed (c_st (obj' s c)) | Rsm => false end).
      * intros H; inversion H; subst; clear H. split; [|reflexivity]. left.
        unfold order_line. rewrite Hthr. cbn [s_log t_pc t_prog]. rewrite Hcf. reflexivity.
      * destruct (flush age (c_st (obj' s c))) as [[st' evs] closes].
        assert (Hl : forall t2, procs t2 (rev (map (ECall t (c_stream (obj' s c)) c) evs) ++ s_log s) = procs t2 (s_log s)).
        { intros t2. rewrite procs_app, procs_calls, app_nil_r. reflexivity. }
        destruct (is_rsm g && g_trail g && ctrail age st');
        destruct closes; intros H; inversion H; subst; clear H;
          (split; [|intros t2 _; cbn [s_log]; apply Hl]);
          left; unfold order_line; rewrite Hthr; cbn [s_log t_pc t_prog]; rewrite Hl, ?Hcf; reflexivity.
  - intros H; inversion H; subst; clear H. split; [|reflexivity]. left.
    unfold order_line. rewrite Hthr. cbn [s_log t_pc t_prog].
    destruct k as [|a r [|]]; rewrite ?Hnp, ?Hcf; reflexivity.
  - intros H; inversion H; subst; clear H. split; [|reflexivity].
    destruct (Hlk p (t_prog (thr s t))) as [H|H]; rewrite H; [left; reflexivity|].
    right; left. exists (procs t (s_log s)), p, (pkts_of (t_prog (thr s t))). split; reflexivity.
  - intros H; inversion H; subst; clear H. split; [|reflexivity]. left.
    unfold order_line. rewrite Hthr. cbn [s_log t_pc t_prog]. rewrite Hcf. reflexivity.
  - discriminate.
  - discriminate.
Qed.

Lemma order_reachable g progs s : reachable g progs s ->
  forall t, subseq (order_line s t) (pkts_of (nth t progs [])).
Proof.
  induction 1 as [|s t s' R IH E]; intros t2.
  - unfold order_line, thr, init; cbn [s_log s_thr]. cbn [procs flat_map rev app].
    destruct (Nat.lt_ge_cases t2 (length progs)) as [L|L].
    + rewrite nth_indep with (d' := (fun pr => mkThr (next_pc pr) pr) []) by (rewrite map_length; assumption).
      rewrite (map_nth (fun pr => mkThr (next_pc pr) pr)). cbn [t_pc t_prog].
      destruct (nth t2 progs []); cbn [next_pc cur_pkt app]; apply subseq_refl.
    + rewrite nth_overflow by (rewrite map_length; assumption). cbn. constructor.
  - destruct (exec_order _ _ _ _ E) as [Ht Ho].
    destruct (Nat.eq_dec t2 t) as [->|N].
    + destruct Ht as [->|[[a [x [b [E1 ->]]]]|[b E1]]]; [apply IH| |].
      * eapply subseq_trans; [apply subseq_drop|]. rewrite <- E1. apply IH.
      * eapply subseq_trans; [|apply IH]. rewrite E1.
        generalize (order_line s' t). intros l. induction l; cbn; constructor; assumption.
    + assert (Lt : t < length (s_thr s)).
      { apply enabled_lt. unfold exec in E. destruct (enabled' s t); [reflexivity|discriminate]. }
      assert (Hth : thr s' t2 = thr s t2).
      { destruct (exec_spec _ _ _ _ E) as
          [th' _ _ _ _ _ _ Ht2 _ _ _ _ _
          |p th' c free' objs0 _ _ _ _ _ Ht2 _ _ _ _ _
          |c w st' evs closes th' _ _ _ _ _ _ _ _ Ht2 _ _ _ _
          |c k th' _ _ _ _ _ _ Ht2 _ _ _
          |c age rest th' _ _ _ _ _ _ Ht2 _ _ _]; eapply thr_upd_ne; eassumption. }
      unfold order_line. rewrite Hth, (Ho _ N). apply IH.
Qed.

(* hence: the packets a thread has processed so far, in the order it processed them, are a
   subsequence of its program *)
Lemma processed_in_program_order g progs s t : reachable g progs s ->
  subseq (procs t (s_log s)) (pkts_of (nth t progs [])).
Proof.
  intros R. eapply subseq_trans; [|apply (order_reachable _ _ _ R t)].
  unfold order_line. generalize (cur_pkt (t_pc (thr s t)) ++ pkts_of (t_prog (thr s t))).
  generalize (procs t (s_log s)). intros l1 l2. induction l1; cbn; constructor; assumption.
Qed.

End Proofs.

(* ================================================================ the two concrete machines satisfy machine_ok *)
Lemma count_complete_app a b : count_complete (a ++ b) = count_complete a + count_complete b.
Proof. unfold count_complete. rewrite filter_app, app_length. reflexivity. Qed.

Lemma t_send_spec ret n q l st' ev b : t_send ret n q l = (st', ev, b) ->
  (b = true -> tc_closed st' = true) /\ count_complete ev = (if b then 1 else 0).
Proof.
  unfold t_send. destruct (t_add_contig n q ret) as [[ret' n'] q'].
  destruct (last_end ret'); intros H; inversion H; subst; cbn; split; auto; discriminate.
Qed.

Lemma t_flush_loop_spec fuel : forall st acc st' ev b, t_flush_loop fuel st acc = (st', ev, b) ->
  (b = true -> tc_closed st' = true) /\ count_complete ev = count_complete acc + (if b then 1 else 0).
Proof.
  induction fuel as [|f IH]; intros st acc st' ev b; cbn [t_flush_loop].
  - intros H; inversion H; subst. split; [discriminate|lia].
  - destruct (tc_q st) as [|pg r].
    + intros H; inversion H; subst. cbn. split; [reflexivity|]. rewrite count_complete_app. reflexivity.
    + destruct (t_add_next (tc_next st) pg) as [ch n'].
      destruct (t_send [ch] n' r (tc_last st)) as [[st1 evs] closes] eqn:Es.
      destruct (t_send_spec _ _ _ _ _ _ _ Es) as [A B].
      destruct closes.
      * intros H; inversion H; subst. split; [auto|]. rewrite count_complete_app, B. reflexivity.
      * intros H. destruct (IH _ _ _ _ _ H) as [C D]. split; [assumption|].
        rewrite D, count_complete_app, B. lia.
Qed.

Lemma t_age_loop_spec fuel T : forall st acc st' ev b, t_age_loop fuel T st acc = (st', ev, b) ->
  (b = true -> tc_closed st' = true) /\ count_complete ev = count_complete acc + (if b then 1 else 0).
Proof.
  induction fuel as [|f IH]; intros st acc st' ev b; cbn [t_age_loop].
  - intros H; inversion H; subst. split; [discriminate|lia].
  - destruct (tc_q st) as [|pg r].
    + destruct (tc_last st <? T)%Z; intros H; inversion H; subst; cbn.
      * split; [reflexivity|]. rewrite count_complete_app. reflexivity.
      * split; [discriminate|lia].
    + destruct (tp_seen pg <? T)%Z; [|intros H; inversion H; subst; split; [discriminate|lia]].
      destruct (t_add_next (tc_next st) pg) as [ch n'].
      destruct (t_send [ch] n' r (tc_last st)) as [[st1 evs] closes] eqn:Es.
      destruct (t_send_spec _ _ _ _ _ _ _ Es) as [A B].
      destruct closes.
      * intros H; inversion H; subst. split; [auto|]. rewrite count_complete_app, B. reflexivity.
      * intros H. destruct (IH _ _ _ _ _ H) as [C D]. split; [assumption|].
        rewrite D, count_complete_app, B. lia.
Qed.

Lemma tcp_machine_ok : machine_ok tconn tc_init tc_closed tcp_reset tcp_process tcp_flush.
Proof.
  split; [reflexivity|]. split; [reflexivity|]. split.
  - intros st h p st' ev b. unfold tcp_process. destruct (tc_closed st) eqn:Ec.
    + intros H; inversion H; subst. repeat split; auto; discriminate.
    + assert (Hs : forall ret n q l, t_send ret n q l = (st', ev, b) ->
         (b = true -> false = false /\ tc_closed st' = true) /\ (false = true -> tc_closed st' = true) /\
         count_complete ev = (if b then 1 else 0)).
      { intros ret n q l Hs. destruct (t_send_spec _ _ _ _ _ _ _ Hs) as [A B]. repeat split; auto; discriminate. }
      destruct (tc_next st) as [n|].
      * destruct (0 <? (if p_syn p then p_seq p + 1 else p_seq p) - n)%Z.
        -- intros H; inversion H; subst. repeat split; auto; discriminate.
        -- destruct (byte_span (Some n) (if p_syn p then (p_seq p + 1)%Z else p_seq p) (p_bytes p)) as [b0 n']. apply Hs.
      * destruct (p_syn p); [apply Hs|].
        intros H; inversion H; subst. repeat split; auto; discriminate.
  - intros a st st' ev b. unfold tcp_flush. destruct (tc_closed st) eqn:Ec.
    + intros H; inversion H; subst. repeat split; auto; discriminate.
    + destruct a as [T|]; intros H;
        [destruct (t_age_loop_spec _ _ _ _ _ _ _ H) as [A B]|destruct (t_flush_loop_spec _ _ _ _ _ _ H) as [A B]];
        repeat split; auto; discriminate.
Qed.

Lemma r_add_contig_len : forall q last accb acce n q' b e,
  r_add_contig last q accb acce = (n, q', b, e) -> length q' <= length q.
Proof.
  induction q as [|pg r IH]; intros last accb acce n q' b e; cbn [r_add_contig].
  - intros H; inversion H; subst. cbn; lia.
  - destruct (rp_seq pg - last =? 0)%Z.
    + intros H. apply IH in H. cbn; lia.
    + intros H; inversion H; subst. lia.
Qed.

Lemma r_send_spec dir next q seq0 bytes0 s0 e0 ev q' e n :
  r_send dir next q seq0 bytes0 s0 e0 = (ev, q', e, n) ->
  is_complete ev = false /\ length q' <= length q.
Proof.
  unfold r_send. destruct (r_add_contig (seq0 + zlen bytes0) q bytes0 e0) as [[[nseq q1] allb] e1] eqn:Ea.
  intros H; inversion H; subst. split; [reflexivity|]. eapply r_add_contig_len; eassumption.
Qed.

Lemma r_flush_half_spec fuel : forall dir h acc h' ev, r_flush_half fuel dir h acc = (h', ev) ->
  count_complete ev = count_complete acc /\ (length (h_q h) < fuel -> h_closed h' = true).
Proof.
  induction fuel as [|f IH]; intros dir h acc h' ev; cbn [r_flush_half].
  - intros H; inversion H; subst. split; [reflexivity|lia].
  - destruct (h_closed h) eqn:Ec.
    + intros H; inversion H; subst. split; [reflexivity|auto].
    + destruct (h_q h) as [|pg r] eqn:Eq.
      * intros H; inversion H; subst. split; [reflexivity|reflexivity].
      * destruct (r_send dir (h_next h) r (rp_seq pg) (rp_bytes pg) false (rp_end pg)) as [[[ev1 q'] e] nseq] eqn:Es.
        destruct (r_send_spec _ _ _ _ _ _ _ _ _ _ _ Es) as [A B].
        assert (Hc : count_complete (acc ++ [ev1]) = count_complete acc).
        { rewrite count_complete_app. unfold count_complete at 2. cbn. rewrite A. cbn. lia. }
        destruct e.
        -- intros H; inversion H; subst. split; [assumption|reflexivity].
        -- intros H. destruct (IH _ _ _ _ _ H) as [C D]. split; [congruence|].
           intros L. apply D. cbn in *. lia.
Qed.

Lemma r_age_half_spec fuel T lc : forall dir h acc h' ev, r_age_half fuel T lc dir h acc = (h', ev) ->
  count_complete ev = count_complete acc /\ (h_closed h = true -> h_closed h' = true).
Proof.
  induction fuel as [|f IH]; intros dir h acc h' ev; cbn [r_age_half].
  - intros H; inversion H; subst. split; [reflexivity|auto].
  - destruct (h_closed h) eqn:Ec.
    + intros H; inversion H; subst. split; [reflexivity|auto].
    + destruct (h_q h) as [|pg r] eqn:Eq.
      * destruct (lc <? T)%Z; intros H; inversion H; subst; split; try reflexivity; discriminate.
      * destruct (rp_seen pg <? T)%Z; [|intros H; inversion H; subst; split; [reflexivity|discriminate]].
        destruct (r_send dir (h_next h) r (rp_seq pg) (rp_bytes pg) false (rp_end pg)) as [[[ev1 q'] e] nseq] eqn:Es.
        destruct (r_send_spec _ _ _ _ _ _ _ _ _ _ _ Es) as [A B].
        assert (Hc : count_complete (acc ++ [ev1]) = count_complete acc).
        { rewrite count_complete_app. unfold count_complete at 2. cbn. rewrite A. cbn. lia. }
        destruct e.
        -- intros H; inversion H; subst. split; [assumption|discriminate].
        -- intros H. destruct (IH _ _ _ _ _ H) as [C D]. split; [congruence|discriminate].
Qed.

Lemma rsm_machine_ok : machine_ok rconn rc_init rc_closed rsm_reset rsm_process rsm_flush.
Proof.
  split; [reflexivity|]. split; [reflexivity|]. split.
  - intros st0 fwd p st' ev b. unfold rsm_process.
    set (h0 := if fwd then r_c2s st0 else r_s2c st0).
    set (h := mkHalf (h_next h0) (h_q h0) (h_closed h0) (if (h_last h0 <? p_ts p)%Z then p_ts p else h_last h0)).
    set (st := set_half st0 fwd h false).
    assert (Hcl0 : rc_closed st = rc_closed st0).
    { unfold rc_closed, st, set_half, h, h0. destruct fwd; reflexivity. }
    cbn [h_closed h]. change (h_closed h) with (h_closed h0).
    destruct (h_closed h0) eqn:Ec.
    + intros H; inversion H; subst. rewrite Hcl0. repeat split; auto; discriminate.
    + assert (Hopen : rc_closed st0 = false).
      { unfold rc_closed. subst h0. destruct fwd; rewrite Ec; [reflexivity|apply andb_false_r]. }
      assert (Hq : forall st1, (st1, @nil cevent, false) = (st', ev, b) ->
          (b = true -> rc_closed st0 = false /\ rc_closed st' = true) /\ (rc_closed st0 = true -> rc_closed st' = true) /\
          count_complete ev = (if b then 1 else 0)).
      { intros st1 H; inversion H; subst. repeat split; try discriminate; try congruence. }
      destruct (match h_next h with
                | Some n => if (0 <? (if p_syn p then p_seq p + 1 else p_seq p) - n)%Z
                            then (true, if p_syn p then (p_seq p + 1)%Z else p_seq p, Some n)
                            else (false, if p_syn p then (p_seq p + 1)%Z else p_seq p, Some n)
                | None => if p_syn p then (false, (p_seq p + 1)%Z, Some (p_seq p + 1)%Z) else (true, p_seq p, None)
                end) as [[queue sq] next1].
      destruct queue.
      * destruct (r_check_overlap (h_q h) true sq (p_bytes p) (p_fin p) (p_ts p)) as [[q' b1] cut]. apply Hq.
      * destruct (r_overlap_existing next1 sq (p_bytes p)) as [b1 seq1].
        destruct (r_check_overlap (h_q h) false seq1 b1 (p_fin p) (p_ts p)) as [[q1 b2] cut].
        destruct ((match b2 with [] => false | _ :: _ => true end) || p_fin p || p_syn p); [|apply Hq].
        destruct (r_send (negb fwd) next1 q1 seq1 b2 (p_syn p) (p_fin p)) as [[[ev1 q2] e] nseq] eqn:Es.
        destruct (r_send_spec _ _ _ _ _ _ _ _ _ _ _ Es) as [A _].
        destruct e.
        -- unfold r_after_close.
           destruct (rc_closed (set_half st fwd (mkHalf (Some (if p_fin p then (nseq + 1)%Z else nseq)) [] true (h_last h)) cut)) eqn:Ecl;
             intros H; inversion H; subst; unfold count_complete; cbn; rewrite A; cbn;
             repeat split; try discriminate; try congruence; auto.
        -- intros H; inversion H; subst; unfold count_complete; cbn; rewrite A; cbn;
             repeat split; try discriminate; try congruence.
  - intros a st st' ev b. unfold rsm_flush. destruct (rc_closed st) eqn:Ec.
    + intros H; inversion H; subst. repeat split; auto; discriminate.
    + destruct a as [T|].
      * destruct (r_age_half (S (length (h_q (r_s2c st)))) T (rc_last st) true (r_s2c st) []) as [hs e1] eqn:E1.
        destruct (r_age_half (S (length (h_q (r_c2s st)))) T (rc_last st) false (r_c2s st) e1) as [hc e2] eqn:E2.
        destruct (r_age_half_spec _ _ _ _ _ _ _ _ E1) as [A1 _].
        destruct (r_age_half_spec _ _ _ _ _ _ _ _ E2) as [A2 _].
        destruct (rc_closed (mkRC hc hs (r_unsup st))) eqn:Ecl; intros H; inversion H; subst.
        -- split; [intros _; split; [reflexivity|assumption]|split; [discriminate|]].
           rewrite count_complete_app, A2, A1. reflexivity.
        -- split; [discriminate|split; [discriminate|]]. rewrite A2, A1. reflexivity.
      * destruct (r_flush_half (S (length (h_q (r_s2c st)))) true (r_s2c st) []) as [hs e1] eqn:E1.
        destruct (r_flush_half (S (length (h_q (r_c2s st)))) false (r_c2s st) e1) as [hc e2] eqn:E2.
        destruct (r_flush_half_spec _ _ _ _ _ _ E1) as [A1 B1].
        destruct (r_flush_half_spec _ _ _ _ _ _ E2) as [A2 B2].
        intros H; inversion H; subst.
        split; [intros _; split; [reflexivity|]|split; [discriminate|]].
        -- unfold rc_closed; cbn. rewrite B1, B2 by lia. reflexivity.
        -- rewrite count_complete_app, A2, A1. reflexivity.
Qed.
