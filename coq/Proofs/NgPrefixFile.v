(* A block cut short: the packet read ends in io.ErrUnexpectedEOF; and the prefix theorem for files. *)
From GP Require Import Base NgModel NgIoProofs NgExec NgRoundtrip NgFile NgPrefix.
From Coq Require Import Lia ZifyBool ZifyNat.
Open Scope Z_scope.

Ltac sim := cbn [r_ifaces r_ci r_blen r_ocode r_oval r_ocap r_big r_btyp r_link r_first r_pcap r_ancil r_names r_nsec r_active r_sect
                 set_block set_blen set_opt set_ifaces set_link set_section set_ci set_ancil set_pcap set_names
                 fst snd ci_if ci_cap ci_len ci_ts core] in *.

Lemma exec_readBlock_short s l : 0 < zlen l < 8 -> exists s', exec readBlock s l = ((s', Err 2), []).
Proof.
  intros H. unfold exec, readBlock. cbn [run_d Z.leb Z.compare].
  assert (8 <=? zlen l = false) as -> by lia.
  destruct l as [|a t]; [unfold zlen in H; cbn in H; lia|]. cbn [run_d]. eauto.
Qed.

Lemma firstn_app_split {X} (a b : list X) k : (length a <= k)%nat -> firstn k (a ++ b) = a ++ firstn (k - length a) b.
Proof. intros H. rewrite firstn_app. rewrite firstn_all2 by lia. reflexivity. Qed.

(* the part of readPacketHeader that follows readBlock, obtained from the definition itself *)
Definition hdr_rest (ro : ropts) (F g : nat) : unit -> SM unit.
Proof.
  let t := eval cbn [readPacketHeader] in (readPacketHeader ro F (S g)) in
  match t with sbind readBlock ?k => exact k end.
Defined.
Lemma hdr_unfold ro F g : readPacketHeader ro F (S g) = sbind readBlock (hdr_rest ro F g).
Proof. reflexivity. Qed.

Definition body_pkt (ro : ropts) (F g : nat) : SM pkt := sbind (hdr_rest ro F g tt) (fun _ => rp_tail ro F).

Lemma rpg_split ro F g s l s1 l1 :
  exec readBlock s l = ((s1, Ok tt), l1) -> exec (readPacketG ro F (S g)) s l = exec (body_pkt ro F g) s1 l1.
Proof.
  intros H. unfold readPacketG, body_pkt. rewrite exec_bind. rewrite hdr_unfold. rewrite exec_bind, H. cbv iota beta.
  rewrite exec_bind. reflexivity.
Qed.

(* ---- eof2 with the state kept *)
Lemma e2_sget {A} (f : rst -> SM A) s : eof2 (f s s) -> eof2 (sbind sget f s).
Proof. intros H; exact H. Qed.
Lemma e2_smod {A} g (f : unit -> SM A) s : eof2 (f tt (g s)) -> eof2 (sbind (smod g) f s).
Proof. intros H; exact H. Qed.
Lemma e2_sub_blen {A} k (f : unit -> SM A) s : eof2 (f tt (set_blen s (u32 (r_blen s - k)))) -> eof2 (sbind (sub_blen k) f s).
Proof. intros H; exact H. Qed.
Lemma e2_sret {A B} (a : A) (f : A -> SM B) s : eof2 (f a s) -> eof2 (sbind (sret a) f s).
Proof. intros H; exact H. Qed.
Lemma e2_s_rd {A} n (f : list Z -> SM A) s : (forall bs, eof2 (f bs s)) -> eof2 (sbind (s_rd n) f s).
Proof.
  intros H. unfold sbind, s_rd. cbn [iobind eof2]. split; [intros bs; cbn [iobind snd fst]; apply H|].
  intros bs. cbn [iobind snd fst err_of]. eauto.
Qed.
Lemma e2_slift {A B} (o : outcome A) (f : A -> SM B) s : (forall a, eof2 (f a s)) -> eof2 (sbind (slift o) f s).
Proof. intros H. destruct o; [apply H|exact I|exact I]. Qed.
Lemma e2_check {A} snap (f : unit -> SM A) s : eof2 (f tt s) -> eof2 (sbind (check_caplen snap) f s).
Proof.
  intros H. unfold check_caplen, sbind, sget, sfail, sret. cbn [iobind fst snd].
  destruct (r_blen s <? ci_cap (r_ci s)); [exact I|]. destruct (ci_len (r_ci s) <? ci_cap (r_ci s)); [exact I|].
  destruct (negb (snap =? 0) && (snap <? ci_cap (r_ci s))); [exact I|]. exact H.
Qed.

Lemma eof2_body_pkt ro F g s : ro_mixed ro = true -> r_btyp s = 6 -> eof2 (body_pkt ro F g s).
Proof.
  intros Hmix Hbt. unfold body_pkt. apply eof2_bind; [|intros; apply eof2_rp_tail].
  unfold hdr_rest. apply e2_sget. cbv zeta. rewrite Hbt. cbn [Z.eqb Pos.eqb orb].
  apply e2_s_rd; intros b. apply e2_sub_blen. apply e2_sget. sim. apply e2_smod. sim.
  destruct (zlen (r_ifaces s) <=? _); [exact I|]. destruct (nth_error (r_ifaces s) _) as [i|]; [|exact I].
  apply e2_slift; intros tm. apply e2_smod. apply e2_check. apply e2_sget. sim.
  destruct (nth_error _ _); [|exact I]. rewrite Hmix. cbn [negb]. exact I.
Qed.

Lemma rpg_short ro F g s l : 0 < zlen l < 8 -> exists s', exec (readPacketG ro F (S g)) s l = ((s', Err 2), []).
Proof.
  intros H. destruct (exec_readBlock_short s l H) as (s' & E). exists s'.
  unfold readPacketG. rewrite exec_bind, hdr_unfold, exec_bind, E. reflexivity.
Qed.

(* ---- an enhanced packet block cut short *)
Lemma trunc_epb ro F g s ifid ts caplen len data o k :
  ro_mixed ro = true -> r_big s = false -> (length (popts_to_options o) + 2 < F)%nat ->
  wf_packet (r_ifaces s) ifid ts caplen len data o ->
  (0 < k < length (enc_epb ifid ts caplen len data o))%nat ->
  exists s', exec (readPacketG ro F (S g)) s (firstn k (enc_epb ifid ts caplen len data o)) = ((s', Err 2), []).
Proof.
  intros Hmix Hbig HF Hwf Hk.
  destruct (exec_epb_g ro F g s ifid ts caplen len data o [] Hmix Hbig HF Hwf) as (sf & i & _ & Efull & _).
  rewrite app_nil_r in Efull.
  pose proof (enc_epb_shape _ _ _ _ _ _ _ Hwf) as (Hshape & HL & _). cbv zeta in *.
  set (L := zlen (opts_enc (popts_to_options o)) + 32 + zlen data + pad4 (zlen data)) in *.
  rewrite Hshape in *.
  match type of Hshape with _ = le_bytes 4 6 ++ le_bytes 4 L ++ ?b => set (body := b) in * end.
  destruct (Nat.lt_ge_cases k 8) as [Hlt|Hge].
  - apply rpg_short. rewrite zlen_firstn by lia. lia.
  - rewrite (app_assoc (le_bytes 4 6)) in *. rewrite firstn_app_split by (rewrite app_length, !le_bytes_length; lia).
    rewrite app_length, !le_bytes_length in *. rewrite <- app_assoc in *.
    assert (forall x, exec readBlock s (le_bytes 4 6 ++ le_bytes 4 L ++ x) = ((set_block s false 6 (L - 8), Ok tt), x)) as Hrb
      by (intros x; apply exec_readBlock_plain; try assumption; try lia; unfold BT_SHB; lia).
    rewrite (rpg_split _ _ _ _ _ _ _ (Hrb _)). rewrite (rpg_split _ _ _ _ _ _ _ (Hrb _)) in Efull.
    eapply trunc_all; [apply eof2_body_pkt; [exact Hmix|reflexivity]|exact Efull|]. rewrite !app_length, !le_bytes_length in Hk. lia.
Qed.

(* ---- an interface description block cut short *)
Lemma trunc_idb ro F g s w k :
  r_big s = false -> wif_ok w -> (length (idb_options w) < F)%nat ->
  (0 < k < length (enc_idb w))%nat ->
  exists s', exec (readPacketG ro F (S g)) s (firstn k (enc_idb w)) = ((s', Err 2), []).
Proof.
  intros Hbig Hw HF Hk. pose proof (enc_idb_shape w Hw) as (Hshape & Hz & HL). cbv zeta in *.
  set (L := zlen (opts_enc (idb_options w)) + 20) in *. rewrite Hshape in *.
  match type of Hshape with _ = le_bytes 4 1 ++ le_bytes 4 L ++ ?b => set (body := b) in * end.
  destruct (Nat.lt_ge_cases k 8) as [Hlt|Hge].
  - apply rpg_short. rewrite zlen_firstn by lia. lia.
  - rewrite (app_assoc (le_bytes 4 1)) in *. rewrite firstn_app_split by (rewrite app_length, !le_bytes_length; lia).
    rewrite app_length, !le_bytes_length in *. rewrite <- app_assoc in *. cbn [Nat.add] in *.
    destruct (exec_readIDB F (set_block s false 1 (L - 8)) w []) as (sf & Efull & _); try assumption; try reflexivity; [sim; lia|].
    fold L in Efull. repeat rewrite <- app_assoc in Efull. rewrite app_nil_r in Efull.
    assert (body = (le_bytes 2 (wi_link w) ++ le_bytes 2 0 ++ le_bytes 4 (wi_snap w) ++ opts_enc (idb_options w) ++ le_bytes 4 L)) as Hbody
      by (unfold body; repeat rewrite <- app_assoc; reflexivity).
    rewrite <- Hbody in Efull.
    assert (k - 8 < length body)%nat as Hkb by (rewrite !app_length, !le_bytes_length in Hk; lia).
    destruct (trunc_all (readIDB F) _ body _ (k - 8)%nat (eof2_readIDB F _) Efull Hkb) as (s' & Et).
    exists s'. unfold readPacketG. rewrite exec_bind. cbn [readPacketHeader]. cbv zeta.
    rewrite exec_bind, exec_readBlock_plain by (try assumption; try lia; unfold BT_SHB; lia). cbv iota beta.
    rewrite exec_bind, exec_sget. cbv iota beta. sim. cbn [Z.eqb Pos.eqb orb].
    rewrite exec_bind, Et. reflexivity.
Qed.

(* ---- a decryption secrets block cut short *)
Lemma trunc_dsb ro F g s ty pl k :
  r_big s = false -> 0 <= ty < 4294967296 -> zlen pl < 4294967000 ->
  (0 < k < length (enc_dsb ty pl))%nat ->
  exists s', exec (readPacketG ro F (S g)) s (firstn k (enc_dsb ty pl)) = ((s', Err 2), []).
Proof.
  intros Hbig Ht Hp Hk. destruct (enc_dsb_shape ty pl Ht Hp) as (E & HL & Hz). cbv zeta in *.
  set (L := 20 + zlen pl + pad4 (zlen pl)) in *. rewrite E in *.
  match type of E with _ = le_bytes 4 10 ++ le_bytes 4 L ++ ?b => set (body := b) in * end.
  destruct (Nat.lt_ge_cases k 8) as [Hlt|Hge].
  - apply rpg_short. rewrite zlen_firstn by lia. lia.
  - rewrite (app_assoc (le_bytes 4 10)) in *. rewrite firstn_app_split by (rewrite app_length, !le_bytes_length; lia).
    rewrite !app_length, !le_bytes_length in Hk. rewrite app_length, !le_bytes_length. rewrite <- app_assoc. cbn [Nat.add] in *.
    unfold readPacketG. rewrite exec_bind, hdr_dsb_step by assumption.
    rewrite exec_disc_short by (unfold zlen in *; rewrite firstn_length; lia). eauto.
Qed.

(* ---- an interface statistics block cut short *)
Lemma trunc_isb ro F g s ifid st i k :
  r_big s = false -> 0 <= ifid < 4294967296 -> nth_error (r_ifaces s) (Z.to_nat ifid) = Some i ->
  if_mask i <> 0 -> if_down i <> 0 -> (4 < F)%nat ->
  (0 < k < length (enc_isb ifid st))%nat ->
  exists s', exec (readPacketG ro F (S g)) s (firstn k (enc_isb ifid st)) = ((s', Err 2), []).
Proof.
  intros Hbig Hi Ei Hm Hd HF Hk. destruct (enc_isb_shape ifid st Hi) as (E & HL & Hz). cbv zeta in *.
  set (L := zlen (opts_enc (isb_options st)) + 24) in *. rewrite E in *.
  match type of E with _ = le_bytes 4 5 ++ le_bytes 4 L ++ ?b => set (body := b) in * end.
  destruct (Nat.lt_ge_cases k 8) as [Hlt|Hge].
  - apply rpg_short. rewrite zlen_firstn by lia. lia.
  - rewrite (app_assoc (le_bytes 4 5)) in *. rewrite firstn_app_split by (rewrite app_length, !le_bytes_length; lia).
    rewrite !app_length, !le_bytes_length in Hk. rewrite app_length, !le_bytes_length. rewrite <- app_assoc. cbn [Nat.add] in *.
    destruct (exec_readISB F (set_block s false 5 (L - 8)) ifid st i []) as (sf & Efull & _); try assumption; try reflexivity; [sim; lia|].
    cbv zeta in Efull. fold L in Efull. repeat rewrite <- app_assoc in Efull. rewrite app_nil_r in Efull.
    assert (body = (le_bytes 4 ifid ++ enc_ts match ws_last st with Some t => t | None => 0 end ++ opts_enc (isb_options st) ++ le_bytes 4 L)) as Hbody
      by (unfold body; repeat rewrite <- app_assoc; reflexivity).
    rewrite <- Hbody in Efull.
    assert (k - 8 < length body)%nat as Hkb by lia.
    destruct (trunc_all (readISB F) _ body _ (k - 8)%nat (eof2_readISB F _) Efull Hkb) as (s' & Et).
    exists s'. unfold readPacketG. rewrite exec_bind. cbn [readPacketHeader]. cbv zeta.
    rewrite exec_bind, exec_readBlock_plain by (try assumption; try lia; unfold BT_SHB; lia). cbv iota beta.
    rewrite exec_bind, exec_sget. cbv iota beta. sim. unfold BT_SHB. cbn [Z.eqb Pos.eqb orb].
    rewrite exec_bind, Et. reflexivity.
Qed.

(* ---------------------------------------------------------------- scripts split in two *)
Lemma ops_ok_app : forall a ws b, ops_ok ws (a ++ b) -> ops_ok ws a /\ ops_ok (ws_after ws a) b.
Proof.
  induction a as [|op t IH]; intros ws b H; [split; [exact I|exact H]|].
  destruct op as [w|ifid ts caplen len data o|ifid st|ty pl]; cbn [app ops_ok ws_after] in *; try contradiction.
  - destruct H as (Hw & H). destruct (IH _ _ H). auto.
  - destruct H as (Hw & H). destruct (IH _ _ H). auto.
  - destruct H as (H1 & H2 & H). destruct (IH _ _ H). auto.
  - destruct H as (H1 & H2 & H3 & H). destruct (IH _ _ H). auto.
Qed.

Lemma enc_ops_app a b : enc_ops (a ++ b) = enc_ops a ++ enc_ops b.
Proof. unfold enc_ops. rewrite map_app, concat_app. reflexivity. Qed.

(* ---------------------------------------------------------------- C14_ng_prefix for cuts behind the section header *)
Theorem prefix_file ro sec i0 ops pre nxt post k :
  ro_mixed ro = true -> sec_ok sec -> ops_ok [] (WAddIf i0 :: ops) -> zlen ops < 4294967290 ->
  WAddIf i0 :: ops = pre ++ nxt :: post -> (k < length (enc_op nxt))%nat ->
  let file := write_file sec i0 ops in
  forall F, (fuel_for (zlen file) <= F)%nat ->
  let cut := (length (enc_shb sec) + length (enc_ops pre) + k)%nat in
  let r := fst (run_d (session ro F) (firstn cut file)) in
  fst (fst (fst r)) = 0 /\ snd (fst (fst r)) = exp_pkts [] pre /\ snd (fst r) = (if (k =? 0)%nat then 1 else 2).
Proof.
  intros Hmix Hsec Hok Hb Hsplit Hk. cbv zeta. intros F HFge.
  destruct (write_file_shape sec i0 ops Hok Hb) as (Hfile & _). rewrite Hfile in *.
  set (script := WAddIf i0 :: ops) in *.
  destruct (script_sizes script [] Hok) as (Sz1 & Sz2).
  destruct (enc_shb_shape sec Hsec) as (Eshb & HLs). cbv zeta in *.
  assert (28 <= zlen (enc_shb sec)) as Hshb.
  { rewrite Eshb. rewrite !zlen_app, !zlen_le_bytes. change (zlen [10;13;13;10]) with 4. change (zlen [77;60;43;26]) with 4.
    change (zlen shb_fixed) with 12. pose proof (zlen_nonneg (opts_enc (shb_options sec))). lia. }
  assert (Z.of_nat F >= zlen (enc_shb sec) + zlen (enc_ops script) + 2) as HF
    by (unfold fuel_for in HFge; rewrite zlen_app in HFge; pose proof (zlen_nonneg (enc_ops script)); lia).
  pose proof (zlen_nonneg (enc_ops script)) as Hnn. clear HFge.
  assert (fuel_ok F script) as Hfo.
  { split; [lia|]. eapply Forall_impl; [|exact Sz2]. intros [] Ha; auto. unfold zlen in *. lia. }
  assert (length script < F)%nat as HlF by (unfold zlen in *; lia).
  (* the cut input *)
  rewrite Hsplit in *. rewrite enc_ops_app in *. cbn [enc_ops map concat] in *. fold (enc_ops post) in *.
  rewrite firstn_app_split by lia. replace (length (enc_shb sec) + length (enc_ops pre) + k - length (enc_shb sec))%nat
    with (length (enc_ops pre) + k)%nat by lia.
  rewrite firstn_app_split by lia. replace (length (enc_ops pre) + k - length (enc_ops pre))%nat with k by lia.
  rewrite firstn_app_le by lia.
  destruct (ops_ok_app pre [] (nxt :: post) Hok) as (Hokpre & Hoknxt).
  destruct Hfo as (HF12 & HFp). apply Forall_app in HFp. destruct HFp as (HFpre & HFnp). inversion HFnp as [|? ? HFn _]; subst.
  rewrite app_length in HlF. cbn [length] in HlF.
  (* NewNgReader *)
  unfold session. rewrite run_d_bind.
  assert (6 < F)%nat as HF6 by lia.
  match goal with |- context [run_d (newReader ro F init_rst) ?l] => change (run_d (newReader ro F init_rst) l) with (exec (newReader ro F) init_rst l) end.
  destruct (exec_newReader ro F sec (enc_ops pre ++ firstn k (enc_op nxt)) Hmix Hsec HF6) as (s0 & E0 & Q1 & Q2 & Q3).
  rewrite E0. cbn [snd fst]. rewrite run_d_bind.
  (* the tail *)
  assert (tail_ends ro F (ws_after [] pre) (firstn k (enc_op nxt)) (if (k =? 0)%nat then 1 else 2)) as Htail.
  { destruct k as [|k']; [cbn [firstn Nat.eqb]; apply tail_ends_nil|]. cbn [Nat.eqb].
    intros s g (Hbig & Hifs) Hg. destruct g as [|g]; [lia|].
    destruct nxt as [w|ifid ts caplen len data o|ifid st|ty pl]; cbn [ops_ok enc_op] in *; try contradiction.
    - destruct Hoknxt as (Hw & _). destruct (trunc_idb ro F g s w (S k') Hbig Hw) as (s' & E); [pose proof (idb_options_len w); lia|lia|eauto].
    - destruct Hoknxt as (Hwf & _). rewrite <- Hifs in Hwf. apply wf_packet_clear in Hwf.
      destruct (trunc_epb ro F g s ifid ts caplen len data o (S k') Hmix Hbig HFn Hwf) as (s' & E); [lia|eauto].
    - destruct Hoknxt as (Hid & Hid2 & _).
      assert (exists i, nth_error (r_ifaces s) (Z.to_nat ifid) = Some i) as (i & Ei).
      { destruct (nth_error (r_ifaces s) (Z.to_nat ifid)) eqn:En; [eauto|]. apply nth_error_None in En.
        assert (length (r_ifaces s) = length (ws_after [] pre)) by (rewrite <- (map_length clear_stats), Hifs, map_length; reflexivity).
        unfold zlen in Hid. lia. }
      destruct (sinv_link _ s ifid i Hifs Ei) as (_ & Hm & Hd).
      destruct (trunc_isb ro F g s ifid st i (S k') Hbig ltac:(lia) Ei ltac:(rewrite Hm; unfold E9; lia) ltac:(rewrite Hd; lia) ltac:(lia)) as (s' & E); [lia|eauto].
    - destruct Hoknxt as (_ & Hty & Hpl & _). destruct (trunc_dsb ro F g s ty pl (S k') Hbig Hty Hpl) as (s' & E); [lia|eauto]. }
  assert (length pre < F)%nat as HlFp by lia.
  destruct (read_all_script ro F _ _ _ Hmix Htail (length pre) pre [] s0 [] F
              (le_n _) HlFp HlFp (conj Q1 (f_equal (map clear_stats) Q2)) Hokpre (conj HF12 HFpre) eq_refl) as (s' & l' & E).
  rewrite E. cbn [fst snd run_d rev app]. repeat split; reflexivity.
Qed.

(* ---------------------------------------------------------------- cuts inside the section header block *)
Definition shb_tail (ro : ropts) (F : nat) : SM unit :=
  sec <- shb_opts F empty_sec ;;
  s <- sget ;;
  s_disc (r_blen s) ;;;
  smod (fun s => set_section s true sec) ;;;
  if ro_mixed ro then sret tt else firstInterface ro F F.

Lemma readSectionHeader_unfold ro F :
  readSectionHeader ro F =
  (smod (fun s => set_section (set_names (set_ifaces s []) [] 0) false (r_sect s)) ;;; rsh_version ro F F ;;; shb_tail ro F).
Proof. reflexivity. Qed.

Lemma eof2_shb_tail ro F s : ro_mixed ro = true -> eof2 (shb_tail ro F s).
Proof. intros Hmix. unfold shb_tail. rewrite Hmix. e2; apply eof2_shb_opts. Qed.

Lemma peek_1013 {A} (f : list Z -> SM A) s l :
  exec (sbind (fun s0 : rst => Peek2 (fun bs st => match st with
             | RsOk => Ret (s0, Ok bs) | RsEOF => Ret (s0, Err match bs with [] => 1 | _ :: _ => 2 end)
             | RsFail => Ret (s0, Err 3) end)) f) s (10 :: 13 :: l) = exec (f [10;13]) s (10 :: 13 :: l).
Proof.
  rewrite exec_bind. unfold exec at 1. cbn [run_d].
  assert (2 <=? zlen (10 :: 13 :: l) = true) as -> by (unfold zlen; cbn [length]; lia). reflexivity.
Qed.

Definition hdr24 (L : Z) : list Z := [10;13;13;10] ++ le_bytes 4 L ++ [77;60;43;26] ++ shb_fixed.
Definition st24 (L : Z) : rst :=
  set_blen (set_section (set_names (set_ifaces (set_block init_rst false BT_SHB (L - 12)) []) [] 0) false empty_sec) (L - 24).

Lemma newReader_split ro F L x : (0 < F)%nat -> 28 <= L < 4294967296 ->
  exec (newReader ro F) init_rst (hdr24 L ++ x) = exec (shb_tail ro F) (st24 L) x.
Proof.
  intros HF HL. unfold hdr24. repeat rewrite <- app_assoc. unfold newReader. cbn [app]. rewrite peek_1013.
  change ((nthZ [10; 13] 0 =? 31) && (nthZ [10; 13] 1 =? 139)) with false. cbv iota.
  change (10 :: 13 :: 13 :: 10 :: le_bytes 4 L ++ 77 :: 60 :: 43 :: 26 :: shb_fixed ++ x)
    with ([10;13;13;10] ++ le_bytes 4 L ++ [77;60;43;26] ++ shb_fixed ++ x).
  rewrite exec_bind, exec_readBlock_shb by (try reflexivity; lia). cbv iota beta.
  rewrite exec_bind, exec_sget. cbv iota beta. sim. rewrite Z.eqb_refl. cbn [negb].
  rewrite readSectionHeader_unfold. rewrite exec_bind, exec_smod. cbv iota beta.
  destruct F as [|f]; [lia|]. rewrite exec_bind. cbn [rsh_version].
  rewrite exec_bind, exec_rd_app by reflexivity. cbv iota beta.
  rewrite exec_bind, exec_sub_blen. cbv iota beta. rewrite exec_bind, exec_sget. cbv iota beta. sim.
  change (getu false (sl shb_fixed 0 2)) with 1. change (getu false (sl shb_fixed 2 4)) with 0. cbn [Z.eqb Pos.eqb andb].
  rewrite exec_sret. cbv iota beta. unfold st24. sim. rewrite u32_small by lia.
  replace (L - 12 - 12) with (L - 24) by lia. reflexivity.
Qed.

Lemma shb_is_hdr24 sec : sec_ok sec ->
  let L := zlen (opts_enc (shb_options sec)) + 28 in
  enc_shb sec = hdr24 L ++ opts_enc (shb_options sec) ++ le_bytes 4 L /\ 28 <= L < 4294967296.
Proof.
  intros Hs. destruct (enc_shb_shape sec Hs) as (E & HL). cbv zeta in *. split; [|exact HL].
  rewrite E. unfold hdr24. repeat rewrite <- app_assoc. reflexivity.
Qed.

(* NewNgReader on a proper prefix of the section header block: io.EOF for nothing at all, else io.ErrUnexpectedEOF *)
Lemma trunc_shb ro F sec k : ro_mixed ro = true -> sec_ok sec -> (6 < F)%nat -> (k < length (enc_shb sec))%nat ->
  exists s' l', exec (newReader ro F) init_rst (firstn k (enc_shb sec)) = ((s', Err (if (k =? 0)%nat then 1 else 2)), l').
Proof.
  intros Hmix Hs HF Hk. destruct (shb_is_hdr24 sec Hs) as (E & HL). cbv zeta in *.
  set (L := zlen (opts_enc (shb_options sec)) + 28) in *.
  destruct (exec_newReader ro F sec [] Hmix Hs HF) as (sf & Efull & _). rewrite app_nil_r in Efull.
  rewrite E in *. rewrite newReader_split in Efull by lia.
  assert (length (hdr24 L) = 24%nat) as H24 by (unfold hdr24; rewrite !app_length, le_bytes_length; reflexivity).
  destruct (Nat.lt_ge_cases k 24) as [Hlt|Hge].
  - (* inside the fixed part *)
    rewrite firstn_app_le by lia. unfold hdr24.
    destruct k as [|k]; [cbn [firstn Nat.eqb]; eexists; eexists; reflexivity|]. cbn [Nat.eqb].
    destruct k as [|k]; [cbn [firstn app]; unfold newReader; rewrite exec_bind; unfold exec; cbn [run_d];
                         change (2 <=? zlen [10]) with false; cbn; eauto|].
    change ([10; 13; 13; 10] ++ le_bytes 4 L ++ [77; 60; 43; 26] ++ shb_fixed)
      with (10 :: 13 :: ([13; 10] ++ le_bytes 4 L ++ [77; 60; 43; 26] ++ shb_fixed)).
    cbn [firstn]. unfold newReader. rewrite peek_1013.
    change ((nthZ [10; 13] 0 =? 31) && (nthZ [10; 13] 1 =? 139)) with false. cbv iota.
    set (l := 10 :: 13 :: firstn k ([13; 10] ++ le_bytes 4 L ++ [77; 60; 43; 26] ++ shb_fixed)).
    assert (zlen l = Z.of_nat (S (S k))) as Hzl.
    { unfold l, zlen. cbn [length]. rewrite firstn_length. rewrite !app_length, le_bytes_length. cbn [length]. 
      change (length shb_fixed) with 12%nat. lia. }
    destruct (Nat.lt_ge_cases (S (S k)) 8) as [H8|H8].
    + destruct (exec_readBlock_short init_rst l ltac:(lia)) as (s' & Er). rewrite exec_bind, Er. eauto.
    + (* the first 8 bytes are there *)
      assert (l = [10;13;13;10] ++ le_bytes 4 L ++ firstn (S (S k) - 8) ([77;60;43;26] ++ shb_fixed)) as Hl.
      { unfold l. change (10 :: 13 :: firstn k ([13; 10] ++ le_bytes 4 L ++ [77; 60; 43; 26] ++ shb_fixed))
          with (firstn (S (S k)) (([10;13;13;10] ++ le_bytes 4 L) ++ [77; 60; 43; 26] ++ shb_fixed)).
        rewrite firstn_app_split by (rewrite app_length, le_bytes_length; cbn [length]; lia).
        rewrite app_length, le_bytes_length. cbn [length Nat.add]. rewrite <- app_assoc. reflexivity. }
      rewrite Hl. set (m := (S (S k) - 8)%nat).
      destruct (Nat.lt_ge_cases m 4) as [H4|H4].
      * (* the byte order magic is cut *)
        rewrite firstn_app_le by (cbn [length]; lia).
        rewrite exec_bind. unfold exec at 1, readBlock. cbn [run_d].
        rewrite (app_assoc [10;13;13;10]). rewrite zlen_app, zlen_app, zlen_le_bytes. change (zlen [10;13;13;10]) with 4.
        pose proof (zlen_nonneg (firstn m [77;60;43;26])).
        assert (8 <=? 4 + Z.of_nat 4 + zlen (firstn m [77;60;43;26]) = true) as -> by lia. cbn [Z.leb Z.compare].
        replace (Z.to_nat 8) with (length ([10;13;13;10] ++ le_bytes 4 L)) by (rewrite app_length, le_bytes_length; reflexivity).
        rewrite firstn_app_exact, skipn_app_exact. cbn [r_big init_rst]. unfold getu.
        rewrite (sl_0 [10;13;13;10]) by reflexivity. change (le_val [10;13;13;10]) with BT_SHB. rewrite Z.eqb_refl.
        cbn [run_d]. cbn [Z.leb Z.compare].
        assert (4 <=? zlen (firstn m [77;60;43;26]) = false) as -> by (unfold zlen; rewrite firstn_length; cbn [length]; lia).
        cbn [run_d snd fst err_of]. eauto.
      * (* version and section length are cut *)
        rewrite firstn_app_split by (cbn [length]; lia). cbn [length].
        rewrite exec_bind, exec_readBlock_shb by (try reflexivity; lia). cbv iota beta.
        rewrite exec_bind, exec_sget. cbv iota beta. sim. rewrite Z.eqb_refl. cbn [negb].
        rewrite readSectionHeader_unfold. rewrite exec_bind, exec_smod. cbv iota beta.
        destruct F as [|f]; [lia|]. rewrite exec_bind. cbn [rsh_version].
        rewrite exec_bind, exec_rd_short by (unfold zlen; rewrite firstn_length; change (length shb_fixed) with 12%nat; lia).
        eauto.
  - (* inside the options or the trailing length *)
    assert ((k =? 0)%nat = false) as -> by (apply Nat.eqb_neq; lia).
    rewrite firstn_app_split by lia. rewrite H24. rewrite newReader_split by lia.
    destruct (trunc_all (shb_tail ro F) (st24 L) _ _ (k - 24)%nat (eof2_shb_tail ro F _ Hmix) Efull) as (s' & Et);
      [rewrite app_length, H24 in Hk; lia|eauto].
Qed.

Theorem prefix_file_shb ro sec i0 ops k :
  ro_mixed ro = true -> sec_ok sec -> ops_ok [] (WAddIf i0 :: ops) -> zlen ops < 4294967290 ->
  (k < length (enc_shb sec))%nat ->
  forall F, (6 < F)%nat ->
  let r := fst (run_d (session ro F) (firstn k (write_file sec i0 ops))) in
  fst (fst (fst r)) = (if (k =? 0)%nat then 1 else 2) /\ snd (fst (fst r)) = [] /\ snd (fst r) = (if (k =? 0)%nat then 1 else 2).
Proof.
  intros Hmix Hsec Hok Hb Hk F HF. cbv zeta.
  destruct (write_file_shape sec i0 ops Hok Hb) as (Hfile & _). rewrite Hfile.
  rewrite firstn_app_le by lia.
  destruct (trunc_shb ro F sec k Hmix Hsec HF Hk) as (s' & l' & E).
  unfold session. rewrite run_d_bind.
  change (run_d (newReader ro F init_rst) (firstn k (enc_shb sec))) with (exec (newReader ro F) init_rst (firstn k (enc_shb sec))).
  rewrite E. cbn [snd fst run_d cls_of]. repeat split; reflexivity.
Qed.
