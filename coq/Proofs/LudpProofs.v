(* Lemmas about the UDP codec model (Model/LudpModel.v). *)
From GP Require Import Base ListX Codec Lip4Model LudpModel.
From Coq Require Import Lia ZifyBool ZifyNat.
Open Scope Z_scope.
Ltac Zify.zify_post_hook ::= Z.div_mod_to_equations.

Lemma ubind_ok {A} (v : A) st tr f : ubind (Ok v) st tr f = f v.
Proof. reflexivity. Qed.

(* ------------------------------------------------------------------ C19 *)
Lemma udp_decode_no_panic old data : is_panic (snd (fst (udp_decode_into old data))) = false.
Proof.
  unfold udp_decode_into. cbv zeta.
  destruct (zlen data <? 8) eqn:Hn; [reflexivity|].
  rewrite !cd_rd16_ok by lia. rewrite (cd_slc_ok data 0 2), (cd_slc_ok data 2 4), (cd_slc_ok data 0 8) by lia. cbn [ubind].
  match goal with |- context [?x >=? 8] => set (len := x) end.
  destruct (len >=? 8) eqn:A.
  - destruct (len >? zlen data) eqn:B; rewrite cd_slc_ok by lia; reflexivity.
  - destruct (len =? 0); [|reflexivity]. rewrite cd_slc_ok by lia. reflexivity.
Qed.

(* ------------------------------------------------------------------ C05 *)
Ltac ustep :=
  match goal with
  | |- context [ubind ?o _ _ _] => destruct o eqn:?; cbn [ubind]
  | |- context [if ?c then _ else _] => destruct c eqn:?
  end.

Lemma udp_decode_fresh old data :
  let r1 := udp_decode_into old data in
  let r2 := udp_decode_into udp_fresh data in
  snd (fst r1) = snd (fst r2) /\ snd r1 = snd r2 /\
  (snd (fst r1) = Ok tt -> fst (fst r1) = fst (fst r2)).
Proof.
  cbv zeta. unfold udp_decode_into. cbv zeta.
  repeat (ustep; try solve [cbn [fst snd]; split; [reflexivity | split; [reflexivity | try (intros X; discriminate X); try reflexivity]]]).
  all: cbn [fst snd]; split; [reflexivity | split; [reflexivity | intros _; reflexivity]].
Qed.

(* ------------------------------------------------------------------ C01 *)
Lemma ucd_slc_len l a b v : cd_slc l a b = Ok v -> zlen v = b - a.
Proof.
  unfold cd_slc. destruct (0 <=? a) eqn:A, (a <=? b) eqn:B, (b <=? zlen l) eqn:C; cbn; try discriminate.
  intros E; inversion E. unfold zlen in *. rewrite slice_length by lia. lia.
Qed.

Lemma udp_decode_render old data :
  udp_render_panics old = false -> udp_render_panics (fst (fst (udp_decode_into old data))) = false.
Proof.
  intros H. unfold udp_decode_into. cbv zeta.
  repeat (ustep; try solve [cbn; exact H]).
  all: cbn [fst snd]; unfold udp_render_panics; cbn [u_sp u_dp];
    repeat match goal with E : cd_slc _ _ _ = Ok _ |- _ => apply ucd_slc_len in E end; lia.
Qed.

(* ------------------------------------------------------------------ serialization = junk-free spec *)
Definition udp_hdr (l : udp) (ck : Z) : list Z :=
  cd_put16 (u_sport l) ++ cd_put16 (u_dport l) ++ cd_put16 (u_length l) ++ cd_put16 ck.

Definition udp_fix (l : udp) (payload : list Z) (fixl : bool) (ph : pseudo) : udp :=
  let jumbo := match ph with PH6 _ _ => zlen payload + 8 >? 65535 | _ => false end in
  if fixl then udp_set_len l (if jumbo then 0 else (zlen payload mod 65536 + 8) mod 65536) else l.

Definition udp_emit (c : Z) : Z := let f := cd_fold c in if f =? 0 then 65535 else f.

Definition udp_ser_spec (l : udp) (payload : list Z) (fixl csum : bool) (ph : pseudo) : outcome (list Z) * udp :=
  let l1 := udp_fix l payload fixl ph in
  if csum then
    match udp_compute_checksum ph (udp_hdr l1 0 ++ payload) with
    | Ok c => (Ok (udp_hdr l1 (udp_emit c) ++ payload), udp_set_csum l1 (udp_emit c))
    | Err c => (Err c, l1)
    | Panic s => (Panic s, l1)
    end
  else (Ok (udp_hdr l1 (u_csum l1) ++ payload), udp_set_csum l1 (u_csum l1)).

Lemma udp_wrc_ok b i vs : 0 <= i -> i + zlen vs <= zlen b -> udp_wrc b i vs = Ok (cd_wr b i vs).
Proof. intros. unfold udp_wrc. destruct (0 <=? i) eqn:A, (i + zlen vs <=? zlen b) eqn:B; try reflexivity; lia. Qed.

Lemma list8 (h : list Z) : zlen h = 8 -> exists a0 a1 a2 a3 a4 a5 a6 a7, h = [a0;a1;a2;a3;a4;a5;a6;a7].
Proof.
  unfold zlen. intros H. do 8 (destruct h as [|? h]; [cbn in H; lia|]). destruct h; [|cbn in H; lia].
  repeat eexists.
Qed.

Lemma uzlen1 (x : Z) : zlen [x] = 1. Proof. reflexivity. Qed.
Lemma uzlen_put16 x : zlen (cd_put16 x) = 2. Proof. reflexivity. Qed.

Lemma udp_serialize_spec l payload fixl csum ph junk :
  udp_serialize l payload fixl csum ph junk = udp_ser_spec l payload fixl csum ph.
Proof.
  unfold udp_serialize, udp_ser_spec. cbv zeta. fold (udp_fix l payload fixl ph).
  set (l1 := udp_fix l payload fixl ph).
  pose proof (cd_region_length 8 junk ltac:(lia)) as Hlen.
  destruct (list8 _ Hlen) as [a0 [a1 [a2 [a3 [a4 [a5 [a6 [a7 E]]]]]]]]. rewrite E in *. clear E.
  do 3 (rewrite udp_wrc_ok by (rewrite ?cd_wr_length, ?uzlen_put16, ?uzlen1; lia); cbn [obind]).
  destruct csum.
  - do 2 (rewrite udp_wrc_ok by (rewrite ?cd_wr_length, ?uzlen_put16, ?uzlen1; lia); cbn [obind]).
    unfold cd_wr at 1 2 3 4 5.
    change (Z.to_nat 0) with 0%nat; change (Z.to_nat 2) with 2%nat; change (Z.to_nat 4) with 4%nat;
    change (Z.to_nat 6) with 6%nat; change (Z.to_nat 7) with 7%nat.
    cbn [cd_put16 upd_range upd].
    change (udp_hdr l1 0) with (cd_put16 (u_sport l1) ++ cd_put16 (u_dport l1) ++ cd_put16 (u_length l1) ++ [0;0]).
    cbn [cd_put16 app].
    destruct (udp_compute_checksum ph _) as [c| |]; cbn [obind]; reflexivity.
  - rewrite udp_wrc_ok by (rewrite ?cd_wr_length, ?uzlen_put16, ?uzlen1; lia). cbn [obind].
    unfold cd_wr.
    change (Z.to_nat 0) with 0%nat; change (Z.to_nat 2) with 2%nat; change (Z.to_nat 4) with 4%nat;
    change (Z.to_nat 6) with 6%nat.
    unfold udp_hdr. cbn [cd_put16 app upd_range upd]. reflexivity.
Qed.

Lemma udp_serialize_junk_free l payload fixl csum ph junk1 junk2 :
  udp_serialize l payload fixl csum ph junk1 = udp_serialize l payload fixl csum ph junk2.
Proof. rewrite !udp_serialize_spec. reflexivity. Qed.

Lemma udp_pseudo_no_panic ph : is_panic (udp_pseudo_sum ph) = false.
Proof.
  destruct ph as [|s d|s d]; cbn [udp_pseudo_sum]; [reflexivity| |].
  - destruct (ip4_to4 s); [|reflexivity]. destruct (ip4_to4 d); reflexivity.
  - destruct ((zlen s =? 16) && (zlen d =? 16)); reflexivity.
Qed.

Lemma udp_compute_no_panic ph hp : is_panic (udp_compute_checksum ph hp) = false.
Proof.
  unfold udp_compute_checksum. pose proof (udp_pseudo_no_panic ph).
  destruct (udp_pseudo_sum ph); cbn in *; auto.
Qed.

Lemma udp_serialize_no_panic l payload fixl csum ph junk :
  is_panic (fst (udp_serialize l payload fixl csum ph junk)) = false.
Proof.
  rewrite udp_serialize_spec. unfold udp_ser_spec. cbv zeta. destruct csum; [|reflexivity].
  match goal with |- context [udp_compute_checksum ?p ?h] => pose proof (udp_compute_no_panic p h) as NP;
    destruct (udp_compute_checksum p h) end; cbn in *; auto.
Qed.

(* ------------------------------------------------------------------ C06 round trip *)
Lemma udp_pseudo_range ph c : udp_pseudo_sum ph = Ok c -> 0 <= c < 4294967296.
Proof.
  destruct ph as [|s d|s d]; cbn [udp_pseudo_sum]; [discriminate| |].
  - destruct (ip4_to4 s); [|discriminate]. destruct (ip4_to4 d); [|discriminate].
    intros E; inversion E. unfold u32. lia.
  - destruct ((zlen s =? 16) && (zlen d =? 16)); [|discriminate]. intros E; inversion E. unfold u32. lia.
Qed.

Lemma udp_compute_range ph hp c : udp_compute_checksum ph hp = Ok c -> 0 <= c < 4294967296.
Proof.
  unfold udp_compute_checksum. destruct (udp_pseudo_sum ph) as [c0| |] eqn:E; cbn [obind]; try discriminate.
  intros H; inversion H. apply cd_csum_range. unfold u32. lia.
Qed.

Lemma udp_emit_range c : 0 <= c < 4294967296 -> 0 < udp_emit c < 65536.
Proof. intros H. pose proof (cd_fold_range c H). unfold udp_emit. cbv zeta. destruct (cd_fold c =? 0) eqn:E; lia. Qed.

Definition udp_in_range (l : udp) (payload : list Z) (ph : pseudo) : Prop :=
  0 <= u_sport l < 65536 /\ 0 <= u_dport l < 65536 /\
  (zlen payload + 8 <= 65535 \/ exists s d, ph = PH6 s d).

Lemma slice_hdr_payload (h p : list Z) n : n = length h ->
  slice (h ++ p) n (n + length p) = p.
Proof.
  intros ->. unfold slice. rewrite <- app_length. rewrite firstn_all. rewrite skipn_app.
  rewrite skipn_all. rewrite Nat.sub_diag. reflexivity.
Qed.

Lemma slice8 (a0 a1 a2 a3 a4 a5 a6 a7 : Z) p :
  slice (a0 :: a1 :: a2 :: a3 :: a4 :: a5 :: a6 :: a7 :: p) 8 (8 + length p) = p.
Proof. apply (slice_hdr_payload [a0;a1;a2;a3;a4;a5;a6;a7] p 8 eq_refl). Qed.

Lemma zlen_nonneg_u (a : list Z) : 0 <= zlen a.
Proof. unfold zlen. lia. Qed.

Lemma udp_decode_hdr sport dport len ck payload old :
  0 <= sport < 65536 -> 0 <= dport < 65536 -> 0 <= len < 65536 -> 0 <= ck < 65536 ->
  (len = zlen payload + 8 \/ len = 0) ->
  udp_decode_into old (cd_put16 sport ++ cd_put16 dport ++ cd_put16 len ++ cd_put16 ck ++ payload) =
  (mkUdp (cd_put16 sport ++ cd_put16 dport ++ cd_put16 len ++ cd_put16 ck) payload sport dport len ck
         (cd_put16 sport) (cd_put16 dport), Ok tt, false).
Proof.
  intros Hs Hd Hl Hc Hlen. unfold udp_decode_into. cbv zeta. cbn [cd_put16 app].
  match goal with |- context [zlen ?d <? 8] => set (data := d) end.
  assert (Hn : zlen data = 8 + zlen payload) by (unfold data, zlen; cbn [length]; lia).
  pose proof (zlen_nonneg_u payload) as Hp.
  destruct (zlen data <? 8) eqn:A; [lia|].
  rewrite !cd_rd16_ok by lia. rewrite (cd_slc_ok data 0 2), (cd_slc_ok data 2 4), (cd_slc_ok data 0 8) by lia. cbn [ubind].
  change (Z.to_nat (0 + 1)) with 1%nat; change (Z.to_nat (2 + 1)) with 3%nat; change (Z.to_nat (4 + 1)) with 5%nat;
  change (Z.to_nat (6 + 1)) with 7%nat; change (Z.to_nat 0) with 0%nat; change (Z.to_nat 2) with 2%nat;
  change (Z.to_nat 4) with 4%nat; change (Z.to_nat 6) with 6%nat; change (Z.to_nat 8) with 8%nat.
  subst data. cbn [nth slice firstn skipn].
  rewrite !cd_put16_be by lia.
  match goal with |- context [zlen ?d] => set (data := d) in * end.
  destruct (len >=? 8) eqn:B.
  - destruct Hlen as [Hlen|Hlen]; [|lia].
    destruct (len >? zlen data) eqn:C; [lia|].
    rewrite cd_slc_ok by lia. rewrite ubind_ok.
    replace (Z.to_nat len) with (8 + length payload)%nat by (unfold zlen in *; lia).
    change (Z.to_nat 8) with 8%nat. subst data. rewrite slice8. reflexivity.
  - destruct Hlen as [Hlen|Hlen]; [lia|]. subst len. cbn [Z.eqb].
    rewrite cd_slc_ok by lia. rewrite ubind_ok.
    replace (Z.to_nat (zlen data)) with (8 + length payload)%nat by (unfold zlen in *; lia).
    change (Z.to_nat 8) with 8%nat. subst data. rewrite slice8. reflexivity.
Qed.

Lemma udp_fix_len l payload ph :
  (zlen payload + 8 <= 65535 \/ exists s d, ph = PH6 s d) ->
  let l1 := udp_fix l payload true ph in
  u_sport l1 = u_sport l /\ u_dport l1 = u_dport l /\ 0 <= u_length l1 < 65536 /\
  (u_length l1 = zlen payload + 8 \/ u_length l1 = 0).
Proof.
  intros H. pose proof (zlen_nonneg_u payload). cbv zeta. unfold udp_fix. cbv zeta. cbn [udp_set_len u_sport u_dport u_length].
  split; [reflexivity|]. split; [reflexivity|].
  destruct ph as [|s d|s d].
  - destruct H as [H|[s [d H]]]; [|discriminate]. lia.
  - destruct H as [H|[s' [d' H]]]; [|discriminate]. lia.
  - destruct (zlen payload + 8 >? 65535) eqn:E; lia.
Qed.

Lemma udp_roundtrip l payload csum ph junk bytes l' old :
  udp_in_range l payload ph -> (csum = true \/ 0 <= u_csum l < 65536) ->
  udp_serialize l payload true csum ph junk = (Ok bytes, l') ->
  bytes = udp_hdr l' (u_csum l') ++ payload /\
  u_sport l' = u_sport l /\ u_dport l' = u_dport l /\
  udp_decode_into old bytes =
    (mkUdp (udp_hdr l' (u_csum l')) payload (u_sport l') (u_dport l') (u_length l') (u_csum l')
           (cd_put16 (u_sport l')) (cd_put16 (u_dport l')), Ok tt, false).
Proof.
  intros [Hs [Hd Hr]] Hc. rewrite udp_serialize_spec. unfold udp_ser_spec. cbv zeta.
  pose proof (udp_fix_len l payload ph Hr) as F. cbv zeta in F.
  set (l1 := udp_fix l payload true ph) in *. destruct F as [F1 [F2 [F3 F4]]].
  assert (G : forall ck, 0 <= ck < 65536 ->
     udp_decode_into old (udp_hdr l1 ck ++ payload) =
     (mkUdp (udp_hdr l1 ck) payload (u_sport l1) (u_dport l1) (u_length l1) ck
            (cd_put16 (u_sport l1)) (cd_put16 (u_dport l1)), Ok tt, false)).
  { intros ck Hck. unfold udp_hdr. rewrite <- !app_assoc. apply udp_decode_hdr; lia. }
  destruct csum.
  - destruct (udp_compute_checksum ph (udp_hdr l1 0 ++ payload)) as [c| |] eqn:E; try discriminate.
    intros X; inversion X; subst. clear X.
    pose proof (udp_emit_range c (udp_compute_range _ _ _ E)) as R.
    cbn [udp_set_csum u_sport u_dport u_length u_csum].
    split; [reflexivity|]. split; [exact F1|]. split; [exact F2|]. apply G. lia.
  - destruct Hc as [Hc|Hc]; [discriminate|].
    intros X; inversion X; subst. clear X.
    cbn [udp_set_csum u_sport u_dport u_length u_csum].
    assert (Ec : u_csum l1 = u_csum l) by (unfold l1, udp_fix; cbv zeta; reflexivity).
    split; [reflexivity|]. split; [exact F1|]. split; [exact F2|]. apply G. lia.
Qed.

Lemma udp_ser_fields a b payload ph :
  u_sport a = u_sport b -> u_dport a = u_dport b ->
  fst (udp_ser_spec a payload true true ph) = fst (udp_ser_spec b payload true true ph).
Proof.
  intros H1 H2. unfold udp_ser_spec, udp_fix, udp_hdr. cbv zeta. cbn [udp_set_len u_sport u_dport u_length].
  rewrite H1, H2. destruct (udp_compute_checksum ph _); reflexivity.
Qed.

Lemma udp_fixpoint l payload ph junk junk' bytes l' d :
  udp_serialize l payload true true ph junk = (Ok bytes, l') ->
  u_sport d = u_sport l -> u_dport d = u_dport l ->
  fst (udp_serialize d payload true true ph junk') = Ok bytes.
Proof.
  intros H H1 H2. rewrite udp_serialize_spec in *. rewrite (udp_ser_fields d l payload ph H1 H2). rewrite H. reflexivity.
Qed.
