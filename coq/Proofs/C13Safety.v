(* C13: basic lemmas about the model (map, arithmetic), the frame lemma, discard, and the
   safety theorem: a returned datagram contains only bytes that an accepted fragment of the
   same key placed at that offset -- for ANY sequence of operations. *)
From GP Require Import Base C13Model.
From Coq Require Import Lia ZifyBool ZifyNat.
Open Scope Z_scope.

Lemma u16_small x : 0 <= x < 65536 -> u16 x = x.
Proof. intros H. unfold u16. apply Z.mod_small. lia. Qed.

(* ---------------------------------------------------------------- keys and the map *)
Lemma key_eqb_eq a b : key_eqb a b = true <-> a = b.
Proof.
  destruct a as [[a1 a2] a3], b as [[b1 b2] b3]. unfold key_eqb. split.
  - intros H. apply andb_prop in H as [H H3]. apply andb_prop in H as [H1 H2].
    apply Z.eqb_eq in H1, H2, H3. congruence.
  - intros H. inversion H; subst. rewrite !Z.eqb_refl. reflexivity.
Qed.

Lemma key_eqb_refl a : key_eqb a a = true.
Proof. apply key_eqb_eq. reflexivity. Qed.

Lemma key_eqb_neq a b : a <> b -> key_eqb a b = false.
Proof. intros H. destruct (key_eqb a b) eqn:E; [|reflexivity]. apply key_eqb_eq in E. contradiction. Qed.

Lemma lookup_remove_same k st : lookup k (remove k st) = None.
Proof.
  induction st as [|[k' fl] r IH]; cbn [remove lookup]; [reflexivity|].
  destruct (key_eqb k k') eqn:E; [exact IH|]. cbn [lookup]. rewrite E. exact IH.
Qed.

Lemma lookup_remove_other k k' st : k <> k' -> lookup k' (remove k st) = lookup k' st.
Proof.
  intros Hn. induction st as [|[k2 fl] r IH]; cbn [remove lookup]; [reflexivity|].
  destruct (key_eqb k k2) eqn:E.
  - apply key_eqb_eq in E. subst k2. rewrite (key_eqb_neq k' k) by congruence. exact IH.
  - cbn [lookup]. rewrite IH. reflexivity.
Qed.

Lemma lookup_set_same k fl st : lookup k (set k fl st) = Some fl.
Proof. unfold set. cbn [lookup]. rewrite key_eqb_refl. reflexivity. Qed.

Lemma lookup_set_other k k' fl st : k <> k' -> lookup k' (set k fl st) = lookup k' st.
Proof.
  intros Hn. unfold set. cbn [lookup]. rewrite (key_eqb_neq k' k) by congruence.
  apply lookup_remove_other. exact Hn.
Qed.

Lemma lookup_In k st fl : lookup k st = Some fl -> In (k, fl) st.
Proof.
  induction st as [|[k' fl'] r IH]; cbn [lookup]; [discriminate|].
  destruct (key_eqb k k') eqn:E.
  - intros H. inversion H; subst. apply key_eqb_eq in E. subst. left. reflexivity.
  - intros H. right. apply IH. exact H.
Qed.

Lemma In_remove k k' fl st : In (k', fl) (remove k st) -> In (k', fl) st /\ k' <> k.
Proof.
  induction st as [|[k2 fl2] r IH]; cbn [remove]; [intros []|].
  destruct (key_eqb k k2) eqn:E.
  - intros H. destruct (IH H). split; [right; assumption|assumption].
  - intros [H|H].
    + inversion H; subst. split; [left; reflexivity|]. intros ->. rewrite key_eqb_refl in E. discriminate.
    + destruct (IH H). split; [right; assumption|assumption].
Qed.

(* the keys of the map are pairwise distinct *)
Definition keys_unique (st : state) : Prop := NoDup (map fst st).

Lemma remove_keys k st : forall k', In k' (map fst (remove k st)) -> In k' (map fst st) /\ k' <> k.
Proof.
  intros k' H. apply in_map_iff in H as [[k2 fl] [H1 H2]]. cbn in H1. subst k2.
  apply In_remove in H2 as [H2 H3]. split; [|exact H3]. apply in_map_iff. exists (k', fl). auto.
Qed.

Lemma keys_unique_remove k st : keys_unique st -> keys_unique (remove k st).
Proof.
  unfold keys_unique. induction st as [|[k' fl] r IH]; cbn [remove map fst]; [auto|].
  intros H. inversion H as [|? ? Hni Hnd]; subst.
  destruct (key_eqb k k'); [auto|]. cbn [map fst]. constructor; [|auto].
  intros Hin. apply remove_keys in Hin as [Hin _]. contradiction.
Qed.

Lemma keys_unique_set k fl st : keys_unique st -> keys_unique (set k fl st).
Proof.
  intros H. unfold set, keys_unique. cbn [map fst]. constructor.
  - intros Hin. apply remove_keys in Hin as [_ Hn]. congruence.
  - apply keys_unique_remove. exact H.
Qed.

Lemma lookup_unique k fl st : keys_unique st -> In (k, fl) st -> lookup k st = Some fl.
Proof.
  unfold keys_unique. induction st as [|[k' fl'] r IH]; cbn [map fst lookup]; [intros _ []|].
  intros H Hin. inversion H as [|? ? Hni Hnd]; subst. destruct Hin as [Hin|Hin].
  - inversion Hin; subst. rewrite key_eqb_refl. reflexivity.
  - destruct (key_eqb k k') eqn:E.
    + apply key_eqb_eq in E. subst k'. exfalso. apply Hni. apply in_map_iff. exists (k, fl). auto.
    + apply IH; assumption.
Qed.

(* ---------------------------------------------------------------- the frame lemma *)
(* an operation on one key leaves the fragment list of every other key untouched *)
Lemma defrag4_frame v st f t st' r k :
  defrag4 v st f t = (st', r) -> k <> key_of f -> lookup k st' = lookup k st.
Proof.
  intros H Hk. unfold defrag4 in H.
  destruct (dont_defrag f); [inversion H; reflexivity|].
  destruct (negb (security_ok v f)); [inversion H; reflexivity|].
  destruct (insert v _ f t) as [fl' r0].
  assert (Hr : lookup k (remove (key_of f) st) = lookup k st) by (apply lookup_remove_other; congruence).
  assert (Hs : lookup k (set (key_of f) fl' st) = lookup k st) by (apply lookup_set_other; congruence).
  destruct r0; try (destruct (max_list_len <? _)); inversion H; subst; assumption.
Qed.

Lemma defrag4_keys_unique v st f t st' r :
  defrag4 v st f t = (st', r) -> keys_unique st -> keys_unique st'.
Proof.
  intros H Hu. unfold defrag4 in H.
  destruct (dont_defrag f); [inversion H; subst; exact Hu|].
  destruct (negb (security_ok v f)); [inversion H; subst; exact Hu|].
  destruct (insert v _ f t) as [fl' r0].
  pose proof (keys_unique_remove (key_of f) st Hu) as Hr.
  pose proof (keys_unique_set (key_of f) fl' st Hu) as Hs.
  destruct r0; try (destruct (max_list_len <? _)); inversion H; subst; assumption.
Qed.

(* ---------------------------------------------------------------- discard *)
Lemma filter_keys_unique (p : key * fraglist -> bool) st : keys_unique st -> keys_unique (filter p st).
Proof.
  unfold keys_unique. induction st as [|e r IH]; cbn [filter map]; [auto|].
  intros H. inversion H as [|? ? Hni Hnd]; subst.
  destruct (p e); [|auto]. cbn [map]. constructor; [|auto].
  intros Hin. apply Hni. apply in_map_iff in Hin as [e' [H1 H2]]. apply filter_In in H2 as [H2 _].
  apply in_map_iff. exists e'. auto.
Qed.

Lemma discard4_lookup st t k :
  keys_unique st ->
  lookup k (fst (discard4 st t)) =
  match lookup k st with
  | Some fl => if fl_seen fl <? t then None else Some fl
  | None => None
  end.
Proof.
  unfold discard4. cbn [fst]. unfold keys_unique.
  induction st as [|[k' fl] r IH]; cbn [filter lookup map fst snd]; [reflexivity|].
  intros H. inversion H as [|? ? Hni Hnd]; subst.
  destruct (key_eqb k k') eqn:E.
  - apply key_eqb_eq in E. subst k'.
    destruct (fl_seen fl <? t) eqn:Et; cbn [negb lookup].
    + rewrite IH by assumption.
      destruct (lookup k r) eqn:El; [|reflexivity].
      exfalso. apply Hni. apply lookup_In in El. apply in_map_iff. exists (k, f). auto.
    + rewrite key_eqb_refl. reflexivity.
  - destruct (negb (fl_seen fl <? t)); cbn [lookup]; [rewrite E|]; apply IH; assumption.
Qed.

Lemma discard4_count st t :
  snd (discard4 st t) = Z.of_nat (length st) - Z.of_nat (length (fst (discard4 st t))).
Proof.
  unfold discard4. cbn [fst snd].
  induction st as [|e r IH]; cbn [filter length]; [reflexivity|].
  destruct (fl_seen (snd e) <? t); cbn [negb length]; lia.
Qed.

(* ---------------------------------------------------------------- accepted fragments *)
(* ranges that the Go types guarantee (uint8 / uint16 fields are not negative) *)
Definition wf_frag (f : frag) : Prop := 0 <= f_ihl f /\ 0 <= f_off f.
Definition accepted (f : frag) : Prop :=
  dont_defrag f = false /\ security_ok fixedv f = true /\ wf_frag f.

Lemma sec_facts f :
  security_ok fixedv f = true -> wf_frag f ->
  0 <= f_len f - 4 * f_ihl f /\ f_off f <= 8183 /\ 8 * f_off f + f_len f <= 65535.
Proof.
  unfold security_ok, wf_frag. cbn [v_sec fixedv]. intros H [Hi Ho].
  destruct (f_len f - f_ihl f * 4 <? 0) eqn:E1; [discriminate|].
  destruct (has_mf f && (f_len f - f_ihl f * 4 <? 8)); [discriminate|].
  destruct (8183 <? f_off f) eqn:E2; [discriminate|].
  destruct (65535 <? f_off f * 8 + f_len f) eqn:E3; [discriminate|].
  lia.
Qed.

Lemma frag_len_fixed f :
  security_ok fixedv f = true -> wf_frag f -> frag_len fixedv f = f_len f - 4 * f_ihl f.
Proof.
  intros Hs Hw. pose proof (sec_facts f Hs Hw) as [H1 [H2 H3]]. destruct Hw as [Hi Ho].
  unfold frag_len. cbn [v_ihl fixedv]. rewrite (u16_small (f_ihl f * 4)) by lia.
  rewrite u16_small by lia. lia.
Qed.

Lemma frag_off_fixed f :
  security_ok fixedv f = true -> wf_frag f -> frag_off f = 8 * f_off f.
Proof.
  intros Hs Hw. pose proof (sec_facts f Hs Hw) as [H1 [H2 H3]]. destruct Hw as [Hi Ho].
  unfold frag_off. rewrite u16_small by lia. lia.
Qed.

(* byte b sits at payload offset x of the datagram according to fragment g *)
Definition placed (g : frag) (x : Z) (b : Z) : Prop :=
  exists i : nat, 8 * f_off g + Z.of_nat i = x /\ nth_error (f_payload g) i = Some b.

Lemma nth_error_app_case {A} (l1 l2 : list A) i x :
  nth_error (l1 ++ l2) i = Some x ->
  (i < length l1)%nat /\ nth_error l1 i = Some x \/
  (length l1 <= i)%nat /\ nth_error l2 (i - length l1) = Some x.
Proof.
  intros H. destruct (Nat.lt_ge_cases i (length l1)) as [Hl|Hl].
  - left. split; [exact Hl|]. rewrite nth_error_app1 in H; assumption.
  - right. split; [exact Hl|]. rewrite nth_error_app2 in H; assumption.
Qed.

Lemma nth_error_skipn' {A} (l : list A) a i : nth_error (skipn a l) i = nth_error l (a + i).
Proof.
  revert l; induction a as [|a IH]; intros l; cbn; [reflexivity|].
  destruct l as [|h t]; cbn; [destruct i; reflexivity|apply IH].
Qed.

Lemma ok_pair_inj {A B} (a c : A) (b d : B) : @Ok (A * B) (a, b) = Ok (c, d) -> a = c /\ b = d.
Proof. intros H. inversion H. auto. Qed.

(* the loop of build appends, at running offset cur, only bytes that a fragment of the list
   carries for that offset *)
Lemma build_walk_placed l : forall cur bytes c,
  (forall g, In g l -> security_ok fixedv g = true /\ wf_frag g) ->
  0 <= cur <= 65535 ->
  build_walk fixedv l cur = Ok (bytes, c) ->
  (c = cur + Z.of_nat (length bytes) /\ c <= 65535) /\
  forall (x : nat) b, nth_error bytes x = Some b -> exists g, In g l /\ placed g (cur + Z.of_nat x) b.
Proof.
  induction l as [|g r IH]; intros cur bytes c Hacc Hcur H.
  - cbn in H. inversion H; subst. split; [cbn; lia|]. intros x b Hx. destruct x; discriminate.
  - cbn [build_walk] in H. cbn [v_trunc v_ovl fixedv andb] in H.
    destruct (Hacc g (or_introl eq_refl)) as [Hs Hw].
    pose proof (sec_facts g Hs Hw) as [F1 [F2 F3]].
    rewrite (frag_len_fixed g Hs Hw), (frag_off_fixed g Hs Hw) in H.
    assert (Hr : forall g', In g' r -> security_ok fixedv g' = true /\ wf_frag g')
      by (intros g' Hg; apply Hacc; right; exact Hg).
    destruct (negb (plen g =? f_len g - f_ihl g * 4)) eqn:Et; [discriminate|].
    assert (Hpl : plen g = f_len g - 4 * f_ihl g) by lia.
    destruct Hw as [Hi Ho]. unfold plen in Hpl, H.
    destruct (8 * f_off g =? cur) eqn:E1.
    + assert (Hc : cur = 8 * f_off g) by lia.
      rewrite (u16_small (cur + _)) in H by lia.
      destruct (build_walk fixedv r (cur + (f_len g - 4 * f_ihl g))) as [[rest c']| |] eqn:Eb; try discriminate.
      apply ok_pair_inj in H as [Hbytes Hcc]; subst bytes c.
      assert (Hb : 0 <= cur + (f_len g - 4 * f_ihl g) <= 65535) by lia.
      destruct (IH _ _ _ Hr Hb Eb) as [[Hceq Hle] Hpl'].
      split; [rewrite app_length; lia|].
      intros x b Hx. apply nth_error_app_case in Hx as [[Hl Hx]|[Hl Hx]].
      * exists g. split; [left; reflexivity|]. exists x. split; [lia|exact Hx].
      * destruct (Hpl' _ _ Hx) as [g' [Hin Hp]]. exists g'. split; [right; exact Hin|].
        replace (cur + Z.of_nat x) with (cur + (f_len g - 4 * f_ihl g) + Z.of_nat (x - length (f_payload g))) by lia.
        exact Hp.
    + destruct (8 * f_off g <? cur) eqn:E2; [|discriminate].
      rewrite (u16_small (cur - 8 * f_off g)) in H by lia.
      destruct (f_len g - 4 * f_ihl g <? cur - 8 * f_off g) eqn:E3; [discriminate|].
      destruct (Z.of_nat (length (f_payload g)) <? cur - 8 * f_off g) eqn:E4; [discriminate|].
      rewrite (u16_small (8 * f_off g + _)) in H by lia.
      destruct (build_walk fixedv r (8 * f_off g + (f_len g - 4 * f_ihl g))) as [[rest c']| |] eqn:Eb; try discriminate.
      apply ok_pair_inj in H as [Hbytes Hcc]; subst bytes c.
      assert (Hb : 0 <= 8 * f_off g + (f_len g - 4 * f_ihl g) <= 65535) by lia.
      destruct (IH _ _ _ Hr Hb Eb) as [[Hceq Hle] Hpl'].
      assert (Hsk : length (skipn (Z.to_nat (cur - 8 * f_off g)) (f_payload g)) =
                    (length (f_payload g) - Z.to_nat (cur - 8 * f_off g))%nat) by apply skipn_length.
      split; [rewrite app_length; lia|].
      intros x b Hx. apply nth_error_app_case in Hx as [[Hl Hx]|[Hl Hx]].
      * exists g. split; [left; reflexivity|]. rewrite nth_error_skipn' in Hx.
        exists (Z.to_nat (cur - 8 * f_off g) + x)%nat. split; [lia|exact Hx].
      * destruct (Hpl' _ _ Hx) as [g' [Hin Hp]]. exists g'. split; [right; exact Hin|].
        replace (cur + Z.of_nat x) with
          (8 * f_off g + (f_len g - 4 * f_ihl g) +
           Z.of_nat (x - length (skipn (Z.to_nat (cur - 8 * f_off g)) (f_payload g)))) by lia.
        exact Hp.
Qed.

(* ---------------------------------------------------------------- insert and build *)
Lemma ins_walk_incl l f : forall l' d, ins_walk l f = (l', d) -> forall g, In g l' -> In g l \/ g = f.
Proof.
  induction l as [|h r IH]; intros l' d H g Hg; cbn [ins_walk] in H.
  - inversion H; subst. destruct Hg.
  - destruct (f_off f =? f_off h).
    + inversion H; subst. left. exact Hg.
    + destruct (f_off f <? f_off h).
      * inversion H; subst. destruct Hg as [Hg|Hg]; [right; congruence|left; exact Hg].
      * destruct (ins_walk r f) as [r' d'] eqn:E. inversion H; subst.
        destruct Hg as [Hg|Hg]; [left; left; exact Hg|].
        destruct (IH _ _ eq_refl g Hg) as [Hi|Hi]; [left; right; exact Hi|right; exact Hi].
Qed.

Lemma insert_list fl f t fl' r :
  insert fixedv fl f t = (fl', r) ->
  (forall g, In g (fl_list fl') -> In g (fl_list fl) \/ g = f) /\
  (forall d, r = RDg d -> build fixedv fl' f = RDg d).
Proof.
  unfold insert. intros H.
  destruct (if fl_highest fl <=? frag_off f then (fl_list fl ++ [f], false) else ins_walk (fl_list fl) f)
    as [l' dup] eqn:El.
  assert (Hl : forall g, In g l' -> In g (fl_list fl) \/ g = f).
  { destruct (fl_highest fl <=? frag_off f).
    - inversion El; subst. intros g Hg. apply in_app_or in Hg as [Hg|[Hg|[]]]; [left; exact Hg|right; congruence].
    - intros g Hg. eapply ins_walk_incl; eassumption. }
  destruct dup.
  - inversion H; subst. split; [intros g Hg; left; exact Hg|intros d Hd; discriminate].
  - match type of H with (if ?c then _ else _) = _ => destruct c end; inversion H; subst; cbn [fl_list];
      (split; [exact Hl|]); intros d Hd; [exact Hd|discriminate].
Qed.

Lemma build_result fl i d :
  (forall g, In g (fl_list fl) -> security_ok fixedv g = true /\ wf_frag g) ->
  build fixedv fl i = RDg d ->
  key_of d = key_of i /\ f_flags d = 0 /\ f_off d = 0 /\ f_ihl d = f_ihl i /\ f_hdr d = f_hdr i /\
  f_len d = 4 * f_ihl d + plen d /\ f_len d <= 65535 /\ plen d = fl_highest fl /\
  forall (x : nat) b, nth_error (f_payload d) x = Some b ->
    exists g, In g (fl_list fl) /\ placed g (Z.of_nat x) b.
Proof.
  intros Hacc H. unfold build in H. cbn [v_ovl v_len fixedv andb] in H.
  destruct (build_walk fixedv (fl_list fl) 0) as [[final cur]| |] eqn:Eb; try discriminate.
  destruct (negb (cur =? fl_highest fl)) eqn:Eh; [discriminate|].
  destruct (65535 <? f_ihl i * 4 + Z.of_nat (length final)) eqn:El; [discriminate|].
  inversion H; subst d. clear H. unfold key_of, plen. cbn [f_src f_dst f_id f_flags f_off f_ihl f_hdr f_len f_payload].
  assert (H0 : 0 <= 0 <= 65535) by lia.
  destruct (build_walk_placed _ _ _ _ Hacc H0 Eb) as [[Hc Hle] Hp].
  repeat split; try reflexivity; try lia.
  intros x b Hx. destruct (Hp x b Hx) as [g [Hin Hpl]]. exists g. split; [exact Hin|exact Hpl].
Qed.

(* ---------------------------------------------------------------- the state invariant for safety *)
(* every stored fragment was handed over before (P), belongs to the key it is filed under, and
   passed the checks *)
Definition SInv (P : frag -> Prop) (st : state) : Prop :=
  forall k fl, In (k, fl) st -> forall g, In g (fl_list fl) -> P g /\ key_of g = k /\ accepted g.

Lemma SInv_weaken (P Q : frag -> Prop) st : (forall g, P g -> Q g) -> SInv P st -> SInv Q st.
Proof. intros HPQ H k fl Hin g Hg. destruct (H k fl Hin g Hg) as [H1 H2]. split; [apply HPQ; exact H1|exact H2]. Qed.

Lemma SInv_remove P k st : SInv P st -> SInv P (remove k st).
Proof. intros H k' fl Hin. apply In_remove in Hin as [Hin _]. apply H. exact Hin. Qed.

Lemma SInv_set P k fl st :
  SInv P st -> (forall g, In g (fl_list fl) -> P g /\ key_of g = k /\ accepted g) -> SInv P (set k fl st).
Proof.
  intros H Hfl k' fl' [Hin|Hin].
  - inversion Hin; subst. exact Hfl.
  - apply In_remove in Hin as [Hin _]. apply H. exact Hin.
Qed.

Lemma SInv_filter P p st : SInv P st -> SInv P (filter p st).
Proof. intros H k fl Hin. apply filter_In in Hin as [Hin _]. apply H. exact Hin. Qed.

Lemma defrag4_safe P st f t st' r :
  SInv P st -> wf_frag f ->
  defrag4 fixedv st f t = (st', r) ->
  SInv (fun g => P g \/ g = f) st' /\
  forall d, r = RDg d ->
    key_of d = key_of f /\ f_flags d = 0 /\ f_off d = 0 /\ f_len d = 4 * f_ihl d + plen d /\ f_len d <= 65535 /\
    forall (x : nat) b, nth_error (f_payload d) x = Some b ->
      exists g, (P g \/ g = f) /\ key_of g = key_of f /\ accepted g /\ placed g (Z.of_nat x) b.
Proof.
  intros Hinv Hwf H. unfold defrag4 in H.
  assert (Hweak : SInv (fun g => P g \/ g = f) st) by (eapply SInv_weaken; [|exact Hinv]; intros g Hg; left; exact Hg).
  destruct (dont_defrag f) eqn:Edd; [inversion H; subst; split; [exact Hweak|intros d Hd; discriminate]|].
  destruct (security_ok fixedv f) eqn:Esec; cbn [negb] in H;
    [|inversion H; subst; split; [exact Hweak|intros d Hd; discriminate]].
  assert (Hacc : accepted f) by (repeat split; try assumption; apply Hwf).
  set (fl := match lookup (key_of f) st with Some fl => fl | None => empty_fl end) in *.
  assert (Hfl : forall g, In g (fl_list fl) -> P g /\ key_of g = key_of f /\ accepted g).
  { subst fl. destruct (lookup (key_of f) st) as [fl0|] eqn:El.
    - apply lookup_In in El. apply Hinv. exact El.
    - intros g []. }
  destruct (insert fixedv fl f t) as [fl' r0] eqn:Ei.
  destruct (insert_list _ _ _ _ _ Ei) as [Hl Hb].
  assert (Hfl' : forall g, In g (fl_list fl') -> (P g \/ g = f) /\ key_of g = key_of f /\ accepted g).
  { intros g Hg. destruct (Hl g Hg) as [Hg'|Hg'].
    - destruct (Hfl g Hg') as [H1 [H2 H3]]. auto.
    - subst g. auto. }
  assert (Hset : SInv (fun g => P g \/ g = f) (set (key_of f) fl' st)) by (apply SInv_set; assumption).
  assert (Hrem : SInv (fun g => P g \/ g = f) (remove (key_of f) st)) by (apply SInv_remove; assumption).
  destruct r0 as [| | | |d0].
  1-4: try (destruct (max_list_len <? _)); inversion H; subst; (split; [assumption|intros d Hd; discriminate]).
  inversion H; subst. split; [exact Hrem|]. intros d Hd. inversion Hd; subst d0.
  assert (Hsw : forall g, In g (fl_list fl') -> security_ok fixedv g = true /\ wf_frag g).
  { intros g Hg. destruct (Hfl' g Hg) as [_ [_ [_ [Hs Hw]]]]. auto. }
  destruct (build_result fl' f d Hsw (Hb d eq_refl)) as [K [Hf [Ho [_ [_ [Hlen [Hle [_ Hp]]]]]]]].
  repeat split; try assumption.
  intros x b Hx. destruct (Hp x b Hx) as [g [Hin Hpl]]. exists g.
  destruct (Hfl' g Hin) as [H1 [H2 H3]]. auto.
Qed.

(* ---------------------------------------------------------------- safety over runs *)
Definition op_wf (o : op4) : Prop := match o with OFrag f _ => wf_frag f | ODiscard _ => True end.

Lemma run4_cons v st o r :
  run4 v st (o :: r) =
  (fst (run4 v (fst (step4 v st o)) r), snd (step4 v st o) :: snd (run4 v (fst (step4 v st o)) r)).
Proof.
  cbn [run4]. destruct (step4 v st o) as [st1 x]. cbn [fst snd]. destruct (run4 v st1 r) as [st2 xs]. reflexivity.
Qed.

Lemma run4_safety_gen ops : forall st (P : frag -> Prop),
  SInv P st -> Forall op_wf ops ->
  forall n d, nth_error (snd (run4 fixedv st ops)) n = Some (Res (RDg d)) ->
  f_flags d = 0 /\ f_off d = 0 /\ f_len d = 4 * f_ihl d + plen d /\ f_len d <= 65535 /\
  forall (x : nat) b, nth_error (f_payload d) x = Some b ->
    exists g, (P g \/ exists t, In (OFrag g t) (firstn (S n) ops)) /\
              key_of g = key_of d /\ accepted g /\ placed g (Z.of_nat x) b.
Proof.
  induction ops as [|o r IH]; intros st P Hinv Hwf n d Hn.
  - cbn in Hn. destruct n; discriminate.
  - rewrite run4_cons in Hn. cbn [snd] in Hn. inversion Hwf as [|? ? Hwo Hwr]; subst.
    destruct o as [f t|t].
    + cbn [step4] in Hn. destruct (defrag4 fixedv st f t) as [st1 r1] eqn:Ed. cbn [fst snd] in Hn.
      destruct (defrag4_safe P st f t st1 r1 Hinv Hwo Ed) as [Hinv1 Hres].
      destruct n as [|n].
      * cbn in Hn. inversion Hn; subst r1.
        destruct (Hres d eq_refl) as [K [Hf [Ho [Hlen [Hle Hp]]]]].
        repeat split; try assumption. intros x b Hx.
        destruct (Hp x b Hx) as [g [[Hg|Hg] [Hk [Ha Hpl]]]]; exists g.
        -- split; [left; exact Hg|]. split; [congruence|auto].
        -- subst g. split; [right; exists t; left; reflexivity|]. split; [congruence|auto].
      * cbn [nth_error] in Hn.
        destruct (IH st1 _ Hinv1 Hwr n d Hn) as [Hf [Ho [Hlen [Hle Hp]]]].
        repeat split; try assumption. intros x b Hx.
        destruct (Hp x b Hx) as [g [[[Hg|Hg]|[t' Hg]] [Hk [Ha Hpl]]]]; exists g; (split; [|auto]).
        -- left. exact Hg.
        -- subst g. right. exists t. left. reflexivity.
        -- right. exists t'. right. exact Hg.
    + cbn [step4] in Hn. destruct (discard4 st t) as [st1 c] eqn:Ed. cbn [fst snd] in Hn.
      assert (Hinv1 : SInv P st1).
      { unfold discard4 in Ed. inversion Ed; subst. apply SInv_filter. exact Hinv. }
      destruct n as [|n]; [cbn in Hn; discriminate|]. cbn [nth_error] in Hn.
      destruct (IH st1 _ Hinv1 Hwr n d Hn) as [Hf [Ho [Hlen [Hle Hp]]]].
      repeat split; try assumption. intros x b Hx.
      destruct (Hp x b Hx) as [g [[Hg|[t' Hg]] [Hk [Ha Hpl]]]]; exists g; (split; [|auto]).
      * left. exact Hg.
      * right. exists t'. right. exact Hg.
Qed.

(* C13_v4_safety: for ANY sequence of fragments and discards, starting from the empty
   defragmenter: a returned datagram has cleared fragmentation fields, a Length consistent with
   its header and payload, and at each payload offset a byte that some accepted fragment of the
   same key, handed over at or before that step, carries for that offset. *)
Theorem v4_safety ops :
  Forall op_wf ops ->
  forall n d, nth_error (snd (run4 fixedv [] ops)) n = Some (Res (RDg d)) ->
  f_flags d = 0 /\ f_off d = 0 /\ f_len d = 4 * f_ihl d + plen d /\ f_len d <= 65535 /\
  forall (x : nat) b, nth_error (f_payload d) x = Some b ->
    exists g t, In (OFrag g t) (firstn (S n) ops) /\
                key_of g = key_of d /\ accepted g /\ placed g (Z.of_nat x) b.
Proof.
  intros Hwf n d Hn.
  assert (Hinv : SInv (fun _ => False) []) by (intros k fl []).
  destruct (run4_safety_gen ops [] _ Hinv Hwf n d Hn) as [Hf [Ho [Hlen [Hle Hp]]]].
  repeat split; try assumption. intros x b Hx.
  destruct (Hp x b Hx) as [g [[[]|[t Hg]] [Hk [Ha Hpl]]]]. exists g, t. auto.
Qed.

(* the model never panics (fixed variant): build's slice expression is guarded *)
Lemma build_walk_no_panic l : forall cur s, build_walk fixedv l cur <> Panic s.
Proof.
  induction l as [|g r IH]; intros cur s; cbn [build_walk]; [discriminate|].
  cbn [v_trunc v_ovl fixedv andb].
  destruct (negb (plen g =? f_len g - f_ihl g * 4)) eqn:Et; [discriminate|].
  destruct (frag_off g =? cur).
  - destruct (build_walk fixedv r _) as [[? ?]| |] eqn:E; try discriminate. exfalso. eapply IH. exact E.
  - destruct (frag_off g <? cur); [|discriminate].
    destruct (frag_len fixedv g <? u16 (cur - frag_off g)) eqn:E3; [discriminate|].
    destruct (plen g <? u16 (cur - frag_off g)) eqn:E4.
    + exfalso. (* plen = Length - 4*IHL, and frag_len is that value mod 2^16 *)
      unfold frag_len in E3. cbn [v_ihl fixedv] in E3. unfold u16 in *.
      assert (Hp : plen g = f_len g - f_ihl g * 4) by lia.
      assert (0 <= plen g) by (unfold plen; lia).
      assert (Hm := Z.mod_pos_bound (cur - frag_off g) 65536 ltac:(lia)).
      assert (Hlt : plen g < 65536) by lia.
      assert (Hmod : (f_len g - (f_ihl g * 4) mod 65536) mod 65536 = plen g).
      { rewrite Zminus_mod_idemp_r. rewrite <- Hp. apply Z.mod_small. lia. }
      lia.
    + destruct (build_walk fixedv r _) as [[? ?]| |] eqn:E; try discriminate. exfalso. eapply IH. exact E.
Qed.

Theorem v4_no_panic st f t : snd (defrag4 fixedv st f t) <> RPanic.
Proof.
  unfold defrag4. destruct (dont_defrag f); [discriminate|].
  destruct (negb (security_ok fixedv f)); [discriminate|].
  destruct (insert fixedv _ f t) as [fl' r] eqn:Ei.
  assert (Hr : r <> RPanic).
  { unfold insert in Ei.
    destruct (if fl_highest _ <=? frag_off f then _ else _) as [l' dup]. destruct dup; [inversion Ei; discriminate|].
    match type of Ei with (if ?c then _ else _) = _ => destruct c end; inversion Ei; try discriminate.
    unfold build. destruct (build_walk fixedv _ 0) as [[final cur]| |] eqn:Eb; try discriminate.
    - cbn [v_ovl v_len fixedv andb].
      repeat match goal with |- (if ?c then _ else _) <> _ => destruct c end; discriminate.
    - exfalso. eapply build_walk_no_panic. exact Eb. }
  destruct r; try (destruct (max_list_len <? _)); cbn [snd]; try discriminate. congruence.
Qed.

(* ---------------------------------------------------------------- the header of the result, oversize *)
(* build takes the header of the result from the fragment that arrived last (its argument), whatever
   the header lengths of the stored fragments are; it refuses when that header plus the payload
   does not fit the 16-bit Length *)
Lemma build_header fl i d :
  build fixedv fl i = RDg d ->
  key_of d = key_of i /\ f_ihl d = f_ihl i /\ f_hdr d = f_hdr i /\ f_flags d = 0 /\ f_off d = 0 /\
  f_len d = 4 * f_ihl i + plen d /\ 4 * f_ihl i + plen d <= 65535.
Proof.
  intros H. unfold build in H. cbn [v_ovl v_len fixedv andb] in H.
  destruct (build_walk fixedv (fl_list fl) 0) as [[final cur]| |]; try discriminate.
  destruct (negb (cur =? fl_highest fl)); [discriminate|].
  destruct (65535 <? f_ihl i * 4 + Z.of_nat (length final)) eqn:El; [discriminate|].
  inversion H; subst d. unfold key_of, plen. cbn [f_src f_dst f_id f_flags f_off f_ihl f_hdr f_len f_payload].
  repeat split; try reflexivity; lia.
Qed.

Lemma build_oversize fl i final cur :
  build_walk fixedv (fl_list fl) 0 = Ok (final, cur) ->
  65535 < 4 * f_ihl i + Z.of_nat (length final) -> build fixedv fl i = RErr.
Proof.
  intros Hw Ho. unfold build. rewrite Hw. cbn [v_ovl v_len fixedv andb].
  destruct (negb (cur =? fl_highest fl)); [reflexivity|].
  replace (65535 <? f_ihl i * 4 + Z.of_nat (length final)) with true by lia. reflexivity.
Qed.

Lemma insert_result fl f t fl' d : insert fixedv fl f t = (fl', RDg d) -> build fixedv fl' f = RDg d.
Proof. intros H. destruct (insert_list _ _ _ _ _ H) as [_ Hb]. apply Hb. reflexivity. Qed.

(* from ANY state, for ANY fragment (no hypothesis at all): a returned datagram carries the header
   of the fragment just handed over, Length = 4*IHL + |payload|, and that is at most 65535 --
   a set that would need more is answered with an error or nothing *)
Theorem v4_oversize_refused st f t st' d :
  defrag4 fixedv st f t = (st', RDg d) ->
  key_of d = key_of f /\ f_ihl d = f_ihl f /\ f_hdr d = f_hdr f /\ f_flags d = 0 /\ f_off d = 0 /\
  f_len d = 4 * f_ihl f + plen d /\ 4 * f_ihl f + plen d <= 65535.
Proof.
  intros H. unfold defrag4 in H.
  destruct (dont_defrag f); [discriminate|].
  destruct (negb (security_ok fixedv f)); [discriminate|].
  destruct (insert fixedv _ f t) as [fl' r] eqn:Ei.
  destruct r as [| | | |d0]; try (destruct (max_list_len <? _)); try discriminate.
  inversion H; subst. apply (build_header fl' f d). eapply insert_result. exact Ei.
Qed.
