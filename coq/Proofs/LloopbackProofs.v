(* Lemmas about the loopback codec model (Model/LloopbackModel.v). *)
From GP Require Import Base ListX Codec MiscLib LloopbackModel.
From Coq Require Import Lia ZifyBool ZifyNat.
Open Scope Z_scope.
Ltac Zify.zify_post_hook ::= Z.div_mod_to_equations.

Lemma lo_decode_no_panic old data : is_panic (snd (fst (lo_decode_into old data))) = false.
Proof.
  unfold lo_decode_into. cbv zeta. destruct (zlen data <? 4) eqn:Hn; [reflexivity|].
  rewrite !cd_idx_ok by lia. cbn [ml_bind].
  match goal with |- context [if ?c >? 255 then _ else _] => destruct (c >? 255) end; [reflexivity|].
  rewrite !cd_slc_ok by lia. reflexivity.
Qed.

Ltac lostep :=
  match goal with
  | |- context [ml_bind ?o _ _ _] => destruct o eqn:?; cbn [ml_bind]
  | |- context [if ?c then _ else _] => destruct c eqn:?
  end.

Lemma lo_decode_fresh old data :
  let r1 := lo_decode_into old data in
  let r2 := lo_decode_into lo_fresh data in
  snd (fst r1) = snd (fst r2) /\ snd r1 = snd r2 /\
  (snd (fst r1) = Ok tt -> fst (fst r1) = fst (fst r2)).
Proof.
  cbv zeta. unfold lo_decode_into. cbv zeta.
  repeat (lostep; try solve [cbn [fst snd]; split; [reflexivity | split; [reflexivity | try (intros X; discriminate X); try reflexivity]]]).
  all: try (cbn [fst snd]; split; [reflexivity | split; [reflexivity | intros _; reflexivity]]).
Qed.

Definition lo_hdr (l : loopback) : list Z := le_bytes 4 (lo_family l mod 256).

Lemma lo_serialize_spec l payload fixl csum junk : lo_serialize l payload fixl csum junk = (Ok (lo_hdr l ++ payload), l).
Proof.
  unfold lo_serialize, lo_hdr.
  pose proof (ml_tile_init 4 junk ltac:(lia)) as T.
  destruct (ml_tile_wrc _ _ (le_bytes 4 (lo_family l mod 256)) _ 0 T eq_refl ltac:(reflexivity)) as [b [E T']].
  rewrite E. apply ml_tile_done in T'; [|reflexivity]. subst b. reflexivity.
Qed.

Lemma lo_serialize_junk_free l payload fixl csum junk1 junk2 :
  lo_serialize l payload fixl csum junk1 = lo_serialize l payload fixl csum junk2.
Proof. rewrite !lo_serialize_spec. reflexivity. Qed.

Lemma lo_serialize_no_panic l payload fixl csum junk : is_panic (fst (lo_serialize l payload fixl csum junk)) = false.
Proof. rewrite lo_serialize_spec. reflexivity. Qed.

Definition lo_wf (l : loopback) : Prop := 0 <= lo_family l < 256.

Lemma lo_roundtrip l payload fixl csum junk bytes l' old :
  lo_wf l -> lo_serialize l payload fixl csum junk = (Ok bytes, l') ->
  l' = l /\ bytes = [lo_family l; 0; 0; 0] ++ payload /\
  lo_decode_into old bytes = (mkLo [lo_family l; 0; 0; 0] payload (lo_family l), Ok tt, false).
Proof.
  intros Hf. unfold lo_wf in Hf. rewrite lo_serialize_spec. unfold lo_hdr. intros X.
  assert (Hh : le_bytes 4 (lo_family l mod 256) = [lo_family l; 0; 0; 0]).
  { cbn [le_bytes]. repeat f_equal; lia. }
  rewrite Hh in X.
  assert (E1 : bytes = [lo_family l; 0; 0; 0] ++ payload) by congruence. assert (E2 : l' = l) by congruence. clear X.
  split; [exact E2|]. split; [exact E1|]. subst bytes l'.
  pose proof (zlen_nonneg payload) as Np.
  set (f := lo_family l) in *. remember ([f; 0; 0; 0] ++ payload) as data eqn:Hd.
  assert (Hn : zlen data = 4 + zlen payload) by (subst data; rewrite zlen_app; reflexivity).
  assert (Hnth : forall k, (k < 4)%nat -> nth k data 0 = nth k [f; 0; 0; 0] 0) by (intros; subst data; apply app_nth1; assumption).
  unfold lo_decode_into. cbv zeta. destruct (zlen data <? 4) eqn:C1; [lia|].
  rewrite !cd_idx_ok by lia. cbn [ml_bind].
  change (Z.to_nat 0) with 0%nat; change (Z.to_nat 1) with 1%nat; change (Z.to_nat 2) with 2%nat; change (Z.to_nat 3) with 3%nat.
  rewrite !Hnth by lia. cbn [nth].
  assert (S1 : slice data (Z.to_nat 0) (Z.to_nat 4) = [f; 0; 0; 0]) by (subst data; apply slice_from_start; reflexivity).
  assert (S2 : slice data (Z.to_nat 4) (Z.to_nat (zlen data)) = payload).
  { rewrite Hn. subst data. apply slice_to_end; [reflexivity|]. cbn [length]. unfold zlen. lia. }
  destruct (f =? 0) eqn:F0.
  - assert (f = 0) by lia. cbn [andb Z.eqb]. replace (((f * 256 + 0) * 256 + 0) * 256 + 0 >? 255) with false by lia.
    rewrite !cd_slc_ok by lia. cbn [ml_bind]. rewrite S1, S2. f_equal. f_equal. f_equal. lia.
  - cbn [andb]. replace (((0 * 256 + 0) * 256 + 0) * 256 + f >? 255) with false by lia.
    rewrite !cd_slc_ok by lia. cbn [ml_bind]. rewrite S1, S2. reflexivity.
Qed.

Lemma lo_decoded_wf old data l tr : bytes_ok data -> lo_decode_into old data = (l, Ok tt, tr) -> lo_wf l.
Proof.
  intros Hb. unfold lo_decode_into. cbv zeta. destruct (zlen data <? 4) eqn:Hn; [discriminate|].
  rewrite !cd_idx_ok by lia. cbn [ml_bind].
  pose proof (bytes_ok_nth data (Z.to_nat 0) Hb). pose proof (bytes_ok_nth data (Z.to_nat 1) Hb).
  pose proof (bytes_ok_nth data (Z.to_nat 2) Hb). pose proof (bytes_ok_nth data (Z.to_nat 3) Hb).
  match goal with |- context [if ?c >? 255 then _ else _] => destruct (c >? 255) eqn:C; [discriminate|set (prot := c) in *] end.
  rewrite !cd_slc_ok by lia. cbn [ml_bind]. intros X.
  match type of X with (?t, _, _) = _ => assert (El : l = t) by congruence end. subst l. clear X.
  unfold lo_wf. cbn [lo_family]. split; [|lia].
  unfold prot. destruct ((nth (Z.to_nat 0) data 0 =? 0) && (nth (Z.to_nat 1) data 0 =? 0)); lia.
Qed.
