(* The C03 / C01core theorems with their proofs (compositions of the lemmas of
   PacketCoreProofs / PacketScriptProofs), the witness families of the refutations and of the
   non-vacuity examples.  Props/C03.v and Props/C01core.v restate each as a Theorem closed by
   `exact`. *)
From GP Require Import Base PacketCore PacketScript PacketCoreProofs PacketScriptProofs.
From Coq Require Import Lia.
Open Scope Z_scope.

(* ================================================================== C03 *)


(* Every accessor program returns on the lazy packet, call by call, what it returns on the
   eager packet of the same bytes; no lazy loop runs longer than the eager recursion was deep
   (+1); once Layers()/String()/Dump() has been called the whole packet state (layers, the
   five kind pointers, truncated flag) is the eager packet's. *)
Lemma thm_C03_equiv : forall fam n data first o prog pe,
  F6 fam -> data <> [] ->
  new_eager n fam data first o = NewOk pe ->
  exists lp,
    lazy_program (S n) fam (new_lazy data first o) prog = Some (lp, eager_program pe prog) /\
    (existsb forces_all prog = true -> lp_next lp = None /\ lp_p lp = pe).
Proof.
  intros fam n data first o prog pe HF Hd He.
  destruct (lazy_program_sim fam HF n pe prog _ (new_lazy_inv fam n data first o pe Hd He)) as [lp [A [B C]]].
  exists lp. split; [exact A|]. intros H. apply C. right. exact H.
Qed.

(* The invariant behind it (DESIGN.md A.6), usable from any reachable lazy state: continuing
   eagerly from the lazy state yields the eager packet; then the lazy layers are a prefix of
   the eager layers, every kind pointer already set is the eager one, truncated implies
   truncated, and next = None means the states are equal. *)
Lemma thm_C03_invariant : forall fam n lp pe,
  CInv n fam lp pe ->
  ext (lp_p lp) pe /\ (lp_next lp = None -> lp_p lp = pe).
Proof.
  intros fam n lp pe [k [_ Hc]]. split; [eapply continue_ext; exact Hc|].
  intros H. eapply continue_done; eauto.
Qed.

Lemma thm_C03_invariant_step : forall fam n lp pe a,
  F6 fam -> CInv n fam lp pe ->
  exists lp', lazy_access (S n) fam lp a = Some (lp', eager_access pe a) /\ CInv n fam lp' pe.
Proof.
  intros fam n lp pe a HF HI. destruct (lazy_access_sim fam HF n lp pe a HI) as [lp' [A [B _]]].
  exists lp'. split; assumption.
Qed.

(* Different option sets on the two sides: eager packet built with oe, lazy packet with ol,
   any Lazy/NoCopy/Pool bits on either side, same DecodeStreamsAsDatagrams and
   SkipDecodeRecovery; decoders that do not read the three bits. *)
Lemma thm_C03_equiv_options : forall fam n data first oe ol prog pe,
  F6 fam -> opts_blind fam -> data <> [] -> same_decoder_view oe ol ->
  new_eager n fam data first oe = NewOk pe ->
  exists lp,
    lazy_program (S n) fam (new_lazy data first ol) prog = Some (lp, eager_program pe prog) /\
    (existsb forces_all prog = true ->
       lp_next lp = None /\ lp_p lp = reopt ol (new_packet_origin ol data) pe).
Proof.
  intros fam n data first oe ol prog pe HF HB Hd HV He.
  pose proof (new_eager_reopt fam HB n data first oe ol pe HV He) as He2.
  destruct (thm_C03_equiv fam n data first ol prog _ HF Hd He2) as [lp [A B]].
  exists lp. rewrite eager_program_reopt in A. split; assumption.
Qed.

(* reopt changes nothing an accessor can see *)
Lemma thm_C03_reopt_invisible : forall o org p a, eager_access (reopt o org p) a = eager_access p a.
Proof. exact eager_access_reopt. Qed.

(* With the progress hypothesis (a decoder that continues hands on a strictly shorter
   payload) and recovery on, nothing is left to assume about fuel: both packets exist and
   agree, with depth bound |data|+1. *)
Lemma thm_C03_equiv_total : forall fam data first o prog,
  progress fam -> o_skiprec o = false -> data <> [] ->
  exists pe lp,
    new_eager (S (length data)) fam data first o = NewOk pe /\
    lazy_program (S (S (length data))) fam (new_lazy data first o) prog = Some (lp, eager_program pe prog).
Proof.
  intros fam data first o prog HP Hs Hd.
  destruct (new_eager_total fam HP data first o Hs) as [pe He].
  destruct (thm_C03_equiv fam _ data first o prog pe (progress_F6 fam HP) Hd He) as [lp [A _]].
  exists pe, lp. split; assumption.
Qed.

(* The same statement about the functions the correspondence runner executes
   (new_packet / run_program): one observation per call, none out of fuel. *)
Lemma thm_C03_runner : forall fam n data first o prog pe,
  F6 fam -> data <> [] -> o_lazy o = true ->
  new_eager n fam data first o = NewOk pe ->
  exists lp,
    new_packet (S n) fam data first o = NewOk (PLazy (new_lazy data first o)) /\
    run_program (S n) fam (PLazy (new_lazy data first o)) prog = (PLazy lp, map Some (eager_program pe prog)) /\
    run_program (S n) fam (PEager pe) prog = (PEager pe, map Some (eager_program pe prog)).
Proof.
  intros fam n data first o prog pe HF Hd Hl He.
  destruct (thm_C03_equiv fam n data first o prog pe HF Hd He) as [lp [A _]].
  exists lp. split; [unfold new_packet; rewrite Hl; reflexivity|].
  split; [apply run_program_lazy; exact A | apply run_program_eager].
Qed.

(* The scripted families the correspondence executes: the decidable check the runner evaluates
   per case (tag hyp-F6) implies F6; every scripted family is blind to Lazy/NoCopy/Pool. *)
Lemma thm_C03_scripted_families : forall tbl,
  (table_F6b tbl = true -> F6 (family_of tbl)) /\ opts_blind (family_of tbl).
Proof. intros tbl. split; [apply table_F6 | apply table_opts_blind]. Qed.

(* ---- the side conditions are needed (refutations by concrete witnesses) ---- *)

(* F6: a first decoder that continues without adding a layer: eager fails with
   ErrNoLayersAdded (a DecodeFailure layer), lazy re-decodes the whole data with the next
   decoder and reports no error. *)
Definition tbl_no_add : script_table :=
  [ (10, [mkVariant [] [] (Next 11) None]);
    (11, [mkVariant [mkLspec 11 1 PRest] [SAdd 0] Ret None]) ].

Lemma thm_C03_without_F6_refuted :
  exists tbl data first o pe lp rs,
    new_eager 10 (family_of tbl) data first o = NewOk pe /\
    lazy_program 11 (family_of tbl) (new_lazy data first o) [AErrorLayer] = Some (lp, rs) /\
    rs <> eager_program pe [AErrorLayer].
Proof.
  exists tbl_no_add, [1;2;3], 10, (mkOpts true false false false false).
  eexists; eexists; eexists. split; [vm_compute; reflexivity|]. split; [vm_compute; reflexivity|].
  vm_compute. discriminate.
Qed.

(* empty input: eager calls the first decoder (here it fails), lazy never does *)
Lemma thm_C03_empty_input_refuted :
  exists tbl first o pe lp rs,
    new_eager 10 (family_of tbl) [] first o = NewOk pe /\
    lazy_program 11 (family_of tbl) (new_lazy [] first o) [ALayers] = Some (lp, rs) /\
    rs <> eager_program pe [ALayers].
Proof.
  exists [(10, [mkVariant [] [] Fail None])], 10, (mkOpts true false false false false).
  eexists; eexists; eexists. split; [vm_compute; reflexivity|]. split; [vm_compute; reflexivity|].
  vm_compute. discriminate.
Qed.

(* ---- non-vacuity: a family meeting every hypothesis, on which the lazy packet really stops
   early, recovers a panic after an add, and still agrees ---- *)
Definition ex_fam : family := fun t =>
  if t =? 10 then Some (fun data o =>
    match data with
    | [] => ([], Fail)
    | b :: rest => let l := mkLayer 10 [b] rest false in ([Add l; SetLink l], Next 11)
    end)
  else if t =? 11 then Some (fun data o =>
    match data with
    | [] => ([], Fail)
    | b :: rest =>
      let l1 := mkLayer 11 [] (b :: rest) false in
      let l2 := mkLayer 12 [b] rest false in
      ([Add l1; Add l2; SetNetwork l2; SetTruncated], if o_dsad o then Next 11 else PanicT)
    end)
  else None.

Lemma ex_fam_progress : progress ex_fam.
Proof.
  intros t d data o acts t' EF ED. unfold ex_fam in EF.
  destruct (t =? 10).
  - inversion EF; subst d. destruct data as [|b rest]; inversion ED; subst.
    eexists; split; [reflexivity|]. cbn. lia.
  - destruct (t =? 11); [|discriminate]. inversion EF; subst d.
    destruct data as [|b rest]; [inversion ED|].
    destruct (o_dsad o); inversion ED; subst.
    eexists; split; [reflexivity|]. cbn. lia.
Qed.

Lemma ex_fam_blind : opts_blind ex_fam.
Proof.
  intros t d data o1 o2 EF [_ HV]. unfold ex_fam in EF.
  destruct (t =? 10); [inversion EF; reflexivity|].
  destruct (t =? 11); [|discriminate]. inversion EF. rewrite HV. reflexivity.
Qed.

Lemma thm_C03_nonvacuous :
  progress ex_fam /\ F6 ex_fam /\ opts_blind ex_fam /\
  exists pe lp1 lp2,
    new_eager 5 ex_fam [7;8;9;10] 10 (mkOpts false false false false false) = NewOk pe /\
    length (p_layers pe) = 4%nat /\ p_trunc pe = true /\
    (* LinkLayer() on the lazy packet decodes one layer only and leaves the continuation *)
    lazy_program 6 ex_fam (new_lazy [7;8;9;10] 10 (mkOpts true true false false false)) [ALinkLayer]
      = Some (lp1, eager_program pe [ALinkLayer]) /\
    lp_next lp1 = Some 11 /\ length (p_layers (lp_p lp1)) = 1%nat /\ p_trunc (lp_p lp1) = false /\
    (* a longer program ending in Layers() reaches the eager state, panic recovered *)
    lazy_program 6 ex_fam (new_lazy [7;8;9;10] 10 (mkOpts true true false false false))
      [ALinkLayer; ALayer 12; AErrorLayer; ALayerClass [1; 12]; AString; ALayers]
      = Some (lp2, eager_program pe [ALinkLayer; ALayer 12; AErrorLayer; ALayerClass [1; 12]; AString; ALayers]) /\
    p_trunc (lp_p lp2) = true /\ p_layers (lp_p lp2) = p_layers pe.
Proof.
  split; [exact ex_fam_progress|]. split; [exact (progress_F6 _ ex_fam_progress)|].
  split; [exact ex_fam_blind|].
  eexists; eexists; eexists. split; [vm_compute; reflexivity|].
  repeat (split; [vm_compute; reflexivity|]). vm_compute. reflexivity.
Qed.

(* ================================================================== C01core *)


(* ---- totality ---- *)

(* NewPacket (eager) returns a packet: no panic escapes, the recursion stops within |data|+1 *)
Lemma thm_C01_total : forall fam data first o,
  progress fam -> o_skiprec o = false ->
  exists pe, new_eager (S (length data)) fam data first o = NewOk pe.
Proof. intros fam data first o HP Hs. exact (new_eager_total fam HP data first o Hs). Qed.

(* NewPacket with any Lazy setting returns a packet *)
Lemma thm_C01_total_new_packet : forall fam data first o,
  progress fam -> o_skiprec o = false ->
  exists pk, new_packet (S (length data)) fam data first o = NewOk pk.
Proof.
  intros fam data first o HP Hs. unfold new_packet. destruct (o_lazy o); [eauto|].
  destruct (new_eager_total fam HP data first o Hs) as [pe He]. rewrite He. eauto.
Qed.

(* every accessor program on the lazy packet terminates (each loop within |data|+2 steps)
   and no call panics; empty input included *)
Lemma thm_C01_total_lazy : forall fam data first o prog,
  progress fam -> o_skiprec o = false ->
  exists lp rs,
    lazy_program (S (S (length data))) fam (new_lazy data first o) prog = Some (lp, rs) /\
    ~ In RPanic rs.
Proof.
  intros fam data first o prog HP Hs.
  pose proof (progress_F6 fam HP) as HF.
  destruct data as [|b rest].
  - destruct (lazy_program_sim fam HF _ _ prog _ (new_lazy_inv_empty fam (S (length (@nil Z))) first o))
      as [lp [A _]].
    exists lp; eexists; split; [exact A | apply eager_program_no_panic].
  - destruct (new_eager_total fam HP (b :: rest) first o Hs) as [pe He].
    destruct (lazy_program_sim fam HF _ pe prog _ (new_lazy_inv fam _ (b :: rest) first o pe ltac:(discriminate) He))
      as [lp [A _]].
    exists lp; eexists; split; [exact A | apply eager_program_no_panic].
Qed.

(* accessors of an eager packet never panic (they are pure reads) *)
Lemma thm_C01_eager_accessors_total : forall p a, eager_access p a <> RPanic.
Proof. exact eager_access_no_panic. Qed.

(* ---- error-layer discipline ---- *)

(* `discipline failed pe`:  failed <-> ErrorLayer <> nil;  not failed <-> ErrorLayer = nil;
   when ErrorLayer = Some e: e is a DecodeFailure, it is the LAST layer and no other layer is a
   DecodeFailure; when nil: no layer is a DecodeFailure.
   `decode_failed r`: the outermost Decode call returned an error or panicked, i.e. (tail-call
   shape) some decoder failed or panicked, or the framework refused the continuation
   (ErrNoLayersAdded, nil decoder, type without decoder).
   Hypotheses: no decoder calls SetErrorLayer (source fact F2: today one does) and no decoder
   adds a *DecodeFailure of its own (source fact: no such literal in layers/). *)
Lemma thm_C01_error_discipline : forall fam n data first o p r pe,
  no_seterr fam -> no_fail_layers fam ->
  eager_decode n fam first data (empty_packet data o) = (p, r) ->
  finish_decode (p, r) = NewOk pe ->            (* pe = what NewPacket returned *)
  discipline (decode_failed r) pe.
Proof.
  intros fam n data first o p r pe H1 H2 HE HF.
  eapply discipline_finish; [|exact HF].
  eapply clean_eager_decode; eauto using clean_empty.
Qed.

(* the same for the lazy packet once Layers() (or String/Dump) has been called *)
Lemma thm_C01_error_discipline_lazy : forall fam n data first o p r pe prog lp rs,
  no_seterr fam -> no_fail_layers fam -> F6 fam -> data <> [] ->
  eager_decode n fam first data (empty_packet data o) = (p, r) ->
  finish_decode (p, r) = NewOk pe ->
  existsb forces_all prog = true ->
  lazy_program (S n) fam (new_lazy data first o) prog = Some (lp, rs) ->
  discipline (decode_failed r) (lp_p lp) /\ lp_p lp = pe.
Proof.
  intros fam n data first o p r pe prog lp rs H1 H2 HF Hd HE HFin Hall HL.
  assert (He : new_eager n fam data first o = NewOk pe) by (unfold new_eager; rewrite HE; exact HFin).
  destruct (lazy_program_sim fam HF n pe prog _ (new_lazy_inv fam n data first o pe Hd He)) as [lp' [A [_ C]]].
  rewrite A in HL. inversion HL; subst lp'.
  destruct (C (or_intror Hall)) as [_ EQ]. split; [|exact EQ]. rewrite EQ.
  eapply thm_C01_error_discipline; eauto.
Qed.

(* on empty input the lazy packet never decodes anything: no layers, no error layer *)
Lemma thm_C01_lazy_empty_input : forall fam n first o prog lp rs,
  F6 fam ->
  lazy_program (S n) fam (new_lazy [] first o) prog = Some (lp, rs) ->
  p_layers (lp_p lp) = [] /\ p_failure (lp_p lp) = None /\ rs = eager_program (empty_packet [] o) prog.
Proof.
  intros fam n first o prog lp rs HF HL.
  destruct (lazy_program_sim fam HF n _ prog _ (new_lazy_inv_empty fam n first o)) as [lp' [A [B _]]].
  rewrite A in HL. inversion HL; subst.
  destruct B as [k [_ Hc]]. pose proof (continue_ext _ _ _ _ Hc) as X.
  destruct (ext_layers _ _ X) as [more Hm]. cbn in Hm.
  destruct (p_layers (lp_p lp)); [|discriminate].
  split; [reflexivity|]. split; [|reflexivity].
  destruct (p_failure (lp_p lp)) as [e|] eqn:E; [|reflexivity].
  pose proof (ext_failure _ _ X e E) as Y. cbn in Y. discriminate.
Qed.

(* Without any hypothesis on SetErrorLayer: whenever decoding failed, the LAST layer is a
   DecodeFailure and ErrorLayer() is non-nil. *)
Lemma thm_C01_error_general : forall fam n data first o p r pe,
  eager_decode n fam first data (empty_packet data o) = (p, r) ->
  finish_decode (p, r) = NewOk pe -> decode_failed r = true ->
  p_failure pe <> None /\ exists before f, p_layers pe = before ++ [f] /\ l_fail f = true.
Proof. intros. eapply general_finish; eauto. Qed.

(* The scripted families the correspondence executes: decidable checks evaluated per case by
   the runner (tags hyp-progress, hyp-no-seterr) imply the hypotheses of the theorems above;
   no scripted decoder adds a DecodeFailure. *)
Lemma thm_C01_scripted_families : forall tbl,
  (table_progressb tbl = true -> progress (family_of tbl)) /\
  (table_no_seterrb tbl = true -> no_seterr (family_of tbl)) /\
  no_fail_layers (family_of tbl).
Proof.
  intros tbl. split; [apply table_progress|]. split; [apply table_no_seterr | apply table_no_fail_layers].
Qed.

(* ---- a decoder that DOES call SetErrorLayer and continues (layers/sctp.go:
   decodeSCTPChunkTypeUnknown): the discipline fails, by documented design of that layer.
   Script: 10 = common header, 11 = chunk decoder choosing by the first byte (mod 3):
   0 -> ordinary chunk, 1 -> unknown chunk (AddLayer; SetErrorLayer; continue), 2 -> error. ---- *)
Definition sctp_like : script_table :=
  [ (10, [mkVariant [mkLspec 10 2 PRest] [SAdd 0; STrans 0] (Next 11) None]);
    (11, [mkVariant [mkLspec 20 2 PRest] [SAdd 0] (Next 11) None;
          mkVariant [mkLspec 21 2 PRest] [SAdd 0; SErrL 0] (Next 11) None;
          mkVariant [] [STrunc] Fail None]) ].

(* (a) nothing fails, yet ErrorLayer() is non-nil, is not a DecodeFailure and is not last *)
Lemma thm_C01_seterror_refuted :
  exists data o p r pe e,
    eager_decode 10 (family_of sctp_like) 10 data (empty_packet data o) = (p, r) /\
    finish_decode (p, r) = NewOk pe /\
    decode_failed r = false /\ p_failure pe = Some e /\ l_fail e = false /\
    last (p_layers pe) e <> e /\ ~ discipline (decode_failed r) pe.
Proof.
  exists [0;0; 1;9; 0;9], (mkOpts false false false false false).
  eexists; eexists; eexists; eexists.
  split; [vm_compute; reflexivity|]. split; [vm_compute; reflexivity|].
  split; [reflexivity|]. split; [vm_compute; reflexivity|]. split; [reflexivity|].
  split; [vm_compute; discriminate|].
  intros [_ [D2 _]]. destruct D2 as [D2 _]. specialize (D2 eq_refl). vm_compute in D2. discriminate.
Qed.

(* (b) a later chunk fails: the final DecodeFailure is last, but ErrorLayer() is still the
   unknown chunk: a DecodeFailure layer that is not the error layer *)
Lemma thm_C01_seterror_then_failure_refuted :
  exists data o p r pe e f,
    eager_decode 10 (family_of sctp_like) 10 data (empty_packet data o) = (p, r) /\
    finish_decode (p, r) = NewOk pe /\
    decode_failed r = true /\ p_failure pe = Some e /\ l_fail e = false /\
    last (p_layers pe) e = f /\ l_fail f = true /\ f <> e.
Proof.
  exists [0;0; 1;9; 2;9], (mkOpts false false false false false).
  eexists; eexists; eexists; eexists; eexists.
  split; [vm_compute; reflexivity|]. split; [vm_compute; reflexivity|].
  split; [reflexivity|]. split; [vm_compute; reflexivity|]. split; [reflexivity|].
  split; [vm_compute; reflexivity|]. split; [reflexivity|]. discriminate.
Qed.

(* ---- non-vacuity of the discipline theorem: a scripted family without SetErrorLayer whose
   third decoder panics after adding a layer; the panic is recovered into a last DecodeFailure ---- *)
Definition ex_fam2 : family := fun t =>
  if t =? 10 then Some (fun data o =>
    match data with
    | [] => ([], Fail)
    | b :: rest => let l := mkLayer 10 [b] rest false in ([Add l; SetLink l], Next 11)
    end)
  else if t =? 11 then Some (fun data o =>
    match data with
    | [] => ([], Fail)
    | b :: rest => ([Add (mkLayer 11 [b] rest false)], if b =? 0 then Ret else PanicT)
    end)
  else None.

Lemma ex_fam2_progress : progress ex_fam2.
Proof.
  intros t d data o acts t' EF ED. unfold ex_fam2 in EF.
  destruct (t =? 10).
  - inversion EF; subst d. destruct data as [|b rest]; inversion ED; subst.
    eexists; split; [reflexivity|]. cbn. lia.
  - destruct (t =? 11); [|discriminate]. inversion EF; subst d.
    destruct data as [|b rest]; [inversion ED|]. destruct (b =? 0); inversion ED.
Qed.

Lemma ex_fam2_no_seterr : no_seterr ex_fam2.
Proof.
  intros t d data o acts term EF ED. unfold ex_fam2 in EF.
  destruct (t =? 10).
  - inversion EF; subst d. destruct data; inversion ED; reflexivity.
  - destruct (t =? 11); [|discriminate]. inversion EF; subst d.
    destruct data; inversion ED; reflexivity.
Qed.

Lemma ex_fam2_no_fail : no_fail_layers ex_fam2.
Proof.
  intros t d data o acts term EF ED. unfold ex_fam2 in EF.
  destruct (t =? 10).
  - inversion EF; subst d. destruct data; inversion ED; reflexivity.
  - destruct (t =? 11); [|discriminate]. inversion EF; subst d.
    destruct data; inversion ED; reflexivity.
Qed.

Lemma thm_C01core_nonvacuous :
  progress ex_fam2 /\ no_seterr ex_fam2 /\ no_fail_layers ex_fam2 /\
  exists p pe,
    eager_decode 4 ex_fam2 10 [5;6;7] (empty_packet [5;6;7] (mkOpts false false true false false)) = (p, DPanic) /\
    finish_decode (p, DPanic) = NewOk pe /\
    p_failure pe = Some (mk_failure [7]) /\
    p_layers pe = [mkLayer 10 [5] [6;7] false; mkLayer 11 [6] [7] false; mk_failure [7]] /\
    (* and a clean run has no error layer *)
    exists pe2, new_eager 4 ex_fam2 [5;0;7] 10 (mkOpts false false false false false) = NewOk pe2 /\
                p_failure pe2 = None /\ length (p_layers pe2) = 2%nat.
Proof.
  split; [exact ex_fam2_progress|]. split; [exact ex_fam2_no_seterr|]. split; [exact ex_fam2_no_fail|].
  eexists; eexists. split; [vm_compute; reflexivity|]. split; [vm_compute; reflexivity|].
  split; [reflexivity|]. split; [reflexivity|].
  eexists. split; [vm_compute; reflexivity|]. split; reflexivity.
Qed.
