(* Round trip of the GTPv1-U model: gtp_decode_into (gtp_serialize l) with FixLengths under gtp_wf. *)
From GP Require Import Base ListX Codec MiscLib LgtpModel.
From Coq Require Import Lia ZifyBool ZifyNat.
Open Scope Z_scope.
Ltac Zify.zify_post_hook ::= Z.div_mod_to_equations.

Definition gx_wf (e : gext) : Prop := 1 <= gx_type e < 256 /\ zlen (gx_content e) mod 4 = 2 /\ zlen (gx_content e) <= 1018.

Definition gx_enc (e : gext) (nx : Z) : list Z := [(zlen (gx_content e) + 2) / 4] ++ gx_content e ++ [nx].

(* the extension headers in wire order and the type of the first one (0 = none) *)
Fixpoint gx_bytes (l : list gext) : list Z * Z :=
  match l with
  | [] => ([], 0)
  | e :: t => (gx_enc e (snd (gx_bytes t)) ++ fst (gx_bytes t), gx_type e)
  end.

Lemma gx_next_range l : Forall gx_wf l -> 0 <= snd (gx_bytes l) < 256.
Proof. intros W. destruct W as [|e t [Ht _] _]; cbn [gx_bytes snd]; lia. Qed.

Lemma gtp_region_ok n junk vs : zlen vs = n -> gtp_region n junk vs = Ok vs.
Proof.
  intros H. unfold gtp_region. pose proof (zlen_nonneg vs). pose proof (ml_tile_init n junk ltac:(lia)) as T.
  destruct (ml_tile_wrc _ _ vs _ 0 T eq_refl ltac:(change (zlen []) with 0; lia)) as [b [E T']].
  rewrite E. apply ml_tile_done in T'; [|cbn [app]; exact H]. subst b. reflexivity.
Qed.

Lemma gtp_exts_bytes_wf junk : forall l, Forall gx_wf l -> gtp_exts_bytes junk l = Ok (gx_bytes l).
Proof.
  induction l as [|e t IH]; intros W; [reflexivity|]. inversion W as [|? ? [Ht [Hm Hl]] Wt]; subst.
  cbn [gtp_exts_bytes gx_bytes]. rewrite (IH Wt). cbn [obind]. pose proof (zlen_nonneg (gx_content e)) as Nc.
  replace (zlen (gx_content e) mod 4 =? 2) with true by lia. cbn [negb].
  pose proof (gx_next_range t Wt) as Rn.
  rewrite (Z.mod_small ((zlen (gx_content e) + 2) / 4)) by lia. rewrite (Z.mod_small (snd (gx_bytes t))) by lia.
  rewrite gtp_region_ok by (rewrite !zlen_app; change (zlen [_]) with 1; change (zlen [snd (gx_bytes t)]) with 1; lia).
  reflexivity.
Qed.

Lemma gx_enc_len e nx : zlen (gx_enc e nx) = zlen (gx_content e) + 2.
Proof. unfold gx_enc. rewrite !zlen_app. change (zlen [_]) with 1. change (zlen [nx]) with 1. lia. Qed.

(* the decoder's loop over the written extension headers: `pre` ends with the type octet of the first one *)
Lemma gtp_ext_loop_bytes : forall l fuel pre rest acc, Forall gx_wf l -> (length l < fuel)%nat -> 1 <= zlen pre ->
  gtp_ext_loop fuel ((pre ++ [snd (gx_bytes l)]) ++ fst (gx_bytes l) ++ rest) (zlen pre + 1) (negb (snd (gx_bytes l) =? 0)) acc =
  (acc ++ l, Ok (zlen pre + 1 + zlen (fst (gx_bytes l)))).
Proof.
  induction l as [|e t IH]; intros fuel pre rest acc W Hf Hp.
  - cbn [gx_bytes fst snd]. destruct fuel; cbn [gtp_ext_loop]; change (negb (0 =? 0)) with false; cbn [negb]; rewrite app_nil_r; change (zlen (@nil Z)) with 0; rewrite Z.add_0_r; reflexivity.
  - inversion W as [|? ? [Ht [Hm Hl]] Wt]; subst. destruct fuel as [|f]; [cbn [length] in Hf; lia|].
    cbn [gx_bytes fst snd]. set (nx := snd (gx_bytes t)) in *. set (xb := fst (gx_bytes t)) in *.
    pose proof (zlen_nonneg (gx_content e)) as Nc. pose proof (zlen_nonneg xb) as Nx. pose proof (zlen_nonneg rest) as Nr.
    set (lc := zlen (gx_content e)) in *. set (lb := (lc + 2) / 4).
    assert (Hlb : 1 <= lb <= 255 /\ lb * 4 = lc + 2) by (unfold lb; lia). destruct Hlb as [Hlb Hlb4].
    replace (gx_type e =? 0) with false by lia. cbn [negb]. cbn [gtp_ext_loop negb].
    set (ci := zlen pre + 1).
    set (data := (pre ++ [gx_type e]) ++ (gx_enc e nx ++ xb) ++ rest).
    assert (Hd : zlen data = ci + (lc + 2) + zlen xb + zlen rest).
    { unfold data. rewrite !zlen_app, gx_enc_len. change (zlen [gx_type e]) with 1. unfold ci. fold lc. lia. }
    replace (zlen data <=? ci) with false by lia.
    rewrite !cd_idx_ok by (unfold ci in *; lia). cbn [obind].
    assert (N1 : nth (Z.to_nat (ci - 1)) data 0 = gx_type e).
    { unfold data. rewrite <- app_assoc. rewrite app_nth2 by (unfold ci, zlen; lia).
      replace (Z.to_nat (ci - 1) - length pre)%nat with 0%nat by (unfold ci, zlen; lia). reflexivity. }
    assert (N2 : nth (Z.to_nat ci) data 0 = lb).
    { unfold data. rewrite app_nth2 by (rewrite app_length; cbn [length]; unfold ci, zlen; lia).
      replace (Z.to_nat ci - length (pre ++ [gx_type e]))%nat with 0%nat by (rewrite app_length; cbn [length]; unfold ci, zlen; lia). reflexivity. }
    rewrite N1, N2. replace (lb =? 0) with false by lia.
    replace (zlen data <? ci + lb * 4) with false by lia.
    rewrite cd_slc_ok by lia. rewrite cd_idx_ok by lia. cbn [obind].
    assert (S1 : slice data (Z.to_nat (ci + 1)) (Z.to_nat (ci + lb * 4 - 1)) = gx_content e).
    { unfold data, gx_enc. fold lc lb. rewrite <- !app_assoc. rewrite (app_assoc pre), (app_assoc (pre ++ [gx_type e])).
      apply slice_at; rewrite ?app_length; cbn [length]; unfold ci, lc, zlen in *; lia. }
    assert (N3 : nth (Z.to_nat (ci + lb * 4 - 1)) data 0 = nx).
    { unfold data, gx_enc. fold lc lb. rewrite <- !app_assoc. rewrite (app_assoc pre), (app_assoc (pre ++ [gx_type e])), (app_assoc ((pre ++ [gx_type e]) ++ [lb])).
      rewrite app_nth2 by (rewrite !app_length; cbn [length]; unfold ci, lc, zlen in *; lia).
      replace (Z.to_nat (ci + lb * 4 - 1) - length (((pre ++ [gx_type e]) ++ [lb]) ++ gx_content e))%nat with 0%nat
        by (rewrite !app_length; cbn [length]; unfold ci, lc, zlen in *; lia). reflexivity. }
    rewrite S1, N3.
    (* reshape for the induction hypothesis *)
    set (pre2 := (pre ++ [gx_type e]) ++ [lb] ++ gx_content e).
    assert (E2 : data = (pre2 ++ [nx]) ++ xb ++ rest).
    { unfold data, pre2, gx_enc. fold lc lb. rewrite <- !app_assoc. reflexivity. }
    assert (L2 : ci + lb * 4 = zlen pre2 + 1).
    { unfold pre2. rewrite !zlen_app. change (zlen [gx_type e]) with 1. change (zlen [lb]) with 1. unfold ci. fold lc. lia. }
    rewrite E2, L2. unfold nx, xb. rewrite IH; [|exact Wt|cbn [length] in Hf; lia|unfold pre2; rewrite !zlen_app; change (zlen [gx_type e]) with 1; change (zlen [lb]) with 1; lia].
    fold xb. rewrite <- app_assoc. cbn [app]. f_equal.
    + f_equal. destruct e; reflexivity.
    + f_equal. rewrite zlen_app, gx_enc_len. fold lc. unfold pre2. rewrite !zlen_app. change (zlen [gx_type e]) with 1. change (zlen [lb]) with 1. unfold ci. fold lc. lia.
Qed.

Definition gtp_wf (l : gtp) : Prop :=
  0 <= g_version l < 8 /\ g_ptype l = 1 /\ g_reserved l = 0 /\ 0 <= g_mtype l < 256 /\ 0 <= g_teid l < 4294967296 /\
  0 <= g_seq l < 65536 /\ 0 <= g_npdu l < 256 /\ (g_sflag l = false -> g_seq l = 0) /\ (g_nflag l = false -> g_npdu l = 0) /\
  (g_exts l <> [] -> g_eflag l = true) /\ Forall gx_wf (g_exts l).

Lemma gtp_b0_bits ver (e s n : bool) : 0 <= ver < 8 ->
  let b0 := ver * 32 + 16 + (if e then 4 else 0) + (if s then 2 else 0) + (if n then 1 else 0) in
  (b0 / 32) mod 8 = ver /\ (b0 / 16) mod 2 = 1 /\ (b0 / 8) mod 2 = 0 /\
  ((b0 / 4) mod 2 =? 1) = e /\ ((b0 / 2) mod 2 =? 1) = s /\ (b0 mod 2 =? 1) = n.
Proof. intros H. destruct e, s, n; cbv zeta; repeat split; lia. Qed.

Lemma gx_bytes_count : forall l, Forall gx_wf l -> 4 * Z.of_nat (length l) <= zlen (fst (gx_bytes l)).
Proof.
  induction 1 as [|e t [_ [Hm _]] _ IH]; [cbn; lia|]. cbn [gx_bytes fst length]. rewrite zlen_app, gx_enc_len.
  pose proof (zlen_nonneg (gx_content e)). lia.
Qed.

Lemma gtp_roundtrip l payload csum junk bytes l' old :
  gtp_wf l -> 4 + zlen (fst (gx_bytes (g_exts l))) + zlen payload < 65536 ->
  gtp_serialize l payload true csum junk = (Ok bytes, l') ->
  exists c, gtp_decode_into old bytes =
    (mkGtp c payload (g_version l) 1 0 (g_eflag l) (g_sflag l) (g_nflag l) (g_mtype l) (g_mlen l') (g_teid l) (g_seq l) (g_npdu l) (g_exts l),
     Ok tt, false) /\ c ++ payload = bytes.
Proof.
  intros [Hv [Hpt [Hrs [Hmt [Hte [Hsq [Hnp [Hs0 [Hn0 [He W]]]]]]]]]] Hlen.
  assert (Eef : match g_exts l with [] => g_eflag l | _ :: _ => true end = g_eflag l).
  { destruct (g_exts l); [reflexivity|]. symmetry. apply He. discriminate. }
  unfold gtp_serialize. cbv zeta. rewrite Eef, (gtp_exts_bytes_wf junk _ W).
  set (xb := fst (gx_bytes (g_exts l))) in *. set (nx := snd (gx_bytes (g_exts l))).
  replace (gx_bytes (g_exts l)) with (xb, nx) by (unfold xb, nx; destruct (gx_bytes (g_exts l)); reflexivity).
  pose proof (gx_next_range _ W) as Rn. fold nx in Rn. pose proof (zlen_nonneg xb) as Nx. pose proof (zlen_nonneg payload) as Npl.
  assert (Hpl : zlen payload < 65536) by lia.
  destruct (gtp_b0_bits (g_version l) (g_eflag l) (g_sflag l) (g_nflag l) Hv) as [B1 [B2 [B3 [B4 [B5 B6]]]]]. cbv zeta in B1, B2, B3, B4, B5, B6.
  rewrite (Z.mod_small (g_version l) 8) by lia.
  set (b0 := g_version l * 32 + 16 + (if g_eflag l then 4 else 0) + (if g_sflag l then 2 else 0) + (if g_nflag l then 1 else 0)) in *.
  rewrite ?(Z.mod_small (g_mtype l) 256), ?(Z.mod_small (g_teid l) 4294967296), ?(Z.mod_small (g_npdu l) 256), ?(Z.mod_small nx 256) by lia.
  destruct (g_eflag l || g_sflag l || g_nflag l) eqn:Fl.
  - (* optional part present *)
    rewrite (gtp_region_ok 4) by reflexivity.
    set (opt := cd_put16 (g_seq l) ++ [g_npdu l; nx]).
    set (body := opt ++ xb ++ payload).
    assert (Lb : zlen body = 4 + zlen xb + zlen payload) by (unfold body; rewrite !zlen_app; change (zlen opt) with 4; lia).
    rewrite (Z.mod_small (zlen body)) by lia. rewrite (gtp_region_ok 8) by reflexivity. intros X.
    match type of X with (Ok ?b, ?x) = _ => assert (Eb : bytes = b) by congruence; assert (El : l' = x) by congruence end. clear X.
    rewrite El. cbn [g_mlen]. clear El l'.
    set (h8 := [b0; g_mtype l] ++ cd_put16 (zlen body) ++ ml_put32 (g_teid l)) in *.
    set (pre := h8 ++ cd_put16 (g_seq l) ++ [g_npdu l]).
    assert (Eb2 : bytes = (pre ++ [nx]) ++ xb ++ payload).
    { rewrite Eb. unfold pre, body, opt. rewrite <- !app_assoc. reflexivity. }
    assert (Lp : zlen pre = 11) by reflexivity.
    assert (Hn : zlen bytes = 12 + zlen xb + zlen payload) by (rewrite Eb2, !zlen_app, Lp; change (zlen [nx]) with 1; lia).
    assert (HnthZ : forall k, 0 <= k < 12 -> nth (Z.to_nat k) bytes 0 = nth (Z.to_nat k) (pre ++ [nx]) 0).
    { intros k Hk. rewrite Eb2. apply app_nth1. rewrite app_length. cbn [length]. unfold zlen in Lp. lia. }
    unfold gtp_decode_into, gtp_decode_gen. cbv zeta. replace (zlen bytes <? 8) with false by lia.
    rewrite !cd_idx_ok by lia. rewrite cd_rd16_ok by lia. cbn [ml_bind]. rewrite !HnthZ by lia.
    repeat match goal with |- context [Z.to_nat ?k] => let v := eval vm_compute in (Z.to_nat k) in change (Z.to_nat k) with v end.
    assert (P0 : nth 0 (pre ++ [nx]) 0 = b0) by reflexivity. assert (P1 : nth 1 (pre ++ [nx]) 0 = g_mtype l) by reflexivity.
    assert (P23 : nth 2 (pre ++ [nx]) 0 * 256 + nth 3 (pre ++ [nx]) 0 = zlen body).
    { change (nth 2 (pre ++ [nx]) 0) with ((zlen body / 256) mod 256). change (nth 3 (pre ++ [nx]) 0) with (zlen body mod 256). lia. }
    rewrite P0, P1, P23. rewrite B1, B2, B3, B4, B5, B6.
    replace (zlen bytes <? 8 + zlen body) with false by lia.
    rewrite ml_rd32_ok by lia. cbn [ml_bind]. rewrite !HnthZ by lia.
    repeat match goal with |- context [Z.to_nat ?k] => let v := eval vm_compute in (Z.to_nat k) in change (Z.to_nat k) with v end.
    assert (P4 : (nth 4 (pre ++ [nx]) 0 * 256 + nth 5 (pre ++ [nx]) 0) * 65536 + (nth 6 (pre ++ [nx]) 0 * 256 + nth 7 (pre ++ [nx]) 0) = g_teid l).
    { unfold pre, h8. cbn [nth app cd_put16 ml_put32]. apply ml_put32_be. lia. }
    rewrite P4. rewrite Fl. replace (zlen bytes <? 12) with false by lia.
    rewrite ?cd_rd16_ok by lia. rewrite ?cd_idx_ok by lia. cbn [ml_bind]. rewrite !HnthZ by lia.
    repeat match goal with |- context [Z.to_nat ?k] => let v := eval vm_compute in (Z.to_nat k) in change (Z.to_nat k) with v end.
    assert (P8 : nth 8 (pre ++ [nx]) 0 * 256 + nth 9 (pre ++ [nx]) 0 = g_seq l).
    { change (nth 8 (pre ++ [nx]) 0) with ((g_seq l / 256) mod 256). change (nth 9 (pre ++ [nx]) 0) with (g_seq l mod 256). lia. }
    assert (P10 : nth 10 (pre ++ [nx]) 0 = g_npdu l) by reflexivity. assert (P11 : nth 11 (pre ++ [nx]) 0 = nx) by reflexivity.
    rewrite P8, P10, P11.
    assert (Esq : (if g_sflag l then g_seq l else 0) = g_seq l) by (destruct (g_sflag l); [reflexivity|symmetry; apply Hs0; reflexivity]).
    assert (Enp : (if g_nflag l then g_npdu l else 0) = g_npdu l) by (destruct (g_nflag l); [reflexivity|symmetry; apply Hn0; reflexivity]).
    rewrite Esq, Enp.
    assert (G : (if g_eflag l then gtp_ext_loop (S (length bytes)) bytes 12 (negb (nx =? 0)) [] else ([], Ok 12)) = (g_exts l, Ok (12 + zlen xb))).
    { destruct (g_eflag l) eqn:Ee.
      - pose proof (gtp_ext_loop_bytes (g_exts l) (S (length bytes)) pre payload [] W) as L. fold nx xb in L. rewrite Lp in L. rewrite <- Eb2 in L.
        apply L; [|lia]. pose proof (gx_bytes_count _ W) as C. fold xb in C. unfold zlen in Hn, C. lia.
      - assert (Ex : g_exts l = []) by (destruct (g_exts l); [reflexivity|exfalso; specialize (He ltac:(discriminate)); congruence]).
        unfold xb. rewrite Ex. reflexivity. }
    rewrite G. rewrite !cd_slc_ok by lia. cbn [ml_bind].
    assert (S2 : slice bytes (Z.to_nat (12 + zlen xb)) (Z.to_nat (zlen bytes)) = payload).
    { rewrite Hn, Eb2. rewrite app_assoc. apply slice_to_end; rewrite !app_length; cbn [length]; unfold zlen in *; lia. }
    rewrite S2. eexists. split; [reflexivity|].
    rewrite Eb2. rewrite app_assoc. f_equal. apply slice_from_start. rewrite !app_length. cbn [length]. unfold zlen in *. lia.
  - (* no optional part: no extension headers either *)
    assert (Fe : g_eflag l = false /\ g_sflag l = false /\ g_nflag l = false) by (destruct (g_eflag l), (g_sflag l), (g_nflag l); try discriminate; repeat split).
    destruct Fe as [Fe [Fs Fn]].
    assert (Ex : g_exts l = []) by (destruct (g_exts l); [reflexivity|exfalso; specialize (He ltac:(discriminate)); congruence]).
    assert (Exb : xb = []) by (unfold xb; rewrite Ex; reflexivity). rewrite Exb in *. cbn [app].
    rewrite (Z.mod_small (zlen payload)) by lia. rewrite (gtp_region_ok 8) by reflexivity. intros X.
    match type of X with (Ok ?b, ?x) = _ => assert (Eb : bytes = b) by congruence; assert (El : l' = x) by congruence end. clear X.
    rewrite El. cbn [g_mlen]. clear El l'.
    set (h8 := [b0; g_mtype l] ++ cd_put16 (zlen payload) ++ ml_put32 (g_teid l)) in *.
    assert (Hn : zlen bytes = 8 + zlen payload) by (rewrite Eb, zlen_app; reflexivity).
    assert (HnthZ : forall k, 0 <= k < 8 -> nth (Z.to_nat k) bytes 0 = nth (Z.to_nat k) h8 0).
    { intros k Hk. rewrite Eb. apply app_nth1. change (length h8) with 8%nat. lia. }
    unfold gtp_decode_into, gtp_decode_gen. cbv zeta. replace (zlen bytes <? 8) with false by lia.
    rewrite !cd_idx_ok by lia. rewrite cd_rd16_ok by lia. cbn [ml_bind]. rewrite !HnthZ by lia.
    repeat match goal with |- context [Z.to_nat ?k] => let v := eval vm_compute in (Z.to_nat k) in change (Z.to_nat k) with v end.
    assert (P0 : nth 0 h8 0 = b0) by reflexivity. assert (P1 : nth 1 h8 0 = g_mtype l) by reflexivity.
    assert (P23 : nth 2 h8 0 * 256 + nth 3 h8 0 = zlen payload).
    { change (nth 2 h8 0) with ((zlen payload / 256) mod 256). change (nth 3 h8 0) with (zlen payload mod 256). lia. }
    rewrite P0, P1, P23. rewrite B1, B2, B3, B4, B5, B6.
    replace (zlen bytes <? 8 + zlen payload) with false by lia.
    rewrite ml_rd32_ok by lia. cbn [ml_bind]. rewrite !HnthZ by lia.
    repeat match goal with |- context [Z.to_nat ?k] => let v := eval vm_compute in (Z.to_nat k) in change (Z.to_nat k) with v end.
    assert (P4 : (nth 4 h8 0 * 256 + nth 5 h8 0) * 65536 + (nth 6 h8 0 * 256 + nth 7 h8 0) = g_teid l).
    { unfold h8. cbn [nth app cd_put16 ml_put32]. apply ml_put32_be. lia. }
    rewrite P4. rewrite Fl. rewrite !cd_slc_ok by lia. cbn [ml_bind].
    assert (S1 : slice bytes (Z.to_nat 0) (Z.to_nat 8) = h8) by (rewrite Eb; apply slice_from_start; reflexivity).
    assert (S2 : slice bytes (Z.to_nat 8) (Z.to_nat (zlen bytes)) = payload).
    { rewrite Hn, Eb. apply slice_to_end; [reflexivity|]. cbn [length app cd_put16 ml_put32]. unfold zlen. lia. }
    rewrite S1, S2. rewrite Fe, Fs, Fn, Ex. rewrite (Hs0 Fs), (Hn0 Fn). eexists. split; [reflexivity|]. symmetry. exact Eb.
Qed.
