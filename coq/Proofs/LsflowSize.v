(* Lsflow — size of the decoded structure: linear in the input (for datagrams below 2^32-4 octets, where the
   uint32 padding arithmetic cannot wrap). *)
From GP Require Import Base Codec LsflowModel LsflowProofs LsflowBounds.
From Coq Require Import Lia ZifyBool ZifyNat.
Open Scope Z_scope.

(* weight of a decoded value: one per node plus one per octet kept *)
Definition Wl_ (W : sv -> nat) (l : list sv) : nat := fold_right (fun x a => (W x + a)%nat) 0%nat l.
Fixpoint W (v : sv) : nat :=
  match v with
  | SU _ => 1%nat
  | SB b => S (length b)
  | SL l => S ((fix go (l : list sv) : nat := match l with [] => 0%nat | x :: t => (W x + go t)%nat end) l)
  end.
Definition Wl := Wl_ W.
Lemma W_SL l : W (SL l) = S (Wl l).
Proof. cbn [W]. apply f_equal. unfold Wl, Wl_. induction l as [|x t IH]; [reflexivity|]. cbn [fold_right]. rewrite IH. reflexivity. Qed.
Lemma Wl_app a b : Wl (a ++ b) = (Wl a + Wl b)%nat.
Proof. unfold Wl, Wl_. induction a as [|x t IH]; cbn [app fold_right]; [reflexivity|]. rewrite IH. lia. Qed.
Lemma Wl_cons x t : Wl (x :: t) = (W x + Wl t)%nat.
Proof. reflexivity. Qed.
Lemma Wl_nil : Wl [] = 0%nat.
Proof. reflexivity. Qed.

Definition small (d : list Z) : Prop := zlen d < 4294967292.

(* ------------------------------------------------------------------ inversion of the primitives *)
Lemma pbind_inv {A B} (p : P A) (f : A -> P B) d x r :
  pbind p f d = Ok (x, r) -> exists a r1, p d = Ok (a, r1) /\ f a r1 = Ok (x, r).
Proof. unfold pbind. destruct (p d) as [[a r1]|e|s]; try discriminate. intros H. exists a, r1. split; [reflexivity | exact H]. Qed.
Lemma pret_inv {A} (a : A) d x r : pret a d = Ok (x, r) -> x = a /\ r = d.
Proof. unfold pret. intros H. inversion H. split; reflexivity. Qed.
Lemma pw_inv e d v r : p_w e d = Ok (v, r) -> length d = (4 + length r)%nat.
Proof. unfold p_w. destruct (sf_short 4 d); [discriminate|]. apply p_u32_len. Qed.
Lemma pshort_inv n e d u r : p_short n e d = Ok (u, r) -> r = d /\ (n <= length d)%nat.
Proof. unfold p_short. destruct (sf_short n d) eqn:E; [discriminate|]. intros H. inversion H; subst. split; [reflexivity|]. apply short_false. exact E. Qed.
Lemma sf_split_len1 : forall n d a r, sf_split n d = Some (a, r) -> length a = n.
Proof.
  induction n as [|n IH]; intros d a r E; cbn in E.
  - inversion E. reflexivity.
  - destruct d as [|x t]; [discriminate|]. destruct (sf_split n t) as [[a' r']|] eqn:E2; [|discriminate].
    inversion E; subst. cbn [length]. f_equal. eapply IH. exact E2.
Qed.
Lemma pbytes_inv n d b r : p_bytes n d = Ok (b, r) -> length d = (n + length r)%nat /\ length b = n.
Proof.
  unfold p_bytes. destruct (sf_split n d) as [[a r1]|] eqn:E; [|discriminate]. intros H. inversion H; subst.
  split; [eapply sf_split_len; exact E | eapply sf_split_len1; exact E].
Qed.
Lemma ptake_inv n d x r : p_take n d = Ok (x, r) ->
  0 <= n /\ (length x + length r = length d)%nat /\ length x = Z.to_nat n.
Proof.
  unfold p_take. destruct ((0 <=? n) && (n <=? zlen d)) eqn:E; [|discriminate]. intros H. inversion H; subst.
  unfold zlen in E. rewrite firstn_length, skipn_length. lia.
Qed.

Lemma pfield_inv f d vs r : p_field f d = Ok (vs, r) -> length d = (fsize f + length r)%nat /\ (Wl vs <= fsize f + 1)%nat.
Proof.
  destruct f; cbn [p_field fsize]; intros H.
  - apply pbind_inv in H. destruct H as [v [r1 [H1 H2]]]. apply p_u32_len in H1. apply pret_inv in H2. destruct H2; subst. cbn. lia.
  - apply pbind_inv in H. destruct H as [v [r1 [H1 H2]]]. apply p_u32_len in H1. apply pret_inv in H2. destruct H2; subst. cbn. lia.
  - apply pbind_inv in H. destruct H as [v [r1 [H1 H2]]]. apply p_u32_len in H1.
    apply pbind_inv in H2. destruct H2 as [v2 [r2 [H2 H3]]]. apply p_u32_len in H2. apply pret_inv in H3. destruct H3; subst. cbn. lia.
  - apply pbind_inv in H. destruct H as [v [r1 [H1 H2]]]. apply p_u32_len in H1.
    apply pbind_inv in H2. destruct H2 as [v2 [r2 [H2 H3]]]. apply p_u32_len in H2. apply pret_inv in H3. destruct H3; subst. cbn. lia.
  - apply pbind_inv in H. destruct H as [v [r1 [H1 H2]]]. apply pbytes_inv in H1. apply pret_inv in H2. destruct H2; subst. cbn. lia.
  - apply pbind_inv in H. destruct H as [v [r1 [H1 H2]]]. apply pbytes_inv in H1. apply pret_inv in H2. destruct H2; subst. cbn. lia.
Qed.

Lemma pshape_inv : forall sh d vs r, p_shape sh d = Ok (vs, r) ->
  length d = (shsize sh + length r)%nat /\ (Wl vs <= shsize sh + length sh)%nat.
Proof.
  induction sh as [|f t IH]; intros d vs r H; cbn [p_shape shsize length] in *.
  - apply pret_inv in H. destruct H; subst. cbn. lia.
  - apply pbind_inv in H. destruct H as [a [r1 [H1 H2]]]. apply pfield_inv in H1.
    apply pbind_inv in H2. destruct H2 as [b [r2 [H2 H3]]]. apply IH in H2. apply pret_inv in H3. destruct H3; subst.
    rewrite Wl_app. lia.
Qed.
Lemma pfixed_inv m sh d vs r : p_fixed m sh d = Ok (vs, r) ->
  length d = (shsize sh + length r)%nat /\ (Wl vs <= shsize sh + length sh)%nat.
Proof.
  unfold p_fixed. intros H. apply pbind_inv in H. destruct H as [u [r1 [H1 H2]]]. apply pshort_inv in H1. destruct H1; subst.
  apply pshape_inv. exact H2.
Qed.
Lemma pwords_inv : forall n d l r, p_words n d = Ok (l, r) -> length d = (4 * n + length r)%nat /\ Wl l = n.
Proof.
  induction n as [|n IH]; intros d l r H; cbn [p_words] in H.
  - apply pret_inv in H. destruct H; subst. cbn. lia.
  - apply pbind_inv in H. destruct H as [v [r1 [H1 H2]]]. apply p_u32_len in H1.
    apply pbind_inv in H2. destruct H2 as [l' [r2 [H2 H3]]]. apply IH in H2. apply pret_inv in H3. destruct H3; subst.
    rewrite Wl_cons. cbn [W]. lia.
Qed.
Lemma pwordserr_inv : forall n e d l r, p_words_err n e d = Ok (l, r) -> length d = (4 * n + length r)%nat /\ Wl l = n.
Proof.
  induction n as [|n IH]; intros e d l r H; cbn [p_words_err] in H.
  - apply pret_inv in H. destruct H; subst. cbn. lia.
  - apply pbind_inv in H. destruct H as [v [r1 [H1 H2]]]. apply pw_inv in H1.
    apply pbind_inv in H2. destruct H2 as [l' [r2 [H2 H3]]]. apply IH in H2. apply pret_inv in H3. destruct H3; subst.
    rewrite Wl_cons. cbn [W]. lia.
Qed.

Lemma pad32_ge n d : 0 <= n <= zlen d -> small d -> n <= pad32 n.
Proof. unfold pad32, small. intros H S. lia. Qed.

Lemma pxstr_inv n extra e d x r : small d -> p_xstr n extra e d = Ok (x, r) ->
  (length r <= length d)%nat /\ (W x + 2 * length r <= 2 * length d + 1)%nat.
Proof.
  intros S. unfold p_xstr. cbv zeta. destruct ((n >? zlen d) || (pad32 n + extra >? zlen d)) eqn:C; [discriminate|].
  destruct (p_take (pad32 n) d) as [[y r1]|e1|s1] eqn:T; try discriminate. intros H. inversion H; subst.
  apply ptake_inv in T. destruct T as [T0 [T1 T2]].
  cbn [W]. rewrite firstn_length.
  destruct (Z_le_gt_dec 0 n) as [Hn|Hn].
  - pose proof (pad32_ge n d ltac:(lia) S). lia.
  - assert (Z.to_nat n = 0%nat) by lia. lia.
Qed.

(* ------------------------------------------------------------------ record decoders *)
Lemma W_SU v : W (SU v) = 1%nat. Proof. reflexivity. Qed.
Lemma W_SB b : W (SB b) = S (length b). Proof. reflexivity. Qed.
Lemma small_le d d' : small d -> (length d' <= length d)%nat -> small d'.
Proof. unfold small, zlen. lia. Qed.

Ltac inv1 :=
  match goal with
  | H : pbind _ _ _ = Ok _ |- _ =>
    let a := fresh "a" in let r1 := fresh "r" in let H1 := fresh "H" in
    apply pbind_inv in H; destruct H as [a [r1 [H1 H]]]; cbv beta in H
  | H : pret _ _ = Ok _ |- _ => apply pret_inv in H; destruct H; subst
  | H : p_u32 _ = Ok _ |- _ => apply p_u32_len in H
  | H : p_w _ _ = Ok _ |- _ => apply pw_inv in H
  | H : p_short _ _ _ = Ok _ |- _ => apply pshort_inv in H; destruct H; subst
  | H : p_fixed _ _ _ = Ok _ |- _ => apply pfixed_inv in H; destruct H
  | H : p_shape _ _ = Ok _ |- _ => apply pshape_inv in H; destruct H
  | H : p_field _ _ = Ok _ |- _ => apply pfield_inv in H; destruct H
  | H : p_words _ _ = Ok _ |- _ => apply pwords_inv in H; destruct H
  | H : p_words_err _ _ _ = Ok _ |- _ => apply pwordserr_inv in H; destruct H
  | H : p_take _ _ = Ok _ |- _ => apply ptake_inv in H; destruct H as [? [? ?]]
  end.
Ltac ifd H := match type of H with (if ?c then _ else _) = _ => destruct c eqn:?; [discriminate|] end.
Ltac md H := match type of H with match ?t with _ => _ end = _ => destruct t as [[? ?]|?|?] eqn:?; try discriminate end.
Lemma Ok_inj2 {A B} (a a' : A) (b b' : B) : @Ok (A * B) (a, b) = Ok (a', b') -> a' = a /\ b' = b.
Proof. intros H. inversion H. split; reflexivity. Qed.
Ltac okinv H := apply Ok_inj2 in H; destruct H; subst.
Ltac wsimp := repeat first [rewrite Wl_app | rewrite Wl_cons | rewrite Wl_nil | rewrite W_SL | rewrite W_SU | rewrite W_SB].
Ltac nums := cbn [shsize fsize length Nat.add] in *.
Ltac xstr S :=
  match goal with
  | H : p_xstr _ _ _ _ = Ok _ |- _ =>
    apply pxstr_inv in H; [destruct H | eapply small_le; [exact S | nums; lia]]
  end.

(* a record decoder: the fields weigh at most twice the octets consumed, with room for the record node and its kind *)
Definition recw (p : P (list sv)) := forall d x r, small d -> p d = Ok (x, r) ->
  (Wl x + 2 + 2 * length r <= 2 * length d)%nat.

Lemma raw_w : recw p_raw.
Proof.
  intros d x r S H. unfold p_raw in H. repeat inv1. cbv beta zeta in H. ifd H. md H. okinv H.
  repeat inv1. wsimp. nums. lia.
Qed.

Lemma router_w : recw p_router.
Proof.
  intros d x r S H. unfold p_router in H. repeat inv1. wsimp. nums. lia.
Qed.

Lemma path_w d x r : p_path d = Ok (x, r) -> (W x + 2 * length r <= 2 * length d)%nat.
Proof.
  intros H. unfold p_path in H. repeat inv1. ifd H. md H. okinv H. repeat inv1. wsimp. lia.
Qed.

Lemma paths_w : forall fuel cnt d l r, p_paths fuel cnt d = Ok (l, r) -> (Wl l + 2 * length r <= 2 * length d)%nat.
Proof.
  induction fuel as [|f IH]; intros cnt d l r H; cbn [p_paths] in H.
  - destruct (cnt <=? 0); [|discriminate]. inversion H; subst. wsimp. lia.
  - destruct (cnt <=? 0); [inversion H; subst; wsimp; lia|].
    destruct (p_path d) as [[x r1]|e|s] eqn:E1; try discriminate. apply path_w in E1.
    destruct (p_paths f (cnt - 1) r1) as [[l' r']|e|s] eqn:E; try discriminate.
    inversion H; subst. apply IH in E. wsimp. lia.
Qed.

Lemma gateway_w : recw p_gateway.
Proof.
  intros d x r S H. unfold p_gateway in H. repeat inv1. md H.
  match goal with E : p_paths _ _ _ = Ok _ |- _ => apply paths_w in E end.
  repeat inv1. ifd H. md H. repeat inv1. wsimp. nums. lia.
Qed.

Lemma url_w : recw p_url.
Proof.
  intros d x r S H. unfold p_url in H. repeat inv1. xstr S. xstr S. wsimp. nums. lia.
Qed.

Lemma user_w : recw p_user.
Proof.
  intros d x r S H. unfold p_user in H. repeat inv1. xstr S. xstr S. wsimp. nums. lia.
Qed.

Lemma fixed_w m sh : (length sh + 2 <= shsize sh)%nat -> recw (p_fixed m sh).
Proof. intros Hs d x r S H. repeat inv1. lia. Qed.

Lemma tunnel_w m sh : (length sh <= shsize sh + 4)%nat -> recw (p_tunnel m sh).
Proof. intros Hs d x r S H. unfold p_tunnel in H. repeat inv1. wsimp. nums. lia. Qed.

Lemma flow_fixed_w ty m sh : flow_fixed ty = Some (m, sh) -> (length sh + 2 <= shsize sh)%nat.
Proof.
  unfold flow_fixed.
  repeat match goal with |- context [if ?b then _ else _] => destruct b end;
    intros H; try discriminate; inversion H; subst; cbn; lia.
Qed.
Lemma counter_fixed_w ty m sh : counter_fixed ty = Some (m, sh) -> (length sh + 2 <= shsize sh)%nat.
Proof.
  unfold counter_fixed.
  repeat match goal with |- context [if ?b then _ else _] => destruct b end;
    intros H; try discriminate; inversion H; subst; cbn; lia.
Qed.

Lemma skip_err_never {A} e d (x : A) r : p_skip_err e d = Ok (x, r) -> False.
Proof. unfold p_skip_err. destruct (p_skip d) as [[u r1]|e1|s1]; discriminate. Qed.

Lemma flow_record_w ty : recw (p_flow_record ty).
Proof.
  unfold p_flow_record. destruct (flow_fixed ty) as [[m sh]|] eqn:E.
  - apply fixed_w. eapply flow_fixed_w. exact E.
  - repeat match goal with |- context [if ?b then _ else _] => destruct b end;
      first [apply raw_w | apply router_w | apply gateway_w | apply user_w | apply url_w | (apply tunnel_w; cbn; lia) | idtac].
    + intros d x r S H. exfalso. eapply skip_err_never. exact H.
    + intros d x r S H. discriminate.
Qed.

Lemma frecs_w : forall fuel cnt d l r, small d -> p_frecs fuel cnt d = Ok (l, r) ->
  (Wl l + 2 * length r <= 2 * length d)%nat.
Proof.
  induction fuel as [|f IH]; intros cnt d l r S H; cbn [p_frecs] in H.
  - destruct (cnt <=? 0); [|discriminate]. inversion H; subst. wsimp. lia.
  - destruct (cnt <=? 0); [inversion H; subst; wsimp; lia|].
    destruct (sf_short 4 d); [discriminate|].
    destruct (p_u32 d) as [[tag x]|e|s]; try discriminate.
    destruct (tag / 4096 =? 0).
    + destruct (p_flow_record (tag mod 4096) d) as [[fs r1]|e|s] eqn:E1; try discriminate.
      apply flow_record_w in E1; [|exact S].
      destruct (p_frecs f (cnt - 1) r1) as [[l' r']|e|s] eqn:E; try discriminate.
      inversion H; subst. apply IH in E; [|eapply small_le; [exact S | lia]]. wsimp. lia.
    + pose proof (skip_good d (Nat.le_0_l _)) as G.
      destruct (p_skip d) as [[u r1]|e|s]; try discriminate.
      apply IH in H; [|eapply small_le; [exact S | lia]]. lia.
Qed.

Lemma flow_sample_w ex d x r : small d -> p_flow_sample ex d = Ok (x, r) -> (W x + 2 * length r <= 2 * length d)%nat.
Proof.
  intros S H. unfold p_flow_sample in H. destruct ex; repeat inv1; md H; okinv H;
    (match goal with E : p_frecs _ _ _ = Ok _ |- _ => apply frecs_w in E; [|eapply small_le; [exact S | lia]] end);
    wsimp; lia.
Qed.

Lemma ethc_w : recw p_ethc.
Proof. intros d x r S H. unfold p_ethc in H. repeat inv1. wsimp. nums. lia. Qed.

Lemma portname_w : recw p_portname.
Proof.
  intros d x r S H. unfold p_portname in H. repeat inv1. cbv beta zeta in H. ifd H. md H. okinv H. repeat inv1.
  wsimp. rewrite firstn_length. nums.
  match goal with H : length _ = Z.to_nat ?np |- _ => set (NP := np) in * end.
  assert (Z.to_nat a0 <= Z.to_nat NP \/ (length r0 <= 3)%nat)%nat.
  { unfold NP, small, zlen in *. clear NP. destruct (a0 mod 4 =? 0) eqn:M; lia. }
  lia.
Qed.

Lemma counter_record_w ty : recw (p_counter_record ty).
Proof.
  unfold p_counter_record. destruct (counter_fixed ty) as [[m sh]|] eqn:E.
  - apply fixed_w. eapply counter_fixed_w. exact E.
  - repeat match goal with |- context [if ?b then _ else _] => destruct b end;
      first [apply ethc_w | apply portname_w | idtac].
    + intros d x r S H. exfalso. eapply skip_err_never. exact H.
    + intros d x r S H. discriminate.
Qed.

Lemma crecs_w : forall fuel cnt d l r, small d -> p_crecs fuel cnt d = Ok (l, r) ->
  (Wl l + 2 * length r <= 2 * length d)%nat.
Proof.
  induction fuel as [|f IH]; intros cnt d l r S H; cbn [p_crecs] in H.
  - destruct (cnt <=? 0); [|discriminate]. inversion H; subst. wsimp. lia.
  - destruct (cnt <=? 0); [inversion H; subst; wsimp; lia|].
    destruct (sf_short 4 d); [discriminate|].
    destruct (p_u32 d) as [[tag x]|e|s]; try discriminate.
    destruct (p_counter_record (tag mod 4096) d) as [[fs r1]|e|s] eqn:E1; try discriminate.
    apply counter_record_w in E1; [|exact S].
    destruct (p_crecs f (cnt - 1) r1) as [[l' r']|e|s] eqn:E; try discriminate.
    inversion H; subst. apply IH in E; [|eapply small_le; [exact S | lia]]. wsimp. lia.
Qed.

Lemma counter_sample_w ex d x r : small d -> p_counter_sample ex d = Ok (x, r) -> (W x + 2 * length r <= 2 * length d)%nat.
Proof.
  intros S H. unfold p_counter_sample in H. destruct ex; repeat inv1; md H; okinv H;
    (match goal with E : p_crecs _ _ _ = Ok _ |- _ => apply crecs_w in E; [|eapply small_le; [exact S | lia]] end);
    wsimp; lia.
Qed.

Lemma samples_w : forall fuel cnt fs cs d, small d ->
  (Wl (fst (fst (fst (sf_samples fuel cnt fs cs d)))) + Wl (snd (fst (fst (sf_samples fuel cnt fs cs d))))
   <= Wl fs + Wl cs + 2 * length d)%nat.
Proof.
  induction fuel as [|f IH]; intros cnt fs cs d S; cbn [sf_samples].
  - destruct (cnt <=? 0); cbn [fst snd]; lia.
  - destruct (cnt <=? 0); [cbn [fst snd]; lia|].
    destruct (sf_short 4 d); [cbn [fst snd]; lia|].
    destruct (p_u32 d) as [[tag x]|e|s]; [|cbn [fst snd]; lia ..]. cbv zeta.
    destruct ((tag mod 4096 =? 1) || (tag mod 4096 =? 3)).
    + destruct (p_flow_sample (tag mod 4096 =? 3) d) as [[x1 r]|e|s] eqn:E; [|cbn [fst snd]; lia ..].
      apply flow_sample_w in E; [|exact S].
      specialize (IH (cnt - 1) (fs ++ [x1]) cs r ltac:(eapply small_le; [exact S | lia])).
      rewrite Wl_app, Wl_cons, Wl_nil in IH. lia.
    + destruct ((tag mod 4096 =? 2) || (tag mod 4096 =? 4)); [|cbn [fst snd]; lia].
      destruct (p_counter_sample (tag mod 4096 =? 4) d) as [[x1 r]|e|s] eqn:E; [|cbn [fst snd]; lia ..].
      apply counter_sample_w in E; [|exact S].
      specialize (IH (cnt - 1) fs (cs ++ [x1]) r ltac:(eapply small_le; [exact S | lia])).
      rewrite Wl_app, Wl_cons, Wl_nil in IH. lia.
Qed.

Lemma sf_decode_size old data : zlen data < 4294967292 ->
  let s := fst (fst (sf_decode_into old data)) in
  (Wl (sf_fs s) + Wl (sf_cs s) <= 2 * length data)%nat.
Proof.
  intros Sm. cbv zeta. unfold sf_decode_into, sf_decode_gen. cbv zeta. cbn [sf_fs sf_cs].
  destruct (sf_short 8 data); [cbn [fst snd sf_fs sf_cs Wl Wl_ fold_right]; lia|].
  destruct (p_u32 data) as [[ver d1]|e|s] eqn:E1; [|cbn [fst snd sf_fs sf_cs Wl Wl_ fold_right]; lia ..]. apply p_u32_len in E1.
  destruct (p_u32 d1) as [[at_ d2]|e|s] eqn:E2; [|cbn [fst snd sf_fs sf_cs Wl Wl_ fold_right]; lia ..]. apply p_u32_len in E2.
  destruct (sf_short (ip_len at_ + 16) d2); [cbn [fst snd sf_fs sf_cs Wl Wl_ fold_right]; lia|].
  unfold p_bytes. destruct (sf_split (ip_len at_) d2) as [[agent d3]|] eqn:E3; [|cbn [fst snd sf_fs sf_cs Wl Wl_ fold_right]; lia]. apply sf_split_len in E3.
  destruct (p_u32 d3) as [[sub d4]|e|s] eqn:E4; [|cbn [fst snd sf_fs sf_cs Wl Wl_ fold_right]; lia ..]. apply p_u32_len in E4.
  destruct (p_u32 d4) as [[seq d5]|e|s] eqn:E5; [|cbn [fst snd sf_fs sf_cs Wl Wl_ fold_right]; lia ..]. apply p_u32_len in E5.
  destruct (p_u32 d5) as [[up d6]|e|s] eqn:E6; [|cbn [fst snd sf_fs sf_cs Wl Wl_ fold_right]; lia ..]. apply p_u32_len in E6.
  destruct (p_u32 d6) as [[cnt d7]|e|s] eqn:E7; [|cbn [fst snd sf_fs sf_cs Wl Wl_ fold_right]; lia ..]. apply p_u32_len in E7.
  destruct (cnt <? 1); [cbn [fst snd sf_fs sf_cs Wl Wl_ fold_right]; lia|].
  pose proof (samples_w (Datatypes.S (length d7)) cnt [] [] d7 ltac:(eapply (small_le data); [exact Sm | lia])) as L.
  destruct (sf_samples (S (length d7)) cnt [] [] d7) as [[[fs cs] o] tr]. cbn [fst snd sf_fs sf_cs] in *. rewrite !Wl_nil in L. lia.
Qed.
