(* Lemmas about the DHCPv4 codec model (Model/Ldhcp4Model.v). *)
From GP Require Import Base ListX Codec MiscLib Ldhcp4Model.
From Coq Require Import Lia ZifyBool ZifyNat.
Open Scope Z_scope.
Ltac Zify.zify_post_hook ::= Z.div_mod_to_equations.

Lemma zlen_slice_d (l : list Z) a b : 0 <= a <= b -> b <= zlen l -> zlen (slice l (Z.to_nat a) (Z.to_nat b)) = b - a.
Proof. intros H1 H2. unfold zlen in *. rewrite slice_length by lia. lia. Qed.

Lemma dh_opts_safe : forall fuel o start acc, bytes_ok o -> 0 <= start <= zlen o -> zlen o - start < Z.of_nat fuel ->
  is_panic (snd (dh_opts fuel o start acc)) = false /\ snd (dh_opts fuel o start acc) <> Err 99.
Proof.
  induction fuel as [|f IH]; intros o start acc Hb H0 Hf.
  - lia.
  - cbn [dh_opts]. destruct (zlen o <=? start) eqn:C0; [cbn [snd]; split; [reflexivity|discriminate]|].
    rewrite cd_slc_ok by lia.
    set (d := slice o (Z.to_nat start) (Z.to_nat (zlen o))).
    assert (Hd : zlen d = zlen o - start) by (unfold d; apply zlen_slice_d; lia).
    assert (Hbd : bytes_ok d) by (unfold d; apply bytes_ok_slice; exact Hb).
    rewrite cd_idx_ok by lia.
    destruct ((nth (Z.to_nat 0) d 0 =? 0) || (nth (Z.to_nat 0) d 0 =? 255)) eqn:C1.
    + destruct (nth (Z.to_nat 0) d 0 =? 255); [cbn [snd]; split; [reflexivity|discriminate]|]. apply IH; [exact Hb|lia|lia].
    + destruct (zlen d <? 2) eqn:C2; [cbn [snd]; split; [reflexivity|discriminate]|].
      rewrite cd_idx_ok by lia. pose proof (bytes_ok_nth d (Z.to_nat 1) Hbd) as B1. set (len := nth (Z.to_nat 1) d 0) in *.
      destruct (zlen d - 2 <? len) eqn:C3; [cbn [snd]; split; [reflexivity|discriminate]|].
      rewrite cd_slc_ok by lia. apply IH; [exact Hb|lia|lia].
Qed.

Lemma dh_decode_safe orig old data : bytes_ok data ->
  is_panic (snd (fst (dh_decode_gen orig old data))) = false /\ snd (fst (dh_decode_gen orig old data)) <> Err 99.
Proof.
  intros Hb. unfold dh_decode_gen. cbv zeta. destruct (zlen data <? 240) eqn:C0; [split; [reflexivity|discriminate]|].
  rewrite !cd_idx_ok by lia. cbn [ml_bind].
  pose proof (bytes_ok_nth data (Z.to_nat 2) Hb) as B2. set (hl := nth (Z.to_nat 2) data 0) in *.
  destruct (16 <? hl) eqn:C1; [split; [reflexivity|discriminate]|].
  rewrite !ml_rd32_ok by lia. rewrite !cd_rd16_ok by lia. rewrite !cd_slc_ok by lia. cbn [ml_bind].
  match goal with |- context [if negb ?c then _ else _] => destruct c; cbn [negb] end; [|split; [reflexivity|discriminate]].
  destruct (zlen data <=? 240) eqn:C2; [split; [reflexivity|discriminate]|].
  set (o := slice data (Z.to_nat 240) (Z.to_nat (zlen data))).
  pose proof (dh_opts_safe (S (length o)) o 0 [] (bytes_ok_slice _ _ _ Hb) ltac:(pose proof (zlen_nonneg o); lia) ltac:(unfold zlen; lia)) as [P1 P2].
  destruct (dh_opts (S (length o)) o 0 []) as [opts [u|e|s]]; cbn [snd fst] in *.
  - split; [reflexivity|discriminate].
  - split; [reflexivity|]. intros X. apply P2. congruence.
  - discriminate.
Qed.

Ltac dstep :=
  match goal with
  | |- context [ml_bind ?o _ _ _] => destruct o eqn:?; cbn [ml_bind]
  | |- context [if ?c then _ else _] => destruct c eqn:?
  | |- context [match dh_opts ?a ?b ?c ?d with _ => _ end] => destruct (dh_opts a b c d) as [? [?|?|?]]
  end.

Lemma dh_decode_fresh old data :
  let r1 := dh_decode_into old data in
  let r2 := dh_decode_into dh_fresh data in
  snd (fst r1) = snd (fst r2) /\ snd r1 = snd r2 /\
  (snd (fst r1) = Ok tt -> fst (fst r1) = fst (fst r2)).
Proof.
  cbv zeta. unfold dh_decode_into, dh_decode_gen. cbv zeta.
  repeat (dstep; try solve [cbn [fst snd]; split; [reflexivity | split; [reflexivity | try (intros X; discriminate X); try reflexivity]]]).
  all: try (cbn [fst snd]; split; [reflexivity | split; [reflexivity | intros _; reflexivity]]).
Qed.

Definition dh_hdr240 : list Z := [1;1;6;0] ++ repeat 0 232 ++ [99;130;83;99].

(* before the repair: a 240-octet message (no options area) left Contents of the earlier packet in place *)
Lemma dh_orig_stale : exists l1 l2,
  dh_decode_orig dh_fresh (dh_hdr240 ++ [255]) = (l1, Ok tt, false) /\ dh_decode_orig l1 dh_hdr240 = (l2, Ok tt, false) /\
  h_contents l2 = dh_hdr240 ++ [255] /\ h_contents (fst (fst (dh_decode_orig dh_fresh dh_hdr240))) = [] /\
  h_contents (fst (fst (dh_decode_into l1 dh_hdr240))) = dh_hdr240.
Proof. eexists. eexists. split; [vm_compute; reflexivity|]. split; [vm_compute; reflexivity|]. repeat split; vm_compute; reflexivity. Qed.

(* before the repair: an option whose Data is longer than its Length made SerializeTo slice out of range *)
Lemma dh_orig_serialize_panics :
  let l := mkDh [] [] 1 1 6 0 0 0 0 [] [] [] [] [] [] [] [mkDo 12 0 [1;2;3;4;5;6;7;8]; mkDo 53 1 [1]] in
  is_panic (fst (dh_serialize_orig l [] false false [])) = true /\ is_panic (fst (dh_serialize l [] false false [])) = false.
Proof. split; vm_compute; reflexivity. Qed.

Lemma dh_serialize_junk_free orig l payload fixl csum junk1 junk2 :
  dh_serialize_gen orig l payload fixl csum junk1 = dh_serialize_gen orig l payload fixl csum junk2.
Proof. reflexivity. Qed.

(* ---------------------------------------------------------------- serializer (repaired): no panic *)
Lemma dh_put_ok b a bnd vs : 0 <= a <= bnd -> bnd <= zlen b ->
  dh_put b a bnd vs = Ok (cd_wr b a (firstn (Z.to_nat (bnd - a)) vs)).
Proof.
  intros H1 H2. unfold dh_put. rewrite cd_slc_ok by lia. cbn [obind]. apply ml_wrc_ok; [lia|].
  unfold zlen. rewrite firstn_length. unfold zlen in H2. lia.
Qed.

Lemma ml_copy_ok b i vs : 0 <= i <= zlen b -> ml_copy b i vs = Ok (cd_wr b i (firstn (Z.to_nat (zlen b - i)) vs)).
Proof. intros H. unfold ml_copy. destruct (0 <=? i) eqn:A, (i <=? zlen b) eqn:B; try lia. reflexivity. Qed.

Definition dh_osum (l : list dopt) : Z := fold_left (fun a o => a + dh_osize false o) l 0.
Lemma dh_fold_shift l : forall x, fold_left (fun a o => a + dh_osize false o) l x = x + dh_osum l.
Proof. unfold dh_osum. induction l as [|o t IH]; intros x; cbn [fold_left]; [lia|]. rewrite IH, (IH (0 + _)). lia. Qed.
Lemma dh_osum_cons o t : dh_osum (o :: t) = dh_osize false o + dh_osum t.
Proof. unfold dh_osum at 1. cbn [fold_left]. rewrite dh_fold_shift. lia. Qed.
Lemma dh_osize_pos o : 1 <= dh_osize false o.
Proof. unfold dh_osize. pose proof (zlen_nonneg (do_data o)). destruct (do_type o =? 0); lia. Qed.
Lemma dh_osum_nonneg l : 0 <= dh_osum l.
Proof. induction l as [|o t IH]; [unfold dh_osum; cbn; lia|]. rewrite dh_osum_cons. pose proof (dh_osize_pos o). lia. Qed.

Lemma dh_write_opts_ok : forall l b off, 0 <= off -> off + dh_osum l + 1 <= zlen b ->
  exists b', dh_write_opts b off l = Ok (b', off + dh_osum l) /\ zlen b' = zlen b.
Proof.
  induction l as [|o t IH]; intros b off H0 H1; cbn [dh_write_opts].
  - exists b. unfold dh_osum. cbn [fold_left]. rewrite Z.add_0_r. split; reflexivity.
  - rewrite dh_osum_cons in H1. pose proof (dh_osum_nonneg t) as Nt. pose proof (dh_osize_pos o) as No. pose proof (zlen_nonneg (do_data o)) as Nd.
    rewrite cd_slc_ok by lia. cbn [obind]. unfold dh_osize in *.
    destruct ((do_type o =? 0) || (do_type o =? 255)) eqn:C.
    + rewrite ml_wrc_ok by (rewrite ?zlen_one; destruct (do_type o =? 0); lia). cbn [obind].
      destruct (IH (cd_wr b off [do_type o mod 256]) (if do_type o =? 0 then off + 1 else off + 2 + zlen (do_data o))) as [b' [E L]].
      * destruct (do_type o =? 0); lia.
      * rewrite cd_wr_length. destruct (do_type o =? 0); lia.
      * exists b'. rewrite E, L, cd_wr_length, dh_osum_cons. unfold dh_osize. split; [f_equal; f_equal; destruct (do_type o =? 0); lia|reflexivity].
    + assert (T0 : (do_type o =? 0) = false) by (destruct (do_type o =? 0); [discriminate|reflexivity]). rewrite T0 in *.
      rewrite ml_wrc_ok by (rewrite ?zlen_one; lia). cbn [obind].
      rewrite ml_wrc_ok by (rewrite ?cd_wr_length, ?zlen_one; lia). cbn [obind].
      rewrite ml_copy_ok by (rewrite ?cd_wr_length; lia). cbn [obind].
      match goal with |- context [dh_write_opts ?bb ?oo t] => destruct (IH bb oo) as [b' [E L]] end.
      * lia.
      * rewrite !cd_wr_length. lia.
      * exists b'. rewrite E, L, !cd_wr_length, dh_osum_cons. unfold dh_osize. rewrite T0. split; [f_equal; f_equal; lia|reflexivity].
Qed.

Lemma dh_serialize_no_panic l payload fixl csum junk : is_panic (fst (dh_serialize l payload fixl csum junk)) = false.
Proof.
  unfold dh_serialize, dh_serialize_gen. cbn [negb andb]. rewrite andb_true_r.
  destruct (if fixl then dh_fix_opts (h_options l) else (h_options l, true)) as [opts ok].
  cbv zeta. destruct ok; cbn [negb]; [|reflexivity].
  rewrite dh_fold_shift. pose proof (dh_osum_nonneg opts) as No.
  set (plen := 240 + dh_osum opts + 1).
  set (b0 := repeat 0 (Z.to_nat plen)).
  assert (L0 : zlen b0 = plen) by (unfold b0, zlen; rewrite repeat_length; lia).
  repeat (first [ rewrite ml_wrc_ok by (rewrite ?cd_wr_length, ?zlen_one, ?L0; lia)
                | rewrite dh_put_ok by (rewrite ?cd_wr_length, ?L0; lia) ]; cbn [obind]).
  match goal with |- context [dh_write_opts ?bb 240 opts] => destruct (dh_write_opts_ok opts bb 240 ltac:(lia)) as [b' [E L]] end.
  { rewrite !cd_wr_length, L0. lia. }
  rewrite E. cbn [obind fst snd]. rewrite !cd_wr_length, L0 in L.
  rewrite cd_slc_ok by lia. cbn [obind]. rewrite ml_wrc_ok by (rewrite ?zlen_one; lia). reflexivity.
Qed.
