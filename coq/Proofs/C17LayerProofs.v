(* C17: reachability of well-formed values through the op interpreter, and the per-layer
   flow constructors: the flow carries the header's address fields; swapping the fields gives
   the reversed flow. *)
From GP Require Import Base ListX C17Model C17Proofs.
From Coq Require Import Lia ZifyBool ZifyNat.
Open Scope Z_scope.

Ltac brk := repeat match goal with
  | |- context [if ?c then _ else _] => destruct c eqn:?
  | |- context [match ?c with Ok _ => _ | Err _ => _ | Panic _ => _ end] => destruct c eqn:?
  | |- context [match ?c with Some _ => _ | None => _ end] => destruct c eqn:?
  end.

Lemma int64_small t : -1000 <= t <= 1000 -> int64_ok t.
Proof. unfold int64_ok, two63. lia. Qed.

(* ---------------------------------------------------------------- layer flows are well formed *)
Lemma table_flow_wf k data f : bytes_ok data -> table_flow k data = Ok f -> wf_f f.
Proof.
  intros Hb. unfold table_flow.
  destruct k; cbn [flow_table]; try discriminate; intros H;
    (eapply new_flow_wf; [| | |exact H]; [apply int64_small; cbv; split; discriminate | apply Forall_slice, Hb | apply Forall_slice, Hb]).
Qed.

Lemma empty_flow_wf t f : -1000 <= t <= 1000 -> empty_flow t = Ok f -> wf_f f.
Proof.
  intros Ht H. unfold empty_flow in H. eapply new_flow_wf; [apply int64_small, Ht| | |exact H]; constructor.
Qed.

Lemma trunc_flow_wf a f : bytes_ok a -> new_flow EndpointMAC (trunc16 a) [] = Ok f -> wf_f f.
Proof.
  intros Hb H. eapply new_flow_wf; [| | |exact H].
  - apply int64_small; cbv; split; discriminate.
  - apply Forall_firstn, Hb.
  - constructor.
Qed.

Lemma layer_flow_wf k data f : bytes_ok data -> layer_flow k data = Ok f -> wf_f f.
Proof.
  intros Hb. unfold layer_flow.
  destruct (Nat.eqb (length data) 0); [discriminate|].
  destruct k; brk; try discriminate; intros H;
    first [ eapply table_flow_wf; [exact Hb|exact H]
          | eapply empty_flow_wf; [|exact H]; cbv; split; discriminate
          | eapply trunc_flow_wf; [|exact H]; apply Forall_slice, Hb ].
Qed.

(* ---------------------------------------------------------------- whole packets *)
Lemma transport_of_wf proto payload f : bytes_ok payload -> transport_of proto payload = Ok (Some f) -> wf_f f.
Proof.
  intros Hb. unfold transport_of. destruct (Nat.eqb (length payload) 0); [discriminate|].
  destruct (proto =? 6); [|destruct (proto =? 17); [|destruct (proto =? 132); [|discriminate]]];
    match goal with |- context [layer_flow ?k payload] => destruct (layer_flow k payload) eqn:E end;
    try discriminate; intros H; inversion H; subst; eapply layer_flow_wf; eassumption.
Qed.

Lemma ip4_next_wf d f : bytes_ok d -> ip4_next d = Ok (Some f) -> wf_f f.
Proof.
  intros Hb. unfold ip4_next. cbv zeta. destruct (_ || _)%bool; [discriminate|].
  apply transport_of_wf. apply Forall_skipn. destruct (_ <? _); [apply Forall_firstn|]; assumption.
Qed.

Lemma ip6_next_wf d f : bytes_ok d -> ip6_next d = Ok (Some f) -> wf_f f.
Proof.
  intros Hb. unfold ip6_next. cbv zeta. destruct (_ =? 0); [discriminate|].
  apply transport_of_wf. apply Forall_firstn, Forall_skipn, Hb.
Qed.

Definition opt_wf (o : option flow) : Prop := match o with Some f => wf_f f | None => True end.

Lemma stack_flows_wf data st : bytes_ok data -> stack_flows data = Ok st ->
  opt_wf (st_link st) /\ opt_wf (st_net st) /\ opt_wf (st_tr st).
Proof.
  intros Hb. unfold stack_flows.
  assert (Hp : bytes_ok (skipn 14 data)) by (apply Forall_skipn, Hb).
  destruct (layer_flow LEthernet data) as [lf| |] eqn:EL; try discriminate.
  2:{ intros H; inversion H; subst; cbn; auto. }
  pose proof (layer_flow_wf _ _ _ Hb EL) as Wl.
  destruct (Nat.eqb (length (skipn 14 data)) 0); [intros H; inversion H; subst; cbn; auto|].
  destruct (be16 data 12 =? 2048).
  - destruct (layer_flow LIPv4 (skipn 14 data)) as [nf| |] eqn:EN; try discriminate.
    pose proof (layer_flow_wf _ _ _ Hp EN) as Wn.
    destruct (ip4_decode (skipn 14 data)); try solve [intros H; inversion H; subst; cbn; auto].
    destruct (ip4_next (skipn 14 data)) as [[t|]| |] eqn:ET; try discriminate;
      intros H; inversion H; subst; cbn; (split; [exact Wl|split; [exact Wn|]]); try exact I.
    exact (ip4_next_wf _ _ Hp ET).
  - destruct (be16 data 12 =? 34525); [|discriminate].
    destruct (layer_flow LIPv6 (skipn 14 data)) as [nf| |] eqn:EN; try discriminate.
    pose proof (layer_flow_wf _ _ _ Hp EN) as Wn.
    destruct (length (skipn 14 data) <? 40)%nat; [intros H; inversion H; subst; cbn; auto|].
    destruct (ip6_next (skipn 14 data)) as [[t|]| |] eqn:ET; try discriminate;
      intros H; inversion H; subst; cbn; (split; [exact Wl|split; [exact Wn|]]); try exact I.
    exact (ip6_next_wf _ _ Hp ET).
Qed.

(* ---------------------------------------------------------------- reachability *)
Definition op_ok (o : op) : Prop :=
  match o with
  | ONewE t raw => int64_ok t /\ bytes_ok raw
  | ONewF t s d => int64_ok t /\ bytes_ok s /\ bytes_ok d
  | OLayer _ data => bytes_ok data
  | OPacket data => bytes_ok data
  | _ => True
  end.

Definition st_wf (s : state) : Prop := Forall wf_e (s_eps s) /\ Forall wf_f (s_fls s).

Lemma nth_error_Forall {A} (P : A -> Prop) l i x : Forall P l -> nth_error l i = Some x -> P x.
Proof. intros H E. rewrite Forall_forall in H. apply H. eapply nth_error_In; eassumption. Qed.

Lemma obs_of_flow_wf s o : st_wf s -> (forall f, o = Ok f -> wf_f f) -> st_wf (fst (obs_of_flow s o)).
Proof.
  intros [He Hf] H. destruct o as [f| |]; cbn; try (split; assumption).
  split; [assumption|]. apply Forall_app. split; [assumption|]. constructor; [apply H; reflexivity|constructor].
Qed.

Lemma invalid_endpoint_wf : wf_e invalid_endpoint.
Proof.
  change invalid_endpoint with (mkE 0 (length (@nil Z)) (copy16 [])). split; cbn [e_typ e_len e_raw].
  - apply int64_small; lia.
  - apply copy16_wf; [cbn; lia|constructor].
Qed.

Lemma invalid_flow_wf : wf_f invalid_flow.
Proof.
  change invalid_flow with (mkF 0 (length (@nil Z)) (length (@nil Z)) (copy16 []) (copy16 [])).
  repeat split; cbn [f_typ f_slen f_dlen f_src f_dst]; try (apply copy16_wf; [cbn; lia|constructor]).
  all: unfold two63; lia.
Qed.

Lemma step_wf s o : st_wf s -> op_ok o -> st_wf (fst (step s o)).
Proof.
  intros W Hok. pose proof W as [He Hf]. destruct o; cbn [step op_ok] in *.
  - destruct Hok as [Ht Hb]. destruct (new_endpoint t raw) eqn:E; cbn; try assumption.
    split; cbn; [|assumption]. apply Forall_app; split; [assumption|].
    constructor; [eapply new_endpoint_wf; eassumption|constructor].
  - destruct Hok as (Ht & Hs & Hd). apply obs_of_flow_wf; [assumption|].
    intros f E. eapply new_flow_wf; [| | |exact E]; assumption.
  - destruct (nth_error (s_eps s) i) eqn:E1; [|assumption].
    destruct (nth_error (s_eps s) j) eqn:E2; [|assumption].
    apply obs_of_flow_wf; [assumption|]. intros f E.
    eapply wf_from_endpoints; [| |exact E]; eapply nth_error_Forall; eassumption.
  - destruct (nth_error (s_fls s) k) eqn:E; [|assumption].
    pose proof (nth_error_Forall _ _ _ _ Hf E) as Wf. destruct (wf_endpoints _ Wf) as [W1 W2].
    unfold endpoints in *. cbn in *. split; cbn; [|assumption].
    apply Forall_app; split; [assumption|]. repeat (apply Forall_cons; [assumption|]). apply Forall_nil.
  - destruct (nth_error (s_fls s) k) eqn:E; [|assumption].
    pose proof (nth_error_Forall _ _ _ _ Hf E) as Wf. destruct (wf_endpoints _ Wf) as [W1 W2].
    split; cbn; [|assumption]. apply Forall_app; split; [assumption|]. repeat (apply Forall_cons; [assumption|]). apply Forall_nil.
  - destruct (nth_error (s_fls s) k) eqn:E; [|assumption].
    pose proof (nth_error_Forall _ _ _ _ Hf E) as Wf. destruct (wf_endpoints _ Wf) as [W1 W2].
    split; cbn; [|assumption]. apply Forall_app; split; [assumption|]. repeat (apply Forall_cons; [assumption|]). apply Forall_nil.
  - destruct (nth_error (s_fls s) k) eqn:E; [|assumption].
    apply obs_of_flow_wf; [assumption|]. intros f0 E0. inversion E0; subst.
    apply wf_reverse. eapply nth_error_Forall; eassumption.
  - split; cbn; apply Forall_app; split; try assumption; (apply Forall_cons; [|apply Forall_nil]).
    + apply invalid_endpoint_wf.
    + apply invalid_flow_wf.
  - destruct (nth_error (s_eps s) i); [|assumption]. destruct (nth_error (s_eps s) j); assumption.
  - destruct (nth_error (s_fls s) k); [|assumption]. destruct (nth_error (s_fls s) l); assumption.
  - apply obs_of_flow_wf; [assumption|]. intros f E. eapply layer_flow_wf; eassumption.
  - destruct (stack_flows data) as [st| |] eqn:E; try assumption.
    destruct (stack_flows_wf _ _ Hok E) as (W1 & W2 & W3).
    split; cbn; [assumption|]. repeat (apply Forall_app; split); try assumption.
    all: match goal with |- Forall _ (match ?o with _ => _ end) => destruct o end;
      cbn in *; try apply Forall_nil; (apply Forall_cons; [assumption|apply Forall_nil]).
  - assumption.
Qed.

Lemma run_from_wf ops : forall s, st_wf s -> Forall op_ok ops ->
  st_wf (fold_left (fun s o => fst (step s o)) ops s).
Proof.
  induction ops as [|o ops IH]; intros s W H; cbn; [assumption|].
  inversion H; subst. apply IH; [apply step_wf; assumption|assumption].
Qed.

Lemma run_wf ops : Forall op_ok ops -> st_wf (run ops).
Proof. intros H. apply run_from_wf; [split; constructor|assumption]. Qed.

(* ---------------------------------------------------------------- swapping adjacent fields *)
Lemma field_app_mid (A B R : list Z) off w :
  length A = off -> length B = w -> field (A ++ B ++ R) off w = B.
Proof.
  intros HA HB. unfold field, slice.
  rewrite firstn_app. rewrite firstn_all2 by lia.
  replace (off + w - length A)%nat with w by lia.
  rewrite firstn_app. rewrite firstn_all2 by lia. rewrite HB, Nat.sub_diag. cbn [firstn].
  rewrite app_nil_r. rewrite skipn_app. rewrite skipn_all2 by lia.
  rewrite HA, Nat.sub_diag. reflexivity.
Qed.

Lemma decomp3 (d : list Z) lo w : (lo + w + w <= length d)%nat ->
  exists A B C R, d = A ++ B ++ C ++ R /\ length A = lo /\ length B = w /\ length C = w.
Proof.
  intros H.
  exists (firstn lo d), (firstn w (skipn lo d)), (firstn w (skipn w (skipn lo d))), (skipn w (skipn w (skipn lo d))).
  repeat split.
  - rewrite !firstn_skipn. reflexivity.
  - rewrite firstn_length. lia.
  - rewrite firstn_length, skipn_length. lia.
  - rewrite firstn_length, !skipn_length. lia.
Qed.

Lemma swap_at_decomp (A B C R : list Z) lo w :
  length A = lo -> length B = w -> length C = w ->
  swap_at lo w (A ++ B ++ C ++ R) = A ++ C ++ B ++ R.
Proof.
  intros HA HB HC. unfold swap_at.
  destruct (length (A ++ B ++ C ++ R) <? lo + w + w)%nat eqn:E.
  { apply Nat.ltb_lt in E. rewrite !app_length in E. lia. }
  f_equal; [rewrite firstn_app, firstn_all2 by lia; replace (lo - length A)%nat with 0%nat by lia; apply app_nil_r|].
  f_equal.
  { replace (A ++ B ++ C ++ R) with ((A ++ B) ++ C ++ R) by (rewrite <- app_assoc; reflexivity).
    apply field_app_mid; [rewrite app_length; lia|assumption]. }
  f_equal.
  { apply field_app_mid; assumption. }
  replace (A ++ B ++ C ++ R) with ((A ++ B ++ C) ++ R) by (rewrite <- !app_assoc; reflexivity).
  rewrite skipn_app. rewrite skipn_all2 by (rewrite !app_length; lia).
  rewrite !app_length. replace (lo + w + w - (length A + (length B + length C)))%nat with 0%nat by lia.
  reflexivity.
Qed.

Lemma swap_at_short lo w d : (length d < lo + w + w)%nat -> swap_at lo w d = d.
Proof. intros H. unfold swap_at. destruct (length d <? lo + w + w)%nat eqn:E; [reflexivity|apply Nat.ltb_ge in E; lia]. Qed.

Lemma swap_at_length lo w d : length (swap_at lo w d) = length d.
Proof.
  destruct (Nat.lt_ge_cases (length d) (lo + w + w)) as [H|H]; [rewrite swap_at_short by assumption; reflexivity|].
  destruct (decomp3 d lo w H) as (A & B & C & R & -> & HA & HB & HC).
  rewrite swap_at_decomp by assumption. rewrite !app_length. lia.
Qed.

Lemma nth_app3_out (A X Y R : list Z) i :
  length X = length Y -> (i < length A \/ length A + length X <= i)%nat ->
  nth i (A ++ X ++ R) 0 = nth i (A ++ Y ++ R) 0.
Proof.
  intros HL [H|H].
  - rewrite !app_nth1 by assumption. reflexivity.
  - rewrite !(app_nth2 A) by lia. rewrite !app_nth2 by lia. rewrite HL. reflexivity.
Qed.

Lemma swap_at_nth lo w d i : (i < lo \/ lo + w + w <= i)%nat -> nthZ (swap_at lo w d) i = nthZ d i.
Proof.
  intros Hi. unfold nthZ.
  destruct (Nat.lt_ge_cases (length d) (lo + w + w)) as [H|H]; [rewrite swap_at_short by assumption; reflexivity|].
  destruct (decomp3 d lo w H) as (A & B & C & R & -> & HA & HB & HC).
  rewrite swap_at_decomp by assumption.
  replace (A ++ C ++ B ++ R) with (A ++ (C ++ B) ++ R) by (rewrite <- app_assoc; reflexivity).
  replace (A ++ B ++ C ++ R) with (A ++ (B ++ C) ++ R) by (rewrite <- app_assoc; reflexivity).
  apply nth_app3_out; rewrite !app_length; lia.
Qed.

Lemma swap_at_skipn lo w d m : (lo + w + w <= m)%nat -> skipn m (swap_at lo w d) = skipn m d.
Proof.
  intros Hm.
  destruct (Nat.lt_ge_cases (length d) (lo + w + w)) as [H|H]; [rewrite swap_at_short by assumption; reflexivity|].
  destruct (decomp3 d lo w H) as (A & B & C & R & -> & HA & HB & HC).
  rewrite swap_at_decomp by assumption.
  replace (A ++ C ++ B ++ R) with ((A ++ C ++ B) ++ R) by (rewrite <- !app_assoc; reflexivity).
  replace (A ++ B ++ C ++ R) with ((A ++ B ++ C) ++ R) by (rewrite <- !app_assoc; reflexivity).
  rewrite (skipn_app m (A ++ C ++ B) R), (skipn_app m (A ++ B ++ C) R).
  rewrite (skipn_all2 (n:=m) (A ++ C ++ B)) by (rewrite !app_length; lia).
  rewrite (skipn_all2 (n:=m) (A ++ B ++ C)) by (rewrite !app_length; lia).
  rewrite !app_length. replace (length C + length B)%nat with (length B + length C)%nat by lia. reflexivity.
Qed.

Lemma swap_at_slice lo w d m x : (lo + w + w <= m)%nat -> slice (swap_at lo w d) m x = slice d m x.
Proof. intros Hm. unfold slice. rewrite !skipn_firstn_comm. rewrite swap_at_skipn by assumption. reflexivity. Qed.

Lemma swap_at_slice_firstn lo w d m x l : (lo + w + w <= m)%nat ->
  slice (firstn l (swap_at lo w d)) m x = slice (firstn l d) m x.
Proof.
  intros Hm. unfold slice. rewrite !firstn_firstn. rewrite !skipn_firstn_comm.
  rewrite swap_at_skipn by assumption. reflexivity.
Qed.

Lemma swap_at_fields lo w d : (lo + w + w <= length d)%nat ->
  field (swap_at lo w d) lo w = field d (lo + w) w /\ field (swap_at lo w d) (lo + w) w = field d lo w.
Proof.
  intros H. destruct (decomp3 d lo w H) as (A & B & C & R & -> & HA & HB & HC).
  rewrite swap_at_decomp by assumption.
  rewrite (field_app_mid A C (B ++ R) lo w) by assumption.
  rewrite (field_app_mid A B (C ++ R) lo w) by assumption.
  replace (A ++ C ++ B ++ R) with ((A ++ C) ++ B ++ R) by (rewrite <- app_assoc; reflexivity).
  replace (A ++ B ++ C ++ R) with ((A ++ B) ++ C ++ R) by (rewrite <- app_assoc; reflexivity).
  rewrite (field_app_mid (A ++ C) B R (lo + w) w) by (try rewrite app_length; lia).
  rewrite (field_app_mid (A ++ B) C R (lo + w) w) by (try rewrite app_length; lia).
  split; reflexivity.
Qed.

Lemma field_length d off w : (off + w <= length d)%nat -> length (field d off w) = w.
Proof. intros H. unfold field. rewrite slice_length by assumption. lia. Qed.

Lemma new_flow_swap t a b : new_flow t b a = omap reverse (new_flow t a b).
Proof.
  unfold new_flow. rewrite orb_comm. destruct (_ || _)%bool; reflexivity.
Qed.

Lemma empty_flow_rev t : empty_flow t = omap reverse (empty_flow t).
Proof. reflexivity. Qed.

(* the table flow of the swapped header is the reverse *)
Lemma table_flow_swap k data t so do w :
  flow_table k = Some (t, so, do, w) -> (Nat.min so do + w + w <= length data)%nat ->
  (so = (do + w)%nat \/ do = (so + w)%nat) ->
  table_flow k (swap_fields k data) = omap reverse (table_flow k data).
Proof.
  intros Ht Hl Hadj. unfold table_flow, swap_fields. rewrite Ht.
  destruct (swap_at_fields (Nat.min so do) w data Hl) as [F1 F2].
  destruct Hadj as [-> | ->].
  - replace (Nat.min (do + w) do) with do in * by lia. rewrite F1, F2. apply new_flow_swap.
  - replace (Nat.min so (so + w)) with so in * by lia. rewrite F1, F2. apply new_flow_swap.
Qed.

(* the table flow carries the header fields *)
Lemma table_flow_addresses k data t so do w :
  flow_table k = Some (t, so, do, w) -> (w <= 16)%nat ->
  (so + w <= length data)%nat -> (do + w <= length data)%nat ->
  exists f, table_flow k data = Ok f /\ f_typ f = t /\
            f_srcbytes f = field data so w /\ f_dstbytes f = field data do w /\
            length (f_srcbytes f) = w /\ length (f_dstbytes f) = w.
Proof.
  intros Ht Hw Hs Hd. unfold table_flow. rewrite Ht.
  pose proof (field_length data so w Hs) as L1. pose proof (field_length data do w Hd) as L2.
  rewrite new_flow_ok by lia. eexists; split; [reflexivity|].
  unfold f_srcbytes, f_dstbytes; cbn. rewrite !copy16_firstn by lia. auto.
Qed.

(* ---------------------------------------------------------------- decode guards do not look at the address fields *)
Lemma swap_len k d : length (swap_fields k d) = length d.
Proof. unfold swap_fields. destruct (flow_table k) as [[[[t so] do] w]|]; [apply swap_at_length|reflexivity]. Qed.

Lemma ip4_decode_swap d : ip4_decode (swap_at 12 4 d) = ip4_decode d.
Proof.
  unfold ip4_decode, be16. rewrite swap_at_length. rewrite !swap_at_nth by lia. cbv zeta.
  repeat match goal with |- context [if ?c then _ else _] => destruct c eqn:? end; try reflexivity;
    rewrite ?swap_at_slice_firstn, ?swap_at_slice by lia; reflexivity.
Qed.

Lemma ip4_decode_len d u : ip4_decode d = Ok u -> (20 <= length d)%nat.
Proof.
  unfold ip4_decode. destruct (Z.of_nat (length d) <? 20) eqn:E; [discriminate|]. intros _. lia.
Qed.

Lemma rudp_ok_swap d : rudp_ok (swap_at 2 1 d) = rudp_ok d.
Proof. unfold rudp_ok, be16. rewrite swap_at_length. rewrite !swap_at_nth by lia. reflexivity. Qed.

Lemma rudp_ok_len d : rudp_ok d = true -> (18 <= length d)%nat.
Proof. unfold rudp_ok. destruct (Z.of_nat (length d) <? 18) eqn:E; [discriminate|]. intros _. lia. Qed.

Lemma tcp_in_scope_swap d : tcp_in_scope (swap_at 0 2 d) = tcp_in_scope d.
Proof.
  unfold tcp_in_scope. rewrite swap_at_length. rewrite !swap_at_nth by lia.
  rewrite swap_at_slice by lia. reflexivity.
Qed.

Ltac tfs := eapply table_flow_swap; [reflexivity | cbn; lia | cbn; lia].

Lemma layer_flow_swap k d : flow_table k <> None ->
  layer_flow k (swap_fields k d) = omap reverse (layer_flow k d).
Proof.
  intros Ht. unfold layer_flow. rewrite swap_len.
  destruct (Nat.eqb (length d) 0); [reflexivity|].
  destruct k; try (exfalso; apply Ht; reflexivity).
  - destruct (length d <? 14)%nat eqn:E; [reflexivity|]. tfs.
  - destruct (length d <? 13)%nat eqn:E; [reflexivity|]. tfs.
  - change (swap_fields LIPv4 d) with (swap_at 12 4 d) at 1. rewrite ip4_decode_swap.
    destruct (ip4_decode d) eqn:E; try reflexivity.
    apply ip4_decode_len in E. tfs.
  - destruct (length d <? 40)%nat eqn:E; [reflexivity|].
    change (swap_fields LIPv6 d) with (swap_at 8 16 d) at 1. rewrite swap_at_nth by lia.
    destruct (nthZ d 6 =? 0); [reflexivity|]. tfs.
  - change (swap_fields LRUDP d) with (swap_at 2 1 d) at 1. rewrite rudp_ok_swap.
    destruct (rudp_ok d) eqn:E; [|reflexivity]. apply rudp_ok_len in E. tfs.
  - destruct (length d <? 12)%nat eqn:E; [reflexivity|]. tfs.
  - change (swap_fields LTCP d) with (swap_at 0 2 d) at 1. rewrite tcp_in_scope_swap.
    destruct (tcp_in_scope d); [|reflexivity]. cbn [negb].
    destruct (length d <? 20)%nat eqn:E; [reflexivity|]. tfs.
  - destruct (length d <? 8)%nat eqn:E; [reflexivity|]. tfs.
  - destruct (length d <? 8)%nat eqn:E; [reflexivity|]. tfs.
Qed.

Lemma layer_flow_reverse k d f : flow_table k <> None -> layer_flow k d = Ok f ->
  layer_flow k (swap_fields k d) = Ok (reverse f) /\ f_fast_hash (reverse f) = f_fast_hash f.
Proof.
  intros Ht H. split; [|apply hash_sym]. rewrite layer_flow_swap by assumption. rewrite H. reflexivity.
Qed.

(* ---------------------------------------------------------------- the flow carries the header's addresses *)
Lemma table_addr k t so do w d f :
  flow_table k = Some (t, so, do, w) -> (w <= 16)%nat ->
  (so + w <= length d)%nat -> (do + w <= length d)%nat -> table_flow k d = Ok f ->
  f_typ f = t /\ f_srcbytes f = field d so w /\ f_dstbytes f = field d do w /\
  length (f_srcbytes f) = w /\ length (f_dstbytes f) = w.
Proof.
  intros Ht Hw Hs Hd H. destruct (table_flow_addresses k d t so do w Ht Hw Hs Hd) as (f' & E & R).
  rewrite E in H. inversion H; subst. exact R.
Qed.

Definition carries (k : lkind) (d : list Z) (f : flow) : Prop :=
  match flow_table k with
  | Some (t, so, do, w) =>
    f_typ f = t /\ f_srcbytes f = field d so w /\ f_dstbytes f = field d do w /\
    length (f_srcbytes f) = w /\ length (f_dstbytes f) = w
  | None => False
  end.

Ltac addr0 := match goal with |- carries ?K _ _ => unfold carries; cbn [flow_table]; eapply (table_addr K) end; [reflexivity | cbn; lia | cbn; lia | cbn; lia | eassumption].
Ltac addr := right; addr0.

(* every flow reported by a table layer is either that of an object whose decoding failed
   before the addresses were assigned (both addresses empty) or carries exactly the header's
   source and destination fields at full width *)
Lemma layer_flow_addresses k d f : flow_table k <> None -> layer_flow k d = Ok f ->
  (exists t, empty_flow t = Ok f) \/ carries k d f.
Proof.
  intros Ht. unfold layer_flow.
  destruct (Nat.eqb (length d) 0); [discriminate|].
  destruct k; try (exfalso; apply Ht; reflexivity).
  - destruct (length d <? 14)%nat eqn:E; [discriminate|]. intros H. addr.
  - destruct (length d <? 13)%nat eqn:E; [discriminate|]. intros H. addr.
  - destruct (ip4_decode d) eqn:E; try discriminate; intros H.
    + apply ip4_decode_len in E. addr.
    + left. eexists; exact H.
  - destruct (length d <? 40)%nat eqn:E; [intros H; left; eexists; exact H|].
    destruct (nthZ d 6 =? 0); [discriminate|]. intros H. addr.
  - destruct (rudp_ok d) eqn:E; [|discriminate]. apply rudp_ok_len in E. intros H. addr.
  - destruct (length d <? 12)%nat eqn:E; [intros H; left; eexists; exact H|]. intros H. addr.
  - destruct (negb (tcp_in_scope d)); [discriminate|].
    destruct (length d <? 20)%nat eqn:E; [intros H; left; eexists; exact H|]. intros H. addr.
  - destruct (length d <? 8)%nat eqn:E; [intros H; left; eexists; exact H|]. intros H. addr.
  - destruct (length d <? 8)%nat eqn:E; [discriminate|]. intros H. addr.
Qed.

(* layers that are added to the packet only after a successful decode never report the empty flow *)
Lemma layer_flow_addresses_strict k d f :
  (k = LEthernet \/ k = LFDDI \/ k = LRUDP \/ k = LUDPLite) -> layer_flow k d = Ok f -> carries k d f.
Proof.
  intros Hk. unfold layer_flow. destruct (Nat.eqb (length d) 0); [discriminate|].
  destruct Hk as [-> | [-> | [-> | ->]]].
  - destruct (length d <? 14)%nat eqn:E; [discriminate|]. intros H. addr0.
  - destruct (length d <? 13)%nat eqn:E; [discriminate|]. intros H. addr0.
  - destruct (rudp_ok d) eqn:E; [|discriminate]. apply rudp_ok_len in E. intros H. addr0.
  - destruct (length d <? 8)%nat eqn:E; [discriminate|]. intros H. addr0.
Qed.

(* the ip4 option loop never runs out of fuel: no Panic outcome (ip4.go has no out-of-range slice) *)
Lemma ip4_opts_fuel fuel : forall o s, (length o < fuel)%nat -> ip4_opts fuel o <> Panic s.
Proof.
  induction fuel as [|fuel IH]; intros o s H; [lia|].
  cbn [ip4_opts]. destruct o as [|t rest]; [discriminate|].
  destruct (t =? 0); [discriminate|]. destruct (t =? 1); [apply IH; cbn in H; lia|].
  destruct rest as [|l rest']; [discriminate|].
  destruct (Z.of_nat (length (t :: l :: rest')) <? l) eqn:E1; [discriminate|].
  destruct (l <=? 2) eqn:E2; [discriminate|].
  apply IH. rewrite skipn_length. cbn [length] in *. lia.
Qed.

Lemma ip4_decode_no_panic d s : ip4_decode d <> Panic s.
Proof.
  unfold ip4_decode. cbv zeta.
  repeat match goal with |- context [if ?c then _ else _] => destruct c eqn:? end; try discriminate;
    apply ip4_opts_fuel; lia.
Qed.

(* fuel exhaustion (Panic 99) is never the outcome of a layer flow *)
Lemma new_flow_not99 t s d : new_flow t s d <> Panic 99.
Proof. unfold new_flow. destruct (_ || _)%bool; discriminate. Qed.

Lemma table_flow_not99 k d : table_flow k d <> Panic 99.
Proof. unfold table_flow. destruct (flow_table k) as [[[[t so] do] w]|]; [apply new_flow_not99|discriminate]. Qed.

Lemma layer_flow_fuel k d : layer_flow k d <> Panic 99.
Proof.
  unfold layer_flow. destruct (Nat.eqb (length d) 0); [discriminate|].
  destruct k; try (destruct (ip4_decode d) eqn:E; [| |exfalso; eapply ip4_decode_no_panic; exact E]);
    brk; try discriminate;
    first [apply table_flow_not99 | apply new_flow_not99 | (unfold empty_flow; apply new_flow_not99)].
Qed.

(* every flow of a whole packet is the flow of the corresponding layer constructor on that
   layer's bytes, so the per-layer theorems apply level by level *)
Lemma transport_of_layer proto payload f : transport_of proto payload = Ok (Some f) ->
  exists k, In k [LTCP; LUDP; LSCTP] /\ layer_flow k payload = Ok f.
Proof.
  unfold transport_of. destruct (Nat.eqb (length payload) 0); [discriminate|].
  destruct (proto =? 6); [exists LTCP|destruct (proto =? 17); [exists LUDP|destruct (proto =? 132); [exists LSCTP|discriminate]]];
    (split; [cbn; auto|]);
    match goal with |- context [layer_flow ?k payload] => destruct (layer_flow k payload) eqn:E end;
    try discriminate; inversion H; reflexivity.
Qed.

Lemma stack_levels data st : stack_flows data = Ok st ->
  (forall f, st_link st = Some f -> layer_flow LEthernet data = Ok f) /\
  (forall f, st_net st = Some f ->
     layer_flow LIPv4 (skipn 14 data) = Ok f \/ layer_flow LIPv6 (skipn 14 data) = Ok f) /\
  (forall f, st_tr st = Some f ->
     exists k payload, In k [LTCP; LUDP; LSCTP] /\ layer_flow k payload = Ok f).
Proof.
  unfold stack_flows.
  destruct (layer_flow LEthernet data) as [lf| |] eqn:EL; try discriminate.
  2:{ intros H; inversion H; subst; cbn. repeat split; intros f E; discriminate. }
  destruct (Nat.eqb (length (skipn 14 data)) 0).
  { intros H; inversion H; subst; cbn. repeat split; intros f E; try discriminate. inversion E; subst; reflexivity. }
  destruct (be16 data 12 =? 2048).
  - destruct (layer_flow LIPv4 (skipn 14 data)) as [nf| |] eqn:EN; try discriminate.
    assert (Base0 : forall st', st' = mkSt (Some lf) (Some nf) None ->
      (forall f, st_link st' = Some f -> Ok lf = Ok f) /\
      (forall f, st_net st' = Some f -> Ok nf = Ok f \/ layer_flow LIPv6 (skipn 14 data) = Ok f) /\
      (forall f, st_tr st' = Some f -> exists k payload, In k [LTCP; LUDP; LSCTP] /\ layer_flow k payload = Ok f)).
    { intros st' ->; cbn. repeat split; intros f E; try discriminate; inversion E; subst; auto. }
    destruct (ip4_decode (skipn 14 data)); try solve [intros H; inversion H; subst; apply Base0; reflexivity].
    destruct (ip4_next (skipn 14 data)) as [[t|]| |] eqn:ET; try discriminate;
      intros H; inversion H; subst; [|apply Base0; reflexivity].
    cbn. repeat split; intros f E; inversion E; subst; auto.
    unfold ip4_next in ET. cbv zeta in ET. destruct (_ || _)%bool in ET; [discriminate|].
    apply transport_of_layer in ET. destruct ET as (k & Hk & Hl). exists k. eexists. split; [exact Hk|exact Hl].
  - destruct (be16 data 12 =? 34525); [|discriminate].
    destruct (layer_flow LIPv6 (skipn 14 data)) as [nf| |] eqn:EN; try discriminate.
    assert (Base0 : forall st', st' = mkSt (Some lf) (Some nf) None ->
      (forall f, st_link st' = Some f -> Ok lf = Ok f) /\
      (forall f, st_net st' = Some f -> layer_flow LIPv4 (skipn 14 data) = Ok f \/ Ok nf = Ok f) /\
      (forall f, st_tr st' = Some f -> exists k payload, In k [LTCP; LUDP; LSCTP] /\ layer_flow k payload = Ok f)).
    { intros st' ->; cbn. repeat split; intros f E; try discriminate; inversion E; subst; auto. }
    destruct (length (skipn 14 data) <? 40)%nat; [intros H; inversion H; subst; apply Base0; reflexivity|].
    destruct (ip6_next (skipn 14 data)) as [[t|]| |] eqn:ET; try discriminate;
      intros H; inversion H; subst; [|apply Base0; reflexivity].
    cbn. repeat split; intros f E; inversion E; subst; auto.
    unfold ip6_next in ET. cbv zeta in ET. destruct (_ =? 0) in ET; [discriminate|].
    apply transport_of_layer in ET. destruct ET as (k & Hk & Hl). exists k. eexists. split; [exact Hk|exact Hl].
Qed.


(* ---------------------------------------------------------------- a reused layer object *)
Lemma field_app_prefix (a b : list Z) off w : (off + w <= length a)%nat -> field (a ++ b) off w = field a off w.
Proof.
  intros H. unfold field, slice. rewrite firstn_app.
  replace (off + w - length a)%nat with 0%nat by lia. cbn [firstn]. rewrite app_nil_r. reflexivity.
Qed.

Lemma slice_app_prefix (a b : list Z) x y : (y <= length a)%nat -> slice (a ++ b) x y = slice a x y.
Proof.
  intros H. unfold slice. rewrite firstn_app.
  replace (y - length a)%nat with 0%nat by lia. cbn [firstn]. rewrite app_nil_r. reflexivity.
Qed.

Lemma table_flow_app_prefix k a b t so do w :
  flow_table k = Some (t, so, do, w) -> (so + w <= length a)%nat -> (do + w <= length a)%nat ->
  table_flow k (a ++ b) = table_flow k a.
Proof.
  intros Ht H1 H2. unfold table_flow. rewrite Ht. rewrite !field_app_prefix by assumption. reflexivity.
Qed.

(* the bytes a freshly assigned view reads are the current packet's, whatever lies behind them
   in a reused capture buffer *)
Lemma seq_read_overlay k pkt cap al : seq_assign k pkt = Ok (Some al) ->
  seq_read k (overlay pkt cap) al = seq_read k pkt al.
Proof.
  unfold seq_assign, seq_read, overlay.
  destruct k; try discriminate.
  - destruct (length pkt <? 14)%nat eqn:E; [discriminate|]. intros _.
    eapply table_flow_app_prefix; [reflexivity|cbn; lia|cbn; lia].
  - destruct (ip4_decode pkt) eqn:E; try discriminate. intros _. apply ip4_decode_len in E.
    eapply table_flow_app_prefix; [reflexivity|cbn; lia|cbn; lia].
  - destruct (length pkt <? 40)%nat eqn:E; [discriminate|]. destruct (nthZ pkt 6 =? 0); [discriminate|]. intros _.
    eapply table_flow_app_prefix; [reflexivity|cbn; lia|cbn; lia].
  - destruct (length pkt <? 16)%nat eqn:E; [discriminate|].
    destruct (Z.of_nat (length pkt) <? be16 pkt 4 + 6) eqn:E2; [discriminate|].
    intros H; inversion H; subst. rewrite slice_app_prefix by lia. reflexivity.
  - destruct (length pkt <? 20)%nat eqn:E; [discriminate|].
    destruct (Z.of_nat (length pkt) - 12 <? nthZ pkt 11) eqn:E2; [discriminate|].
    intros H; inversion H; subst. rewrite slice_app_prefix by lia. reflexivity.
  - destruct (length pkt <? 12)%nat eqn:E; [discriminate|]. intros _.
    eapply table_flow_app_prefix; [reflexivity|cbn; lia|cbn; lia].
  - destruct (negb (tcp_in_scope pkt)); [discriminate|].
    destruct (length pkt <? 20)%nat eqn:E; [discriminate|]. intros _.
    eapply table_flow_app_prefix; [reflexivity|cbn; lia|cbn; lia].
  - destruct (length pkt <? 8)%nat eqn:E; [discriminate|]. intros _.
    eapply table_flow_app_prefix; [reflexivity|cbn; lia|cbn; lia].
Qed.

(* when the decode assigns the address fields, the flow reported next is the flow of the
   CURRENT packet's header bytes: independent of every earlier packet, of the object's earlier
   state and of whether the buffer is fresh or reused *)
Lemma seq_step_current k reuse s pkt al : seq_assign k pkt = Ok (Some al) ->
  snd (seq_step k reuse s pkt) = seq_read k pkt al.
Proof.
  intros H. unfold seq_step. rewrite H. cbn [snd].
  destruct reuse.
  - apply seq_read_overlay, H.
  - rewrite nth_middle. reflexivity.
Qed.

Lemma slice_sub (c : list Z) a h : slice c a (a + (h - a)) = slice c a h.
Proof.
  destruct (Nat.le_gt_cases a h) as [H|H]; [replace (a + (h - a))%nat with h by lia; reflexivity|].
  unfold slice. rewrite !skipn_all2; [reflexivity| |]; rewrite firstn_length; lia.
Qed.

(* ... and that flow is the one a fresh packet of that layer reports *)
Lemma seq_read_layer k pkt al : seq_assign k pkt = Ok (Some al) -> seq_read k pkt al = layer_flow k pkt.
Proof.
  unfold seq_assign, seq_read, layer_flow.
  destruct k; try discriminate.
  - destruct (length pkt <? 14)%nat eqn:E; [discriminate|]. intros _.
    destruct (Nat.eqb (length pkt) 0) eqn:E0; [apply Nat.eqb_eq in E0; lia|reflexivity].
  - destruct (ip4_decode pkt) eqn:E; try discriminate. intros _. apply ip4_decode_len in E.
    destruct (Nat.eqb (length pkt) 0) eqn:E0; [apply Nat.eqb_eq in E0; lia|reflexivity].
  - destruct (length pkt <? 40)%nat eqn:E; [discriminate|]. destruct (nthZ pkt 6 =? 0); [discriminate|]. intros _.
    destruct (Nat.eqb (length pkt) 0) eqn:E0; [apply Nat.eqb_eq in E0; lia|reflexivity].
  - destruct (length pkt <? 16)%nat eqn:E; [discriminate|].
    destruct (Z.of_nat (length pkt) <? be16 pkt 4 + 6) eqn:E2; [discriminate|].
    intros H; inversion H; subst.
    destruct (Nat.eqb (length pkt) 0) eqn:E0; [apply Nat.eqb_eq in E0; lia|].
    rewrite slice_sub. reflexivity.
  - destruct (length pkt <? 20)%nat eqn:E; [discriminate|].
    destruct (Z.of_nat (length pkt) - 12 <? nthZ pkt 11) eqn:E2; [discriminate|].
    intros H; inversion H; subst.
    destruct (Nat.eqb (length pkt) 0) eqn:E0; [apply Nat.eqb_eq in E0; lia|reflexivity].
  - destruct (length pkt <? 12)%nat eqn:E; [discriminate|]. intros _.
    destruct (Nat.eqb (length pkt) 0) eqn:E0; [apply Nat.eqb_eq in E0; lia|reflexivity].
  - destruct (negb (tcp_in_scope pkt)); [discriminate|].
    destruct (length pkt <? 20)%nat eqn:E; [discriminate|]. intros _.
    destruct (Nat.eqb (length pkt) 0) eqn:E0; [apply Nat.eqb_eq in E0; lia|reflexivity].
  - destruct (length pkt <? 8)%nat eqn:E; [discriminate|]. intros _.
    destruct (Nat.eqb (length pkt) 0) eqn:E0; [apply Nat.eqb_eq in E0; lia|reflexivity].
Qed.
