(* Lip6 — lemmas about the IPv6 model *)
From GP Require Import Base ListX N6Lib Lip6Model.
From Coq Require Import Lia ZifyBool ZifyNat.
Open Scope Z_scope.
Ltac Zify.zify_post_hook ::= Z.div_mod_to_equations.

Lemma nthZ_byte' l i : bytes_ok l -> 0 <= i < n6_len l -> 0 <= nthZ l (Z.to_nat i) < 256.
Proof. intros H Hi. apply nthZ_ok; [exact H|]. unfold n6_len in Hi. lia. Qed.

Lemma skipn_len' (l : list Z) n : 0 <= n <= n6_len l -> n6_len (skipn (Z.to_nat n) l) = n6_len l - n.
Proof. intros H. unfold n6_len in *. rewrite skipn_length. lia. Qed.

(* ---------------------------------------------------------------- TLV decoding *)

(* every checked access of tlv_decode resolved *)
Lemma tlv_decode_eq data : bytes_ok data ->
  tlv_decode data =
    if n6_len data <? 1 then (Err 1, true)
    else let t := nthZ data 0 in
      if t =? 0 then (Ok (mkTlv 0 0 1 [] 0 0), false)
      else if n6_len data <? 2 then (Err 1, true)
      else let ol := nthZ data 1 in
        if n6_len data <? ol + 2 then (Err 2, true)
        else (Ok (mkTlv t ol (ol + 2) (slice data 2 (Z.to_nat (ol + 2))) 0 0), false).
Proof.
  intros Hb. unfold tlv_decode. destruct (n6_len data <? 1) eqn:E1; [reflexivity|].
  rewrite (n6_idx_eq data 0) by lia. change (Z.to_nat 0) with 0%nat. cbv zeta.
  destruct (nthZ data 0 =? 0); [reflexivity|]. destruct (n6_len data <? 2) eqn:E2; [reflexivity|].
  rewrite (n6_idx_eq data 1) by lia. change (Z.to_nat 1) with 1%nat.
  pose proof (nthZ_byte' data 1 Hb ltac:(lia)) as Hol. change (Z.to_nat 1) with 1%nat in Hol.
  destruct (n6_len data <? nthZ data 1 + 2) eqn:E3; [reflexivity|].
  rewrite (n6_slice_eq data 2 (nthZ data 1 + 2)) by lia. reflexivity.
Qed.

Lemma tlv_decode_ok data o tr : bytes_ok data -> tlv_decode data = (Ok o, tr) ->
  tr = false /\ 1 <= t_alen o <= 257 /\ t_alen o <= n6_len data /\ bytes_ok (t_data o) /\
  t_ax o = 0 /\ t_ay o = 0.
Proof.
  intros Hb. rewrite tlv_decode_eq by exact Hb. destruct (n6_len data <? 1) eqn:E1; [discriminate|]. cbv zeta.
  destruct (nthZ data 0 =? 0). { intros [= <- <-]. cbn [t_alen t_data t_ax t_ay]. repeat split; try lia. constructor. }
  destruct (n6_len data <? 2) eqn:E2; [discriminate|].
  pose proof (nthZ_byte' data 1 Hb ltac:(lia)) as Hol. change (Z.to_nat 1) with 1%nat in Hol.
  destruct (n6_len data <? nthZ data 1 + 2) eqn:E3; [discriminate|].
  intros [= <- <-]. cbn [t_alen t_data t_ax t_ay]. repeat split; try lia. apply bytes_ok_slice, Hb.
Qed.

Lemma tlv_decode_no_panic data : bytes_ok data -> is_panic (fst (tlv_decode data)) = false.
Proof.
  intros Hb. rewrite tlv_decode_eq by exact Hb. destruct (n6_len data <? 1); [reflexivity|]. cbv zeta.
  destruct (nthZ data 0 =? 0); [reflexivity|]. destruct (n6_len data <? 2); [reflexivity|].
  destruct (n6_len data <? nthZ data 1 + 2); reflexivity.
Qed.

(* ---------------------------------------------------------------- the option loop *)

Lemma ext_loop_no_panic fuel : forall acc offset data al, bytes_ok data -> 0 <= offset -> al <= n6_len data ->
  (Z.to_nat (al - offset) < fuel)%nat ->
  is_panic (snd (fst (ext_loop fuel acc offset data al))) = false.
Proof.
  induction fuel as [|f IH]; intros acc offset data al Hb Ho Hal Hf; [lia|].
  cbn [ext_loop]. destruct (offset <? al) eqn:E; [|reflexivity].
  rewrite (n6_from_eq data offset) by lia.
  pose proof (tlv_decode_no_panic (skipn (Z.to_nat offset) data) ltac:(apply bytes_ok_skipn, Hb)) as Hnp.
  destruct (tlv_decode (skipn (Z.to_nat offset) data)) as [[o|e|s] tr] eqn:ED; cbn [fst is_panic] in Hnp; try discriminate; [|reflexivity].
  apply tlv_decode_ok in ED as (_ & Hal1 & _); [|apply bytes_ok_skipn, Hb].
  destruct (al <? offset + t_alen o) eqn:E2; [reflexivity|].
  apply IH; try assumption; lia.
Qed.

(* what a successful run of the loop guarantees *)
Lemma ext_loop_ok fuel : forall acc offset data al os tr, bytes_ok data -> 0 <= offset -> al <= n6_len data ->
  ext_loop fuel acc offset data al = (os, Ok tt, tr) -> tr = false.
Proof.
  induction fuel as [|f IH]; intros acc offset data al os tr Hb Ho Hal; [cbn; discriminate|].
  cbn [ext_loop]. destruct (offset <? al) eqn:E; [|intros [= <- <-]; reflexivity].
  rewrite (n6_from_eq data offset) by lia.
  destruct (tlv_decode (skipn (Z.to_nat offset) data)) as [[o|e|s] tr'] eqn:ED; try discriminate.
  apply tlv_decode_ok in ED as (_ & Hal1 & _); [|apply bytes_ok_skipn, Hb].
  destruct (al <? offset + t_alen o) eqn:E2; [discriminate|].
  apply IH; try assumption; lia.
Qed.

(* ---------------------------------------------------------------- extension header decode *)

Lemma ext_decode_eq keep old data : bytes_ok data ->
  ext_decode_gen keep old data =
    if n6_len data <? 2 then (mkExt 0 0 0 (e_opts old) [] [], Err 1, true)
    else let nh := nthZ data 0 in let hl := nthZ data 1 in let al := hl * 8 + 8 in
      if n6_len data <? al then (mkExt 0 0 0 (e_opts old) [] [], Err 2, false)
      else let '(os, r, tr) := ext_loop (S (length data)) (if keep then e_opts old else []) 2 data al in
           (mkExt nh hl al os (firstn (Z.to_nat al) data) (skipn (Z.to_nat al) data), r, tr).
Proof.
  intros Hb. unfold ext_decode_gen. destruct (n6_len data <? 2) eqn:E2; [reflexivity|].
  rewrite (n6_idx_eq data 0), (n6_idx_eq data 1) by lia. change (Z.to_nat 0) with 0%nat. change (Z.to_nat 1) with 1%nat.
  pose proof (nthZ_byte' data 1 Hb ltac:(lia)) as Hhl. change (Z.to_nat 1) with 1%nat in Hhl. cbv zeta.
  destruct (n6_len data <? nthZ data 1 * 8 + 8) eqn:E3; [reflexivity|].
  rewrite (n6_slice_eq data 0 (nthZ data 1 * 8 + 8)), (n6_from_eq data (nthZ data 1 * 8 + 8)) by lia.
  reflexivity.
Qed.

Lemma ext_decode_no_panic keep old data : bytes_ok data ->
  is_panic (snd (fst (ext_decode_gen keep old data))) = false.
Proof.
  intros Hb. rewrite ext_decode_eq by exact Hb. destruct (n6_len data <? 2) eqn:E2; [reflexivity|]. cbv zeta.
  pose proof (nthZ_byte' data 1 Hb ltac:(lia)) as Hhl. change (Z.to_nat 1) with 1%nat in Hhl.
  destruct (n6_len data <? nthZ data 1 * 8 + 8) eqn:E3; [reflexivity|].
  pose proof (ext_loop_no_panic (S (length data)) (if keep then e_opts old else []) 2 data (nthZ data 1 * 8 + 8) Hb
                ltac:(lia) ltac:(lia) ltac:(unfold n6_len in *; lia)) as P.
  destruct (ext_loop _ _ _ _ _) as [[os r] tr]. exact P.
Qed.

(* a successful decode: header length facts and no truncation flag *)
Lemma ext_decode_ok keep old data h tr : bytes_ok data -> ext_decode_gen keep old data = (h, Ok tt, tr) ->
  tr = false /\ 8 <= e_alen h <= 2048 /\ e_alen h <= n6_len data /\ e_alen h = e_hlen h * 8 + 8 /\
  0 <= e_hlen h < 256 /\ e_next h = nthZ data 0 /\
  e_contents h = firstn (Z.to_nat (e_alen h)) data /\ e_payload h = skipn (Z.to_nat (e_alen h)) data.
Proof.
  intros Hb. rewrite ext_decode_eq by exact Hb. destruct (n6_len data <? 2) eqn:E2; [discriminate|]. cbv zeta.
  pose proof (nthZ_byte' data 1 Hb ltac:(lia)) as Hhl. change (Z.to_nat 1) with 1%nat in Hhl.
  destruct (n6_len data <? nthZ data 1 * 8 + 8) eqn:E3; [discriminate|].
  destruct (ext_loop _ _ _ _ _) as [[os r] tr'] eqn:EL. intros [= <- -> <-].
  apply ext_loop_ok in EL; try assumption; try lia. subst tr'.
  cbn [e_alen e_hlen e_next e_contents e_payload]. repeat split; try lia; reflexivity.
Qed.

(* ---------------------------------------------------------------- IPv6 decode *)

Lemma get_jumbo_no_panic h : is_panic (get_jumbo h) = false.
Proof.
  unfold get_jumbo. destruct (find _ _); [|reflexivity]. destruct (negb _); [reflexivity|].
  destruct (be_val _ <=? 65535); reflexivity.
Qed.

Lemma get_jumbo_big h jl : get_jumbo h = Ok (jl, true) -> 65535 < jl.
Proof.
  unfold get_jumbo. destruct (find _ _); [|discriminate]. destruct (negb _); [discriminate|].
  destruct (be_val _ <=? 65535) eqn:E; [discriminate|]. intros [= <-]. lia.
Qed.

Lemma ip6_trim_no_panic l sub : is_panic (snd (fst (ip6_trim l sub))) = false.
Proof.
  unfold ip6_trim. destruct (p_length l =? 0); [reflexivity|]. destruct (p_length l - sub <? 0) eqn:E; [reflexivity|].
  pose proof (n6_len_nonneg (p_payload l)).
  set (pEnd := if n6_len (p_payload l) <? p_length l - sub then _ else _).
  rewrite (n6_slice_eq (p_payload l) 0 pEnd) by (subst pEnd; destruct (n6_len (p_payload l) <? p_length l - sub) eqn:E2; lia).
  reflexivity.
Qed.

(* the fixed-header part of DecodeFromBytes with every access resolved *)
Definition ip6_head (data : list Z) : ip6 :=
  mkIp6 (nthZ data 0 / 16) ((be_val (slice data 0 2) / 16) mod 256) (be_val (slice data 0 4) mod 1048576)
        (be_val (slice data 4 6)) (nthZ data 6) (nthZ data 7) (slice data 8 24) (slice data 24 40) None
        (slice data 0 40) (skipn 40 data).

(* the rest of DecodeFromBytes as a function of that layer value *)
Definition ip6_body (orig : bool) (l0 : ip6) : dres6 ip6 :=
    if p_next l0 =? 0 then
      match ext_decode_into ext_fresh (p_payload l0) with
      | (_, Err e, tr) => (l0, Err e, tr)
      | (_, Panic s, _) => (l0, Panic s, false)
      | (h, Ok _, _) =>
          let pl := p_payload l0 in
          let l1 := set_payload l0 (Some h) pl in
          match get_jumbo h with
          | Err e => (l1, Err e, false)
          | Panic s => (l1, Panic s, false)
          | Ok (jl, jumbo) =>
              if jumbo && (p_length l0 =? 0) then
                let trunc := n6_len pl <? jl in
                let pEnd := if trunc then n6_len pl else jl in
                match n6_slice pl 0 pEnd with
                | None => (l1, Panic 9, false)
                | Some p =>
                    if orig then (set_payload l0 (Some h) p, Ok tt, trunc)
                    else match n6_from p (e_alen h) with
                         | None => (l1, Panic 10, false)
                         | Some hp => (set_payload l0 (Some (ext_set_payload h hp)) p, Ok tt, trunc)
                         end
                end
              else if jumbo then (l1, Err 9, false)
              else if p_length l0 =? 0 then (l1, Err 10, false)
              else match n6_from pl (e_alen h) with
                   | None => (l1, Panic 11, false)
                   | Some p =>
                       let l2 := set_payload l0 (Some h) p in
                       if orig then
                         let trunc := n6_len p <? p_length l0 in
                         let pEnd := if trunc then n6_len p else p_length l0 in
                         match n6_slice p 0 pEnd with
                         | None => (l2, Panic 12, false)
                         | Some p' => (set_payload l0 (Some h) p', Ok tt, trunc)
                         end
                       else ip6_trim l2 (e_alen h)
                   end
          end
      end
    else ip6_trim l0 0.

Lemma ip6_decode_head orig old data : 40 <= n6_len data ->
  ip6_decode_gen orig old data = ip6_body orig (ip6_head data).
Proof.
  intros H40. unfold ip6_decode_gen, ip6_body, ip6_head. replace (n6_len data <? 40) with false by lia.
  rewrite (n6_idx_eq data 0), (n6_slice_eq data 0 2), (n6_slice_eq data 0 4), (n6_slice_eq data 4 6),
    (n6_idx_eq data 6), (n6_idx_eq data 7), (n6_slice_eq data 8 24), (n6_slice_eq data 24 40),
    (n6_slice_eq data 0 40), (n6_from_eq data 40) by lia.
  reflexivity.
Qed.

Lemma ip6_head_addr data : 40 <= n6_len data -> n6_len (p_src (ip6_head data)) = 16 /\ n6_len (p_dst (ip6_head data)) = 16.
Proof. intros H. cbn [ip6_head p_src p_dst]. unfold n6_len in *. rewrite !slice_length by lia. lia. Qed.

Lemma ip6_decode_no_panic old data : bytes_ok data ->
  is_panic (snd (fst (ip6_decode_into old data))) = false.
Proof.
  intros Hb. unfold ip6_decode_into. destruct (Z.lt_ge_cases (n6_len data) 40) as [Hs|H40].
  { unfold ip6_decode_gen. replace (n6_len data <? 40) with true by lia. reflexivity. }
  rewrite (ip6_decode_head false old data H40). set (l0 := ip6_head data). unfold ip6_body.
  destruct (p_next l0 =? 0); [|apply ip6_trim_no_panic].
  assert (Hbp : bytes_ok (p_payload l0)) by (apply bytes_ok_skipn, Hb).
  pose proof (ext_decode_no_panic false ext_fresh (p_payload l0) Hbp) as Hnp.
  unfold ext_decode_into. destruct (ext_decode_gen false ext_fresh (p_payload l0)) as [[h [u|e|s]] tr] eqn:ED;
    cbn [fst snd is_panic] in Hnp; try discriminate; [|reflexivity].
  destruct u. apply ext_decode_ok in ED as (_ & Hal & Hal2 & _); [|exact Hbp].
  cbv zeta. pose proof (get_jumbo_no_panic h) as Hj.
  destruct (get_jumbo h) as [[jl jumbo]|e|s] eqn:EJ; cbn [is_panic] in Hj; try discriminate; [|reflexivity].
  destruct jumbo; cbn [andb].
  - apply get_jumbo_big in EJ. destruct (p_length l0 =? 0); [|reflexivity].
    set (pEnd := if n6_len (p_payload l0) <? jl then _ else _).
    assert (HpE : e_alen h <= pEnd <= n6_len (p_payload l0)) by (subst pEnd; destruct (n6_len (p_payload l0) <? jl) eqn:E; lia).
    rewrite (n6_slice_eq (p_payload l0) 0 pEnd) by lia.
    rewrite n6_from_eq; [reflexivity|]. unfold n6_len in *. rewrite slice_length by lia. lia.
  - destruct (p_length l0 =? 0); [reflexivity|]. rewrite (n6_from_eq (p_payload l0) (e_alen h)) by lia.
    apply ip6_trim_no_panic.
Qed.

(* ---------------------------------------------------------------- C05 *)

Lemma ext_decode_fresh old data : bytes_ok data ->
  let '(l1, r1, t1) := ext_decode_into old data in
  let '(l2, r2, t2) := ext_decode_into ext_fresh data in
  r1 = r2 /\ t1 = t2 /\ (r1 = Ok tt -> l1 = l2).
Proof.
  intros Hb. unfold ext_decode_into. rewrite !ext_decode_eq by exact Hb.
  destruct (n6_len data <? 2). { repeat split. discriminate. } cbv zeta.
  destruct (n6_len data <? nthZ data 1 * 8 + 8). { repeat split. discriminate. }
  destruct (ext_loop _ _ _ _ _) as [[os r] tr]. repeat split.
Qed.

Lemma ip6_decode_fresh old data :
  let '(l1, r1, t1) := ip6_decode_into old data in
  let '(l2, r2, t2) := ip6_decode_into ip6_fresh data in
  r1 = r2 /\ t1 = t2 /\ (40 <= n6_len data -> l1 = l2).
Proof.
  unfold ip6_decode_into. destruct (Z.lt_ge_cases (n6_len data) 40) as [Hs|H40].
  - unfold ip6_decode_gen. replace (n6_len data <? 40) with true by lia. repeat split. lia.
  - rewrite !(ip6_decode_head false _ data H40). destruct (ip6_body false (ip6_head data)) as [[l r] t]. repeat split.
Qed.

Lemma ip6_decode_ok_len old data : snd (fst (ip6_decode_into old data)) = Ok tt -> 40 <= n6_len data.
Proof.
  unfold ip6_decode_into, ip6_decode_gen. destruct (n6_len data <? 40) eqn:E; [discriminate|lia].
Qed.

(* ---------------------------------------------------------------- C01: NetworkFlow *)

Lemma ip6_trim_addr l sub : p_src (fst (fst (ip6_trim l sub))) = p_src l /\ p_dst (fst (fst (ip6_trim l sub))) = p_dst l.
Proof.
  unfold ip6_trim. destruct (p_length l =? 0); [split; reflexivity|].
  destruct (p_length l - sub <? 0); [split; reflexivity|].
  destruct (n6_slice _ _ _); split; reflexivity.
Qed.

Lemma ip6_body_addr orig l0 :
  p_src (fst (fst (ip6_body orig l0))) = p_src l0 /\ p_dst (fst (fst (ip6_body orig l0))) = p_dst l0.
Proof.
  unfold ip6_body. destruct (p_next l0 =? 0); [|apply ip6_trim_addr].
  destruct (ext_decode_into ext_fresh (p_payload l0)) as [[h [u|e|s]] tr]; try (split; reflexivity).
  cbv zeta. destruct (get_jumbo h) as [[jl jumbo]|e|s]; try (split; reflexivity).
  destruct (jumbo && (p_length l0 =? 0)).
  { destruct (n6_slice _ _ _); [|split; reflexivity]. destruct orig; [split; reflexivity|].
    destruct (n6_from _ _); split; reflexivity. }
  destruct jumbo; [split; reflexivity|]. destruct (p_length l0 =? 0); [split; reflexivity|].
  destruct (n6_from _ _); [|split; reflexivity]. destruct orig.
  - destruct (n6_slice _ _ _); split; reflexivity.
  - apply (ip6_trim_addr (set_payload l0 (Some h) l) (e_alen h)).
Qed.

Lemma ip6_decode_flow old data : ip6_flow_panics old = false ->
  ip6_flow_panics (fst (fst (ip6_decode_into old data))) = false.
Proof.
  intros Ho. unfold ip6_decode_into. destruct (Z.lt_ge_cases (n6_len data) 40) as [Hs|H40].
  - unfold ip6_decode_gen. replace (n6_len data <? 40) with true by lia. exact Ho.
  - rewrite (ip6_decode_head false old data H40). unfold ip6_flow_panics.
    destruct (ip6_body_addr false (ip6_head data)) as [-> ->]. destruct (ip6_head_addr data H40) as [-> ->]. reflexivity.
Qed.

(* ---------------------------------------------------------------- serialization: closed forms *)

(* values of the Go types: alignment numbers are unsigned, data are bytes *)
Definition tlv_wf (o : tlv) : Prop := 0 <= t_ax o /\ 0 <= t_ay o /\ bytes_ok (t_data o) /\ 0 <= t_olen o.
Definition ext_wf (l : ext) : Prop := Forall tlv_wf (e_opts l).

Lemma pad_seg_len pad : 0 <= pad -> n6_len (pad_seg pad) = pad.
Proof.
  intros H. unfold pad_seg. destruct (pad <=? 0) eqn:E0; [cbn; lia|]. destruct (pad =? 1) eqn:E1; [cbn; lia|].
  unfold n6_len. cbn [length app]. rewrite repeat_length. lia.
Qed.

Lemma pad_seg_ok pad : bytes_ok (pad_seg pad).
Proof.
  unfold pad_seg. destruct (pad <=? 0); [constructor|]. destruct (pad =? 1). { repeat constructor; unfold byte_ok; lia. }
  constructor; [unfold byte_ok; lia|]. constructor; [unfold byte_ok, u8; lia|].
  apply Forall_forall. intros x Hx. apply repeat_spec in Hx. subst. unfold byte_ok. lia.
Qed.

Lemma tlv_seg_ok fx o : tlv_wf o -> bytes_ok (fst (tlv_seg fx o)) /\ tlv_wf (snd (tlv_seg fx o)).
Proof.
  intros (Hx & Hy & Hd & Hol). unfold tlv_seg. destruct (t_type o =? 0).
  { split; [repeat constructor; unfold byte_ok; lia|repeat split; assumption]. }
  cbn [fst snd]. split.
  - constructor; [unfold byte_ok, u8; lia|]. constructor; [unfold byte_ok, u8; lia|].
    apply bytes_ok_app; [apply bytes_ok_firstn, Hd|].
    apply Forall_forall. intros x Hx'. apply repeat_spec in Hx'. subst. unfold byte_ok. lia.
  - repeat split; cbn [t_ax t_ay t_data t_olen]; try assumption. destruct fx; [unfold u8; lia|exact Hol].
Qed.

(* the alignment pad is never negative *)
Lemma align_pad_nonneg x y length : 0 < x -> 0 <= y -> 0 <= length ->
  0 <= (let n := length / x in let offset := x * n + y in
        let offset := if offset <? length then offset + x else offset in offset - length).
Proof.
  intros Hx Hy Hl. cbv zeta.
  destruct (x * (length / x) + y <? length) eqn:E; [|lia].
  pose proof (Z.mul_succ_div_gt length x ltac:(lia)). lia.
Qed.

Lemma tlvs_ser_spec b fx os : forall len segs os' total, Forall tlv_wf os -> 0 <= len ->
  tlvs_ser b fx os len = (segs, os', total) ->
  total = len + n6_len (concat segs) /\ bytes_ok (concat segs) /\ Forall tlv_wf os' /\ 0 <= total.
Proof.
  induction os as [|o t IH]; intros len segs os' total Hw Hl.
  - cbn [tlvs_ser]. destruct fx.
    + set (pad := if b then _ else _). assert (Hp : 0 <= pad < 8) by (subst pad; destruct b; lia).
      destruct (pad =? 0) eqn:E0; intros [= <- <- <-].
      * cbn. repeat split; try lia; constructor.
      * cbn [concat]. rewrite app_nil_r, pad_seg_len by lia. repeat split; try lia; [apply pad_seg_ok|constructor].
    + intros [= <- <- <-]. cbn. repeat split; try lia; constructor.
  - cbn [tlvs_ser]. inversion Hw as [|? ? Ho Ht]; subst.
    set (pad := if fx && negb (t_ax o =? 0) then _ else 0).
    assert (Hp : 0 <= pad).
    { subst pad. destruct (fx && negb (t_ax o =? 0)) eqn:EA; [|lia]. destruct Ho as (Hx & Hy & _).
      apply align_pad_nonneg; try assumption. lia. }
    clearbody pad.
    destruct (tlv_seg fx o) as [seg o'] eqn:ES.
    destruct (tlvs_ser b fx t (len + pad + n6_len seg)) as [[segs1 t'] total1] eqn:ER.
    intros [= <- <- <-].
    pose proof (tlv_seg_ok fx o Ho) as [Hsb Hso]. rewrite ES in Hsb, Hso. cbn [fst snd] in Hsb, Hso.
    pose proof (n6_len_nonneg seg).
    destruct (IH (len + pad + n6_len seg) _ _ _ Ht ltac:(lia) ER) as (Htot & Hbs & Hwf & Hnn).
    rewrite concat_app. cbn [concat]. rewrite !n6_len_app.
    destruct (pad =? 0) eqn:E0.
    + cbn [concat app]. change (n6_len []) with 0. repeat split; try lia; [apply bytes_ok_app; assumption|constructor; assumption].
    + cbn [concat]. rewrite app_nil_r, pad_seg_len by lia.
      repeat split; try lia; [apply bytes_ok_app; [apply pad_seg_ok|apply bytes_ok_app; assumption]|constructor; assumption].
Qed.

(* SerializeTo of an extension header as a function of the layer, the payload and FixLengths alone *)
Definition ext_wire (b : bool) (l : ext) (payload : list Z) (fx : bool) : outcome (list Z) * ext :=
  let '(segs, os', total) := tlvs_ser b fx (e_opts l) 2 in
  let body := concat segs in
  let length := n6_len body + 2 in
  if negb (length mod 8 =? 0) then (Err 4, mkExt (e_next l) (e_hlen l) (e_alen l) os' (e_contents l) (e_payload l))
  else
    let hl := if fx then u8 (length / 8 - 1) else e_hlen l in
    (Ok ([u8 (e_next l); u8 hl] ++ body ++ payload), mkExt (e_next l) hl (e_alen l) os' (e_contents l) (e_payload l)).

Lemma ext_serialize_gen_closed b l payload fx junk : ext_wf l ->
  let '(r, l', _) := ext_serialize_gen b l payload fx junk in (r, l') = ext_wire b l payload fx.
Proof.
  intros Hw. unfold ext_serialize_gen, ext_wire.
  destruct (tlvs_ser b fx (e_opts l) 2) as [[segs os'] total] eqn:ES.
  destruct (tlvs_ser_spec b fx (e_opts l) 2 segs os' total Hw ltac:(lia) ES) as (Htot & _ & _ & _).
  pose proof (n6_take_length (Z.to_nat (total - 2)) junk) as HL.
  destruct (n6_take (Z.to_nat (total - 2)) junk) as [region junk1]. cbn [fst] in HL.
  assert (HLc : length (concat segs) = length region) by (unfold n6_len in Htot; lia).
  rewrite (write_segs_ok segs region) by lia.
  destruct (negb ((n6_len (concat segs) + 2) mod 8 =? 0)); [reflexivity|].
  pose proof (n6_take_length 2 junk1) as HL2. destruct (n6_take 2 junk1) as [region2 junk2]. cbn [fst] in HL2.
  destruct region2 as [|a [|c [|]]]; try discriminate HL2. reflexivity.
Qed.

(* ---------------------------------------------------------------- IPv6 serialization *)

Definition ip6_wf (l : ip6) : Prop := match p_hbh l with Some h => ext_wf h | None => True end.

Definition ip6_hdr_bytes (l : ip6) : list Z :=
  [Z.lor (u8 (p_version l * 16)) (p_tclass l / 16); Z.lor (u8 (p_tclass l * 16)) (u8 (p_flow l / 65536))]
  ++ be_bytes 2 (p_flow l) ++ be_bytes 2 (p_length l) ++ [u8 (p_next l); u8 (p_hop l)] ++ p_src l ++ p_dst l.

Tactic Notation "explicit" ident(l) integer(n) hyp(H) :=
  do n (destruct l as [|? l]; [discriminate H|]); destruct l; [|discriminate H].

Lemma len16' (l : list Z) : n6_len l = 16 -> length l = 16%nat.
Proof. unfold n6_len. lia. Qed.

Lemma ip6_header_closed l region : length region = 40%nat -> n6_len (p_src l) = 16 -> n6_len (p_dst l) = 16 ->
  ip6_header l region = ip6_hdr_bytes l.
Proof.
  intros HR HS HD. unfold ip6_header, ip6_hdr_bytes. apply len16' in HS. apply len16' in HD.
  remember (be_bytes 2 (p_flow l)) as b1. remember (be_bytes 2 (p_length l)) as b2.
  assert (L1 : length b1 = 2%nat) by (subst; apply be_bytes_length).
  assert (L2 : length b2 = 2%nat) by (subst; apply be_bytes_length).
  remember (p_src l) as s. remember (p_dst l) as d.
  explicit b1 2 L1. explicit b2 2 L2. explicit s 16 HS. explicit d 16 HD. explicit region 40 HR.
  reflexivity.
Qed.

Lemma set_jumbo_wf v o : tlv_wf (set_jumbo v o).
Proof. unfold tlv_wf, set_jumbo. cbn [t_ax t_ay t_data t_olen]. repeat split; try lia. apply be_bytes_ok. Qed.

Lemma replace_first_jumbo_wf v os os' : Forall tlv_wf os -> replace_first_jumbo v os = Some os' -> Forall tlv_wf os'.
Proof.
  revert os'. induction os as [|o t IH]; intros os' Hw; [discriminate|]. cbn [replace_first_jumbo].
  inversion Hw; subst. destruct (t_type o =? JUMBO).
  - intros [= <-]. constructor; [apply set_jumbo_wf|assumption].
  - destruct (replace_first_jumbo v t) eqn:E; [|discriminate]. intros [= <-]. constructor; [assumption|]. apply IH; auto.
Qed.

Lemma add_jumbo_wf l : ip6_wf l -> ip6_wf (add_jumbo l).
Proof.
  unfold ip6_wf, add_jumbo, ext_wf. intros Hw.
  destruct (p_hbh l) as [h|]; cbn [p_hbh e_opts].
  - destruct (replace_first_jumbo 0 (e_opts h)) eqn:E; [eapply replace_first_jumbo_wf; eauto|].
    apply Forall_app; split; [exact Hw|]. constructor; [apply set_jumbo_wf|constructor].
  - cbn. constructor; [apply set_jumbo_wf|constructor].
Qed.

(* the search loop of setIPv6PayloadJumboLength cannot index out of range when the header lies
   well inside the buffer, and it ends within hbhLen rounds *)
Lemma jumbo_loop_no_panic fuel : forall hbh offset hbhLen, bytes_ok hbh -> 0 <= offset ->
  hbhLen + 6 <= n6_len hbh -> (Z.to_nat (hbhLen - offset) < fuel)%nat ->
  is_panic (jumbo_loop fuel hbh offset hbhLen) = false.
Proof.
  induction fuel as [|f IH]; intros hbh offset hbhLen Hb Ho Hl Hf; [lia|].
  cbn [jumbo_loop]. destruct (offset <? hbhLen) eqn:E; [|reflexivity].
  rewrite (n6_idx_eq hbh offset) by lia.
  destruct (nthZ hbh (Z.to_nat offset) =? 0). { apply IH; try assumption; lia. }
  rewrite (n6_idx_eq hbh (offset + 1)) by lia.
  pose proof (nthZ_byte' hbh (offset + 1) Hb ltac:(lia)) as Hol.
  destruct (nthZ hbh (Z.to_nat offset) =? JUMBO).
  - destruct (_ =? 4); [|reflexivity]. replace (n6_len hbh <? offset + 6) with false by lia. reflexivity.
  - apply IH; try assumption; lia.
Qed.

Lemma ext_wire_bytes b l payload fx bytes l' : ext_wf l -> bytes_ok payload ->
  ext_wire b l payload fx = (Ok bytes, l') ->
  bytes_ok bytes /\ n6_len payload + 2 <= n6_len bytes /\ ext_wf l' /\
  exists body, bytes = [u8 (e_next l); u8 (e_hlen l')] ++ body ++ payload /\ 0 <= e_hlen l' < 256 \/ fx = false.
Proof.
  intros Hw Hp. unfold ext_wire. destruct (tlvs_ser b fx (e_opts l) 2) as [[segs os'] total] eqn:ES.
  destruct (tlvs_ser_spec b fx (e_opts l) 2 segs os' total Hw ltac:(lia) ES) as (Htot & Hbs & Hwf & _).
  destruct (negb _); [discriminate|]. intros [= <- <-].
  pose proof (n6_len_nonneg (concat segs)).
  split; [|split; [|split]].
  - constructor; [unfold byte_ok, u8; lia|]. constructor; [unfold byte_ok, u8; lia|]. apply bytes_ok_app; assumption.
  - cbn [app]. rewrite !n6_len_cons, n6_len_app. lia.
  - exact Hwf.
  - exists (concat segs). destruct fx; [left|right; reflexivity]. cbn [e_hlen]. split; [reflexivity|unfold u8; lia].
Qed.

(* SerializeTo of IPv6 as a function of the layer, payload and FixLengths alone *)
Definition ip6_wire (l : ip6) (payload : list Z) (fx : bool) : outcome (list Z) * ip6 :=
  let jumbo := 65535 <? n6_len payload in
  let step1 : outcome ip6 :=
    if jumbo then
      if fx then Ok (add_jumbo l)
      else match p_hbh l with
           | None => Err 15
           | Some h => match get_jumbo h with
                       | Err e => Err e | Panic s => Panic s
                       | Ok (_, false) => Err 16
                       | Ok (_, true) => Ok l
                       end
           end
    else Ok l in
  match step1 with
  | Err e => (Err e, l)
  | Panic s => (Panic s, l)
  | Ok l1 =>
      let step2 : outcome (list Z) * ip6 :=
        match p_hbh l1 with
        | None => (Ok payload, l1)
        | Some h =>
            let '(r, h') := ext_wire false h payload fx in
            let l2 := set_len_next l1 (p_length l1) 0 (Some h') in
            match r with
            | Ok bytes =>
                if fx && jumbo then
                  match set_jumbo_len bytes with
                  | Ok bytes' =>
                      let os := match replace_first_jumbo (n6_len bytes) (e_opts h') with
                                | Some os' => os' | None => e_opts h' end in
                      (Ok bytes', set_len_next l1 (p_length l1) 0
                         (Some (mkExt (e_next h') (e_hlen h') (e_alen h') os (e_contents h') (e_payload h'))))
                  | Err e => (Err e, l2)
                  | Panic s => (Panic s, l2)
                  end
                else (Ok bytes, l2)
            | Err e => (Err e, l2)
            | Panic s => (Panic s, l2)
            end
        end in
      match step2 with
      | (Err e, l2) => (Err e, l2)
      | (Panic s, l2) => (Panic s, l2)
      | (Ok pl, l2) =>
          let pLen := n6_len pl in
          if negb jumbo && (65535 <? pLen) then (Err 17, l2)
          else
            let len' := if fx then (if jumbo then 0 else u16 pLen) else p_length l2 in
            let l3 := set_len_next l2 len' (p_next l2) (p_hbh l2) in
            if negb (n6_len (p_src l3) =? 16) then (Err 18, l3)
            else if negb (n6_len (p_dst l3) =? 16) then (Err 18, l3)
            else (Ok (ip6_hdr_bytes l3 ++ pl), l3)
      end
  end.

Lemma ip6_serialize_closed l payload fx cs junk : ip6_wf l ->
  ip6_serialize l payload fx cs junk = ip6_wire l payload fx.
Proof.
  intros Hw. unfold ip6_serialize, ip6_wire.
  set (step1 := if 65535 <? n6_len payload then _ else _).
  assert (H1 : forall l1, step1 = Ok l1 -> ip6_wf l1).
  { subst step1. intros l1. destruct (65535 <? n6_len payload); [|intros [= <-]; exact Hw].
    destruct fx; [intros [= <-]; apply add_jumbo_wf, Hw|].
    destruct (p_hbh l); [|discriminate]. destruct (get_jumbo e) as [[? [|]]|?|?]; try discriminate. intros [= <-]. exact Hw. }
  destruct step1 as [l1|e|s]; try reflexivity. specialize (H1 l1 eq_refl).
  unfold ip6_wf in H1. destruct (p_hbh l1) as [h|] eqn:EH.
  - pose proof (ext_serialize_gen_closed false h payload fx junk H1) as HC.
    destruct (ext_serialize_gen false h payload fx junk) as [[r h'] junk']. rewrite <- HC.
    destruct r as [bytes|e|s]; try reflexivity.
    destruct (fx && (65535 <? n6_len payload)).
    + destruct (set_jumbo_len bytes); try reflexivity.
      set (l2 := set_len_next l1 (p_length l1) 0 _).
      destruct (negb _ && _); [reflexivity|].
      destruct (negb (n6_len (p_src _) =? 16)) eqn:ES; [reflexivity|].
      destruct (negb (n6_len (p_dst _) =? 16)) eqn:ED; [reflexivity|].
      rewrite ip6_header_closed; [reflexivity|apply n6_take_length|lia|lia].
    + set (l2 := set_len_next l1 (p_length l1) 0 _).
      destruct (negb _ && _); [reflexivity|].
      destruct (negb (n6_len (p_src _) =? 16)) eqn:ES; [reflexivity|].
      destruct (negb (n6_len (p_dst _) =? 16)) eqn:ED; [reflexivity|].
      rewrite ip6_header_closed; [reflexivity|apply n6_take_length|lia|lia].
  - destruct (negb _ && _); [reflexivity|].
    destruct (negb (n6_len (p_src _) =? 16)) eqn:ES; [reflexivity|].
    destruct (negb (n6_len (p_dst _) =? 16)) eqn:ED; [reflexivity|].
    rewrite ip6_header_closed; [reflexivity|apply n6_take_length|lia|lia].
Qed.

Lemma set_jumbo_len_no_panic bytes : bytes_ok bytes -> 65535 < n6_len bytes -> is_panic (set_jumbo_len bytes) = false.
Proof.
  intros Hb Hl. unfold set_jumbo_len. replace (n6_len bytes <? 8) with false by lia.
  rewrite (n6_idx_eq bytes 1) by lia. pose proof (nthZ_byte' bytes 1 Hb ltac:(lia)) as Hhl.
  set (hl := nthZ bytes (Z.to_nat 1)) in *. replace (n6_len bytes <? (hl + 1) * 8) with false by lia.
  apply jumbo_loop_no_panic; try assumption; lia.
Qed.

Lemma ext_wire_no_panic b l payload fx : is_panic (fst (ext_wire b l payload fx)) = false.
Proof.
  unfold ext_wire. destruct (tlvs_ser b fx (e_opts l) 2) as [[segs os'] total]. destruct (negb _); reflexivity.
Qed.

Lemma ip6_wire_no_panic l payload fx : ip6_wf l -> bytes_ok payload -> is_panic (fst (ip6_wire l payload fx)) = false.
Proof.
  intros Hw Hp. unfold ip6_wire.
  set (step1 := if 65535 <? n6_len payload then _ else _).
  assert (H1 : (forall l1, step1 = Ok l1 -> ip6_wf l1) /\ is_panic step1 = false).
  { subst step1. destruct (65535 <? n6_len payload); [|split; [intros l1 [= <-]; exact Hw|reflexivity]].
    destruct fx; [split; [intros l1 [= <-]; apply add_jumbo_wf, Hw|reflexivity]|].
    destruct (p_hbh l); [|split; [discriminate|reflexivity]].
    pose proof (get_jumbo_no_panic e) as Hj. destruct (get_jumbo e) as [[? [|]]|?|?]; cbn in Hj; try discriminate;
      split; try reflexivity; try discriminate. intros l1 [= <-]. exact Hw. }
  destruct H1 as [H1 H1p]. destruct step1 as [l1|e|s]; try reflexivity; [|discriminate H1p]. specialize (H1 l1 eq_refl).
  unfold ip6_wf in H1. destruct (p_hbh l1) as [h|] eqn:EH.
  - pose proof (ext_wire_no_panic false h payload fx) as Hnp.
    destruct (ext_wire false h payload fx) as [r h'] eqn:EW. cbn [fst] in Hnp.
    destruct r as [bytes|e|s]; try reflexivity; [|discriminate Hnp].
    destruct (fx && (65535 <? n6_len payload)) eqn:EJ.
    + destruct (ext_wire_bytes false h payload fx bytes h' H1 Hp EW) as (Hbb & Hlen & _).
      pose proof (set_jumbo_len_no_panic bytes Hbb ltac:(lia)) as Hs.
      destruct (set_jumbo_len bytes); cbn in Hs; try discriminate; try reflexivity.
      destruct (negb _ && _); [reflexivity|]. destruct (negb (n6_len (p_src _) =? 16)); [reflexivity|].
      destruct (negb (n6_len (p_dst _) =? 16)); reflexivity.
    + destruct (negb _ && _); [reflexivity|]. destruct (negb (n6_len (p_src _) =? 16)); [reflexivity|].
      destruct (negb (n6_len (p_dst _) =? 16)); reflexivity.
  - destruct (negb _ && _); [reflexivity|]. destruct (negb (n6_len (p_src _) =? 16)); [reflexivity|].
    destruct (negb (n6_len (p_dst _) =? 16)); reflexivity.
Qed.

(* a value that decoding produced is a value of the Go types *)
Lemma ext_loop_wf fuel : forall acc offset data al, bytes_ok data -> 0 <= offset -> al <= n6_len data ->
  Forall tlv_wf acc -> Forall tlv_wf (fst (fst (ext_loop fuel acc offset data al))).
Proof.
  induction fuel as [|f IH]; intros acc offset data al Hb Ho Hal Hw; [exact Hw|].
  cbn [ext_loop]. destruct (offset <? al) eqn:E; [|exact Hw].
  rewrite (n6_from_eq data offset) by lia.
  destruct (tlv_decode (skipn (Z.to_nat offset) data)) as [[o|e|s] tr] eqn:ED; try exact Hw.
  pose proof ED as ED'. apply tlv_decode_ok in ED as (_ & Hal1 & _ & Hbd & Hx & Hy); [|apply bytes_ok_skipn, Hb].
  destruct (al <? offset + t_alen o) eqn:E2; [exact Hw|].
  apply IH; try assumption; try lia. apply Forall_app; split; [exact Hw|]. constructor; [|constructor].
  unfold tlv_wf. rewrite Hx, Hy. repeat split; try lia; try assumption.
  rewrite tlv_decode_eq in ED' by (apply bytes_ok_skipn, Hb).
  set (d := skipn (Z.to_nat offset) data) in *.
  destruct (n6_len d <? 1) eqn:E1; [discriminate|]. cbv zeta in ED'.
  destruct (nthZ d 0 =? 0); [injection ED' as <- _; cbn; lia|].
  destruct (n6_len d <? 2) eqn:E3; [discriminate|].
  pose proof (nthZ_byte' d 1 ltac:(apply bytes_ok_skipn, Hb) ltac:(lia)) as Hol. change (Z.to_nat 1) with 1%nat in Hol.
  destruct (n6_len d <? nthZ d 1 + 2); [discriminate|]. injection ED' as <- _. cbn [t_olen]. lia.
Qed.

Lemma ext_decode_wf keep old data : bytes_ok data -> ext_wf old -> ext_wf (fst (fst (ext_decode_gen keep old data))).
Proof.
  intros Hb Hw. rewrite ext_decode_eq by exact Hb. destruct (n6_len data <? 2) eqn:E2; [exact Hw|]. cbv zeta.
  pose proof (nthZ_byte' data 1 Hb ltac:(lia)) as Hhl. change (Z.to_nat 1) with 1%nat in Hhl.
  destruct (n6_len data <? nthZ data 1 * 8 + 8) eqn:E3; [exact Hw|].
  pose proof (ext_loop_wf (S (length data)) (if keep then e_opts old else []) 2 data (nthZ data 1 * 8 + 8) Hb ltac:(lia) ltac:(lia)
               ltac:(destruct keep; [exact Hw|constructor])) as P.
  destruct (ext_loop _ _ _ _ _) as [[os r] tr]. exact P.
Qed.

Lemma ip6_trim_wf l sub : ip6_wf l -> ip6_wf (fst (fst (ip6_trim l sub))).
Proof.
  intros Hw. unfold ip6_trim. destruct (p_length l =? 0); [exact Hw|]. destruct (p_length l - sub <? 0); [exact Hw|].
  destruct (n6_slice _ _ _); [|exact Hw]. unfold ip6_wf in *. cbn. destruct (p_hbh l); exact Hw.
Qed.

Lemma ip6_decode_wf old data : bytes_ok data -> ip6_wf old -> ip6_wf (fst (fst (ip6_decode_into old data))).
Proof.
  intros Hb Hw. unfold ip6_decode_into. destruct (Z.lt_ge_cases (n6_len data) 40) as [Hs|H40].
  { unfold ip6_decode_gen. replace (n6_len data <? 40) with true by lia. exact Hw. }
  rewrite (ip6_decode_head false old data H40). set (l0 := ip6_head data). unfold ip6_body.
  assert (W0 : ip6_wf l0) by exact I.
  destruct (p_next l0 =? 0); [|apply ip6_trim_wf, W0].
  pose proof (ext_decode_wf false ext_fresh (p_payload l0) ltac:(apply bytes_ok_skipn, Hb) ltac:(constructor)) as Hh.
  unfold ext_decode_into. destruct (ext_decode_gen false ext_fresh (p_payload l0)) as [[h [u|e|s]] tr]; try exact W0.
  cbn [fst] in Hh. cbv zeta.
  destruct (get_jumbo h) as [[jl jumbo]|e|s]; try exact Hh.
  destruct (jumbo && (p_length l0 =? 0)).
  { destruct (n6_slice _ _ _); [|exact Hh]. destruct (n6_from _ _); exact Hh. }
  destruct jumbo; [exact Hh|]. destruct (p_length l0 =? 0); [exact Hh|].
  destruct (n6_from _ _); [|exact Hh]. apply ip6_trim_wf. exact Hh.
Qed.
