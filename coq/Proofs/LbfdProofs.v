(* Lemmas about the BFD codec model (Model/LbfdModel.v). *)
From GP Require Import Base ListX Codec MiscLib LbfdModel.
From Coq Require Import Lia ZifyBool ZifyNat.
Open Scope Z_scope.
Ltac Zify.zify_post_hook ::= Z.div_mod_to_equations.

Lemma zlen_slice_b (l : list Z) a b : 0 <= a <= b -> b <= zlen l -> zlen (slice l (Z.to_nat a) (Z.to_nat b)) = b - a.
Proof. intros H1 H2. unfold zlen in *. rewrite slice_length by lia. lia. Qed.

Lemma bfd_decode_no_panic orig old data : is_panic (snd (fst (bfd_decode_gen orig old data))) = false.
Proof.
  unfold bfd_decode_gen. cbv zeta. destruct (zlen data <? 24) eqn:Hn; [reflexivity|].
  rewrite !cd_idx_ok by lia. cbn [ml_bind].
  match goal with |- context [if negb ?c then _ else _] => destruct c; cbn [negb] end; [|reflexivity].
  rewrite !cd_slc_ok by lia. rewrite !ml_rd32_ok by lia. cbn [ml_bind].
  set (rest := slice data (Z.to_nat 24) (Z.to_nat (zlen data))).
  assert (Hr : zlen rest = zlen data - 24) by (unfold rest; apply zlen_slice_b; lia).
  match goal with |- context [if ?c && (2 <? zlen rest) then _ else _] => destruct (c && (2 <? zlen rest)) eqn:A end; [|reflexivity].
  apply andb_prop in A. destruct A as [_ A].
  rewrite !cd_idx_ok by lia. rewrite cd_slc_ok by lia. cbn [ml_bind].
  set (r3 := slice rest (Z.to_nat 3) (Z.to_nat (zlen rest))).
  assert (Hr3 : zlen r3 = zlen rest - 3) by (unfold r3; apply zlen_slice_b; lia).
  destruct (nth (Z.to_nat 0) rest 0 =? 1); [reflexivity|].
  destruct (ba_keyed _); [|reflexivity].
  destruct (zlen r3 <? 5) eqn:C5; [reflexivity|].
  rewrite ml_rd32_ok by lia. rewrite cd_slc_ok by lia. reflexivity.
Qed.

Ltac bstep :=
  match goal with
  | |- context [ml_bind ?o _ _ _] => destruct o eqn:?; cbn [ml_bind]
  | |- context [if ?c then _ else _] => destruct c eqn:?
  end.

Lemma bfd_decode_fresh old data :
  let r1 := bfd_decode_into old data in
  let r2 := bfd_decode_into bfd_fresh data in
  snd (fst r1) = snd (fst r2) /\ snd r1 = snd r2 /\
  (snd (fst r1) = Ok tt -> fst (fst r1) = fst (fst r2)).
Proof.
  cbv zeta. unfold bfd_decode_into, bfd_decode_gen. cbv zeta.
  repeat (bstep; try solve [cbn [fst snd]; split; [reflexivity | split; [reflexivity | try (intros X; discriminate X); try reflexivity]]]).
  all: try (cbn [fst snd]; split; [reflexivity | split; [reflexivity | intros _; reflexivity]]).
Qed.

(* without the repair a packet without authentication section left the old header in place *)
Lemma bfd_decode_orig_stale : exists a b l1 l2,
  bfd_decode_orig bfd_fresh a = (l1, Ok tt, false) /\ bfd_decode_orig l1 b = (l2, Ok tt, false) /\
  b_auth l2 <> None /\ b_auth (fst (fst (bfd_decode_orig bfd_fresh b))) = None.
Proof.
  exists ([32;196;3;28;0;0;0;1;0;0;0;2;0;0;0;3;0;0;0;4;0;0;0;5] ++ [1;4;9;7]),
         [32;192;3;24;0;0;0;1;0;0;0;2;0;0;0;3;0;0;0;4;0;0;0;5].
  eexists. eexists. split; [vm_compute; reflexivity|]. split; [vm_compute; reflexivity|]. split; [cbn; discriminate|reflexivity].
Qed.

(* ---------------------------------------------------------------- serializer *)
Definition bfd_rej (l : bfd) : bool := match b_auth l with Some a => b_authp l && (ba_len a =? 0) | None => false end.
Definition bfd_authbytes (l : bfd) : list Z := match b_auth l with Some a => if b_authp l then ba_bytes a else [] | None => [] end.

Lemma ba_bytes_len a : ba_len a <> 0 -> zlen (ba_bytes a) = ba_len a.
Proof.
  unfold ba_bytes, ba_len. intros H. destruct (ba_type a =? 1).
  - rewrite zlen_app. change (zlen [ba_type a mod 256; _; ba_keyid a mod 256]) with 3. lia.
  - destruct (ba_keyed (ba_type a)); [|congruence]. rewrite !zlen_app, zlen_put32. change (zlen [0]) with 1.
    change (zlen [ba_type a mod 256; _; ba_keyid a mod 256]) with 3. lia.
Qed.

Lemma bfd_serialize_spec l payload fixl csum junk :
  bfd_serialize l payload fixl csum junk =
  if bfd_rej l then (Err 1, l) else (Ok (bfd_hdr l ++ payload ++ bfd_authbytes l), l).
Proof.
  unfold bfd_serialize. fold (bfd_rej l). destruct (bfd_rej l) eqn:R; [reflexivity|].
  pose proof (ml_tile_init 24 junk ltac:(lia)) as T.
  destruct (ml_tile_wrc _ _ (bfd_hdr l) _ 0 T eq_refl ltac:(change (zlen (bfd_hdr l)) with 24; change (zlen []) with 0; lia)) as [b [E T']].
  rewrite E. cbn [obind]. apply ml_tile_done in T'; [|reflexivity]. subst b.
  unfold bfd_authbytes, bfd_rej in *. destruct (b_auth l) as [a|]; [|rewrite app_nil_r; reflexivity].
  destruct (b_authp l); [|rewrite app_nil_r; reflexivity]. cbn [andb] in R.
  assert (Hl : ba_len a <> 0) by lia. pose proof (ba_bytes_len a Hl) as Lb.
  assert (Hp : 0 <= ba_len a) by (rewrite <- Lb; apply zlen_nonneg).
  pose proof (ml_tile_init (ba_len a) (skipn 24 junk) Hp) as T2.
  destruct (ml_tile_wrc _ _ (ba_bytes a) _ 0 T2 eq_refl ltac:(change (zlen []) with 0; lia)) as [b2 [E2 T2']].
  rewrite E2. cbn [obind]. apply ml_tile_done in T2'; [|cbn [app]; exact Lb]. subst b2. reflexivity.
Qed.

Lemma bfd_serialize_junk_free l payload fixl csum junk1 junk2 :
  bfd_serialize l payload fixl csum junk1 = bfd_serialize l payload fixl csum junk2.
Proof. rewrite !bfd_serialize_spec. reflexivity. Qed.

Lemma bfd_serialize_no_panic l payload fixl csum junk : is_panic (fst (bfd_serialize l payload fixl csum junk)) = false.
Proof. rewrite bfd_serialize_spec. destruct (bfd_rej l); reflexivity. Qed.
