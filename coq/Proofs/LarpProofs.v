(* Lemmas about the ARP codec model (Model/LarpModel.v). *)
From GP Require Import Base ListX Codec MiscLib LarpModel.
From Coq Require Import Lia ZifyBool ZifyNat.
Open Scope Z_scope.
Ltac Zify.zify_post_hook ::= Z.div_mod_to_equations.

Lemma arp_decode_no_panic old data : bytes_ok data -> is_panic (snd (fst (arp_decode_into old data))) = false.
Proof.
  intros Hb. unfold arp_decode_into. cbv zeta.
  destruct (zlen data <? 8) eqn:Hn; [reflexivity|].
  rewrite !cd_rd16_ok, !cd_idx_ok by lia. cbn [ml_bind].
  pose proof (bytes_ok_nth data (Z.to_nat 4) Hb) as H4. pose proof (bytes_ok_nth data (Z.to_nat 5) Hb) as H5.
  set (hw := nth (Z.to_nat 4) data 0) in *. set (ps := nth (Z.to_nat 5) data 0) in *.
  destruct (zlen data <? 8 + 2 * hw + 2 * ps) eqn:Hl; [reflexivity|].
  rewrite !cd_slc_ok by lia. reflexivity.
Qed.

Ltac astep :=
  match goal with
  | |- context [ml_bind ?o _ _ _] => destruct o eqn:?; cbn [ml_bind]
  | |- context [if ?c then _ else _] => destruct c eqn:?
  end.

Lemma arp_decode_fresh old data :
  let r1 := arp_decode_into old data in
  let r2 := arp_decode_into arp_fresh data in
  snd (fst r1) = snd (fst r2) /\ snd r1 = snd r2 /\
  (snd (fst r1) = Ok tt -> fst (fst r1) = fst (fst r2)).
Proof.
  cbv zeta. unfold arp_decode_into. cbv zeta.
  repeat (astep; try solve [cbn [fst snd]; split; [reflexivity | split; [reflexivity | try (intros X; discriminate X); try reflexivity]]]).
  all: cbn [fst snd]; split; [reflexivity | split; [reflexivity | intros _; reflexivity]].
Qed.

(* the layer after FixLengths *)
Definition arp_fixed (fixl : bool) (l : arp) : arp :=
  if fixl then mkArp (a_contents l) (a_payload l) (a_addrtype l) (a_proto l)
                     (zlen (a_shw l) mod 256) (zlen (a_sprot l) mod 256) (a_op l)
                     (a_shw l) (a_sprot l) (a_dhw l) (a_dprot l) else l.

Definition arp_hdr (l : arp) : list Z :=
  cd_put16 (a_addrtype l) ++ cd_put16 (a_proto l) ++ [a_hwsize l mod 256] ++ [a_protsize l mod 256] ++
  cd_put16 (a_op l) ++ a_shw l ++ a_sprot l ++ a_dhw l ++ a_dprot l.

Definition arp_ser_spec (l : arp) (payload : list Z) (fixl : bool) : outcome (list Z) * arp :=
  if fixl && negb (zlen (a_shw l) =? zlen (a_dhw l)) then (Err 1, l)
  else if fixl && negb (zlen (a_sprot l) =? zlen (a_dprot l)) then
    (Err 2, mkArp (a_contents l) (a_payload l) (a_addrtype l) (a_proto l) (zlen (a_shw l) mod 256)
                  (a_protsize l) (a_op l) (a_shw l) (a_sprot l) (a_dhw l) (a_dprot l))
  else (Ok (arp_hdr (arp_fixed fixl l) ++ payload), arp_fixed fixl l).

Lemma arp_fixed_addrs fixl l :
  a_shw (arp_fixed fixl l) = a_shw l /\ a_sprot (arp_fixed fixl l) = a_sprot l /\
  a_dhw (arp_fixed fixl l) = a_dhw l /\ a_dprot (arp_fixed fixl l) = a_dprot l.
Proof. destruct fixl; cbn; repeat split; reflexivity. Qed.

Lemma arp_serialize_spec l payload fixl csum junk :
  arp_serialize l payload fixl csum junk = arp_ser_spec l payload fixl.
Proof.
  unfold arp_serialize, arp_ser_spec. cbv zeta.
  destruct fixl; cbn [andb].
  - destruct (zlen (a_shw l) =? zlen (a_dhw l)) eqn:E1; cbn [negb]; [|reflexivity].
    destruct (zlen (a_sprot l) =? zlen (a_dprot l)) eqn:E2; cbn [negb]; [|reflexivity].
    fold (arp_fixed true l).
    destruct (arp_fixed_addrs true l) as [A1 [A2 [A3 A4]]]. rewrite A1, A2, A3, A4.
    set (l1 := arp_fixed true l) in *.
    pose proof (zlen_nonneg (a_shw l)); pose proof (zlen_nonneg (a_sprot l));
    pose proof (zlen_nonneg (a_dhw l)); pose proof (zlen_nonneg (a_dprot l)).
    pose proof (ml_tile_init (8 + zlen (a_shw l) + zlen (a_sprot l) + zlen (a_dhw l) + zlen (a_dprot l)) junk ltac:(lia)) as T.
    do 9 ml_tile_step T.
    apply ml_tile_done in T; [|rewrite ?zlen_app, ?zlen_put16, ?zlen_one, ?zlen_nil; lia].
    subst. unfold arp_hdr. rewrite A1, A2, A3, A4. rewrite <- ?app_assoc; cbn [app]; rewrite <- ?app_assoc; cbn [app]; reflexivity.
  - change (arp_fixed false l) with l.
    pose proof (zlen_nonneg (a_shw l)); pose proof (zlen_nonneg (a_sprot l));
    pose proof (zlen_nonneg (a_dhw l)); pose proof (zlen_nonneg (a_dprot l)).
    pose proof (ml_tile_init (8 + zlen (a_shw l) + zlen (a_sprot l) + zlen (a_dhw l) + zlen (a_dprot l)) junk ltac:(lia)) as T.
    do 9 ml_tile_step T.
    apply ml_tile_done in T; [|rewrite ?zlen_app, ?zlen_put16, ?zlen_one, ?zlen_nil; lia].
    subst. unfold arp_hdr. rewrite <- ?app_assoc; cbn [app]; rewrite <- ?app_assoc; cbn [app]; reflexivity.
Qed.

Lemma arp_serialize_junk_free l payload fixl csum junk1 junk2 :
  arp_serialize l payload fixl csum junk1 = arp_serialize l payload fixl csum junk2.
Proof. rewrite !arp_serialize_spec. reflexivity. Qed.

Lemma arp_serialize_no_panic l payload fixl csum junk : is_panic (fst (arp_serialize l payload fixl csum junk)) = false.
Proof.
  rewrite arp_serialize_spec. unfold arp_ser_spec.
  destruct (fixl && negb (zlen (a_shw l) =? zlen (a_dhw l))); [reflexivity|].
  destruct (fixl && negb (zlen (a_sprot l) =? zlen (a_dprot l))); reflexivity.
Qed.

(* C06 hypothesis: 16-bit fields in range; address pairs of equal length below 256; without
   FixLengths the size fields must already equal the address lengths *)
Definition arp_wf (fixl : bool) (l : arp) : Prop :=
  0 <= a_addrtype l < 65536 /\ 0 <= a_proto l < 65536 /\ 0 <= a_op l < 65536 /\
  zlen (a_shw l) = zlen (a_dhw l) /\ zlen (a_sprot l) = zlen (a_dprot l) /\
  zlen (a_shw l) < 256 /\ zlen (a_sprot l) < 256 /\
  (fixl = false -> a_hwsize l = zlen (a_shw l) /\ a_protsize l = zlen (a_sprot l)).

Lemma arp_roundtrip l payload fixl csum junk bytes l' old :
  arp_wf fixl l -> arp_serialize l payload fixl csum junk = (Ok bytes, l') ->
  l' = arp_fixed fixl l /\ bytes = arp_hdr l' ++ payload /\
  arp_decode_into old bytes =
    (mkArp (arp_hdr l') payload (a_addrtype l) (a_proto l) (zlen (a_shw l)) (zlen (a_sprot l)) (a_op l)
           (a_shw l) (a_sprot l) (a_dhw l) (a_dprot l), Ok tt, false).
Proof.
  intros [Hat [Hpr [Hop [Hh [Hp [Hh2 [Hp2 Hnf]]]]]]].
  rewrite arp_serialize_spec. unfold arp_ser_spec.
  replace (zlen (a_shw l) =? zlen (a_dhw l)) with true by lia.
  replace (zlen (a_sprot l) =? zlen (a_dprot l)) with true by lia.
  rewrite !andb_false_r. intros X; inversion X; subst bytes l'; clear X.
  split; [reflexivity|]. split; [reflexivity|].
  pose proof (zlen_nonneg (a_shw l)) as N1; pose proof (zlen_nonneg (a_sprot l)) as N2.
  assert (Hs : a_hwsize (arp_fixed fixl l) mod 256 = zlen (a_shw l) /\ a_protsize (arp_fixed fixl l) mod 256 = zlen (a_sprot l)).
  { destruct fixl; cbn [arp_fixed a_hwsize a_protsize].
    - rewrite !Z.mod_mod by lia. rewrite !Z.mod_small by lia. split; reflexivity.
    - destruct (Hnf eq_refl) as [-> ->]. rewrite !Z.mod_small by lia. split; reflexivity. }
  destruct Hs as [Hs1 Hs2].
  assert (Hf : a_addrtype (arp_fixed fixl l) = a_addrtype l /\ a_proto (arp_fixed fixl l) = a_proto l /\ a_op (arp_fixed fixl l) = a_op l)
    by (destruct fixl; cbn; repeat split; reflexivity).
  destruct Hf as [F1 [F2 F3]].
  destruct (arp_fixed_addrs fixl l) as [A1 [A2 [A3 A4]]].
  unfold arp_hdr. rewrite Hs1, Hs2, F1, F2, F3, A1, A2, A3, A4. clear Hs1 Hs2 F1 F2 F3 A1 A2 A3 A4 Hnf.
  set (hw := zlen (a_shw l)) in *. set (ps := zlen (a_sprot l)) in *.
  set (h8 := [(a_addrtype l / 256) mod 256; a_addrtype l mod 256; (a_proto l / 256) mod 256; a_proto l mod 256;
              hw; ps; (a_op l / 256) mod 256; a_op l mod 256]).
  set (addrs := a_shw l ++ a_sprot l ++ a_dhw l ++ a_dprot l).
  change (cd_put16 (a_addrtype l) ++ cd_put16 (a_proto l) ++ [hw] ++ [ps] ++ cd_put16 (a_op l) ++
          a_shw l ++ a_sprot l ++ a_dhw l ++ a_dprot l) with (h8 ++ addrs).
  match goal with |- arp_decode_into old _ = ?r => change (arp_decode_into old ((h8 ++ addrs) ++ payload) = r) end.
  remember ((h8 ++ addrs) ++ payload) as data eqn:Hd.
  assert (Ha : zlen addrs = 2 * hw + 2 * ps) by (unfold addrs; rewrite !zlen_app; lia).
  assert (Hn : zlen data = 8 + 2 * hw + 2 * ps + zlen payload) by (rewrite Hd, !zlen_app, Ha; change (zlen h8) with 8; lia).
  pose proof (zlen_nonneg payload) as N3.
  unfold arp_decode_into. cbv zeta.
  destruct (zlen data <? 8) eqn:C1; [lia|].
  rewrite !cd_rd16_ok, !cd_idx_ok by lia. cbn [ml_bind].
  change (Z.to_nat 0) with 0%nat; change (Z.to_nat (0 + 1)) with 1%nat; change (Z.to_nat 2) with 2%nat;
  change (Z.to_nat (2 + 1)) with 3%nat; change (Z.to_nat 4) with 4%nat; change (Z.to_nat 5) with 5%nat;
  change (Z.to_nat 6) with 6%nat; change (Z.to_nat (6 + 1)) with 7%nat.
  assert (Hnth : forall k, (k < 8)%nat -> nth k data 0 = nth k h8 0).
  { intros k Hk. rewrite Hd, <- app_assoc. apply app_nth1. exact Hk. }
  rewrite !Hnth by lia. cbn [nth h8].
  rewrite !cd_put16_be by lia.
  destruct (zlen data <? 8 + 2 * hw + 2 * ps) eqn:C2; [lia|].
  rewrite !cd_slc_ok by lia. cbn [ml_bind].
  assert (L8 : length h8 = 8%nat) by reflexivity.
  (* the six slices *)
  assert (S1 : slice data (Z.to_nat 8) (Z.to_nat (8 + hw)) = a_shw l).
  { rewrite Hd. unfold addrs. rewrite <- app_assoc. rewrite <- (app_assoc (a_shw l)).
    apply slice_at; unfold hw, zlen in *; lia. }
  assert (S2 : slice data (Z.to_nat (8 + hw)) (Z.to_nat (8 + hw + ps)) = a_sprot l).
  { rewrite Hd. unfold addrs. rewrite <- !app_assoc. rewrite (app_assoc h8 (a_shw l)).
    apply slice_at; rewrite ?app_length; unfold hw, ps, zlen in *; lia. }
  assert (S3 : slice data (Z.to_nat (8 + hw + ps)) (Z.to_nat (8 + 2 * hw + ps)) = a_dhw l).
  { rewrite Hd. unfold addrs. rewrite <- !app_assoc. rewrite (app_assoc (a_shw l)), (app_assoc h8).
    apply slice_at; rewrite ?app_length; unfold hw, ps, zlen in *; lia. }
  assert (S4 : slice data (Z.to_nat (8 + 2 * hw + ps)) (Z.to_nat (8 + 2 * hw + 2 * ps)) = a_dprot l).
  { rewrite Hd. unfold addrs. rewrite <- !app_assoc. rewrite (app_assoc (a_sprot l)), (app_assoc (a_shw l)), (app_assoc h8).
    apply slice_at; rewrite ?app_length; unfold hw, ps, zlen in *; lia. }
  assert (S5 : slice data (Z.to_nat 0) (Z.to_nat (8 + 2 * hw + 2 * ps)) = h8 ++ addrs).
  { rewrite Hd. apply slice_from_start. rewrite app_length. unfold zlen in *. lia. }
  assert (S6 : slice data (Z.to_nat (8 + 2 * hw + 2 * ps)) (Z.to_nat (zlen data)) = payload).
  { rewrite Hn. rewrite Hd. apply slice_to_end; rewrite ?app_length; unfold zlen in *; lia. }
  rewrite S1, S2, S3, S4, S5, S6. reflexivity.
Qed.

Lemma arp_decoded_wf old data l tr fixl : bytes_ok data ->
  arp_decode_into old data = (l, Ok tt, tr) -> arp_wf fixl l.
Proof.
  intros Hb. unfold arp_decode_into. cbv zeta.
  destruct (zlen data <? 8) eqn:Hn; [discriminate|].
  rewrite !cd_rd16_ok, !cd_idx_ok by lia. cbn [ml_bind].
  pose proof (bytes_ok_nth data (Z.to_nat 4) Hb) as H4. pose proof (bytes_ok_nth data (Z.to_nat 5) Hb) as H5.
  pose proof (bytes_ok_nth data (Z.to_nat 0) Hb); pose proof (bytes_ok_nth data (Z.to_nat (0 + 1)) Hb);
  pose proof (bytes_ok_nth data (Z.to_nat 2) Hb); pose proof (bytes_ok_nth data (Z.to_nat (2 + 1)) Hb);
  pose proof (bytes_ok_nth data (Z.to_nat 6) Hb); pose proof (bytes_ok_nth data (Z.to_nat (6 + 1)) Hb).
  set (hw := nth (Z.to_nat 4) data 0) in *. set (ps := nth (Z.to_nat 5) data 0) in *.
  destruct (zlen data <? 8 + 2 * hw + 2 * ps) eqn:Hl; [discriminate|].
  rewrite !cd_slc_ok by lia. cbn [ml_bind]. intros X.
  match type of X with (?t, _, _) = _ => assert (El : l = t) by congruence end. subst l. clear X.
  unfold arp_wf. cbn [a_addrtype a_proto a_op a_shw a_sprot a_dhw a_dprot a_hwsize a_protsize].
  assert (SL : forall a b, 0 <= a <= b -> b <= zlen data -> zlen (slice data (Z.to_nat a) (Z.to_nat b)) = b - a).
  { intros a b Hab Hb2. unfold zlen in *. rewrite slice_length by lia. lia. }
  rewrite !SL by lia.
  repeat split; try lia.
Qed.
