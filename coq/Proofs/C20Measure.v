(* C20 — every step of the composed system decreases the measure [mu]: all runs are finite,
   whatever the configuration (original or repaired code), program, history and schedule. *)
From GP Require Import Base C20Model.
From Coq Require Import Lia.
Open Scope nat_scope.

Definition lrw (b : bool) : nat := if b then 0 else 4.
Definition dw (d : option nat) : nat := if d then 1 else 0.

Lemma b_w_cons : forall e t, b_w (e :: t) = e_w e + b_w t.
Proof. reflexivity. Qed.
Lemma bs_w_cons : forall b t, bs_w (b :: t) = b_w b + bs_w t.
Proof. reflexivity. Qed.
Lemma ops_w_cons : forall o t, ops_w (o :: t) = op_w o + ops_w t.
Proof. reflexivity. Qed.

Lemma c_w_eq : forall g c,
  c_w g c = pc_w (pc c) + ops_w (ops c) + idle_w g c + b_w (cur c) + lrw (lrep c).
Proof. reflexivity. Qed.

Lemma idle_w_le : forall g c, idle_w g c <= 3.
Proof.
  intros g c. unfold idle_w. destruct (pc c); try lia.
  destruct (negb (closed c) && isnil (fst (strip g (lrep c) (cur c)))); lia.
Qed.

Lemma idle_w_notidle : forall g c, pc c <> CIdle -> idle_w g c = 0.
Proof. intros g c H. unfold idle_w. destruct (pc c); try reflexivity. congruence. Qed.

Lemma strip_w : forall g c lr,
  b_w (fst (strip g lr c)) + lrw (snd (strip g lr c)) <= b_w c + lrw lr.
Proof.
  intros g c. induction c as [|e t IH]; intros lr; cbn [strip].
  - cbn [fst snd]. lia.
  - destruct (rbytes e) as [|x l] eqn:Eb.
    + destruct (strip_keeps_loss g && loss_errors g && negb lr && negb (rskip e =? 0)%Z).
      * cbn [fst snd]. lia.
      * specialize (IH false). rewrite b_w_cons. unfold e_w. rewrite Eb.
        cbn [length]. unfold lrw in *. destruct lr; lia.
    + cbn [fst snd]. lia.
Qed.

(* the slice stripEmpty stops at has bytes, or (repaired code) a loss still to report *)
Lemma strip_head : forall g c lr e t, fst (strip g lr c) = e :: t ->
  rbytes e <> [] \/
  (strip_keeps_loss g && loss_errors g && negb (snd (strip g lr c)) && negb (rskip e =? 0)%Z = true).
Proof.
  intros g c. induction c as [|e0 t0 IH]; intros lr e t H; cbn [strip] in *.
  - cbn in H. discriminate.
  - destruct (rbytes e0) as [|x l] eqn:Eb.
    + destruct (strip_keeps_loss g && loss_errors g && negb lr && negb (rskip e0 =? 0)%Z) eqn:Eg.
      * cbn [fst snd] in *. injection H as -> ->. right. exact Eg.
      * apply (IH _ _ _ H).
    + cbn [fst snd] in *. injection H as -> ->. left. rewrite Eb. discriminate.
Qed.

Lemma requeue_w : forall d o, ops_w (requeue d o) = dw d + ops_w o.
Proof. intros [m|] o; reflexivity. Qed.

Lemma skipn_len_le : forall A n (l : list A), length (skipn n l) <= length l.
Proof. intros. rewrite skipn_length. lia. Qed.

Lemma finish_w : forall g c n d,
  c_w g (c_finish g c n d) <= ops_w (ops c) + dw d + 3 + b_w (cur c) + lrw (lrep c).
Proof.
  intros g c n d. unfold c_finish. destruct (cur c) as [|e t] eqn:Ec.
  - rewrite c_w_eq. match goal with |- context [idle_w g ?x] => pose proof (idle_w_le g x) end.
    cbn [pc ops cur lrep pc_w b_w fold_right] in *. lia.
  - destruct (loss_errors g && negb (lrep c) && negb (rskip e =? 0)%Z).
    + rewrite c_w_eq. match goal with |- context [idle_w g ?x] => pose proof (idle_w_le g x) end.
      cbn [pc ops cur lrep pc_w] in *. rewrite requeue_w. unfold lrw at 1. lia.
    + rewrite c_w_eq. match goal with |- context [idle_w g ?x] => pose proof (idle_w_le g x) end.
      cbn [pc ops cur lrep pc_w] in *. rewrite requeue_w. rewrite !b_w_cons. unfold e_w.
      cbn [rbytes]. pose proof (skipn_len_le _ n (rbytes e)). lia.
Qed.

Lemma loop_w : forall g c n d,
  c_w g (c_loop g c n d) <= ops_w (ops c) + dw d + 3 + b_w (cur c) + lrw (lrep c).
Proof.
  intros g c n d. unfold c_loop. destruct (negb (closed c) && isnil (cur c)).
  - destruct (first c); rewrite c_w_eq; unfold set_pc, idle_w; cbn [pc ops cur lrep pc_w];
      unfold dw; destruct d; lia.
  - apply finish_w.
Qed.

Lemma read_begin_w : forall g c r n,
  c_w g (read_begin g (set_ops c r) n None) + 4 <= 7 + ops_w r + b_w (cur c) + lrw (lrep c).
Proof.
  intros g c r n. unfold read_begin. destruct (initiated g).
  - match goal with |- c_w g (c_loop g ?x n None) + 4 <= _ => pose proof (loop_w g x n None) as H end.
    unfold c_strip, set_ops in H. cbn [pc ops cur lrep closed first out tags dw] in H.
    pose proof (strip_w g (cur c) (lrep c)). unfold c_strip, set_ops. cbn [pc ops cur lrep closed first out tags]. lia.
  - rewrite c_w_eq. unfold set_pc, set_ops, idle_w. cbn [pc ops cur lrep pc_w]. lia.
Qed.

Lemma drain_begin_w : forall g c r m, pc c = CIdle ->
  c_w g (read_begin g (set_ops c r) (S m) (Some m)) + 1 <=
  1 + ops_w r + idle_w g c + b_w (cur c) + lrw (lrep c).
Proof.
  intros g c r m Hpc. unfold read_begin. destruct (initiated g).
  2:{ rewrite c_w_eq. unfold set_pc, set_ops, idle_w. cbn [pc ops cur lrep pc_w]. lia. }
  pose proof (strip_w g (cur c) (lrep c)) as Hs.
  unfold c_strip, set_ops. cbn [pc ops cur lrep closed first out tags].
  unfold c_loop. cbn [pc ops cur lrep closed first out tags].
  assert (Hidle : idle_w g c = if negb (closed c) && isnil (fst (strip g (lrep c) (cur c))) then 3 else 0).
  { unfold idle_w. rewrite Hpc. reflexivity. }
  destruct (negb (closed c) && isnil (fst (strip g (lrep c) (cur c)))) eqn:Eloop; rewrite Hidle; clear Hidle.
  - destruct (first c); rewrite c_w_eq; unfold set_pc, idle_w; cbn [pc ops cur lrep pc_w]; lia.
  - unfold c_finish. cbn [pc ops cur lrep closed first out tags].
    destruct (fst (strip g (lrep c) (cur c))) as [|e t] eqn:Ef.
    + (* EOF: the stream is closed *)
      cbn [isnil] in Eloop. rewrite andb_true_r in Eloop.
      rewrite c_w_eq. unfold idle_w. cbn [pc ops cur lrep closed pc_w strip fst].
      rewrite Eloop. cbn [andb b_w fold_right] in *. lia.
    + destruct (loss_errors g && negb (snd (strip g (lrep c) (cur c))) && negb (rskip e =? 0)%Z) eqn:Eg.
      * rewrite c_w_eq.
        match goal with |- context [idle_w g ?x] => pose proof (idle_w_le g x) end.
        cbn [pc ops cur lrep pc_w] in *. rewrite requeue_w. cbn [dw lrw].
        assert (snd (strip g (lrep c) (cur c)) = false) as Hl.
        { destruct (snd (strip g (lrep c) (cur c))); [|reflexivity].
          rewrite andb_false_r in Eg. cbn in Eg. discriminate. }
        rewrite Hl in Hs. cbn [lrw] in Hs. lia.
      * destruct (strip_head g (cur c) (lrep c) e t Ef) as [Hb | Hg].
        2:{ exfalso. rewrite <- !andb_assoc in Hg. apply andb_true_iff in Hg. destruct Hg as [_ Hg].
            rewrite andb_assoc in Hg. rewrite Hg in Eg. discriminate. }
        destruct (rbytes e) as [|x l] eqn:Eb; [congruence|].
        rewrite c_w_eq.
        match goal with |- context [idle_w g ?x] => pose proof (idle_w_le g x) end.
        cbn [pc ops cur lrep pc_w] in *. rewrite requeue_w. cbn [dw].
        rewrite b_w_cons in *. unfold e_w in *. cbn [rbytes skipn length] in *. rewrite Eb in Hs.
        cbn [length] in Hs. pose proof (skipn_len_le _ m l). lia.
Qed.

Lemma recv_ok_w : forall g c b n d,
  c_w g (read_recv_ok g c b n d) <= ops_w (ops c) + dw d + 3 + b_w b + lrw (lrep c).
Proof.
  intros g c b n d. unfold read_recv_ok.
  match goal with |- c_w g (c_loop g ?x n d) <= _ => pose proof (loop_w g x n d) as H end.
  unfold c_strip in H. cbn [pc ops cur lrep closed first out tags] in H.
  pose proof (strip_w g b (lrep c)). unfold c_strip. cbn [pc ops cur lrep closed first out tags]. lia.
Qed.

Lemma recv_closed_w : forall g c n d,
  c_w g (read_recv_closed g c n d) = ops_w (ops c) + lrw (lrep c).
Proof.
  intros g c n d. unfold read_recv_closed, c_loop, c_finish. cbn [pc ops cur lrep closed first out tags negb andb].
  rewrite c_w_eq. unfold idle_w. cbn [pc ops cur lrep closed pc_w negb andb b_w fold_right]. lia.
Qed.

Lemma close_begin_w : forall g c r,
  c_w g (close_begin g (set_ops c r)) + 1 <= 7 + ops_w r + b_w (cur c) + lrw (lrep c).
Proof.
  intros g c r. unfold close_begin, set_ops. cbn [pc ops cur lrep closed first out tags].
  destruct (close_acks g && negb (first c) && negb (closed c));
    rewrite c_w_eq; unfold idle_w; cbn [pc ops cur lrep closed pc_w b_w fold_right]; lia.
Qed.

Lemma tau_c_dec : forall g rcl dcl pk c c', tau_c g rcl dcl pk c = Some c' -> c_w g c' < c_w g c.
Proof.
  intros g rcl dcl pk c c' H. unfold tau_c in H. destruct (pc c) eqn:Hpc.
  - destruct (ops c) as [|o r] eqn:Hops; [discriminate|]. destruct o as [n|m|].
    + injection H as <-. pose proof (read_begin_w g c r n).
      rewrite (c_w_eq g c). rewrite Hpc, Hops, ops_w_cons. cbn [pc_w op_w]. lia.
    + injection H as <-. pose proof (drain_begin_w g c r m Hpc).
      rewrite (c_w_eq g c). rewrite Hpc, Hops, ops_w_cons. cbn [pc_w op_w]. lia.
    + injection H as <-. pose proof (close_begin_w g c r).
      rewrite (c_w_eq g c). rewrite Hpc, Hops, ops_w_cons. cbn [pc_w op_w]. lia.
  - destruct dcl; [|discriminate]. injection H as <-.
    rewrite !c_w_eq. unfold set_pc, idle_w. cbn [pc ops cur lrep pc_w]. rewrite Hpc. cbn [pc_w]. lia.
  - destruct rcl; [|discriminate]. injection H as <-. rewrite recv_closed_w.
    rewrite c_w_eq. rewrite Hpc. cbn [pc_w]. lia.
  - destruct dcl.
    + injection H as <-.
      rewrite !c_w_eq. unfold set_pc, idle_w. cbn [pc ops cur lrep pc_w]. rewrite Hpc. cbn [pc_w]. lia.
    + destruct (ack_nb g && negb pk); [|discriminate]. injection H as <-.
      rewrite !c_w_eq. unfold close_acked, idle_w. cbn [pc ops cur lrep pc_w]. rewrite Hpc. cbn [pc_w]. lia.
  - destruct rcl; [|discriminate]. injection H as <-.
    rewrite !c_w_eq. unfold close_return.
    match goal with |- context [idle_w g ?x] => pose proof (idle_w_le g x) end.
    cbn [pc ops cur lrep pc_w] in *. rewrite Hpc. cbn [pc_w]. lia.
  - destruct dcl; [|discriminate]. injection H as <-.
    rewrite !c_w_eq. unfold set_pc, idle_w. cbn [pc ops cur lrep pc_w]. rewrite Hpc. cbn [pc_w]. lia.
  - discriminate.
Qed.

Lemma a_next_w : forall g rest, a_w (a_next g rest) + 1 <= a_w (AWait rest).
Proof.
  intros g [|b r]; cbn [a_next].
  - cbn. lia.
  - destruct (initiated g); cbn [a_w]; rewrite bs_w_cons; cbn [length]; lia.
Qed.

Lemma sync_dec : forall g rcl dcl c a c' a', sync g rcl dcl c a = Some (c', a') ->
  c_w g c' + a_w a' < c_w g c + a_w a.
Proof.
  intros g rcl dcl c a c' a' H. unfold sync in H.
  destruct (pc c) eqn:Hpc; try discriminate; destruct a as [b rest|rest|rest| | | |]; try discriminate.
  - destruct dcl; [discriminate|]. injection H as <- <-. pose proof (a_next_w g rest).
    rewrite !c_w_eq. unfold set_pc, idle_w. cbn [pc ops cur lrep pc_w]. rewrite Hpc. cbn [pc_w]. lia.
  - destruct rcl; [discriminate|]. injection H as <- <-. pose proof (recv_ok_w g c b n d).
    rewrite (c_w_eq g c). rewrite Hpc. cbn [pc_w a_w]. unfold dw in *. destruct d; lia.
  - destruct dcl; [discriminate|]. injection H as <- <-. pose proof (a_next_w g rest).
    rewrite !c_w_eq. unfold close_acked, idle_w. cbn [pc ops cur lrep pc_w]. rewrite Hpc. cbn [pc_w]. lia.
  - destruct rcl; [discriminate|]. injection H as <- <-.
    rewrite !c_w_eq. unfold close_recv_ok, idle_w. cbn [pc ops cur lrep pc_w a_w]. rewrite Hpc. cbn [pc_w]. lia.
  - destruct dcl; [discriminate|]. injection H as <- <-. pose proof (a_next_w g rest).
    rewrite !c_w_eq. unfold set_pc, idle_w. cbn [pc ops cur lrep pc_w]. rewrite Hpc. cbn [pc_w]. lia.
Qed.

Lemma tau_a_dec : forall g a rcl dcl a' r' d', tau_a g a rcl dcl = Some (a', r', d') -> a_w a' < a_w a.
Proof.
  intros g a rcl dcl a' r' d' H. unfold tau_a in H. destruct a; try discriminate.
  - injection H as <- _ _. cbn. lia.
  - destruct (negb (initiated g) || rcl); injection H as <- _ _; cbn; lia.
  - destruct (negb (initiated g) || dcl); injection H as <- _ _; cbn; lia.
Qed.

Theorem mu_decreases : forall g s s', step g s s' -> mu g s' < mu g s.
Proof.
  intros g s s' [H | [H | H]]; unfold mu.
  - unfold do_sync in H. destruct (sync g (rc s) (dc s) (cs s) (ap s)) as [[c' a']|] eqn:E; [|discriminate].
    injection H as <-. cbn [cs ap]. eapply sync_dec; eauto.
  - unfold do_tau_c in H. destruct (tau_c g (rc s) (dc s) (is_parked (ap s)) (cs s)) as [c'|] eqn:E; [|discriminate].
    injection H as <-. cbn [cs ap]. pose proof (tau_c_dec _ _ _ _ _ _ E). lia.
  - unfold do_tau_a in H. destruct (tau_a g (ap s) (rc s) (dc s)) as [[[a' r'] d']|] eqn:E; [|discriminate].
    injection H as <-. cbn [cs ap]. pose proof (tau_a_dec _ _ _ _ _ _ _ E). lia.
Qed.
