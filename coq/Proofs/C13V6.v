(* C13: completeness of the IPv6 defragmenter model: the payload of a datagram is rebuilt from
   its fragments in any arrival order, with duplicates, interleaved with other identifications. *)
From GP Require Import Base C13Model C13Safety C13Complete C13Refute.
From Coq Require Import Lia ZifyBool ZifyNat Sorting.Sorted.
Open Scope Z_scope.
Ltac Zify.zify_post_hook ::= Z.div_mod_to_equations.

Definition mk6f (hd : frag6) (off : Z) (more : bool) (pl : list Z) : frag6 :=
  {| g_src := g_src hd; g_dst := g_dst hd; g_id := g_id hd; g_off := off; g_more := more;
     g_nh := g_nh hd; g_hdr := g_hdr hd; g_payload := pl |}.

Fixpoint frags6_of (hd : frag6) (off : Z) (chunks : list (list Z)) : list frag6 :=
  match chunks with
  | [] => []
  | c :: r => mk6f hd off (match r with [] => false | _ => true end) c
              :: frags6_of hd (off + Z.of_nat (length c) / 8) r
  end.

Definition valid6 (chunks : list (list Z)) : Prop :=
  chunks_ok chunks /\ (2 <= length chunks)%nat /\ Z.of_nat (length (concat chunks)) <= 65535.

Definition arrival6_ok (hd : frag6) (F : list frag6) (ops : list op6) : Prop :=
  Forall (fun o => exists f, o = O6Frag f /\ (g_id f = g_id hd -> In f F)) ops.

Definition plen6 (f : frag6) : Z := Z.of_nat (length (g_payload f)).
Fixpoint sumlen6 (l : list frag6) : Z := match l with [] => 0 | f :: r => plen6 f + sumlen6 r end.

(* a contiguous chain of fragments starting at offset a (units of 8) *)
Fixpoint chain6 (l : list frag6) (a : Z) : Prop :=
  match l with
  | [] => True
  | f :: r => g_off f = a /\
              match r with
              | [] => g_more f = false
              | _ => g_more f = true /\ plen6 f mod 8 = 0 /\ 0 < plen6 f
              end /\ chain6 r (a + plen6 f / 8)
  end.

Lemma sumlen6_nonneg l : 0 <= sumlen6 l.
Proof. induction l as [|x l IH]; cbn [sumlen6]; [lia|]. unfold plen6. lia. Qed.

Lemma chain6_offsets l : forall a, chain6 l a -> forall f, In f l -> a <= g_off f.
Proof.
  induction l as [|x l IH]; intros a Hc f Hf; [destruct Hf|].
  cbn [chain6] in Hc. destruct Hc as [Ho [Hm Hc]]. destruct Hf as [Hf|Hf]; [subst; lia|].
  specialize (IH _ Hc f Hf). unfold plen6 in *. lia.
Qed.

Lemma chain6_tail_gt x l a : chain6 (x :: l) a -> forall f, In f l -> a < g_off f.
Proof.
  intros Hc f Hf. cbn [chain6] in Hc. destruct Hc as [Ho [Hm Hc]].
  destruct l as [|y l']; [destruct Hf|]. destruct Hm as [_ [Hm8 Hp]].
  pose proof (chain6_offsets _ _ Hc f Hf). lia.
Qed.

Definition lt6 (f g : frag6) : Prop := g_off f < g_off g.

Lemma chain6_sorted l : forall a, chain6 l a -> StronglySorted lt6 l.
Proof.
  induction l as [|x l IH]; intros a Hc; [constructor|]. constructor.
  - cbn [chain6] in Hc. destruct Hc as [_ [_ Hc]]. eapply IH. exact Hc.
  - apply Forall_forall. intros f Hf. unfold lt6. pose proof (chain6_tail_gt x l a Hc f Hf).
    cbn [chain6] in Hc. destruct Hc as [Ho _]. lia.
Qed.

(* ---------------------------------------------------------------- the insertion loop *)
Lemma ins6_dup s f : StronglySorted lt6 s -> In f s -> ins6 s f = s.
Proof.
  induction s as [|g r IH]; intros Hs Hf; [destruct Hf|].
  inversion Hs as [|? ? Hs' Hall]; subst. rewrite Forall_forall in Hall. cbn [ins6].
  destruct Hf as [Hf|Hf].
  - subst g. rewrite Z.eqb_refl. reflexivity.
  - pose proof (Hall f Hf) as Hl. unfold lt6 in Hl. destruct (g_off f =? g_off g) eqn:E1; [lia|].
    destruct (g_off f <? g_off g) eqn:E2; [lia|]. rewrite (IH Hs' Hf). reflexivity.
Qed.

Lemma ins6_In s f : (forall g, In g s -> g_off g <> g_off f) -> forall g, In g (ins6 s f) <-> g = f \/ In g s.
Proof.
  induction s as [|x s IH]; intros Hne g; cbn [ins6].
  - cbn. intuition.
  - pose proof (Hne x (or_introl eq_refl)). destruct (g_off f =? g_off x) eqn:E1; [lia|].
    destruct (g_off f <? g_off x); cbn [In]; [intuition|].
    rewrite IH by (intros y Hy; apply Hne; right; exact Hy). cbn [In]. intuition.
Qed.

Lemma ins6_front f s : (forall g, In g s -> g_off f < g_off g) -> ins6 s f = f :: s.
Proof.
  destruct s as [|x s]; intros H; cbn [ins6]; [reflexivity|].
  pose proof (H x (or_introl eq_refl)). destruct (g_off f =? g_off x) eqn:E1; [lia|].
  destruct (g_off f <? g_off x) eqn:E; [reflexivity|lia].
Qed.

Lemma Sub_ins6 f s l :
  Sub s l -> StronglySorted lt6 l -> In f l -> ~ In f s -> Sub (ins6 s f) l.
Proof.
  induction 1 as [l|x s l H IH|x s l H IH]; intros Hs Hf Hn.
  - cbn [ins6]. apply Sub_single. exact Hf.
  - inversion Hs as [|? ? Hs' Hall]; subst. rewrite Forall_forall in Hall. destruct Hf as [Hf|Hf].
    + subst x. rewrite ins6_front; [apply Sub_take; exact H|].
      intros g Hg. apply Hall. eapply Sub_incl; eassumption.
    + apply Sub_skip. apply IH; assumption.
  - inversion Hs as [|? ? Hs' Hall]; subst. rewrite Forall_forall in Hall. destruct Hf as [Hf|Hf].
    + subst x. exfalso. apply Hn. left. reflexivity.
    + cbn [ins6]. pose proof (Hall f Hf) as Hl. unfold lt6 in Hl.
      destruct (g_off f =? g_off x) eqn:E1; [lia|].
      destruct (g_off f <? g_off x) eqn:E; [lia|]. apply Sub_take. apply IH; try assumption.
      intros Hin. apply Hn. right. exact Hin.
Qed.

(* ---------------------------------------------------------------- the completeness walk *)
Lemma ok6_chain l : forall a, chain6 l a -> l <> [] -> 0 <= a -> 8 * a + sumlen6 l <= 65535 -> ok6 fixedv l = true.
Proof.
  induction l as [|x l IH]; intros a Hc Hn Ha Hb; [congruence|].
  cbn [chain6] in Hc. destruct Hc as [Ho [Hm Hc]]. cbn [ok6]. destruct l as [|y l'].
  - rewrite Hm. reflexivity.
  - destruct Hm as [Hm [Hm8 Hp]]. rewrite Hm. cbn [negb v_six fixedv andb].
    cbn [sumlen6] in Hb. pose proof (sumlen6_nonneg l'). unfold plen6 in *.
    replace (Z.of_nat (length (g_payload x)) mod 8 =? 0) with true by lia. cbn [negb].
    assert (Hy : g_off y = a + Z.of_nat (length (g_payload x)) / 8) by (cbn [chain6] in Hc; destruct Hc as [Hy _]; exact Hy).
    assert (0 <= Z.of_nat (length (g_payload y))) by lia.
    rewrite (u16_small (Z.of_nat (length (g_payload x)) / 8)) by lia.
    rewrite u16_small by lia.
    replace (g_off x + Z.of_nat (length (g_payload x)) / 8 =? g_off y) with true by lia.
    apply (IH _ Hc); [discriminate|lia|cbn [sumlen6]; unfold plen6; lia].
Qed.

Lemma ok6_sub s l : Sub s l -> forall a x s', chain6 l a -> 0 <= a -> 8 * a + sumlen6 l <= 65535 ->
  s = x :: s' -> g_off x = a -> ok6 fixedv s = true -> s = l.
Proof.
  induction 1 as [l|y s l H IH|y s l H IH]; intros a x s' Hc Ha Hb Hs Hx Hok.
  - discriminate.
  - exfalso. subst s. pose proof (chain6_tail_gt y l a Hc x (Sub_incl _ _ H x (or_introl eq_refl))). lia.
  - inversion Hs; subst x s'. clear Hs. cbn [chain6] in Hc. destruct Hc as [Ho [Hm Hc]].
    cbn [ok6] in Hok. cbn [sumlen6] in Hb. pose proof (sumlen6_nonneg l).
    destruct l as [|z l'].
    + inversion H; subst. reflexivity.
    + destruct Hm as [Hm [Hm8 Hp]]. rewrite Hm in Hok. cbn [negb v_six fixedv andb] in Hok.
      destruct s as [|h0 s0]; [discriminate|].
      unfold plen6 in *.
      replace (Z.of_nat (length (g_payload y)) mod 8 =? 0) with true in Hok by lia. cbn [negb] in Hok.
      rewrite (u16_small (Z.of_nat (length (g_payload y)) / 8)) in Hok by lia.
      rewrite u16_small in Hok by lia.
      destruct (g_off y + Z.of_nat (length (g_payload y)) / 8 =? g_off h0) eqn:E; [|discriminate].
      f_equal. apply (IH (a + Z.of_nat (length (g_payload y)) / 8) h0 s0); try assumption; try reflexivity; try lia.
Qed.

Lemma cat6_chain l : forall a, chain6 l a -> l <> [] ->
  cat6 l = (concat (map g_payload l), g_nh (last l (mk6 0 0 0 false []))).
Proof.
  induction l as [|x l IH]; intros a Hc Hn; [congruence|].
  cbn [chain6] in Hc. destruct Hc as [Ho [Hm Hc]]. cbn [cat6 map concat]. destruct l as [|y l'].
  - rewrite Hm. cbn [concat last]. rewrite app_nil_r. reflexivity.
  - destruct Hm as [Hm _]. rewrite Hm. rewrite (IH _ Hc) by discriminate. reflexivity.
Qed.

(* ---------------------------------------------------------------- the map *)
Lemma lookup6_remove_other k k' st : k <> k' -> lookup6 k' (remove6 k st) = lookup6 k' st.
Proof.
  intros Hn. induction st as [|[k2 l] r IH]; cbn [remove6 lookup6]; [reflexivity|].
  destruct (k =? k2) eqn:E.
  - assert (k' =? k2 = false) by lia. rewrite H. exact IH.
  - cbn [lookup6]. rewrite IH. reflexivity.
Qed.

Lemma defrag6_frame v st f st' r k : defrag6 v st f = (st', r) -> k <> g_id f -> lookup6 k st' = lookup6 k st.
Proof.
  intros H Hk. unfold defrag6 in H. destruct (lookup6 (g_id f) st) as [l|].
  - assert (Hl : lookup6 k ((g_id f, ins6 l f) :: remove6 (g_id f) st) = lookup6 k st).
    { cbn [lookup6]. replace (k =? g_id f) with false by lia. apply lookup6_remove_other. lia. }
    destruct (ins6 l f) as [|hd tl]; [inversion H; subst; exact Hl|].
    destruct (negb (g_off hd =? 0)); [inversion H; subst; exact Hl|].
    destruct (ok6 v (hd :: tl)); [destruct (cat6 (hd :: tl))|]; inversion H; subst; exact Hl.
  - inversion H; subst. cbn [lookup6]. replace (k =? g_id f) with false by lia. reflexivity.
Qed.

(* ---------------------------------------------------------------- the per-identification invariant *)
Definition K6 (id : Z) (st : state6) (S : list frag6) : Prop :=
  match S with [] => lookup6 id st = None | _ => lookup6 id st = Some S end.

Record F6Props (hd : frag6) (F : list frag6) : Prop := {
  f6_id : forall f, In f F -> g_id f = g_id hd /\ g_src f = g_src hd /\ g_dst f = g_dst hd /\ g_hdr f = g_hdr hd /\ g_nh f = g_nh hd;
  f6_chain : chain6 F 0;
  f6_bound : sumlen6 F <= 65535;
  f6_two : (2 <= length F)%nat
}.

Definition dg6_of (hd : frag6) (F : list frag6) (first : frag6) : result6 :=
  R6Dg (g_nh hd) first (concat (map g_payload F)).

Lemma frag6_eq_dec (f g : frag6) : {f = g} + {f <> g}.
Proof. decide equality; try apply Z.eq_dec; try apply Bool.bool_dec; apply (list_eq_dec Z.eq_dec). Qed.

(* what the walk answers on the list after insertion *)
Definition eval (l : list frag6) : result6 :=
  match l with
  | [] => R6None
  | x :: _ => if negb (g_off x =? 0) then R6None
              else if ok6 fixedv l then let '(b, nh) := cat6 l in R6Dg nh x b else R6None
  end.

Lemma defrag6_eval st f l :
  lookup6 (g_id f) st = Some l ->
  defrag6 fixedv st f = ((g_id f, ins6 l f) :: remove6 (g_id f) st, eval (ins6 l f)).
Proof.
  intros Hl. unfold defrag6. rewrite Hl. unfold eval. destruct (ins6 l f) as [|x tl]; [reflexivity|].
  destruct (negb (g_off x =? 0)); [reflexivity|].
  destruct (ok6 fixedv (x :: tl)); [|reflexivity]. destruct (cat6 (x :: tl)). reflexivity.
Qed.

Lemma eval6 hd F S : F6Props hd F -> Sub S F -> S <> [] ->
  (S <> F -> eval S = R6None) /\ (S = F -> exists first, eval S = dg6_of hd F first /\ In first F).
Proof.
  intros HF HS Hn. destruct S as [|x S']; [congruence|].
  pose proof (f6_chain hd F HF) as Hc. pose proof (f6_bound hd F HF) as Hb.
  split.
  - intros Hne. unfold eval. destruct (g_off x =? 0) eqn:E0; cbn [negb]; [|reflexivity].
    destruct (ok6 fixedv (x :: S')) eqn:Eok; [|reflexivity]. exfalso. apply Hne.
    apply (ok6_sub (x :: S') F HS 0 x S'); try assumption; try reflexivity; lia.
  - intros He. exists x. assert (Hx : In x F) by (rewrite <- He; left; reflexivity). split; [|exact Hx].
    assert (Hx0 : g_off x = 0).
    { rewrite <- He in Hc. cbn [chain6] in Hc. destruct Hc as [Ho _]. exact Ho. }
    unfold eval. rewrite Hx0. cbn [Z.eqb negb]. rewrite He.
    assert (HFne : F <> []) by (intros ->; destruct Hx).
    rewrite (ok6_chain F 0 Hc HFne) by lia.
    rewrite (cat6_chain F 0 Hc HFne). unfold dg6_of. f_equal.
    assert (Hl : In (last F (mk6 0 0 0 false [])) F).
    { clear -HFne. destruct F as [|y F]; [congruence|]. clear HFne. revert y. induction F as [|z F IH]; intros y; [left; reflexivity|].
      right. change (last (y :: z :: F) (mk6 0 0 0 false [])) with (last (z :: F) (mk6 0 0 0 false [])). apply IH. }
    apply (f6_id hd F HF _ Hl).
Qed.

Lemma key6_step hd F st S f st' r :
  F6Props hd F -> Sub S F -> K6 (g_id hd) st S -> In f F ->
  defrag6 fixedv st f = (st', r) ->
  (In f S -> K6 (g_id hd) st' S /\ (S <> F -> r = R6None)) /\
  (~ In f S -> K6 (g_id hd) st' (ins6 S f) /\ Sub (ins6 S f) F /\
     (forall g, In g (ins6 S f) <-> g = f \/ In g S) /\
     (ins6 S f <> F -> r = R6None) /\
     (ins6 S f = F -> exists first, r = dg6_of hd F first /\ In first F)).
Proof.
  intros HF HS HK Hf H.
  pose proof (chain6_sorted F 0 (f6_chain hd F HF)) as HsF.
  pose proof (Sub_sorted lt6 S F HS HsF) as HsS.
  destruct (f6_id hd F HF f Hf) as [Hid _].
  unfold K6 in HK.
  destruct S as [|s0 S0].
  - (* first fragment of this identification: remembered, nothing returned *)
    unfold defrag6 in H. rewrite Hid, HK in H. inversion H; subst. split; [intros []|]. intros _. cbn [ins6].
    split; [unfold K6; cbn [lookup6]; rewrite Z.eqb_refl; reflexivity|].
    split; [apply Sub_single; exact Hf|]. split; [intros g; cbn; intuition|].
    split; [reflexivity|]. intros He. exfalso. pose proof (f6_two hd F HF) as H2. rewrite <- He in H2. cbn in H2. lia.
  - set (S := s0 :: S0) in *. rewrite <- Hid in HK. rewrite (defrag6_eval st f S HK) in H.
    apply pair_equal_spec in H as [Hst Hr]. rewrite Hid in Hst.
    assert (Hlk : forall l, lookup6 (g_id hd) ((g_id hd, l) :: remove6 (g_id hd) st) = Some l)
      by (intros l; cbn [lookup6]; rewrite Z.eqb_refl; reflexivity).
    split.
    + intros HinS. rewrite (ins6_dup S f HsS HinS) in Hst, Hr.
      destruct (eval6 hd F S HF HS ltac:(discriminate)) as [Hnone _].
      split; [rewrite <- Hst; unfold K6; subst S; apply Hlk|].
      intros Hne. rewrite <- Hr. apply Hnone. exact Hne.
    + intros HninS.
      assert (Hne : forall g, In g S -> g_off g <> g_off f).
      { intros g Hg He. pose proof (Sub_incl _ _ HS g Hg) as HgF.
        assert (Hgf : g <> f) by (intros ->; contradiction).
        clear -HsF Hf HgF He Hgf. induction HsF as [|x l Hs IH Hall]; [destruct Hf|].
        rewrite Forall_forall in Hall. destruct Hf as [Hf|Hf], HgF as [HgF|HgF]; subst.
        - congruence.
        - pose proof (Hall g HgF) as Hl. unfold lt6 in Hl. lia.
        - pose proof (Hall f Hf) as Hl. unfold lt6 in Hl. lia.
        - apply IH; assumption. }
      pose proof (Sub_ins6 f S F HS HsF Hf HninS) as HS'.
      pose proof (ins6_In S f Hne) as HinS'.
      assert (HS'ne : ins6 S f <> []).
      { intros He. assert (Hin : In f (ins6 S f)) by (apply HinS'; left; reflexivity). rewrite He in Hin. destruct Hin. }
      destruct (eval6 hd F (ins6 S f) HF HS' HS'ne) as [Hnone Hdg].
      split.
      { rewrite <- Hst. unfold K6. destruct (ins6 S f) as [|x S1] eqn:ES'; [congruence|]. apply Hlk. }
      split; [exact HS'|]. split; [exact HinS'|]. split.
      * intros Hne'. rewrite <- Hr. apply Hnone. exact Hne'.
      * intros He. destruct (Hdg He) as [first [Hd Hfirst]]. exists first. split; [rewrite <- Hr; exact Hd|exact Hfirst].
Qed.

Lemma other6_step id st S f st' r : K6 id st S -> g_id f <> id -> defrag6 fixedv st f = (st', r) -> K6 id st' S.
Proof.
  intros HK Hk H. unfold K6 in *. rewrite (defrag6_frame fixedv st f st' r id H) by congruence. exact HK.
Qed.

Lemma run6_cons v st o r : run6 v st (o :: r) = snd (step6 v st o) :: run6 v (fst (step6 v st o)) r.
Proof. cbn [run6]. destruct (step6 v st o). reflexivity. Qed.

Lemma run6_complete_gen hd F : F6Props hd F -> forall ops st S,
  Sub S F -> K6 (g_id hd) st S -> arrival6_ok hd F ops ->
  forall n,
  (forall f, In f F -> In f S \/ In (O6Frag f) (firstn (Datatypes.S n) ops)) ->
  (exists f, In f F /\ ~ In f S /\ ~ In (O6Frag f) (firstn n ops)) ->
  (forall m f, (m < n)%nat -> nth_error ops m = Some (O6Frag f) -> g_id f = g_id hd ->
               nth_error (run6 fixedv st ops) m = Some (Res6 R6None)) /\
  exists first, nth_error (run6 fixedv st ops) n = Some (Res6 (dg6_of hd F first)) /\ In first F.
Proof.
  intros HF.
  pose proof (chain6_sorted F 0 (f6_chain hd F HF)) as HsF.
  assert (HndF : NoDup F).
  { clear -HsF. induction HsF as [|x l Hs IH Hall]; constructor; [|exact IH].
    intros Hin. rewrite Forall_forall in Hall. pose proof (Hall x Hin) as Hl. unfold lt6 in Hl. lia. }
  induction ops as [|o r IH]; intros st S HS HK Hok n Hall Hmiss.
  - exfalso. destruct Hmiss as [f [Hf [Hn _]]]. destruct (Hall f Hf) as [Hi|Hi]; [contradiction|]. cbn in Hi. destruct Hi.
  - inversion Hok as [|? ? Ho Hokr]; subst. destruct Ho as [g [-> Hg]].
    rewrite run6_cons. cbn [step6].
    destruct (defrag6 fixedv st g) as [st1 r1] eqn:Ed. cbn [fst snd].
    assert (Htail : forall S1 n', n = Datatypes.S n' -> Sub S1 F -> K6 (g_id hd) st1 S1 ->
              (forall f, In f S \/ f = g /\ g_id g = g_id hd -> In f S1) ->
              (forall f, In f S1 -> In f S \/ f = g) ->
              (forall m f, (m < n')%nat -> nth_error r m = Some (O6Frag f) -> g_id f = g_id hd ->
                 nth_error (run6 fixedv st1 r) m = Some (Res6 R6None)) /\
              exists first, nth_error (run6 fixedv st1 r) n' = Some (Res6 (dg6_of hd F first)) /\ In first F).
    { intros S1 n' -> HS1 HK1 Hin1 Hin2. apply (IH st1 S1 HS1 HK1 Hokr n').
      - intros f Hf. destruct (Hall f Hf) as [Hi|Hi]; [left; apply Hin1; left; exact Hi|].
        cbn [firstn] in Hi. destruct Hi as [Hi|Hi]; [|right; exact Hi].
        inversion Hi; subst g. left. apply Hin1. right. split; [reflexivity|]. apply (f6_id hd F HF f Hf).
      - destruct Hmiss as [f [Hf [Hn Hno]]]. exists f. split; [exact Hf|]. split.
        + intros Hi. apply Hin2 in Hi as [Hi|Hi]; [contradiction|]. subst f. apply Hno. cbn [firstn]. left. reflexivity.
        + intros Hi. apply Hno. cbn [firstn]. right. exact Hi. }
    destruct (Z.eq_dec (g_id g) (g_id hd)) as [Ek|Ek].
    + specialize (Hg Ek).
      destruct (key6_step hd F st S g st1 r1 HF HS HK Hg Ed) as [Hdup Hnew].
      destruct (in_dec frag6_eq_dec g S) as [HgS|HgS].
      * destruct (Hdup HgS) as [HK1 Hr1].
        assert (HSF : S <> F).
        { intros He. destruct Hmiss as [f [Hf [Hn _]]]. rewrite He in Hn. contradiction. }
        rewrite (Hr1 HSF).
        destruct n as [|n'].
        -- exfalso. destruct Hmiss as [f [Hf [Hn _]]]. destruct (Hall f Hf) as [Hi|Hi]; [contradiction|].
           cbn [firstn] in Hi. destruct Hi as [Hi|[]]. inversion Hi; subst f. contradiction.
        -- destruct (Htail S n' eq_refl HS HK1) as [T1 T2].
           ++ intros f [Hi|[-> _]]; assumption.
           ++ intros f Hi. left. exact Hi.
           ++ split; [|exact T2]. intros m f Hm Hnth Hkf. destruct m as [|m]; [reflexivity|].
              cbn [nth_error] in *. apply (T1 m f); [lia|exact Hnth|exact Hkf].
      * destruct (Hnew HgS) as [HK1 [HS1 [HinS1 [Hpart Hfull]]]].
        destruct n as [|n'].
        -- assert (He : ins6 S g = F).
           { apply Sub_length_eq; [exact HS1|]. pose proof (Sub_length _ _ HS1).
             assert (Hi : incl F (ins6 S g)).
             { intros f Hf. apply HinS1. destruct (Hall f Hf) as [Hi|Hi]; [right; exact Hi|].
               cbn [firstn] in Hi. destruct Hi as [Hi|[]]. inversion Hi. left. reflexivity. }
             pose proof (NoDup_incl_length HndF Hi). lia. }
           destruct (Hfull He) as [first [-> Hfirst]]. split; [intros m f Hm; lia|]. exists first. split; [reflexivity|exact Hfirst].
        -- assert (Hne : ins6 S g <> F).
           { intros He. destruct Hmiss as [f [Hf [Hn Hno]]]. rewrite <- He in Hf. apply HinS1 in Hf as [Hf|Hf]; [|contradiction].
             subst f. apply Hno. cbn [firstn]. left. reflexivity. }
           rewrite (Hpart Hne).
           destruct (Htail (ins6 S g) n' eq_refl HS1 HK1) as [T1 T2].
           ++ intros f [Hi|[-> _]]; apply HinS1; [right; exact Hi|left; reflexivity].
           ++ intros f Hi. apply HinS1 in Hi as [Hi|Hi]; [right; exact Hi|left; exact Hi].
           ++ split; [|exact T2]. intros m f Hm Hnth Hkf. destruct m as [|m]; [reflexivity|].
              cbn [nth_error] in *. apply (T1 m f); [lia|exact Hnth|exact Hkf].
    + pose proof (other6_step (g_id hd) st S g st1 r1 HK Ek Ed) as HK1.
      destruct n as [|n'].
      * exfalso. destruct Hmiss as [f [Hf [Hn _]]]. destruct (Hall f Hf) as [Hi|Hi]; [contradiction|].
        cbn [firstn] in Hi. destruct Hi as [Hi|[]]. inversion Hi; subst f. apply Ek. apply (f6_id hd F HF g Hf).
      * destruct (Htail S n' eq_refl HS HK1) as [T1 T2].
        -- intros f [Hi|[-> Hk]]; [exact Hi|contradiction].
        -- intros f Hi. left. exact Hi.
        -- split; [|exact T2]. intros m f Hm Hnth Hkf. destruct m as [|m].
           ++ cbn [nth_error] in Hnth. inversion Hnth; subst f. contradiction.
           ++ cbn [nth_error] in *. apply (T1 m f); [lia|exact Hnth|exact Hkf].
Qed.

(* ---------------------------------------------------------------- the fragments of a partition *)
Lemma frags6_gen hd : forall chunks off, 0 <= off -> chunks_ok chunks ->
  let F := frags6_of hd off chunks in
  (forall f, In f F -> g_id f = g_id hd /\ g_src f = g_src hd /\ g_dst f = g_dst hd /\ g_hdr f = g_hdr hd /\ g_nh f = g_nh hd) /\
  chain6 F off /\ sumlen6 F = Z.of_nat (length (concat chunks)) /\ length F = length chunks /\
  concat (map g_payload F) = concat chunks.
Proof.
  induction chunks as [|c r IH]; intros off Hoff Hok; cbn zeta.
  - cbn [frags6_of chain6 sumlen6 concat length map]. repeat split; try reflexivity;
      match goal with H : In _ [] |- _ => destruct H end.
  - cbn [chunks_ok] in Hok. destruct Hok as [Hc [Hm Hr]].
    assert (Hoff' : 0 <= off + Z.of_nat (length c) / 8) by lia.
    specialize (IH (off + Z.of_nat (length c) / 8) Hoff' Hr). cbn zeta in IH.
    destruct IH as [I1 [I2 [I3 [I4 I5]]]]. cbn [frags6_of].
    split; [intros f [Hf|Hf]; [subst f; cbn; repeat split; reflexivity|apply I1; exact Hf]|].
    split.
    { cbn [chain6]. split; [reflexivity|]. unfold plen6. cbn [mk6f g_payload g_more].
      split; [|exact I2]. destruct r as [|c2 r2]; cbn [frags6_of]; [reflexivity|].
      split; [reflexivity|]. split; [exact Hm|lia]. }
    split; [cbn [sumlen6 concat]; rewrite app_length, I3; unfold plen6; cbn [mk6f g_payload]; lia|].
    split; [cbn [length]; lia|]. cbn [map concat mk6f g_payload]. rewrite I5. reflexivity.
Qed.

Theorem v6_complete hd chunks ops n :
  valid6 chunks ->
  let F := frags6_of hd 0 chunks in
  arrival6_ok hd F ops ->
  (forall f, In f F -> In (O6Frag f) (firstn (S n) ops)) ->
  (exists f, In f F /\ ~ In (O6Frag f) (firstn n ops)) ->
  (forall m f, (m < n)%nat -> nth_error ops m = Some (O6Frag f) -> g_id f = g_id hd ->
               nth_error (run6 fixedv [] ops) m = Some (Res6 R6None)) /\
  exists first, nth_error (run6 fixedv [] ops) n = Some (Res6 (R6Dg (g_nh hd) first (concat chunks))) /\
                g_src first = g_src hd /\ g_dst first = g_dst hd /\ g_hdr first = g_hdr hd.
Proof.
  intros [Hok [H2 Hb]] F Harr Hall Hmiss.
  destruct (frags6_gen hd chunks 0 ltac:(lia) Hok) as [I1 [I2 [I3 [I4 I5]]]]. fold F in I1, I2, I3, I4, I5.
  assert (HF : F6Props hd F) by (constructor; try assumption; lia).
  destruct (run6_complete_gen hd F HF ops [] [] (Sub_nil F) eq_refl Harr n) as [T1 [first [T2 Hfirst]]].
  - intros f Hf. right. apply Hall. exact Hf.
  - destruct Hmiss as [f [Hf Hno]]. exists f. split; [exact Hf|]. split; [intros []|exact Hno].
  - split; [exact T1|]. exists first. unfold dg6_of in T2. rewrite I5 in T2. split; [exact T2|].
    destruct (I1 first Hfirst) as [_ [Hs [Hd [Hh _]]]]. auto.
Qed.

(* non-vacuity *)
Definition hd6 : frag6 := mk6 1 77 0 false [].
Lemma v6_nonvacuous :
  exists ops n, valid6 chunks3 /\ arrival6_ok hd6 (frags6_of hd6 0 chunks3) ops /\
    (forall f, In f (frags6_of hd6 0 chunks3) -> In (O6Frag f) (firstn (S n) ops)) /\
    (exists f, In f (frags6_of hd6 0 chunks3) /\ ~ In (O6Frag f) (firstn n ops)).
Proof.
  set (a := mk6f hd6 0 true (bytes_from 0 8)). set (b := mk6f hd6 1 true (bytes_from 8 8)).
  set (c := mk6f hd6 2 false (bytes_from 16 5)).
  assert (HF : frags6_of hd6 0 chunks3 = [a; b; c]) by reflexivity. rewrite HF.
  exists [O6Frag c; O6Frag (mk6 1 5 0 true (bytes_from 0 8)); O6Frag a; O6Frag a; O6Frag b], 4%nat.
  split; [unfold valid6; cbn; repeat split; try lia; reflexivity|].
  split.
  { unfold arrival6_ok. repeat constructor.
    - exists c. split; [reflexivity|]. intros _. right. right. left. reflexivity.
    - eexists. split; [reflexivity|]. intros Hk. vm_compute in Hk. discriminate.
    - exists a. split; [reflexivity|]. intros _. left. reflexivity.
    - exists a. split; [reflexivity|]. intros _. left. reflexivity.
    - exists b. split; [reflexivity|]. intros _. right. left. reflexivity. }
  split.
  { intros f [Hf|[Hf|[Hf|[]]]]; subst f; cbn [firstn].
    - right. right. left. reflexivity.
    - right. right. right. right. left. reflexivity.
    - left. reflexivity. }
  exists b. split; [right; left; reflexivity|]. cbn [firstn].
  intros [H|[H|[H|[H|[]]]]]; inversion H.
Qed.
