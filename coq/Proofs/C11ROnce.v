(* C11, reassembly: the callback log of every panic-free history is accepted by the lifecycle
   automaton; the open streams are those of the connections not yet closed in both directions. *)
From GP Require Import Base C11Common C11RModel C11LogProofs C11RProofs.
From Coq Require Import Lia ZifyBool.
Open Scope Z_scope.

Section Once.
Variable v : variant.
Variable cfg : rcfg.

(* events a call may emit for one connection: data while not closed in both directions, the
   completion exactly when it becomes closed in both, nothing afterwards *)
Definition shape (sid : Z) (b b' : bool) (evs : list event) : Prop :=
  if b then evs = [] /\ b' = true
  else exists ds, Forall (is_data_of sid) ds /\
         ((b' = false /\ evs = ds) \/ (b' = true /\ exists acc, evs = ds ++ [EDone sid acc])).

Lemma shape_refl : forall sid b, shape sid b b [].
Proof. intros sid []; cbn; [split; reflexivity|]. exists []. split; [constructor|left; split; reflexivity]. Qed.

Lemma shape_trans : forall sid b b' b'' e1 e2, shape sid b b' e1 -> shape sid b' b'' e2 -> shape sid b b'' (e1 ++ e2).
Proof.
  intros sid b b' b'' e1 e2 H1 H2. destruct b; cbn in *.
  - destruct H1 as [E1 B1]. subst. cbn in H2. destruct H2 as [E2 B2]. subst. split; reflexivity.
  - destruct H1 as [ds1 [F1 [[B1 E1]|[B1 [acc E1]]]]]; subst; cbn in H2.
    + destruct H2 as [ds2 [F2 [[B2 E2]|[B2 [acc E2]]]]]; subst.
      * exists (ds1 ++ ds2). split; [apply Forall_app; split; assumption|left; split; reflexivity].
      * exists (ds1 ++ ds2). split; [apply Forall_app; split; assumption|right; split; [reflexivity|]]. exists acc. apply app_assoc.
    + destruct H2 as [E2 B2]. subst. exists ds1. split; [exact F1|right; split; [reflexivity|]]. exists acc. rewrite app_nil_r. reflexivity.
Qed.

(* what a per-connection function does to the context *)
Definition emits (c : rconn) (x : rctx) (c' : rconn) (x' : rctx) : Prop :=
  rc_sid c' = rc_sid c /\
  (x_panic x' = true \/ exists evs, x_ev x' = x_ev x ++ evs /\ shape (rc_sid c) (both_closed c) (both_closed c') evs).

Lemma emits_refl : forall c x, emits c x c x.
Proof. intros. split; [reflexivity|right]. exists []. rewrite app_nil_r. split; [reflexivity|apply shape_refl]. Qed.

Lemma emits_trans : forall c x c1 x1 c2 x2, emits c x c1 x1 -> (x_panic x1 = true -> x_panic x2 = true) ->
  emits c1 x1 c2 x2 -> emits c x c2 x2.
Proof.
  intros c x c1 x1 c2 x2 [S1 H1] Hm [S2 H2]. split; [congruence|].
  destruct H2 as [H2|[e2 [E2 Sh2]]]; [left; exact H2|].
  destruct H1 as [H1|[e1 [E1 Sh1]]]; [left; apply Hm; exact H1|right].
  exists (e1 ++ e2). split; [rewrite E2, E1, app_assoc; reflexivity|]. rewrite S1 in Sh2. eapply shape_trans; eauto.
Qed.

(* same halves closedness, same stream: nothing emitted *)
Lemma emits_same : forall c x c', rc_sid c' = rc_sid c -> both_closed c' = both_closed c -> emits c x c' x.
Proof. intros c x c' Hs Hb. split; [exact Hs|right]. exists []. rewrite app_nil_r. split; [reflexivity|]. rewrite Hb. apply shape_refl. Qed.

Lemma bc_put : forall c w h, h_closed h = h_closed (get_half c w) -> both_closed (put_half c w h) = both_closed c.
Proof. intros c w h H. rewrite (both_closed_halves _ w), get_put_same, get_put_other, (both_closed_halves c w), H. reflexivity. Qed.

Lemma bc_open : forall c w, h_closed (get_half c w) = false -> both_closed c = false.
Proof. intros c w H. rewrite (both_closed_halves c w), H. reflexivity. Qed.

Lemma close_half_emits : forall c w x c' rm x', h_closed (get_half c w) = false ->
  close_half v cfg c w x = (c', rm, x') -> emits c x c' x' /\ x_panic x' = x_panic x.
Proof.
  intros c w x c' rm x' Hnc H. unfold close_half in H.
  match type of H with context [put_half c w ?hh] => set (h' := hh) in * end.
  pose proof (bc_open c w Hnc) as Hb.
  destruct (both_closed (put_half c w h')) eqn:Eb; inversion H; subst; clear H; cbn [x_panic]; (split; [|reflexivity]);
    (split; [apply sid_put|right]); cbn [x_ev]; rewrite Hb, Eb.
  - eexists. split; [reflexivity|]. cbn. exists []. split; [constructor|right; split; [reflexivity|]]. eexists. reflexivity.
  - exists []. rewrite app_nil_r. split; [reflexivity|]. cbn. exists []. split; [constructor|left; split; reflexivity].
Qed.

Lemma send_emits : forall sid n h x r0 acts h' x' ns e, send v cfg sid n h x r0 acts = (h', x', ns, e) ->
  h_closed h' = h_closed h /\ (x_panic x = true -> x_panic x' = true) /\
  exists ev, x_ev x' = x_ev x ++ [ev] /\ is_data_of sid ev.
Proof.
  intros sid n h x r0 acts h' x' ns e H. unfold send in H.
  destruct (add_pending (h_saved h) (cseq r0)) as [[[pre sl] saved1] reld].
  destruct (add_contiguous (h_queue h) (sadd (cseq r0) (clen r0))) as [[tk q1] nextSeq].
  match type of H with context [if ?b then _ else find_keep _ _ _ _ _] => destruct b end.
  - destruct (keep_conv _ 0) as [[saved2 alloc] pk]. inversion H; subst. cbn [h_closed x_panic x_ev].
    split; [reflexivity|]. split; [intros Hp; rewrite Hp; reflexivity|]. eexists. split; [reflexivity|reflexivity].
  - destruct (find_keep _ _ 0 _ 0) as [ndx kskip]. destruct (keep_conv _ kskip) as [[saved2 alloc] pk]. inversion H; subst. cbn [h_closed x_panic x_ev].
    split; [reflexivity|]. split; [intros Hp; rewrite Hp; reflexivity|]. eexists. split; [reflexivity|reflexivity].
Qed.

Lemma send_conn_emits : forall c w h x r0 acts c' rm x' ns, h_closed h = false -> h_closed (get_half c w) = false ->
  send_conn v cfg c w h x r0 acts = (c', rm, x', ns) ->
  emits c x c' x' /\ (x_panic x = true -> x_panic x' = true).
Proof.
  intros c w h x r0 acts c' rm x' ns Hh Hnc H. unfold send_conn in H.
  destruct (send v cfg (rc_sid c) (rc_ncalls c) h x r0 acts) as [[[h1 x1] nextSeq] isEnd] eqn:Es.
  destruct (send_emits _ _ _ _ _ _ _ _ _ _ Es) as [Hc1 [Hm1 [ev [Ev Dv]]]].
  set (c1 := bump_calls (put_half c w h1)) in *.
  assert (Hs1 : rc_sid c1 = rc_sid c) by (unfold c1; rewrite sid_bump; apply sid_put).
  assert (Hg1 : get_half c1 w = h1) by (unfold c1; rewrite bump_half, get_put_same; reflexivity).
  assert (Hb0 : both_closed c = false) by (apply (bc_open c w Hnc)).
  assert (Hb1 : both_closed c1 = false) by (apply (bc_open c1 w); rewrite Hg1; congruence).
  assert (E1 : emits c x c1 x1).
  { split; [exact Hs1|right]. exists [ev]. split; [exact Ev|]. rewrite Hb0, Hb1. cbn. exists [ev]. split; [constructor; [exact Dv|constructor]|left; split; reflexivity]. }
  destruct (x_panic x1) eqn:Ep1.
  - inversion H as [[A1 A2 A3 A4]]; clear H; subst c' rm x' ns. split; [split; [exact Hs1|left; exact Ep1]|intros _; exact Ep1].
  - destruct isEnd.
    + destruct (close_half v cfg c1 w x1) as [[c2 rm2] x2] eqn:Ec. inversion H as [[A1 A2 A3 A4]]; clear H; subst c' rm x' ns.
      destruct (close_half_emits c1 w x1 _ _ _ ltac:(rewrite Hg1; congruence) Ec) as [E2 P2].
      split; [eapply emits_trans; [exact E1|intros Hp; congruence|exact E2]|]. intros Hp. specialize (Hm1 Hp). congruence.
    + inversion H as [[A1 A2 A3 A4]]; clear H; subst c' rm x' ns. split; [exact E1|]. intros Hp. specialize (Hm1 Hp). congruence.
Qed.

Lemma skip_flush_emits : forall c w x c' rm x', h_closed (get_half c w) = false ->
  skip_flush v cfg c w x = (c', rm, x') -> emits c x c' x' /\ (x_panic x = true -> x_panic x' = true).
Proof.
  intros c w x c' rm x' Hnc H. unfold skip_flush in H.
  destruct (h_queue (get_half c w)) as [|p q'].
  - destruct (close_half_emits c w x _ _ _ Hnc H) as [E P]. split; [exact E|congruence].
  - match type of H with context [send_conn v cfg c w ?hh x ?r ?a] => destruct (send_conn v cfg c w hh x r a) as [[[c1 rm1] x1] nextSeq] eqn:Es end.
    inversion H as [[A1 A2 A3]]; clear H; subst rm x'.
    assert (EM : emits c x c1 x1 /\ (x_panic x = true -> x_panic x1 = true)) by (eapply send_conn_emits; [|exact Hnc|exact Es]; exact Hnc).
    destruct EM as [E1 M1]. subst c'. split; [|exact M1].
    destruct (nextSeq =? INVALID); [exact E1|].
    eapply emits_trans; [exact E1|auto|]. apply emits_same; [apply sid_put|apply bc_put; reflexivity].
Qed.

Lemma fc_loop_emits : forall t w fuel c rm x c' rm' x', fc_loop fuel v cfg c w rm x t = (c', rm', x') ->
  emits c x c' x' /\ (x_panic x = true -> x_panic x' = true).
Proof.
  intros t w. induction fuel as [|f IH]; intros c rm x c' rm' x' H; cbn [fc_loop] in H.
  - inversion H; subst. split; [apply emits_refl|auto].
  - destruct (h_closed (get_half c w) || x_panic x) eqn:Eg; [inversion H; subst; split; [apply emits_refl|auto]|].
    apply orb_false_iff in Eg. destruct Eg as [Ec Ep].
    destruct (h_queue (get_half c w)) as [|p q]; [inversion H; subst; split; [apply emits_refl|auto]|].
    destruct (rp_seen p <? t); [|inversion H; subst; split; [apply emits_refl|auto]].
    destruct (skip_flush v cfg c w x) as [[c1 rm1] x1] eqn:Es.
    destruct (skip_flush_emits c w x _ _ _ Ec Es) as [E1 M1].
    destruct (IH _ _ _ _ _ _ H) as [E2 M2].
    split; [eapply emits_trans; eauto|auto].
Qed.

Lemma flush_close_emits : forall w t tc c x c' rm' x' fl cl, flush_close v cfg c w x t tc = (c', rm', x', fl, cl) ->
  emits c x c' x' /\ (x_panic x = true -> x_panic x' = true).
Proof.
  intros w t tc c x c' rm' x' fl cl H. unfold flush_close in H.
  destruct (h_closed (get_half c w)) eqn:Ec; [inversion H; subst; split; [apply emits_refl|auto]|].
  destruct (fc_loop _ v cfg c w false x t) as [[c1 rm1] x1] eqn:El.
  destruct (fc_loop_emits _ _ _ _ _ _ _ _ _ El) as [E1 M1].
  destruct (x_panic x1) eqn:Ep1; [inversion H; subst; split; [exact E1|intros _; exact Ep1]|].
  destruct (h_closed (get_half c1 w)) eqn:Ec1; [inversion H; subst; split; [exact E1|intros Hp; specialize (M1 Hp); congruence]|].
  destruct (h_queue (get_half c1 w)); [|inversion H; subst; split; [exact E1|intros Hp; specialize (M1 Hp); congruence]].
  destruct (conn_last_seen c1 <? tc); [|inversion H; subst; split; [exact E1|intros Hp; specialize (M1 Hp); congruence]].
  destruct (close_half v cfg c1 w x1) as [[c2 rm2] x2] eqn:Ecl. inversion H; subst.
  destruct (close_half_emits c1 w x1 _ _ _ Ec1 Ecl) as [E2 P2].
  split; [eapply emits_trans; [exact E1|intros; congruence|exact E2]|]. intros Hp. specialize (M1 Hp). congruence.
Qed.

Lemma flush_conn_emits : forall t tc c x c' rm x' a b, flush_conn v cfg t tc c x = (c', rm, x', a, b) ->
  emits c x c' x' /\ (rm = true -> x_panic x' = false -> both_closed c' = true \/ True).
Proof.
  intros t tc c x c' rm x' a b H. unfold flush_conn in H.
  destruct (flush_close v cfg c false x t tc) as [[[[c1 rm1] x1] f1] k1] eqn:E1.
  destruct (flush_close_emits _ _ _ _ _ _ _ _ _ _ E1) as [Em1 M1].
  destruct (x_panic x1) eqn:Ep1; [inversion H; subst; split; [exact Em1|auto]|].
  destruct (flush_close v cfg c1 true x1 t tc) as [[[[c2 rm2] x2] f2] k2] eqn:E2.
  destruct (flush_close_emits _ _ _ _ _ _ _ _ _ _ E2) as [Em2 M2].
  inversion H; subst. split; [eapply emits_trans; eauto|auto].
Qed.

Lemma fa_loop_emits : forall w fuel c rm x c' rm' x', fa_loop fuel v cfg c w rm x = (c', rm', x') ->
  emits c x c' x' /\ (x_panic x = true -> x_panic x' = true).
Proof.
  intros w. induction fuel as [|f IH]; intros c rm x c' rm' x' H; cbn [fa_loop] in H.
  - inversion H; subst. split; [apply emits_refl|auto].
  - destruct (h_closed (get_half c w) || x_panic x) eqn:Eg; [inversion H; subst; split; [apply emits_refl|auto]|].
    apply orb_false_iff in Eg. destruct Eg as [Ec Ep].
    destruct (skip_flush v cfg c w x) as [[c1 rm1] x1] eqn:Es.
    destruct (skip_flush_emits c w x _ _ _ Ec Es) as [E1 M1].
    destruct (IH _ _ _ _ _ _ H) as [E2 M2].
    split; [eapply emits_trans; eauto|auto].
Qed.

Lemma flush_all_conn_emits : forall c x c' rm x' a b, flush_all_conn v cfg c x = (c', rm, x', a, b) -> emits c x c' x'.
Proof.
  intros c x c' rm x' a b H. unfold flush_all_conn in H.
  destruct (fa_loop _ v cfg c false false x) as [[c1 rm1] x1] eqn:E1.
  destruct (fa_loop_emits _ _ _ _ _ _ _ _ E1) as [Em1 M1].
  destruct (x_panic x1) eqn:Ep1; [inversion H; subst; exact Em1|].
  destruct (fa_loop _ v cfg c1 true false x1) as [[c2 rm2] x2] eqn:E2.
  destruct (fa_loop_emits _ _ _ _ _ _ _ _ E2) as [Em2 M2].
  inversion H; subst. eapply emits_trans; eauto.
Qed.

Lemma assemble_conn_emits : forall c w x seq syn fin rst len ts c' rm x',
  assemble_conn v cfg c w x seq syn fin rst len ts = (c', rm, x') -> emits c x c' x'.
Proof.
  intros c w x seq syn fin rst len ts c' rm x' H. unfold assemble_conn in H.
  set (h0 := get_half c w) in *.
  match type of H with context [if h_closed ?hh then _ else _] => set (h := hh) in * end.
  assert (Put : forall hh x0, h_closed hh = h_closed h0 -> emits c x0 (put_half c w hh) x0).
  { intros hh x0 E. apply emits_same; [apply sid_put|apply bc_put; exact E]. }
  assert (PutP : forall hh, emits c x (put_half c w hh) (with_panic x)).
  { intros hh. split; [apply sid_put|left; reflexivity]. }
  assert (PutU : forall hh u, h_closed hh = h_closed h0 -> emits c x (put_half c w hh) (with_used x u)).
  { intros hh u E. split; [apply sid_put|right]. exists []. cbn [with_used x_ev]. rewrite app_nil_r. split; [reflexivity|].
    rewrite (bc_put c w hh E). apply shape_refl. }
  destruct (h_closed h) eqn:Ec; [inversion H; subst; apply Put; reflexivity|].
  assert (Hnc : h_closed (get_half c w) = false) by exact Ec.
  destruct (classify (h_next h) seq syn) as [[seq1 next1] queue].
  set (hn := set_next h next1) in *.
  destruct queue.
  - destruct (check_overlap (h_queue hn) len seq1 ts (rst || fin) true) as [q2 l2 added rel tags pk].
    cbn [c2_panic c2_queue c2_rel c2_added c2_len] in H.
    destruct pk; [inversion H; subst; apply PutP|].
    destruct (limit_hit cfg _ _); [|inversion H; subst; apply PutU; reflexivity].
    destruct q2 as [|p q']; [inversion H; subst; apply PutU; reflexivity|].
    match type of H with context [send_conn v cfg c w ?hh ?xx ?r ?a] => destruct (send_conn v cfg c w hh xx r a) as [[[c1 rm1] x1] nextSeq] eqn:Es end.
    inversion H as [[A1 A2 A3]]; clear H; subst rm x'.
    assert (EM : emits c (with_used x _) c1 x1 /\ (x_panic (with_used x _) = true -> x_panic x1 = true)) by (eapply send_conn_emits; [|exact Hnc|exact Es]; exact Ec).
    destruct EM as [E1 _]. subst c'.
    assert (E0 : emits c x c1 x1).
    { destruct E1 as [S1 E1]. split; [exact S1|]. destruct E1 as [E1|[evs [Ev Sh]]]; [left; exact E1|right]. exists evs. split; [exact Ev|exact Sh]. }
    destruct (nextSeq =? INVALID); [exact E0|].
    eapply emits_trans; [exact E0|auto|]. apply emits_same; [apply sid_put|apply bc_put; reflexivity].
  - destruct (overlap_existing (h_next hn) seq1 len) as [[b1 seq2] pk0].
    destruct pk0; [inversion H; subst; apply PutP|].
    destruct (check_overlap (h_queue hn) b1 seq2 ts (rst || fin) false) as [q2 l2 added rel tags pk].
    cbn [c2_panic c2_queue c2_rel c2_added c2_len] in H.
    destruct pk; [inversion H; subst; apply PutP|].
    destruct ((0 <? l2) || (rst || fin) || syn); [|inversion H; subst; apply PutU; reflexivity].
    match type of H with context [send_conn v cfg c w ?hh ?xx ?r ?a] => destruct (send_conn v cfg c w hh xx r a) as [[[c1 rm1] x1] nextSeq] eqn:Es end.
    inversion H as [[A1 A2 A3]]; clear H; subst rm x'.
    assert (EM : emits c (with_used x _) c1 x1 /\ (x_panic (with_used x _) = true -> x_panic x1 = true)) by (eapply send_conn_emits; [|exact Hnc|exact Es]; exact Ec).
    destruct EM as [E1 _]. subst c'.
    assert (E0 : emits c x c1 x1).
    { destruct E1 as [S1 E1]. split; [exact S1|]. destruct E1 as [E1|[evs [Ev Sh]]]; [left; exact E1|right]. exists evs. split; [exact Ev|exact Sh]. }
    destruct (nextSeq =? INVALID); [exact E0|].
    eapply emits_trans; [exact E0|auto|]. apply emits_same; [apply sid_put|apply bc_put; reflexivity].
Qed.
End Once.
