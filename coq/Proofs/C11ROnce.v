(* C11, reassembly: the callback log of every panic-free history is accepted by the lifecycle
   automaton; the open streams are those of the connections not yet closed in both directions. *)
From GP Require Import Base C11Common C11RModel C11LogProofs C11RProofs.
From Coq Require Import Lia ZifyBool.
Open Scope Z_scope.

Section Once.
Variable v : variant.
Variable cfg : rcfg.

(* events a call may emit for one connection: data while not closed in both directions, the
   completion exactly when it becomes closed in both, nothing afterwards *)
Definition shape (sid : Z) (b b' : bool) (evs : list event) : Prop :=
  if b then evs = [] /\ b' = true
  else exists ds, Forall (is_data_of sid) ds /\
         ((b' = false /\ evs = ds) \/ (b' = true /\ exists acc, evs = ds ++ [EDone sid acc])).

Lemma shape_refl : forall sid b, shape sid b b [].
Proof. intros sid []; cbn; [split; reflexivity|]. exists []. split; [constructor|left; split; reflexivity]. Qed.

Lemma shape_trans : forall sid b b' b'' e1 e2, shape sid b b' e1 -> shape sid b' b'' e2 -> shape sid b b'' (e1 ++ e2).
Proof.
  intros sid b b' b'' e1 e2 H1 H2. destruct b; cbn in *.
  - destruct H1 as [E1 B1]. subst. cbn in H2. destruct H2 as [E2 B2]. subst. split; reflexivity.
  - destruct H1 as [ds1 [F1 [[B1 E1]|[B1 [acc E1]]]]]; subst; cbn in H2.
    + destruct H2 as [ds2 [F2 [[B2 E2]|[B2 [acc E2]]]]]; subst.
      * exists (ds1 ++ ds2). split; [apply Forall_app; split; assumption|left; split; reflexivity].
      * exists (ds1 ++ ds2). split; [apply Forall_app; split; assumption|right; split; [reflexivity|]]. exists acc. apply app_assoc.
    + destruct H2 as [E2 B2]. subst. exists ds1. split; [exact F1|right; split; [reflexivity|]]. exists acc. rewrite app_nil_r. reflexivity.
Qed.

(* what a per-connection function does to the context *)
Definition emits (c : rconn) (x : rctx) (c' : rconn) (x' : rctx) : Prop :=
  rc_sid c' = rc_sid c /\
  exists evs, x_ev x' = x_ev x ++ evs /\ shape (rc_sid c) (both_closed c) (both_closed c') evs.

Lemma emits_bc : forall c x c' x', emits c x c' x' -> both_closed c = true -> both_closed c' = true.
Proof. intros c x c' x' [_ [evs [_ Sh]]] Hb. rewrite Hb in Sh. cbn in Sh. apply Sh. Qed.

Lemma emits_refl : forall c x, emits c x c x.
Proof. intros. split; [reflexivity|]. exists []. rewrite app_nil_r. split; [reflexivity|apply shape_refl]. Qed.

Lemma emits_trans : forall c x c1 x1 c2 x2, emits c x c1 x1 -> emits c1 x1 c2 x2 -> emits c x c2 x2.
Proof.
  intros c x c1 x1 c2 x2 [S1 [e1 [E1 Sh1]]] [S2 [e2 [E2 Sh2]]]. split; [congruence|].
  exists (e1 ++ e2). split; [rewrite E2, E1, app_assoc; reflexivity|]. rewrite S1 in Sh2. eapply shape_trans; eauto.
Qed.

(* same halves closedness, same stream: nothing emitted *)
Lemma emits_same : forall c x c', rc_sid c' = rc_sid c -> both_closed c' = both_closed c -> emits c x c' x.
Proof. intros c x c' Hs Hb. split; [exact Hs|]. exists []. rewrite app_nil_r. split; [reflexivity|]. rewrite Hb. apply shape_refl. Qed.

Lemma bc_put : forall c w h, h_closed h = h_closed (get_half c w) -> both_closed (put_half c w h) = both_closed c.
Proof. intros c w h H. rewrite (both_closed_halves _ w), get_put_same, get_put_other, (both_closed_halves c w), H. reflexivity. Qed.

Lemma bc_open : forall c w, h_closed (get_half c w) = false -> both_closed c = false.
Proof. intros c w H. rewrite (both_closed_halves c w), H. reflexivity. Qed.

Lemma close_half_emits : forall c w x c' rm x', h_closed (get_half c w) = false ->
  close_half v cfg c w x = (c', rm, x') -> emits c x c' x' /\ (rm = true -> both_closed c' = true).
Proof.
  intros c w x c' rm x' Hnc H. unfold close_half in H.
  match type of H with context [put_half c w ?hh] => set (h' := hh) in * end.
  pose proof (bc_open c w Hnc) as Hb.
  destruct (both_closed (put_half c w h')) eqn:Eb; inversion H; subst; clear H; (split; [|intros Hr; first [exact Eb|discriminate Hr]]);
    (split; [apply sid_put|]); cbn [x_ev]; rewrite Hb, Eb.
  - eexists. split; [reflexivity|]. cbn. exists []. split; [constructor|right; split; [reflexivity|]]. eexists. reflexivity.
  - exists []. rewrite app_nil_r. split; [reflexivity|]. cbn. exists []. split; [constructor|left; split; reflexivity].
Qed.

Lemma send_emits : forall sid n h x r0 acts h' x' ns e, send v cfg sid n h x r0 acts = (h', x', ns, e) ->
  h_closed h' = h_closed h /\ exists ev, x_ev x' = x_ev x ++ [ev] /\ is_data_of sid ev.
Proof.
  intros sid n h x r0 acts h' x' ns e H. unfold send in H.
  destruct (add_pending (h_saved h) (cseq r0)) as [[[pre sl] saved1] reld].
  destruct (add_contiguous (h_queue h) (sadd (cseq r0) (clen r0))) as [[tk q1] nextSeq].
  match type of H with context [if ?b then _ else find_keep _ _ _ _ _] => destruct b end.
  - destruct (keep_conv _ 0) as [[saved2 alloc] pk]. inversion H; subst. cbn [h_closed x_ev].
    split; [reflexivity|]. eexists. split; [reflexivity|reflexivity].
  - destruct (find_keep _ _ 0 _ 0) as [ndx kskip]. destruct (keep_conv _ kskip) as [[saved2 alloc] pk]. inversion H; subst. cbn [h_closed x_ev].
    split; [reflexivity|]. eexists. split; [reflexivity|reflexivity].
Qed.

Lemma send_conn_emits : forall c w h x r0 acts c' rm x' ns, h_closed h = false -> h_closed (get_half c w) = false ->
  send_conn v cfg c w h x r0 acts = (c', rm, x', ns) ->
  emits c x c' x' /\ (rm = true -> both_closed c' = true).
Proof.
  intros c w h x r0 acts c' rm x' ns Hh Hnc H. unfold send_conn in H.
  destruct (send v cfg (rc_sid c) (rc_ncalls c) h x r0 acts) as [[[h1 x1] nextSeq] isEnd] eqn:Es.
  destruct (send_emits _ _ _ _ _ _ _ _ _ _ Es) as [Hc1 [ev [Ev Dv]]].
  set (c1 := bump_calls (put_half c w h1)) in *.
  assert (Hs1 : rc_sid c1 = rc_sid c) by (unfold c1; rewrite sid_bump; apply sid_put).
  assert (Hg1 : get_half c1 w = h1) by (unfold c1; rewrite bump_half, get_put_same; reflexivity).
  assert (Hb0 : both_closed c = false) by (apply (bc_open c w Hnc)).
  assert (Hb1 : both_closed c1 = false) by (apply (bc_open c1 w); rewrite Hg1; congruence).
  assert (E1 : emits c x c1 x1).
  { split; [exact Hs1|]. exists [ev]. split; [exact Ev|]. rewrite Hb0, Hb1. cbn. exists [ev]. split; [constructor; [exact Dv|constructor]|left; split; reflexivity]. }
  destruct (x_panic x1).
  - inversion H as [[A1 A2 A3 A4]]; clear H; subst c' rm x' ns. split; [exact E1|intros Hr; discriminate Hr].
  - destruct isEnd.
    + destruct (close_half v cfg c1 w x1) as [[c2 rm2] x2] eqn:Ec. inversion H as [[A1 A2 A3 A4]]; clear H; subst c' rm x' ns.
      destruct (close_half_emits c1 w x1 _ _ _ ltac:(rewrite Hg1; congruence) Ec) as [E2 R2].
      split; [eapply emits_trans; [exact E1|exact E2]|exact R2].
    + inversion H as [[A1 A2 A3 A4]]; clear H; subst c' rm x' ns. split; [exact E1|intros Hr; discriminate Hr].
Qed.

Lemma skip_flush_emits : forall c w x c' rm x', h_closed (get_half c w) = false ->
  skip_flush v cfg c w x = (c', rm, x') -> emits c x c' x' /\ (rm = true -> both_closed c' = true).
Proof.
  intros c w x c' rm x' Hnc H. unfold skip_flush in H.
  destruct (h_queue (get_half c w)) as [|p q'].
  - exact (close_half_emits c w x _ _ _ Hnc H).
  - match type of H with context [send_conn v cfg c w ?hh x ?r ?a] => destruct (send_conn v cfg c w hh x r a) as [[[c1 rm1] x1] nextSeq] eqn:Es end.
    inversion H as [[A1 A2 A3]]; clear H; subst rm x'.
    assert (EM : emits c x c1 x1 /\ (rm1 = true -> both_closed c1 = true)) by (eapply send_conn_emits; [|exact Hnc|exact Es]; exact Hnc).
    destruct EM as [E1 R1]. subst c'.
    destruct (nextSeq =? INVALID); [split; assumption|].
    assert (Bc : both_closed (put_half c1 w (set_next (get_half c1 w) nextSeq)) = both_closed c1) by (apply bc_put; reflexivity).
    split; [eapply emits_trans; [exact E1|apply emits_same; [apply sid_put|exact Bc]]|]. intros Hr. rewrite Bc. exact (R1 Hr).
Qed.

Lemma fc_loop_emits : forall t w fuel c rm x c' rm' x', (rm = true -> both_closed c = true) ->
  fc_loop fuel v cfg c w rm x t = (c', rm', x') ->
  emits c x c' x' /\ (rm' = true -> both_closed c' = true).
Proof.
  intros t w. induction fuel as [|f IH]; intros c rm x c' rm' x' Hr H; cbn [fc_loop] in H.
  - inversion H; subst. split; [apply emits_refl|exact Hr].
  - destruct (h_closed (get_half c w) || x_panic x) eqn:Eg; [inversion H; subst; split; [apply emits_refl|exact Hr]|].
    apply orb_false_iff in Eg. destruct Eg as [Ec Ep].
    destruct (h_queue (get_half c w)) as [|p q]; [inversion H; subst; split; [apply emits_refl|exact Hr]|].
    destruct (rp_seen p <? t); [|inversion H; subst; split; [apply emits_refl|exact Hr]].
    assert (Hrm : rm = false). { destruct rm; [specialize (Hr eq_refl); rewrite (bc_open c w Ec) in Hr; discriminate|reflexivity]. } subst rm.
    destruct (skip_flush v cfg c w x) as [[c1 rm1] x1] eqn:Es. cbn [orb] in H.
    destruct (skip_flush_emits c w x _ _ _ Ec Es) as [E1 R1].
    destruct (IH _ _ _ _ _ _ R1 H) as [E2 R2].
    split; [eapply emits_trans; eauto|exact R2].
Qed.

Lemma flush_close_emits : forall w t tc c x c' rm' x' fl cl, flush_close v cfg c w x t tc = (c', rm', x', fl, cl) ->
  emits c x c' x' /\ (rm' = true -> both_closed c' = true).
Proof.
  intros w t tc c x c' rm' x' fl cl H. unfold flush_close in H.
  destruct (h_closed (get_half c w)) eqn:Ec; [inversion H; subst; split; [apply emits_refl|intros Hr; discriminate Hr]|].
  destruct (fc_loop _ v cfg c w false x t) as [[c1 rm1] x1] eqn:El.
  destruct (fc_loop_emits t w _ c false x _ _ _ ltac:(intros Hr; discriminate Hr) El) as [E1 R1].
  destruct (x_panic x1); [inversion H; subst; split; assumption|].
  destruct (h_closed (get_half c1 w)) eqn:Ec1; [inversion H; subst; split; assumption|].
  destruct (h_queue (get_half c1 w)); [|inversion H; subst; split; assumption].
  destruct (conn_last_seen c1 <? tc); [|inversion H; subst; split; assumption].
  destruct (close_half v cfg c1 w x1) as [[c2 rm2] x2] eqn:Ecl. inversion H; subst.
  destruct (close_half_emits c1 w x1 _ _ _ Ec1 Ecl) as [E2 R2].
  split; [eapply emits_trans; eauto|].
  intros Hr. apply orb_true_iff in Hr. destruct Hr as [Hr|Hr]; [eapply emits_bc; [exact E2|exact (R1 Hr)]|exact (R2 Hr)].
Qed.

Lemma flush_conn_emits : forall t tc c x c' rm x' a b, flush_conn v cfg t tc c x = (c', rm, x', a, b) ->
  emits c x c' x' /\ (rm = true -> both_closed c' = true).
Proof.
  intros t tc c x c' rm x' a b H. unfold flush_conn in H.
  destruct (flush_close v cfg c false x t tc) as [[[[c1 rm1] x1] f1] k1] eqn:E1.
  destruct (flush_close_emits _ _ _ _ _ _ _ _ _ _ E1) as [Em1 R1].
  destruct (x_panic x1); [inversion H; subst; split; assumption|].
  destruct (flush_close v cfg c1 true x1 t tc) as [[[[c2 rm2] x2] f2] k2] eqn:E2.
  destruct (flush_close_emits _ _ _ _ _ _ _ _ _ _ E2) as [Em2 R2].
  inversion H; subst. split; [eapply emits_trans; eauto|].
  intros Hr. apply orb_true_iff in Hr. destruct Hr as [Hr|Hr].
  - apply orb_true_iff in Hr. destruct Hr as [Hr|Hr]; [eapply emits_bc; [exact Em2|exact (R1 Hr)]|exact (R2 Hr)].
  - apply andb_true_iff in Hr. destruct Hr as [Hr _]. apply andb_true_iff in Hr. apply Hr.
Qed.

Lemma fa_loop_emits : forall w fuel c rm x c' rm' x', (rm = true -> both_closed c = true) ->
  fa_loop fuel v cfg c w rm x = (c', rm', x') -> emits c x c' x' /\ (rm' = true -> both_closed c' = true).
Proof.
  intros w. induction fuel as [|f IH]; intros c rm x c' rm' x' Hr H; cbn [fa_loop] in H.
  - inversion H; subst. split; [apply emits_refl|exact Hr].
  - destruct (h_closed (get_half c w) || x_panic x) eqn:Eg; [inversion H; subst; split; [apply emits_refl|exact Hr]|].
    apply orb_false_iff in Eg. destruct Eg as [Ec Ep].
    assert (Hrm : rm = false). { destruct rm; [specialize (Hr eq_refl); rewrite (bc_open c w Ec) in Hr; discriminate|reflexivity]. } subst rm.
    destruct (skip_flush v cfg c w x) as [[c1 rm1] x1] eqn:Es. cbn [orb] in H.
    destruct (skip_flush_emits c w x _ _ _ Ec Es) as [E1 R1].
    destruct (IH _ _ _ _ _ _ R1 H) as [E2 R2].
    split; [eapply emits_trans; eauto|exact R2].
Qed.

Lemma flush_all_conn_emits : forall c x c' rm x' a b, flush_all_conn v cfg c x = (c', rm, x', a, b) ->
  emits c x c' x' /\ (rm = true -> both_closed c' = true).
Proof.
  intros c x c' rm x' a b H. unfold flush_all_conn in H.
  destruct (fa_loop _ v cfg c false false x) as [[c1 rm1] x1] eqn:E1.
  destruct (fa_loop_emits false _ c false x _ _ _ ltac:(intros Hr; discriminate Hr) E1) as [Em1 R1].
  destruct (x_panic x1); [inversion H; subst; split; assumption|].
  destruct (fa_loop _ v cfg c1 true false x1) as [[c2 rm2] x2] eqn:E2.
  destruct (fa_loop_emits true _ c1 false x1 _ _ _ ltac:(intros Hr; discriminate Hr) E2) as [Em2 R2].
  inversion H; subst. split; [eapply emits_trans; eauto|].
  intros Hr. apply orb_true_iff in Hr. destruct Hr as [Hr|Hr]; [eapply emits_bc; [exact Em2|exact (R1 Hr)]|exact (R2 Hr)].
Qed.

Lemma assemble_conn_emits : forall c w x seq syn fin rst len ts c' rm x',
  assemble_conn v cfg c w x seq syn fin rst len ts = (c', rm, x') ->
  emits c x c' x' /\ (rm = true -> both_closed c' = true).
Proof.
  intros c w x seq syn fin rst len ts c' rm x' H. unfold assemble_conn in H.
  set (h0 := get_half c w) in *.
  match type of H with context [if h_closed ?hh then _ else _] => set (h := hh) in * end.
  assert (Put : forall hh x0, h_closed hh = h_closed h0 -> emits c x0 (put_half c w hh) x0 /\ (false = true -> both_closed (put_half c w hh) = true)).
  { intros hh x0 E. split; [apply emits_same; [apply sid_put|apply bc_put; exact E]|intros Hr; discriminate Hr]. }
  assert (PutX : forall hh x1, h_closed hh = h_closed h0 -> x_ev x1 = x_ev x ->
            emits c x (put_half c w hh) x1 /\ (false = true -> both_closed (put_half c w hh) = true)).
  { intros hh x1 E Ev. split; [|intros Hr; discriminate Hr]. split; [apply sid_put|]. exists []. rewrite app_nil_r. split; [exact Ev|].
    rewrite (bc_put c w hh E). apply shape_refl. }
  destruct (h_closed h) eqn:Ec; [inversion H; subst; apply Put; reflexivity|].
  assert (Hnc : h_closed (get_half c w) = false) by exact Ec.
  destruct (classify (h_next h) seq syn) as [[seq1 next1] queue].
  set (hn := set_next h next1) in *.
  assert (Fin : forall c1 rm1 x1 (b : bool) nx, emits c x c1 x1 /\ (rm1 = true -> both_closed c1 = true) ->
            emits c x (if b then c1 else put_half c1 w (set_next (get_half c1 w) nx)) x1 /\
            (rm1 = true -> both_closed (if b then c1 else put_half c1 w (set_next (get_half c1 w) nx)) = true)).
  { intros c1 rm1 x1 b nx [E1 R1]. destruct b; [split; assumption|].
    assert (Bc : both_closed (put_half c1 w (set_next (get_half c1 w) nx)) = both_closed c1) by (apply bc_put; reflexivity).
    split; [eapply emits_trans; [exact E1|apply emits_same; [apply sid_put|exact Bc]]|]. intros Hr. rewrite Bc. exact (R1 Hr). }
  destruct queue.
  - destruct (check_overlap (h_queue hn) len seq1 ts (rst || fin) true) as [q2 l2 added rel tags pk].
    cbn [c2_panic c2_queue c2_rel c2_added c2_len] in H.
    destruct pk; [inversion H; subst; apply PutX; reflexivity|].
    destruct (limit_hit cfg _ _); [|inversion H; subst; apply PutX; reflexivity].
    destruct q2 as [|p q']; [inversion H; subst; apply PutX; reflexivity|].
    match type of H with context [send_conn v cfg c w ?hh ?xx ?r ?a] => destruct (send_conn v cfg c w hh xx r a) as [[[c1 rm1] x1] nextSeq] eqn:Es end.
    inversion H as [[A1 A2 A3]]; clear H; subst rm x'.
    assert (EM : emits c (with_used x _) c1 x1 /\ (rm1 = true -> both_closed c1 = true)) by (eapply send_conn_emits; [|exact Hnc|exact Es]; exact Ec).
    subst c'. apply Fin. destruct EM as [[S1 [evs [Ev Sh]]] R1]. split; [|exact R1]. split; [exact S1|]. exists evs. split; [exact Ev|exact Sh].
  - destruct (overlap_existing (h_next hn) seq1 len) as [[b1 seq2] pk0].
    destruct pk0; [inversion H; subst; apply PutX; reflexivity|].
    destruct (check_overlap (h_queue hn) b1 seq2 ts (rst || fin) false) as [q2 l2 added rel tags pk].
    cbn [c2_panic c2_queue c2_rel c2_added c2_len] in H.
    destruct pk; [inversion H; subst; apply PutX; reflexivity|].
    destruct ((0 <? l2) || (rst || fin) || syn); [|inversion H; subst; apply PutX; reflexivity].
    match type of H with context [send_conn v cfg c w ?hh ?xx ?r ?a] => destruct (send_conn v cfg c w hh xx r a) as [[[c1 rm1] x1] nextSeq] eqn:Es end.
    inversion H as [[A1 A2 A3]]; clear H; subst rm x'.
    assert (EM : emits c (with_used x _) c1 x1 /\ (rm1 = true -> both_closed c1 = true)) by (eapply send_conn_emits; [|exact Hnc|exact Es]; exact Ec).
    subst c'. apply Fin. destruct EM as [[S1 [evs [Ev Sh]]] R1]. split; [|exact R1]. split; [exact S1|]. exists evs. split; [exact Ev|exact Sh].
Qed.

End Once.

(* ------------------------------------------------------------------ the pool *)
Definition is_open (c : rconn) : bool := negb (both_closed c).
Definition osids (l : list rconn) : list Z := map rc_sid (filter is_open l).
Definition asids (l : list rconn) : list Z := map rc_sid l.

Lemma osids_app : forall a b, osids (a ++ b) = osids a ++ osids b.
Proof. intros. unfold osids. rewrite filter_app, map_app. reflexivity. Qed.
Lemma asids_app : forall a b, asids (a ++ b) = asids a ++ asids b.
Proof. intros. unfold asids. apply map_app. Qed.
Lemma osids_cons : forall c l, osids (c :: l) = (if is_open c then [rc_sid c] else []) ++ osids l.
Proof. intros. unfold osids. cbn [filter]. destruct (is_open c); reflexivity. Qed.
Lemma osids_in_asids : forall l s, In s (osids l) -> In s (asids l).
Proof.
  intros l s H. unfold osids, asids in *. apply in_map_iff in H. destruct H as [c [E H]]. apply filter_In in H.
  apply in_map_iff. exists c. split; [exact E|apply H].
Qed.
Lemma osids_nodup : forall l, NoDup (asids l) -> NoDup (osids l).
Proof.
  induction l as [|c l IH]; intros H; [constructor|]. cbn [asids map] in H. inversion H as [|? ? Hn Hd]; subst.
  rewrite osids_cons. destruct (is_open c); cbn [app]; [|apply IH; exact Hd].
  constructor; [|apply IH; exact Hd]. intros Hin. apply Hn. apply osids_in_asids. exact Hin.
Qed.

Definition after_shape (sid : Z) (b b' : bool) (ls : lstate) : lstate :=
  if negb b && b' then mkL (zremove sid (l_open ls)) (sid :: l_done ls) else ls.

Lemma shape_run : forall sid b b' evs ls, shape sid b b' evs -> (b = false -> In sid (l_open ls)) ->
  lrun ls evs = Some (after_shape sid b b' ls).
Proof.
  intros sid b b' evs ls H Hin. unfold after_shape. destruct b; cbn in H.
  - destruct H as [E _]. subst. reflexivity.
  - specialize (Hin eq_refl). destruct H as [ds [F [[B E]|[B [acc E]]]]]; subst; cbn [negb andb].
    + apply (lrun_data sid); assumption.
    + rewrite lrun_app. rewrite (lrun_data sid) by assumption. cbn [lrun lstep]. apply zmem_in in Hin. rewrite Hin. reflexivity.
Qed.

Section Pool.
Variable v : variant.

Definition rlinv (st : rstate) (ls : lstate) : Prop :=
  l_open ls = osids (rs_conns st) /\ NoDup (asids (rs_conns st)) /\
  (forall s, In s (l_open ls) \/ In s (l_done ls) \/ In s (asids (rs_conns st)) -> s <= rs_nstreams st).

(* a per-connection function: its events, and it removes only connections closed in both directions *)
Definition fspec (f : rconn -> rctx -> rconn * bool * rctx * Z * Z) : Prop :=
  forall c x c' rm x' a b, f c x = (c', rm, x', a, b) -> emits c x c' x' /\ (rm = true -> both_closed c' = true).

Lemma rflush_conns_log : forall f, fspec f -> forall l x pre done, NoDup (pre ++ osids l) ->
  exists evs done', x_ev (ra_x (rflush_conns f l x)) = x_ev x ++ evs /\
    lrun (mkL (pre ++ osids l) done) evs = Some (mkL (pre ++ osids (ra_keep (rflush_conns f l x))) done') /\
    (forall s, In s done' -> In s done \/ In s (asids l)) /\
    (forall s, In s (asids (ra_keep (rflush_conns f l x))) -> In s (asids l)) /\
    (NoDup (asids l) -> NoDup (asids (ra_keep (rflush_conns f l x)))).
Proof.
  intros f Hf. induction l as [|c l IH]; intros x pre done Hn; cbn [rflush_conns] in *.
  - exists [], done. rewrite app_nil_r. cbn [ra_x ra_keep lrun]. repeat split; auto.
  - destruct (x_panic x).
    { exists [], done. rewrite app_nil_r. cbn [ra_x ra_keep lrun]. repeat split; auto. }
    destruct (f c x) as [[[[c1 rm] x1] a] b] eqn:Ef. cbn [ra_x ra_keep] in *.
    destruct (Hf _ _ _ _ _ _ _ Ef) as [[Hs [evs1 [Ev1 Sh1]]] K2].
    rewrite osids_cons in Hn. unfold is_open in Hn. rewrite (osids_cons c l). unfold is_open.
    assert (Hin : both_closed c = false -> In (rc_sid c) (pre ++ (if negb (both_closed c) then [rc_sid c] else []) ++ osids l)).
    { intros E. rewrite E. cbn [negb]. apply in_or_app. right. left. reflexivity. }
    pose proof (shape_run _ _ _ _ (mkL (pre ++ osids (c :: l)) done) Sh1) as R1. rewrite osids_cons in R1. unfold is_open in R1.
    specialize (R1 Hin). unfold after_shape in R1. cbn [l_open l_done] in R1.
    destruct (both_closed c) eqn:Eb.
    + cbn in Sh1. destruct Sh1 as [E1 B1]. subst evs1. cbn [negb andb app] in *. rewrite app_nil_r in Ev1.
      destruct (IH x1 pre done Hn) as [evs [d' [I1 [I2 [I3 [I4 I5]]]]]].
      exists evs, d'. split; [congruence|]. split.
      * rewrite I2. f_equal. f_equal. f_equal. destruct rm; [reflexivity|]. rewrite osids_cons. unfold is_open. rewrite B1. reflexivity.
      * split; [intros s Hi; destruct (I3 s Hi); [left; assumption|right; right; assumption]|].
        split; [intros s Hi; destruct rm; [right; apply I4; exact Hi|destruct Hi as [Hi|Hi]; [left; congruence|right; apply I4; exact Hi]]|].
        intros Hnd. inversion Hnd as [|? ? Hn1 Hd1]; subst. destruct rm; [apply I5; exact Hd1|].
        cbn [asids map]. constructor; [rewrite Hs; intros Hi; apply Hn1; apply I4; exact Hi|apply I5; exact Hd1].
    + cbn [negb andb app] in *.
      destruct (both_closed c1) eqn:Eb1.
      * rewrite zremove_mid in R1 by exact Hn.
        destruct (IH x1 pre (rc_sid c :: done) (NoDup_remove_1 _ _ _ Hn)) as [evs [d' [I1 [I2 [I3 [I4 I5]]]]]].
        exists (evs1 ++ evs), d'. split; [rewrite I1, Ev1, app_assoc; reflexivity|]. split.
        -- rewrite lrun_app, R1, I2. f_equal. f_equal. f_equal. destruct rm; [reflexivity|]. rewrite osids_cons. unfold is_open. rewrite Eb1. reflexivity.
        -- split; [intros s Hi; destruct (I3 s Hi) as [[E|H]|H]; [right; left; exact E|left; exact H|right; right; exact H]|].
           split; [intros s Hi; destruct rm; [right; apply I4; exact Hi|destruct Hi as [Hi|Hi]; [left; congruence|right; apply I4; exact Hi]]|].
           intros Hnd. inversion Hnd as [|? ? Hn1 Hd1]; subst. destruct rm; [apply I5; exact Hd1|].
           cbn [asids map]. constructor; [rewrite Hs; intros Hi; apply Hn1; apply I4; exact Hi|apply I5; exact Hd1].
      * assert (Hrm : rm = false). { destruct rm; [specialize (K2 eq_refl); congruence|reflexivity]. } subst rm.
        assert (Hn' : NoDup ((pre ++ [rc_sid c]) ++ osids l)) by (rewrite <- app_assoc; exact Hn).
        destruct (IH x1 (pre ++ [rc_sid c]) done Hn') as [evs [d' [I1 [I2 [I3 [I4 I5]]]]]].
        repeat rewrite <- app_assoc in I2. cbn [app] in I2.
        exists (evs1 ++ evs), d'. split; [rewrite I1, Ev1, app_assoc; reflexivity|]. split.
        -- rewrite lrun_app, R1, I2. rewrite osids_cons. unfold is_open. rewrite Eb1, Hs. reflexivity.
        -- split; [intros s Hi; destruct (I3 s Hi); [left; assumption|right; right; assumption]|].
           split; [intros s [Hi|Hi]; [left; congruence|right; apply I4; exact Hi]|].
           intros Hnd. inversion Hnd as [|? ? Hn1 Hd1]; subst.
           cbn [asids map]. constructor; [rewrite Hs; intros Hi; apply Hn1; apply I4; exact Hi|apply I5; exact Hd1].
Qed.

Lemma NoDup_snocZ : forall (l : list Z) x, NoDup l -> ~ In x l -> NoDup (l ++ [x]).
Proof. intros l x H Hn. apply (NoDup_Add (Add_app x l [])). rewrite app_nil_r. split; assumption. Qed.

(* the state after a call is dead (the model panicked) or related to the log *)
Definition J (st : rstate) (ls : lstate) : Prop := rs_dead st = true \/ rlinv st ls.

Lemma rassemble_log : forall st ls k dir seq syn fin rst len ts, rlinv st ls ->
  exists ls', lrun ls (ro_ev (snd (rassemble v st k dir seq syn fin rst len ts))) = Some ls' /\
              J (fst (rassemble v st k dir seq syn fin rst len ts)) ls'.
Proof.
  intros st ls k dir seq syn fin rst len ts [Ho [Hn Hb]]. unfold rassemble.
  destruct (rsplit_key k (rs_conns st)) as [[[pre c] post]|] eqn:Es.
  - apply rsplit_key_spec in Es. rewrite Es in Ho, Hn, Hb.
    destruct (assemble_conn v (rs_cfg st) c (Bool.eqb dir (rc_dir c)) (mkCtx (rs_used st) [] false) seq syn fin rst len ts) as [[c1 rm] x1] eqn:Ea.
    destruct (assemble_conn_emits _ _ _ _ _ _ _ _ _ _ _ _ _ _ Ea) as [[Hs [evs [Ev Sh]]] K2]. cbn [x_ev app] in Ev.
    rewrite osids_app, osids_cons in Ho. unfold is_open in Ho. rewrite asids_app in Hn. cbn [asids map] in Hn. fold (asids post) in Hn.
    assert (Hno : NoDup (osids pre ++ (if negb (both_closed c) then [rc_sid c] else []) ++ osids post)).
    { pose proof (osids_nodup (pre ++ c :: post)) as N. rewrite asids_app in N. cbn [asids map] in N.
      specialize (N Hn). rewrite osids_app, osids_cons in N. exact N. }
    assert (Hin : both_closed c = false -> In (rc_sid c) (l_open ls)).
    { intros E. rewrite Ho, E. cbn [negb]. apply in_or_app. right. left. reflexivity. }
    pose proof (shape_run _ _ _ _ ls Sh Hin) as Run.
    destruct (x_panic x1); cbn [fst snd ro_ev]; rewrite Ev.
    { eexists. split; [exact Run|left; reflexivity]. }
    eexists. split; [exact Run|right].
    assert (Hn1 : NoDup (asids (pre ++ c1 :: post))) by (rewrite asids_app; cbn [asids map]; rewrite Hs; exact Hn).
    assert (Hn2 : NoDup (asids (pre ++ post))) by (rewrite asids_app; eapply NoDup_remove_1; exact Hn).
    assert (Hsub : forall l', (forall s, In s (asids l') -> In s (asids (pre ++ c :: post))) ->
              forall s, In s (l_open ls) \/ In s (l_done ls) \/ In s (asids l') -> s <= rs_nstreams st).
    { intros l' Hl s [H|[H|H]]; apply Hb; [left; exact H|right; left; exact H|right; right; apply Hl; exact H]. }
    assert (Sub1 : forall s, In s (asids (pre ++ c1 :: post)) -> In s (asids (pre ++ c :: post))).
    { intros s. rewrite !asids_app. cbn [asids map]. rewrite Hs. auto. }
    assert (Sub2 : forall s, In s (asids (pre ++ post)) -> In s (asids (pre ++ c :: post))).
    { intros s. rewrite !asids_app. cbn [asids map]. intros H. apply in_app_or in H. apply in_or_app. destruct H; [left|right; right]; assumption. }
    unfold after_shape, rlinv. cbn [rs_conns rs_nstreams].
    destruct (both_closed c) eqn:Eb; cbn [negb andb app] in *.
    + cbn in Sh. destruct Sh as [_ B1].
      destruct rm; (split; [rewrite Ho; rewrite !osids_app, ?osids_cons; unfold is_open; rewrite ?B1; reflexivity|]);
        (split; [assumption|]); [apply Hsub; exact Sub2|apply Hsub; exact Sub1].
    + destruct (both_closed c1) eqn:Eb1; cbn [l_open l_done].
      * rewrite Ho. rewrite zremove_mid by exact Hno.
        assert (Hd : forall l', (forall s, In s (asids l') -> In s (asids (pre ++ c :: post))) ->
                 forall s, In s (osids pre ++ osids post) \/ In s (rc_sid c :: l_done ls) \/ In s (asids l') -> s <= rs_nstreams st).
        { intros l' Hl s [H|[[H|H]|H]]; apply Hb.
          - left. rewrite Ho. apply in_app_or in H. apply in_or_app. destruct H; [left; assumption|right; right; assumption].
          - right. right. rewrite asids_app. apply in_or_app. right. left. exact H.
          - right. left. exact H.
          - right. right. apply Hl. exact H. }
        destruct rm; (split; [rewrite !osids_app, ?osids_cons; unfold is_open; rewrite ?Eb1; reflexivity|]);
          (split; [assumption|]); [apply Hd; exact Sub2|apply Hd; exact Sub1].
      * assert (Hrm : rm = false). { destruct rm; [specialize (K2 eq_refl); congruence|reflexivity]. } subst rm.
        split; [rewrite Ho; rewrite !osids_app, osids_cons; unfold is_open; rewrite Eb1, Hs; reflexivity|].
        split; [assumption|apply Hsub; exact Sub1].
  - set (sid := rs_nstreams st + 1).
    destruct (if rs_free st <=? 0 then (rs_alloc st - 1, 2 * rs_alloc st) else (rs_free st - 1, rs_alloc st)) as [free1 alloc1].
    set (c := mkRC k dir sid 0 (new_half ts) (new_half ts)).
    destruct (assemble_conn v (rs_cfg st) c true (mkCtx (rs_used st) [] false) seq syn fin rst len ts) as [[c1 rm] x1] eqn:Ea.
    destruct (assemble_conn_emits _ _ _ _ _ _ _ _ _ _ _ _ _ _ Ea) as [[Hs [evs [Ev Sh]]] K2]. cbn [rc_sid c x_ev app] in Hs, Ev, Sh.
    assert (Hf1 : ~ In sid (l_open ls)) by (intros Hi; specialize (Hb sid (or_introl Hi)); unfold sid in Hb; lia).
    assert (Hf2 : ~ In sid (l_done ls)) by (intros Hi; specialize (Hb sid (or_intror (or_introl Hi))); unfold sid in Hb; lia).
    assert (Hf3 : ~ In sid (asids (rs_conns st))) by (intros Hi; specialize (Hb sid (or_intror (or_intror Hi))); unfold sid in Hb; lia).
    set (ls1 := mkL (l_open ls ++ [sid]) (l_done ls)).
    assert (Hbc : both_closed c = false) by reflexivity. rewrite Hbc in Sh.
    assert (Run : lrun ls (ENew sid :: evs) = Some (after_shape sid false (both_closed c1) ls1)).
    { cbn [lrun lstep]. pose proof Hf1 as Z1. pose proof Hf2 as Z2. apply zmem_false in Z1. apply zmem_false in Z2. rewrite Z1, Z2. cbn [orb].
      fold ls1. apply shape_run; [exact Sh|]. intros _. cbn [ls1 l_open]. apply in_or_app. right. left. reflexivity. }
    destruct (x_panic x1); cbn [fst snd ro_ev]; rewrite Ev.
    { eexists. split; [exact Run|left; reflexivity]. }
    eexists. split; [exact Run|right]. unfold after_shape, rlinv. cbn [negb andb rs_conns rs_nstreams].
    assert (Hn1 : NoDup (l_open ls ++ [sid])) by (apply NoDup_snocZ; [rewrite Ho; apply osids_nodup; exact Hn|exact Hf1]).
    assert (Hbd : forall s, In s (l_open ls) \/ In s (l_done ls) \/ In s (asids (rs_conns st)) -> s <= sid).
    { intros s H. specialize (Hb s H). unfold sid. lia. }
    destruct (both_closed c1) eqn:Eb1.
    + unfold ls1. cbn [l_open l_done]. rewrite zremove_mid by exact Hn1. rewrite app_nil_r.
      destruct rm.
      * split; [exact Ho|]. split; [exact Hn|]. intros s [H|[[H|H]|H]]; [apply Hbd; auto|unfold sid in *; lia|apply Hbd; auto|apply Hbd; auto].
      * split; [rewrite osids_app, osids_cons; unfold is_open; rewrite Eb1; cbn [negb app]; rewrite app_nil_r; exact Ho|].
        split; [rewrite asids_app; cbn [asids map]; rewrite Hs; apply NoDup_snocZ; assumption|].
        intros s [H|[[H|H]|H]]; [apply Hbd; auto|unfold sid in *; lia|apply Hbd; auto|].
        rewrite asids_app in H. apply in_app_or in H. destruct H as [H|[H|[]]]; [apply Hbd; auto|unfold sid in *; lia].
    + assert (Hrm : rm = false). { destruct rm; [specialize (K2 eq_refl); congruence|reflexivity]. } subst rm.
      unfold ls1. cbn [l_open l_done].
      split; [rewrite osids_app, osids_cons; unfold is_open; rewrite Eb1, Hs; change (osids []) with (@nil Z); cbn [negb app]; rewrite Ho; reflexivity|].
      split; [rewrite asids_app; cbn [asids map]; rewrite Hs; apply NoDup_snocZ; assumption|].
      intros s [H|[H|H]].
      * apply in_app_or in H. destruct H as [H|[H|[]]]; [apply Hbd; auto|unfold sid in *; lia].
      * apply Hbd; auto.
      * rewrite asids_app in H. apply in_app_or in H. destruct H as [H|[H|[]]]; [apply Hbd; auto|unfold sid in *; lia].
Qed.

Lemma rflush_with_log : forall f st ls fa, fspec f -> rlinv st ls ->
  exists ls', lrun ls (ro_ev (snd (rflush_with f st fa))) = Some ls' /\ J (fst (rflush_with f st fa)) ls'.
Proof.
  intros f st ls fa Hf [Ho [Hn Hb]]. unfold rflush_with.
  destruct (rflush_conns_log f Hf (rs_conns st) (mkCtx (rs_used st) [] false) [] (l_done ls) (osids_nodup _ Hn))
    as [evs [d' [I1 [I2 [I3 [I4 I5]]]]]].
  cbn [x_ev app] in I1, I2.
  assert (Run : lrun ls evs = Some (mkL (osids (ra_keep (rflush_conns f (rs_conns st) (mkCtx (rs_used st) [] false)))) d')).
  { destruct ls as [o d]. cbn [l_open l_done] in *. subst o. exact I2. }
  destruct (x_panic (ra_x (rflush_conns f (rs_conns st) (mkCtx (rs_used st) [] false)))); cbn [fst snd ro_ev]; rewrite I1.
  { eexists. split; [exact Run|left; reflexivity]. }
  eexists. split; [exact Run|right].
  unfold rlinv. cbn [rs_conns rs_nstreams l_open l_done]. split; [reflexivity|]. split; [apply I5; exact Hn|].
  intros s [H|[H|H]].
  - apply Hb. right. right. apply I4. apply osids_in_asids. exact H.
  - destruct (I3 s H) as [H1|H1]; apply Hb; [right; left; exact H1|right; right; exact H1].
  - apply Hb. right. right. apply I4. exact H.
Qed.

Lemma rstep_log : forall st ls o, J st ls ->
  exists ls', lrun ls (ro_ev (snd (rstep v st o))) = Some ls' /\ J (fst (rstep v st o)) ls'.
Proof.
  intros st ls o [Hd|L]; unfold rstep.
  - rewrite Hd. exists ls. split; [reflexivity|left; exact Hd].
  - destruct (rs_dead st) eqn:Hd; [exists ls; split; [reflexivity|left; exact Hd]|]. destruct o.
    + apply rassemble_log. exact L.
    + apply rflush_with_log; [|exact L]. intros c x c' rm x' a b Hf. eapply (flush_conn_emits v (rs_cfg st)); exact Hf.
    + apply rflush_with_log; [|exact L]. intros c x c' rm x' a b Hf. eapply (flush_all_conn_emits v (rs_cfg st)); exact Hf.
Qed.

Lemma rrun_log : forall ops st ls, J st ls ->
  exists ls', lrun ls (snd (rrun_state v st ops)) = Some ls' /\ J (fst (rrun_state v st ops)) ls'.
Proof.
  induction ops as [|o ops IH]; intros st ls HJ; cbn [rrun_state].
  - exists ls. split; [reflexivity|exact HJ].
  - destruct (rstep_log st ls o HJ) as [ls1 [R1 J1]]. destruct (rstep v st o) as [st' ou]. cbn [fst snd] in *.
    destruct (IH st' ls1 J1) as [ls2 [R2 J2]]. destruct (rrun_state v st' ops) as [st2 ev]. cbn [fst snd] in *.
    exists ls2. split; [rewrite lrun_app, R1; exact R2|exact J2].
Qed.
End Pool.

(* C11_once for reassembly, every variant, every history -- also those on which the model
   panics: the callback log is accepted by the lifecycle automaton; and as long as no call has
   panicked the streams still open are exactly those of the connections not yet closed in both
   directions *)
Lemma r_once_total : forall v cfg ops,
  exists ls, lrun l0 (snd (rrun_state v (rinit cfg) ops)) = Some ls /\
             (rs_dead (fst (rrun_state v (rinit cfg) ops)) = false ->
              l_open ls = osids (rs_conns (fst (rrun_state v (rinit cfg) ops)))).
Proof.
  intros v cfg ops.
  assert (L0 : J (rinit cfg) l0).
  { right. unfold rlinv, rinit, l0. cbn. split; [reflexivity|]. split; [constructor|]. intros s [[]|[[]|[]]]. }
  destruct (rrun_log v ops _ _ L0) as [ls [R HJ]].
  exists ls. split; [exact R|]. intros Hd. destruct HJ as [HJ|[Ho _]]; [congruence|exact Ho].
Qed.

Lemma r_once : forall v cfg ops, v_saved v = true -> v_hpages v = true ->
  rs_dead (fst (rrun_state v (rinit cfg) ops)) = false ->
  exists ls, lrun l0 (snd (rrun_state v (rinit cfg) ops)) = Some ls /\
             l_open ls = osids (rs_conns (fst (rrun_state v (rinit cfg) ops))).
Proof.
  intros v cfg ops _ _ Hd. destruct (r_once_total v cfg ops) as [ls [R Ho]]. exists ls. split; [exact R|exact (Ho Hd)].
Qed.
