(* Ldns — decoded messages are well formed (continuation of LdnsWf2.v) *)
From GP Require Import Base ListX N6Lib LdnsModel LdnsDec LdnsSer LdnsRt LdnsWf LdnsWf2.
From Coq Require Import Lia ZifyBool ZifyNat.
Ltac Zify.zify_post_hook ::= Z.div_mod_to_equations.
Open Scope Z_scope.

(* ---------------------------------------------------------------- a record without RDATA *)
Lemma base_wf ls0 t c ttl : Forall label_ok ls0 -> u16_ok t -> u16_ok c -> u32_ok ttl ->
  rr_encodable (rr_base ls0 t c ttl []) -> wf_rr (rr_base ls0 t c ttl []).
Proof.
  intros Hok0 Ht Hc Httl Henc. rewrite rr_base_explicit in *. unfold rr_encodable in Henc. projs_in Henc. destruct Henc as [Hf Henc].
  unfold wf_rr. exists ls0, [], []. projs. unfold wf_rdata. projs. rewrite ?meta_of_nil. unfold u16_ok, u32_ok in *.
  assert (Hl0 : labels_okP ls0) by (apply fits_labels_okP; assumption).
  assert (Hn : name_fits []) by (unfold name_fits; cbn; lia).
  assert (Tk : txt_ok []) by (split; [cbn; lia|constructor]).
  repeat match type of Henc with (if ?cnd then _ else _) => destruct cnd end;
    try contradiction; try (cbn in Henc; lia);
    cbn [soa0 srv0 mx0 naptr0 rrsig0 dnskey0 svcb0 uri0 so_mname so_rname so_serial so_refresh so_retry so_expire so_minimum
         sv_prio sv_weight sv_port sv_name mx_pref mx_name na_order na_pref na_flags na_service na_regexp na_repl
         sg_covered sg_alg sg_labels sg_ottl sg_exp sg_inc sg_tag sg_signer sg_sig dk_flags dk_proto dk_alg dk_key
         sb_prio sb_target sb_params u_prio u_weight u_target join];
    repeat split; try lia; try assumption; try apply Hl0; try exact labels_okP_nil; try reflexivity; try constructor; try (cbn; lia).
Qed.


(* ---------------------------------------------------------------- one record, one question *)
Lemma rr_decode_wf data offset buf r off' buf' : bytes_ok data -> 0 <= offset ->
  rr_decode data offset buf = Ok (r, off', buf') -> rr_encodable r -> wf_rr r.
Proof.
  intros Hb H0 H Henc. unfold rr_decode in H.
  pose proof (decode_name_labels data offset buf Hb) as Pn. pose proof (decode_name_good data offset buf Hb) as Gn.
  destruct (decode_name data offset buf) as [name l endq buf1|?|?]; try discriminate.
  destruct Pn as (ls0 & Hok0 & _ & -> & ->). cbn in Gn.
  destruct (n6_len data <? endq + 10) eqn:E10; [discriminate|].
  destruct (rd16 data endq) as [t|?|?] eqn:Et; cbn [obind] in H; try discriminate.
  destruct (rd16 data (endq + 2)) as [c|?|?] eqn:Ec; cbn [obind] in H; try discriminate.
  destruct (rd32 data (endq + 4)) as [ttl|?|?] eqn:Ettl; cbn [obind] in H; try discriminate.
  destruct (rd16 data (endq + 8)) as [dl|?|?] eqn:Edl; cbn [obind] in H; try discriminate.
  pose proof (rd16_range _ _ _ Hb Et) as Rt. pose proof (rd16_range _ _ _ Hb Ec) as Rc.
  pose proof (rd32_range _ _ _ Hb Ettl) as Rttl. pose proof (rd16_range _ _ _ Hb Edl) as Rdl.
  destruct (endq + 10 + dl >? n6_len data) eqn:Eend; [discriminate|].
  destruct (rdsl data (endq + 10) (endq + 10 + dl)) as [rdata|?|?] eqn:Erd; cbn [obind] in H; try discriminate.
  destruct (rdsl_inv _ _ _ _ Hb Erd) as (Hrdb & Hrdl & _ & _).
  assert (Edl' : dl = n6_len rdata) by lia. subst dl. fold (rr_base ls0 t c ttl rdata) in H.
  destruct (0 <? n6_len rdata) eqn:Epos.
  - destruct (rdsl data 0 (endq + 10 + n6_len rdata)) as [dpre|?|?] eqn:Edp; cbn [obind] in H; try discriminate.
    destruct (rdsl_inv _ _ _ _ Hb Edp) as (Hdpb & Hdpl & _ & _).
    destruct (decode_rdata (rr_base ls0 t c ttl rdata) dpre (endq + 10) buf1) as [[r' buf2]|?|?] eqn:Edec; cbn [obind] in H; try discriminate.
    apply Ok_inj in H. injection H as <- _ _.
    eapply (decode_rdata_wf ls0 t c ttl rdata dpre (endq + 10) buf1 r' buf2); eauto; try lia.
  - apply Ok_inj in H. injection H as <- _ _.
    assert (rdata = []) as -> by (destruct rdata; [reflexivity|cbn in Epos, Hrdl; lens; lia]).
    apply base_wf; assumption.
Qed.

Lemma q_decode_wf data offset buf q off' buf' : bytes_ok data ->
  q_decode data offset buf = Ok (q, off', buf') -> name_fits (q_name q) -> wf_q q.
Proof.
  intros Hb H Hf. unfold q_decode in H.
  pose proof (decode_name_labels data offset buf Hb) as Pn.
  destruct (decode_name data offset buf) as [name l endq buf1|?|?]; try discriminate.
  destruct Pn as (ls0 & Hok0 & _ & -> & ->).
  destruct (n6_len data <? endq + 4); [discriminate|].
  destruct (rd16 data endq) as [t|?|?] eqn:Et; cbn [obind] in H; try discriminate.
  destruct (rd16 data (endq + 2)) as [c|?|?] eqn:Ec; cbn [obind] in H; try discriminate.
  apply Ok_inj in H. injection H as <- _ _. cbn [q_name] in Hf.
  exists ls0. cbn [q_name q_type q_class q_meta]. split; [apply fits_labels_okP; assumption|].
  pose proof (rd16_range _ _ _ Hb Et). pose proof (rd16_range _ _ _ Hb Ec). repeat split; try reflexivity; lia.
Qed.

(* ---------------------------------------------------------------- the loops *)
Lemma q_loop_wf data : bytes_ok data -> forall n offset buf acc qs r,
  q_loop data n offset buf acc = (qs, Ok r) ->
  exists new, qs = acc ++ new /\ length new = n /\ Forall (fun q => name_fits (q_name q) -> wf_q q) new.
Proof.
  intros Hb. induction n as [|n IH]; intros offset buf acc qs r H; cbn [q_loop] in H.
  - injection H as <- _. exists []. rewrite app_nil_r. repeat split. constructor.
  - destruct (q_decode data offset buf) as [[[q off'] buf']|?|?] eqn:Eq; try (injection H; discriminate).
    apply IH in H. destruct H as (new & -> & Hl & Hf). exists (q :: new). rewrite <- app_assoc. repeat split; [cbn; lia|].
    constructor; [|exact Hf]. intros Hfit. exact (q_decode_wf data offset buf q off' buf' Hb Eq Hfit).
Qed.

Lemma rr_loop_wf data ext : bytes_ok data -> forall n offset buf acc rc rs rc' r, 0 <= offset ->
  rr_loop data ext n offset buf acc rc = (rs, rc', Ok r) ->
  exists new, rs = acc ++ new /\ length new = n /\ Forall (fun x => rr_encodable x -> wf_rr x) new /\
              rc' = ext_rcode ext rc new /\ 0 <= fst r.
Proof.
  intros Hb. induction n as [|n IH]; intros offset buf acc rc rs rc' r H0 H; cbn [rr_loop] in H.
  - injection H as <- <- <-. exists []. rewrite app_nil_r. repeat split; [constructor|destruct ext; reflexivity|cbn; lia].
  - pose proof (rr_decode_good data offset buf Hb H0) as G.
    destruct (rr_decode data offset buf) as [[[x off'] buf']|?|?] eqn:Ex; try (injection H; discriminate).
    apply IH in H; [|lia]. destruct H as (new & -> & Hl & Hf & Hrc & Hr). exists (x :: new). rewrite <- app_assoc.
    split; [reflexivity|]. split; [cbn [length]; lia|].
    split; [constructor; [intros Henc; exact (rr_decode_wf data offset buf x off' buf' Hb H0 Ex Henc)|exact Hf]|].
    split; [rewrite Hrc; destruct ext; reflexivity|exact Hr].
Qed.

(* ---------------------------------------------------------------- the message *)
Definition dns_encodable (d : dns) : Prop :=
  Forall (fun q => name_fits (q_name q)) (d_questions d) /\
  Forall rr_encodable (d_answers d) /\ Forall rr_encodable (d_authorities d) /\ Forall rr_encodable (d_additionals d).

Lemma u8_land x : u8 x = Z.land x 255.
Proof. unfold u8. change 255 with (Z.ones 8). rewrite Z.land_ones by lia. reflexivity. Qed.

Lemma ext_low rc x : 0 <= rc < 256 ->
  0 <= Z.lor (u8 rc) (u8 (Z.land x 240)) < 256 /\ Z.land (Z.lor (u8 rc) (u8 (Z.land x 240))) 15 = Z.land rc 15.
Proof.
  intros H. rewrite !u8_land. split.
  - rewrite <- Z.land_lor_distr_l. change 255 with (Z.ones 8). rewrite Z.land_ones by lia. change (2 ^ 8) with 256. lia.
  - rewrite Z.land_lor_distr_l. rewrite <- !Z.land_assoc. change (Z.land 255 15) with 15. change (Z.land 240 15) with 0.
    rewrite Z.land_0_r, Z.lor_0_r. reflexivity.
Qed.

Lemma ext_fold_low : forall rs rc, 0 <= rc < 256 ->
  0 <= fold_left ext_step rs rc < 256 /\ Z.land (fold_left ext_step rs rc) 15 = Z.land rc 15.
Proof.
  induction rs as [|r t IH]; intros rc H; cbn [fold_left]; [split; [exact H|reflexivity]|].
  assert (S1 : 0 <= ext_step rc r < 256 /\ Z.land (ext_step rc r) 15 = Z.land rc 15).
  { unfold ext_step. destruct (r_type r =? T_OPT); [apply ext_low, H|split; [exact H|reflexivity]]. }
  destruct S1 as [R L]. destruct (IH _ R) as [R2 L2]. split; [exact R2|]. rewrite L2. exact L.
Qed.

Lemma Forall_mp {A} (P Q : A -> Prop) l : Forall (fun x => P x -> Q x) l -> Forall P l -> Forall Q l.
Proof. induction 1 as [|x t H _ IH]; intros HP; [constructor|]. inversion HP; subst. constructor; auto. Qed.

Lemma land_range x k : 0 <= k -> 0 <= Z.land x (Z.ones k) < 2 ^ k.
Proof. intros. rewrite Z.land_ones by lia. apply Z.mod_pos_bound. apply Z.pow_pos_nonneg; lia. Qed.

(* every value a successful decode produces is well formed as soon as it is encodable at all *)
Theorem decoded_wf data d : bytes_ok data ->
  decode_into dns_fresh data = (d, Ok tt, false) -> dns_encodable d -> dns_wf d.
Proof.
  intros Hb H (Eq & Ea & En & Er). unfold decode_into in H.
  destruct (n6_len data <? 12) eqn:E12; [discriminate|].
  destruct (hdr_reads data ltac:(lia)) as (b2 & b3 & sid & sqd & san & sns & sar & H2 & H3 & Hid & Hqd & Han & Hns & Har).
  rewrite H2, H3, Hid, Hqd, Han, Hns, Har in H.
  destruct (slice_inv _ _ _ _ Hb Hid) as [Bid Lid]. destruct (slice_inv _ _ _ _ Hb Hqd) as [Bqd Lqd].
  destruct (slice_inv _ _ _ _ Hb Han) as [Ban Lan]. destruct (slice_inv _ _ _ _ Hb Hns) as [Bns Lns]. destruct (slice_inv _ _ _ _ Hb Har) as [Bar Lar].
  assert (R2 : forall s, bytes_ok s -> n6_len s = 2 -> 0 <= be_val s < 65536).
  { intros s Bs Ls. pose proof (be_val_bound s Bs) as P. unfold n6_len in Ls. replace (Z.of_nat (length s)) with 2 in P by lia. exact P. }
  pose proof (R2 _ Bid ltac:(lia)) as Rid. pose proof (R2 _ Bqd ltac:(lia)) as Rqd. pose proof (R2 _ Ban ltac:(lia)) as Ran.
  pose proof (R2 _ Bns ltac:(lia)) as Rns. pose proof (R2 _ Bar ltac:(lia)) as Rar.
  destruct (q_loop data (Z.to_nat (be_val sqd)) 12 [] []) as [qs [[off1 buf1]|?|?]] eqn:Lq; try discriminate.
  destruct (q_loop_wf data Hb _ _ _ _ _ _ Lq) as (nq & -> & Lnq & Fq). cbn [app] in *.
  pose proof (q_loop_np data Hb (Z.to_nat (be_val sqd)) 12 [] [] ltac:(lia)) as Gq. rewrite Lq in Gq. cbn [snd] in Gq.
  destruct (rr_loop data false (Z.to_nat (be_val san)) off1 buf1 [] (Z.land b3 15)) as [[ans rc1] [[off2 buf2]|?|?]] eqn:La; try discriminate.
  destruct (rr_loop_wf data false Hb _ _ _ _ _ _ _ _ Gq La) as (na & -> & Lna & Fa & _ & Ga). cbn [app fst] in *.
  destruct (rr_loop data false (Z.to_nat (be_val sns)) off2 buf2 [] (Z.land b3 15)) as [[aus rc2] [[off3 buf3]|?|?]] eqn:Ln; try discriminate.
  destruct (rr_loop_wf data false Hb _ _ _ _ _ _ _ _ Ga Ln) as (nn & -> & Lnn & Fn & _ & Gn). cbn [app fst] in *.
  destruct (rr_loop data true (Z.to_nat (be_val sar)) off3 buf3 [] (Z.land b3 15)) as [[ads rc3] [[off4 buf4]|?|?]] eqn:Lr; try discriminate.
  destruct (rr_loop_wf data true Hb _ _ _ _ _ _ _ _ Gn Lr) as (nr & -> & Lnr & Fr & Hrc & _). cbn [app fst] in *.
  repeat match type of H with context [if ?c then _ else _] => destruct c end; try discriminate.
  injection H as <-. cbn [d_questions d_answers d_authorities d_additionals] in *.
  unfold dns_wf. cbn [d_id d_opcode d_z d_rcode d_questions d_answers d_authorities d_additionals].
  assert (Rrc0 : 0 <= Z.land b3 15 < 16) by (change 15 with (Z.ones 4); apply (land_range b3 4); lia).
  cbn [ext_rcode] in Hrc. destruct (ext_fold_low nr (Z.land b3 15) ltac:(lia)) as [Rrc Lrc].
  split; [exact Rid|]. split; [change 15 with (Z.ones 4); apply (land_range _ 4); lia|].
  split; [change 7 with (Z.ones 3); apply (land_range _ 3); lia|].
  split.
  { rewrite Hrc, Lrc. change 15 with (Z.ones 4). rewrite !Z.land_ones by lia. rewrite Z.mod_mod by lia. reflexivity. }
  split; [exact (Forall_mp _ _ _ Fq Eq)|]. split; [exact (Forall_mp _ _ _ Fa Ea)|]. split; [exact (Forall_mp _ _ _ Fn En)|]. split; [exact (Forall_mp _ _ _ Fr Er)|].
  unfold zlen. rewrite Lnq, Lna, Lnn, Lnr. lia.
Qed.
