(* Lradiotap — the decoder given its reads; used by the round trip theorem for headers made of radiotap namespaces (uses the layout lemmas of LradiotapRt.v) *)
From GP Require Import Base ListX Codec MiscLib LradiotapModel LradiotapProofs LradiotapRt.
From Coq Require Import Lia ZifyBool ZifyNat.
Open Scope Z_scope.
Ltac Zify.zify_post_hook ::= Z.div_mod_to_equations.

(* the decoder on any data about which the reads are known *)
Lemma rt_decode_eval old data ver off p ps rvs o payload f q hdr :
  zlen data < 65535 -> 8 <= off <= zlen data -> 0 <= o + 4 < 65536 ->
  cd_idx data 0 = Ok ver -> rt_le16 data 2 = Ok off -> rt_le32 data 4 = Ok p ->
  rt_present_loop (length data) data (zlen data) 4 p [p] = (ps, Ok o) ->
  rt_ns_loop data ps true false (o + 4) [] [] = (rvs, [], Ok tt) ->
  cd_slc data off (zlen data) = Ok payload -> rt_flags0 rvs = Ok f -> rt_payload_of f payload = Ok q ->
  cd_slc data 0 off = Ok hdr ->
  rt_decode_into old data = (mkRt hdr q ver off ps rvs [], Ok tt, false).
Proof.
  intros Hn Ho Hu I0 L2 L4 PL NL SP FL PQ SC. unfold rt_decode_into.
  destruct (zlen data <? 65535) eqn:E1; [|lia].
  destruct (zlen data <? 8) eqn:E8; [lia|].
  rewrite I0. cbn [ml_bind]. rewrite cd_slc_ok by lia. cbn [ml_bind]. rewrite L2. cbn [ml_bind].
  destruct (off >? zlen data) eqn:E2; [lia|].
  rewrite cd_slc_ok by lia. cbn [ml_bind]. rewrite L4. cbn [ml_bind]. rewrite PL.
  rewrite u16_small by lia. rewrite firstn_all2 by (unfold zlen; lia). rewrite NL.
  rewrite SP. cbn [ml_bind]. rewrite FL. cbn [ml_bind]. rewrite PQ. cbn [ml_bind]. rewrite SC. cbn [ml_bind]. reflexivity.
Qed.

