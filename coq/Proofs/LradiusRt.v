(* Round trip of the RADIUS model: rad_decode_into (rad_serialize l) with FixLengths under rad_wf. *)
From GP Require Import Base ListX Codec MiscLib LradiusModel LradiusProofs.
From Coq Require Import Lia ZifyBool ZifyNat.
Open Scope Z_scope.
Ltac Zify.zify_post_hook ::= Z.div_mod_to_equations.

Definition ra_wf (a : rattr) : Prop := 0 <= ra_type a < 256 /\ 1 <= zlen (ra_value a) <= 253.
Definition ra_norm (a : rattr) : rattr := mkRa (ra_type a) (zlen (ra_value a) + 2) (ra_value a).
Definition ra_bytes (a : rattr) : list Z := rad_attr_bytes (zlen (ra_value a) + 2) a.

Definition rad_wf (l : radius) : Prop :=
  0 <= r_code l < 256 /\ 0 <= r_ident l < 256 /\ zlen (r_auth l) = 16 /\ bytes_ok (r_auth l) /\
  Forall ra_wf (r_attrs l) /\ 20 + rad_asum (r_attrs l) <= 4096.

Lemma rad_attrs_bytes_wf : forall l, Forall ra_wf l -> rad_attrs_bytes false true l = Some (concat (map ra_bytes l)).
Proof.
  induction l as [|a t IH]; intros W; [reflexivity|]. inversion W as [|? ? [Ht Hv] Wt]; subst.
  cbn [rad_attrs_bytes map concat]. unfold rad_attr_len. cbn [negb]. replace (253 <? zlen (ra_value a)) with false by lia.
  rewrite (IH Wt). reflexivity.
Qed.

Lemma ra_bytes_len a : zlen (ra_bytes a) = zlen (ra_value a) + 2.
Proof. unfold ra_bytes, rad_attr_bytes. rewrite zlen_app. change (zlen [ra_type a mod 256; _]) with 2. lia. Qed.

Lemma rad_concat_len l : zlen (concat (map ra_bytes l)) = rad_asum l.
Proof. induction l as [|a t IH]; [reflexivity|]. cbn [map concat]. rewrite zlen_app, ra_bytes_len, IH, rad_asum_cons. lia. Qed.

Lemma rad_loop_bytes : forall l fuel pre acc, Forall ra_wf l -> (length l < fuel)%nat ->
  rad_loop fuel (pre ++ concat (map ra_bytes l)) (zlen pre) acc = (acc ++ map ra_norm l, Ok tt).
Proof.
  induction l as [|a t IH]; intros fuel pre acc W Hf.
  - destruct fuel as [|f]; [cbn [length] in Hf; lia|]. cbn [map concat rad_loop]. rewrite !app_nil_r.
    replace (zlen pre =? zlen pre) with true by lia. reflexivity.
  - inversion W as [|? ? [Ht Hv] Wt]; subst. destruct fuel as [|f]; [cbn [length] in Hf; lia|].
    cbn [map concat]. set (rest := concat (map ra_bytes t)) in *. pose proof (zlen_nonneg rest) as Nr. pose proof (zlen_nonneg pre) as Np.
    pose proof (ra_bytes_len a) as La. set (v := ra_value a) in *. set (al := zlen v + 2) in *.
    set (d := pre ++ ra_bytes a ++ rest).
    assert (Hd : zlen d = zlen pre + al + zlen rest) by (unfold d; rewrite !zlen_app, La; lia).
    cbn [rad_loop]. fold d. rewrite Hd.
    replace (zlen pre + al + zlen rest =? zlen pre) with false by lia.
    replace (zlen pre + al + zlen rest - zlen pre <? 2) with false by lia.
    rewrite !cd_idx_ok by lia. cbn [obind].
    assert (N0 : nth (Z.to_nat (zlen pre)) d 0 = ra_type a mod 256).
    { unfold d. rewrite app_nth2 by (unfold zlen; lia). replace (Z.to_nat (zlen pre) - length pre)%nat with 0%nat by (unfold zlen; lia). reflexivity. }
    assert (N1 : nth (Z.to_nat (zlen pre + 1)) d 0 = al mod 256).
    { unfold d. rewrite app_nth2 by (unfold zlen; lia). replace (Z.to_nat (zlen pre + 1) - length pre)%nat with 1%nat by (unfold zlen; lia). reflexivity. }
    rewrite N0, N1. rewrite (Z.mod_small al) by lia. rewrite (Z.mod_small (ra_type a)) by lia.
    replace (zlen pre + al + zlen rest - zlen pre <? al) with false by lia.
    replace (al <? 2) with false by lia. replace (2 <? al) with true by lia.
    rewrite cd_slc_ok by lia.
    assert (S1 : slice d (Z.to_nat (zlen pre + 2)) (Z.to_nat (zlen pre + al)) = v).
    { unfold d, ra_bytes, rad_attr_bytes. fold v. rewrite <- app_assoc. rewrite (app_assoc pre).
      apply slice_at; rewrite ?app_length; cbn [length]; unfold al, zlen in *; lia. }
    rewrite S1.
    replace d with ((pre ++ ra_bytes a) ++ rest) by (unfold d; rewrite <- app_assoc; reflexivity).
    replace (zlen pre + al) with (zlen (pre ++ ra_bytes a)) by (rewrite zlen_app, La; lia).
    unfold rest. rewrite IH by (try assumption; cbn [length] in Hf; lia).
    rewrite <- app_assoc. reflexivity.
Qed.

Lemma rad_eap_norm l : rad_eap (map ra_norm l) = rad_eap l.
Proof. unfold rad_eap. rewrite map_map. reflexivity. Qed.

Lemma rad_roundtrip l csum junk bytes l' old :
  rad_wf l -> rad_serialize l [] true csum junk = (Ok bytes, l') ->
  l' = rad_l1 true l /\
  rad_decode_into old bytes =
    (mkRad bytes (rad_eap (r_attrs l)) (r_code l) (r_ident l) (20 + rad_asum (r_attrs l)) (r_auth l) (map ra_norm (r_attrs l)), Ok tt, false).
Proof.
  intros [Hc [Hi [Ha [Hab [Wa Hs]]]]]. unfold rad_serialize. rewrite rad_serialize_spec. unfold rad_ser_spec.
  assert (Ex : existsb (fun a => 255 <? zlen (ra_value a)) (r_attrs l) = false).
  { clear - Wa. induction Wa as [|a t [_ Hv] _ IH]; [reflexivity|]. cbn [existsb]. rewrite IH. lia. }
  rewrite Ex, (rad_attrs_bytes_wf _ Wa). rewrite app_nil_r. intros X.
  match type of X with (Ok ?b, ?x) = _ => assert (Eb : bytes = b) by congruence; assert (El : l' = x) by congruence end. clear X.
  split; [exact El|]. clear El l'.
  pose proof (rad_asum_nonneg (r_attrs l)) as Na. set (as_ := rad_asum (r_attrs l)) in *.
  set (ct := concat (map ra_bytes (r_attrs l))) in *.
  assert (Hct : zlen ct = as_) by apply rad_concat_len.
  assert (Elen : r_length (rad_l1 true l) = 20 + as_) by (cbn [rad_l1 r_length]; fold as_; lia). rewrite Elen in Eb.
  assert (Eau : rad_auth16 l = r_auth l).
  { unfold rad_auth16. rewrite firstn_app. replace (16 - length (r_auth l))%nat with 0%nat by (unfold zlen in Ha; lia).
    simpl (firstn 0 _). rewrite app_nil_r. apply firstn_all2. unfold zlen in Ha. lia. }
  rewrite Eau in Eb.
  set (h := ([r_code l mod 256; r_ident l mod 256] ++ cd_put16 (20 + as_)) ++ r_auth l) in *.
  assert (Lh : zlen h = 20) by (unfold h; rewrite !zlen_app, zlen_put16, Ha; reflexivity).
  assert (Hn : zlen bytes = 20 + as_) by (rewrite Eb, zlen_app, Lh, Hct; reflexivity).
  assert (Hnth : forall k, (k < 4)%nat -> nth k bytes 0 = nth k [r_code l mod 256; r_ident l mod 256; ((20 + as_) / 256) mod 256; (20 + as_) mod 256] 0).
  { intros k Hk. rewrite Eb. unfold h. cbn [cd_put16 app]. do 4 (destruct k as [|k]; [reflexivity|]). lia. }
  unfold rad_decode_into, rad_decode_gen. cbv zeta.
  replace (4096 <? zlen bytes) with false by lia. replace (zlen bytes <? 20) with false by lia.
  rewrite !cd_idx_ok by lia. rewrite cd_rd16_ok by lia. cbn [ml_bind].
  change (Z.to_nat 0) with 0%nat; change (Z.to_nat 1) with 1%nat; change (Z.to_nat 2) with 2%nat; change (Z.to_nat (2 + 1)) with 3%nat.
  rewrite !Hnth by lia. cbn [nth]. rewrite cd_put16_be by lia. rewrite (Z.mod_small (r_code l)), (Z.mod_small (r_ident l)) by lia.
  replace (4096 <? 20 + as_) with false by lia. replace (20 + as_ <? 20) with false by lia. replace (zlen bytes <? 20 + as_) with false by lia.
  replace (20 + as_ <? zlen bytes) with false by lia.
  rewrite cd_slc_ok by lia. cbn [ml_bind].
  assert (S0 : slice bytes (Z.to_nat 0) (Z.to_nat (20 + as_)) = bytes).
  { unfold slice. change (Z.to_nat 0) with 0%nat. cbn [skipn]. apply firstn_all2. unfold zlen in Hn. lia. }
  rewrite S0. rewrite cd_slc_ok by lia. cbn [ml_bind].
  assert (S1 : slice bytes (Z.to_nat 4) (Z.to_nat 20) = r_auth l).
  { rewrite Eb. unfold h. rewrite <- !app_assoc. rewrite (app_assoc [r_code l mod 256; r_ident l mod 256]).
    apply slice_at; [reflexivity|]. cbn [length app cd_put16]. unfold zlen in Ha. lia. }
  rewrite S1.
  destruct (zlen bytes =? 20) eqn:C20.
  - assert (as_ = 0) by lia. assert (r_attrs l = []).
    { destruct (r_attrs l) as [|a t] eqn:E; [reflexivity|]. unfold as_ in *. rewrite rad_asum_cons in *. inversion Wa as [|? ? [_ Hv] _]; subst.
      pose proof (rad_asum_nonneg t). lia. }
    rewrite H0 in *. cbn [map]. unfold rad_eap at 1. cbn [map concat]. rewrite H. reflexivity.
  - assert (L : rad_loop (S (length bytes)) bytes 20 [] = (map ra_norm (r_attrs l), Ok tt)).
    { pose proof (rad_loop_bytes (r_attrs l) (S (length (h ++ ct))) h [] Wa) as L0. fold ct in L0. rewrite Lh in L0. rewrite <- Eb in L0. apply L0.
      assert (B : forall l0, Forall ra_wf l0 -> 3 * Z.of_nat (length l0) <= rad_asum l0).
      { induction 1 as [|a t [_ Hv] _ IH]; [unfold rad_asum; cbn; lia|]. rewrite rad_asum_cons. cbn [length]. lia. }
      specialize (B _ Wa). fold as_ in B. unfold zlen in Hn. lia. }
    rewrite L. rewrite rad_eap_norm. reflexivity.
Qed.
