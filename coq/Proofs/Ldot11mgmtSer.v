(* Ldot11mgmt — serializer proofs: explicit output of both serializers (hence no panic, junk freedom), element round trip *)
From GP Require Import Base ListX Codec MiscLib Ldot11mgmtModel Ldot11mgmtProofs.
From Coq Require Import Lia ZifyBool ZifyNat.
Open Scope Z_scope.

Ltac zl := rewrite ?zlen_app, ?zlen_cons, ?zlen_nil; try lia.

Definition ie_len_of (l : ie) : Z := zlen (ie_info l) + zlen (ie_oui l) + (if ie_id l =? 255 then 1 else 0).
Definition ie_bytes (l : ie) : list Z :=
  (([ie_id l mod 256; ie_len_of l] ++ (if ie_id l =? 255 then [ie_ext l mod 256] else [])) ++ ie_oui l) ++ ie_info l.

Theorem ie_serialize_eq l payload fixl csum junk :
  ie_serialize l payload fixl csum junk =
  (if ie_len_of l >? 255 then Err 1 else Ok (ie_bytes l ++ payload), l).
Proof.
  unfold ie_serialize, ie_bytes, ie_len_of. cbv zeta.
  set (length := _ + _ + _). destruct (length >? 255) eqn:E; [reflexivity|].
  pose proof (zlen_nonneg (ie_info l)). pose proof (zlen_nonneg (ie_oui l)).
  assert (0 <= length) by (unfold length; destruct (ie_id l =? 255); lia).
  pose proof (ml_tile_init (2 + length) junk ltac:(lia)) as T.
  set (buf := cd_region (2 + length) junk) in *.
  destruct (ml_tile_wrc buf [] [ie_id l mod 256; length] (2 + length) 0 T eq_refl ltac:(zl)) as (b1 & E1 & T1).
  rewrite E1. cbn [obind]. clear E1.
  destruct (ie_id l =? 255) eqn:EX.
  - destruct (ml_tile_wrc b1 _ [ie_ext l mod 256] (2 + length) 2 T1 ltac:(zl) ltac:(zl)) as (b2 & E2 & T2). rewrite E2. cbn [obind].
    destruct (ml_tile_copy b2 _ (ie_oui l) (2 + length) 3 T2 ltac:(zl) ltac:(unfold length; zl)) as (b3 & E3 & T3). rewrite E3. cbn [obind].
    destruct (ml_tile_copy b3 _ (ie_info l) (2 + length) (3 + zlen (ie_oui l)) T3 ltac:(zl) ltac:(unfold length; zl)) as (b4 & E4 & T4).
    rewrite E4. rewrite (ml_tile_done _ _ _ T4 ltac:(unfold length; zl)). reflexivity.
  - cbn [obind].
    destruct (ml_tile_copy b1 _ (ie_oui l) (2 + length) 2 T1 ltac:(zl) ltac:(unfold length; zl)) as (b3 & E3 & T3). rewrite E3. cbn [obind].
    destruct (ml_tile_copy b3 _ (ie_info l) (2 + length) (2 + zlen (ie_oui l)) T3 ltac:(zl) ltac:(unfold length; zl)) as (b4 & E4 & T4).
    rewrite E4. rewrite (ml_tile_done _ _ _ T4 ltac:(unfold length; zl)). rewrite !app_nil_r. reflexivity.
Qed.

(* ---------------------------------------------------------------- bodies *)
Fixpoint mg_norms (ws : list Z) (vals : list (list Z)) : list Z :=
  match ws with [] => [] | w :: t => mg_norm w (hd [] vals) ++ mg_norms t (tl vals) end.

Lemma zlen_mg_norm w v : 0 <= w -> zlen (mg_norm w v) = w.
Proof. intros. unfold mg_norm, zlen. rewrite firstn_length, app_length, repeat_length. lia. Qed.

Lemma mg_ser_fields_tile : forall ws vals b pre n, widths_ok ws -> ml_tiled b pre n -> zlen pre + mg_total ws <= n ->
  exists b', mg_ser_fields ws vals b (zlen pre) = Ok b' /\ ml_tiled b' (pre ++ mg_norms ws vals) n.
Proof.
  induction ws as [|w t IH]; intros vals b pre n Hw T Hl.
  - exists b. cbn. rewrite app_nil_r. split; [reflexivity|exact T].
  - inversion Hw as [|? ? Hw1 Hw2]; subst. pose proof (mg_total_nonneg t Hw2).
    change (mg_total (w :: t)) with (w + mg_total t) in Hl. cbn [mg_ser_fields mg_norms].
    assert (N1 : zlen (mg_norm w (hd [] vals)) = w) by (apply zlen_mg_norm; lia).
    assert (A1 : zlen pre + zlen (mg_norm w (hd [] vals)) <= n) by lia.
    destruct (ml_tile_wrc b pre (mg_norm w (hd [] vals)) n (zlen pre) T eq_refl A1) as (b1 & E1 & T1).
    rewrite E1. cbn [obind].
    assert (A2 : zlen (pre ++ mg_norm w (hd [] vals)) + mg_total t <= n) by (rewrite zlen_app; lia).
    destruct (IH (tl vals) b1 (pre ++ mg_norm w (hd [] vals)) n Hw2 T1 A2) as (b2 & E2 & T2).
    rewrite zlen_app, N1 in E2. exists b2. split; [exact E2|]. rewrite app_assoc. exact T2.
Qed.

Lemma zlen_mg_norms : forall ws vals, widths_ok ws -> zlen (mg_norms ws vals) = mg_total ws.
Proof.
  induction ws as [|w t IH]; intros vals Hw; [reflexivity|]. inversion Hw; subst.
  cbn [mg_norms]. change (mg_total (w :: t)) with (w + mg_total t). rewrite zlen_app, zlen_mg_norm, IH by assumption. reflexivity.
Qed.

Theorem mg_serialize_eq ws l payload fixl csum junk : widths_ok ws ->
  mg_serialize ws l payload fixl csum junk = (Ok (mg_norms ws (mg_fields l) ++ payload), l).
Proof.
  intros Hw. unfold mg_serialize. pose proof (mg_total_nonneg ws Hw) as Hn.
  assert (A0 : zlen [] + mg_total ws <= mg_total ws) by (change (zlen []) with 0; lia).
  destruct (mg_ser_fields_tile ws (mg_fields l) (cd_region (mg_total ws) junk) [] (mg_total ws) Hw (ml_tile_init (mg_total ws) junk Hn) A0)
    as (b & E & T).
  change (zlen []) with 0 in E. rewrite E. rewrite (ml_tile_done _ _ _ T ltac:(cbn [app]; apply zlen_mg_norms; exact Hw)). reflexivity.
Qed.

(* ---------------------------------------------------------------- element round trip *)
Definition ie_wf (l : ie) : Prop :=
  bytes_ok (ie_info l) /\ bytes_ok (ie_oui l) /\ 0 <= ie_id l < 256 /\ 0 <= ie_ext l < 256 /\
  (if ie_id l =? 221 then zlen (ie_oui l) = 4 /\ ie_ext l = 0 else ie_oui l = [] /\ (ie_id l = 255 \/ ie_ext l = 0)) /\
  ie_len_of l <= 255.

Lemma slice_mid (pre m post : list Z) a b : a = zlen pre -> b = zlen pre + zlen m -> 
  cd_slc (pre ++ m ++ post) a b = Ok m.
Proof.
  intros -> ->. pose proof (zlen_nonneg pre). pose proof (zlen_nonneg m). pose proof (zlen_nonneg post).
  rewrite cd_slc_ok by zl. f_equal. apply slice_at; unfold zlen; lia.
Qed.

Lemma slice_head (pre post : list Z) b : b = zlen pre -> cd_slc (pre ++ post) 0 b = Ok pre.
Proof.
  intros ->. pose proof (zlen_nonneg pre). pose proof (zlen_nonneg post). rewrite cd_slc_ok by zl. f_equal.
  apply slice_from_start. unfold zlen. lia.
Qed.
Lemma slice_tail (pre post : list Z) a b : a = zlen pre -> b = zlen pre + zlen post -> cd_slc (pre ++ post) a b = Ok post.
Proof.
  intros -> ->. pose proof (zlen_nonneg pre). pose proof (zlen_nonneg post). rewrite cd_slc_ok by zl. f_equal.
  apply slice_to_end; unfold zlen; lia.
Qed.

Theorem ie_roundtrip l payload fixl csum junk bytes l' old :
  ie_wf l -> ie_serialize l payload fixl csum junk = (Ok bytes, l') ->
  exists d, ie_decode_into old bytes = (d, Ok tt, false) /\ ie_payload d = payload /\ ie_id d = ie_id l /\
    ie_oui d = ie_oui l /\ ie_info d = ie_info l /\ ie_ext d = ie_ext l /\ ie_len d = zlen bytes - zlen payload - 2 /\
    ie_contents d = ie_bytes l.
Proof.
  intros (Hi & Ho & Hid & Hext & Hsh & Hlen) E. rewrite ie_serialize_eq in E.
  destruct (ie_len_of l >? 255) eqn:EL; [lia|]. inversion E; subst bytes l'. clear E.
  pose proof (zlen_nonneg (ie_info l)) as Pi. pose proof (zlen_nonneg (ie_oui l)) as Po. pose proof (zlen_nonneg payload) as Pp.
  unfold ie_decode_into, ie_bytes. unfold ie_len_of in *.
  rewrite (Z.mod_small (ie_id l) 256) by lia. rewrite (Z.mod_small (ie_ext l) 256) by lia.
  destruct (ie_id l =? 255) eqn:EX.
  - (* extension element *)
    assert (ie_id l =? 221 = false) as E221 by lia. rewrite E221 in Hsh. destruct Hsh as (Houi & _). rewrite Houi in *. change (zlen []) with 0 in *.
    cbv beta iota. set (len := zlen (ie_info l) + 0 + 1) in *.
    match goal with |- context [cd_idx ?d 0] => set (data := d) end.
    assert (ED : data = [ie_id l; len; ie_ext l] ++ ie_info l ++ payload) by (unfold data; cbn [app]; rewrite ?app_nil_r, <- ?app_assoc; reflexivity).
    assert (Ln : zlen data = 3 + zlen (ie_info l) + zlen payload) by (rewrite ED; zl).
    destruct (zlen data <? 2) eqn:E2; [lia|].
    assert (N0 : nth (Z.to_nat 0) data 0 = ie_id l) by (rewrite ED; reflexivity).
    assert (N1 : nth (Z.to_nat 1) data 0 = len) by (rewrite ED; reflexivity).
    assert (N2 : nth (Z.to_nat 2) data 0 = ie_ext l) by (rewrite ED; reflexivity).
    rewrite (cd_idx_ok data 0), (cd_idx_ok data 1) by lia. cbn [ml_bind]. rewrite N0, N1.
    destruct (zlen data <? 2 + len) eqn:E3; [lia|]. rewrite E221, EX.
    destruct (zlen data <? 3) eqn:E4; [lia|].
    rewrite (cd_idx_ok data 2) by lia. cbn [ml_bind]. rewrite N2.
    destruct (3 >? 2 + len) eqn:E5; [lia|].
    assert (S1 : cd_slc data 3 (2 + len) = Ok (ie_info l)) by (rewrite ED; apply slice_mid; [reflexivity|unfold len; zl]).
    assert (S2 : cd_slc data 0 (2 + len) = Ok ([ie_id l; len; ie_ext l] ++ ie_info l)) by (rewrite ED, !app_assoc; apply slice_head; unfold len; zl).
    assert (S3 : cd_slc data (2 + len) (zlen data) = Ok payload) by (rewrite Ln, ED, !app_assoc; apply slice_tail; unfold len; zl).
    rewrite S1. cbn [ml_bind]. rewrite S2, S3. cbn [ml_bind].
    eexists. split; [reflexivity|]. cbn [ie_payload ie_id ie_oui ie_info ie_ext ie_len ie_contents].
    repeat split; try reflexivity; try (unfold len; lia); try (cbn [app]; rewrite ?app_nil_r, <- ?app_assoc; reflexivity).
  - destruct (ie_id l =? 221) eqn:E221.
    + (* vendor element *)
      destruct Hsh as (Houi & Hx).
      cbv beta iota. set (len := zlen (ie_info l) + zlen (ie_oui l) + 0) in *.
      match goal with |- context [cd_idx ?d 0] => set (data := d) end.
      assert (ED : data = [ie_id l; len] ++ ie_oui l ++ ie_info l ++ payload) by (unfold data; cbn [app]; rewrite ?app_nil_r, <- ?app_assoc; reflexivity).
      assert (Ln : zlen data = 2 + 4 + zlen (ie_info l) + zlen payload) by (rewrite ED; zl).
      destruct (zlen data <? 2) eqn:E2; [lia|].
      assert (N0 : nth (Z.to_nat 0) data 0 = ie_id l) by (rewrite ED; reflexivity).
      assert (N1 : nth (Z.to_nat 1) data 0 = len) by (rewrite ED; reflexivity).
      rewrite (cd_idx_ok data 0), (cd_idx_ok data 1) by lia. cbn [ml_bind]. rewrite N0, N1.
      destruct (zlen data <? 2 + len) eqn:E3; [lia|]. rewrite E221.
      destruct (zlen data <? 6) eqn:E4; [lia|].
      assert (S0 : cd_slc data 2 6 = Ok (ie_oui l)) by (rewrite ED; apply slice_mid; [reflexivity|zl]).
      rewrite S0. cbn [ml_bind]. destruct (6 >? 2 + len) eqn:E5; [lia|].
      assert (S1 : cd_slc data 6 (2 + len) = Ok (ie_info l)).
      { rewrite ED. rewrite (app_assoc [ie_id l; len]). apply slice_mid; [zl|unfold len; zl]. }
      assert (S2 : cd_slc data 0 (2 + len) = Ok (([ie_id l; len] ++ ie_oui l) ++ ie_info l)) by (rewrite ED, !app_assoc; apply slice_head; unfold len; zl).
      assert (S3 : cd_slc data (2 + len) (zlen data) = Ok payload) by (rewrite Ln, ED, !app_assoc; apply slice_tail; unfold len; zl).
      rewrite S1. cbn [ml_bind]. rewrite S2, S3. cbn [ml_bind].
      eexists. split; [reflexivity|]. cbn [ie_payload ie_id ie_oui ie_info ie_ext ie_len ie_contents].
      repeat split; try reflexivity; try (unfold len; lia); try (cbn [app]; rewrite ?app_nil_r, <- ?app_assoc; reflexivity).
    + (* ordinary element *)
      destruct Hsh as (Houi & Hx). rewrite Houi in *. change (zlen []) with 0 in *.
      assert (Hext0 : ie_ext l = 0) by lia.
      cbv beta iota. set (len := zlen (ie_info l) + 0 + 0) in *.
      match goal with |- context [cd_idx ?d 0] => set (data := d) end.
      assert (ED : data = [ie_id l; len] ++ ie_info l ++ payload) by (unfold data; cbn [app]; rewrite ?app_nil_r, <- ?app_assoc; reflexivity).
      assert (Ln : zlen data = 2 + zlen (ie_info l) + zlen payload) by (rewrite ED; zl).
      destruct (zlen data <? 2) eqn:E2; [lia|].
      assert (N0 : nth (Z.to_nat 0) data 0 = ie_id l) by (rewrite ED; reflexivity).
      assert (N1 : nth (Z.to_nat 1) data 0 = len) by (rewrite ED; reflexivity).
      rewrite (cd_idx_ok data 0), (cd_idx_ok data 1) by lia. cbn [ml_bind]. rewrite N0, N1.
      destruct (zlen data <? 2 + len) eqn:E3; [lia|]. rewrite E221, EX.
      assert (S1 : cd_slc data 2 (2 + len) = Ok (ie_info l)) by (rewrite ED; apply slice_mid; [reflexivity|unfold len; zl]).
      assert (S2 : cd_slc data 0 (2 + len) = Ok ([ie_id l; len] ++ ie_info l)) by (rewrite ED, !app_assoc; apply slice_head; unfold len; zl).
      assert (S3 : cd_slc data (2 + len) (zlen data) = Ok payload) by (rewrite Ln, ED, !app_assoc; apply slice_tail; unfold len; zl).
      rewrite S1. cbn [ml_bind]. rewrite S2, S3. cbn [ml_bind].
      eexists. split; [reflexivity|]. cbn [ie_payload ie_id ie_oui ie_info ie_ext ie_len ie_contents].
      repeat split; try reflexivity; try (unfold len; lia); try congruence; try (cbn [app]; rewrite ?app_nil_r, <- ?app_assoc; reflexivity).
Qed.

(* ---------------------------------------------------------------- body round trip *)
Lemma mg_norm_id w v : zlen v = w -> mg_norm w v = v.
Proof.
  intros <-. unfold mg_norm, zlen. rewrite Nat2Z.id. rewrite firstn_app, firstn_all, Nat.sub_diag. cbn [firstn]. apply app_nil_r.
Qed.

Lemma mg_norms_concat : forall ws fs, Forall2 (fun w v => zlen v = w) ws fs -> mg_norms ws fs = concat fs.
Proof. induction 1 as [|w v ws fs H _ IH]; [reflexivity|]. cbn [mg_norms hd tl concat]. rewrite mg_norm_id by exact H. rewrite IH. reflexivity. Qed.

Lemma mg_split_concat : forall ws fs, Forall2 (fun w v => zlen v = w) ws fs ->
  forall pre post, mg_split ws (pre ++ concat fs ++ post) (zlen pre) = Ok fs.
Proof.
  induction 1 as [|w v ws fs H _ IH]; intros pre post; [reflexivity|].
  cbn [mg_split concat]. rewrite <- (app_assoc v).
  rewrite (slice_mid pre v (concat fs ++ post)) by lia. cbn [obind].
  replace (pre ++ v ++ concat fs ++ post) with ((pre ++ v) ++ concat fs ++ post) by (rewrite <- app_assoc; reflexivity).
  replace (zlen pre + w) with (zlen (pre ++ v)) by (rewrite zlen_app; lia).
  rewrite IH. reflexivity.
Qed.

Theorem mg_roundtrip ws l payload fixl csum junk bytes l' old :
  widths_ok ws -> Forall2 (fun w v => zlen v = w) ws (mg_fields l) -> mg_serialize ws l payload fixl csum junk = (Ok bytes, l') ->
  exists d, mg_decode_into ws true old bytes = (d, Ok tt, false) /\ mg_fields d = mg_fields l /\ mg_payload d = payload /\ mg_contents d = bytes.
Proof.
  intros Hw HF E. rewrite mg_serialize_eq in E by exact Hw. inversion E; subst bytes l'. clear E.
  pose proof (zlen_mg_norms ws (mg_fields l) Hw) as LN. rewrite mg_norms_concat in * by exact HF.
  pose proof (mg_total_nonneg ws Hw). pose proof (zlen_nonneg payload).
  unfold mg_decode_into. rewrite zlen_app, LN.
  destruct (mg_total ws + zlen payload <? mg_total ws) eqn:E1; [lia|].
  pose proof (mg_split_concat ws (mg_fields l) HF [] payload) as SP. cbn [app] in SP. change (zlen []) with 0 in SP. rewrite SP. cbn [ml_bind].
  rewrite (slice_tail (concat (mg_fields l)) payload) by lia. cbn [ml_bind].
  eexists. split; [reflexivity|]. repeat split; reflexivity.
Qed.
