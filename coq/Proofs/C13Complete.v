(* C13: completeness of the IPv4 defragmenter model (repaired code): for every header, payload,
   8-aligned partition and arrival sequence (any order, any duplicates, interleaved with
   fragments of other keys) the outputs are None until the step at which the last missing
   fragment arrives, and then the original datagram.  Invariant of DESIGN.md Appendix A.4. *)
From GP Require Import Base C13Model C13Safety.
From Coq Require Import Lia ZifyBool ZifyNat Sorting.Sorted.
Open Scope Z_scope.

(* ---------------------------------------------------------------- the specification side *)
Record header := { h_src : Z; h_dst : Z; h_id : Z; h_ihl : Z; h_hdr : list Z }.

Definition mkfrag (h : header) (off : Z) (mf : bool) (pl : list Z) : frag :=
  {| f_src := h_src h; f_dst := h_dst h; f_id := h_id h; f_ihl := h_ihl h;
     f_len := 4 * h_ihl h + Z.of_nat (length pl); f_flags := if mf then 1 else 0; f_off := off;
     f_hdr := h_hdr h; f_payload := pl |}.

(* the fragments of a datagram cut into the given chunks, the first at offset off (units of 8) *)
Fixpoint frags_of (h : header) (off : Z) (chunks : list (list Z)) : list frag :=
  match chunks with
  | [] => []
  | c :: r => mkfrag h off (match r with [] => false | _ => true end) c
              :: frags_of h (off + Z.of_nat (length c) / 8) r
  end.

(* every chunk non-empty, every chunk but the last a multiple of 8 bytes *)
Fixpoint chunks_ok (chunks : list (list Z)) : Prop :=
  match chunks with
  | [] => True
  | c :: r => (0 < length c)%nat /\ (match r with [] => True | _ => Z.of_nat (length c) mod 8 = 0 end) /\ chunks_ok r
  end.

(* the reassembled datagram *)
Definition datagram (h : header) (payload : list Z) : frag :=
  {| f_src := h_src h; f_dst := h_dst h; f_id := h_id h; f_ihl := h_ihl h;
     f_len := 4 * h_ihl h + Z.of_nat (length payload); f_flags := 0; f_off := 0;
     f_hdr := h_hdr h; f_payload := payload |}.

Definition hkey (h : header) : key := (h_src h, h_dst h, h_id h).

(* ---------------------------------------------------------------- abstract properties of a fragment set *)
Definition fend (f : frag) : Z := 8 * f_off f + plen f.
Definition before (f g : frag) : Prop := fend f <= 8 * f_off g.
Fixpoint sumlen (l : list frag) : Z := match l with [] => 0 | f :: r => plen f + sumlen r end.

Fixpoint chain (l : list frag) (a b : Z) : Prop :=
  match l with
  | [] => a = b
  | f :: r => 8 * f_off f = a /\ chain r (a + plen f) b
  end.

Fixpoint mf_ok (l : list frag) : Prop :=
  match l with
  | [] => True
  | f :: r => match r with [] => f_flags f = 0 | _ => f_flags f = 1 end /\ mf_ok r
  end.

Record FProps (h : header) (F : list frag) (L : Z) : Prop := {
  fp_hdr : forall f, In f F -> key_of f = hkey h /\ f_ihl f = h_ihl h /\ f_hdr f = h_hdr h /\
                               f_len f = 4 * h_ihl h + plen f;
  fp_pos : forall f, In f F -> 0 < plen f;
  fp_chain : chain F 0 L;
  fp_mf : mf_ok F;
  fp_mf8 : forall f, In f F -> f_flags f = 1 -> 8 <= plen f;
  fp_maxoff : forall f, In f F -> f_off f <= 8183;
  fp_ihl : 5 <= h_ihl h;
  fp_L : 4 * h_ihl h + L <= 65535;
  fp_two : (2 <= length F)%nat
}.

Lemma plen_nonneg f : 0 <= plen f.
Proof. unfold plen. lia. Qed.

Lemma sumlen_nonneg l : 0 <= sumlen l.
Proof. induction l as [|x l IH]; cbn [sumlen]; [lia|]. pose proof (plen_nonneg x). lia. Qed.

Lemma chain_bounds l : forall a b, chain l a b -> (forall f, In f l -> 0 < plen f) ->
  a <= b /\ sumlen l = b - a /\ forall f, In f l -> a <= 8 * f_off f /\ fend f <= b.
Proof.
  induction l as [|g r IH]; intros a b Hc Hp; cbn [chain sumlen] in *.
  - subst. split; [lia|]. split; [lia|]. intros f [].
  - destruct Hc as [Ho Hc]. destruct (IH _ _ Hc (fun f Hf => Hp f (or_intror Hf))) as [H1 [H2 H3]].
    pose proof (Hp g (or_introl eq_refl)) as Hg.
    split; [lia|]. split; [lia|]. intros f [Hf|Hf].
    + subst f. unfold fend. lia.
    + destruct (H3 f Hf). lia.
Qed.

Lemma chain_sorted l : forall a b, chain l a b -> (forall f, In f l -> 0 < plen f) -> StronglySorted before l.
Proof.
  induction l as [|g r IH]; intros a b Hc Hp; [constructor|].
  cbn [chain] in Hc. destruct Hc as [Ho Hc]. constructor.
  - eapply IH; [exact Hc|]. intros f Hf. apply Hp. right. exact Hf.
  - apply Forall_forall. intros f Hf.
    destruct (chain_bounds _ _ _ Hc (fun f Hf => Hp f (or_intror Hf))) as [_ [_ H3]].
    destruct (H3 f Hf) as [Hlo _]. unfold before, fend. lia.
Qed.

Lemma nomf_end l : forall a b, chain l a b -> mf_ok l -> forall g, In g l -> f_flags g = 0 -> fend g = b.
Proof.
  induction l as [|f r IH]; intros a b Hc Hm g Hg Hz; [destruct Hg|].
  cbn [chain mf_ok] in *. destruct Hc as [Ho Hc]. destruct Hm as [Hf Hm]. destruct Hg as [Hg|Hg].
  - subst g. destruct r; [|lia]. cbn [chain] in Hc. unfold fend. lia.
  - eapply IH; eassumption.
Qed.

Lemma exists_nomf l : l <> [] -> mf_ok l -> exists g, In g l /\ f_flags g = 0.
Proof.
  induction l as [|f r IH]; intros Hn Hm; [congruence|].
  cbn [mf_ok] in Hm. destruct Hm as [Hf Hm]. destruct r as [|f2 r2].
  - exists f. split; [left; reflexivity|exact Hf].
  - destruct (IH ltac:(discriminate) Hm) as [g [Hg Hz]]. exists g. split; [right; exact Hg|exact Hz].
Qed.

Lemma mf_flags l : mf_ok l -> forall f, In f l -> f_flags f = 0 \/ f_flags f = 1.
Proof.
  induction l as [|g r IH]; intros Hm f Hf; [destruct Hf|].
  cbn [mf_ok] in Hm. destruct Hm as [Hg Hm]. destruct Hf as [Hf|Hf].
  - subst f. destruct r; auto.
  - apply IH; assumption.
Qed.

Lemma sumlen_gt l f : In f l -> (forall g, In g l -> 0 < plen g) -> (2 <= length l)%nat -> plen f < sumlen l.
Proof.
  intros Hf Hp Hl.
  assert (Hge : forall l', (forall g, In g l' -> 0 < plen g) -> l' <> [] -> 0 < sumlen l').
  { intros l' Hp' Hn. destruct l' as [|x l']; [congruence|]. cbn [sumlen].
    assert (0 <= sumlen l').
    { clear -l'. induction l' as [|y l' IH]; cbn [sumlen]; [lia|]. pose proof (plen_nonneg y). lia. }
    pose proof (Hp' x (or_introl eq_refl)). lia. }
  destruct l as [|x l]; [destruct Hf|]. cbn [sumlen]. destruct Hf as [Hf|Hf].
  - subst x. assert (0 < sumlen l); [|lia]. apply Hge; [intros g Hg; apply Hp; right; exact Hg|].
    destruct l; [cbn in Hl; lia|discriminate].
  - pose proof (Hp x (or_introl eq_refl)).
    assert (plen f <= sumlen l); [|lia].
    clear -Hf. induction l as [|y l IH]; [destruct Hf|]. cbn [sumlen]. destruct Hf as [Hf|Hf].
    + subst y. assert (0 <= sumlen l); [|lia]. clear. induction l as [|z l IH]; cbn [sumlen]; [lia|]. pose proof (plen_nonneg z). lia.
    + pose proof (plen_nonneg y). specialize (IH Hf). lia.
Qed.

Lemma chain_length l : forall a b, chain l a b -> mf_ok l -> (forall f, In f l -> 0 < plen f) ->
  (forall f, In f l -> f_flags f = 1 -> 8 <= plen f) -> l <> [] ->
  8 * (Z.of_nat (length l) - 1) + 1 <= b - a.
Proof.
  induction l as [|f r IH]; intros a b Hc Hm Hp H8 Hn; [congruence|].
  cbn [chain mf_ok length] in *. destruct Hc as [Ho Hc]. destruct Hm as [Hf Hm].
  destruct r as [|f2 r2].
  - cbn [chain] in Hc. pose proof (Hp f (or_introl eq_refl)). cbn [length]. lia.
  - assert (Hr : 8 * (Z.of_nat (length (f2 :: r2)) - 1) + 1 <= b - (a + plen f)).
    { apply IH; try assumption; try discriminate.
      - intros g Hg. apply Hp. right. exact Hg.
      - intros g Hg. apply H8. right. exact Hg. }
    pose proof (H8 f (or_introl eq_refl) Hf). cbn [length] in *. lia.
Qed.

(* facts about each fragment of a set with FProps *)
Lemma fp_accepted h F L f : FProps h F L -> In f F ->
  accepted f /\ frag_off f = 8 * f_off f /\ frag_len fixedv f = plen f /\
  fend f <= L /\ (f_flags f = 0 \/ f_flags f = 1) /\ has_mf f = Z.odd (f_flags f).
Proof.
  intros HF Hf. destruct HF as [Hh Hp Hc Hm H8 Hmo Hi HL H2].
  destruct (Hh f Hf) as [Hk [Hihl [Hhd Hlen]]]. pose proof (Hp f Hf) as Hpos.
  destruct (chain_bounds _ _ _ Hc Hp) as [_ [Hsum Hb]]. destruct (Hb f Hf) as [Hlo Hhi].
  pose proof (mf_flags _ Hm f Hf) as Hfl. pose proof (Hmo f Hf) as Hmax.
  assert (Hwf : wf_frag f) by (unfold wf_frag; lia).
  assert (Hsec : security_ok fixedv f = true).
  { unfold security_ok. cbn [v_sec fixedv]. unfold fend in Hhi.
    replace (f_len f - f_ihl f * 4) with (plen f) by lia.
    destruct (plen f <? 0) eqn:E1; [lia|].
    assert (Hmf : has_mf f && (plen f <? 8) = false).
    { unfold has_mf. destruct Hfl as [Hz|Ho]; rewrite ?Hz, ?Ho; cbn [Z.odd andb]; [reflexivity|].
      pose proof (H8 f Hf Ho). lia. }
    rewrite Hmf. destruct (8183 <? f_off f) eqn:E2; [lia|].
    destruct (65535 <? f_off f * 8 + f_len f) eqn:E3; [lia|]. reflexivity. }
  assert (Hdd : dont_defrag f = false).
  { unfold dont_defrag, has_df, has_mf. destruct Hfl as [Hz|Ho]; rewrite ?Hz, ?Ho; cbn; [|reflexivity].
    (* the fragment without MF is the last one: its offset is not 0 *)
    pose proof (nomf_end _ _ _ Hc Hm f Hf Hz) as He. unfold fend in He.
    pose proof (sumlen_gt F f Hf Hp H2).
    destruct (f_off f =? 0) eqn:E; [lia|reflexivity]. }
  split; [repeat split; try assumption; apply Hwf|].
  split; [apply frag_off_fixed; assumption|].
  split; [rewrite frag_len_fixed by assumption; lia|].
  split; [exact Hhi|]. split; [exact Hfl|reflexivity].
Qed.

(* ---------------------------------------------------------------- subsequences *)
Inductive Sub {A} : list A -> list A -> Prop :=
| Sub_nil l : Sub [] l
| Sub_skip x s l : Sub s l -> Sub s (x :: l)
| Sub_take x s l : Sub s l -> Sub (x :: s) (x :: l).

Lemma Sub_incl {A} (s l : list A) : Sub s l -> incl s l.
Proof.
  induction 1 as [l|x s l H IH|x s l H IH]; intros y Hy.
  - destruct Hy.
  - right. apply IH. exact Hy.
  - destruct Hy as [Hy|Hy]; [left; exact Hy|right; apply IH; exact Hy].
Qed.

Lemma Sub_length {A} (s l : list A) : Sub s l -> (length s <= length l)%nat.
Proof. induction 1; cbn [length]; lia. Qed.

Lemma Sub_refl {A} (l : list A) : Sub l l.
Proof. induction l; constructor; assumption. Qed.

Lemma Sub_length_eq {A} (s l : list A) : Sub s l -> length s = length l -> s = l.
Proof.
  induction 1 as [l|x s l H IH|x s l H IH]; intros Hl.
  - destruct l; [reflexivity|discriminate].
  - apply Sub_length in H. cbn [length] in Hl. lia.
  - f_equal. apply IH. cbn [length] in Hl. lia.
Qed.

Lemma Sub_single {A} (x : A) l : In x l -> Sub [x] l.
Proof.
  induction l as [|y l IH]; intros H; [destruct H|].
  destruct H as [H|H]; [subst; apply Sub_take; apply Sub_nil|apply Sub_skip; apply IH; exact H].
Qed.

Lemma Sub_sorted {A} (R : A -> A -> Prop) (s l : list A) : Sub s l -> StronglySorted R l -> StronglySorted R s.
Proof.
  induction 1 as [l|x s l H IH|x s l H IH]; intros Hs.
  - constructor.
  - apply IH. inversion Hs; assumption.
  - inversion Hs as [|? ? Hs' Hall]; subst. constructor; [apply IH; exact Hs'|].
    apply Forall_forall. intros y Hy. rewrite Forall_forall in Hall. apply Hall. eapply Sub_incl; eassumption.
Qed.

Lemma Sub_sumlen s l : Sub s l -> (forall f, In f l -> 0 < plen f) ->
  sumlen s <= sumlen l /\ (sumlen s = sumlen l -> s = l).
Proof.
  induction 1 as [l|x s l H IH|x s l H IH]; intros Hp.
  - cbn [sumlen]. assert (Hl : forall l', (forall f, In f l' -> 0 < plen f) -> 0 <= sumlen l' /\ (0 = sumlen l' -> [] = l')).
    { intros l' Hp'. destruct l' as [|y l']; cbn [sumlen]; [split; [lia|reflexivity]|].
      assert (0 <= sumlen l').
      { clear. induction l' as [|z l' IH]; cbn [sumlen]; [lia|]. pose proof (plen_nonneg z). lia. }
      pose proof (Hp' y (or_introl eq_refl)). split; [lia|lia]. }
    apply Hl. exact Hp.
  - destruct (IH (fun f Hf => Hp f (or_intror Hf))) as [H1 H2].
    pose proof (Hp x (or_introl eq_refl)). cbn [sumlen]. split; [lia|lia].
  - destruct (IH (fun f Hf => Hp f (or_intror Hf))) as [H1 H2]. cbn [sumlen]. split; [lia|].
    intros He. f_equal. apply H2. lia.
Qed.

(* sorted insertion by offset: what insert does on the fragments of one datagram *)
Fixpoint sins (f : frag) (s : list frag) : list frag :=
  match s with
  | [] => [f]
  | g :: r => if f_off f <? f_off g then f :: s else g :: sins f r
  end.

Lemma sins_In f s g : In g (sins f s) <-> g = f \/ In g s.
Proof.
  induction s as [|x s IH]; cbn [sins].
  - cbn. intuition.
  - destruct (f_off f <? f_off x); cbn [In]; [intuition|]. rewrite IH. cbn [In]. intuition.
Qed.

Lemma sins_length f s : length (sins f s) = S (length s).
Proof. induction s as [|x s IH]; cbn [sins]; [reflexivity|]. destruct (f_off f <? f_off x); cbn [length]; lia. Qed.

Lemma sins_front f s : (forall g, In g s -> f_off f < f_off g) -> sins f s = f :: s.
Proof.
  destruct s as [|x s]; intros H; cbn [sins]; [reflexivity|].
  pose proof (H x (or_introl eq_refl)). destruct (f_off f <? f_off x) eqn:E; [reflexivity|lia].
Qed.

Lemma sins_back f s : (forall g, In g s -> f_off g < f_off f) -> sins f s = s ++ [f].
Proof.
  induction s as [|x s IH]; intros H; cbn [sins app]; [reflexivity|].
  pose proof (H x (or_introl eq_refl)). destruct (f_off f <? f_off x) eqn:E; [lia|].
  rewrite IH; [reflexivity|]. intros g Hg. apply H. right. exact Hg.
Qed.

(* offsets strictly increase along a list sorted by [before] with non-empty fragments *)
Lemma before_off f g : 0 < plen f -> before f g -> f_off f < f_off g.
Proof. unfold before, fend. lia. Qed.

Lemma Sub_sins f s l :
  Sub s l -> StronglySorted before l -> (forall g, In g l -> 0 < plen g) ->
  In f l -> ~ In f s -> Sub (sins f s) l.
Proof.
  induction 1 as [l|x s l H IH|x s l H IH]; intros Hs Hp Hf Hn.
  - cbn [sins]. apply Sub_single. exact Hf.
  - inversion Hs as [|? ? Hs' Hall]; subst. rewrite Forall_forall in Hall. destruct Hf as [Hf|Hf].
    + subst x. rewrite sins_front; [apply Sub_take; exact H|].
      intros g Hg. apply before_off; [apply Hp; left; reflexivity|]. apply Hall. eapply Sub_incl; eassumption.
    + apply Sub_skip. apply IH; try assumption. intros g Hg. apply Hp. right. exact Hg.
  - inversion Hs as [|? ? Hs' Hall]; subst. rewrite Forall_forall in Hall. destruct Hf as [Hf|Hf].
    + subst x. exfalso. apply Hn. left. reflexivity.
    + cbn [sins]. pose proof (before_off x f (Hp x (or_introl eq_refl)) (Hall f Hf)).
      destruct (f_off f <? f_off x) eqn:E; [lia|]. apply Sub_take. apply IH; try assumption.
      * intros g Hg. apply Hp. right. exact Hg.
      * intros Hin. apply Hn. right. exact Hin.
Qed.

(* ---------------------------------------------------------------- what the loop of insert does *)
Definition off_sorted (s : list frag) : Prop := StronglySorted (fun f g => f_off f < f_off g) s.

Lemma ins_walk_dup s f : off_sorted s -> In f s -> ins_walk s f = (s, true).
Proof.
  induction s as [|g r IH]; intros Hs Hf; [destruct Hf|].
  inversion Hs as [|? ? Hs' Hall]; subst. rewrite Forall_forall in Hall. cbn [ins_walk].
  destruct Hf as [Hf|Hf].
  - subst g. rewrite Z.eqb_refl. reflexivity.
  - pose proof (Hall f Hf). destruct (f_off f =? f_off g) eqn:E1; [lia|].
    destruct (f_off f <? f_off g) eqn:E2; [lia|]. rewrite (IH Hs' Hf). reflexivity.
Qed.

Lemma ins_walk_sins s f :
  (forall g, In g s -> f_off g <> f_off f) -> (exists g, In g s /\ f_off f < f_off g) ->
  ins_walk s f = (sins f s, false).
Proof.
  induction s as [|g r IH]; intros Hne [g0 [Hg0 Hlt]]; [destruct Hg0|].
  cbn [ins_walk sins]. pose proof (Hne g (or_introl eq_refl)).
  destruct (f_off f =? f_off g) eqn:E1; [lia|].
  destruct (f_off f <? f_off g) eqn:E2; [reflexivity|].
  destruct Hg0 as [Hg0|Hg0]; [subst g0; lia|].
  rewrite IH; [reflexivity| |exists g0; auto]. intros x Hx. apply Hne. right. exact Hx.
Qed.

(* ---------------------------------------------------------------- the loop of build on a chain *)
Lemma build_walk_chain h F L l : FProps h F L -> forall a b,
  incl l F -> chain l a b -> 0 <= a ->
  build_walk fixedv l a = Ok (concat (map f_payload l), b).
Proof.
  intros HF. induction l as [|g r IH]; intros a b Hi Hc Ha; cbn [chain] in Hc.
  - subst. reflexivity.
  - destruct Hc as [Ho Hc]. cbn [build_walk map concat]. cbn [v_trunc v_ovl fixedv andb].
    assert (Hg : In g F) by (apply Hi; left; reflexivity).
    destruct (fp_accepted h F L g HF Hg) as [_ [Hfo [Hfl [Hend _]]]].
    destruct (fp_hdr h F L HF g Hg) as [_ [Hihl [_ Hlen]]].
    rewrite Hfo, Hfl.
    replace (plen g =? f_len g - f_ihl g * 4) with true by lia. cbn [negb].
    replace (8 * f_off g =? a) with true by lia.
    unfold fend in Hend. pose proof (fp_L h F L HF). pose proof (fp_ihl h F L HF). pose proof (plen_nonneg g).
    rewrite u16_small by lia.
    rewrite (IH (a + plen g) b); [reflexivity| |exact Hc|lia].
    intros x Hx. apply Hi. right. exact Hx.
Qed.

(* ---------------------------------------------------------------- the per-key invariant *)
(* KInv st S: the entry of the datagram's key in the map corresponds to the set S of fragments
   accepted so far (S is kept in offset order) *)
Definition KInv (h : header) (st : state) (S : list frag) : Prop :=
  match S with
  | [] => lookup (hkey h) st = None
  | _ => exists fl, lookup (hkey h) st = Some fl /\ fl_list fl = S /\
                    (forall g, In g S -> fend g <= fl_highest fl) /\
                    (exists g, In g S /\ fend g = fl_highest fl) /\
                    fl_current fl = sumlen S /\
                    (fl_final fl = true <-> exists g, In g S /\ f_flags g = 0)
  end.

Lemma frag_eq_dec (f g : frag) : {f = g} + {f <> g}.
Proof. decide equality; try apply Z.eq_dec; apply (list_eq_dec Z.eq_dec). Qed.

Lemma In_frag_dec (f : frag) (s : list frag) : {In f s} + {~ In f s}.
Proof. apply in_dec. exact frag_eq_dec. Qed.

Lemma sorted_before_off s : StronglySorted before s -> (forall g, In g s -> 0 < plen g) -> off_sorted s.
Proof.
  induction 1 as [|x s Hs IH Hall]; intros Hp; [constructor|]. constructor.
  - apply IH. intros g Hg. apply Hp. right. exact Hg.
  - rewrite Forall_forall in *. intros g Hg. apply before_off; [apply Hp; left; reflexivity|apply Hall; exact Hg].
Qed.

Lemma sorted_total l : StronglySorted before l -> forall f g, In f l -> In g l -> f = g \/ before f g \/ before g f.
Proof.
  induction 1 as [|x l Hs IH Hall]; intros f g Hf Hg; [destruct Hf|].
  rewrite Forall_forall in Hall. destruct Hf as [Hf|Hf], Hg as [Hg|Hg]; subst.
  - left. reflexivity.
  - right. left. apply Hall. exact Hg.
  - right. right. apply Hall. exact Hf.
  - apply IH; assumption.
Qed.

(* the step on a fragment of the datagram *)
Lemma key_step h F L st S f t st' r :
  FProps h F L -> Sub S F -> KInv h st S -> In f F ->
  defrag4 fixedv st f t = (st', r) ->
  (In f S -> r = RNone /\ KInv h st' S) /\
  (~ In f S ->
     (sins f S = F -> r = RDg (datagram h (concat (map f_payload F))) /\ KInv h st' []) /\
     (sins f S <> F -> r = RNone /\ KInv h st' (sins f S))).
Proof.
  intros HF HS HK Hf H.
  destruct (fp_accepted h F L f HF Hf) as [[Hdd [Hsec Hwf]] [Hfo [Hfl [Hend [Hflag Hmf]]]]].
  destruct (fp_hdr h F L HF f Hf) as [Hkey [Hihl [Hhd Hlen]]].
  pose proof Hwf as [Hwi Hwo].
  pose proof (fp_pos h F L HF) as Hpos.
  pose proof (chain_sorted _ _ _ (fp_chain h F L HF) Hpos) as HsF.
  destruct (chain_bounds _ _ _ (fp_chain h F L HF) Hpos) as [_ [HsumF _]].
  pose proof (fp_L h F L HF) as HL. pose proof (fp_ihl h F L HF) as Hi5.
  assert (HinclS : incl S F) by (apply Sub_incl; exact HS).
  assert (HposS : forall g, In g S -> 0 < plen g) by (intros g Hg; apply Hpos; apply HinclS; exact Hg).
  assert (HsS : off_sorted S) by (apply sorted_before_off; [eapply Sub_sorted; eassumption|exact HposS]).
  unfold defrag4 in H. rewrite Hdd, Hsec in H. cbn [negb] in H. rewrite Hkey in H.
  (* the list before the step *)
  set (fl := match lookup (hkey h) st with Some fl => fl | None => empty_fl end) in *.
  assert (Hfl0 : fl_list fl = S /\ (forall g, In g S -> fend g <= fl_highest fl) /\
                 (S = [] -> fl_highest fl = 0) /\ (S <> [] -> exists g, In g S /\ fend g = fl_highest fl) /\
                 fl_current fl = sumlen S /\ (fl_final fl = true <-> exists g, In g S /\ f_flags g = 0)).
  { subst fl. unfold KInv in HK. destruct S as [|s0 S0].
    - rewrite HK. cbn [empty_fl fl_list fl_highest fl_current fl_final sumlen].
      split; [reflexivity|]. split; [intros g []|]. split; [reflexivity|]. split; [congruence|].
      split; [reflexivity|]. split; [discriminate|intros [g [[] _]]].
    - destruct HK as [fl0 [Hl [H1 [H2 [H3 [H4 H5]]]]]]. rewrite Hl.
      split; [exact H1|]. split; [exact H2|]. split; [discriminate|]. split; [intros _; exact H3|].
      split; [exact H4|exact H5]. }
  destruct Hfl0 as [Hlist [Hhi [Hhi0 [Hhi1 [Hcur Hfin]]]]].
  unfold insert in H. rewrite Hfo, Hfl, Hlist in H.
  split.
  - (* duplicate *)
    intros HinS.
    assert (Hlt : fl_highest fl <=? 8 * f_off f = false).
    { pose proof (Hhi f HinS). pose proof (Hpos f Hf). unfold fend in *. lia. }
    rewrite Hlt, (ins_walk_dup S f HsS HinS) in H.
    assert (Hcap : max_list_len <? Z.of_nat (length (fl_list fl)) + 1 = false).
    { rewrite Hlist. pose proof (Sub_length _ _ HS).
      pose proof (chain_length _ _ _ (fp_chain h F L HF) (fp_mf h F L HF) Hpos (fp_mf8 h F L HF)) as Hlen8.
      assert (HFne : F <> []) by (intros ->; destruct Hf). specialize (Hlen8 HFne). unfold max_list_len. lia. }
    rewrite Hcap in H. apply pair_equal_spec in H as [Hst Hr]; subst st' r. split; [reflexivity|].
    unfold KInv. destruct S as [|s0 S0]; [destruct HinS|].
    exists fl. rewrite lookup_set_same. repeat split; try assumption.
    + apply Hhi1. discriminate.
    + apply Hfin.
    + apply Hfin.
  - intros HninS.
    (* the new list is the sorted insertion *)
    assert (Hne : forall g, In g S -> f_off g <> f_off f).
    { intros g Hg He. destruct (sorted_total F HsF f g Hf (HinclS g Hg)) as [Heq|[Hb|Hb]].
      - subst g. contradiction.
      - pose proof (before_off _ _ (Hpos f Hf) Hb). lia.
      - pose proof (before_off _ _ (HposS g Hg) Hb). lia. }
    set (S' := sins f S) in *.
    assert (Hl' : (if fl_highest fl <=? 8 * f_off f then (S ++ [f], false) else ins_walk S f) = (S', false)).
    { destruct (fl_highest fl <=? 8 * f_off f) eqn:Ele.
      - subst S'. rewrite sins_back; [reflexivity|]. intros g Hg.
        pose proof (Hhi g Hg). pose proof (HposS g Hg). unfold fend in *. lia.
      - subst S'. apply ins_walk_sins; [exact Hne|].
        destruct S as [|s0 S0]; [rewrite Hhi0 in Ele by reflexivity; destruct Hwf; lia|].
        destruct (Hhi1 ltac:(discriminate)) as [g [Hg He]]. exists g. split; [exact Hg|].
        destruct (sorted_total F HsF f g Hf (HinclS g Hg)) as [Heq|[Hb|Hb]].
        + subst g. contradiction.
        + apply before_off; [apply Hpos; exact Hf|exact Hb].
        + unfold before in Hb. lia. }
    rewrite Hl' in H. clear Hl'.
    assert (HS' : Sub S' F) by (apply Sub_sins; assumption).
    assert (HinS' : forall g, In g S' <-> g = f \/ In g S) by (intros g; apply sins_In).
    assert (HsumS' : sumlen S' = plen f + sumlen S).
    { subst S'. clear. induction S as [|x S IH]; cbn [sins sumlen]; [lia|].
      destruct (f_off f <? f_off x); cbn [sumlen]; lia. }
    destruct (Sub_sumlen _ _ HS' Hpos) as [HsumLe HsumEq].
    destruct (Sub_sumlen _ _ HS Hpos) as [HsumLeS _].
    pose proof (plen_nonneg f) as Hpf. pose proof (sumlen_nonneg S) as HsS0.
    (* counters after the step, without wrap-around *)
    assert (Hhi_le : fl_highest fl <= L).
    { destruct S as [|s0 S0]; [rewrite Hhi0 by reflexivity; lia|].
      destruct (Hhi1 ltac:(discriminate)) as [g [Hg He]].
      destruct (fp_accepted h F L g HF (HinclS g Hg)) as [_ [_ [_ [Hge _]]]]. lia. }
    unfold fend in Hend.
    rewrite (u16_small (8 * f_off f + plen f)) in H by lia.
    rewrite Hcur in H. rewrite (u16_small (sumlen S + plen f)) in H by lia.
    set (hi := if fl_highest fl <? 8 * f_off f + plen f then 8 * f_off f + plen f else fl_highest fl) in *.
    assert (Hhi' : (forall g, In g S' -> fend g <= hi) /\ (exists g, In g S' /\ fend g = hi) /\ hi <= L).
    { subst hi. destruct (fl_highest fl <? 8 * f_off f + plen f) eqn:E.
      - split; [|split; [exists f; split; [apply HinS'; left; reflexivity|reflexivity]|lia]].
        intros g Hg. apply HinS' in Hg as [Hg|Hg]; [subst g; unfold fend; lia|]. pose proof (Hhi g Hg). lia.
      - split; [|split; [|exact Hhi_le]].
        + intros g Hg. apply HinS' in Hg as [Hg|Hg]; [subst g; unfold fend; lia|]. apply Hhi. exact Hg.
        + destruct S as [|s0 S0]; [rewrite Hhi0 in E by reflexivity; pose proof (Hpos f Hf); destruct Hwf; lia|].
          destruct (Hhi1 ltac:(discriminate)) as [g [Hg He]]. exists g. split; [apply HinS'; right; exact Hg|exact He]. }
    destruct Hhi' as [Hhi'1 [Hhi'2 Hhi'3]].
    set (fin := fl_final fl || negb (has_mf f)) in *.
    assert (Hfin' : fin = true <-> exists g, In g S' /\ f_flags g = 0).
    { subst fin. rewrite Hmf. split.
      - intros Ho. apply orb_prop in Ho as [Ho|Ho].
        + apply Hfin in Ho as [g [Hg Hz]]. exists g. split; [apply HinS'; right; exact Hg|exact Hz].
        + exists f. split; [apply HinS'; left; reflexivity|]. destruct Hflag as [Hz|Hz]; [exact Hz|rewrite Hz in Ho; discriminate].
      - intros [g [Hg Hz]]. apply HinS' in Hg as [Hg|Hg].
        + subst g. rewrite Hz. cbn. apply orb_true_r.
        + apply orb_true_intro. left. apply Hfin. exists g. auto. }
    (* complete iff the final fragment is there and the counters agree iff S' = F *)
    assert (Hcomplete : fin && (hi =? sumlen S + plen f) = true <-> S' = F).
    { split.
      - intros Hc. apply andb_prop in Hc as [Hc1 Hc2]. apply Hfin' in Hc1 as [g [Hg Hz]].
        pose proof (nomf_end _ _ _ (fp_chain h F L HF) (fp_mf h F L HF) g (Sub_incl _ _ HS' g Hg) Hz) as Hge.
        pose proof (Hhi'1 g Hg). apply HsumEq. lia.
      - intros He. assert (Hne0 : F <> []) by (intros ->; destruct Hf).
        destruct (exists_nomf F Hne0 (fp_mf h F L HF)) as [g [Hg Hz]].
        pose proof (nomf_end _ _ _ (fp_chain h F L HF) (fp_mf h F L HF) g Hg Hz) as Hge.
        apply andb_true_intro. split.
        + apply Hfin'. exists g. rewrite He. auto.
        + rewrite <- He in Hg. pose proof (Hhi'1 g Hg). rewrite He in HsumS'. lia. }
    split.
    + intros He. assert (Hc : fin && (hi =? sumlen S + plen f) = true) by (apply Hcomplete; exact He).
      rewrite Hc in H.
      (* build on F *)
      unfold build in H. cbn [fl_list fl_highest] in H. cbn [v_ovl v_len fixedv andb] in H.
      replace S' with F in H by (symmetry; exact He).
      rewrite (build_walk_chain h F L F HF 0 L (incl_refl F) (fp_chain h F L HF) ltac:(lia)) in H.
      assert (HhiL : hi = L).
      { apply andb_prop in Hc as [_ Hc2]. rewrite He in HsumS'. lia. }
      rewrite HhiL in H. rewrite Z.eqb_refl in H. cbn [negb] in H.
      assert (Hcl : Z.of_nat (length (concat (map f_payload F))) = L).
      { assert (Hcl0 : forall l, Z.of_nat (length (concat (map f_payload l))) = sumlen l).
        { clear. induction l as [|x l IH]; cbn [map concat sumlen length]; [lia|].
          rewrite app_length. unfold plen in *. lia. }
        rewrite Hcl0. lia. }
      rewrite Hcl in H. rewrite Hihl in H.
      replace (65535 <? h_ihl h * 4 + L) with false in H by lia.
      apply pair_equal_spec in H as [Hst Hr]; subst st' r. split.
      * unfold datagram. f_equal. f_equal; try (unfold key_of, hkey in Hkey; congruence); try exact Hhd;
          try (rewrite ?Hcl; lia).
      * unfold KInv. apply lookup_remove_same.
    + intros Hne'. assert (Hc : fin && (hi =? sumlen S + plen f) = false).
      { destruct (fin && (hi =? sumlen S + plen f)) eqn:E; [|reflexivity]. exfalso. apply Hne'. apply Hcomplete. reflexivity. }
      rewrite Hc in H. cbn [fl_list] in H.
      assert (Hcap : max_list_len <? Z.of_nat (length S') + 1 = false).
      { pose proof (Sub_length _ _ HS').
        pose proof (chain_length _ _ _ (fp_chain h F L HF) (fp_mf h F L HF) Hpos (fp_mf8 h F L HF)) as Hlen8.
        assert (HFne : F <> []) by (intros ->; destruct Hf). specialize (Hlen8 HFne). unfold max_list_len. lia. }
      rewrite Hcap in H. apply pair_equal_spec in H as [Hst Hr]; subst st' r. split; [reflexivity|].
      unfold KInv. destruct S' as [|s0 S0] eqn:ES'.
      * exfalso. assert (In f []) by (apply HinS'; left; reflexivity). contradiction.
      * eexists. rewrite lookup_set_same. split; [reflexivity|]. cbn [fl_list fl_highest fl_current fl_final].
        split; [reflexivity|]. split; [exact Hhi'1|]. split; [exact Hhi'2|]. split; [lia|exact Hfin'].
Qed.

(* a fragment of another key does not disturb the invariant *)
Lemma other_step h st S f t st' r :
  KInv h st S -> key_of f <> hkey h -> defrag4 fixedv st f t = (st', r) -> KInv h st' S.
Proof.
  intros HK Hk H. unfold KInv in *.
  rewrite (defrag4_frame fixedv st f t st' r (hkey h) H) by congruence. exact HK.
Qed.

(* ---------------------------------------------------------------- the fragments of a partition *)
Definition valid_partition (h : header) (chunks : list (list Z)) : Prop :=
  5 <= h_ihl h <= 15 /\ chunks_ok chunks /\ (2 <= length chunks)%nat /\
  4 * h_ihl h + Z.of_nat (length (concat chunks)) <= 65535.

(* the code refuses fragment offsets above IPv4MaximumFragmentOffset = 8183 (65464 bytes) *)
Definition offsets_within_limit (chunks : list (list Z)) : Prop :=
  Z.of_nat (length (concat (removelast chunks))) <= 8 * 8183.

Lemma frags_of_gen h : forall chunks off, 0 <= off -> chunks_ok chunks ->
  let F := frags_of h off chunks in
  (forall f, In f F -> key_of f = hkey h /\ f_ihl f = h_ihl h /\ f_hdr f = h_hdr h /\ f_len f = 4 * h_ihl h + plen f) /\
  (forall f, In f F -> 0 < plen f) /\
  chain F (8 * off) (8 * off + Z.of_nat (length (concat chunks))) /\
  mf_ok F /\
  (forall f, In f F -> f_flags f = 1 -> 8 <= plen f) /\
  length F = length chunks /\
  concat (map f_payload F) = concat chunks /\
  (forall f, In f F -> 8 * off <= 8 * f_off f <= 8 * off + Z.of_nat (length (concat (removelast chunks)))).
Proof.
  induction chunks as [|c r IH]; intros off Hoff Hok; cbn zeta.
  - cbn [frags_of chain mf_ok concat length map]. repeat split; try (intros f []); try reflexivity;
      try (match goal with H : In _ [] |- _ => destruct H end); lia.
  - cbn [chunks_ok] in Hok. destruct Hok as [Hc [Hm Hr]].
    assert (Hoff' : 0 <= off + Z.of_nat (length c) / 8) by (assert (0 <= Z.of_nat (length c) / 8) by (apply Z.div_pos; lia); lia).
    specialize (IH (off + Z.of_nat (length c) / 8) Hoff' Hr). cbn zeta in IH.
    destruct IH as [I1 [I2 [I3 [I4 [I5 [I6 [I7 I8]]]]]]].
    cbn [frags_of]. set (g := mkfrag h off (match r with [] => false | _ => true end) c).
    assert (Hg : key_of g = hkey h /\ f_ihl g = h_ihl h /\ f_hdr g = h_hdr h /\ f_len g = 4 * h_ihl h + plen g /\
                 plen g = Z.of_nat (length c) /\ f_off g = off /\ f_flags g = (match r with [] => 0 | _ => 1 end))
      by (subst g; unfold mkfrag, key_of, hkey, plen; cbn; destruct r; repeat split; reflexivity).
    destruct Hg as [G1 [G2 [G3 [G4 [G5 [G6 G7]]]]]].
    assert (Hstep : r <> [] -> 8 * (off + Z.of_nat (length c) / 8) = 8 * off + Z.of_nat (length c)).
    { intros Hn. destruct r; [congruence|]. pose proof (Z.div_mod (Z.of_nat (length c)) 8 ltac:(lia)). lia. }
    split; [intros f [Hf|Hf]; [subst f; auto|apply I1; exact Hf]|].
    split; [intros f [Hf|Hf]; [subst f; lia|apply I2; exact Hf]|].
    split.
    { cbn [chain]. split; [lia|]. cbn [concat]. rewrite app_length.
      destruct r as [|c2 r2].
      - cbn [frags_of chain concat length] in *. lia.
      - rewrite Hstep in I3 by discriminate. rewrite G5.
        replace (8 * off + Z.of_nat (length c + length (concat (c2 :: r2)))) with
                (8 * off + Z.of_nat (length c) + Z.of_nat (length (concat (c2 :: r2)))) by lia.
        exact I3. }
    split.
    { cbn [mf_ok]. split; [|exact I4]. destruct r as [|c2 r2]; cbn [frags_of]; exact G7. }
    split.
    { intros f [Hf|Hf]; [|apply I5; exact Hf]. subst f. intros Hfl. rewrite G7 in Hfl.
      destruct r as [|c2 r2]; [discriminate|]. rewrite G5.
      pose proof (Z.div_mod (Z.of_nat (length c)) 8 ltac:(lia)).
      assert (0 < Z.of_nat (length c) / 8); [|lia].
      destruct (Z_le_gt_dec (Z.of_nat (length c) / 8) 0); [|lia]. assert (0 <= Z.of_nat (length c) / 8) by (apply Z.div_pos; lia). lia. }
    split; [cbn [length]; lia|].
    split; [cbn [map concat]; rewrite I7; subst g; reflexivity|].
    intros f [Hf|Hf].
    + subst f. rewrite G6. lia.
    + destruct r as [|c2 r2]; [destruct Hf|].
      specialize (I8 f Hf). rewrite Hstep in I8 by discriminate.
      change (removelast (c :: c2 :: r2)) with (c :: removelast (c2 :: r2)). cbn [concat]. rewrite app_length. lia.
Qed.

Lemma frags_of_props h chunks :
  valid_partition h chunks -> offsets_within_limit chunks ->
  FProps h (frags_of h 0 chunks) (Z.of_nat (length (concat chunks))) /\
  concat (map f_payload (frags_of h 0 chunks)) = concat chunks.
Proof.
  intros [Hi [Hok [H2 HL]]] Hlim.
  destruct (frags_of_gen h chunks 0 ltac:(lia) Hok) as [I1 [I2 [I3 [I4 [I5 [I6 [I7 I8]]]]]]].
  split; [|exact I7]. constructor; try assumption; try lia.
  - intros f Hf. specialize (I8 f Hf). unfold offsets_within_limit in Hlim. lia.
Qed.

(* ---------------------------------------------------------------- arrival sequences *)
(* every operation hands over a fragment; those with the datagram's key are fragments of it *)
Definition arrival_ok (h : header) (F : list frag) (ops : list op4) : Prop :=
  Forall (fun o => exists f t, o = OFrag f t /\ (key_of f = hkey h -> In f F)) ops.

Lemma Sub_all_eq (s l : list frag) : Sub s l -> NoDup l -> incl l s -> s = l.
Proof.
  intros HS Hnd Hi. apply Sub_length_eq; [exact HS|].
  pose proof (Sub_length _ _ HS). pose proof (NoDup_incl_length Hnd Hi). lia.
Qed.

Lemma sorted_NoDup l : StronglySorted before l -> (forall f, In f l -> 0 < plen f) -> NoDup l.
Proof.
  induction 1 as [|x l Hs IH Hall]; intros Hp; constructor.
  - intros Hin. rewrite Forall_forall in Hall. pose proof (Hall x Hin) as Hb.
    pose proof (before_off _ _ (Hp x (or_introl eq_refl)) Hb). lia.
  - apply IH. intros f Hf. apply Hp. right. exact Hf.
Qed.

Lemma run_complete_gen h F L : FProps h F L -> forall ops st S,
  Sub S F -> KInv h st S -> arrival_ok h F ops ->
  forall n,
  (forall f, In f F -> In f S \/ exists t, In (OFrag f t) (firstn (Datatypes.S n) ops)) ->
  (exists f, In f F /\ ~ In f S /\ forall t, ~ In (OFrag f t) (firstn n ops)) ->
  (forall m f t, (m < n)%nat -> nth_error ops m = Some (OFrag f t) -> key_of f = hkey h ->
                 nth_error (snd (run4 fixedv st ops)) m = Some (Res RNone)) /\
  nth_error (snd (run4 fixedv st ops)) n = Some (Res (RDg (datagram h (concat (map f_payload F))))).
Proof.
  intros HF.
  pose proof (fp_pos h F L HF) as Hpos.
  pose proof (chain_sorted _ _ _ (fp_chain h F L HF) Hpos) as HsF.
  pose proof (sorted_NoDup F HsF Hpos) as HndF.
  induction ops as [|o r IH]; intros st S HS HK Hok n Hall Hmiss.
  - exfalso. destruct Hmiss as [f [Hf [Hn _]]]. destruct (Hall f Hf) as [Hi|[t Hi]]; [contradiction|].
    cbn in Hi. destruct Hi.
  - inversion Hok as [|? ? Ho Hokr]; subst. destruct Ho as [g [t [-> Hg]]].
    rewrite run4_cons. cbn [snd step4].
    destruct (defrag4 fixedv st g t) as [st1 r1] eqn:Ed. cbn [fst snd].
    (* what the tail of the sequence has to deliver, for a new accepted set S1 that contains S and g *)
    assert (Htail : forall S1 n', n = Datatypes.S n' -> Sub S1 F -> KInv h st1 S1 ->
              (forall f, In f S \/ f = g /\ key_of g = hkey h -> In f S1) ->
              (forall f, In f S1 -> In f S \/ f = g) ->
              (forall m f t0, (m < n')%nat -> nth_error r m = Some (OFrag f t0) -> key_of f = hkey h ->
                 nth_error (snd (run4 fixedv st1 r)) m = Some (Res RNone)) /\
              nth_error (snd (run4 fixedv st1 r)) n' = Some (Res (RDg (datagram h (concat (map f_payload F)))))).
    { intros S1 n' -> HS1 HK1 Hin1 Hin2. apply (IH st1 S1 HS1 HK1 Hokr n').
      - intros f Hf. destruct (Hall f Hf) as [Hi|[t0 Hi]]; [left; apply Hin1; left; exact Hi|].
        cbn [firstn] in Hi. destruct Hi as [Hi|Hi]; [|right; exists t0; exact Hi].
        inversion Hi; subst g. left. apply Hin1. right. split; [reflexivity|].
        apply (fp_hdr h F L HF f Hf).
      - destruct Hmiss as [f [Hf [Hn Hno]]]. exists f. split; [exact Hf|]. split.
        + intros Hi. apply Hin2 in Hi as [Hi|Hi]; [contradiction|]. subst f.
          apply (Hno t). cbn [firstn]. left. reflexivity.
        + intros t0 Hi. apply (Hno t0). cbn [firstn]. right. exact Hi. }
    destruct (key_eqb (key_of g) (hkey h)) eqn:Ek.
    + apply key_eqb_eq in Ek. specialize (Hg Ek).
      destruct (key_step h F L st S g t st1 r1 HF HS HK Hg Ed) as [Hdup Hnew].
      destruct (In_frag_dec g S) as [HgS|HgS].
      * (* a duplicate *)
        destruct (Hdup HgS) as [-> HK1].
        destruct n as [|n'].
        -- exfalso. destruct Hmiss as [f [Hf [Hn _]]]. destruct (Hall f Hf) as [Hi|[t0 Hi]]; [contradiction|].
           cbn [firstn] in Hi. destruct Hi as [Hi|[]]. inversion Hi; subst f. contradiction.
        -- destruct (Htail S n' eq_refl HS HK1) as [T1 T2].
           ++ intros f [Hi|[-> _]]; assumption.
           ++ intros f Hi. left. exact Hi.
           ++ split; [|exact T2]. intros m f t0 Hm Hnth Hkf. destruct m as [|m]; [reflexivity|].
              cbn [nth_error] in *. apply (T1 m f t0); [lia|exact Hnth|exact Hkf].
      * destruct (Hnew HgS) as [Hfull Hpart].
        assert (HS1 : Sub (sins g S) F) by (apply Sub_sins; assumption).
        destruct n as [|n'].
        -- (* the last missing fragment *)
           assert (He : sins g S = F).
           { apply Sub_all_eq; [exact HS1|exact HndF|]. intros f Hf. apply sins_In.
             destruct (Hall f Hf) as [Hi|[t0 Hi]]; [right; exact Hi|].
             cbn [firstn] in Hi. destruct Hi as [Hi|[]]. inversion Hi. left. reflexivity. }
           destruct (Hfull He) as [-> _]. split; [intros m f t0 Hm; lia|reflexivity].
        -- assert (Hne : sins g S <> F).
           { intros He. destruct Hmiss as [f [Hf [Hn Hno]]]. rewrite <- He in Hf. apply sins_In in Hf as [Hf|Hf]; [|contradiction].
             subst f. apply (Hno t). cbn [firstn]. left. reflexivity. }
           destruct (Hpart Hne) as [-> HK1].
           destruct (Htail (sins g S) n' eq_refl HS1 HK1) as [T1 T2].
           ++ intros f [Hi|[-> _]]; apply sins_In; [right; exact Hi|left; reflexivity].
           ++ intros f Hi. apply sins_In in Hi as [Hi|Hi]; [right; exact Hi|left; exact Hi].
           ++ split; [|exact T2]. intros m f t0 Hm Hnth Hkf. destruct m as [|m]; [reflexivity|].
              cbn [nth_error] in *. apply (T1 m f t0); [lia|exact Hnth|exact Hkf].
    + (* a fragment of another key *)
      assert (Hkn : key_of g <> hkey h) by (intros He; rewrite He, key_eqb_refl in Ek; discriminate).
      pose proof (other_step h st S g t st1 r1 HK Hkn Ed) as HK1.
      destruct n as [|n'].
      * exfalso. destruct Hmiss as [f [Hf [Hn _]]]. destruct (Hall f Hf) as [Hi|[t0 Hi]]; [contradiction|].
        cbn [firstn] in Hi. destruct Hi as [Hi|[]]. inversion Hi; subst f. apply Hkn. apply (fp_hdr h F L HF g Hf).
      * destruct (Htail S n' eq_refl HS HK1) as [T1 T2].
        -- intros f [Hi|[-> Hk]]; [exact Hi|contradiction].
        -- intros f Hi. left. exact Hi.
        -- split; [|exact T2]. intros m f t0 Hm Hnth Hkf. destruct m as [|m].
           ++ cbn [nth_error] in Hnth. inversion Hnth; subst f. contradiction.
           ++ cbn [nth_error] in *. apply (T1 m f t0); [lia|exact Hnth|exact Hkf].
Qed.

(* C13_v4_complete (for partitions whose fragment offsets the code admits): the outputs for the
   datagram's key are None until the step n at which the last missing fragment arrives, and at
   step n the datagram: payload = original, Flags = 0, FragOffset = 0, Length = 4*IHL + |payload| *)
Theorem v4_complete h chunks ops n :
  valid_partition h chunks -> offsets_within_limit chunks ->
  let F := frags_of h 0 chunks in
  arrival_ok h F ops ->
  (forall f, In f F -> exists t, In (OFrag f t) (firstn (S n) ops)) ->
  (exists f, In f F /\ forall t, ~ In (OFrag f t) (firstn n ops)) ->
  (forall m f t, (m < n)%nat -> nth_error ops m = Some (OFrag f t) -> key_of f = hkey h ->
                 nth_error (snd (run4 fixedv [] ops)) m = Some (Res RNone)) /\
  nth_error (snd (run4 fixedv [] ops)) n = Some (Res (RDg (datagram h (concat chunks)))).
Proof.
  intros Hv Hlim F Hok Hall Hmiss.
  destruct (frags_of_props h chunks Hv Hlim) as [HF Hcat]. fold F in HF, Hcat.
  rewrite <- Hcat.
  apply (run_complete_gen h F _ HF ops [] []); try assumption.
  - apply Sub_nil.
  - reflexivity.
  - intros f Hf. right. apply Hall. exact Hf.
  - destruct Hmiss as [f [Hf Hno]]. exists f. split; [exact Hf|]. split; [intros []|exact Hno].
Qed.

(* unfragmented and DF packets are returned unchanged, and leave the state alone *)
Theorem v4_passthrough v st f t : dont_defrag f = true -> defrag4 v st f t = (st, RPass).
Proof. intros H. unfold defrag4. rewrite H. reflexivity. Qed.
