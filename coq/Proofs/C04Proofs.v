(* C04: ownership invariant of NewPacket / Dispose / pool over every history *)
From GP Require Import Base ListX C04Model.
Open Scope nat_scope.

Record Inv (s : st) : Prop := {
  i_callers : forall c, In c (callers s) -> c < length (mem s);
  i_pool : forall a, In a (pool s) -> a < length (mem s) /\ ~ In a (callers s);
  i_pool_nodup : NoDup (pool s);
  i_pooled : forall i p, nth_error (pkts s) i = Some p -> p_pooled p = true -> p_nocopy p = false;
  i_pk : forall i p, nth_error (pkts s) i = Some p -> owning p = true ->
         p_arr p < length (mem s) /\ ~ In (p_arr p) (callers s) /\ ~ In (p_arr p) (pool s) /\
         data_of s p = p_orig p;
  i_distinct : forall i j p q, i <> j -> nth_error (pkts s) i = Some p -> nth_error (pkts s) j = Some q ->
         owning p = true -> owning q = true -> p_arr p <> p_arr q
}.

Lemma inv0 : Inv st0.
Proof.
  constructor; cbn.
  - intros c H; contradiction.
  - intros a H; contradiction.
  - constructor.
  - intros [|i] p H; discriminate.
  - intros [|i] p H; discriminate.
  - intros [|i] j p q _ H; discriminate.
Qed.

Lemma NoDup_app_snoc {A} (l : list A) x : NoDup l /\ ~ In x l -> NoDup (l ++ [x]).
Proof.
  intros [H1 H2]. induction l as [|h t IH]; cbn.
  - constructor; [intros []|constructor].
  - inversion H1; subst. constructor.
    + intros Hin. apply in_app_or in Hin. destruct Hin as [Hin|[Hin|[]]]; [contradiction|].
      subst. apply H2. left; reflexivity.
    + apply IH; [assumption|]. intros Hin. apply H2. right; exact Hin.
Qed.

Lemma existsb_eqb_In x l : existsb (Nat.eqb x) l = true <-> In x l.
Proof.
  rewrite existsb_exists. split.
  - intros [y [Hy He]]. apply Nat.eqb_eq in He. subst. exact Hy.
  - intros H. exists x. split; [exact H|apply Nat.eqb_refl].
Qed.

Lemma In_remove_nth {A} (l : list A) k x : In x (remove_nth l k) -> In x l.
Proof.
  revert k; induction l as [|h t IH]; intros [|k] H; cbn in *; auto.
  destruct H as [H|H]; auto. right. eapply IH; exact H.
Qed.

Lemma NoDup_remove_nth {A} (l : list A) k : NoDup l -> NoDup (remove_nth l k).
Proof.
  revert k; induction l as [|h t IH]; intros [|k] H; cbn; auto.
  - inversion H; assumption.
  - inversion H; subst. constructor; [|apply IH; assumption].
    intros Hin. apply In_remove_nth in Hin. contradiction.
Qed.

Lemma remove_nth_not_In {A} (l : list A) k a :
  NoDup l -> nth_error l k = Some a -> ~ In a (remove_nth l k).
Proof.
  revert k; induction l as [|h t IH]; intros [|k] Hnd Hn; cbn in *; try discriminate.
  - inversion Hn; subst. inversion Hnd; assumption.
  - inversion Hnd; subst. intros [He|Hin].
    + subst. apply nth_error_In in Hn. contradiction.
    + eapply IH; eauto.
Qed.

Lemma nth_error_snoc {A} (l : list A) x i y :
  nth_error (l ++ [x]) i = Some y ->
  (i < length l /\ nth_error l i = Some y) \/ (i = length l /\ y = x).
Proof.
  intros H. destruct (Nat.lt_ge_cases i (length l)) as [Hlt|Hge].
  - left. rewrite nth_error_app1 in H by exact Hlt. auto.
  - right. rewrite nth_error_app2 in H by exact Hge.
    destruct (i - length l) as [|d] eqn:E; cbn in H.
    + inversion H. split; [lia|reflexivity].
    + destruct d; discriminate.
Qed.

Lemma arr_of_app s x a m' : a < length (mem s) -> mem m' = mem s ++ [x] -> arr_of m' a = arr_of s a.
Proof. intros H E. unfold arr_of. rewrite E, nth_error_app1 by exact H. reflexivity. Qed.

Lemma arr_of_upd s b x a m' : a <> b -> mem m' = upd (mem s) b x -> arr_of m' a = arr_of s a.
Proof.
  intros H E. unfold arr_of. rewrite E, nth_error_upd.
  destruct (Nat.eqb_spec a b); [contradiction|reflexivity].
Qed.

Lemma data_of_eq s s' p : arr_of s' (p_arr p) = arr_of s (p_arr p) -> data_of s' p = data_of s p.
Proof. intros H. unfold data_of. rewrite H. reflexivity. Qed.

Lemma firstn_app_exact {A} (l1 l2 : list A) n : n = length l1 -> firstn n (l1 ++ l2) = l1.
Proof. intros ->. rewrite firstn_app, Nat.sub_diag, firstn_all. cbn. apply app_nil_r. Qed.

(* the tactic used for "old packets are unaffected" goals *)
Ltac old_pkt Hpk i p Hn Ho :=
  destruct (Hpk i p Hn Ho) as [Ha [Hc [Hp Hd]]].

Lemma step_inv s o : Inv s -> Inv (step s o).
Proof.
  intros I. destruct I as [Hcal Hpool Hnd Hpooled Hpk Hdis].
  assert (Ibad : Inv (mark_bad s)) by (constructor; assumption).
  destruct o as [d|buf n nocopy usepool choice|p|buf i v|k]; cbn [step].
  - (* OBuf *)
    constructor; cbn [mem callers pool pkts].
    + intros c Hc. rewrite app_length; cbn. apply in_app_or in Hc. destruct Hc as [Hc|[Hc|[]]].
      * apply Hcal in Hc. lia. * lia.
    + intros a Ha. destruct (Hpool a Ha) as [H1 H2]. rewrite app_length; cbn. split; [lia|].
      intros Hin. apply in_app_or in Hin. destruct Hin as [Hin|[Hin|[]]]; [contradiction|lia].
    + exact Hnd.
    + exact Hpooled.
    + intros j q Hn Ho. old_pkt Hpk j q Hn Ho. rewrite app_length; cbn. repeat split; try lia; try assumption.
      * intros Hin. apply in_app_or in Hin. destruct Hin as [Hin|[Hin|[]]]; [contradiction|lia].
      * rewrite <- Hd. apply data_of_eq. eapply arr_of_app; [exact Ha|reflexivity].
    + exact Hdis.
  - (* ONew *)
    destruct (negb (existsb (Nat.eqb buf) (callers s)) || (length (arr_of s buf) <? n)) eqn:Eg; [exact Ibad|].
    apply orb_false_elim in Eg. destruct Eg as [Eg1 Eg2]. apply negb_false_iff in Eg1.
    apply existsb_eqb_In in Eg1. apply Nat.ltb_ge in Eg2.
    set (d := firstn n (arr_of s buf)).
    assert (Hdl : length d = n) by (unfold d; rewrite firstn_length; lia).
    destruct nocopy.
    { (* NoCopy: a non-owning packet is appended *)
      constructor; cbn [mem callers pool pkts]; try assumption.
      - intros j q Hn Hp. apply nth_error_snoc in Hn. destruct Hn as [[_ Hn]|[_ Hn]]; [eapply Hpooled; eauto|subst q; discriminate].
      - intros j q Hn Ho. apply nth_error_snoc in Hn. destruct Hn as [[_ Hn]|[_ Hn]]; [|subst q; discriminate].
        old_pkt Hpk j q Hn Ho. repeat split; assumption.
      - intros i j p q Hij Hi Hj Hop Hoq. apply nth_error_snoc in Hi. apply nth_error_snoc in Hj.
        destruct Hi as [[_ Hi]|[_ Hi]]; [|subst p; discriminate].
        destruct Hj as [[_ Hj]|[_ Hj]]; [|subst q; discriminate]. eapply Hdis; eauto. }
    destruct (usepool && (n <=? maximumMTU)) eqn:Eu.
    + destruct choice as [k|].
      * destruct (nth_error (pool s) k) as [a|] eqn:Ek; [|exact Ibad].
        assert (Hain : In a (pool s)) by (eapply nth_error_In; exact Ek).
        destruct (Hpool a Hain) as [Halt Hanc].
        constructor; cbn [mem callers pool pkts].
        -- intros c Hc. unfold copy_into. rewrite upd_length. apply Hcal; exact Hc.
        -- intros b Hb. apply In_remove_nth in Hb. unfold copy_into. rewrite upd_length. apply Hpool; exact Hb.
        -- apply NoDup_remove_nth; exact Hnd.
        -- intros j q Hn Hp. apply nth_error_snoc in Hn. destruct Hn as [[_ Hn]|[_ Hn]]; [eapply Hpooled; eauto|subst q; reflexivity].
        -- intros j q Hn Ho. apply nth_error_snoc in Hn. destruct Hn as [[_ Hn]|[_ Hn]].
           ++ old_pkt Hpk j q Hn Ho. unfold copy_into. rewrite upd_length. repeat split; try assumption.
              ** intros Hin. apply In_remove_nth in Hin. contradiction.
              ** rewrite <- Hd. apply data_of_eq. eapply arr_of_upd; [|reflexivity]. intros E. rewrite E in Hp. contradiction.
           ++ subst q. cbn [p_arr p_len p_orig]. unfold copy_into. rewrite upd_length. repeat split; try assumption.
              ** apply remove_nth_not_In; assumption.
              ** unfold data_of, arr_of; cbn [p_arr p_len mem]. rewrite nth_error_upd, Nat.eqb_refl.
                 destruct (Nat.ltb_spec a (length (mem s))); [|lia].
                 apply firstn_app_exact. symmetry; exact Hdl.
        -- intros i j p q Hij Hi Hj Hop Hoq. apply nth_error_snoc in Hi. apply nth_error_snoc in Hj.
           destruct Hi as [[Hil Hi]|[Hil Hi]]; destruct Hj as [[Hjl Hj]|[Hjl Hj]].
           ++ eapply Hdis; eauto.
           ++ subst q. cbn [p_arr]. old_pkt Hpk i p Hi Hop. intros E. rewrite E in Hp. contradiction.
           ++ subst p. cbn [p_arr]. old_pkt Hpk j q Hj Hoq. intros E. rewrite <- E in Hp. contradiction.
           ++ lia.
      * (* Get allocates a new block *)
        constructor; cbn [mem callers pool pkts].
        -- intros c Hc. rewrite app_length; cbn. apply Hcal in Hc. lia.
        -- intros b Hb. rewrite app_length; cbn. destruct (Hpool b Hb). split; [lia|assumption].
        -- exact Hnd.
        -- intros j q Hn Hp. apply nth_error_snoc in Hn. destruct Hn as [[_ Hn]|[_ Hn]]; [eapply Hpooled; eauto|subst q; reflexivity].
        -- intros j q Hn Ho. rewrite app_length; cbn. apply nth_error_snoc in Hn. destruct Hn as [[_ Hn]|[_ Hn]].
           ++ old_pkt Hpk j q Hn Ho. repeat split; try assumption; try lia.
              rewrite <- Hd. apply data_of_eq. eapply arr_of_app; [exact Ha|reflexivity].
           ++ subst q. cbn [p_arr p_len p_orig]. repeat split; try lia.
              ** intros Hin. apply Hcal in Hin. lia.
              ** intros Hin. apply Hpool in Hin. lia.
              ** unfold data_of, arr_of; cbn [p_arr p_len mem]. rewrite nth_error_app2 by lia.
                 rewrite Nat.sub_diag. cbn [nth_error]. apply firstn_app_exact. symmetry; exact Hdl.
        -- intros i j p q Hij Hi Hj Hop Hoq. apply nth_error_snoc in Hi. apply nth_error_snoc in Hj.
           destruct Hi as [[Hil Hi]|[Hil Hi]]; destruct Hj as [[Hjl Hj]|[Hjl Hj]].
           ++ eapply Hdis; eauto.
           ++ subst q. cbn [p_arr]. old_pkt Hpk i p Hi Hop. lia.
           ++ subst p. cbn [p_arr]. old_pkt Hpk j q Hj Hoq. lia.
           ++ lia.
    + (* plain copy *)
      constructor; cbn [mem callers pool pkts].
      * intros c Hc. rewrite app_length; cbn. apply Hcal in Hc. lia.
      * intros b Hb. rewrite app_length; cbn. destruct (Hpool b Hb). split; [lia|assumption].
      * exact Hnd.
      * intros j q Hn Hp. apply nth_error_snoc in Hn. destruct Hn as [[_ Hn]|[_ Hn]]; [eapply Hpooled; eauto|subst q; discriminate].
      * intros j q Hn Ho. rewrite app_length; cbn. apply nth_error_snoc in Hn. destruct Hn as [[_ Hn]|[_ Hn]].
        -- old_pkt Hpk j q Hn Ho. repeat split; try assumption; try lia.
           rewrite <- Hd. apply data_of_eq. eapply arr_of_app; [exact Ha|reflexivity].
        -- subst q. cbn [p_arr p_len p_orig]. repeat split; try lia.
           ++ intros Hin. apply Hcal in Hin. lia.
           ++ intros Hin. apply Hpool in Hin. lia.
           ++ unfold data_of, arr_of; cbn [p_arr p_len mem]. rewrite nth_error_app2 by lia.
              rewrite Nat.sub_diag. cbn [nth_error]. rewrite <- Hdl. apply firstn_all.
      * intros i j p q Hij Hi Hj Hop Hoq. apply nth_error_snoc in Hi. apply nth_error_snoc in Hj.
        destruct Hi as [[Hil Hi]|[Hil Hi]]; destruct Hj as [[Hjl Hj]|[Hjl Hj]].
        -- eapply Hdis; eauto.
        -- subst q. cbn [p_arr]. old_pkt Hpk i p Hi Hop. lia.
        -- subst p. cbn [p_arr]. old_pkt Hpk j q Hj Hoq. lia.
        -- lia.
  - (* ODispose *)
    destruct (nth_error (pkts s) p) as [q|] eqn:Eq; [|exact Ibad].
    destruct (p_pooled q && negb (p_disposed q)) eqn:Ec; [|exact Ibad].
    apply andb_prop in Ec. destruct Ec as [Ec1 Ec2]. apply negb_true_iff in Ec2.
    assert (Hqo : owning q = true).
    { unfold owning. rewrite (Hpooled p q Eq Ec1), Ec2. reflexivity. }
    destruct (Hpk p q Eq Hqo) as [Hqa [Hqc [Hqp Hqd]]].
    assert (Hplt : p < length (pkts s)) by (eapply nth_error_Some_lt; exact Eq).
    constructor; cbn [mem callers pool pkts].
    + exact Hcal.
    + intros a Ha. apply in_app_or in Ha. destruct Ha as [Ha|[Ha|[]]]; [apply Hpool; exact Ha|].
      subst a. split; assumption.
    + apply NoDup_app_snoc. split; assumption.
    + intros j r Hn Hp. rewrite nth_error_upd in Hn. destruct (Nat.eqb_spec j p).
      * destruct (Nat.ltb_spec p (length (pkts s))); [|discriminate]. inversion Hn; subst r. cbn.
        eapply Hpooled; eauto.
      * eapply Hpooled; eauto.
    + intros j r Hn Ho. rewrite nth_error_upd in Hn. destruct (Nat.eqb_spec j p) as [Hjp|Hjp].
      * destruct (Nat.ltb_spec p (length (pkts s))); [|discriminate]. inversion Hn; subst r.
        unfold owning in Ho; cbn in Ho. rewrite andb_false_r in Ho. discriminate.
      * old_pkt Hpk j r Hn Ho. repeat split; try assumption.
        intros Hin. apply in_app_or in Hin. destruct Hin as [Hin|[Hin|[]]]; [contradiction|].
        apply (Hdis j p r q Hjp Hn Eq Ho Hqo). symmetry; exact Hin.
    + intros i j r1 r2 Hij Hi Hj Ho1 Ho2. rewrite nth_error_upd in Hi, Hj.
      destruct (Nat.eqb_spec i p) as [Hip|Hip].
      { destruct (Nat.ltb_spec p (length (pkts s))); [|discriminate]. inversion Hi; subst r1.
        unfold owning in Ho1; cbn in Ho1. rewrite andb_false_r in Ho1. discriminate. }
      destruct (Nat.eqb_spec j p) as [Hjp|Hjp].
      { destruct (Nat.ltb_spec p (length (pkts s))); [|discriminate]. inversion Hj; subst r2.
        unfold owning in Ho2; cbn in Ho2. rewrite andb_false_r in Ho2. discriminate. }
      exact (Hdis i j r1 r2 Hij Hi Hj Ho1 Ho2).
  - (* OMut *)
    destruct (existsb (Nat.eqb buf) (callers s)) eqn:Eb; [|exact Ibad].
    apply existsb_eqb_In in Eb.
    constructor; cbn [mem callers pool pkts]; try assumption.
    + intros c Hc. rewrite upd_length. apply Hcal; exact Hc.
    + intros a Ha. rewrite upd_length. apply Hpool; exact Ha.
    + intros j q Hn Ho. old_pkt Hpk j q Hn Ho. rewrite upd_length. repeat split; try assumption.
      rewrite <- Hd. apply data_of_eq. eapply arr_of_upd; [|reflexivity]. intros E. rewrite E in Hc. contradiction.
  - (* ODrop *)
    constructor; cbn [mem callers pool pkts]; try assumption.
    + intros a Ha. apply In_remove_nth in Ha. apply Hpool; exact Ha.
    + apply NoDup_remove_nth; exact Hnd.
    + intros j q Hn Ho. old_pkt Hpk j q Hn Ho. repeat split; try assumption.
      intros Hin. apply In_remove_nth in Hin. contradiction.
Qed.

Lemma run_inv ops : Inv (run ops).
Proof.
  unfold run. assert (H : forall s, Inv s -> Inv (fold_left step ops s)).
  { induction ops as [|o r IH]; intros s I; cbn; [exact I|]. apply IH. apply step_inv. exact I. }
  apply H. exact inv0.
Qed.

(* every continuation of a history: a packet that owns its bytes keeps them *)
Lemma isolated ops i p :
  nth_error (pkts (run ops)) i = Some p -> owning p = true -> data_of (run ops) p = p_orig p.
Proof. intros Hn Ho. destruct (i_pk _ (run_inv ops) i p Hn Ho) as [_ [_ [_ H]]]. exact H. Qed.

Lemma pool_disjoint ops i j p q :
  i <> j -> nth_error (pkts (run ops)) i = Some p -> nth_error (pkts (run ops)) j = Some q ->
  owning p = true -> owning q = true ->
  p_arr p <> p_arr q /\ ~ In (p_arr p) (pool (run ops)) /\ ~ In (p_arr p) (callers (run ops)).
Proof.
  intros Hij Hi Hj Hp Hq. pose proof (run_inv ops) as I. split.
  - exact (i_distinct _ I i j p q Hij Hi Hj Hp Hq).
  - destruct (i_pk _ I i p Hi Hp) as [_ [A [B _]]]. split; assumption.
Qed.

(* what a packet holds right after creation, for every option combination *)
Lemma new_data s buf n nocopy usepool choice :
  Inv s -> let s' := step s (ONew buf n nocopy usepool choice) in
  bad s' = false ->
  exists p, pkts s' = pkts s ++ [p] /\ data_of s' p = firstn n (arr_of s buf) /\
            p_orig p = firstn n (arr_of s buf) /\ p_len p = n /\ length (data_of s' p) = n /\
            p_nocopy p = nocopy /\ p_disposed p = false /\
            p_pooled p = negb nocopy && usepool && (n <=? maximumMTU).
Proof.
  intros I s' Hb. unfold s' in *. clear s'. destruct I as [Hcal Hpool Hnd Hpooled Hpk Hdis].
  cbn [step] in *.
  destruct (negb (existsb (Nat.eqb buf) (callers s)) || (length (arr_of s buf) <? n)) eqn:Eg; [discriminate|].
  apply orb_false_elim in Eg. destruct Eg as [Eg1 Eg2]. apply negb_false_iff in Eg1.
  apply existsb_eqb_In in Eg1. apply Nat.ltb_ge in Eg2.
  set (d := firstn n (arr_of s buf)) in *.
  assert (Hdl : length d = n) by (unfold d; rewrite firstn_length; lia).
  destruct nocopy.
  - eexists. split; [reflexivity|]. cbn [p_orig p_len p_nocopy p_pooled p_disposed negb andb].
    assert (Hd : data_of {| mem := mem s; callers := callers s; pool := pool s;
        pkts := pkts s ++ [{| p_arr := buf; p_len := n; p_nocopy := true; p_pooled := false; p_disposed := false; p_orig := d |}];
        bad := bad s |} {| p_arr := buf; p_len := n; p_nocopy := true; p_pooled := false; p_disposed := false; p_orig := d |} = d) by reflexivity.
    rewrite Hd. repeat split; auto.
  - cbn [negb andb]. destruct (usepool && (n <=? maximumMTU)) eqn:Eu.
    + destruct choice as [k|].
      * destruct (nth_error (pool s) k) as [a|] eqn:Ek; [|discriminate].
        assert (Hain : In a (pool s)) by (eapply nth_error_In; exact Ek).
        destruct (Hpool a Hain) as [Halt _].
        eexists. split; [reflexivity|]. cbn [p_orig p_len p_nocopy p_pooled p_disposed].
        assert (Hd : forall st1 pk, mem st1 = copy_into s a d -> p_arr pk = a -> p_len pk = n -> data_of st1 pk = d).
        { intros st1 pk E1 E2 E3. unfold data_of, arr_of. rewrite E1, E2, E3. unfold copy_into.
          rewrite nth_error_upd, Nat.eqb_refl. destruct (Nat.ltb_spec a (length (mem s))); [|lia].
          apply firstn_app_exact. symmetry; exact Hdl. }
        match goal with |- data_of ?S ?P = _ /\ _ => rewrite (Hd S P eq_refl eq_refl eq_refl) end. repeat split; auto.
      * eexists. split; [reflexivity|]. cbn [p_orig p_len p_nocopy p_pooled p_disposed].
        assert (Hd : forall st1 pk, mem st1 = mem s ++ [d ++ repeat 0%Z (maximumMTU - n)] -> p_arr pk = length (mem s) -> p_len pk = n -> data_of st1 pk = d).
        { intros st1 pk E1 E2 E3. unfold data_of, arr_of. rewrite E1, E2, E3.
          rewrite nth_error_app2 by lia. rewrite Nat.sub_diag. cbn [nth_error].
          apply firstn_app_exact. symmetry; exact Hdl. }
        match goal with |- data_of ?S ?P = _ /\ _ => rewrite (Hd S P eq_refl eq_refl eq_refl) end. repeat split; auto.
    + eexists. split; [reflexivity|]. cbn [p_orig p_len p_nocopy p_pooled p_disposed].
      assert (Hd : forall st1 pk, mem st1 = mem s ++ [d] -> p_arr pk = length (mem s) -> p_len pk = n -> data_of st1 pk = d).
      { intros st1 pk E1 E2 E3. unfold data_of, arr_of. rewrite E1, E2, E3.
        rewrite nth_error_app2 by lia. rewrite Nat.sub_diag. cbn [nth_error]. rewrite <- Hdl. apply firstn_all. }
      match goal with |- data_of ?S ?P = _ /\ _ => rewrite (Hd S P eq_refl eq_refl eq_refl) end. repeat split; auto.
Qed.

(* packets larger than the pool's block take the plain copy path *)
Lemma large_not_pooled s buf n nocopy usepool choice :
  Inv s -> maximumMTU < n -> bad (step s (ONew buf n nocopy usepool choice)) = false ->
  exists p, pkts (step s (ONew buf n nocopy usepool choice)) = pkts s ++ [p] /\ p_pooled p = false /\
            data_of (step s (ONew buf n nocopy usepool choice)) p = firstn n (arr_of s buf).
Proof.
  intros I Hn Hb. destruct (new_data s buf n nocopy usepool choice I Hb) as [p [H1 [H2 [_ [_ [_ [_ [_ H7]]]]]]]].
  exists p. split; [exact H1|]. split; [|exact H2]. rewrite H7.
  destruct (Nat.leb_spec n maximumMTU); [lia|]. rewrite andb_false_r. reflexivity.
Qed.

Lemma bad_mono s o : bad s = true -> bad (step s o) = true.
Proof.
  intros H. destruct o as [d|buf n nocopy usepool choice|p|buf i v|k]; cbn [step]; try exact H.
  - destruct (negb (existsb (Nat.eqb buf) (callers s)) || (length (arr_of s buf) <? n)); [reflexivity|].
    destruct nocopy; [exact H|]. destruct (usepool && (n <=? maximumMTU)); [|exact H].
    destruct choice as [k|]; [|exact H]. destruct (nth_error (pool s) k); [exact H|reflexivity].
  - destruct (nth_error (pkts s) p) as [q|]; [|reflexivity].
    destruct (p_pooled q && negb (p_disposed q)); [exact H|reflexivity].
  - destruct (existsb (Nat.eqb buf) (callers s)); [exact H|reflexivity].
Qed.
