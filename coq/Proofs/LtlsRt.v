(* TLS: serialize (FixLengths) then decode gives back the records (C06). *)
From GP Require Import Base ListX Codec MiscLib MidLib LtlsModel LtlsProofs LtlsSer.
From Coq Require Import Lia ZifyBool ZifyNat.
Open Scope Z_scope.
Ltac Zify.zify_post_hook ::= Z.div_mod_to_equations.

(* the values SerializeTo writes faithfully: no Handshake record, content types matching the lists,
   16-bit versions, ChangeCipherSpec message 1 or 255, alerts either plain (byte level and description) or
   encrypted with 3..65535 octets and level = description = 255, application data below 2^16 octets *)
Definition hdr_wf (h : thdr) (ct : Z) : Prop := th_ct h = ct /\ 0 <= th_ver h < 65536.
Definition rec_wf (r : trec) : Prop :=
  match r with
  | RCcs h m => hdr_wf h 20 /\ (m = 1 \/ m = 255)
  | RHs _ _ => False
  | RApp h p => hdr_wf h 23 /\ zlen p < 65536
  | RAlert h lv d e => hdr_wf h 21 /\
      ((e = [] /\ 0 <= lv < 256 /\ 0 <= d < 256) \/ (3 <= zlen e < 65536 /\ lv = 255 /\ d = 255))
  end.
Definition k_ccs (r : trec) := match r with RCcs _ _ => true | _ => false end.
Definition k_hs (r : trec) := match r with RHs _ _ => true | _ => false end.
Definition k_app (r : trec) := match r with RApp _ _ => true | _ => false end.
Definition k_alert (r : trec) := match r with RAlert _ _ _ _ => true | _ => false end.
Definition tls_wf (l : tls) : Prop :=
  tl_hs l = [] /\ Forall rec_wf (tl_ccs l) /\ Forall rec_wf (tl_app l) /\ Forall rec_wf (tl_alert l) /\
  forallb k_ccs (tl_ccs l) = true /\ forallb k_app (tl_app l) = true /\ forallb k_alert (tl_alert l) = true /\
  tl_ccs l ++ tl_app l ++ tl_alert l <> [].

(* a record whose Length is already the body length *)
Definition rec_ok (r : trec) : Prop := rec_wf r /\ th_len (rec_hdr r) = rec_blen r.

Definition rec_body (r : trec) : list Z :=
  match r with
  | RCcs _ m => [m mod 256] | RHs _ _ => [] | RApp _ p => p
  | RAlert _ l d e => if zlen e =? 0 then [l mod 256; d mod 256] else e
  end.

Lemma rec_bytes_eq r : md_flat (rec_chunks r) = tls_hdr_bytes (rec_hdr r) ++ rec_body r.
Proof.
  destruct r as [h m|h c|h p|h l d e]; unfold rec_chunks, md_flat; cbn [rec_body rec_hdr map concat snd]; f_equal.
  all: try reflexivity; try apply app_nil_r.
  destruct (zlen e =? 0); cbn [map concat snd app]; [reflexivity|apply app_nil_r].
Qed.

Lemma rec_body_len r : rec_wf r -> zlen (rec_body r) = rec_blen r /\ rec_blen r < 65536.
Proof.
  destruct r as [h m|h c|h p|h l d e]; cbn [rec_wf rec_body rec_blen]; intros W.
  - split; [reflexivity|lia]. - contradiction. - lia.
  - destruct W as [_ [[-> _]|[H _]]]; [cbn; lia|].
    destruct (zlen e =? 0) eqn:E; lia.
Qed.

Lemma rec_decodes r ext : rec_ok r ->
  tls_record false (mkTh (th_ct (rec_hdr r)) (th_ver (rec_hdr r)) (rec_blen r)) (rec_body r) ext = (Ok r, false).
Proof.
  intros [W L]. destruct r as [h m|h c|h p|h l d e]; cbn [rec_wf rec_hdr rec_blen rec_body] in *.
  - destruct W as [[C V] M]. destruct h as [ct ver len]; cbn [th_ct th_ver th_len] in *. subst ct len.
    unfold tls_record. cbn [th_ct Z.eqb Pos.eqb]. change (zlen [m mod 256]) with 1. cbn [Z.eqb Pos.eqb negb].
    rewrite cd_idx_ok by (change (zlen [m mod 256]) with 1; lia). cbn [Z.to_nat nth].
    destruct M as [-> | ->]; reflexivity.
  - contradiction.
  - destruct W as [[C V] P]. destruct h as [ct ver len]; cbn [th_ct th_ver th_len] in *. subst ct len.
    unfold tls_record. cbn [th_ct th_len Z.eqb Pos.eqb]. rewrite Z.eqb_refl. reflexivity.
  - destruct W as [[C V] A]. destruct h as [ct ver len]; cbn [th_ct th_ver th_len] in *. subst ct.
    unfold tls_record. cbn [th_ct th_len Z.eqb Pos.eqb].
    destruct A as [[-> [Rl Rd]]|[Re [-> ->]]].
    + change (zlen []) with 0 in *. cbn [Z.eqb] in *. subst len. change (zlen [l mod 256; d mod 256]) with 2.
      cbn [Z.ltb Z.compare Pos.compare Pos.compare_cont Z.eqb Pos.eqb].
      rewrite !cd_idx_ok by (change (zlen [l mod 256; d mod 256]) with 2; lia). cbn [obind Z.to_nat Pos.to_nat Pos.iter_op Nat.add nth].
      replace (l mod 256) with l by lia. replace (d mod 256) with d by lia. reflexivity.
    + destruct (zlen e =? 0) eqn:E0; [lia|]. subst len.
      destruct (zlen e <? 2) eqn:E1; [lia|]. destruct (zlen e =? 2) eqn:E2; [lia|]. reflexivity.
Qed.

Lemma hdr_nth h rest :
  nth 0 (tls_hdr_bytes h ++ rest) 0 = th_ct h mod 256 /\
  nth 1 (tls_hdr_bytes h ++ rest) 0 = (th_ver h mod 65536 / 256) mod 256 /\
  nth 2 (tls_hdr_bytes h ++ rest) 0 = (th_ver h mod 65536) mod 256 /\
  nth 3 (tls_hdr_bytes h ++ rest) 0 = (th_len h mod 65536 / 256) mod 256 /\
  nth 4 (tls_hdr_bytes h ++ rest) 0 = (th_len h mod 65536) mod 256.
Proof. repeat split; reflexivity. Qed.

Lemma hdr_len h : length (tls_hdr_bytes h) = 5%nat.
Proof. reflexivity. Qed.

(* one round of the record walk on a well-formed record followed by `rest` *)
Lemma tls_walk_step f st tr r rest : rec_ok r ->
  let data := md_flat (rec_chunks r) ++ rest in
  let st2 := tls_add (tls_setc st data) data r in
  tls_walk false (S f) st data tr =
    if zlen rest =? 0 then (st2, Ok tt, tr) else tls_walk false f st2 rest tr.
Proof.
  intros Hok data st2. pose proof Hok as [W L]. destruct (rec_body_len r W) as [Bl Bb].
  assert (Hd : data = tls_hdr_bytes (rec_hdr r) ++ rec_body r ++ rest).
  { unfold data. rewrite rec_bytes_eq, <- app_assoc. reflexivity. }
  assert (Hn : zlen data = 5 + rec_blen r + zlen rest).
  { rewrite Hd, !zlen_app. unfold zlen at 1. rewrite hdr_len. lia. }
  pose proof (zlen_nonneg rest) as Hr. pose proof (zlen_nonneg (rec_body r)) as Hbn.
  assert (Hct : th_ct (rec_hdr r) = 20 \/ th_ct (rec_hdr r) = 21 \/ th_ct (rec_hdr r) = 23).
  { destruct r; cbn [rec_wf rec_hdr] in *; unfold hdr_wf in W; intuition. }
  assert (Hv : 0 <= th_ver (rec_hdr r) < 65536).
  { destruct r; cbn [rec_wf rec_hdr] in *; unfold hdr_wf in W; intuition. }
  cbn [tls_walk]. cbv zeta. fold data.
  destruct (zlen data <? 5) eqn:C0; [lia|].
  rewrite cd_idx_ok by lia. cbn [ml_bind]. rewrite !cd_rd16_ok by lia. cbn [ml_bind].
  change (Z.to_nat 0) with 0%nat. change (Z.to_nat 1) with 1%nat. change (Z.to_nat (1 + 1)) with 2%nat.
  change (Z.to_nat 3) with 3%nat. change (Z.to_nat (3 + 1)) with 4%nat.
  destruct (hdr_nth (rec_hdr r) (rec_body r ++ rest)) as [N0 [N1 [N2 [N3 N4]]]].
  rewrite <- Hd in N0, N1, N2, N3, N4. rewrite N0, N1, N2, N3, N4.
  replace (th_ct (rec_hdr r) mod 256) with (th_ct (rec_hdr r)) by lia.
  replace (_ * 256 + (th_ver (rec_hdr r) mod 65536) mod 256) with (th_ver (rec_hdr r)) by lia.
  replace (_ * 256 + (th_len (rec_hdr r) mod 65536) mod 256) with (rec_blen r) by lia.
  assert (Hk : negb ((th_ct (rec_hdr r) =? 20) || (th_ct (rec_hdr r) =? 21) || (th_ct (rec_hdr r) =? 22) || (th_ct (rec_hdr r) =? 23)) = false).
  { destruct Hct as [-> | [-> | ->]]; reflexivity. }
  rewrite Hk. destruct (zlen data <? 5 + rec_blen r) eqn:C1; [lia|].
  rewrite !cd_slc_ok by lia. cbn [ml_bind].
  assert (Hb : slice data (Z.to_nat 5) (Z.to_nat (5 + rec_blen r)) = rec_body r).
  { rewrite Hd. apply slice_at; [reflexivity|]. rewrite hdr_len. unfold zlen in Bl. lia. }
  rewrite Hb. rewrite rec_decodes by exact Hok. rewrite Bool.orb_false_r.
  destruct (zlen rest =? 0) eqn:C2.
  - destruct (zlen data =? 5 + rec_blen r) eqn:C3; [reflexivity|lia].
  - destruct (zlen data =? 5 + rec_blen r) eqn:C3; [lia|]. cbn [ml_bind].
    assert (Hs : slice data (Z.to_nat (5 + rec_blen r)) (Z.to_nat (zlen data)) = rest).
    { rewrite Hd, app_assoc. apply slice_to_end.
      - rewrite app_length, hdr_len. unfold zlen in Bl. lia.
      - rewrite <- app_assoc, <- Hd. rewrite app_length, hdr_len. unfold zlen in *. lia. }
    rewrite Hs. reflexivity.
Qed.

Definition recs_bytes (rs : list trec) : list Z := md_flat (flat_map rec_chunks rs).

Lemma recs_bytes_cons r rs : recs_bytes (r :: rs) = md_flat (rec_chunks r) ++ recs_bytes rs.
Proof. unfold recs_bytes. cbn [flat_map]. apply md_flat_app. Qed.

Lemma recs_bytes_len r rs : rec_ok r -> 5 <= zlen (recs_bytes (r :: rs)).
Proof.
  intros [W _]. rewrite recs_bytes_cons, rec_bytes_eq, !zlen_app. unfold zlen at 1. rewrite hdr_len.
  pose proof (zlen_nonneg (rec_body r)). pose proof (zlen_nonneg (recs_bytes rs)). lia.
Qed.

Lemma tls_add_lists st c r :
  tl_ccs (tls_add st c r) = tl_ccs st ++ filter k_ccs [r] /\ tl_hs (tls_add st c r) = tl_hs st ++ filter k_hs [r] /\
  tl_app (tls_add st c r) = tl_app st ++ filter k_app [r] /\ tl_alert (tls_add st c r) = tl_alert st ++ filter k_alert [r] /\
  tl_payload (tls_add st c r) = [].
Proof. destruct r; cbn; rewrite ?app_nil_r; repeat split; reflexivity. Qed.

Lemma filter_cons1 (k : trec -> bool) a l : filter k (a :: l) = filter k [a] ++ filter k l.
Proof. cbn. destruct (k a); reflexivity. Qed.

Lemma tls_walk_all : forall rs, Forall rec_ok rs -> rs <> [] -> forall fuel st tr,
  zlen (recs_bytes rs) < Z.of_nat fuel ->
  exists d, tls_walk false fuel st (recs_bytes rs) tr = (d, Ok tt, tr) /\
    tl_ccs d = tl_ccs st ++ filter k_ccs rs /\ tl_hs d = tl_hs st ++ filter k_hs rs /\
    tl_app d = tl_app st ++ filter k_app rs /\ tl_alert d = tl_alert st ++ filter k_alert rs /\ tl_payload d = [].
Proof.
  induction rs as [|r rs IH]; intros HF Hne fuel st tr Hf; [congruence|].
  inversion HF as [|? ? Hr HF']; subst.
  destruct fuel as [|f]; [pose proof (recs_bytes_len r rs Hr); lia|].
  rewrite recs_bytes_cons. rewrite (tls_walk_step f st tr r (recs_bytes rs) Hr). cbv zeta.
  rewrite <- recs_bytes_cons.
  set (st2 := tls_add _ _ r).
  destruct (tls_add_lists (tls_setc st (recs_bytes (r :: rs))) (recs_bytes (r :: rs)) r) as [A1 [A2 [A3 [A4 A5]]]].
  fold st2 in A1, A2, A3, A4, A5. cbn [tls_setc tl_ccs tl_hs tl_app tl_alert] in A1, A2, A3, A4.
  destruct rs as [|r2 rs2].
  - change (recs_bytes []) with (@nil Z). change (zlen []) with 0. cbn [Z.eqb].
    exists st2. split; [reflexivity|]. repeat split; assumption.
  - inversion HF' as [|? ? Hr2 _]; subst. pose proof (recs_bytes_len r2 rs2 Hr2) as H5.
    destruct (zlen (recs_bytes (r2 :: rs2)) =? 0) eqn:C; [lia|].
    assert (Hf2 : zlen (recs_bytes (r2 :: rs2)) < Z.of_nat f).
    { rewrite recs_bytes_cons, zlen_app in Hf. pose proof (recs_bytes_len r [] Hr) as H6. rewrite recs_bytes_cons, zlen_app in H6.
      change (zlen (recs_bytes [])) with 0 in H6. lia. }
    destruct (IH HF' ltac:(discriminate) f st2 tr Hf2) as [d [E [B1 [B2 [B3 [B4 B5]]]]]].
    exists d. split; [exact E|].
    rewrite (filter_cons1 k_ccs r (r2 :: rs2)), (filter_cons1 k_hs r (r2 :: rs2)), (filter_cons1 k_app r (r2 :: rs2)), (filter_cons1 k_alert r (r2 :: rs2)).
    rewrite B1, B2, B3, B4, A1, A2, A3, A4, <- !app_assoc.
    repeat split; try reflexivity. exact B5.
Qed.

Lemma rec_fix_ok r : rec_wf r -> rec_ok (rec_fix true true r).
Proof.
  intros W. destruct (rec_body_len r W) as [_ Hb].
  assert (H0 : 0 <= rec_blen r).
  { destruct r; cbn [rec_blen]; try lia; try apply zlen_nonneg. destruct (zlen enc =? 0); [lia|apply zlen_nonneg]. }
  destruct r as [h m|h c|h p|h l d e]; cbn [rec_wf] in W; try contradiction;
    unfold rec_ok, rec_fix; cbn [andb rec_set_len rec_wf rec_hdr th_len rec_blen hdr_wf th_ct th_ver] in *;
    (split; [exact W|]); cbn [rec_blen] in *; lia.
Qed.


Lemma filter_all k (l : list trec) : forallb k l = true -> filter k l = l.
Proof. induction l as [|a l IH]; cbn; [reflexivity|]. intros H. apply andb_prop in H as [H1 H2]. rewrite H1, IH by exact H2. reflexivity. Qed.

Lemma filter_none k k' (l : list trec) : forallb k l = true -> (forall r, k r = true -> k' r = false) -> filter k' l = [].
Proof.
  induction l as [|a l IH]; cbn; [reflexivity|]. intros H D. apply andb_prop in H as [H1 H2].
  rewrite (D a H1). apply IH; assumption.
Qed.

Lemma forallb_map_fix k (l : list trec) : (forall r, k (rec_fix true true r) = k r) ->
  forallb k (map (rec_fix true true) l) = forallb k l.
Proof. intros H. induction l as [|a l IH]; cbn [map forallb]; [reflexivity|]. rewrite H, IH. reflexivity. Qed.

Lemma k_fix r : k_ccs (rec_fix true true r) = k_ccs r /\ k_hs (rec_fix true true r) = k_hs r /\
  k_app (rec_fix true true r) = k_app r /\ k_alert (rec_fix true true r) = k_alert r.
Proof. destruct r; repeat split; reflexivity. Qed.

Lemma tls_roundtrip : forall l csum junk bytes l' old,
  tls_wf l -> tls_serialize l [] true csum junk = (Ok bytes, l') ->
  exists d, tls_decode_into old bytes = (d, Ok tt, false) /\
    tl_ccs d = tl_ccs l' /\ tl_hs d = [] /\ tl_app d = tl_app l' /\ tl_alert d = tl_alert l' /\ tl_payload d = [].
Proof.
  intros l csum junk bytes l' old [Hh [Wc [Wa [Wl [Kc [Ka [Kl Hne]]]]]]] Hs.
  unfold tls_serialize in Hs. rewrite tls_serialize_eq in Hs. inversion Hs as [[Hb Hl']]. clear Hs.
  rewrite app_nil_r. unfold tls_recs, tls_fixed. cbn [tl_ccs tl_hs tl_app tl_alert]. rewrite Hh. cbn [map app].
  set (fx := rec_fix true true).
  set (rs := map fx (tl_ccs l) ++ map fx (tl_app l) ++ map fx (tl_alert l)).
  assert (HF : Forall rec_ok rs).
  { unfold rs. rewrite !Forall_app. repeat split; apply Forall_map; eapply Forall_impl; try apply rec_fix_ok; assumption. }
  assert (Hne' : rs <> []).
  { unfold rs. intros E. apply Hne. apply app_eq_nil in E as [E1 E]. apply app_eq_nil in E as [E2 E3].
    apply map_eq_nil in E1, E2, E3. rewrite E1, E2, E3. reflexivity. }
  unfold tls_decode_into, tls_decode_gen.
  destruct (tls_walk_all rs HF Hne' (S (length (recs_bytes rs))) (mkTls (recs_bytes rs) [] [] [] [] []) false
              ltac:(unfold zlen; lia)) as [d [E [B1 [B2 [B3 [B4 B5]]]]]].
  exists d. fold (recs_bytes rs). split; [exact E|]. cbn [tl_ccs tl_hs tl_app tl_alert app] in B1, B2, B3, B4.
  assert (Kc' : forallb k_ccs (map fx (tl_ccs l)) = true) by (unfold fx; rewrite forallb_map_fix; [exact Kc|intros r; apply k_fix]).
  assert (Ka' : forallb k_app (map fx (tl_app l)) = true) by (unfold fx; rewrite forallb_map_fix; [exact Ka|intros r; apply k_fix]).
  assert (Kl' : forallb k_alert (map fx (tl_alert l)) = true) by (unfold fx; rewrite forallb_map_fix; [exact Kl|intros r; apply k_fix]).
  unfold rs in B1, B2, B3, B4. rewrite !filter_app in B1, B2, B3, B4.
  rewrite (filter_all _ _ Kc'), (filter_none k_app k_ccs _ Ka'), (filter_none k_alert k_ccs _ Kl'), !app_nil_r in B1
    by (intros r; destruct r; cbn; congruence).
  rewrite (filter_none k_ccs k_hs _ Kc'), (filter_none k_app k_hs _ Ka'), (filter_none k_alert k_hs _ Kl') in B2
    by (intros r; destruct r; cbn; congruence).
  rewrite (filter_none k_ccs k_app _ Kc'), (filter_all _ _ Ka'), (filter_none k_alert k_app _ Kl'), !app_nil_r in B3
    by (intros r; destruct r; cbn; congruence).
  rewrite (filter_none k_ccs k_alert _ Kc'), (filter_none k_app k_alert _ Ka'), (filter_all _ _ Kl') in B4
    by (intros r; destruct r; cbn; congruence).
  cbn [app] in B1, B2, B3, B4. repeat split; assumption.
Qed.

(* FixLengths is idempotent *)
Lemma rec_fix_idem r : rec_fix true true (rec_fix true true r) = rec_fix true true r.
Proof. destruct r as [h m|h c|h p|h l d e]; destruct h; reflexivity. Qed.

Lemma map_fix_idem l : map (rec_fix true true) (map (rec_fix true true) l) = map (rec_fix true true) l.
Proof. rewrite map_map. apply map_ext. intros r. apply rec_fix_idem. Qed.

(* re-serializing the decoded layer gives the same bytes *)
Lemma tls_fixpoint : forall l csum junk bytes l' old d junk2,
  tls_wf l -> tls_serialize l [] true csum junk = (Ok bytes, l') -> tls_decode_into old bytes = (d, Ok tt, false) ->
  fst (tls_serialize d [] true csum junk2) = Ok bytes.
Proof.
  intros l csum junk bytes l' old d junk2 W S D.
  destruct (tls_roundtrip l csum junk bytes l' old W S) as [d' [D' [E1 [E2 [E3 [E4 _]]]]]].
  rewrite D in D'. inversion D'; subst d'. clear D'.
  unfold tls_serialize in *. rewrite tls_serialize_eq in S. inversion S as [[Hb Hl']]. clear S.
  rewrite tls_serialize_eq. cbn [fst]. f_equal. f_equal. f_equal. f_equal.
  unfold tls_recs, tls_fixed. cbn [tl_ccs tl_hs tl_app tl_alert].
  rewrite E1, E2, E3, E4. subst l'. unfold tls_fixed. cbn [tl_ccs tl_hs tl_app tl_alert map].
  destruct W as [Hh _]. rewrite Hh. cbn [map]. rewrite !map_fix_idem. reflexivity.
Qed.
