(* Lgre — lemmas about the GRE model *)
From GP Require Import Base ListX N6Lib LgreModel.
From Coq Require Import Lia ZifyBool ZifyNat.
Open Scope Z_scope.
Ltac Zify.zify_post_hook ::= Z.div_mod_to_equations.

Lemma nthZ_byte_g l i : bytes_ok l -> 0 <= i < n6_len l -> 0 <= nthZ l (Z.to_nat i) < 256.
Proof. intros H Hi. apply nthZ_ok; [exact H|]. unfold n6_len in Hi. lia. Qed.

(* ---------------------------------------------------------------- C19 *)

(* a step is good when it did not panic and, if it continues, the offset lies inside the data *)
Definition good (data : list Z) (s : dstep) : Prop :=
  match s with
  | Stop (_, r, _) => is_panic r = false
  | Cont _ o => 4 <= o <= n6_len data
  end.

Lemma field4_good data offset g k : 4 <= offset ->
  (forall b, offset + 4 <= n6_len data -> good data (k b)) -> good data (field4 data offset g k).
Proof.
  intros Ho Hk. unfold field4, short. destruct (n6_len data - offset <? 4) eqn:E; [reflexivity|].
  rewrite (n6_slice_eq data offset (offset + 4)) by lia. apply Hk. lia.
Qed.

Lemma dbind_good data s f : good data s -> (forall g o, 4 <= o <= n6_len data -> good data (f g o)) -> good data (dbind s f).
Proof. intros Hs Hf. destruct s as [g o|[[g r] t]]; cbn [dbind]; [apply Hf, Hs|exact Hs]. Qed.

Lemma sre_loop_good fuel : forall data g offset, bytes_ok data -> 4 <= offset <= n6_len data ->
  (Z.to_nat (n6_len data - offset) < fuel)%nat -> good data (sre_loop fuel data g offset).
Proof.
  induction fuel as [|f IH]; intros data g offset Hb Ho Hf; [lia|].
  cbn [sre_loop]. unfold short. destruct (n6_len data - offset <? 4) eqn:E; [reflexivity|].
  rewrite (n6_slice_eq data offset (offset + 2)), (n6_idx_eq data (offset + 2)), (n6_idx_eq data (offset + 3)) by lia.
  pose proof (nthZ_byte_g data (offset + 3) Hb ltac:(lia)) as Hsl. set (sl := nthZ data (Z.to_nat (offset + 3))) in *.
  destruct (n6_len data - (offset + 4) <? sl) eqn:E2; [reflexivity|].
  rewrite (n6_slice_eq data (offset + 4) (offset + 4 + sl)) by lia.
  destruct (_ && _); [cbn; lia|]. apply IH; try assumption; lia.
Qed.

Lemma gre_decode_no_panic old data : bytes_ok data -> is_panic (snd (fst (gre_decode_into old data))) = false.
Proof.
  intros Hb. unfold gre_decode_into. destruct (n6_len data <? 4) eqn:E4; [reflexivity|].
  rewrite (n6_idx_eq data 0), (n6_idx_eq data 1), (n6_slice_eq data 2 4) by lia. cbv zeta.
  set (g0 := mkGre _ _ _ _ _ _ _ _ _ _ 0 0 0 0 0 [] [] []).
  match goal with |- is_panic (snd (fst (match ?s with Stop r => r | Cont g o => _ end))) = false =>
    assert (G : good data s) end.
  { apply dbind_good; [apply dbind_good; [apply dbind_good; [apply dbind_good|]|]|].
    - destruct (g_csump g0 || g_routp g0); [|cbn; lia]. apply field4_good; [lia|]. intros b Hl. cbn. lia.
    - intros g o Ho. destruct (g_keyp g); [|exact Ho]. apply field4_good; [lia|]. intros b Hl. cbn. lia.
    - intros g o Ho. destruct (g_seqp g); [|exact Ho]. apply field4_good; [lia|]. intros b Hl. cbn. lia.
    - intros g o Ho. destruct (g_routp g); [|exact Ho]. apply sre_loop_good; try assumption. unfold n6_len in *. lia.
    - intros g o Ho. destruct (g_ackp g); [|exact Ho]. apply field4_good; [lia|]. intros b Hl. cbn. lia. }
  match goal with |- is_panic (snd (fst (match ?s with Stop r => r | Cont g o => _ end))) = false => destruct s as [g o|[[g r] t]] end.
  - cbn in G. rewrite (n6_slice_eq data 0 o), (n6_from_eq data o) by lia. reflexivity.
  - exact G.
Qed.

(* ---------------------------------------------------------------- C05 *)

Lemma gre_decode_fresh old data :
  let '(l1, r1, t1) := gre_decode_into old data in
  let '(l2, r2, t2) := gre_decode_into gre_fresh data in
  r1 = r2 /\ t1 = t2 /\ (4 <= n6_len data -> l1 = l2).
Proof.
  unfold gre_decode_into. destruct (n6_len data <? 4) eqn:E4. { repeat split. lia. }
  rewrite (n6_idx_eq data 0), (n6_idx_eq data 1), (n6_slice_eq data 2 4) by lia. cbv zeta.
  match goal with |- context [match ?s with Stop r => r | Cont g o => _ end] => destruct s as [g o|[[g r] t]] end.
  - destruct (n6_slice data 0 o), (n6_from data o); repeat split.
  - repeat split.
Qed.

Lemma gre_decode_ok_len old data : snd (fst (gre_decode_into old data)) = Ok tt -> 4 <= n6_len data.
Proof. unfold gre_decode_into. destruct (n6_len data <? 4) eqn:E; [discriminate|lia]. Qed.

(* ---------------------------------------------------------------- C07 *)

Lemma sre_seg_len s : n6_len (sre_seg s) = 4 + u8 (s_len s).
Proof.
  unfold sre_seg, n6_len. rewrite !app_length, be_bytes_length, repeat_length, firstn_length. cbn [length].
  assert (0 <= u8 (s_len s)) by (unfold u8; lia). lia.
Qed.

Lemma sre_segs_len rs : n6_len (concat (map sre_seg rs)) = fold_right (fun s a => 4 + u8 (s_len s) + a) 0 rs.
Proof.
  induction rs as [|s t IH]; [reflexivity|]. cbn [map concat fold_right]. rewrite n6_len_app, sre_seg_len, IH. lia.
Qed.

Lemma concat_len_app (a b : list (list Z)) : n6_len (concat (a ++ b)) = n6_len (concat a) + n6_len (concat b).
Proof. rewrite concat_app, n6_len_app. reflexivity. Qed.

Lemma gre_segs_len g : n6_len (concat (gre_segs g)) = gre_size g.
Proof.
  unfold gre_segs, gre_size. cbv zeta. rewrite !concat_len_app.
  assert (H4 : forall x, n6_len (be_bytes 4 x) = 4) by (intros; unfold n6_len; rewrite be_bytes_length; reflexivity).
  assert (H2 : forall x, n6_len (be_bytes 2 x) = 2) by (intros; unfold n6_len; rewrite be_bytes_length; reflexivity).
  cbn [concat]. rewrite app_nil_r, n6_len_app, H2. change (n6_len [_; _]) with 2.
  replace (n6_len (concat (if g_csump g || g_routp g then [[0; 0] ++ be_bytes 2 (g_offset g)] else [])))
    with (if g_csump g || g_routp g then 4 else 0)
    by (destruct (g_csump g || g_routp g); cbn [concat]; [rewrite app_nil_r, n6_len_app, H2; reflexivity|reflexivity]).
  replace (n6_len (concat (if g_keyp g then [be_bytes 4 (g_key g)] else []))) with (if g_keyp g then 4 else 0)
    by (destruct (g_keyp g); cbn [concat]; [rewrite app_nil_r, H4; reflexivity|reflexivity]).
  replace (n6_len (concat (if g_seqp g then [be_bytes 4 (g_seq g)] else []))) with (if g_seqp g then 4 else 0)
    by (destruct (g_seqp g); cbn [concat]; [rewrite app_nil_r, H4; reflexivity|reflexivity]).
  replace (n6_len (concat (if g_ackp g then [be_bytes 4 (g_ack g)] else []))) with (if g_ackp g then 4 else 0)
    by (destruct (g_ackp g); cbn [concat]; [rewrite app_nil_r, H4; reflexivity|reflexivity]).
  replace (n6_len (concat (if g_routp g then map sre_seg (g_routing g) ++ [[0; 0; 0; 0]] else [])))
    with (if g_routp g then fold_right (fun s a => 4 + u8 (s_len s) + a) 0 (g_routing g) + 4 else 0)
    by (destruct (g_routp g); [rewrite concat_len_app, sre_segs_len; reflexivity|reflexivity]).
  generalize (fold_right (fun s a => 4 + u8 (s_len s) + a) 0 (g_routing g)). intros F.
  destruct (g_csump g || g_routp g), (g_keyp g), (g_seqp g), (g_routp g), (g_ackp g); lia.
Qed.

Lemma gre_size_nonneg g : 4 <= gre_size g.
Proof.
  unfold gre_size. assert (0 <= fold_right (fun s a => 4 + u8 (s_len s) + a) 0 (g_routing g)).
  { induction (g_routing g) as [|s t IH]; cbn [fold_right]; [lia|]. unfold u8 in *. lia. }
  destruct (g_csump g || g_routp g), (g_keyp g), (g_seqp g), (g_routp g), (g_ackp g); lia.
Qed.

(* SerializeTo as a function of the layer, the payload and ComputeChecksums alone *)
Definition gre_wire (g : gre) (payload : list Z) (cs : bool) : outcome (list Z) * gre :=
  let hdr := concat (gre_segs g) in
  if g_csump g then
    let g' := if cs then set_csum g (n6_fold (n6_csum (hdr ++ payload) 0)) else g in
    (Ok (n6_put hdr 4 (be_bytes 2 (g_csum g')) ++ payload), g')
  else (Ok (hdr ++ payload), g).

Lemma gre_serialize_closed g payload fx cs junk : gre_serialize g payload fx cs junk = gre_wire g payload cs.
Proof.
  unfold gre_serialize, gre_wire. pose proof (gre_segs_len g) as HL. pose proof (gre_size_nonneg g) as HS.
  rewrite write_segs_ok by (rewrite n6_take_length; unfold n6_len in HL; lia).
  destruct (g_csump g) eqn:EC; [|reflexivity].
  replace (Nat.leb 6 (length (concat (gre_segs g)))) with true; [reflexivity|].
  symmetry. apply Nat.leb_le. unfold n6_len in HL. unfold gre_size in *. rewrite EC in *. cbn [orb] in *.
  assert (0 <= fold_right (fun s a => 4 + u8 (s_len s) + a) 0 (g_routing g)).
  { clear. induction (g_routing g) as [|s t IH]; cbn [fold_right]; [lia|]. unfold u8 in *. lia. }
  destruct (g_keyp g), (g_seqp g), (g_routp g), (g_ackp g); lia.
Qed.
