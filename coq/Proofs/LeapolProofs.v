(* Lemmas about the EAPOL header codec model (Model/LeapolModel.v). *)
From GP Require Import Base ListX Codec MiscLib LeapolModel.
From Coq Require Import Lia ZifyBool ZifyNat.
Open Scope Z_scope.
Ltac Zify.zify_post_hook ::= Z.div_mod_to_equations.

Lemma ea_decode_no_panic old data : is_panic (snd (fst (ea_decode_into old data))) = false.
Proof.
  unfold ea_decode_into. cbv zeta. destruct (zlen data <? 4) eqn:Hn; [reflexivity|].
  rewrite !cd_idx_ok by lia. rewrite cd_rd16_ok by lia. rewrite !cd_slc_ok by lia. reflexivity.
Qed.

Ltac eastep :=
  match goal with
  | |- context [ml_bind ?o _ _ _] => destruct o eqn:?; cbn [ml_bind]
  | |- context [if ?c then _ else _] => destruct c eqn:?
  end.

Lemma ea_decode_fresh old data :
  let r1 := ea_decode_into old data in
  let r2 := ea_decode_into ea_fresh data in
  snd (fst r1) = snd (fst r2) /\ snd r1 = snd r2 /\
  (snd (fst r1) = Ok tt -> fst (fst r1) = fst (fst r2)).
Proof.
  cbv zeta. unfold ea_decode_into. cbv zeta.
  repeat (eastep; try solve [cbn [fst snd]; split; [reflexivity | split; [reflexivity | try (intros X; discriminate X); try reflexivity]]]).
  all: try (cbn [fst snd]; split; [reflexivity | split; [reflexivity | intros _; reflexivity]]).
Qed.

Definition ea_hdr (l : eapol) : list Z := [ea_version l mod 256; ea_type l mod 256] ++ cd_put16 (ea_length l).

Lemma ea_serialize_spec l payload fixl csum junk : ea_serialize l payload fixl csum junk = (Ok (ea_hdr l ++ payload), l).
Proof.
  unfold ea_serialize, ea_hdr. cbv zeta.
  pose proof (ml_tile_init 4 junk ltac:(lia)) as T. do 3 ml_tile_step T.
  apply ml_tile_done in T; [|reflexivity]. subst. rewrite <- !app_assoc. reflexivity.
Qed.

Lemma ea_serialize_junk_free l payload fixl csum junk1 junk2 :
  ea_serialize l payload fixl csum junk1 = ea_serialize l payload fixl csum junk2.
Proof. rewrite !ea_serialize_spec. reflexivity. Qed.

Lemma ea_serialize_no_panic l payload fixl csum junk : is_panic (fst (ea_serialize l payload fixl csum junk)) = false.
Proof. rewrite ea_serialize_spec. reflexivity. Qed.

Definition ea_wf (l : eapol) : Prop := 0 <= ea_version l < 256 /\ 0 <= ea_type l < 256 /\ 0 <= ea_length l < 65536.

Lemma ea_roundtrip l payload fixl csum junk bytes l' old :
  ea_wf l -> ea_serialize l payload fixl csum junk = (Ok bytes, l') ->
  l' = l /\ bytes = ea_hdr l ++ payload /\
  ea_decode_into old bytes = (mkEa (ea_hdr l) payload (ea_version l) (ea_type l) (ea_length l), Ok tt, false).
Proof.
  intros [Hv [Ht Hl]]. rewrite ea_serialize_spec. intros X.
  assert (E1 : bytes = ea_hdr l ++ payload) by congruence. assert (E2 : l' = l) by congruence. clear X.
  split; [exact E2|]. split; [exact E1|]. subst bytes l'.
  pose proof (zlen_nonneg payload) as Np.
  remember (ea_hdr l) as h eqn:Hh. remember (h ++ payload) as data eqn:Hd.
  assert (Hlh : length h = 4%nat) by (subst h; reflexivity).
  assert (Hn : zlen data = 4 + zlen payload) by (subst data; rewrite zlen_app; unfold zlen at 1; rewrite Hlh; reflexivity).
  assert (Hnth : forall k, (k < 4)%nat -> nth k data 0 = nth k (ea_hdr l) 0) by (intros; subst data h; apply app_nth1; assumption).
  unfold ea_decode_into. cbv zeta. destruct (zlen data <? 4) eqn:C1; [lia|].
  rewrite !cd_idx_ok by lia. rewrite cd_rd16_ok by lia. rewrite !cd_slc_ok by lia. cbn [ml_bind].
  assert (S1 : slice data (Z.to_nat 0) (Z.to_nat 4) = h) by (subst data; apply slice_from_start; rewrite Hlh; reflexivity).
  assert (S2 : slice data (Z.to_nat 4) (Z.to_nat (zlen data)) = payload).
  { rewrite Hn. subst data. apply slice_to_end; [rewrite Hlh; reflexivity|]. rewrite Hlh. unfold zlen. lia. }
  rewrite S1, S2.
  change (Z.to_nat 0) with 0%nat; change (Z.to_nat 1) with 1%nat; change (Z.to_nat 2) with 2%nat; change (Z.to_nat (2 + 1)) with 3%nat.
  rewrite !Hnth by lia. unfold ea_hdr. cbn [nth app cd_put16]. rewrite cd_put16_be by lia.
  f_equal. f_equal. f_equal; lia.
Qed.

Lemma ea_decoded_wf old data l tr : bytes_ok data -> ea_decode_into old data = (l, Ok tt, tr) -> ea_wf l.
Proof.
  intros Hb. unfold ea_decode_into. cbv zeta. destruct (zlen data <? 4) eqn:Hn; [discriminate|].
  rewrite !cd_idx_ok by lia. rewrite cd_rd16_ok by lia. rewrite !cd_slc_ok by lia. cbn [ml_bind]. intros X.
  match type of X with (?t, _, _) = _ => assert (El : l = t) by congruence end. subst l. clear X.
  unfold ea_wf. cbn [ea_version ea_type ea_length].
  pose proof (bytes_ok_nth data (Z.to_nat 0) Hb). pose proof (bytes_ok_nth data (Z.to_nat 1) Hb).
  pose proof (bytes_ok_nth data (Z.to_nat 2) Hb). pose proof (bytes_ok_nth data (Z.to_nat (2 + 1)) Hb). lia.
Qed.
