(* C20 — what Read returns: the events (bytes, and with LossErrors one loss per Reassembly with
   Skip <> 0) returned so far, followed by what is still pending in the reader and in the
   assembler, are exactly the delivered ones, in order; EOF only after everything, then for ever. *)
From GP Require Import Base C20Model Diamond C20Measure C20Confluence C20Progress.
From Coq Require Import Lia.
Open Scope nat_scope.

(* ---- specification vocabulary *)
Inductive ev := EvByte (b : Z) | EvLost.

(* what a delivered Reassembly must produce at the reader *)
Definition ev_e (le : bool) (e : reasm) : list ev :=
  (if le && negb (rskip e =? 0)%Z then [EvLost] else []) ++ map EvByte (rbytes e).
Definition ev_b (le : bool) (b : batch) : list ev := flat_map (ev_e le) b.
Definition ev_hist (le : bool) (h : list batch) : list ev := flat_map (ev_b le) h.

(* what the consumer saw *)
Definition ev_obs (o : obs) : list ev :=
  match o with
  | ORead _ data e => map EvByte data ++ (match e with ELost => [EvLost] | _ => [] end)
  | OClose => []
  end.
Definition ev_out (out : list obs) : list ev := flat_map ev_obs (rev out).

(* pending in the reader (the loss of the head slice may already have been reported) and in the assembler *)
Definition ev_cur (le lr : bool) (c : batch) : list ev :=
  match c with
  | [] => []
  | e :: t => (if lr then map EvByte (rbytes e) else ev_e le e) ++ ev_b le t
  end.
Definition ev_a (le : bool) (a : apc) : list ev :=
  match a with
  | ASend b rest => ev_b le b ++ ev_hist le rest
  | ASent rest | AWait rest => ev_hist le rest
  | _ => []
  end.

Definition is_eof (o : obs) : bool := match o with ORead _ _ EEOF => true | _ => false end.
Definition is_end (o : obs) : bool :=
  match o with ORead _ [] EEOF => true | OClose => true | _ => false end.
Definition has_eof (out : list obs) : bool := existsb is_eof out.
Definition ended (out : list obs) : bool :=
  existsb (fun o => match o with ORead _ _ EEOF => true | OClose => true | _ => false end) out.
(* [out] is latest first: once an EOF or a Close has been returned, every later call returns
   (0 bytes, EOF) or is a Close *)
Fixpoint sticky (out : list obs) : Prop :=
  match out with
  | [] => True
  | o :: rest => (ended rest = true -> is_end o = true) /\ sticky rest
  end.

Definition is_close (o : cop) : bool := match o with CClose => true | _ => false end.
Definition no_close (prog : list cop) : bool := negb (existsb is_close prog).
Definition pc_close (p : cpc) : bool :=
  match p with CCloseAck | CCloseRecv | CCloseSend => true | _ => false end.

(* projections, to read the statement in terms of bytes and counts *)
Definition bytes_of_ev (l : list ev) : list Z :=
  flat_map (fun x => match x with EvByte b => [b] | EvLost => [] end) l.
Definition losses_of_ev (l : list ev) : nat :=
  length (filter (fun x => match x with EvLost => true | _ => false end) l).
Definition out_bytes (out : list obs) : list Z :=
  flat_map (fun o => match o with ORead _ data _ => data | OClose => [] end) (rev out).
Definition out_losses (out : list obs) : nat :=
  length (filter (fun o => match o with ORead _ _ ELost => true | _ => false end) out).
Definition all_bytes (h : list batch) : list Z := flat_map (fun b => flat_map rbytes b) h.
Definition all_skips (h : list batch) : nat :=
  length (filter (fun e => negb (rskip e =? 0)%Z) (concat h)).

(* ---- lemmas on events *)
Lemma ev_out_cons : forall o out, ev_out (o :: out) = ev_out out ++ ev_obs o.
Proof. intros. unfold ev_out. cbn [rev]. rewrite flat_map_app. cbn. rewrite app_nil_r. reflexivity. Qed.

Lemma ev_cur_false : forall le c, ev_cur le false c = ev_b le c.
Proof. intros le [|e t]; reflexivity. Qed.

Lemma ev_strip : forall g c lr, strip_keeps_loss g = true ->
  ev_cur (loss_errors g) (snd (strip g lr c)) (fst (strip g lr c)) = ev_cur (loss_errors g) lr c.
Proof.
  intros g c lr Hk. revert lr. induction c as [|e t IH]; intros lr; cbn [strip].
  - reflexivity.
  - destruct (rbytes e) as [|x l] eqn:Eb; [|reflexivity].
    rewrite Hk. cbn [andb].
    destruct (loss_errors g && negb lr && negb (rskip e =? 0)%Z) eqn:Eg; [reflexivity|].
    rewrite IH. rewrite ev_cur_false. cbn [ev_cur]. unfold ev_e. rewrite Eb. cbn [map]. rewrite app_nil_r.
    destruct lr; [reflexivity|]. cbn [negb] in Eg. rewrite andb_true_r in Eg. rewrite Eg. reflexivity.
Qed.

Lemma strip_nil_lr : forall g c lr, fst (strip g lr c) = [] -> (c = [] -> lr = false) ->
  snd (strip g lr c) = false.
Proof.
  intros g c. induction c as [|e t IH]; intros lr Hf Hl; cbn [strip] in *.
  - cbn. auto.
  - destruct (rbytes e); [|cbn in Hf; discriminate].
    destruct (strip_keeps_loss g && loss_errors g && negb lr && negb (rskip e =? 0)%Z); [cbn in Hf; discriminate|].
    apply IH; auto.
Qed.

Lemma strip_nil_in : forall g lr, strip g lr [] = ([], lr).
Proof. reflexivity. Qed.

(* the part of the state the byte invariant talks about *)
Definition pend (le : bool) (c : cstate) : list ev := ev_out (out c) ++ ev_cur le (lrep c) (cur c).

Lemma pend_finish : forall g c n d,
  pend (loss_errors g) (c_finish g c n d) = pend (loss_errors g) c /\
  ((cur c = [] -> lrep c = false) -> cur (c_finish g c n d) = [] -> lrep (c_finish g c n d) = false).
Proof.
  intros g c n d. unfold c_finish, pend. destruct (cur c) as [|e t] eqn:Ec.
  - cbn [out cur lrep]. rewrite ev_out_cons. cbn [ev_obs map app]. rewrite app_nil_r. split; auto.
  - destruct (loss_errors g && negb (lrep c) && negb (rskip e =? 0)%Z) eqn:Eg.
    + cbn [out cur lrep]. rewrite ev_out_cons. cbn [ev_obs map app]. split; [|discriminate].
      apply andb_true_iff in Eg. destruct Eg as [Eg Esk]. apply andb_true_iff in Eg. destruct Eg as [Ele Elr].
      apply negb_true_iff in Elr. rewrite Elr. cbn [ev_cur]. unfold ev_e. rewrite Ele, Esk. cbn [andb app].
      rewrite <- app_assoc. reflexivity.
    + cbn [out cur lrep]. rewrite ev_out_cons. cbn [ev_obs]. rewrite app_nil_r. split; [|discriminate].
      cbn [ev_cur]. rewrite <- app_assoc. f_equal.
      destruct (lrep c) eqn:Elr.
      * cbn [rbytes]. rewrite app_assoc. rewrite <- map_app. rewrite firstn_skipn. reflexivity.
      * cbn [negb] in Eg. rewrite andb_true_r in Eg. unfold ev_e. cbn [rbytes rskip]. rewrite Eg. cbn [app].
        rewrite app_assoc. rewrite <- map_app. rewrite firstn_skipn. reflexivity.
Qed.

Lemma pend_loop : forall g c n d,
  pend (loss_errors g) (c_loop g c n d) = pend (loss_errors g) c /\
  ((cur c = [] -> lrep c = false) -> cur (c_loop g c n d) = [] -> lrep (c_loop g c n d) = false).
Proof.
  intros g c n d. unfold c_loop. destruct (negb (closed c) && isnil (cur c)).
  - destruct (first c); unfold pend, set_pc; cbn [out cur lrep]; auto.
  - apply pend_finish.
Qed.

Lemma pend_strip : forall g c, strip_keeps_loss g = true ->
  pend (loss_errors g) (c_strip g c) = pend (loss_errors g) c /\
  ((cur c = [] -> lrep c = false) -> cur (c_strip g c) = [] -> lrep (c_strip g c) = false).
Proof.
  intros g c Hk. unfold pend, c_strip. cbn [out cur lrep]. rewrite ev_strip by exact Hk. split; [reflexivity|].
  intros H1 H2. apply strip_nil_lr; auto.
Qed.

Lemma loop_fields : forall g c n d,
  closed (c_loop g c n d) = closed c /\
  (first c = false -> first (c_loop g c n d) = false) /\
  (cur c = [] -> cur (c_loop g c n d) = []).
Proof.
  intros g c n d. unfold c_loop. destruct (negb (closed c) && isnil (cur c)).
  - destruct (first c) eqn:Ef; unfold set_pc; cbn; auto.
  - destruct (finish_fields g c n d) as [_ [-> ->]]. split; [reflexivity|]. split; [auto|].
    intros Hc. unfold c_finish. rewrite Hc. reflexivity.
Qed.

(* ---- the byte/loss invariant, as long as no Close has begun *)
Definition ainv (le : bool) (all : list ev) (s : st) : Prop :=
  pend le (cs s) ++ ev_a le (ap s) = all /\
  (cur (cs s) = [] -> lrep (cs s) = false) /\
  (closed (cs s) = true -> rc s = true /\ cur (cs s) = []) /\
  (first (cs s) = true -> cur (cs s) = []) /\
  pc_close (pc (cs s)) = false.

Lemma ev_a_next : forall le le' rest, ev_a le (a_next (fixed le') rest) = ev_hist le rest.
Proof. intros le le' [|b r]; reflexivity. Qed.

Lemma ainv_init : forall le hist prog, ainv le (ev_hist le hist) (init (fixed le) hist prog).
Proof.
  intros le hist prog. unfold ainv, init, pend. cbn [cs ap rc out cur lrep closed first pc pc_close ev_out rev flat_map ev_cur app].
  rewrite ev_a_next. repeat split; auto; discriminate.
Qed.

(* a Read call (begin, or after a receive) keeps the invariant's consumer part *)
Lemma read_body_inv : forall le c n d,
  (cur c = [] -> lrep c = false) ->
  let c' := c_loop (fixed le) (c_strip (fixed le) c) n d in
  pend le c' = pend le c /\ (cur c' = [] -> lrep c' = false) /\ closed c' = closed c /\
  (first c = false -> first c' = false) /\ (cur c = [] -> cur c' = []).
Proof.
  intros le c n d Hl c'. subst c'.
  destruct (pend_strip (fixed le) c eq_refl) as [Hp1 Hl1].
  destruct (pend_loop (fixed le) (c_strip (fixed le) c) n d) as [Hp2 Hl2].
  destruct (loop_fields (fixed le) (c_strip (fixed le) c) n d) as [Hc [Hf Hcu]].
  cbn [loss_errors fixed] in *. split; [congruence|]. split; [auto|]. split; [exact Hc|]. split; [exact Hf|].
  intros E. apply Hcu. unfold c_strip. cbn [cur]. rewrite E. reflexivity.
Qed.

Lemma pc_loop_notclose : forall g c n d, pc_close (pc (c_loop g c n d)) = false.
Proof.
  intros g c n d. unfold c_loop. destruct (negb (closed c) && isnil (cur c)).
  - destruct (first c); reflexivity.
  - destruct (finish_fields g c n d) as [-> _]. reflexivity.
Qed.

(* one step: the invariant is kept, unless the step is the start of a Close *)
Lemma ainv_step : forall le all s s', hinv s -> ainv le all s -> step (fixed le) s s' ->
  ainv le all s' \/ (pc (cs s) = CIdle /\ exists r, ops (cs s) = CClose :: r /\ s' = mkS (close_begin (fixed le) (set_ops (cs s) r)) (ap s) (rc s) (dc s)).
Proof.
  intros le all s s' [Hrc [Hdc [Hap Hc]]] [Hall [Hlr [Hcl [Hfi Hpcc]]]] Hst.
  destruct s as [c a r d]. cbn [cs ap rc dc] in *. unfold hinv_c in Hc.
  destruct Hst as [H | [H | H]].
  - unfold do_sync in H. cbn [cs ap rc dc] in H.
    destruct (sync (fixed le) r d c a) as [[c' a']|] eqn:E; [|discriminate]. injection H as <-.
    left. unfold sync in E.
    destruct (pc c) eqn:Hpc; try discriminate; destruct a as [b rest|rest|rest| | | |]; try discriminate.
    + destruct d; [discriminate|]. injection E as <- <-. unfold ainv. cbn [cs ap rc dc].
      rewrite ev_a_next. unfold set_pc, pend in *. cbn [out cur lrep closed first pc pc_close] in *. auto.
    + destruct r; [discriminate|]. injection E as <- <-. unfold ainv. cbn [cs ap rc dc].
      destruct Hc as [_ [Hclosed [Hfirst Hcur]]].
      unfold read_recv_ok.
      match goal with |- context [c_loop _ (c_strip _ ?x) n d0] => set (c1 := x) end.
      assert (Hl1 : cur c1 = [] -> lrep c1 = false).
      { subst c1. cbn [cur lrep]. intros _. apply Hlr. exact Hcur. }
      destruct (read_body_inv le c1 n d0 Hl1) as [Hp [Hl' [Hc' [Hf' _]]]].
      rewrite Hp. split; [|split; [exact Hl'|split; [|split; [|apply pc_loop_notclose]]]].
      * rewrite <- Hall. unfold pend. subst c1. cbn [out cur lrep ev_a].
        rewrite Hcur. rewrite (Hlr Hcur). rewrite ev_cur_false. cbn [ev_cur]. rewrite app_nil_r.
        rewrite <- app_assoc. reflexivity.
      * rewrite Hc'. subst c1. cbn [closed]. rewrite Hclosed. discriminate.
      * intros Hf1. rewrite Hf' in Hf1; [discriminate|]. subst c1. cbn [first]. exact Hfirst.
  - unfold do_tau_c in H. cbn [cs ap rc dc] in H.
    destruct (tau_c (fixed le) r d (is_parked a) c) as [c'|] eqn:E; [|discriminate]. injection H as <-.
    unfold tau_c in E. destruct (pc c) eqn:Hpc.
    + destruct (ops c) as [|o ro] eqn:Hops; [discriminate|]. destruct o as [n|m|]; injection E as <-.
      * left. unfold read_begin. cbn [initiated fixed].
        match goal with |- context [c_loop _ (c_strip _ ?x) n None] => set (c1 := x) end.
        assert (Hl1 : cur c1 = [] -> lrep c1 = false) by (subst c1; cbn [cur lrep]; exact Hlr).
        destruct (read_body_inv le c1 n None Hl1) as [Hp [Hl' [Hc' [Hf' Hcu']]]].
        unfold ainv. cbn [cs ap rc dc]. rewrite Hp.
        split; [|split; [exact Hl'|split; [|split; [|apply pc_loop_notclose]]]].
        -- rewrite <- Hall. unfold pend. subst c1. reflexivity.
        -- rewrite Hc'. subst c1. cbn [closed]. intros Hx. destruct (Hcl Hx) as [Hr Hcu]. split; [exact Hr|].
           apply Hcu'. cbn [cur]. exact Hcu.
        -- intros Hf1. apply Hcu'. subst c1. cbn [cur]. apply Hfi.
           destruct (first c) eqn:Ef; [reflexivity|]. rewrite Hf' in Hf1; [discriminate|]. cbn. exact Ef.
      * left. unfold read_begin. cbn [initiated fixed].
        match goal with |- context [c_loop _ (c_strip _ ?x) (S m) (Some m)] => set (c1 := x) end.
        assert (Hl1 : cur c1 = [] -> lrep c1 = false) by (subst c1; cbn [cur lrep]; exact Hlr).
        destruct (read_body_inv le c1 (S m) (Some m) Hl1) as [Hp [Hl' [Hc' [Hf' Hcu']]]].
        unfold ainv. cbn [cs ap rc dc]. rewrite Hp.
        split; [|split; [exact Hl'|split; [|split; [|apply pc_loop_notclose]]]].
        -- rewrite <- Hall. unfold pend. subst c1. reflexivity.
        -- rewrite Hc'. subst c1. cbn [closed]. intros Hx. destruct (Hcl Hx) as [Hr Hcu]. split; [exact Hr|].
           apply Hcu'. cbn [cur]. exact Hcu.
        -- intros Hf1. apply Hcu'. subst c1. cbn [cur]. apply Hfi.
           destruct (first c) eqn:Ef; [reflexivity|]. rewrite Hf' in Hf1; [discriminate|]. cbn. exact Ef.
      * right. split; [reflexivity|]. exists ro. split; reflexivity.
    + destruct d; [|discriminate]. destruct Hc as [Hw _]. destruct a; cbn in Hw, Hdc; discriminate.
    + destruct r; [|discriminate]. injection E as <-. left.
      destruct Hc as [_ [Hclosed [Hfirst Hcur]]]. unfold read_recv_closed.
      match goal with |- context [c_loop _ ?x n d0] => set (c1 := x) end.
      destruct (pend_loop (fixed le) c1 n d0) as [Hp Hl'].
      destruct (loop_fields (fixed le) c1 n d0) as [Hc' [Hf' Hcu']].
      cbn [loss_errors fixed] in *.
      unfold ainv. cbn [cs ap rc dc]. rewrite Hp.
      split; [|split; [|split; [|split; [|apply pc_loop_notclose]]]].
      * rewrite <- Hall. unfold pend. subst c1. cbn [out cur lrep]. rewrite Hcur. reflexivity.
      * apply Hl'. subst c1. cbn [cur lrep]. intros _. apply Hlr. exact Hcur.
      * intros _. split; [reflexivity|]. apply Hcu'. reflexivity.
      * intros _. apply Hcu'. reflexivity.
    + cbn in Hpcc. discriminate.
    + cbn in Hpcc. discriminate.
    + cbn in Hpcc. discriminate.
    + discriminate.
  - unfold do_tau_a in H. cbn [cs ap rc dc] in H.
    destruct (tau_a (fixed le) a r d) as [[[a' r'] d']|] eqn:E; [|discriminate]. injection H as <-.
    left. unfold tau_a in E. cbn [initiated fixed negb orb] in E. unfold ainv. cbn [cs ap rc dc].
    destruct a; try discriminate; cbn in Hrc, Hdc; subst r d; injection E as <- <- <-; cbn [ev_a] in *;
      (split; [exact Hall|split; [exact Hlr|split; [|split; [exact Hfi|exact Hpcc]]]]);
      intros Hx; destruct (Hcl Hx) as [Hr Hcu]; auto.
Qed.

Lemma noclose_loop : forall g c n d, existsb is_close (ops c) = false ->
  existsb is_close (ops (c_loop g c n d)) = false.
Proof.
  intros g c n d H. unfold c_loop. destruct (negb (closed c) && isnil (cur c)).
  - destruct (first c); unfold set_pc; cbn [ops]; exact H.
  - unfold c_finish. destruct (cur c) as [|e t]; [exact H|].
    destruct (loss_errors g && negb (lrep c) && negb (rskip e =? 0)%Z); cbn [ops]; destruct d; cbn; exact H.
Qed.

Lemma noclose_step : forall g s s', existsb is_close (ops (cs s)) = false -> step g s s' ->
  existsb is_close (ops (cs s')) = false.
Proof.
  intros g s s' Hn Hst. destruct s as [c a r d]. cbn [cs] in *. destruct Hst as [H | [H | H]].
  - unfold do_sync in H. cbn [cs ap rc dc] in H.
    destruct (sync g r d c a) as [[c' a']|] eqn:E; [|discriminate]. injection H as <-. cbn [cs].
    unfold sync in E. destruct (pc c); try discriminate; destruct a; try discriminate.
    + destruct d; [discriminate|]. injection E as <- _. exact Hn.
    + destruct r; [discriminate|]. injection E as <- _. unfold read_recv_ok. apply noclose_loop. exact Hn.
    + destruct d; [discriminate|]. injection E as <- _. exact Hn.
    + destruct r; [discriminate|]. injection E as <- _. exact Hn.
    + destruct d; [discriminate|]. injection E as <- _. exact Hn.
  - unfold do_tau_c in H. cbn [cs ap rc dc] in H.
    destruct (tau_c g r d (is_parked a) c) as [c'|] eqn:E; [|discriminate]. injection H as <-. cbn [cs].
    unfold tau_c in E. destruct (pc c).
    + destruct (ops c) as [|o ro] eqn:Hops; [discriminate|]. cbn [existsb] in Hn. apply orb_false_iff in Hn.
      destruct Hn as [Ho Hn]. destruct o; [| |discriminate]; injection E as <-; unfold read_begin;
        (destruct (initiated g); [apply noclose_loop|]); exact Hn.
    + destruct d; [|discriminate]. injection E as <-. exact Hn.
    + destruct r; [|discriminate]. injection E as <-. unfold read_recv_closed. apply noclose_loop. exact Hn.
    + destruct d; [injection E as <-; exact Hn|].
      destruct (ack_nb g && negb (is_parked a)); [injection E as <-; exact Hn | discriminate].
    + destruct r; [|discriminate]. injection E as <-. exact Hn.
    + destruct d; [|discriminate]. injection E as <-. exact Hn.
    + discriminate.
  - unfold do_tau_a in H. cbn [cs ap rc dc] in H.
    destruct (tau_a g a r d) as [[[a' r'] d']|] eqn:E; [|discriminate]. injection H as <-. exact Hn.
Qed.

Lemma reach_ainv : forall le hist prog n s, no_close prog = true ->
  steps (step (fixed le)) n (init (fixed le) hist prog) s ->
  hinv s /\ ainv le (ev_hist le hist) s.
Proof.
  intros le hist prog n s Hnc Hs.
  assert (H : hinv s /\ ainv le (ev_hist le hist) s /\ existsb is_close (ops (cs s)) = false).
  { apply (inv_steps (fun s => hinv s /\ ainv le (ev_hist le hist) s /\ existsb is_close (ops (cs s)) = false) (fixed le))
      with (n := n) (s0 := init (fixed le) hist prog); auto.
    - intros x y [Hi [Ha Hn]] Hst. split; [eapply hinv_step; eauto|]. split; [|eapply noclose_step; eauto].
      destruct (ainv_step _ _ _ _ Hi Ha Hst) as [Ha' | [_ [r [Hops _]]]]; [exact Ha'|].
      rewrite Hops in Hn. cbn in Hn. discriminate.
    - split; [apply hinv_init|]. split; [apply ainv_init|]. unfold init. cbn [cs ops].
      unfold no_close in Hnc. apply negb_true_iff in Hnc. exact Hnc. }
  destruct H as [H1 [H2 _]]. split; assumption.
Qed.

(* ---- consequences *)
Lemma ainv_terminal : forall le all s, hinv s -> ainv le all s -> terminal s -> ev_out (out (cs s)) = all.
Proof.
  intros le all s [_ [_ [_ Hc]]] [Hall [_ [Hcl [Hfi _]]]] [Ha [Hpc _]].
  unfold hinv_c in Hc. rewrite Hpc in Hc. rewrite Ha in *. cbn [is_wait ev_a] in *.
  unfold idle_cond in Hc. rewrite app_nil_r in Hall. unfold pend in Hall.
  assert (Hcur : cur (cs s) = []).
  { destruct (first (cs s)) eqn:Ef; [apply Hfi; reflexivity|].
    destruct (closed (cs s)) eqn:Ecl; [apply Hcl; reflexivity|]. cbn in Hc. discriminate. }
  rewrite Hcur in Hall. cbn [ev_cur] in Hall. rewrite app_nil_r in Hall. exact Hall.
Qed.

(* a closed stream (the consumer has seen the channel closed) has nothing pending *)
Lemma ainv_closed : forall le all s, hinv s -> ainv le all s -> closed (cs s) = true -> ev_out (out (cs s)) = all.
Proof.
  intros le all s [Hrc [_ [_ _]]] [Hall [_ [Hcl _]]] Hclosed.
  destruct (Hcl Hclosed) as [Hr Hcur]. rewrite Hr in Hrc.
  unfold pend in Hall. rewrite Hcur in Hall. cbn [ev_cur] in Hall. rewrite app_nil_r in Hall.
  destruct (ap s); cbn in Hrc; try discriminate; cbn [ev_a] in Hall; rewrite app_nil_r in Hall; exact Hall.
Qed.

(* ---- EOF and Close are final: for every program *)
Definition einv (c : cstate) : Prop :=
  (pc_close (pc c) = true -> cur c = []) /\
  (ended (out c) = true -> closed c = true /\ cur c = []) /\
  (has_eof (out c) = true -> closed c = true) /\
  sticky (out c).

Lemma einv_loop : forall g c n d,
  (ended (out c) = true -> closed c = true /\ cur c = []) ->
  (has_eof (out c) = true -> closed c = true) -> sticky (out c) ->
  einv (c_loop g c n d).
Proof.
  intros g c n d He Hf Hs. unfold c_loop.
  destruct (negb (closed c) && isnil (cur c)) eqn:E.
  - destruct (first c); unfold einv, set_pc; cbn [pc cur out closed pc_close];
      (split; [discriminate|]); (split; [exact He|]); (split; [exact Hf | exact Hs]).
  - unfold c_finish. destruct (cur c) as [|e t] eqn:Ec.
    + cbn [isnil] in E. rewrite andb_true_r in E. apply negb_false_iff in E.
      unfold einv. cbn [pc cur out closed pc_close]. split; [auto|]. split; [auto|]. split; [auto|].
      cbn [sticky is_end]. split; auto.
    + assert (Hne : ended (out c) = false).
      { destruct (ended (out c)); [|reflexivity]. destruct (He eq_refl) as [_ Hx]. discriminate. }
      destruct (loss_errors g && negb (lrep c) && negb (rskip e =? 0)%Z);
        unfold einv; cbn [pc cur out closed pc_close ended existsb has_eof is_eof orb]; fold (ended (out c)); fold (has_eof (out c));
        (split; [discriminate|]); (split; [rewrite Hne; discriminate|]); (split; [exact Hf|]);
        cbn [sticky]; (split; [rewrite Hne; discriminate | exact Hs]).
Qed.

Ltac efin :=
  match goal with
  | Hpcl : _ -> cur _ = [], He : ended _ = true -> _, Hf : has_eof _ = true -> _ |- _ =>
    split; [try (intros; discriminate); auto |
    split; [let Hx := fresh in let Hy := fresh in let Hz := fresh in
            intros Hx; destruct (He Hx) as [Hy Hz]; split; auto |
    split; [let Hx := fresh in intros Hx; try (pose proof (Hf Hx)); auto | auto]]]
  end.

Lemma einv_step : forall le s s', hinv s -> einv (cs s) -> step (fixed le) s s' -> einv (cs s').
Proof.
  intros le s s' [Hrc [Hdc [Hap Hc]]] [Hpcl [He [Hf Hs]]] Hst.
  destruct s as [c a r d]. cbn [cs ap rc dc] in *. unfold hinv_c in Hc.
  destruct Hst as [H | [H | H]].
  - unfold do_sync in H. cbn [cs ap rc dc] in H.
    destruct (sync (fixed le) r d c a) as [[c' a']|] eqn:E; [|discriminate]. injection H as <-. cbn [cs].
    unfold sync in E.
    destruct (pc c) eqn:Hpc; try discriminate; destruct a as [b rest|rest|rest| | | |]; try discriminate.
    + destruct d; [discriminate|]. injection E as <- _. unfold einv, set_pc. cbn [pc cur out closed pc_close] in *. efin.
    + destruct r; [discriminate|]. injection E as <- _. destruct Hc as [_ [Hclosed _]].
      unfold read_recv_ok. apply einv_loop; unfold c_strip; cbn [out closed cur]; auto.
      intros Hx. destruct (He Hx) as [Hy _]. congruence.
    + destruct d; [discriminate|]. injection E as <- _. unfold einv, close_acked. cbn [pc cur out closed pc_close] in *. efin.
    + destruct r; [discriminate|]. injection E as <- _. unfold einv, close_recv_ok. cbn [pc cur out closed pc_close] in *. efin.
    + destruct d; [discriminate|]. injection E as <- _. unfold einv, set_pc. cbn [pc cur out closed pc_close] in *. efin.
  - unfold do_tau_c in H. cbn [cs ap rc dc] in H.
    destruct (tau_c (fixed le) r d (is_parked a) c) as [c'|] eqn:E; [|discriminate]. injection H as <-. cbn [cs].
    unfold tau_c in E. destruct (pc c) eqn:Hpc.
    + destruct (ops c) as [|o ro] eqn:Hops; [discriminate|]. destruct o as [n|m|]; injection E as <-.
      * unfold read_begin. cbn [initiated fixed]. apply einv_loop; unfold c_strip, set_ops; cbn [out closed cur lrep]; auto.
        intros Hx. destruct (He Hx) as [Hy Hz]. split; [exact Hy|]. rewrite Hz. reflexivity.
      * unfold read_begin. cbn [initiated fixed]. apply einv_loop; unfold c_strip, set_ops; cbn [out closed cur lrep]; auto.
        intros Hx. destruct (He Hx) as [Hy Hz]. split; [exact Hy|]. rewrite Hz. reflexivity.
      * unfold close_begin, set_ops. cbn [close_acks fixed first closed andb].
        destruct (negb (first c) && negb (closed c)) eqn:Eh; unfold einv; cbn [pc cur out closed pc_close] in *; efin.
    + destruct d; [|discriminate]. destruct Hc as [Hw _]. destruct a; cbn in Hw, Hdc; discriminate.
    + destruct r; [|discriminate]. injection E as <-. unfold read_recv_closed. apply einv_loop; cbn [out closed cur]; auto.
    + destruct d; [|discriminate]. destruct Hc as [Hw _]. destruct a; cbn in Hw, Hdc; discriminate.
    + destruct r; [|discriminate]. injection E as <-. destruct Hc as [_ Hclosed].
      unfold einv, close_return. cbn [pc cur out closed pc_close ended existsb has_eof is_eof orb sticky is_end] in *.
      fold (has_eof (out c)). split; [discriminate|]. split; [auto|]. split; [exact Hf|]. split; [auto | exact Hs].
    + destruct d; [|discriminate]. destruct Hc as [Hw _]. destruct a; cbn in Hw, Hdc; discriminate.
    + discriminate.
  - unfold do_tau_a in H. cbn [cs ap rc dc] in H.
    destruct (tau_a (fixed le) a r d) as [[[a' r'] d']|] eqn:E; [|discriminate]. injection H as <-. cbn [cs].
    unfold einv. auto.
Qed.

Lemma reach_einv : forall le hist prog n s,
  steps (step (fixed le)) n (init (fixed le) hist prog) s -> einv (cs s).
Proof.
  intros le hist prog n s Hs.
  assert (H : hinv s /\ einv (cs s)).
  { apply (inv_steps (fun s => hinv s /\ einv (cs s)) (fixed le)) with (n := n) (s0 := init (fixed le) hist prog); auto.
    - intros x y [Hi Hei] Hst. split; [eapply hinv_step | eapply einv_step]; eauto.
    - split; [apply hinv_init|]. unfold einv, init. cbn. repeat split; auto; discriminate. }
  apply H.
Qed.

(* ---- any program (also with Close): what was read is a prefix of what was delivered *)
Definition binv (all : list ev) (s : st) : Prop :=
  (closed (cs s) = true \/ pc (cs s) = CCloseAck) /\ cur (cs s) = [] /\
  exists dropped, ev_out (out (cs s)) ++ dropped = all.

Lemma binv_step : forall le all s s', hinv s -> binv all s -> step (fixed le) s s' -> binv all s'.
Proof.
  intros le all s s' [Hrc [Hdc [Hap Hc]]] [Hcl [Hcur [dr Hall]]] Hst.
  destruct s as [c a r d]. cbn [cs ap rc dc] in *. unfold hinv_c in Hc.
  destruct Hst as [H | [H | H]].
  - unfold do_sync in H. cbn [cs ap rc dc] in H.
    destruct (sync (fixed le) r d c a) as [[c' a']|] eqn:E; [|discriminate]. injection H as <-.
    unfold sync in E. unfold binv. cbn [cs].
    destruct (pc c) eqn:Hpc; try discriminate; destruct a as [b rest|rest|rest| | | |]; try discriminate.
    + exfalso. destruct Hc as [_ [Hx _]]. destruct Hcl; congruence.
    + exfalso. destruct Hc as [_ [Hx _]]. destruct Hcl; congruence.
    + destruct d; [discriminate|]. injection E as <- _. unfold close_acked. cbn [closed pc cur out]. eauto.
    + destruct r; [discriminate|]. injection E as <- _. unfold close_recv_ok. cbn [closed pc cur out].
      destruct Hcl as [Hx|Hx]; [|discriminate]. eauto.
    + destruct d; [discriminate|]. injection E as <- _. unfold set_pc. cbn [closed pc cur out].
      destruct Hcl as [Hx|Hx]; [|discriminate]. eauto.
  - unfold do_tau_c in H. cbn [cs ap rc dc] in H.
    destruct (tau_c (fixed le) r d (is_parked a) c) as [c'|] eqn:E; [|discriminate]. injection H as <-.
    unfold tau_c in E. unfold binv. cbn [cs]. destruct (pc c) eqn:Hpc.
    + destruct Hcl as [Hclosed|Hx]; [|discriminate].
      destruct (ops c) as [|o ro] eqn:Hops; [discriminate|]. destruct o as [n|m|]; injection E as <-.
      * unfold read_begin, c_strip, set_ops, c_loop, c_finish. cbn [initiated fixed cur lrep closed first pc ops out tags].
        rewrite Hcur, Hclosed. cbn [strip fst snd negb andb closed cur out]. split; [auto|]. split; [reflexivity|].
        exists dr. rewrite ev_out_cons. cbn [ev_obs map app]. rewrite app_nil_r. exact Hall.
      * unfold read_begin, c_strip, set_ops, c_loop, c_finish. cbn [initiated fixed cur lrep closed first pc ops out tags].
        rewrite Hcur, Hclosed. cbn [strip fst snd negb andb closed cur out]. split; [auto|]. split; [reflexivity|].
        exists dr. rewrite ev_out_cons. cbn [ev_obs map app]. rewrite app_nil_r. exact Hall.
      * unfold close_begin, set_ops. cbn [close_acks fixed first closed andb]. rewrite Hclosed. rewrite andb_false_r.
        cbn [closed pc cur out]. eauto.
    + exfalso. destruct Hc as [_ [Hx _]]. destruct Hcl; congruence.
    + exfalso. destruct Hc as [_ [Hx _]]. destruct Hcl; congruence.
    + destruct d; [|discriminate]. destruct Hc as [Hw _]. destruct a; cbn in Hw, Hdc; discriminate.
    + destruct r; [|discriminate]. injection E as <-. unfold close_return. cbn [closed pc cur out].
      destruct Hcl as [Hx|Hx]; [|discriminate]. split; [auto|]. split; [exact Hcur|].
      exists dr. rewrite ev_out_cons. cbn [ev_obs]. rewrite app_nil_r. exact Hall.
    + destruct d; [|discriminate]. destruct Hc as [Hw _]. destruct a; cbn in Hw, Hdc; discriminate.
    + discriminate.
  - unfold do_tau_a in H. cbn [cs ap rc dc] in H.
    destruct (tau_a (fixed le) a r d) as [[[a' r'] d']|] eqn:E; [|discriminate]. injection H as <-.
    unfold binv. cbn [cs]. eauto.
Qed.

Lemma reach_prefix : forall le hist prog n s,
  steps (step (fixed le)) n (init (fixed le) hist prog) s ->
  exists rest, ev_out (out (cs s)) ++ rest = ev_hist le hist.
Proof.
  intros le hist prog n s Hs.
  assert (H : hinv s /\ (ainv le (ev_hist le hist) s \/ binv (ev_hist le hist) s)).
  { apply (inv_steps (fun s => hinv s /\ (ainv le (ev_hist le hist) s \/ binv (ev_hist le hist) s)) (fixed le))
      with (n := n) (s0 := init (fixed le) hist prog); auto.
    - intros x y [Hi Hab] Hst. split; [eapply hinv_step; eauto|].
      destruct Hab as [Ha | Hb]; [|right; eapply binv_step; eauto].
      destruct (ainv_step _ _ _ _ Hi Ha Hst) as [Ha' | [Hpc [r [Hops ->]]]]; [left; exact Ha'|].
      right. destruct Ha as [Hall _]. unfold binv, close_begin, set_ops. cbn [cs close_acks fixed first closed andb].
      destruct (negb (first (cs x)) && negb (closed (cs x))); cbn [closed pc cur out];
        (split; [auto|]); (split; [reflexivity|]); unfold pend in Hall; rewrite <- app_assoc in Hall; eauto.
    - split; [apply hinv_init|]. left. apply ainv_init. }
  destruct H as [_ [[Hall _] | [_ [_ Hd]]]]; [|exact Hd].
  unfold pend in Hall. rewrite <- app_assoc in Hall. eauto.
Qed.

(* ---- projections *)
Lemma bytes_of_ev_app : forall a b, bytes_of_ev (a ++ b) = bytes_of_ev a ++ bytes_of_ev b.
Proof. intros. unfold bytes_of_ev. apply flat_map_app. Qed.
Lemma losses_of_ev_app : forall a b, losses_of_ev (a ++ b) = losses_of_ev a + losses_of_ev b.
Proof. intros. unfold losses_of_ev. rewrite filter_app, app_length. reflexivity. Qed.
Lemma bytes_of_ev_map : forall l, bytes_of_ev (map EvByte l) = l.
Proof. induction l as [|x l IH]; cbn; [reflexivity|]. f_equal. exact IH. Qed.
Lemma losses_of_ev_map : forall l, losses_of_ev (map EvByte l) = 0.
Proof. induction l as [|x l IH]; cbn; [reflexivity|]. exact IH. Qed.

Lemma bytes_of_ev_hist : forall le h, bytes_of_ev (ev_hist le h) = all_bytes h.
Proof.
  intros le h. induction h as [|b h IH]; [reflexivity|].
  unfold ev_hist, all_bytes in *. cbn [flat_map]. rewrite bytes_of_ev_app, IH. f_equal.
  induction b as [|e b IHb]; [reflexivity|]. unfold ev_b in *. cbn [flat_map].
  rewrite bytes_of_ev_app, IHb. f_equal. unfold ev_e. rewrite bytes_of_ev_app, bytes_of_ev_map.
  destruct (le && negb (rskip e =? 0)%Z); reflexivity.
Qed.

Lemma losses_of_ev_hist : forall le h, losses_of_ev (ev_hist le h) = if le then all_skips h else 0.
Proof.
  intros le h. unfold all_skips. induction h as [|b h IH]; [destruct le; reflexivity|].
  unfold ev_hist in *. cbn [flat_map concat]. rewrite losses_of_ev_app, IH.
  rewrite filter_app, app_length.
  assert (Hb : losses_of_ev (ev_b le b) = if le then length (filter (fun e => negb (rskip e =? 0)%Z) b) else 0).
  { induction b as [|e b IHb]; [destruct le; reflexivity|]. unfold ev_b in *. cbn [flat_map filter].
    rewrite losses_of_ev_app, IHb. unfold ev_e. rewrite losses_of_ev_app, losses_of_ev_map.
    destruct le; cbn [andb]; [|reflexivity]. destruct (negb (rskip e =? 0)%Z); reflexivity. }
  rewrite Hb. destruct le; reflexivity.
Qed.

Lemma bytes_of_ev_out : forall out, bytes_of_ev (ev_out out) = out_bytes out.
Proof.
  intros out. unfold ev_out, out_bytes. induction (rev out) as [|o l IH]; [reflexivity|].
  cbn [flat_map]. rewrite bytes_of_ev_app, IH. f_equal. destruct o as [n data e|]; [|reflexivity].
  cbn [ev_obs]. rewrite bytes_of_ev_app, bytes_of_ev_map. destruct e; cbn; rewrite app_nil_r; reflexivity.
Qed.

Lemma losses_of_ev_out : forall out, losses_of_ev (ev_out out) = out_losses out.
Proof.
  intros out. unfold ev_out, out_losses. rewrite <- (rev_involutive out) at 2.
  induction (rev out) as [|o l IH]; [reflexivity|].
  cbn [flat_map rev]. rewrite losses_of_ev_app, filter_app, app_length, IH. rewrite Nat.add_comm. f_equal.
  destruct o as [n data e|]; [|reflexivity]. cbn [ev_obs]. rewrite losses_of_ev_app, losses_of_ev_map.
  destruct e; reflexivity.
Qed.
