(* Lradiotap — proofs about the RadioTap codec model: decoder safety (no panic, fuel), fresh = reused,
   serializer safety and junk freedom. *)
From GP Require Import Base ListX Codec MiscLib LradiotapModel.
From Coq Require Import Lia ZifyBool ZifyNat.
Open Scope Z_scope.
Ltac Zify.zify_post_hook ::= Z.div_mod_to_equations.

Definition safe {A} (o : outcome A) : Prop :=
  match o with Ok _ => True | Err c => c <> 99 | Panic _ => False end.
Lemma safe_np {A} (o : outcome A) : safe o -> is_panic o = false.
Proof. destruct o; cbn; [reflexivity|reflexivity|tauto]. Qed.
Lemma safe_fuel {A} (o : outcome A) : safe o -> o <> Err 99.
Proof. destruct o; cbn; intros H E; [discriminate|inversion E; subst; apply H; reflexivity|tauto]. Qed.

Definition fld_ok (f : fld) : Prop := let '(bit, al, size, used) := f in 0 < al /\ 0 <= used <= size.
Lemma rt_fields_ok : Forall fld_ok rt_fields.
Proof. unfold rt_fields. repeat constructor; cbn; lia. Qed.

Lemma rt_align_nonneg off w : 0 < w -> 0 <= rt_align off w.
Proof.
  intros H. unfold rt_align, u16. apply Z.mul_nonneg_nonneg; [|lia].
  apply Z.div_pos; [|lia]. apply Z.mod_pos_bound. lia.
Qed.

Lemma rt_align_bound off w : 0 < w -> 0 <= off -> off + (w - 1) < 65536 -> off <= rt_align off w <= off + (w - 1).
Proof.
  intros H H0 H1. unfold rt_align, u16. rewrite Z.mod_small by lia.
  pose proof (Z.div_mod (off + (w - 1)) w ltac:(lia)) as E.
  pose proof (Z.mod_pos_bound (off + (w - 1)) w H) as B.
  set (q := (off + (w - 1)) / w) in *. set (r := (off + (w - 1)) mod w) in *. nia.
Qed.

Lemma cd_slc_safe l a b : 0 <= a <= b -> b <= zlen l -> safe (cd_slc l a b).
Proof. intros. rewrite cd_slc_ok by lia. exact I. Qed.

Lemma u16_small x : 0 <= x < 65536 -> u16 x = x.
Proof. intros. unfold u16. apply Z.mod_small. lia. Qed.

Lemma rt_step_safe d present st f : zlen d <= 65535 -> fld_ok f -> safe (rt_step d present st f).
Proof.
  intros Hd Hf. destruct f as [[[bit al] size] used]. cbn in Hf. destruct Hf as (Ha & Hu).
  unfold rt_step. destruct (Z.testbit present bit); [|exact I].
  pose proof (rt_align_nonneg (fst st) al Ha) as Hn. set (off := rt_align (fst st) al) in *.
  destruct (used =? 0); [exact I|].
  destruct (off + size >? zlen d) eqn:E; [cbn; lia|].
  rewrite u16_small by lia. rewrite cd_slc_ok by lia. exact I.
Qed.

Lemma rt_fields_loop_safe d present fs : zlen d <= 65535 -> Forall fld_ok fs ->
  forall st, safe (rt_fields_loop d present fs st).
Proof.
  intros Hd Hf. induction Hf as [|f fs Hf _ IH]; intros st; cbn [rt_fields_loop]; [exact I|].
  pose proof (rt_step_safe d present st f Hd Hf) as S.
  destruct (rt_step d present st f); cbn [obind]; [apply IH|exact S|exact S].
Qed.

Lemma rt_le16_ok d off : 0 <= off -> off + 1 < zlen d ->
  rt_le16 d off = Ok (nth (Z.to_nat off) d 0 + 256 * nth (Z.to_nat (off + 1)) d 0).
Proof. intros. unfold rt_le16. rewrite !cd_idx_ok by lia. reflexivity. Qed.

Lemma rt_le32_ok d off : 0 <= off -> off + 3 < zlen d -> exists w, rt_le32 d off = Ok w.
Proof. intros. unfold rt_le32. rewrite !rt_le16_ok by lia. cbn [obind]. eexists; reflexivity. Qed.

Lemma rt_vendor_safe d off : zlen d <= 65535 -> bytes_ok d -> safe (rt_vendor_dec d off).
Proof.
  intros Hd Hb. unfold rt_vendor_dec. pose proof (rt_align_nonneg off 2 ltac:(lia)) as Hn.
  set (o := rt_align off 2) in *.
  destruct (o + 8 >? zlen d) eqn:E; [cbn; lia|].
  rewrite (u16_small (o + 3)) by lia. rewrite cd_slc_ok by lia. cbn [obind].
  rewrite (u16_small (o + 4)) by lia. rewrite cd_idx_ok by lia. cbn [obind].
  rewrite (u16_small (o + 4 + 2)) by lia. rewrite rt_le16_ok by lia. cbn [obind].
  pose proof (bytes_ok_nth d (Z.to_nat (o + 4 + 2)) Hb) as B1.
  pose proof (bytes_ok_nth d (Z.to_nat (o + 4 + 2 + 1)) Hb) as B2.
  set (skip := _ + 256 * _) in *.
  rewrite (u16_small (o + 4 + 2 + 2)) by lia.
  destruct (o + 4 + 2 + 2 + skip >? zlen d) eqn:E2; [cbn; lia|].
  rewrite cd_slc_ok by lia. exact I.
Qed.

Lemma rt_ns_loop_safe d : zlen d <= 65535 -> bytes_ok d ->
  forall ps rtn vn off rv vv, safe (snd (rt_ns_loop d ps rtn vn off rv vv)).
Proof.
  intros Hd Hb. induction ps as [|p t IH]; intros; cbn [rt_ns_loop]; [exact I|].
  destruct rtn.
  - unfold rt_ns_dec. pose proof (rt_fields_loop_safe d p rt_fields Hd rt_fields_ok (off, [])) as S.
    destruct (rt_fields_loop d p rt_fields (off, [])) as [[o' vals]| |]; [|exact S|exact S].
    destruct (Z.testbit p 31); [apply IH|exact I].
  - destruct vn; [|exact I]. pose proof (rt_vendor_safe d off Hd Hb) as S.
    destruct (rt_vendor_dec d off) as [[o' v]| |]; [|exact S|exact S].
    destruct (Z.testbit p 31); [apply IH|exact I].
Qed.

Lemma rt_ns_loop_len d : forall ps rtn vn off rv vv,
  (length rv <= length (fst (fst (rt_ns_loop d ps rtn vn off rv vv))))%nat.
Proof.
  induction ps as [|p t IH]; intros; cbn [rt_ns_loop]; [cbn; lia|].
  destruct rtn.
  - destruct (rt_ns_dec d off p) as [[o' vals]| |]; [|cbn; lia|cbn; lia].
    destruct (Z.testbit p 31).
    + eapply Nat.le_trans; [|apply IH]. rewrite app_length. lia.
    + cbn. rewrite app_length. lia.
  - destruct vn; [|cbn; lia]. destruct (rt_vendor_dec d off) as [[o' v]| |]; [|cbn; lia|cbn; lia].
    destruct (Z.testbit p 31); [apply IH|cbn; lia].
Qed.

(* the first namespace is a radiotap namespace: after a successful walk RadioTapValues[0] exists *)
Lemma rt_ns_loop_first d p t off : forall rv vv r,
  rt_ns_loop d (p :: t) true false off [] [] = (rv, vv, Ok r) -> rv <> [].
Proof.
  intros rv vv r. cbn [rt_ns_loop].
  destruct (rt_ns_dec d off p) as [[o' vals]| |]; [|discriminate|discriminate].
  destruct (Z.testbit p 31).
  - intros E. pose proof (rt_ns_loop_len d t (Z.testbit p 29) (Z.testbit p 30) o' ([] ++ [vals]) []) as L.
    rewrite E in L. cbn in L. destruct rv; [cbn in L; lia|discriminate].
  - intros E. inversion E. discriminate.
Qed.

Lemma rt_present_loop_safe data dataLen : dataLen <= zlen data -> dataLen <= 65535 ->
  forall fuel off lastw acc, 0 <= off -> off + 4 <= dataLen -> dataLen < off + 8 + 4 * Z.of_nat fuel ->
  safe (snd (rt_present_loop fuel data dataLen off lastw acc)).
Proof.
  intros H1 H2. induction fuel as [|f IH]; intros off lastw acc H0 Hb Hf; cbn [rt_present_loop];
    (destruct (Z.testbit lastw 31); [|exact I]); rewrite (u16_small (off + 4)) by lia;
    (destruct (off + 4 + 4 >? dataLen) eqn:E; [cbn; lia|]); [lia|].
  destruct (rt_le32_ok data (off + 4) ltac:(lia) ltac:(lia)) as [w ->]. apply IH; lia.
Qed.

Lemma rt_present_loop_acc data dataLen : forall fuel off lastw acc,
  exists more, fst (rt_present_loop fuel data dataLen off lastw acc) = acc ++ more.
Proof.
  induction fuel as [|f IH]; intros; cbn [rt_present_loop];
    (destruct (Z.testbit lastw 31); [|exists []; cbn; rewrite app_nil_r; reflexivity]);
    (destruct (u16 (off + 4) + 4 >? dataLen); [exists []; cbn; rewrite app_nil_r; reflexivity|]).
  - exists []. cbn. rewrite app_nil_r. reflexivity.
  - destruct (rt_le32 data (u16 (off + 4))) as [w| |]; try (exists []; cbn; rewrite app_nil_r; reflexivity).
    destruct (IH (u16 (off + 4)) w (acc ++ [w])) as [more E]. exists ([w] ++ more). rewrite E, <- app_assoc. reflexivity.
Qed.

Lemma rt_depad_safe flags p : safe (rt_depad flags p).
Proof.
  unfold rt_depad. destruct (Z.testbit flags 5 && (zlen p >=? 2) && (Z.land (nth 0 p 0) 12 =? 8)); [|exact I].
  set (h := 24 + _ + _).
  assert (24 <= h <= 28) by (unfold h; destruct (Z.land (nth 0 p 0) 140 =? 136), (Z.land (nth 1 p 0) 3 =? 3); lia).
  destruct ((h mod 4 =? 2) && (zlen p >=? h + 2)) eqn:E; [|exact I].
  rewrite !cd_slc_ok by lia. exact I.
Qed.

Lemma rt_payload_of_safe flags p : safe (rt_payload_of flags p).
Proof.
  unfold rt_payload_of. pose proof (rt_depad_safe flags p) as S.
  destruct (rt_depad flags p); cbn [obind]; [destruct (Z.testbit flags 4); exact I|exact S|exact S].
Qed.

Lemma zlen_firstn_le (l : list Z) n : zlen (firstn n l) <= Z.of_nat n.
Proof. unfold zlen. rewrite firstn_length. lia. Qed.

Theorem rt_decode_safe old data : bytes_ok data -> safe (snd (fst (rt_decode_into old data))).
Proof.
  intros Hb. unfold rt_decode_into.
  set (n := zlen data). set (dataLen := if n <? 65535 then n else 65535).
  assert (Hdl : dataLen <= n /\ dataLen <= 65535) by (unfold dataLen; destruct (n <? 65535) eqn:E; lia).
  destruct (dataLen <? 8) eqn:E8; [cbn; lia|].
  rewrite cd_idx_ok by (fold n; lia). cbn [ml_bind].
  rewrite cd_slc_ok by (fold n; lia). cbn [ml_bind].
  rewrite rt_le16_ok by (fold n; lia). cbn [ml_bind].
  pose proof (bytes_ok_nth data (Z.to_nat 2) Hb) as B1. pose proof (bytes_ok_nth data (Z.to_nat (2 + 1)) Hb) as B2.
  set (len0 := _ + 256 * _) in *.
  set (len := if len0 >? dataLen then dataLen else len0).
  assert (Hlen : 0 <= len <= dataLen) by (unfold len; destruct (len0 >? dataLen) eqn:E; lia).
  rewrite cd_slc_ok by (fold n; lia). cbn [ml_bind].
  destruct (rt_le32_ok data 4 ltac:(lia) ltac:(fold n; lia)) as [w0 ->]. cbn [ml_bind].
  pose proof (rt_present_loop_safe data dataLen ltac:(fold n; lia) ltac:(lia) (length data) 4 w0 [w0] ltac:(lia) ltac:(lia)
                ltac:(fold (zlen data); fold n; lia)) as SP.
  destruct (rt_present_loop_acc data dataLen (length data) 4 w0 [w0]) as [more EP].
  destruct (rt_present_loop (length data) data dataLen 4 w0 [w0]) as [ps [off| |]]; cbn [fst snd] in *; [|exact SP|exact SP].
  set (d := firstn (Z.to_nat dataLen) data).
  assert (Hd : zlen d <= 65535) by (pose proof (zlen_firstn_le data (Z.to_nat dataLen)); unfold d; lia).
  pose proof (rt_ns_loop_safe d Hd (bytes_ok_firstn _ _ Hb) ps true false (u16 (off + 4)) [] []) as SN.
  destruct (rt_ns_loop d ps true false (u16 (off + 4)) [] []) as [[rv vv] [u| |]] eqn:EN; cbn [fst snd] in *; [|exact SN|exact SN].
  rewrite cd_slc_ok by lia. cbn [ml_bind].
  subst ps. cbn [app] in EN. apply rt_ns_loop_first in EN.
  destruct rv as [|v0 rv']; [congruence|]. cbn [rt_flags0 ml_bind].
  pose proof (rt_payload_of_safe (nth 0 (nth 1 v0 []) 0) (slice data (Z.to_nat len) (Z.to_nat n))) as SY.
  destruct (rt_payload_of _ _); cbn [ml_bind fst snd]; [|exact SY|exact SY].
  rewrite cd_slc_ok by lia. exact I.
Qed.

(* ---------------------------------------------------------------- C05 *)
Ltac rt_case :=
  match goal with
  | |- context [match ?x with _ => _ end] =>
    match x with context [rt_fresh] => fail 1 | _ => destruct x eqn:? end
  end.

Theorem rt_decode_fresh old data :
  let r1 := rt_decode_into old data in
  let r2 := rt_decode_into rt_fresh data in
  snd (fst r1) = snd (fst r2) /\ snd r1 = snd r2 /\ (snd (fst r1) = Ok tt -> fst (fst r1) = fst (fst r2)).
Proof.
  cbv zeta. unfold rt_decode_into, ml_bind.
  repeat (rt_case; cbn [fst snd]); repeat split; try reflexivity; intros; try discriminate;
    repeat match goal with u : unit |- _ => destruct u end; try reflexivity.
Qed.

(* ---------------------------------------------------------------- serializer *)
Definition fsum (fs : list fld) : Z := fold_right (fun f a => let '(_, al, size, _) := f in (al - 1) + size + a) 0 fs.
Definition vsum (vs : list vendor) : Z := fold_right (fun v a => rt_vsize v + a) 0 vs.
Definition skip_ok (v : vendor) : Prop := 0 <= vn_skip v < 65536.

Lemma fsum_fields : fsum rt_fields = 106.
Proof. reflexivity. Qed.

Lemma ml_wrc_len b i vs b' : ml_wrc b i vs = Ok b' -> zlen b' = zlen b.
Proof. unfold ml_wrc. destruct ((0 <=? i) && (i + zlen vs <=? zlen b)); intros E; inversion E. apply cd_wr_length. Qed.
Lemma ml_copy_len b i vs b' : ml_copy b i vs = Ok b' -> zlen b' = zlen b.
Proof. unfold ml_copy. destruct ((0 <=? i) && (i <=? zlen b)); intros E; inversion E. apply cd_wr_length. Qed.
Lemma ml_copy_ok b i vs : 0 <= i <= zlen b -> exists b', ml_copy b i vs = Ok b'.
Proof. intros. unfold ml_copy. destruct (0 <=? i) eqn:A, (i <=? zlen b) eqn:B; try lia. eexists; reflexivity. Qed.

Lemma zlen_firstn_pad (v : list Z) used : 0 <= used -> zlen (firstn (Z.to_nat used) (v ++ repeat 0 (Z.to_nat used))) = used.
Proof. intros. unfold zlen. rewrite firstn_length, app_length, repeat_length. lia. Qed.

Lemma rt_ser_fields_ok present : forall fs vs buf off, Forall fld_ok fs -> 0 <= off ->
  off + fsum fs <= zlen buf -> zlen buf <= 65535 ->
  exists buf' off', rt_ser_fields present fs vs buf off = Ok (buf', off') /\ zlen buf' = zlen buf /\ off <= off' <= off + fsum fs.
Proof.
  induction fs as [|f fs IH]; intros vs buf off Hf H0 Hs Hb.
  - exists buf, off. cbn in *. repeat split; lia.
  - inversion Hf as [|? ? Hf1 Hf2]; subst. destruct f as [[[bit al] size] used]. cbn in Hf1. destruct Hf1 as (Ha & Hu).
    set (T := fsum (_ :: fs)) in *. assert (Hsum : T = (al - 1) + size + fsum fs) by reflexivity.
    assert (Hfs : 0 <= fsum fs).
    { clear - Hf2. induction Hf2 as [|g gs Hg _ IHg]; [cbn; lia|]. destruct g as [[[b a] s] u]. cbn in Hg.
      change (fsum ((b, a, s, u) :: gs)) with ((a - 1) + s + fsum gs). lia. }
    cbn [rt_ser_fields]. destruct (Z.testbit present bit).
    + pose proof (rt_align_bound off al Ha H0 ltac:(lia)) as AB. set (off1 := rt_align off al) in *.
      destruct (used =? 0) eqn:EU.
      * rewrite u16_small by lia.
        destruct (IH (tl vs) buf (off1 + size) Hf2 ltac:(lia) ltac:(lia) Hb) as (b' & o' & E & L & B).
        exists b', o'. repeat split; try assumption; lia.
      * rewrite ml_wrc_ok by (rewrite ?zlen_firstn_pad by lia; lia). cbn [obind].
        rewrite u16_small by lia.
        destruct (IH (tl vs) (cd_wr buf off1 (firstn (Z.to_nat used) (hd [] vs ++ repeat 0 (Z.to_nat used)))) (off1 + size) Hf2
                    ltac:(lia) ltac:(rewrite cd_wr_length; lia) ltac:(rewrite cd_wr_length; lia)) as (b' & o' & E & L & B).
        exists b', o'. rewrite cd_wr_length in L. repeat split; try assumption; lia.
    + destruct (IH (tl vs) buf off Hf2 H0 ltac:(lia) Hb) as (b' & o' & E & L & B).
      exists b', o'. repeat split; try assumption; lia.
Qed.

Lemma rt_ser_vendor_ok v buf off : 0 <= off -> skip_ok v -> off + 9 + vn_skip v <= zlen buf -> zlen buf <= 65535 ->
  exists buf' off', rt_ser_vendor v buf off = Ok (buf', off') /\ zlen buf' = zlen buf /\ off <= off' <= off + 9 + vn_skip v.
Proof.
  intros H0 Hs Hl Hb. unfold rt_ser_vendor, skip_ok in *.
  pose proof (rt_align_bound off 2 ltac:(lia) H0 ltac:(lia)) as AB. set (o := rt_align off 2) in *.
  destruct (ml_copy_ok buf o (firstn 3 (vn_oui v)) ltac:(lia)) as [b1 E1]. rewrite E1. cbn [obind].
  pose proof (ml_copy_len _ _ _ _ E1) as L1.
  rewrite (u16_small (o + 4)) by lia.
  rewrite ml_wrc_ok by (rewrite ?zlen_one; lia). cbn [obind].
  rewrite (u16_small (o + 4 + 2)) by lia.
  rewrite ml_wrc_ok by (rewrite ?cd_wr_length; change (zlen (rt_put16 (vn_skip v))) with 2; lia). cbn [obind].
  rewrite (u16_small (o + 4 + 2 + 2)) by lia.
  set (b3 := cd_wr (cd_wr b1 _ _) _ _). assert (L3 : zlen b3 = zlen buf) by (unfold b3; rewrite !cd_wr_length; exact L1).
  destruct (ml_copy_ok b3 (o + 4 + 2 + 2) (vn_contents v) ltac:(lia)) as [b4 E4]. rewrite E4. cbn [obind].
  pose proof (ml_copy_len _ _ _ _ E4) as L4.
  rewrite u16_small by lia.
  exists b4, (o + 4 + 2 + 2 + vn_skip v). repeat split; lia.
Qed.

Lemma rt_ser_present_ok : forall ps buf off, 0 <= off -> off + 4 * zlen ps <= zlen buf -> zlen buf <= 65535 ->
  exists buf', rt_ser_present ps buf off = Ok (buf', off + 4 * zlen ps) /\ zlen buf' = zlen buf.
Proof.
  induction ps as [|p t IH]; intros buf off H0 Hl Hb; cbn [rt_ser_present].
  - exists buf. rewrite zlen_nil, Z.mul_0_r, Z.add_0_r. split; reflexivity.
  - rewrite zlen_cons in *. pose proof (zlen_nonneg t).
    rewrite ml_wrc_ok by (change (zlen (rt_put32 p)) with 4; lia). cbn [obind].
    rewrite u16_small by lia.
    destruct (IH (cd_wr buf off (rt_put32 p)) (off + 4) ltac:(lia) ltac:(rewrite cd_wr_length; lia) ltac:(rewrite cd_wr_length; lia))
      as (b' & E & L).
    exists b'. rewrite E, L, cd_wr_length. split; [f_equal; f_equal; lia|reflexivity].
Qed.

Lemma vsum_nonneg vs : Forall skip_ok vs -> 0 <= vsum vs.
Proof.
  induction 1 as [|v vs Hv _ IH]; [cbn; lia|]. change (vsum (v :: vs)) with (rt_vsize v + vsum vs).
  unfold rt_vsize, skip_ok in *. pose proof (zlen_nonneg (vn_contents v)). lia.
Qed.

Lemma rt_ser_loop_ok : forall ps rtn vn rvs vvs buf off, 0 <= off -> Forall skip_ok vvs ->
  off + 128 * zlen ps + vsum vvs <= zlen buf -> zlen buf <= 65535 ->
  match rt_ser_loop ps rtn vn rvs vvs buf off with
  | Ok (buf', off') => zlen buf' = zlen buf /\ 0 <= off' <= zlen buf
  | Err _ => True
  | Panic _ => False
  end.
Proof.
  induction ps as [|p t IH]; intros rtn vn rvs vvs buf off H0 Hv Hl Hb; cbn [rt_ser_loop].
  - pose proof (vsum_nonneg vvs Hv). rewrite zlen_nil in Hl. split; [reflexivity|lia].
  - rewrite zlen_cons in Hl. pose proof (zlen_nonneg t). pose proof (vsum_nonneg vvs Hv) as Hvn.
    destruct rtn.
    + destruct rvs as [|v rvs']; [exact I|].
      destruct (rt_ser_fields_ok p rt_fields v buf off rt_fields_ok H0 ltac:(rewrite fsum_fields; lia) Hb)
        as (b' & o' & E & L & B). rewrite fsum_fields in B. rewrite E. cbn [obind fst snd].
      specialize (IH (Z.testbit p 29) (Z.testbit p 30) rvs' vvs b' o' ltac:(lia) Hv ltac:(lia) ltac:(lia)).
      destruct (rt_ser_loop t _ _ rvs' vvs b' o') as [[b2 o2]| |]; [|exact I|exact IH]. rewrite L in IH. exact IH.
    + destruct vn.
      * destruct vvs as [|v vvs']; [exact I|]. inversion Hv as [|? ? Hv1 Hv2]; subst.
        change (vsum (v :: vvs')) with (rt_vsize v + vsum vvs') in *. pose proof (vsum_nonneg vvs' Hv2).
        assert (9 + vn_skip v <= rt_vsize v) by (unfold rt_vsize; pose proof (zlen_nonneg (vn_contents v)); lia).
        destruct (rt_ser_vendor_ok v buf off H0 Hv1 ltac:(lia) Hb) as (b' & o' & E & L & B). rewrite E. cbn [obind fst snd].
        specialize (IH (Z.testbit p 29) (Z.testbit p 30) rvs vvs' b' o' ltac:(lia) Hv2 ltac:(lia) ltac:(lia)).
        destruct (rt_ser_loop t _ _ rvs vvs' b' o') as [[b2 o2]| |]; [|exact I|exact IH]. rewrite L in IH. exact IH.
      * split; [reflexivity|lia].
Qed.

Definition rt_val_ok (l : radiotap) : Prop := Forall skip_ok (rt_vendor l).

Lemma zlen_repeat (x : Z) n : zlen (repeat x n) = Z.of_nat n.
Proof. unfold zlen. rewrite repeat_length. reflexivity. Qed.

(* no panic, and the result does not depend on the prior content of the prepended region *)
Theorem rt_serialize_spec l payload fixl csum junk : rt_val_ok l ->
  is_panic (fst (rt_serialize l payload fixl csum junk)) = false /\
  rt_serialize l payload fixl csum junk = rt_serialize l payload fixl csum [].
Proof.
  intros Hv. unfold rt_serialize.
  destruct (existsb _ (rt_vendor l)); [split; reflexivity|].
  destruct (rt_size l >? 65535) eqn:ES; [split; reflexivity|].
  set (size := if rt_size l <? 1024 then 1024 else rt_size l).
  assert (Hsz : 1024 <= size <= 65535 /\ rt_size l <= size) by (unfold size; destruct (rt_size l <? 1024) eqn:E; lia).
  set (buf := repeat 0 (Z.to_nat size)).
  assert (Lb : zlen buf = size) by (unfold buf; rewrite zlen_repeat; lia).
  pose proof (zlen_nonneg (rt_present l)) as Hp. pose proof (vsum_nonneg _ Hv) as Hvs.
  assert (Hrs : rt_size l = 4 + zlen (rt_present l) * 132 + vsum (rt_vendor l)) by reflexivity.
  rewrite ml_wrc_ok by (change (zlen [rt_version l mod 256; 0]) with 2; lia). cbn [obind].
  destruct (rt_ser_present_ok (rt_present l) (cd_wr buf 0 [rt_version l mod 256; 0]) 4 ltac:(lia)
              ltac:(rewrite cd_wr_length; lia) ltac:(rewrite cd_wr_length; lia)) as (b1 & E1 & L1).
  rewrite E1. cbn [obind fst snd]. rewrite cd_wr_length in L1.
  pose proof (rt_ser_loop_ok (rt_present l) true false (rt_values l) (rt_vendor l) b1 (4 + 4 * zlen (rt_present l))
                ltac:(lia) Hv ltac:(lia) ltac:(lia)) as SL.
  destruct (rt_ser_loop _ true false _ _ b1 _) as [[b2 off]| |]; [|split; reflexivity|contradiction].
  destruct SL as (L2 & Ho).
  rewrite !ml_wrc_ok by (change (zlen (rt_put16 _)) with 2; lia).
  rewrite cd_wr_length.
  assert (Z.to_nat (Z.min off (zlen b2)) = Z.to_nat off) as -> by lia.
  assert (forall j, skipn (Z.to_nat off) (cd_region off j) = []) as R.
  { intros j. apply skipn_all2. pose proof (cd_region_length off j ltac:(lia)) as LR. unfold zlen in LR. lia. }
  rewrite !R. split; reflexivity.
Qed.
